(* Correspondence for C17, histories: ONE builder value (sdf.Polygon / sdf.Bezier) that is
   rendered several times, with further Add()/Close()/Reverse() calls between the renders.
   The state the Go value keeps between two calls (p.vlist after relToAbs/createArcs/
   smoothVertices; b.vlist after handles()/closure()) is the post-state of the model's own
   fixups, so a render that consumes, keeps or re-applies a marking (handles, smoothing and arc
   flags, relative offsets, the closing end point) differently from the model shows up at the
   next render.  FOps instance, evaluated by the cases files cases_hpoly_*.v / cases_hbezier_*.v. *)
From Coq Require Import List ZArith NArith Floats Bool.
From Sdfx Require Import Num.Ops.
From Sdfx Require Import Num.FInst.
From Sdfx Require Import Geo.Vec.
From Sdfx Require Import Sdf.Build.
From Sdfx Require Import Sdf.Bezier.
From Sdfx Require Import Sdf.C17Corr.
Import ListNotations.

(* ---- Polygon.  A step: the vertices added (x, y, chained calls), whether Close() / Reverse()
   was called, then Vertices(): observed vertices (None = the call panicked).
   p.vlist after the call = fixups of the model; a panic (relToAbs on a relative first vertex of
   an open polygon, before anything is written) leaves it unchanged. *)
Definition stephp := (list (float * float * list (vop FOps)) * (bool * bool) * option (list fpt))%type.
Definition casehp := (N * list stephp)%type.
Fixpoint runhp (eq : float -> float -> bool) (closed reverse : bool) (l : list (PV FOps)) (steps : list stephp) : bool :=
  match steps with
  | [] => true
  | (vs, (cl, rv), g) :: r =>
    let l1 := l ++ map (fun v : float * float * list (vop FOps) => let '(x, y, ops) := v in add_vertex x y ops) vs in
    let closed' := closed || cl in
    let reverse' := reverse || rv in
    let p := mkPolygon closed' reverse' l1 in
    match vertices p, fixups p, g with
    | None, _, None => runhp eq closed' reverse' l1 r
    | Some m, Some l2, Some g => pts_agree eq m g && runhp eq closed' reverse' l2 r
    | _, _, _ => false
    end
  end.
Definition okhp (eq : float -> float -> bool) (c : casehp) : bool := runhp eq false false [] (snd c).
Definition mismatcheshp (cs : list casehp) : list N := map fst (filter (fun c => negb (okhp fclose c)) cs).
Definition inexacthp (cs : list casehp) : list N := map fst (filter (fun c => negb (okhp fsame c)) cs).

(* ---- Bezier.  A step: the vertices added, whether Close() was called, then Polygon() (or
   Mesh2D(), which calls it): the draws sdfRand.Float64() returned and the observed outcome
   (None = the polyline of this call was not observed: Mesh2D()).
   b.vlist after the call: handles() always replaces it; closure() appends the closing end point
   unless it fails; validate() and the spline construction do not write. *)
Definition bstate_after (closed : bool) (l : list (BV FOps)) : list (BV FOps) :=
  let h := handles l in
  match closure closed h with
  | None => h
  | Some l' => l'
  end.
Definition okres (eq : float -> float -> bool) (m : outcome FOps) (g : bres) : bool :=
  match m, g with
  | Panic, BPanic => true
  | Error, BError => true
  | Verts m, BVerts g => pts_agree eq m g
  | _, _ => false
  end.
Definition stephb := (list (float * float * list (bop FOps)) * bool * list float * option bres)%type.
Definition casehb := (N * list stephb)%type.
Fixpoint runhb (eq : float -> float -> bool) (closed : bool) (l : list (BV FOps)) (steps : list stephb) : bool :=
  match steps with
  | [] => true
  | (vs, cl, rs, g) :: r =>
    match all_some (map (fun v : float * float * list (bop FOps) => let '(x, y, ops) := v in add_bvertex x y ops) vs) with
    | None =>     (* a builder call panicked (handle on a midpoint): the harness ends the history here *)
      match g with Some BPanic => true | _ => false end
    | Some nv =>
      let l1 := l ++ nv in
      let closed' := closed || cl in
      match g with
      | None => true
      | Some g => okres eq (bezier_polygon closed' l1 rs) g
      end && runhb eq closed' (bstate_after closed' l1) r
    end
  end.
Definition okhb (eq : float -> float -> bool) (c : casehb) : bool := runhb eq false [] (snd c).
Definition mismatcheshb (cs : list casehb) : list N := map fst (filter (fun c => negb (okhb fclose c)) cs).
Definition inexacthb (cs : list casehb) : list N := map fst (filter (fun c => negb (okhb fsame c)) cs).

(* the state kept between two renders is the model's own post-state: a second render of an
   unchanged value starts from bfixups' result (when the first one succeeded) *)
Lemma bstate_after_bfixups : forall closed l l',
  bfixups closed l = Some l' -> bstate_after closed l = l'.
Proof.
  intros closed l l' H. unfold bfixups in H. unfold bstate_after.
  destruct (closure closed (handles l)) as [l0|]; [|discriminate].
  destruct (validate closed l0); [|discriminate]. now inversion H.
Qed.
