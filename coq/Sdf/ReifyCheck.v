(* The boolean well-formedness checker of dumped trees, run at exact rationals (a float64 is a
   dyadic rational, so the parameters of a dumped object convert without loss), and its
   soundness: wfb t = true -> rwf (t with every parameter injected into R).  Together with the
   induction of Sdf/ReifyR.v this turns `wfb3 t = true` (evaluated by vm_compute in the cases file of
   the run) into a proof, for that concrete object, that its box contains every point of space
   where its value is negative. *)
From Coq Require Import Reals Lra Lia List Bool ZArith NArith QArith Qreals Permutation Psatz.
From Sdfx Require Import Num.Ops Num.RInst Num.QInst Geo.Vec Geo.Box Geo.BoxR Geo.NormR Geo.Mat
  Sdf.Union2 Sdf.Shape Sdf.ShapeR Sdf.EncloseR Sdf.EncloseComb Sdf.EncloseXform Sdf.EncloseSlice
  Sdf.EncloseAll Sdf.Poly Sdf.PolyR Sdf.PolyTreeR Sdf.Reify Sdf.ReifyR Sdf.Prim2X Sdf.Prim2XR.
Import ListNotations.

Notation QS2 := (RShape2 QOps).
Notation QS3 := (RShape3 QOps).
Definition inj2 : QS2 -> RR2 := @rmap2 QOps ROps Q2R.
Definition inj3 : QS3 -> RR3 := @rmap3 QOps ROps Q2R.
Definition injm (m : list Q) : list R := map Q2R m.

(* ------------------------------------------------------------ Q -> R *)
Local Open Scope R_scope.
Lemma Q2R_zero : Q2R 0 = 0.
Proof. unfold Q2R; cbn. lra. Qed.
Lemma Q2R_one : Q2R 1 = 1.
Proof. unfold Q2R; cbn. lra. Qed.
Lemma Q2R_red q : Q2R (Qred q) = Q2R q.
Proof. apply Qeq_eqR, Qred_correct. Qed.
Lemma hom_add a b : Q2R (oadd QOps a b) = Q2R a + Q2R b.
Proof. change (oadd QOps a b) with (Qred (Qplus a b)). rewrite Q2R_red. apply Q2R_plus. Qed.
Lemma hom_sub a b : Q2R (osub QOps a b) = Q2R a - Q2R b.
Proof. change (osub QOps a b) with (Qred (Qminus a b)). rewrite Q2R_red. apply Q2R_minus. Qed.
Lemma hom_mul a b : Q2R (omul QOps a b) = Q2R a * Q2R b.
Proof. change (omul QOps a b) with (Qred (Qmult a b)). rewrite Q2R_red. apply Q2R_mult. Qed.
Lemma nth_injm i m : nth i (injm m) (o0 ROps) = Q2R (nth i m (o0 QOps)).
Proof. unfold injm. change (o0 ROps) with 0. rewrite <- Q2R_zero. apply map_nth. Qed.

Definition qle0 (x : Q) : bool := Qle_bool 0 x.
Definition qlt0 (x : Q) : bool := negb (Qle_bool x 0).
Definition qleb (x y : Q) : bool := Qle_bool x y.
Definition qis0 (x : Q) : bool := Qeq_bool x 0.
Definition qis1 (x : Q) : bool := Qeq_bool x 1.
Lemma qle0_sound x : qle0 x = true -> 0 <= Q2R x.
Proof. unfold qle0. intros H. apply Qle_bool_iff in H. apply Qle_Rle in H. rewrite Q2R_zero in H. exact H. Qed.
Lemma qlt0_sound x : qlt0 x = true -> 0 < Q2R x.
Proof.
  unfold qlt0. intros H. apply negb_true_iff in H.
  destruct (Qlt_le_dec 0 x) as [L|L]; [apply Qlt_Rlt in L; rewrite Q2R_zero in L; exact L|].
  apply Qle_bool_iff in L. congruence.
Qed.
Lemma qleb_sound x y : qleb x y = true -> Q2R x <= Q2R y.
Proof. unfold qleb. intros H. apply Qle_bool_iff in H. apply Qle_Rle, H. Qed.
Lemma qis0_sound x : qis0 x = true -> Q2R x = 0.
Proof. unfold qis0. intros H. apply Qeq_bool_iff in H. apply Qeq_eqR in H. rewrite Q2R_zero in H. exact H. Qed.
Lemma qis1_sound x : qis1 x = true -> Q2R x = 1.
Proof. unfold qis1. intros H. apply Qeq_bool_iff in H. apply Qeq_eqR in H. rewrite Q2R_one in H. exact H. Qed.

(* ------------------------------------------------------------ matrices *)
Definition qn (m : list Q) (i : nat) : Q := nth i m (o0 QOps).
Definition affine33b (m : list Q) : bool := qis0 (qn m 6) && qis0 (qn m 7) && qis1 (qn m 8).
Definition affine44b (m : list Q) : bool := qis0 (qn m 12) && qis0 (qn m 13) && qis0 (qn m 14) && qis1 (qn m 15).
Lemma affine33b_sound m : affine33b m = true -> affine33 (injm m).
Proof.
  unfold affine33b, affine33, qn. intros H. repeat (apply andb_true_iff in H; destruct H as [H ?]).
  rewrite !nth_injm. repeat split; [apply qis0_sound | apply qis0_sound | apply qis1_sound]; assumption.
Qed.
Lemma affine44b_sound m : affine44b m = true -> affine44 (injm m).
Proof.
  unfold affine44b, affine44, qn. intros H. repeat (apply andb_true_iff in H; destruct H as [H ?]).
  rewrite !nth_injm. repeat split; [apply qis0_sound | apply qis0_sound | apply qis0_sound | apply qis1_sound]; assumption.
Qed.

Ltac homs := repeat (rewrite hom_add || rewrite hom_sub || rewrite hom_mul).
Lemma det33_hom m : Q2R (@m33_determinant QOps m) = @m33_determinant ROps (injm m).
Proof. unfold m33_determinant. rewrite !nth_injm. homs. reflexivity. Qed.
Lemma det44_hom m : Q2R (@m44_determinant QOps m) = @m44_determinant ROps (injm m).
Proof. unfold m44_determinant. rewrite !nth_injm. homs. reflexivity. Qed.

Definition det33b (m : list Q) : bool := negb (qis0 (@m33_determinant QOps m)).
Definition det44b (m : list Q) : bool := negb (qis0 (@m44_determinant QOps m)).
Lemma Q2R_nonzero q : qis0 q = false -> Q2R q <> 0.
Proof.
  unfold qis0. intros H E. rewrite <- Q2R_zero in E. apply eqR_Qeq in E. apply Qeq_bool_iff in E. congruence.
Qed.
Lemma det33b_sound m : det33b m = true -> @m33_determinant ROps (injm m) <> 0.
Proof. unfold det33b. intros H. apply negb_true_iff in H. rewrite <- det33_hom. apply Q2R_nonzero, H. Qed.
Lemma det44b_sound m : det44b m = true -> @m44_determinant ROps (injm m) <> 0.
Proof. unfold det44b. intros H. apply negb_true_iff in H. rewrite <- det44_hom. apply Q2R_nonzero, H. Qed.

(* exact translations *)
Definition translate2b (m : list Q) : bool :=
  match m with
  | [a0; a1; _; a3; a4; _; a6; a7; a8] =>
      qis1 a0 && qis0 a1 && qis0 a3 && qis1 a4 && qis0 a6 && qis0 a7 && qis1 a8
  | _ => false
  end.
Definition translate3b (m : list Q) : bool :=
  match m with
  | [a0; a1; a2; _; a4; a5; a6; _; a8; a9; a10; _; a12; a13; a14; a15] =>
      qis1 a0 && qis0 a1 && qis0 a2 && qis0 a4 && qis1 a5 && qis0 a6 && qis0 a8 && qis0 a9 && qis1 a10 &&
      qis0 a12 && qis0 a13 && qis0 a14 && qis1 a15
  | _ => false
  end.
Ltac qfacts :=
  repeat match goal with
  | H : (_ && _)%bool = true |- _ => apply andb_true_iff in H; destruct H
  | H : qis0 _ = true |- _ => apply qis0_sound in H
  | H : qis1 _ = true |- _ => apply qis1_sound in H
  end.
Lemma translate2b_sound m : translate2b m = true -> is_translate2 (injm m).
Proof.
  unfold translate2b. intros H.
  destruct m as [|a0 [|a1 [|a2 [|a3 [|a4 [|a5 [|a6 [|a7 [|a8 [|]]]]]]]]]]; try discriminate.
  qfacts. exists (mkV2 (Q2R a2) (Q2R a5)). unfold injm, mk_translate2d. cbn [map vx vy].
  repeat match goal with H : Q2R _ = _ |- _ => rewrite H; clear H end. reflexivity.
Qed.
Lemma translate3b_sound m : translate3b m = true -> is_translate3 (injm m).
Proof.
  unfold translate3b. intros H.
  destruct m as [|a0 [|a1 [|a2 [|a3 [|a4 [|a5 [|a6 [|a7 [|a8 [|a9 [|a10 [|a11 [|a12 [|a13 [|a14 [|a15 [|]]]]]]]]]]]]]]]]]; try discriminate.
  qfacts. exists (mkV3 (Q2R a3) (Q2R a7) (Q2R a11)). unfold injm, mk_translate3d. cbn [map wx wy wz].
  repeat match goal with H : Q2R _ = _ |- _ => rewrite H; clear H end. reflexivity.
Qed.

(* exactly orthonormal linear part (axis flips, permutations, Pythagorean rotations, ...) *)
Local Open Scope Q_scope.
Definition rigid33b (m : list Q) : bool :=
  affine33b m &&
  Qeq_bool (qn m 0 * qn m 0 + qn m 3 * qn m 3) 1 && Qeq_bool (qn m 1 * qn m 1 + qn m 4 * qn m 4) 1 &&
  Qeq_bool (qn m 0 * qn m 1 + qn m 3 * qn m 4) 0.
Definition rigid44b (m : list Q) : bool :=
  affine44b m &&
  Qeq_bool (qn m 0 * qn m 0 + qn m 4 * qn m 4 + qn m 8 * qn m 8) 1 &&
  Qeq_bool (qn m 1 * qn m 1 + qn m 5 * qn m 5 + qn m 9 * qn m 9) 1 &&
  Qeq_bool (qn m 2 * qn m 2 + qn m 6 * qn m 6 + qn m 10 * qn m 10) 1 &&
  Qeq_bool (qn m 0 * qn m 1 + qn m 4 * qn m 5 + qn m 8 * qn m 9) 0 &&
  Qeq_bool (qn m 0 * qn m 2 + qn m 4 * qn m 6 + qn m 8 * qn m 10) 0 &&
  Qeq_bool (qn m 1 * qn m 2 + qn m 5 * qn m 6 + qn m 9 * qn m 10) 0.
Local Open Scope R_scope.
Lemma qeq_sound a b : Qeq_bool a b = true -> Q2R a = Q2R b.
Proof. intros H. apply Qeq_eqR, Qeq_bool_iff, H. Qed.
Ltac qeqs :=
  repeat match goal with
  | H : Qeq_bool _ _ = true |- _ => apply qeq_sound in H; rewrite ?Q2R_plus, ?Q2R_mult, ?Q2R_zero, ?Q2R_one in H
  end.
Lemma rigid33b_sound m : rigid33b m = true -> rigid33 (injm m).
Proof.
  unfold rigid33b. intros H. do 3 (apply andb_true_iff in H; destruct H as [H ?]).
  split; [apply affine33b_sound, H|]. rewrite !nth_injm. qeqs. unfold qn in *. repeat split; assumption.
Qed.
Lemma rigid44b_sound m : rigid44b m = true -> rigid44 (injm m).
Proof.
  unfold rigid44b. intros H. do 6 (apply andb_true_iff in H; destruct H as [H ?]).
  split; [apply affine44b_sound, H|]. rewrite !nth_injm. qeqs. unfold qn in *. repeat split; assumption.
Qed.

(* ------------------------------------------------------------ blends *)
Definition max_okb (m : MaxK QOps) : bool := match m with MaxDef => true | MaxPoly k => qlt0 k end.
Definition min_defb (m : MinK QOps) : bool := match m with MinDef => true | _ => false end.
Lemma max_okb_sound m : max_okb m = true -> max_ok (map_maxk Q2R m).
Proof. destruct m as [|k]; cbn; [trivial | apply qlt0_sound]. Qed.
Lemma min_defb_sound m : min_defb m = true -> map_mink (A := QOps) (B := ROps) Q2R m = MinDef.
Proof. destruct m; cbn; intros H; [reflexivity | discriminate..]. Qed.

(* ------------------------------------------------------------ polygon meshes *)
Definition QV2 := V2 QOps.
Definition qv2eq (a b : QV2) : bool := Qeq_bool (vx a) (vx b) && Qeq_bool (vy a) (vy b).
Fixpoint remove_pt (x : QV2) (l : list QV2) : option (list QV2) :=
  match l with
  | [] => None
  | y :: r => if qv2eq x y then Some r
              else match remove_pt x r with Some r' => Some (y :: r') | None => None end
  end.
Fixpoint perm_pts (l m : list QV2) : bool :=
  match l with
  | [] => match m with [] => true | _ => false end
  | x :: r => match remove_pt x m with Some m' => perm_pts r m' | None => false end
  end.
Definition injv2 : QV2 -> RV2 := map_v2 (A := QOps) (B := ROps) Q2R.
Lemma qv2eq_sound a b : qv2eq a b = true -> injv2 a = injv2 b.
Proof.
  unfold qv2eq, injv2, map_v2. intros H. apply andb_true_iff in H. destruct H as [Hx Hy].
  rewrite (qeq_sound _ _ Hx), (qeq_sound _ _ Hy). reflexivity.
Qed.
Lemma remove_pt_perm x l r : remove_pt x l = Some r -> Permutation (map injv2 l) (injv2 x :: map injv2 r).
Proof.
  revert r; induction l as [|y l IH]; intros r H; cbn [remove_pt] in H; [discriminate|].
  destruct (qv2eq x y) eqn:Exy.
  - injection H as <-. cbn [map]. rewrite (qv2eq_sound _ _ Exy). apply Permutation_refl.
  - destruct (remove_pt x l) as [r'|] eqn:Er; [|discriminate]. injection H as <-.
    cbn [map]. eapply perm_trans; [apply perm_skip, IH; reflexivity | apply perm_swap].
Qed.
Lemma perm_pts_sound l m : perm_pts l m = true -> Permutation (map injv2 l) (map injv2 m).
Proof.
  revert m; induction l as [|x l IH]; intros m H; cbn [perm_pts] in H.
  - destruct m; [apply perm_nil | discriminate].
  - destruct (remove_pt x m) as [m'|] eqn:Er; [|discriminate].
    cbn [map]. apply Permutation_sym. eapply perm_trans; [apply remove_pt_perm, Er|].
    apply perm_skip, Permutation_sym, IH, H.
Qed.

Definition ordered2b (b : Box2 QOps) : bool :=
  qleb (vx (b2min b)) (vx (b2max b)) && qleb (vy (b2min b)) (vy (b2max b)).
Definition in_box2b (b : Box2 QOps) (q : QV2) : bool :=
  qleb (vx (b2min b)) (vx q) && qleb (vx q) (vx (b2max b)) && qleb (vy (b2min b)) (vy q) && qleb (vy q) (vy (b2max b)).
Definition mesh_okb (segs : list (Seg QOps)) (bb : Box2 QOps) : bool :=
  ordered2b bb && forallb (fun s => in_box2b bb (fst s) && in_box2b bb (snd s)) segs &&
  perm_pts (map fst segs) (map snd segs).
Definition injbox2 : Box2 QOps -> RBox2 := map_box2 (A := QOps) (B := ROps) Q2R.
Definition injseg : Seg QOps -> SegR := map_seg (A := QOps) (B := ROps) Q2R.
Lemma in_box2b_sound b q : in_box2b b q = true -> in_box2 (injbox2 b) (injv2 q).
Proof.
  unfold in_box2b, in_box2, injbox2, injv2, map_box2, map_v2. intros H.
  repeat (apply andb_true_iff in H; destruct H as [H ?]). cbn [b2min b2max vx vy].
  repeat split; apply qleb_sound; assumption.
Qed.
Lemma mesh_okb_sound segs bb : mesh_okb segs bb = true -> mesh_ok (map injseg segs) (injbox2 bb).
Proof.
  unfold mesh_okb, mesh_ok. intros H. apply andb_true_iff in H. destruct H as [H HP].
  apply andb_true_iff in H. destruct H as [HO HF]. split; [|split].
  - unfold ordered2b in HO. apply andb_true_iff in HO. destruct HO as [Hx Hy].
    unfold ordered2, injbox2, map_box2, map_v2; cbn [b2min b2max vx vy]. split; apply qleb_sound; assumption.
  - rewrite forallb_forall in HF. apply Forall_forall. intros s Hs. apply in_map_iff in Hs.
    destruct Hs as (s0 & <- & Hs0). specialize (HF s0 Hs0). apply andb_true_iff in HF. destruct HF as [Ha Hb].
    split; [apply (in_box2b_sound _ _ Ha) | apply (in_box2b_sound _ _ Hb)].
  - unfold balanced. apply perm_pts_sound in HP. rewrite !map_map in *. exact HP.
Qed.

(* Offset2D over a mesh leaf: non-degenerate segments and offset^2 < MaxFloat64 *)
Local Open Scope Q_scope.
Definition nondegb (l : Seg QOps) : bool :=
  qlt0 ((vx (snd l) - vx (fst l)) * (vx (snd l) - vx (fst l)) + (vy (snd l) - vy (fst l)) * (vy (snd l) - vy (fst l))).
Definition qmaxfloat : Q := inject_Z (2 ^ 1024 - 2 ^ 971).
Definition mesh_offb (s : QS2) (off : Q) : bool :=
  match s with
  | RMesh2 segs _ => forallb nondegb segs && negb (Qle_bool qmaxfloat (off * off))
  | _ => false
  end.
Local Open Scope R_scope.
Lemma nondegb_sound l : nondegb l = true -> nondeg (injseg l).
Proof.
  unfold nondegb, nondeg, injseg, map_seg, map_v2. intros H. apply qlt0_sound in H.
  rewrite !Q2R_plus, !Q2R_mult, !Q2R_minus in H. cbn [fst snd vx vy]. exact H.
Qed.
Lemma Q2R_inject_Z z : Q2R (inject_Z z) = IZR z.
Proof. unfold Q2R, inject_Z; cbn [Qnum Qden]. rewrite Rinv_1. ring. Qed.
Lemma mesh_offb_sound s off : mesh_offb s off = true ->
  mesh_leaf (inj2 s) /\ Q2R off * Q2R off < Rmaxfloat.
Proof.
  destruct s; cbn [mesh_offb]; intros H; try discriminate. apply andb_true_iff in H. destruct H as [HN HM]. split.
  - cbn [inj2 rmap2 mesh_leaf]. rewrite forallb_forall in HN. apply Forall_forall. intros l Hl.
    apply in_map_iff in Hl. destruct Hl as (l0 & <- & Hl0). apply nondegb_sound, HN, Hl0.
  - apply negb_true_iff in HM. unfold Rmaxfloat. rewrite <- Q2R_inject_Z, <- Q2R_mult. fold qmaxfloat.
    destruct (Qlt_le_dec (off * off) qmaxfloat) as [L|L]; [apply Qlt_Rlt, L|].
    apply Qle_bool_iff in L. congruence.
Qed.

(* Screw3D over a mesh leaf whose box top (the screw radius) is >= 0 *)
Definition mesh_topb (s : QS2) : bool :=
  match s with RMesh2 _ bb => qle0 (vy (b2max bb)) | _ => false end.
Lemma mesh_topb_sound s : mesh_topb s = true -> mesh_top_nonneg (inj2 s).
Proof. destruct s; cbn [mesh_topb]; intros H; try discriminate. cbn [inj2 rmap2 mesh_top_nonneg map_box2 b2max map_v2 vy]. apply qle0_sound, H. Qed.

(* ------------------------------------------------------------ cams, flange, spiral, gear rack *)
Definition qltb (x y : Q) : bool := negb (Qle_bool y x).
Lemma qltb_sound x y : qltb x y = true -> Q2R x < Q2R y.
Proof.
  unfold qltb. intros H. apply negb_true_iff in H.
  destruct (Qlt_le_dec x y) as [L|L]; [apply Qlt_Rlt, L|]. apply Qle_bool_iff in L. congruence.
Qed.
Local Open Scope Q_scope.
Definition cam_okb (d b n : Q) : bool := qlt0 d && qle0 b && qle0 n && qltb (b - n) d && qltb (n - b) d.
Definition prim2_wfb (p : Prim2 QOps) : bool :=
  match p with
  | PFlatFlankCam d b n => cam_okb d b n
  | PThreeArcCam d b n _ => cam_okb d b n
  | PFlange1 d c s => cam_okb d c s
  | PArcSpiral _ _ _ _ d => qle0 d
  end.
Definition rack_okb (s : QS2) (length : Q) (bb : Box2 QOps) : bool :=
  match s with
  | RMesh2 _ tb => ordered2b bb && qleb (vx (b2min bb)) (- length) && qleb length (vx (b2max bb)) &&
                   qleb (vy (b2min bb)) (vy (b2min tb)) && qleb (vy (b2max tb)) (vy (b2max bb))
  | _ => false
  end.
Local Open Scope R_scope.
Lemma cam_okb_sound d b n : cam_okb d b n = true -> cam_ok (Q2R d) (Q2R b) (Q2R n).
Proof.
  unfold cam_okb, cam_ok. intros H.
  apply andb_true_iff in H; destruct H as [H L2]. apply andb_true_iff in H; destruct H as [H L1].
  apply andb_true_iff in H; destruct H as [H Hn]. apply andb_true_iff in H; destruct H as [Hd Hb].
  apply qlt0_sound in Hd. apply qle0_sound in Hb, Hn. apply qltb_sound in L1, L2. rewrite Q2R_minus in L1, L2.
  repeat split; try assumption. apply Rabs_def1; lra.
Qed.
Lemma prim2_wfb_sound p : prim2_wfb p = true -> prim2_wf (map_prim2 (A := QOps) (B := ROps) Q2R p).
Proof.
  destruct p; cbn [prim2_wfb map_prim2 prim2_wf]; intros H.
  - apply cam_okb_sound, H.
  - apply cam_okb_sound, H.
  - apply cam_okb_sound, H.
  - apply qle0_sound, H.
Qed.
Lemma rack_okb_sound s length bb : rack_okb s length bb = true -> rack_ok (inj2 s) (Q2R length) (injbox2 bb).
Proof.
  destruct s; cbn [rack_okb]; intros H; try discriminate. cbn [inj2 rmap2 rack_ok].
  apply andb_true_iff in H; destruct H as [H Y2]. apply andb_true_iff in H; destruct H as [H Y1].
  apply andb_true_iff in H; destruct H as [H X2]. apply andb_true_iff in H; destruct H as [H X1].
  unfold ordered2b in H. apply andb_true_iff in H. destruct H as [Hx Hy].
  apply qleb_sound in Hx, Hy, X1, X2, Y1, Y2. rewrite Q2R_opp in X1.
  unfold rack_box_ok, ordered2, injbox2, map_box2, map_v2; cbn [b2min b2max vx vy]. repeat split; assumption.
Qed.

(* ------------------------------------------------------------ the classes *)
Fixpoint cl2b_2 (s : QS2) : bool :=
  match s with
  | RCircle _ => true
  | RBox2D _ round => qle0 round
  | RCache2 s => cl2b_2 s
  | RIntersect2 _ s0 _ | RDifference2 _ s0 _ => cl2b_2 s0
  | RCut2 s _ _ | RScaleUniform2 s _ | RElongate2 s _ => cl2b_2 s
  | RTransform2 s m => cl2b_2 s && rigid33b m
  | RUnion2 _ l => forallb cl2b_2 l
  | _ => false
  end.
Fixpoint cl2b_3 (s : QS3) : bool :=
  match s with
  | RSphere _ | RBox3D _ _ | RCylinder _ _ _ => true
  | RIntersect3 _ s0 _ | RDifference3 _ s0 _ => cl2b_3 s0
  | RCut3 s _ _ | RScaleUniform3 s _ | RElongate3 s _ => cl2b_3 s
  | RTransform3 s m => cl2b_3 s && rigid44b m
  | RUnion3 _ l => forallb cl2b_3 l
  | _ => false
  end.
Fixpoint cinfb2 (s : QS2) : bool :=
  match s with
  | RCircle _ | RBox2D _ _ | RLine2D _ _ => true
  | RCache2 s => cinfb2 s
  | ROffset2 s off => (cinfb2 s || cl2b_2 s) && qle0 off
  | RIntersect2 _ s0 _ | RDifference2 _ s0 _ => cinfb2 s0
  | RCut2 s _ _ | RScaleUniform2 s _ | RElongate2 s _ => cinfb2 s
  | RTransform2 s m => (cinfb2 s && translate2b m) || (cl2b_2 s && rigid33b m)
  | RUnion2 _ l => forallb cinfb2 l
  | _ => false
  end.
Fixpoint cinfb3 (s : QS3) : bool :=
  match s with
  | RSphere _ | RBox3D _ _ | RCylinder _ _ _ | RCone _ _ _ _ => true
  | RRevolve s theta => (cinfb2 s || cl2b_2 s) && qis0 theta
  | RExtrude s _ | RExtrudeRounded s _ _ => cinfb2 s || cl2b_2 s
  | RLoft s0 s1 _ _ => (cinfb2 s0 || cl2b_2 s0) && (cinfb2 s1 || cl2b_2 s1)
  | RIntersect3 _ s0 _ | RDifference3 _ s0 _ => cinfb3 s0
  | RCut3 s _ _ | RScaleUniform3 s _ | RElongate3 s _ => cinfb3 s
  | RTransform3 s m => (cinfb3 s && translate3b m) || (cl2b_3 s && rigid44b m)
  | RUnion3 _ l => forallb cinfb3 l
  | ROffset3 s off => (cinfb3 s || cl2b_3 s) && qle0 off
  | RShell3 s _ => cinfb3 s || cl2b_3 s
  | _ => false
  end.

Lemma forallb_allp {A B} (f : A -> bool) (g : A -> B) (P : B -> Prop) (l : list A) :
  (forall x, In x l -> f x = true -> P (g x)) -> forallb f l = true -> allp P (map g l).
Proof.
  induction l as [|a l IH]; intros H Hf; cbn [forallb map allp] in *; [exact I|].
  apply andb_true_iff in Hf. destruct Hf as [Ha Hl].
  split; [apply H; [now left | exact Ha] | apply IH; [intros x Hx; apply H; now right | exact Hl]].
Qed.

Lemma cl2b_2_sound (s : QS2) : cl2b_2 s = true -> rcl2_2 (inj2 s).
Proof.
  revert s. fix IH 1. intros s. destruct s; cbn [cl2b_2 inj2 rmap2 rcl2_2]; intros H; try discriminate; try exact I;
    try (apply IH; exact H).
  - apply qle0_sound, H.
  - apply andb_true_iff in H. destruct H as [H1 H2]. split; [apply IH, H1 | apply rigid33b_sound, H2].
  - revert H. induction l as [|x l IHl]; cbn [forallb map allp]; intros H; [exact I|].
    apply andb_true_iff in H. destruct H as [Hx Hl]. split; [apply IH, Hx | apply IHl, Hl].
Qed.
Lemma cl2b_3_sound (s : QS3) : cl2b_3 s = true -> rcl2_3 (inj3 s).
Proof.
  revert s. fix IH 1. intros s. destruct s; cbn [cl2b_3 inj3 rmap3 rcl2_3]; intros H; try discriminate; try exact I;
    try (apply IH; exact H).
  - apply andb_true_iff in H. destruct H as [H1 H2]. split; [apply IH, H1 | apply rigid44b_sound, H2].
  - revert H. induction l as [|x l IHl]; cbn [forallb map allp]; intros H; [exact I|].
    apply andb_true_iff in H. destruct H as [Hx Hl]. split; [apply IH, Hx | apply IHl, Hl].
Qed.

Lemma or_class (a b : bool) (P Q : Prop) : (a = true -> P) -> (b = true -> Q) -> (a || b)%bool = true -> P \/ Q.
Proof. intros HP HQ H. apply orb_true_iff in H. destruct H; [left; apply HP | right; apply HQ]; assumption. Qed.

Lemma cinfb2_sound (s : QS2) : cinfb2 s = true -> rcinf2 (inj2 s).
Proof.
  revert s. fix IH 1. intros s. destruct s; cbn [cinfb2 inj2 rmap2 rcinf2]; intros H; try discriminate; try exact I;
    try (apply IH; exact H).
  - apply andb_true_iff in H. destruct H as [H1 H2].
    split; [exact (or_class _ _ _ _ (IH s) (cl2b_2_sound s) H1) | apply qle0_sound, H2].
  - apply orb_true_iff in H. destruct H as [H|H]; apply andb_true_iff in H; destruct H as [H1 H2].
    + left. split; [apply IH, H1 | apply translate2b_sound, H2].
    + right. split; [apply cl2b_2_sound, H1 | apply rigid33b_sound, H2].
  - revert H. induction l as [|x l IHl]; cbn [forallb map allp]; intros H; [exact I|].
    apply andb_true_iff in H. destruct H as [Hx Hl]. split; [apply IH, Hx | apply IHl, Hl].
Qed.

Lemma Rfmod_zero y : Rfmod (Rabs 0) y = 0.
Proof.
  rewrite Rabs_R0. unfold Rfmod, Rtrunc. replace (0 / y) with 0 by (unfold Rdiv; ring).
  destruct (Rle_dec 0 0) as [_|N]; [|exfalso; apply N; lra].
  change 0 with (INR 0) at 2. rewrite Int_part_INR. cbn. ring.
Qed.

Lemma cinfb3_sound (s : QS3) : cinfb3 s = true -> rcinf3 (inj3 s).
Proof.
  revert s. fix IH 1. intros s. destruct s; cbn [cinfb3 inj3 rmap3 rcinf3]; intros H; try discriminate; try exact I;
    try (apply IH; exact H).
  - apply andb_true_iff in H. destruct H as [H1 H2].
    split; [exact (or_class _ _ _ _ (cinfb2_sound s) (cl2b_2_sound s) H1) | rewrite (qis0_sound _ H2); apply Rfmod_zero].
  - exact (or_class _ _ _ _ (cinfb2_sound s) (cl2b_2_sound s) H).
  - exact (or_class _ _ _ _ (cinfb2_sound s) (cl2b_2_sound s) H).
  - apply andb_true_iff in H. destruct H as [H1 H2].
    split; [exact (or_class _ _ _ _ (cinfb2_sound s0) (cl2b_2_sound s0) H1) | exact (or_class _ _ _ _ (cinfb2_sound s1) (cl2b_2_sound s1) H2)].
  - apply orb_true_iff in H. destruct H as [H|H]; apply andb_true_iff in H; destruct H as [H1 H2].
    + left. split; [apply IH, H1 | apply translate3b_sound, H2].
    + right. split; [apply cl2b_3_sound, H1 | apply rigid44b_sound, H2].
  - revert H. induction l as [|x l IHl]; cbn [forallb map allp]; intros H; [exact I|].
    apply andb_true_iff in H. destruct H as [Hx Hl]. split; [apply IH, Hx | apply IHl, Hl].
  - apply andb_true_iff in H. destruct H as [H1 H2].
    split; [exact (or_class _ _ _ _ (IH s) (cl2b_3_sound s) H1) | apply qle0_sound, H2].
  - exact (or_class _ _ _ _ (IH s) (cl2b_3_sound s) H).
Qed.

(* ------------------------------------------------------------ the checker *)
Local Open Scope Q_scope.
Definition qdot3 (n : V3 QOps) : Q := wx n * wx n + wy n * wy n + wz n * wz n.
Local Open Scope R_scope.
Lemma qdot3_sound n : qlt0 (qdot3 n) = true -> 0 < dot3 (map_v3 (A := QOps) (B := ROps) Q2R n) (map_v3 (A := QOps) (B := ROps) Q2R n).
Proof.
  intros H. apply qlt0_sound in H. unfold qdot3 in H. rewrite !Q2R_plus, !Q2R_mult in H.
  unfold dot3, map_v3; cbn [wx wy wz]. exact H.
Qed.

Fixpoint wfb2 (s : QS2) : bool :=
  match s with
  | ROpaque2 _ _ => true
  | RMesh2 segs bb => mesh_okb segs bb
  | RCache2 s => wfb2 s
  | RCircle _ => true
  | RBox2D size _ => qle0 (vx size) && qle0 (vy size)
  | RLine2D l round => qle0 l && qle0 round
  | ROffset2 s off => wfb2 s && qle0 off && (cinfb2 s || cl2b_2 s || mesh_offb s off)
  | RIntersect2 m s0 _ | RDifference2 m s0 _ => max_okb m && wfb2 s0
  | RCut2 s _ _ | RElongate2 s _ | RRotateCopy2 s _ => wfb2 s
  | RTransform2 s m => wfb2 s && affine33b m && det33b m
  | RScaleUniform2 s k => wfb2 s && qlt0 k
  | RArray2 mk s _ _ _ => min_defb mk && wfb2 s
  | RRotateUnion2 mk s _ step => min_defb mk && wfb2 s && affine33b step && det33b step
  | RUnion2 mk l => min_defb mk && forallb wfb2 l
  | RSlice2 s _ n => wfb3 s && qlt0 (qdot3 n)
  | RPrim2 p => prim2_wfb p
  | RRack2 tooth _ length bb => wfb2 tooth && rack_okb tooth length bb
  end
with wfb3 (s : QS3) : bool :=
  match s with
  | ROpaque3 _ _ => true
  | RSphere _ | RBox3D _ _ | RCylinder _ _ _ => true
  | RCone _ r0 r1 _ => qle0 r0 && qle0 r1
  | RRevolve s _ => wfb2 s
  | RExtrude s h | RTwistExtrude s h _ => wfb2 s && qle0 h
  | RScaleExtrude s h sc | RScaleTwistExtrude s h _ sc => wfb2 s && qlt0 h && qlt0 (vx sc) && qlt0 (vy sc)
  | RExtrudeRounded s h round => wfb2 s && qle0 h && (qis0 round || cinfb2 s || cl2b_2 s)
  | RLoft s0 s1 _ round => wfb2 s0 && wfb2 s1 && (qis0 round || ((cinfb2 s0 || cl2b_2 s0) && (cinfb2 s1 || cl2b_2 s1)))
  | RTransform3 s m => wfb3 s && affine44b m && det44b m
  | RScaleUniform3 s k => wfb3 s && qlt0 k
  | RUnion3 mk l => min_defb mk && forallb wfb3 l
  | RDifference3 m s0 _ | RIntersect3 m s0 _ => max_okb m && wfb3 s0
  | RCut3 s _ _ | RElongate3 s _ | RRotateCopy3 s _ => wfb3 s
  | RArray3 mk s _ _ _ _ => min_defb mk && wfb3 s
  | RRotateUnion3 mk s _ step => min_defb mk && wfb3 s && affine44b step && det44b step
  | ROffset3 s off => wfb3 s && qle0 off && (cinfb3 s || cl2b_3 s)
  | RShell3 s _ => wfb3 s && (cinfb3 s || cl2b_3 s)
  | RScrew s _ _ _ _ => wfb2 s && mesh_topb s
  end.

Ltac split_and H :=
  repeat match type of H with
  | (_ && _)%bool = true => let H' := fresh "B" in apply andb_true_iff in H; destruct H as [H H']
  end.

Lemma wfb2_sound (s : QS2) : wfb2 s = true -> rwf2 (inj2 s)
with wfb3_sound (s : QS3) : wfb3 s = true -> rwf3 (inj3 s).
Proof.
  - destruct s; cbn [wfb2 inj2 rmap2 rwf2]; intros H; try exact I.
    + apply mesh_okb_sound, H.
    + apply wfb2_sound, H.
    + split_and H. split; apply qle0_sound; assumption.
    + split_and H. split; apply qle0_sound; assumption.
    + split_and H. split; [apply wfb2_sound, H | split; [apply qle0_sound, B0|]].
      apply orb_true_iff in B. destruct B as [B|B]; [apply orb_true_iff in B; destruct B as [B|B]|].
      * left. apply cinfb2_sound, B.
      * right. left. apply cl2b_2_sound, B.
      * right. right. apply mesh_offb_sound, B.
    + split_and H. split; [apply max_okb_sound, H | apply wfb2_sound, B].
    + split_and H. split; [apply max_okb_sound, H | apply wfb2_sound, B].
    + apply wfb2_sound, H.
    + split_and H. split; [apply wfb2_sound, H | split; [apply affine33b_sound, B0 | apply det33b_sound, B]].
    + split_and H. split; [apply wfb2_sound, H | apply qlt0_sound, B].
    + split_and H. split; [apply min_defb_sound, H | apply wfb2_sound, B].
    + split_and H. split; [apply min_defb_sound, H | split; [apply wfb2_sound, B1 | split; [apply affine33b_sound, B0 | apply det33b_sound, B]]].
    + apply wfb2_sound, H.
    + apply wfb2_sound, H.
    + split_and H. split; [apply min_defb_sound, H|].
      revert B. induction l as [|x l IHl]; cbn [forallb map allp]; intros B; [exact I|].
      apply andb_true_iff in B. destruct B as [Hx Hl]. split; [apply wfb2_sound, Hx | apply IHl, Hl].
    + split_and H. split; [apply wfb3_sound, H | apply qdot3_sound, B].
    + apply prim2_wfb_sound, H.
    + split_and H. split; [apply wfb2_sound, H | apply rack_okb_sound, B].
  - destruct s; cbn [wfb3 inj3 rmap3 rwf3]; intros H; try exact I.
    + split_and H. split; apply qle0_sound; assumption.
    + apply wfb2_sound, H.
    + split_and H. split; [apply wfb2_sound, H | apply qle0_sound, B].
    + split_and H. split; [apply wfb2_sound, H | apply qle0_sound, B].
    + split_and H. split; [apply wfb2_sound, H | split; [apply qlt0_sound, B1 | split; apply qlt0_sound; assumption]].
    + split_and H. split; [apply wfb2_sound, H | split; [apply qlt0_sound, B1 | split; apply qlt0_sound; assumption]].
    + split_and H. split; [apply wfb2_sound, H | split; [apply qle0_sound, B0|]].
      apply orb_true_iff in B. destruct B as [B|B]; [apply orb_true_iff in B; destruct B as [B|B]|].
      * left. apply qis0_sound, B.
      * right. left. apply cinfb2_sound, B.
      * right. right. apply cl2b_2_sound, B.
    + split_and H. split; [apply wfb2_sound, H | split; [apply wfb2_sound, B0|]].
      apply orb_true_iff in B. destruct B as [B|B]; [left; apply qis0_sound, B | right].
      apply andb_true_iff in B. destruct B as [B1 B2].
      split; [exact (or_class _ _ _ _ (cinfb2_sound s0) (cl2b_2_sound s0) B1) | exact (or_class _ _ _ _ (cinfb2_sound s1) (cl2b_2_sound s1) B2)].
    + split_and H. split; [apply wfb3_sound, H | split; [apply affine44b_sound, B0 | apply det44b_sound, B]].
    + split_and H. split; [apply wfb3_sound, H | apply qlt0_sound, B].
    + split_and H. split; [apply min_defb_sound, H|].
      revert B. induction l as [|x l IHl]; cbn [forallb map allp]; intros B; [exact I|].
      apply andb_true_iff in B. destruct B as [Hx Hl]. split; [apply wfb3_sound, Hx | apply IHl, Hl].
    + split_and H. split; [apply max_okb_sound, H | apply wfb3_sound, B].
    + split_and H. split; [apply max_okb_sound, H | apply wfb3_sound, B].
    + apply wfb3_sound, H.
    + apply wfb3_sound, H.
    + split_and H. split; [apply min_defb_sound, H | apply wfb3_sound, B].
    + split_and H. split; [apply min_defb_sound, H | split; [apply wfb3_sound, B1 | split; [apply affine44b_sound, B0 | apply det44b_sound, B]]].
    + apply wfb3_sound, H.
    + split_and H. split; [apply wfb3_sound, H | split; [apply qle0_sound, B0 | exact (or_class _ _ _ _ (cinfb3_sound s) (cl2b_3_sound s) B)]].
    + split_and H. split; [apply wfb3_sound, H | exact (or_class _ _ _ _ (cinfb3_sound s) (cl2b_3_sound s) B)].
    + split_and H. split; [apply wfb2_sound, H | apply mesh_topb_sound, B].
Qed.

(* ------------------------------------------------------------ certificates *)
Lemma opaque_free_inj2 (s : QS2) : opaque_free2 (inj2 s) = opaque_free2 s
with opaque_free_inj3 (s : QS3) : opaque_free3 (inj3 s) = opaque_free3 s.
Proof.
  - destruct s; cbn [inj2 rmap2 opaque_free2]; try reflexivity; try (apply opaque_free_inj2);
      try (f_equal; apply opaque_free_inj2).
    + induction l as [|x l IHl]; cbn [map forallb]; [reflexivity|]. f_equal; [apply opaque_free_inj2 | exact IHl].
    + apply opaque_free_inj3.
  - destruct s; cbn [inj3 rmap3 opaque_free3]; try reflexivity; try (apply opaque_free_inj2); try (apply opaque_free_inj3);
      try (f_equal; apply opaque_free_inj2); try (f_equal; apply opaque_free_inj3).
    induction l as [|x l IHl]; cbn [map forallb]; [reflexivity|]. f_equal; [apply opaque_free_inj3 | exact IHl].
Qed.

(* wfb3 t = true: the object denoted by t (parameters read as real numbers, opaque leaves taken
   from any environment in which each of them is enclosed by its own box) has an ordered box that
   contains every point where its value is negative *)
Theorem reified_certificate3 (t : QS3) : wfb3 t = true ->
  forall (E : REnv) o, leaves3 E (inj3 t) -> interp3 E (inj3 t) = Some o -> enc3 o.
Proof. intros W E o L H. exact (reified_compositions3 E _ o (wfb3_sound t W) L H). Qed.
Theorem reified_certificate2 (t : QS2) : wfb2 t = true ->
  forall (E : REnv) o, leaves2 E (inj2 t) -> interp2 E (inj2 t) = Some o -> enc2 o.
Proof. intros W E o L H. exact (reified_compositions2 E _ o (wfb2_sound t W) L H). Qed.
(* without opaque leaves: unconditionally *)
Theorem reified_certificate3_closed (t : QS3) : wfb3 t = true -> opaque_free3 t = true ->
  forall (E : REnv) o, interp3 E (inj3 t) = Some o -> enc3 o.
Proof.
  intros W F E o H. apply (reified_certificate3 t W E o); [|exact H].
  apply opaque_free_leaves3. rewrite opaque_free_inj3. exact F.
Qed.
Theorem reified_certificate2_closed (t : QS2) : wfb2 t = true -> opaque_free2 t = true ->
  forall (E : REnv) o, interp2 E (inj2 t) = Some o -> enc2 o.
Proof.
  intros W F E o H. apply (reified_certificate2 t W E o); [|exact H].
  apply opaque_free_leaves2. rewrite opaque_free_inj2. exact F.
Qed.
