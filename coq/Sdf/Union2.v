(* sdf/sdf2.go UnionSDF2.Evaluate / EvaluateSlow: bounding-box pruned evaluation.
   Operands are abstracted to (distance interval of their box at p, their value at p):
   exactly the data the Go loop works on. *)
From Coq Require Import ZArith List Bool.
From Sdfx Require Import Num.Ops Geo.Vec Geo.Box.
Import OpsNotations ListNotations.
Local Open Scope ops_scope.

Section Union2.
  Context {O : Ops}.
  Notation T := (T O).

  (* first loop: index of the operand with the least minimum squared distance *)
  Fixpoint min_index (vs : list (Interval O)) (i : nat) (minDist2 : T) (minIndex : nat) : T * nat :=
    match vs with
    | [] => (minDist2, minIndex)
    | v :: r =>
        if (minDist2 <? o0 O) || (fst v <? minDist2)
        then min_index r (S i) (fst v) i
        else min_index r (S i) minDist2 minIndex
    end.

  (* second loop: the operand with the closest box has been evaluated (value dm, bound b = dm*dm);
     every other operand whose box is within the bound is evaluated and folded in *)
  Fixpoint prune_loop (minf : T -> T -> T) (b : T) (minIndex : nat)
           (ops : list (Interval O * T)) (i : nat) (d : T) : T :=
    match ops with
    | [] => d
    | (v, x) :: r =>
        if negb (Nat.eqb i minIndex) && (fst v <=? b)
        then prune_loop minf b minIndex r (S i) (minf d x)
        else prune_loop minf b minIndex r (S i) d
    end.

  Fixpoint slow_loop (minf : T -> T -> T) (xs : list T) (first : bool) (d : T) : T :=
    match xs with
    | [] => d
    | x :: r => slow_loop minf r false (if first then x else minf d x)
    end.

  Definition evaluate_slow (minf : T -> T -> T) (ops : list (Interval O * T)) : T :=
    slow_loop minf (map snd ops) true (o0 O).

  (* Evaluate: `blend` is set by SetMin; the plain minimum prunes *)
  Definition evaluate (blend : bool) (minf : T -> T -> T) (ops : list (Interval O * T)) : T :=
    if blend then evaluate_slow minf ops
    else
      let vs := map fst ops in
      let '(_, mi) := min_index vs 0 (- (o1 O)) 0%nat in
      let dm := snd (nth mi ops ((o0 O, o0 O), o0 O)) in
      prune_loop minf (dm * dm) mi ops 0 dm.

  (* the pinned commit: pruning by overlap of the box distance intervals (also under a blend) *)
  Fixpoint prune_loop_pinned (minf : T -> T -> T) (vm : Interval O) (minIndex : nat)
           (ops : list (Interval O * T)) (i : nat) (first : bool) (d : T) : T :=
    match ops with
    | [] => d
    | (v, x) :: r =>
        if Nat.eqb i minIndex || iv_overlap vm v
        then prune_loop_pinned minf vm minIndex r (S i) false (if first then x else minf d x)
        else prune_loop_pinned minf vm minIndex r (S i) first d
    end.
  Definition evaluate_pinned (minf : T -> T -> T) (ops : list (Interval O * T)) : T :=
    let vs := map fst ops in
    let '(_, mi) := min_index vs 0 (- (o1 O)) 0%nat in
    prune_loop_pinned minf (nth mi vs (o0 O, o0 O)) mi ops 0 true (o0 O).

  (* sdf.poly / PolyMin *)
  Definition poly (a b k : T) : T :=
    let h := clamp (half + half * (b - a) / k) (o0 O) (o1 O) in
    mix b a h - k * h * (o1 O - h).
End Union2.
