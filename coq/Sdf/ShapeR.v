(* Predicates over objects of Sdf/Shape.v at the ROps instance, shared by the C01/C02/C03 proofs. *)
From Coq Require Import Reals Lra Lia List Bool ZArith.
From Sdfx Require Import Num.Ops Num.RInst Geo.Vec Geo.Box Geo.BoxR Geo.NormR Geo.Mat Sdf.Shape.
Open Scope R_scope.

Notation RObj2 := (Obj2 ROps).
Notation RObj3 := (Obj3 ROps).
Notation RBox2 := (Box2 ROps).
Notation RBox3 := (Box3 ROps).

(* ---- C01: the stored box is ordered and contains every point with a negative value *)
Definition enc2 (o : RObj2) : Prop := ordered2 (bb2 o) /\ forall p, ev2 o p < 0 -> in_box2 (bb2 o) p.
Definition enc3 (o : RObj3) : Prop := ordered3 (bb3 o) /\ forall p, ev3 o p < 0 -> in_box3 (bb3 o) p.

(* distance from a coordinate to an interval, from a point to a box *)
Definition axd (lo hi x : R) : R := Rmax 0 (Rmax (lo - x) (x - hi)).
Definition boxdist2 (b : RBox2) (p : RV2) : R :=
  sqrt (axd (vx (b2min b)) (vx (b2max b)) (vx p) * axd (vx (b2min b)) (vx (b2max b)) (vx p)
      + axd (vy (b2min b)) (vy (b2max b)) (vy p) * axd (vy (b2min b)) (vy (b2max b)) (vy p)).
Definition boxdist3 (b : RBox3) (p : RV3) : R :=
  sqrt (axd (wx (b3min b)) (wx (b3max b)) (wx p) * axd (wx (b3min b)) (wx (b3max b)) (wx p)
      + axd (wy (b3min b)) (wy (b3max b)) (wy p) * axd (wy (b3min b)) (wy (b3max b)) (wy p)
      + axd (wz (b3min b)) (wz (b3max b)) (wz p) * axd (wz (b3min b)) (wz (b3max b)) (wz p)).
Definition boxdistinf2 (b : RBox2) (p : RV2) : R :=
  Rmax (axd (vx (b2min b)) (vx (b2max b)) (vx p)) (axd (vy (b2min b)) (vy (b2max b)) (vy p)).
Definition boxdistinf3 (b : RBox3) (p : RV3) : R :=
  Rmax (Rmax (axd (wx (b3min b)) (wx (b3max b)) (wx p)) (axd (wy (b3min b)) (wy (b3max b)) (wy p)))
       (axd (wz (b3min b)) (wz (b3max b)) (wz p)).

(* the two operand classes under which offset-like operators keep their material in the box *)
Definition lb2_2 (o : RObj2) : Prop := ordered2 (bb2 o) /\ forall p, boxdist2 (bb2 o) p <= ev2 o p \/ (in_box2 (bb2 o) p).
Definition lb2_3 (o : RObj3) : Prop := ordered3 (bb3 o) /\ forall p, boxdist3 (bb3 o) p <= ev3 o p \/ (in_box3 (bb3 o) p).
Definition lbinf_2 (o : RObj2) : Prop := ordered2 (bb2 o) /\ forall p, boxdistinf2 (bb2 o) p <= ev2 o p \/ (in_box2 (bb2 o) p).
Definition lbinf_3 (o : RObj3) : Prop := ordered3 (bb3 o) /\ forall p, boxdistinf3 (bb3 o) p <= ev3 o p \/ (in_box3 (bb3 o) p).

Lemma axd_nonneg lo hi x : 0 <= axd lo hi x.
Proof. unfold axd. apply Rmax_l. Qed.
Lemma axd_zero lo hi x : axd lo hi x = 0 <-> lo <= x <= hi.
Proof.
  unfold axd, Rmax. destruct (Rle_dec (lo - x) (x - hi)); destruct (Rle_dec 0 _); split; intros; lra.
Qed.
Lemma axd_pos lo hi x : ~ (lo <= x <= hi) -> 0 < axd lo hi x.
Proof. intros H. pose proof (axd_nonneg lo hi x). destruct (Req_dec (axd lo hi x) 0) as [E|E]; [apply axd_zero in E; tauto | lra]. Qed.

Lemma boxdistinf2_pos b p : ~ in_box2 b p -> 0 < boxdistinf2 b p.
Proof.
  unfold in_box2, boxdistinf2. intros H.
  destruct (Rle_dec (vx (b2min b)) (vx p)), (Rle_dec (vx p) (vx (b2max b))),
           (Rle_dec (vy (b2min b)) (vy p)), (Rle_dec (vy p) (vy (b2max b)));
  try (exfalso; apply H; lra);
  first [ assert (X : 0 < axd (vx (b2min b)) (vx (b2max b)) (vx p)) by (apply axd_pos; lra);
          pose proof (Rmax_l (axd (vx (b2min b)) (vx (b2max b)) (vx p)) (axd (vy (b2min b)) (vy (b2max b)) (vy p))); lra
        | assert (X : 0 < axd (vy (b2min b)) (vy (b2max b)) (vy p)) by (apply axd_pos; lra);
          pose proof (Rmax_r (axd (vx (b2min b)) (vx (b2max b)) (vx p)) (axd (vy (b2min b)) (vy (b2max b)) (vy p))); lra ].
Qed.

Lemma lbinf2_enc o : lbinf_2 o -> enc2 o.
Proof.
  intros [Ho H]. split; [exact Ho|]. intros p Hp. destruct (H p) as [Hd|Hin]; [|exact Hin].
  destruct (classic_in_box2 (bb2 o) p) as [Hin|Hout]; [exact Hin|].
  pose proof (boxdistinf2_pos _ _ Hout). lra.
Qed.
