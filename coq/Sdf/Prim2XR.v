(* C01 over the reals for the primitives of Sdf/Prim2X.v (sdf/cams.go, sdf/flange.go, sdf/spiral.go,
   sdf/rack.go): for all parameters that satisfy the stated side conditions - the ones the Go
   constructors do not validate - the stored box is ordered and contains every point of the plane
   with a negative value. *)
From Coq Require Import Reals Lra Lia List Bool ZArith Psatz.
From Sdfx Require Import Num.Ops Num.RInst Geo.Vec Geo.Box Geo.BoxR Geo.NormR
  Sdf.Shape Sdf.ShapeR Sdf.EncloseR Sdf.Prim2X.
Import ListNotations.
Open Scope R_scope.

Lemma some_inj2 {A} (a b : A) : Some a = Some b -> a = b.
Proof. congruence. Qed.

(* ------------------------------------------------------------ the tangent flank shared by
   FlatFlankCam2D and Flange1.  With s = (B - N) / D and c = sqrt (1 - s^2) the line through
   B (c, s) and N (c, s) + (0, D) has unit direction (-s, c) and length c D. *)
Section Flank.
  Variables D B N : R.
  Hypothesis HD : 0 < D.
  Hypothesis HB : 0 <= B.
  Hypothesis HN : 0 <= N.
  Hypothesis HBN : Rabs (B - N) < D.

  Definition fl_s : R := (B - N) / D.
  Definition fl_c : R := sqrt (1 - fl_s * fl_s).

  Lemma fl_s_range : - 1 < fl_s < 1.
  Proof.
    unfold fl_s. apply Rabs_lt_inv in HBN. split.
    - apply (Rmult_lt_reg_r D); [exact HD|]. unfold Rdiv. rewrite Rmult_assoc, Rinv_l by lra. lra.
    - apply (Rmult_lt_reg_r D); [exact HD|]. unfold Rdiv. rewrite Rmult_assoc, Rinv_l by lra. lra.
  Qed.
  Lemma fl_sD : fl_s * D = B - N.
  Proof. unfold fl_s. field. lra. Qed.
  Lemma fl_c_sq : fl_c * fl_c = 1 - fl_s * fl_s.
  Proof. unfold fl_c. apply sqrt_sqrt. pose proof fl_s_range. nra. Qed.
  Lemma fl_c_pos : 0 < fl_c.
  Proof. unfold fl_c. apply sqrt_lt_R0. pose proof fl_s_range. nra. Qed.
  Lemma fl_c_le1 : fl_c <= 1.
  Proof. pose proof fl_c_sq. pose proof fl_c_pos. pose proof fl_s_range. nra. Qed.

  (* a point of the flank strip: A = signed distance to the flank + B, T = parameter along it *)
  Lemma flank_strip A T : A < B -> 0 <= T <= fl_c * D -> 0 <= fl_c * A - fl_s * T ->
    fl_c * A - fl_s * T < Rmax B N /\ - B <= fl_s * A + fl_c * T <= D + N.
  Proof.
    intros HA [HT0 HT1] HX.
    pose proof fl_s_range as [Hs0 Hs1]. pose proof fl_c_pos as Hc. pose proof fl_c_le1 as Hc1.
    pose proof fl_c_sq as Hcc. pose proof fl_sD as HsD.
    pose proof (Rmax_l B N) as MB. pose proof (Rmax_r B N) as MN.
    assert (HcA : fl_c * A < fl_c * B) by (apply Rmult_lt_compat_l; lra).
    assert (HcB : fl_c * B <= 1 * B) by (apply Rmult_le_compat_r; lra).
    assert (HcN : fl_c * N <= 1 * N) by (apply Rmult_le_compat_r; lra).
    assert (HccD : fl_c * (fl_c * D) = D - fl_s * (B - N)).
    { replace (fl_c * (fl_c * D)) with ((fl_c * fl_c) * D) by ring. rewrite Hcc.
      replace ((1 - fl_s * fl_s) * D) with (D - fl_s * (fl_s * D)) by ring. rewrite HsD. ring. }
    assert (HcT : fl_c * T <= fl_c * (fl_c * D)) by (apply Rmult_le_compat_l; lra).
    assert (HcT0 : 0 <= fl_c * T) by (apply Rmult_le_pos; lra).
    destruct (Rle_dec 0 fl_s) as [Hs|Hs].
    - (* the nose is the smaller circle *)
      assert (HsT : 0 <= fl_s * T) by (apply Rmult_le_pos; lra).
      assert (HA0 : 0 <= A).
      { assert (0 <= fl_c * A) by lra. destruct (Rle_dec 0 A) as [|n]; [assumption|]. exfalso.
        assert (0 < fl_c * (- A)) by (apply Rmult_lt_0_compat; lra). lra. }
      assert (HsA0 : 0 <= fl_s * A) by (apply Rmult_le_pos; lra).
      assert (HsA : fl_s * A <= fl_s * B) by (apply Rmult_le_compat_l; lra).
      assert (HsN : fl_s * N <= 1 * N) by (apply Rmult_le_compat_r; lra).
      split; [lra | split; lra].
    - (* the nose is the larger circle: s < 0 *)
      assert (Hs' : fl_s < 0) by lra.
      assert (HsT : - fl_s * T <= - fl_s * (fl_c * D)) by (apply Rmult_le_compat_l; lra).
      assert (EcsD : - fl_s * (fl_c * D) = fl_c * (N - B)).
      { replace (- fl_s * (fl_c * D)) with (- fl_c * (fl_s * D)) by ring. rewrite HsD. ring. }
      (* X >= 0 bounds A from below: A >= B - N *)
      assert (HAlo : B - N <= A).
      { assert (G : fl_c * (B - N) <= fl_c * A) by lra.
        apply (Rmult_le_reg_l fl_c); [exact Hc | exact G]. }
      assert (HsA : fl_s * A <= fl_s * (B - N)) by (apply Rmult_le_compat_neg_l; lra).
      assert (HsAB : fl_s * B <= fl_s * A) by (apply Rmult_le_compat_neg_l; lra).
      assert (HsB : - 1 * B <= fl_s * B) by (apply Rmult_le_compat_r; lra).
      split; [lra | split; lra].
  Qed.
End Flank.

(* a unit vector scaled by k > 0: its length is k, its normalisation the unit vector *)
Lemma scaled_unit_len k ex ey : 0 < k -> ex * ex + ey * ey = 1 -> @v2len ROps (mkV2 (k * ex) (k * ey)) = k.
Proof.
  intros Hk He. unfold v2len, v2len2, v2dot; cbn [vx vy]. ropen.
  replace (k * ex * (k * ex) + k * ey * (k * ey)) with (k * k * (ex * ex + ey * ey)) by ring.
  rewrite He, Rmult_1_r. apply sqrt_square. lra.
Qed.
Lemma scaled_unit_normalize k ex ey : 0 < k -> ex * ex + ey * ey = 1 ->
  @v2normalize ROps (mkV2 (k * ex) (k * ey)) = mkV2 ex ey.
Proof.
  intros Hk He. unfold v2normalize. rewrite (scaled_unit_len k ex ey Hk He). unfold v2muls; cbn [vx vy]. ropen.
  f_equal; field; lra.
Qed.

Lemma disk_box (x y cx cy r : R) : sqrt ((x - cx) * (x - cx) + (y - cy) * (y - cy)) - r < 0 ->
  cx - r < x < cx + r /\ cy - r < y < cy + r.
Proof.
  intros H. set (q := mkV2 (x - cx) (y - cy) : RV2).
  pose proof (abs_le_len2_x q) as Ax. pose proof (abs_le_len2_y q) as Ay. unfold len2, q in Ax, Ay; cbn [vx vy] in Ax, Ay.
  assert (Bx : Rabs (x - cx) < r) by lra. assert (By : Rabs (y - cy) < r) by lra.
  apply Rabs_lt_inv in Bx, By. lra.
Qed.

(* ------------------------------------------------------------ FlatFlankCam2D
   Side conditions (none is checked by the constructor): 0 < distance, 0 <= baseRadius,
   0 <= noseRadius, |baseRadius - noseRadius| < distance (the circles are not nested, so the tangent
   flank exists: |sin| < 1).  The nose may be the larger circle: the box is the repaired one (fix
   c241c7a: x extent max baseRadius noseRadius). *)
Theorem flatflankcam_enc distance baseRadius noseRadius o :
  0 < distance -> 0 <= baseRadius -> 0 <= noseRadius -> Rabs (baseRadius - noseRadius) < distance ->
  @k_flatflankcam ROps distance baseRadius noseRadius = Some o -> enc2 o.
Proof.
  intros HD HB HN HBD H. unfold k_flatflankcam in H. apply some_inj2 in H. subst o.
  set (s := fl_s distance baseRadius noseRadius). set (c := fl_c distance baseRadius noseRadius).
  pose proof (fl_s_range _ _ _ HD HBD) as Hs. pose proof (fl_c_pos _ _ _ HD HBD) as Hc.
  pose proof (fl_c_sq _ _ _ HD HBD) as Hcc. pose proof (fl_sD _ baseRadius noseRadius HD) as HsD.
  pose proof (Rabs_lt_inv _ _ HBD) as HBD'.
  fold s c in Hs, Hc, Hcc, HsD.
  ropen. change ((baseRadius - noseRadius) / distance) with s.
  change (sqrt (1 - s * s)) with c.
  (* the flank vector is c D (-s, c) *)
  assert (EU : @v2sub ROps (v2add (v2muls (mkV2 c s) noseRadius) (mkV2 0 distance)) (v2muls (mkV2 c s) baseRadius)
               = mkV2 ((c * distance) * (- s)) ((c * distance) * c)).
  { unfold v2sub, v2add, v2muls; cbn [vx vy]. ropen. f_equal; [nra|].
    replace (c * distance * c) with ((c * c) * distance) by ring. rewrite Hcc. nra. }
  rewrite EU.
  assert (Hk : 0 < c * distance) by (apply Rmult_lt_0_compat; lra).
  assert (He : - s * - s + c * c = 1) by nra.
  rewrite (scaled_unit_normalize _ _ _ Hk He), (scaled_unit_len _ _ _ Hk He).
  set (xmax := Rmax baseRadius noseRadius).
  pose proof (Rmax_l baseRadius noseRadius) as MB. pose proof (Rmax_r baseRadius noseRadius) as MN. fold xmax in MB, MN.
  split; cbn [bb2 ev2].
  - unfold ordered2; cbn [b2min b2max vx vy]. lra.
  - intros [px py]. unfold flatflank_ev. cbn [vx vy]. ropen.
    unfold v2len, v2len2, v2sub, v2dot, v2muls; cbn [vx vy]. ropen.
    set (X := Rabs px). assert (HX : 0 <= X) by apply Rabs_pos.
    assert (IX : forall m, X < m -> - m < px < m) by (intros m Hm; apply Rabs_lt_inv; exact Hm).
    unfold in_box2; cbn [b2min b2max vx vy].
    destruct (Rltb _ 0) eqn:C1; [|destruct (Rleb _ (c * distance)) eqn:C2]; bfalse; intros Hneg.
    + (* base circle *)
      destruct (disk_box X py 0 0 baseRadius) as [Bx By].
      { replace (X - 0) with X by ring. replace (py - 0) with py by ring. exact Hneg. }
      specialize (IX xmax ltac:(lra)). lra.
    + (* flank *)
      set (A := c * X + s * py). set (T := - s * X + c * py).
      assert (EA : (X - c * baseRadius) * c + (py - s * baseRadius) * - - s = A - baseRadius) by (unfold A; nra).
      assert (ET : (X - c * baseRadius) * - s + (py - s * baseRadius) * c = T) by (unfold T; nra).
      rewrite EA in Hneg. rewrite ET in C1, C2.
      assert (EX : X = c * A - s * T).
      { unfold A, T. replace (c * (c * X + s * py) - s * (- s * X + c * py)) with ((c * c + s * s) * X) by ring. rewrite Hcc. ring. }
      assert (EY : py = s * A + c * T).
      { unfold A, T. replace (s * (c * X + s * py) + c * (- s * X + c * py)) with ((c * c + s * s) * py) by ring. rewrite Hcc. ring. }
      destruct (flank_strip _ _ _ HD HB HN HBD A T) as (F1 & F2 & F3); fold s c; try lra.
      fold s c xmax in F1, F2, F3. specialize (IX xmax ltac:(lra)). lra.
    + (* nose circle *)
      destruct (disk_box X py 0 distance noseRadius) as [Bx By]; [exact Hneg|].
      specialize (IX xmax ltac:(lra)). lra.
Qed.

(* MakeFlatFlankCam validates its design parameters; every cam it returns satisfies the side
   conditions above, so enclosure holds for ALL arguments it accepts. *)
Theorem makeflatflankcam_enc lift duration maxDiameter o :
  @k_makeflatflankcam ROps lift duration maxDiameter = Some o -> enc2 o.
Proof.
  unfold k_makeflatflankcam. intros H. ropen. rewrite !two_eq in H. change (opi ROps) with PI in H. change (ocos ROps) with cos in H.
  destruct (Rleb maxDiameter 0) eqn:K1; [discriminate|].
  destruct (Rleb lift 0) eqn:K2; [discriminate|].
  destruct (Rleb duration 0) eqn:K3; [discriminate|]. destruct (Rleb PI duration) eqn:K4; [discriminate|]. cbn [orb] in H.
  destruct (Rleb (maxDiameter / 2 - lift) 0) eqn:K5; [discriminate|].
  destruct (Rleb _ 0) eqn:K6 in H; [discriminate|]. bfalse.
  set (B := maxDiameter / 2 - lift) in *. set (c := cos (duration / 2)) in *.
  assert (Hc0 : 0 < c) by (apply cos_gt_0; lra).
  assert (Hc1 : c < 1).
  { unfold c. rewrite <- cos_0. apply cos_decreasing_1; lra. }
  set (q := lift * c / (1 - c)) in *.
  assert (Hq : 0 < q) by (unfold q; apply Rmult_lt_0_compat; [nra | apply Rinv_0_lt_compat; lra]).
  assert (Eq : q * (1 - c) = lift * c) by (unfold q; field; lra).
  (* B - N = q < lift + q = distance *)
  eapply flatflankcam_enc; [| | | | exact H]; try lra.
  apply Rabs_def1; lra.
Qed.

(* ------------------------------------------------------------ Flange1 (NewFlange1 validates nothing)
   Side conditions: 0 < distance, 0 <= centerRadius, 0 <= sideRadius, |centerRadius - sideRadius| <
   distance.  The side circles may be the larger ones: the box is the repaired one (fix 9483321:
   y extent max centerRadius sideRadius). *)
Theorem flange1_enc distance centerRadius sideRadius o :
  0 < distance -> 0 <= centerRadius -> 0 <= sideRadius -> Rabs (centerRadius - sideRadius) < distance ->
  @k_flange1 ROps distance centerRadius sideRadius = Some o -> enc2 o.
Proof.
  intros HD HB HN HBD H. unfold k_flange1 in H. apply some_inj2 in H. subst o.
  set (s := fl_s distance centerRadius sideRadius). set (c := fl_c distance centerRadius sideRadius).
  pose proof (fl_s_range _ _ _ HD HBD) as Hs. pose proof (fl_c_pos _ _ _ HD HBD) as Hc.
  pose proof (fl_c_sq _ _ _ HD HBD) as Hcc. pose proof (fl_sD _ centerRadius sideRadius HD) as HsD.
  pose proof (Rabs_lt_inv _ _ HBD) as HBD'.
  fold s c in Hs, Hc, Hcc, HsD.
  ropen. change ((centerRadius - sideRadius) / distance) with s.
  change (sqrt (1 - s * s)) with c.
  assert (EU : @v2sub ROps (v2add (v2muls (mkV2 s c) sideRadius) (mkV2 distance 0)) (v2muls (mkV2 s c) centerRadius)
               = mkV2 ((c * distance) * c) ((c * distance) * (- s))).
  { unfold v2sub, v2add, v2muls; cbn [vx vy]. ropen. f_equal; [|nra].
    replace (c * distance * c) with ((c * c) * distance) by ring. rewrite Hcc. nra. }
  rewrite EU.
  assert (Hk : 0 < c * distance) by (apply Rmult_lt_0_compat; lra).
  assert (He : c * c + - s * - s = 1) by nra.
  rewrite (scaled_unit_normalize _ _ _ Hk He), (scaled_unit_len _ _ _ Hk He).
  set (h := Rmax centerRadius sideRadius).
  pose proof (Rmax_l centerRadius sideRadius) as MB. pose proof (Rmax_r centerRadius sideRadius) as MN. fold h in MB, MN.
  split; cbn [bb2 ev2].
  - unfold ordered2; cbn [b2min b2max vx vy]. lra.
  - intros [px py]. unfold flange1_ev, v2abs. cbn [vx vy]. ropen.
    unfold v2len, v2len2, v2sub, v2dot, v2muls; cbn [vx vy]. ropen.
    set (X := Rabs px). assert (HX : 0 <= X) by apply Rabs_pos.
    set (Y := Rabs py). assert (HY : 0 <= Y) by apply Rabs_pos.
    assert (IX : forall m, X <= m -> - m <= px <= m) by (intros m Hm; apply Rabs_le_inv; exact Hm).
    assert (IY : forall m, Y <= m -> - m <= py <= m) by (intros m Hm; apply Rabs_le_inv; exact Hm).
    unfold in_box2; cbn [b2min b2max vx vy].
    destruct (Rltb _ 0) eqn:C1; [|destruct (Rleb _ (c * distance)) eqn:C2]; bfalse; intros Hneg.
    + (* centre circle *)
      destruct (disk_box X Y 0 0 centerRadius) as [Bx By].
      { replace (X - 0) with X by ring. replace (Y - 0) with Y by ring. exact Hneg. }
      specialize (IX (distance + sideRadius) ltac:(lra)). specialize (IY h ltac:(lra)). lra.
    + (* flank *)
      set (A := s * X + c * Y). set (T := c * X - s * Y).
      assert (EA : (X - s * centerRadius) * - - s + (Y - c * centerRadius) * c = A - centerRadius) by (unfold A; nra).
      assert (ET : (X - s * centerRadius) * c + (Y - c * centerRadius) * - s = T) by (unfold T; nra).
      rewrite EA in Hneg. rewrite ET in C1, C2.
      assert (EX : X = s * A + c * T).
      { unfold A, T. replace (s * (s * X + c * Y) + c * (c * X - s * Y)) with ((c * c + s * s) * X) by ring. rewrite Hcc. ring. }
      assert (EY : Y = c * A - s * T).
      { unfold A, T. replace (c * (s * X + c * Y) - s * (c * X - s * Y)) with ((c * c + s * s) * Y) by ring. rewrite Hcc. ring. }
      destruct (flank_strip _ _ _ HD HB HN HBD A T) as (F1 & F2 & F3); fold s c; try lra.
      fold s c h in F1, F2, F3.
      specialize (IX (distance + sideRadius) ltac:(lra)). specialize (IY h ltac:(lra)). lra.
    + (* side circle *)
      destruct (disk_box X Y distance 0 sideRadius) as [Bx By]; [exact Hneg|].
      specialize (IX (distance + sideRadius) ltac:(lra)). specialize (IY h ltac:(lra)). lra.
Qed.

(* ------------------------------------------------------------ ArcSpiral2D
   ArcSpiral2D validates a <> 0 and start <> end; the only missing side condition is 0 <= d (the
   half width of the band around the spiral).  Every candidate point that Evaluate compares against -
   the two ends, the point of the spiral at the query's polar angle modulo 2 pi, and the points the two
   `for` loops step to - has its angle in [start, end]; the polar radius a theta + k is affine in theta,
   so its absolute value is at most max |r(start)| |r(end)| = rMax - d; a query point outside the box
   is farther than rMax from the origin, hence farther than d from every candidate. *)
Lemma tau_eq : @tau ROps = 2 * PI.
Proof. unfold tau. rewrite two_eq. reflexivity. Qed.
Lemma tau_pos : 0 < @tau ROps.
Proof. rewrite tau_eq. pose proof PI_RGT_0. lra. Qed.

Lemma up_loop_reaches n theta lim : lim - theta <= INR n * @tau ROps -> lim <= @up_loop ROps n theta lim.
Proof.
  revert theta. induction n as [|n IH]; intros theta H; cbn [up_loop].
  - cbn in H. lra.
  - ropen. destruct (Rltb theta lim) eqn:C; bfalse; [|lra].
    apply IH. rewrite S_INR in H. lra.
Qed.
Lemma down_loop_reaches n theta lim : theta - lim <= INR n * @tau ROps -> @down_loop ROps n theta lim <= lim.
Proof.
  revert theta. induction n as [|n IH]; intros theta H; cbn [down_loop].
  - cbn in H. lra.
  - ropen. destruct (Rltb lim theta) eqn:C; bfalse; [|lra].
    apply IH. rewrite S_INR in H. lra.
Qed.
Lemma Rtrunc_gt x : x - 1 < IZR (Rtrunc x).
Proof.
  unfold Rtrunc. destruct (Rle_dec 0 x) as [H|H].
  - destruct (base_Int_part x). lra.
  - rewrite opp_IZR. destruct (base_Int_part (- x)). lra.
Qed.
Lemma loop_fuel_enough gap : gap <= INR (@loop_fuel ROps gap) * @tau ROps.
Proof.
  unfold loop_fuel. cbv zeta. change (otoZ ROps) with Rtrunc. ropen.
  pose proof tau_pos as Ht. set (x := gap / @tau ROps).
  assert (Ex : gap = x * @tau ROps) by (unfold x; field; lra).
  pose proof (Rtrunc_gt x) as Hx. rewrite plus_INR. cbn [INR].
  assert (Hz : IZR (Rtrunc x) <= INR (Z.to_nat (Rtrunc x))).
  { destruct (Z_lt_le_dec (Rtrunc x) 0) as [Hn|Hp].
    - apply IZR_lt in Hn. pose proof (pos_INR (Z.to_nat (Rtrunc x))). lra.
    - rewrite INR_IZR_INZ, Z2Nat.id by exact Hp. lra. }
  rewrite Ex at 1. apply Rmult_le_compat_r; lra.
Qed.

Lemma abs_between lo hi v : lo <= v <= hi -> Rabs v <= Rmax (Rabs lo) (Rabs hi).
Proof.
  intros [H1 H2]. pose proof (Rmax_l (Rabs lo) (Rabs hi)). pose proof (Rmax_r (Rabs lo) (Rabs hi)).
  pose proof (Rabs_ge_r lo). pose proof (Rabs_ge_l hi). apply Rabs_le. lra.
Qed.
Lemma affine_radius_bound a k s0 e0 theta : s0 <= theta <= e0 ->
  Rabs (a * theta + k) <= Rmax (Rabs (a * s0 + k)) (Rabs (a * e0 + k)).
Proof.
  intros [H1 H2]. destruct (Rle_dec 0 a) as [Ha|Ha].
  - apply abs_between. split; nra.
  - rewrite Rmax_comm. apply abs_between. split; nra.
Qed.

Lemma cand_far Rr phi r theta M d : 0 <= d -> Rabs r <= M -> M + d < Rr ->
  d * d < @polar_dist2 ROps (Rr, phi) (r, theta).
Proof.
  intros Hd Hr HR. unfold polar_dist2; cbn [fst snd]. ropen. rewrite two_eq. change (ocos ROps) with cos.
  pose proof (COS_bound (phi - theta)) as [Hc1 Hc2]. set (cc := cos (phi - theta)) in *.
  pose proof (Rabs_pos r) as Hr0.
  assert (Hrc : r * cc <= Rabs r).
  { rewrite <- (Rabs_right (Rabs r)) by lra. eapply Rle_trans; [apply Rle_abs|]. rewrite Rabs_mult, Rabs_Rabsolu.
    rewrite <- (Rmult_1_r (Rabs r)) at 2. apply Rmult_le_compat_l; [lra|]. apply Rabs_le. lra. }
  assert (Hsq : r * r = Rabs r * Rabs r) by (unfold Rabs; destruct (Rcase_abs r); ring).
  assert (HR0 : 0 < Rr) by lra.
  assert (E : Rr * (r * cc) <= Rr * Rabs r) by (apply Rmult_le_compat_l; lra).
  assert (G : d < Rr - Rabs r) by lra.
  assert (G2 : d * d < (Rr - Rabs r) * (Rr - Rabs r)) by nra.
  nra.
Qed.

Theorem arcspiral_enc a k start end_ d o : 0 <= d ->
  @k_arcspiral ROps a k start end_ d = Some o -> enc2 o.
Proof.
  intros Hd H. unfold k_arcspiral in H. ropen.
  destruct (Reqb start end_) eqn:K1; [discriminate|]. destruct (Reqb a 0) eqn:K2; [discriminate|]. bfalse.
  assert (X : exists s0 e0, s0 < e0 /\ (if Rltb end_ start then (end_, start) else (start, end_)) = (s0, e0)).
  { destruct (Rltb end_ start) eqn:C; bfalse; [exists end_, start | exists start, end_]; split; try reflexivity; lra. }
  destruct X as (s0 & e0 & Hse & E). rewrite E in H. apply some_inj2 in H. subst o. clear E K1 start end_.
  assert (Er : forall th, @sp_radius ROps a k th = a * th + k).
  { intros th. unfold sp_radius. ropen. destruct (Reqb a 0) eqn:C; bfalse; [contradiction | reflexivity]. }
  rewrite !Er. set (M := Rmax (Rabs (a * s0 + k)) (Rabs (a * e0 + k))).
  assert (HM : 0 <= M) by (unfold M; eapply Rle_trans; [apply Rabs_pos | apply Rmax_l]).
  split; cbn [bb2 ev2].
  - unfold ordered2; cbn [b2min b2max vx vy]. lra.
  - intros p Hneg.
    match goal with |- in_box2 ?b p => destruct (classic_in_box2 b p) as [Hin|Hout]; [exact Hin | exfalso] end.
    unfold in_box2 in Hout; cbn [b2min b2max vx vy] in Hout.
    pose proof (abs_le_len2_x p) as Ax. pose proof (abs_le_len2_y p) as Ay.
    assert (HR : M + d < len2 p).
    { destruct (Rle_dec (len2 p) (M + d)) as [Hle|]; [|lra]. exfalso. apply Hout.
      pose proof (Rabs_le_inv (vx p) (M + d) ltac:(lra)). pose proof (Rabs_le_inv (vy p) (M + d) ltac:(lra)). lra. }
    unfold spiral_ev in Hneg. cbv zeta in Hneg. rewrite v2len_eq in Hneg. cbn [fst snd] in Hneg.
    set (pp := (len2 p, oatan2 ROps (vy p) (vx p))) in *.
    (* every candidate in [s0, e0] is farther than d *)
    assert (Far : forall th, s0 <= th <= e0 -> d * d < @polar_dist2 ROps pp (@sp_radius ROps a k th, th)).
    { intros th Hth. rewrite Er. unfold pp. apply cand_far with M; [exact Hd | apply affine_radius_bound, Hth | exact HR]. }
    assert (Step : forall d2 th, d * d < d2 ->
              d * d < @spiral_step ROps a k pp (a * s0 + k, s0) (a * e0 + k, e0) d2 th).
    { intros d2 th Hd2. unfold spiral_step. cbv zeta. cbn [fst snd]. ropen.
      set (t1 := snd pp - @tau ROps * @go_round ROps ((snd pp - th) / @tau ROps)).
      destruct (Rleb s0 t1) eqn:C1; [destruct (Rleb t1 e0) eqn:C2|]; cbn [andb]; bfalse.
      - apply Rmin_glb_lt; [exact Hd2 | apply Far; lra].
      - (* t1 > e0 *)
        assert (C0 : Rltb t1 s0 = false) by (apply Rltb_false; lra). rewrite C0.
        assert (C3 : Rltb e0 t1 = true) by (apply Rltb_true; lra). rewrite C3.
        set (t2 := @down_loop ROps _ t1 e0).
        assert (H2 : t2 <= e0) by (apply down_loop_reaches, loop_fuel_enough).
        destruct (Rltb s0 t2) eqn:C4; bfalse; [apply Rmin_glb_lt; [exact Hd2 | apply Far; lra] | exact Hd2].
      - (* t1 < s0 *)
        assert (C0 : Rltb t1 s0 = true) by (apply Rltb_true; lra). rewrite C0.
        set (t2 := @up_loop ROps _ t1 s0).
        assert (H2 : s0 <= t2) by (apply up_loop_reaches, loop_fuel_enough).
        set (d2' := if Rltb t2 e0 then Rmin d2 (@polar_dist2 ROps pp (@sp_radius ROps a k t2, t2)) else d2).
        assert (Hd2' : d * d < d2').
        { unfold d2'. destruct (Rltb t2 e0) eqn:C4; bfalse; [apply Rmin_glb_lt; [exact Hd2 | apply Far; lra] | exact Hd2]. }
        destruct (Rltb e0 t2) eqn:C5; bfalse; [|exact Hd2'].
        set (t3 := @down_loop ROps _ t2 e0).
        assert (H3 : t3 <= e0) by (apply down_loop_reaches, loop_fuel_enough).
        destruct (Rltb s0 t3) eqn:C6; bfalse; [apply Rmin_glb_lt; [exact Hd2' | apply Far; lra] | exact Hd2']. }
    assert (D0 : d * d < Rmin (@polar_dist2 ROps pp (a * s0 + k, s0)) (@polar_dist2 ROps pp (a * e0 + k, e0)))
      by (rewrite <- !Er; apply Rmin_glb_lt; apply Far; lra).
    set (d20 := Rmin _ _) in *.
    assert (Fin : d * d < match @sp_theta ROps a k (fst pp) with
                          | Some thetas => fold_left (@spiral_step ROps a k pp (a * s0 + k, s0) (a * e0 + k, e0)) thetas d20
                          | None => d20 end).
    { unfold sp_theta. ropen. destruct (Reqb a 0) eqn:C; bfalse; [contradiction|]. cbn [fold_left]. apply Step, D0. }
    set (dd := match @sp_theta ROps a k (fst pp) with Some _ => _ | None => _ end) in *.
    assert (S : d < sqrt dd).
    { rewrite <- (sqrt_square d Hd). apply sqrt_lt_1_alt. split; [nra | exact Fin]. }
    change (sqrt dd - d < 0) in Hneg. lra.
Qed.

(* ------------------------------------------------------------ ThreeArcCam2D
   The flank arc has radius F about C = (cx, cy), cx < 0, where |C| = r0 = F - B and
   |C - (0, D)| = r1 = F - N.  Evaluate uses the flank distance for the points whose direction from
   C lies between the directions to the base centre and to the nose centre.  All such directions and
   the query direction have a positive x component, so the angle comparisons are comparisons of
   cross products. *)
Lemma lt_of_sq_lt a b : 0 <= a -> 0 < b -> a * a < b * b -> a < b.
Proof. intros Ha Hb H. destruct (Rlt_dec a b) as [|n]; [assumption|]. exfalso. assert (b <= a) by lra. nra. Qed.

(* a vector v of length < F, clockwise of (or along) the vector w of length r <= F, with v.x >= w.x > 0,
   ends at most F - r above the end of w *)
Lemma sector_above wx wy r F vx vy : 0 < wx -> wx * wx + wy * wy = r * r -> 0 < r -> r <= F ->
  wx <= vx -> vx * vx + vy * vy < F * F -> vy * wx <= wy * vx -> vy - wy <= F - r.
Proof.
  intros Hwx Er Hr HrF Hvx Hlen Hc.
  destruct (Rle_dec 0 wy) as [Hwy|Hwy].
  - destruct (Rle_dec vy 0) as [Hvy|Hvy]; [lra|].
    assert (Hvy' : 0 < vy) by lra.
    assert (P1 : 0 < vy * wx) by (apply Rmult_lt_0_compat; lra).
    assert (Hwy' : 0 < wy).
    { destruct (Req_dec wy 0) as [E|E]; [rewrite E in Hc; lra | lra]. }
    assert (S1 : (vy * wx) * (vy * wx) <= (wy * vx) * (wy * vx)) by (apply Rmult_le_compat; lra).
    assert (S2 : (vy * r) * (vy * r) <= (wy * wy) * (vx * vx + vy * vy)).
    { replace ((vy * r) * (vy * r)) with (vy * vy * (r * r)) by ring. rewrite <- Er. nra. }
    assert (S3 : (wy * wy) * (vx * vx + vy * vy) < (wy * wy) * (F * F)).
    { apply Rmult_lt_compat_l; [nra | exact Hlen]. }
    assert (S4 : vy * r < wy * F).
    { apply lt_of_sq_lt; [nra | nra|]. replace ((wy * F) * (wy * F)) with ((wy * wy) * (F * F)) by ring. lra. }
    assert (Hwr : wy <= r) by (apply Rnot_lt_le; intros G; nra).
    assert (S5 : (vy - wy) * r < r * (F - r)) by nra.
    assert (vy - wy < F - r) by (apply (Rmult_lt_reg_r r); [exact Hr | lra]). lra.
  - assert (Hwy' : wy < 0) by lra.
    assert (wy * vx <= wy * wx) by (apply Rmult_le_compat_neg_l; lra).
    assert (vy * wx <= wy * wx) by lra.
    assert (vy <= wy) by (apply (Rmult_le_reg_r wx); lra). lra.
Qed.

(* a vector v of length < F, counter-clockwise of the vector b = (bx, by), by >= 0, bx > 0 of length
   r <= F, ends at most F - r to the right of the end of b *)
Lemma sector_right bx by_ r F vx vy : 0 < bx -> bx * bx + by_ * by_ = r * r -> 0 < r -> r <= F ->
  0 <= by_ -> 0 < vx -> vx * vx + vy * vy < F * F -> by_ * vx <= vy * bx -> vx - bx <= F - r.
Proof.
  intros Hbx Er Hr HrF Hby Hvx Hlen Hc.
  assert (P0 : 0 <= by_ * vx) by (apply Rmult_le_pos; lra).
  assert (Hvy : 0 <= vy).
  { destruct (Rle_dec 0 vy) as [|n]; [assumption|]. exfalso. assert (0 < (- vy) * bx) by (apply Rmult_lt_0_compat; lra). lra. }
  assert (S1 : (by_ * vx) * (by_ * vx) <= (vy * bx) * (vy * bx)) by (apply Rmult_le_compat; lra).
  assert (S2 : (r * vx) * (r * vx) <= (bx * bx) * (vx * vx + vy * vy)).
  { replace ((r * vx) * (r * vx)) with ((r * r) * (vx * vx)) by ring. rewrite <- Er. nra. }
  assert (S3 : (bx * bx) * (vx * vx + vy * vy) < (bx * bx) * (F * F)).
  { apply Rmult_lt_compat_l; [nra | exact Hlen]. }
  assert (S4 : r * vx < bx * F).
  { apply lt_of_sq_lt; [nra | nra|]. replace ((bx * F) * (bx * F)) with ((bx * bx) * (F * F)) by ring. lra. }
  assert (Hbr : bx <= r) by (apply Rnot_lt_le; intros G; nra).
  assert (S5 : (vx - bx) * r < r * (F - r)) by nra.
  assert (vx - bx < F - r) by (apply (Rmult_lt_reg_r r); [exact Hr | lra]). lra.
Qed.

(* atan2 in the open right half plane is the arc tangent of the slope: comparisons of angles are
   comparisons of cross products, the sign of the angle is the sign of y *)
Lemma Ratan2_right y x : 0 < x -> Ratan2 y x = atan (y / x).
Proof. intros H. unfold Ratan2. destruct (Rlt_dec 0 x); [reflexivity | contradiction]. Qed.
Lemma atan_le_iff a b : atan a <= atan b <-> a <= b.
Proof.
  split; intros H.
  - destruct (Rle_dec a b) as [|n]; [assumption|]. exfalso. assert (b < a) by lra. pose proof (atan_increasing _ _ H0). lra.
  - destruct H as [H|H]; [left; apply atan_increasing, H | subst; lra].
Qed.
Lemma slope_le_iff y1 x1 y2 x2 : 0 < x1 -> 0 < x2 -> (y1 / x1 <= y2 / x2 <-> y1 * x2 <= y2 * x1).
Proof.
  intros H1 H2. split; intros H.
  - apply (Rmult_le_compat_r (x1 * x2)) in H; [|nra]. replace (y1 / x1 * (x1 * x2)) with (y1 * x2) in H by (field; lra).
    replace (y2 / x2 * (x1 * x2)) with (y2 * x1) in H by (field; lra). exact H.
  - apply (Rmult_le_reg_r (x1 * x2)); [nra|]. replace (y1 / x1 * (x1 * x2)) with (y1 * x2) by (field; lra).
    replace (y2 / x2 * (x1 * x2)) with (y2 * x1) by (field; lra). exact H.
Qed.
Lemma Ratan2_le_cross y1 x1 y2 x2 : 0 < x1 -> 0 < x2 -> (Ratan2 y1 x1 <= Ratan2 y2 x2 <-> y1 * x2 <= y2 * x1).
Proof. intros H1 H2. rewrite !Ratan2_right by assumption. rewrite atan_le_iff. apply slope_le_iff; assumption. Qed.
Lemma Ratan2_neg_iff y x : 0 < x -> (Ratan2 y x < 0 <-> y < 0).
Proof.
  intros H. pose proof (Ratan2_le_cross 0 x y x H H) as L.
  assert (E0 : Ratan2 0 x = 0) by (rewrite Ratan2_right by exact H; unfold Rdiv; rewrite Rmult_0_l; apply atan_0).
  rewrite E0 in L. split; intros G.
  - destruct (Rlt_dec y 0) as [|n]; [assumption|]. exfalso. assert (0 * x <= y * x) by nra. apply L in H0. lra.
  - destruct (Rlt_dec (Ratan2 y x) 0) as [|n]; [assumption|]. exfalso. assert (0 <= Ratan2 y x) by lra. apply L in H0. nra.
Qed.
Lemma Ratan2_pos_iff y x : 0 < x -> (0 < Ratan2 y x <-> 0 < y).
Proof.
  intros H. pose proof (Ratan2_le_cross y x 0 x H H) as L.
  assert (E0 : Ratan2 0 x = 0) by (rewrite Ratan2_right by exact H; unfold Rdiv; rewrite Rmult_0_l; apply atan_0).
  rewrite E0 in L. split; intros G.
  - destruct (Rlt_dec 0 y) as [|n]; [assumption|]. exfalso. assert (y * x <= 0 * x) by nra. apply L in H0. lra.
  - destruct (Rlt_dec 0 (Ratan2 y x)) as [|n]; [assumption|]. exfalso. assert (Ratan2 y x <= 0) by lra. apply L in H0. nra.
Qed.

(* the flank centre computed by ThreeArcCam2D *)
Lemma threearc_center_facts D B N F :
  0 < D -> 0 <= B -> 0 <= N -> Rabs (B - N) < D -> (B + D + N) / 2 < F ->
  let fc := @threearc_center ROps D B N F in
  vx fc < 0 /\ vx fc * vx fc + vy fc * vy fc = (F - B) * (F - B) /\
  vx fc * vx fc + (D - vy fc) * (D - vy fc) = (F - N) * (F - N).
Proof.
  intros HD HB HN HBN HF. apply Rabs_lt_inv in HBN.
  unfold threearc_center. cbv zeta. cbn [vx vy]. ropen. rewrite two_eq.
  set (r0 := F - B). set (r1 := F - N).
  assert (H0 : 0 < r0) by (unfold r0; lra). assert (H1 : 0 < r1) by (unfold r1; lra).
  set (y := (r0 * r0 - r1 * r1 + D * D) / (2 * D)).
  assert (Ey : 2 * D * y = r0 * r0 - r1 * r1 + D * D) by (unfold y; field; lra).
  assert (P1 : 0 < (r0 + D - r1) * (r0 + D + r1)) by (apply Rmult_lt_0_compat; unfold r0, r1; lra).
  assert (P2 : 0 < (r1 - r0 + D) * (r1 + r0 - D)) by (apply Rmult_lt_0_compat; unfold r0, r1; lra).
  assert (Q1 : 0 < 2 * D * (r0 + y)) by nra.
  assert (Q2 : 0 < 2 * D * (r0 - y)) by nra.
  assert (R1 : 0 < r0 + y) by (apply (Rmult_lt_reg_l (2 * D)); lra).
  assert (R2 : 0 < r0 - y) by (apply (Rmult_lt_reg_l (2 * D)); lra).
  assert (Hpos : 0 < r0 * r0 - y * y) by (replace (r0 * r0 - y * y) with ((r0 + y) * (r0 - y)) by ring; apply Rmult_lt_0_compat; lra).
  pose proof (sqrt_lt_R0 _ Hpos) as Hs. pose proof (sqrt_sqrt (r0 * r0 - y * y) ltac:(lra)) as Hss.
  set (sq := sqrt (r0 * r0 - y * y)) in *.
  split; [lra | split].
  - replace (- sq * - sq) with (sq * sq) by ring. rewrite Hss. ring.
  - replace (- sq * - sq) with (sq * sq) by ring. rewrite Hss. nra.
Qed.

(* Side conditions: 0 < distance, 0 <= baseRadius, 0 <= noseRadius, |baseRadius - noseRadius| <
   distance (neither circle contains the other: not checked by the constructor, the square root of
   the flank centre is negative otherwise), and flankRadius strictly above the minimum
   (baseRadius + distance + noseRadius) / 2 that the constructor accepts (at the minimum itself
   the cam degenerates into the flank circle).  The box is the repaired one (fix 6b60422). *)
Theorem threearccam_enc distance baseRadius noseRadius flankRadius o :
  0 < distance -> 0 <= baseRadius -> 0 <= noseRadius -> Rabs (baseRadius - noseRadius) < distance ->
  (baseRadius + distance + noseRadius) / 2 < flankRadius ->
  @k_threearccam ROps distance baseRadius noseRadius flankRadius = Some o -> enc2 o.
Proof.
  intros HD HB HN HBN HF H. unfold k_threearccam in H.
  destruct (oltb ROps flankRadius _) eqn:K in H; [discriminate|]. clear K. apply some_inj2 in H. subst o.
  destruct (threearc_center_facts _ _ _ _ HD HB HN HBN HF) as (Hcx & E0 & E1). cbv zeta in Hcx, E0, E1.
  set (fc := @threearc_center ROps distance baseRadius noseRadius flankRadius) in *.
  destruct fc as [cx cy] eqn:Efc. cbn [vx vy] in *. clear Efc fc.
  apply Rabs_lt_inv in HBN.
  set (r0 := flankRadius - baseRadius) in *. set (r1 := flankRadius - noseRadius) in *.
  assert (H0 : 0 < r0) by (unfold r0; lra). assert (H1 : 0 < r1) by (unfold r1; lra).
  unfold v2sub; cbn [vx vy]. ropen. change (oatan2 ROps) with Ratan2.
  replace (0 - cx) with (- cx) by ring. replace (0 - cy) with (- cy) by ring.
  set (thB := Ratan2 (- cy) (- cx)). set (thN := Ratan2 (distance - cy) (- cx)).
  assert (Hbx : 0 < - cx) by lra.
  set (xm0 := Rmax baseRadius noseRadius).
  assert (Hxm0 : baseRadius <= xm0 /\ noseRadius <= xm0) by (unfold xm0; split; [apply Rmax_l | apply Rmax_r]).
  set (xmax := if Rltb thB 0 && Rltb 0 thN then Rmax xm0 (cx + flankRadius) else xm0).
  assert (Hxm : xm0 <= xmax) by (unfold xmax; destruct (Rltb thB 0 && Rltb 0 thN); [apply Rmax_l | lra]).
  split; cbn [bb2 ev2].
  - unfold ordered2; cbn [b2min b2max vx vy]. lra.
  - intros [px py]. unfold threearc_ev. cbn [vx vy]. ropen. change (oatan2 ROps) with Ratan2.
    unfold v2len, v2len2, v2sub, v2dot; cbn [vx vy]. ropen.
    set (X := Rabs px). assert (HX : 0 <= X) by apply Rabs_pos.
    assert (IX : forall m, X <= m -> - m <= px <= m) by (intros m Hm; apply Rabs_le_inv; exact Hm).
    unfold in_box2; cbn [b2min b2max vx vy].
    set (t := Ratan2 (py - cy) (X - cx)).
    destruct (Rltb t thB) eqn:C1; [|destruct (Rltb thN t) eqn:C2]; bfalse; intros Hneg.
    + (* base circle *)
      destruct (disk_box X py 0 0 baseRadius) as [Bx By].
      { replace (X - 0) with X by ring. replace (py - 0) with py by ring. exact Hneg. }
      specialize (IX xmax ltac:(lra)). lra.
    + (* nose circle *)
      destruct (disk_box X py 0 distance noseRadius) as [Bx By]; [exact Hneg|].
      specialize (IX xmax ltac:(lra)). lra.
    + (* flank arc *)
      set (vx_ := X - cx) in *. set (vy_ := py - cy) in *.
      assert (Hvx : 0 < vx_) by (unfold vx_; lra).
      assert (HF0 : 0 < flankRadius) by lra.
      assert (Hlen : vx_ * vx_ + vy_ * vy_ < flankRadius * flankRadius).
      { assert (S : sqrt (vx_ * vx_ + vy_ * vy_) < flankRadius) by lra.
        pose proof (sqrt_pos (vx_ * vx_ + vy_ * vy_)). pose proof (sqrt_sqrt (vx_ * vx_ + vy_ * vy_) ltac:(nra)). nra. }
      assert (CB : - cy * vx_ <= vy_ * - cx) by (apply (Ratan2_le_cross (- cy) (- cx) vy_ vx_ Hbx Hvx); exact C1).
      assert (CN : vy_ * - cx <= (distance - cy) * vx_) by (apply (Ratan2_le_cross vy_ vx_ (distance - cy) (- cx) Hvx Hbx); exact C2).
      assert (E0' : - cx * - cx + - cy * - cy = r0 * r0) by (rewrite <- E0; ring).
      assert (E1' : - cx * - cx + (distance - cy) * (distance - cy) = r1 * r1) by (rewrite <- E1; ring).
      assert (Hr0F : r0 <= flankRadius) by (unfold r0; lra). assert (Hr1F : r1 <= flankRadius) by (unfold r1; lra).
      (* y <= distance + noseRadius *)
      pose proof (sector_above (- cx) (distance - cy) r1 flankRadius vx_ vy_ Hbx E1' H1 Hr1F ltac:(unfold vx_; lra) Hlen CN) as YU.
      (* - baseRadius <= y *)
      assert (YL : - vy_ - - - cy <= flankRadius - r0).
      { assert (Eb : - cx * - cx + - - cy * - - cy = r0 * r0) by (rewrite <- E0; ring).
        assert (Lb : vx_ * vx_ + - vy_ * - vy_ < flankRadius * flankRadius) by nra.
        assert (Cb : - vy_ * - cx <= - - cy * vx_) by nra.
        exact (sector_above (- cx) (- - cy) r0 flankRadius vx_ (- vy_) Hbx Eb H0 Hr0F ltac:(unfold vx_; lra) Lb Cb). }
      (* x <= xmax *)
      assert (XU : X <= xmax).
      { unfold xmax. destruct (Rltb thB 0) eqn:C3; [destruct (Rltb 0 thN) eqn:C4|]; cbn [andb]; bfalse.
        - assert (vx_ < flankRadius) by (apply lt_of_sq_lt; nra).
          eapply Rle_trans; [|apply Rmax_r]. unfold vx_ in *. lra.
        - (* thN <= 0: the nose direction points down *)
          assert (Hwy : distance - cy <= 0).
          { destruct (Rle_dec (distance - cy) 0) as [|n]; [assumption|]. exfalso.
            assert (0 < thN) by (apply Ratan2_pos_iff; lra). lra. }
          assert (G : vx_ - - cx <= flankRadius - r1).
          { assert (Ew : - cx * - cx + - (distance - cy) * - (distance - cy) = r1 * r1) by (rewrite <- E1; ring).
            assert (Lw : vx_ * vx_ + - vy_ * - vy_ < flankRadius * flankRadius) by nra.
            assert (Cw : - (distance - cy) * vx_ <= - vy_ * - cx) by nra.
            exact (sector_right (- cx) (- (distance - cy)) r1 flankRadius vx_ (- vy_) Hbx Ew H1 Hr1F ltac:(lra) Hvx Lw Cw). }
          unfold vx_, r1 in G. lra.
        - (* 0 <= thB: the base direction points up *)
          assert (Hby : 0 <= - cy).
          { destruct (Rle_dec 0 (- cy)) as [|n]; [assumption|]. exfalso.
            assert (thB < 0) by (apply Ratan2_neg_iff; lra). lra. }
          assert (G : vx_ - - cx <= flankRadius - r0).
          { apply (sector_right (- cx) (- cy) r0 flankRadius vx_ vy_ Hbx E0' H0 Hr0F Hby Hvx Hlen CB). }
          unfold vx_, r0 in G. lra. }
      specialize (IX xmax XU). unfold vy_, r0, r1 in *. lra.
Qed.

(* the accepted minimum flankRadius = (baseRadius + distance + noseRadius) / 2: the flank centre is (0, r0) on the
   axis between the two circle centres, both limiting directions are vertical (-pi/2 and pi/2), every query
   direction (x >= 0) lies between them, so the cam is the flank circle; the box is [-F, F] x [-B, D + N] *)
Lemma Ratan2_right_range y x : 0 <= x -> - (PI / 2) <= Ratan2 y x <= PI / 2.
Proof.
  intros Hx. pose proof PI_RGT_0 as Hpi. unfold Ratan2.
  destruct (Rlt_dec 0 x) as [H|H]; [pose proof (atan_bound (y / x)); lra|].
  destruct (Rlt_dec x 0) as [H'|H']; [lra|].
  destruct (Rlt_dec 0 y); [lra|]. destruct (Rlt_dec y 0); lra.
Qed.

Theorem threearccam_min_enc distance baseRadius noseRadius o :
  0 < distance -> 0 <= baseRadius -> 0 <= noseRadius -> Rabs (baseRadius - noseRadius) < distance ->
  @k_threearccam ROps distance baseRadius noseRadius ((baseRadius + distance + noseRadius) / 2) = Some o -> enc2 o.
Proof.
  intros HD HB HN HBN H. apply Rabs_lt_inv in HBN. unfold k_threearccam in H.
  destruct (oltb ROps _ _) eqn:K in H; [discriminate|]. clear K. apply some_inj2 in H. subst o.
  set (F := (baseRadius + distance + noseRadius) / 2) in *.
  set (r0 := F - baseRadius). assert (H0 : 0 < r0) by (unfold r0, F; lra).
  assert (Efc : @threearc_center ROps distance baseRadius noseRadius F = mkV2 0 r0).
  { unfold threearc_center. cbv zeta. ropen. rewrite two_eq. fold r0.
    assert (Ey : (r0 * r0 - (F - noseRadius) * (F - noseRadius) + distance * distance) / (2 * distance) = r0)
      by (unfold r0, F; field; lra).
    rewrite Ey. replace (r0 * r0 - r0 * r0) with 0 by ring. rewrite sqrt_0, Ropp_0. reflexivity. }
  rewrite Efc. unfold v2sub; cbn [vx vy]. ropen. change (oatan2 ROps) with Ratan2.
  pose proof PI_RGT_0 as Hpi.
  assert (EB : Ratan2 (0 - r0) (0 - 0) = - PI / 2).
  { unfold Ratan2. replace (0 - 0) with 0 by ring. destruct (Rlt_dec 0 0) as [G|_]; [lra|].
    destruct (Rlt_dec 0 (0 - r0)) as [G|_]; [lra|]. destruct (Rlt_dec (0 - r0) 0) as [_|G]; [reflexivity | lra]. }
  assert (EN : Ratan2 (distance - r0) (0 - 0) = PI / 2).
  { unfold Ratan2. replace (0 - 0) with 0 by ring. destruct (Rlt_dec 0 0) as [G|_]; [lra|].
    destruct (Rlt_dec 0 (distance - r0)) as [_|G]; [reflexivity | unfold r0, F in G; lra]. }
  rewrite EB, EN.
  assert (C3 : Rltb (- PI / 2) 0 = true) by (apply Rltb_true; lra).
  assert (C4 : Rltb 0 (PI / 2) = true) by (apply Rltb_true; lra). rewrite C3, C4. cbn [andb].
  set (xm0 := Rmax baseRadius noseRadius). set (xmax := Rmax xm0 (0 + F)).
  assert (Hxm : F <= xmax) by (unfold xmax; eapply Rle_trans; [|apply Rmax_r]; lra).
  assert (HF0 : 0 < F) by (unfold F; lra).
  split; cbn [bb2 ev2].
  - unfold ordered2; cbn [b2min b2max vx vy]. lra.
  - intros [px py]. unfold threearc_ev. cbn [vx vy]. ropen. change (oatan2 ROps) with Ratan2.
    unfold v2len, v2len2, v2sub, v2dot; cbn [vx vy]. ropen.
    set (X := Rabs px). assert (HX : 0 <= X) by apply Rabs_pos.
    pose proof (Ratan2_right_range (py - r0) (X - 0) ltac:(lra)) as [T1 T2].
    set (t := Ratan2 (py - r0) (X - 0)) in *.
    assert (C1 : Rltb t (- PI / 2) = false) by (apply Rltb_false; lra).
    assert (C2 : Rltb (PI / 2) t = false) by (apply Rltb_false; lra). rewrite C1, C2. intros Hneg.
    destruct (disk_box X py 0 r0 F Hneg) as [Bx By].
    pose proof (Rabs_le_inv px xmax ltac:(fold X; lra)). unfold in_box2; cbn [b2min b2max vx vy]. unfold r0, F in *. lra.
Qed.

(* every flank radius ThreeArcCam2D accepts *)
Theorem threearccam_enc_all distance baseRadius noseRadius flankRadius o :
  0 < distance -> 0 <= baseRadius -> 0 <= noseRadius -> Rabs (baseRadius - noseRadius) < distance ->
  @k_threearccam ROps distance baseRadius noseRadius flankRadius = Some o -> enc2 o.
Proof.
  intros HD HB HN HBN H.
  assert (HF : (baseRadius + distance + noseRadius) / 2 <= flankRadius).
  { unfold k_threearccam in H. ropen. rewrite two_eq in H.
    destruct (Rltb flankRadius ((baseRadius + distance + noseRadius) / 2)) eqn:K; [discriminate | bfalse; exact K]. }
  destruct HF as [HF|HF].
  - exact (threearccam_enc _ _ _ _ o HD HB HN HBN HF H).
  - subst flankRadius. exact (threearccam_min_enc _ _ _ o HD HB HN HBN H).
Qed.

(* ------------------------------------------------------------ GearRack2D
   Evaluate = max (tooth (|sawtooth x pitch|, y)) (|x| - length): a negative value puts |x| below the
   half length and (|sawtooth x|, y) into the box of the tooth polygon, so y lies in the y range of
   the tooth box.  Stated for the stored fields (what the reification hook reads): the rack box must be
   ordered, contain [-length, length] in x and the y range of the tooth box. *)
Definition rack_box_ok (tb : RBox2) (length : R) (bb : RBox2) : Prop :=
  ordered2 bb /\ vx (b2min bb) <= - length /\ length <= vx (b2max bb) /\
  vy (b2min bb) <= vy (b2min tb) /\ vy (b2max tb) <= vy (b2max bb).

Theorem rack2_enc (tooth : RObj2) pitch length bb o : enc2 tooth -> rack_box_ok (bb2 tooth) length bb ->
  @k_rack2 ROps tooth pitch length bb = Some o -> enc2 o.
Proof.
  intros [_ Ht] (Ho & X1 & X2 & Y1 & Y2) H. unfold k_rack2 in H. apply some_inj2 in H. subst o.
  split; cbn [bb2 ev2]; [exact Ho|]. intros [px py]. unfold gearrack_ev. cbn [vx vy]. ropen. intros Hneg.
  match type of Hneg with Rmax ?a ?b < 0 => assert (D0 : a < 0) by (eapply Rle_lt_trans; [apply Rmax_l | exact Hneg]);
                                           assert (D1 : b < 0) by (eapply Rle_lt_trans; [apply Rmax_r | exact Hneg]) end.
  apply Ht in D0. destruct D0 as [_ Hy]. cbn [vx vy] in Hy.
  pose proof (Rabs_lt_inv px length ltac:(lra)) as Hx. unfold in_box2; cbn [vx vy]. lra.
Qed.

(* GearRack2D itself: for every parameter vector the constructor accepts, given that the tooth polygon
   it built encloses its material in a box whose y range lies in [0, toothHeight] (Polygon2D of the six
   half-tooth vertices: its box is their hull, y from 0 to toothHeight since BaseHeight >= 0 and
   Module > 0; the polygon's own enclosure is C01_mesh2_encloses) *)
Theorem gearrack_enc (tooth : RObj2) numberTeeth module pressureAngle backlash baseHeight o :
  enc2 tooth -> 0 <= vy (b2min (bb2 tooth)) ->
  vy (b2max (bb2 tooth)) <= @gearrack_height ROps module baseHeight ->
  @k_gearrack ROps tooth numberTeeth module pressureAngle backlash baseHeight = Some o -> enc2 o.
Proof.
  intros Ht Y1 Y2 H. unfold k_gearrack in H.
  destruct (numberTeeth <=? 0)%Z eqn:KZ; [discriminate|]. apply Z.leb_gt in KZ.
  kchecks H. ropen. bfalse.
  eapply rack2_enc; [exact Ht | | exact H].
  assert (HL : 0 <= @gearrack_pitch ROps module * IZR numberTeeth * @half ROps).
  { unfold gearrack_pitch. rewrite half_eq. change (opi ROps) with PI. ropen. pose proof PI_RGT_0.
    assert (0 < IZR numberTeeth) by (apply IZR_lt; lia).
    apply Rmult_le_pos; [apply Rmult_le_pos; [apply Rmult_le_pos|]|]; lra. }
  change (ofZ ROps) with IZR. ropen.
  assert (HH : 0 <= @gearrack_height ROps module baseHeight).
  { unfold gearrack_height, cst. change (ofZ ROps) with IZR. ropen. lra. }
  unfold rack_box_ok, ordered2; cbn [b2min b2max vx vy]. lra.
Qed.

(* ------------------------------------------------------------ the parameter-only primitives together *)
Definition cam_ok (d b n : R) : Prop := 0 < d /\ 0 <= b /\ 0 <= n /\ Rabs (b - n) < d.
Definition prim2_wf (p : Prim2 ROps) : Prop :=
  match p with
  | PFlatFlankCam d b n => cam_ok d b n
  | PThreeArcCam d b n _ => cam_ok d b n
  | PFlange1 d c s => cam_ok d c s
  | PArcSpiral _ _ _ _ d => 0 <= d
  end.
Theorem prim2_enc p o : prim2_wf p -> @k_prim2 ROps p = Some o -> enc2 o.
Proof.
  destruct p; cbn [prim2_wf k_prim2]; unfold cam_ok.
  - intros (H1 & H2 & H3 & H4). apply flatflankcam_enc; assumption.
  - intros (H1 & H2 & H3 & H4). apply threearccam_enc_all; assumption.
  - intros (H1 & H2 & H3 & H4). apply flange1_enc; assumption.
  - intros H. apply arcspiral_enc; assumption.
Qed.

(* the constructors' own argument checks pass (non-vacuity of the certificates) *)
Definition prim2_builds (p : Prim2 ROps) : Prop :=
  match p with
  | PArcSpiral a _ s e _ => a <> 0 /\ s <> e
  | PThreeArcCam d b n f => (b + d + n) / 2 <= f
  | _ => True
  end.
Lemma prim2_builds_some p : prim2_wf p -> prim2_builds p -> exists o, @k_prim2 ROps p = Some o.
Proof.
  destruct p; cbn [prim2_wf prim2_builds k_prim2]; intros W Hb.
  - unfold k_flatflankcam. eexists; reflexivity.
  - unfold k_threearccam. ropen. rewrite two_eq.
    destruct (Rltb flankRadius ((baseRadius + distance + noseRadius) / 2)) eqn:C; bfalse; [lra|]. eexists; reflexivity.
  - unfold k_flange1. eexists; reflexivity.
  - unfold k_arcspiral. destruct Hb as [Ha Hs]. ropen.
    destruct (Reqb start end_) eqn:C1; bfalse; [contradiction|]. destruct (Reqb a 0) eqn:C2; bfalse; [contradiction|].
    destruct (Rltb end_ start); eexists; reflexivity.
Qed.
