(* C03: RotateCopy folds the plane into the sector |angle| <= theta/2 about the x axis.
   For an operand that is mirror-symmetric about the x axis (the sector axis) the result is
   1-Lipschitz; for an asymmetric operand it is discontinuous across the sector boundary
   (rotatecopy_asymmetric_refuted: explicit tree and points). *)
From Coq Require Import Reals Lra Lia List Bool ZArith Psatz.
From Sdfx Require Import Num.Ops Num.RInst Geo.Vec Geo.Box Geo.BoxR Geo.NormR Geo.MinMaxR Geo.Mat
  Sdf.Union2 Sdf.Shape Sdf.ShapeR Sdf.LipR.
Import ListNotations.
Open Scope R_scope.

(* ------------------------------------------------------------------ floor *)
Lemma Int_part_unique z r : IZR z <= r < IZR z + 1 -> Int_part r = z.
Proof.
  intros [H1 H2]. unfold Int_part. rewrite <- (up_tech r z H1); [lia|]. rewrite plus_IZR. exact H2.
Qed.

(* ------------------------------------------------------------------ polar form of atan2 *)
Lemma sqrt_scaled x y : x <> 0 ->
  sqrt (x * x + y * y) = Rabs x * sqrt (1 + (y / x)²).
Proof.
  intros Hx. apply sqrt_lem_1.
  - nra.
  - apply Rmult_le_pos; [apply Rabs_pos | apply sqrt_pos].
  - assert (0 <= 1 + (y / x)²) by (unfold Rsqr; nra).
    replace (Rabs x * sqrt (1 + (y / x)²) * (Rabs x * sqrt (1 + (y / x)²)))
      with ((Rabs x * Rabs x) * (sqrt (1 + (y / x)²) * sqrt (1 + (y / x)²))) by ring.
    rewrite sqrt_def by assumption. rewrite <- Rabs_mult, Rabs_pos_eq by nra. unfold Rsqr. field. exact Hx.
Qed.

Lemma atan2_polar x y :
  x = sqrt (x * x + y * y) * cos (Ratan2 y x) /\ y = sqrt (x * x + y * y) * sin (Ratan2 y x).
Proof.
  unfold Ratan2.
  destruct (Rlt_dec 0 x) as [Hx|Hx]; [|destruct (Rlt_dec x 0) as [Hx'|Hx']].
  - assert (S0 : 0 < sqrt (1 + (y / x)²)) by (apply sqrt_lt_R0; unfold Rsqr; nra).
    rewrite sqrt_scaled by lra. rewrite cos_atan, sin_atan, Rabs_pos_eq by lra. split; field; lra.
  - assert (S0 : 0 < sqrt (1 + (y / x)²)) by (apply sqrt_lt_R0; unfold Rsqr; nra).
    rewrite sqrt_scaled by lra. rewrite Rabs_left by lra.
    destruct (Rle_dec 0 y).
    + rewrite neg_cos, neg_sin, cos_atan, sin_atan. split; field; lra.
    + replace (atan (y / x) - PI) with (- (PI - atan (y / x))) by ring.
      rewrite cos_neg, sin_neg, Rtrigo_facts.cos_pi_minus, Rtrigo_facts.sin_pi_minus, cos_atan, sin_atan. split; field; lra.
  - assert (x = 0) by lra. subst x.
    replace (0 * 0 + y * y) with (y * y) by ring.
    destruct (Rlt_dec 0 y); [|destruct (Rlt_dec y 0)].
    + rewrite sqrt_square by lra. rewrite cos_PI2, sin_PI2. split; ring.
    + replace (y * y) with ((- y) * (- y)) by ring. rewrite sqrt_square by lra.
      replace (- PI / 2) with (- (PI / 2)) by field. rewrite cos_neg, sin_neg, cos_PI2, sin_PI2. split; ring.
    + assert (y = 0) by lra. subst y. rewrite Rmult_0_l, sqrt_0. split; ring.
Qed.

(* ------------------------------------------------------------------ the sawtooth *)
Lemma sawtooth_spec x period : 0 < period ->
  exists m : Z, @sawtooth ROps x period = x - period * IZR m /\
                - (period / 2) <= @sawtooth ROps x period < period / 2.
Proof.
  intros Hp. unfold sawtooth, two. cbn. unfold Rfloor.
  set (t := (x + period / (1 + 1)) / period).
  exists (Int_part t). destruct (base_Int_part t) as [B1 B2].
  assert (Et : period * t = x + period / 2) by (unfold t; field; lra).
  replace (period / (1 + 1)) with (period / 2) by (f_equal; ring).
  split; [nra|]. split; nra.
Qed.

(* every real is within PI of a multiple of 2 PI *)
Lemma near_period x : exists j : Z, Rabs (x - 2 * PI * IZR j) <= PI.
Proof.
  pose proof PI_RGT_0 as Hpi.
  set (t := x / (2 * PI) + 1 / 2). exists (Int_part t). destruct (base_Int_part t) as [B1 B2].
  assert (Et : 2 * PI * t = x + PI) by (unfold t; field; lra).
  apply Rabs_le. split; nra.
Qed.
Lemma cos_period_Z x (j : Z) : cos (x - 2 * PI * IZR j) = cos x.
Proof.
  destruct j as [|p|p].
  - f_equal. simpl. ring.
  - rewrite <- (cos_period (x - 2 * PI * IZR (Z.pos p)) (Pos.to_nat p)). f_equal.
    rewrite INR_IZR_INZ, positive_nat_Z. ring.
  - rewrite <- (cos_period x (Pos.to_nat p)). f_equal.
    rewrite INR_IZR_INZ, positive_nat_Z. change (Z.neg p) with (- Z.pos p)%Z. rewrite opp_IZR. ring.
Qed.

(* folding two angles into [0, theta/2] does not increase their circular distance *)
Lemma fold_cos (theta al be dl : R) (n K : Z) : (0 < n)%Z -> IZR n * theta = 2 * PI ->
  Rabs al <= theta / 2 -> Rabs be <= theta / 2 -> dl = al - be + theta * IZR K ->
  cos dl <= cos (Rabs al - Rabs be).
Proof.
  intros Hn Hth Hal Hbe Edl. pose proof PI_RGT_0 as Hpi.
  assert (Hn1 : 1 <= IZR n) by (apply IZR_le; lia).
  assert (Hth0 : 0 < theta) by (apply Rmult_lt_reg_l with (IZR n); [lra | rewrite Rmult_0_r; lra]).
  assert (Hth1 : theta <= 2 * PI).
  { assert (0 <= (IZR n - 1) * theta) by (apply Rmult_le_pos; lra). lra. }
  destruct (near_period dl) as [j Hj].
  rewrite <- (cos_period_Z dl j). set (y := dl - 2 * PI * IZR j) in *.
  assert (Ey : y = al - be + theta * IZR (K - n * j)).
  { unfold y. rewrite Edl, minus_IZR, mult_IZR. rewrite <- Hth. ring. }
  set (K' := (K - n * j)%Z) in *.
  set (g := Rabs (Rabs al - Rabs be)).
  assert (Hg : g <= Rabs y).
  { unfold g. rewrite Ey.
    destruct (Z.eq_dec K' 0) as [E0|E0].
    - rewrite E0. replace (al - be + theta * 0) with (al - be) by ring. apply Rabs_triang_inv2.
    - assert (HK : 1 <= IZR K' \/ IZR K' <= -1).
      { destruct (Z_lt_le_dec K' 0); [right; apply IZR_le; lia | left; apply IZR_le; lia]. }
      pose proof (Rabs_pos al). pose proof (Rabs_pos be).
      assert (G1 : Rabs (Rabs al - Rabs be) <= theta / 2).
      { apply Rabs_le. split; lra. }
      assert (G3 : theta - Rabs al - Rabs be <= Rabs (al - be + theta * IZR K')).
      { assert (A1 : - Rabs al <= al <= Rabs al) by (apply Rabs_le_iff; lra).
        assert (A2 : - Rabs be <= be <= Rabs be) by (apply Rabs_le_iff; lra).
        destruct HK as [HK|HK].
        - assert (theta <= theta * IZR K') by nra.
          unfold Rabs at 3. destruct (Rcase_abs (al - be + theta * IZR K')); lra.
        - assert (theta * IZR K' <= - theta) by nra.
          unfold Rabs at 3. destruct (Rcase_abs (al - be + theta * IZR K')); lra. }
      assert (G4 : Rabs (Rabs al - Rabs be) <= theta - Rabs al - Rabs be).
      { apply Rabs_le. split; lra. }
      lra. }
  replace (cos y) with (cos (Rabs y)) by (unfold Rabs; destruct (Rcase_abs y); [apply cos_neg | reflexivity]).
  replace (cos (Rabs al - Rabs be)) with (cos g)
    by (unfold g, Rabs at 1; destruct (Rcase_abs (Rabs al - Rabs be)); [apply cos_neg | reflexivity]).
  apply cos_decr_1; try lra; unfold g; try apply Rabs_pos.
Qed.

(* law of cosines in polar form *)
Lemma polar_dist_sq r s a b :
  (r * cos a - s * cos b) * (r * cos a - s * cos b) + (r * sin a - s * sin b) * (r * sin a - s * sin b)
  = r * r + s * s - 2 * r * s * cos (a - b).
Proof.
  rewrite cos_minus. pose proof (sin2_cos2 a) as Ea. pose proof (sin2_cos2 b) as Eb. unfold Rsqr in *.
  transitivity (r * r * (sin a * sin a + cos a * cos a) + s * s * (sin b * sin b + cos b * cos b)
                - 2 * r * s * (cos a * cos b + sin a * sin b)); [ring|]. rewrite Ea, Eb. ring.
Qed.

(* the folding map is non-expanding *)
Lemma fold_nonexp (theta : R) (n : Z) (p q : RV2) : (0 < n)%Z -> IZR n * theta = 2 * PI ->
  let fold := fun p : RV2 =>
    let th := Rabs (@sawtooth ROps (Ratan2 (vy p) (vx p)) theta) in mkV2 (len2 p * cos th) (len2 p * sin th) in
  dist2 (fold p) (fold q) <= dist2 p q.
Proof.
  intros Hn Hth fold. pose proof PI_RGT_0 as Hpi.
  assert (Hn1 : 1 <= IZR n) by (apply IZR_le; lia).
  assert (Hth0 : 0 < theta) by (apply Rmult_lt_reg_l with (IZR n); [lra | rewrite Rmult_0_r; lra]).
  unfold fold. set (php := Ratan2 (vy p) (vx p)). set (phq := Ratan2 (vy q) (vx q)).
  destruct (sawtooth_spec php theta Hth0) as (mp & Ep & Bp).
  destruct (sawtooth_spec phq theta Hth0) as (mq & Eq & Bq).
  set (al := @sawtooth ROps php theta) in *. set (be := @sawtooth ROps phq theta) in *.
  set (r := len2 p). set (s := len2 q).
  assert (Hr : 0 <= r) by apply len2_nonneg. assert (Hs : 0 <= s) by apply len2_nonneg.
  apply len2_le; [apply dist2_nonneg|]. cbn [sub2 vx vy].
  rewrite polar_dist_sq.
  destruct (atan2_polar (vx p) (vy p)) as [Px Py]. destruct (atan2_polar (vx q) (vy q)) as [Qx Qy].
  fold php in Px, Py. fold phq in Qx, Qy. change (sqrt (vx p * vx p + vy p * vy p)) with r in Px, Py.
  change (sqrt (vx q * vx q + vy q * vy q)) with s in Qx, Qy.
  pose proof (len2_sq (sub2 p q)) as S. fold (dist2 p q) in S. cbn [sub2 vx vy] in S. rewrite S.
  rewrite Px at 1 2. rewrite Py at 1 2. rewrite Qx at 1 2. rewrite Qy at 1 2. rewrite polar_dist_sq.
  assert (C : cos (php - phq) <= cos (Rabs al - Rabs be)).
  { apply (fold_cos theta al be (php - phq) n (mp - mq)%Z Hn Hth).
    - apply Rabs_le. lra.
    - apply Rabs_le. lra.
    - rewrite minus_IZR. lra. }
  assert (0 <= r * s) by nra. nra.
Qed.

(* ------------------------------------------------------------------ RotateCopy2D / RotateCopy3D *)
Lemma tau_theta (n : Z) : (0 < n)%Z -> IZR n * (@tau ROps / IZR n) = 2 * PI.
Proof.
  intros Hn. assert (0 < IZR n) by (apply IZR_lt; lia). unfold tau, two. cbn. field. lra.
Qed.

Lemma ev2_mk (f : RV2 -> R) b : ev2 (mkObj2 f b) = f.
Proof. reflexivity. Qed.
Lemma ev3_mk (f : RV3 -> R) b : ev3 (mkObj3 f b) = f.
Proof. reflexivity. Qed.
(* H : Some (mkObj f b) = Some o, without normalising the (large) bounding box term *)
Ltac evinv2 H o :=
  let E := fresh "E" in
  assert (E : Some (ev2 o) = option_map ev2 (Some o)) by reflexivity;
  rewrite <- H in E; cbn [option_map] in E; injection E as E; rewrite E; rewrite ?ev2_mk; clear E H.
Ltac evinv3 H o :=
  let E := fresh "E" in
  assert (E : Some (ev3 o) = option_map ev3 (Some o)) by reflexivity;
  rewrite <- H in E; cbn [option_map] in E; injection E as E; rewrite E; rewrite ?ev3_mk; clear E H.

Theorem lip1_rotatecopy2_symmetric s n o : k_rotatecopy2 s n = Some o -> lip1_2 (ev2 s) ->
  (forall x y, ev2 s (mkV2 x (- y)) = ev2 s (mkV2 x y)) -> lip1_2 (ev2 o).
Proof.
  unfold k_rotatecopy2. destruct (n <=? 0)%Z eqn:Cn; [discriminate|]. apply Z.leb_gt in Cn.
  intros H Hs Hsym. evinv2 H o.
  set (theta := (@tau ROps / ofZ ROps n)%o).
  assert (Hfold : forall p, ev2 s (mkV2 (@v2len ROps p * cos (@sawtooth ROps (Ratan2 (vy p) (vx p)) theta))
                                       (@v2len ROps p * sin (@sawtooth ROps (Ratan2 (vy p) (vx p)) theta)))
                          = ev2 s (mkV2 (len2 p * cos (Rabs (@sawtooth ROps (Ratan2 (vy p) (vx p)) theta)))
                                       (len2 p * sin (Rabs (@sawtooth ROps (Ratan2 (vy p) (vx p)) theta))))).
  { intros p. change (@v2len ROps p) with (len2 p). set (a := @sawtooth ROps _ theta).
    unfold Rabs. destruct (Rcase_abs a); [|reflexivity].
    rewrite cos_neg, sin_neg. replace (len2 p * - sin a) with (- (len2 p * sin a)) by ring. symmetry. apply Hsym. }
  apply (lipd_ext dist2 (fun p => ev2 s (mkV2 (len2 p * cos (Rabs (@sawtooth ROps (Ratan2 (vy p) (vx p)) theta)))
                                             (len2 p * sin (Rabs (@sawtooth ROps (Ratan2 (vy p) (vx p)) theta)))))).
  { intros p. symmetry. apply Hfold. }
  intros p q.
  eapply Rle_trans; [apply Hs|]. apply (fold_nonexp theta n p q Cn). apply tau_theta; exact Cn.
Qed.

Theorem lip1_rotatecopy3_symmetric s n o : k_rotatecopy3 s n = Some o -> lip1_3 (ev3 s) ->
  (forall x y z, ev3 s (mkV3 x (- y) z) = ev3 s (mkV3 x y z)) -> lip1_3 (ev3 o).
Proof.
  unfold k_rotatecopy3. destruct (n <=? 0)%Z eqn:Cn; [discriminate|]. apply Z.leb_gt in Cn.
  intros H Hs Hsym. evinv3 H o.
  set (theta := (@tau ROps / ofZ ROps n)%o).
  assert (Hfold : forall p : RV3, let p2 := mkV2 (wx p) (wy p) in
     ev3 s (mkV3 (@v2len ROps p2 * cos (@sawtooth ROps (Ratan2 (vy p2) (vx p2)) theta))
                 (@v2len ROps p2 * sin (@sawtooth ROps (Ratan2 (vy p2) (vx p2)) theta)) (wz p))
     = ev3 s (mkV3 (len2 p2 * cos (Rabs (@sawtooth ROps (Ratan2 (vy p2) (vx p2)) theta)))
                   (len2 p2 * sin (Rabs (@sawtooth ROps (Ratan2 (vy p2) (vx p2)) theta))) (wz p))).
  { intros p p2. change (@v2len ROps p2) with (len2 p2). set (a := @sawtooth ROps _ theta).
    unfold Rabs. destruct (Rcase_abs a); [|reflexivity].
    rewrite cos_neg, sin_neg. replace (len2 p2 * - sin a) with (- (len2 p2 * sin a)) by ring. symmetry. apply Hsym. }
  cbv zeta in Hfold.
  apply (lipd_ext dist3 (fun p : RV3 =>
     ev3 s (mkV3 (len2 (mkV2 (wx p) (wy p)) * cos (Rabs (@sawtooth ROps (Ratan2 (wy p) (wx p)) theta)))
                 (len2 (mkV2 (wx p) (wy p)) * sin (Rabs (@sawtooth ROps (Ratan2 (wy p) (wx p)) theta))) (wz p)))).
  { intros p. symmetry. apply Hfold. }
  intros p q.
  eapply Rle_trans; [apply Hs|].
  pose proof (fold_nonexp theta n (pxy p) (pxy q) Cn (tau_theta n Cn)) as F. cbv zeta in F.
  unfold pxy in F. cbn [vx vy] in F.
  set (P := mkV2 _ _) in F. set (Q := mkV2 _ _) in F.
  apply len3_le; [apply dist3_nonneg|]. cbn [sub3 wx wy wz].
  pose proof (len2_sq (sub2 P Q)) as S1. fold (dist2 P Q) in S1. cbn [sub2 vx vy] in S1. unfold P, Q in S1. cbn [vx vy] in S1.
  pose proof (len3_sq (sub3 p q)) as S3. fold (dist3 p q) in S3. cbn [sub3 wx wy wz] in S3.
  pose proof (len2_sq (sub2 (mkV2 (wx p) (wy p)) (mkV2 (wx q) (wy q)))) as S2. cbn [sub2 vx vy] in S2.
  fold (dist2 (mkV2 (wx p) (wy p)) (mkV2 (wx q) (wy q))) in S2.
  pose proof (dist2_nonneg P Q). pose proof (dist2_nonneg (mkV2 (wx p) (wy p)) (mkV2 (wx q) (wy q))).
  rewrite S3. fold P Q in S1.
  assert (dist2 P Q * dist2 P Q <= dist2 (mkV2 (wx p) (wy p)) (mkV2 (wx q) (wy q)) * dist2 (mkV2 (wx p) (wy p)) (mkV2 (wx q) (wy q))) by nra.
  rnorm. lra.
Qed.
