(* sdf/poly.go: the polygon builder (Add / Rel / Polar / Smooth / Chamfer / Arc / Close /
   Reverse / Vertices, Nagon) with sdf.Rotate and M22.MulPosition from sdf/matrix.go and
   conv.P2ToV2.  The model follows the Go code statement by statement; it is written once over
   the Ops record: theorems at ROps (Sdf/BuildR.v), bit-exact replay at FOps (Sdf/C17Corr.v). *)
From Coq Require Import ZArith List Bool.
From Sdfx Require Import Num.Ops.
From Sdfx Require Import Geo.Vec.
Import OpsNotations ListNotations.
Local Open Scope ops_scope.

Section Build.
  Context {O : Ops}.
  Notation T := (T O).
  Notation V2 := (V2 O).

  (* ---- sdf.Rotate(a) = M22{c, -s, s, c};  M22.MulPosition *)
  Record M22 := mkM22 { m00 : T; m01 : T; m10 : T; m11 : T }.
  Definition rotate (a : T) : M22 :=
    let s := osin O a in let c := ocos O a in mkM22 c (- s) s c.
  Definition m22mulpos (m : M22) (b : V2) : V2 :=
    mkV2 (m00 m * vx b + m01 m * vy b) (m10 m * vx b + m11 m * vy b).

  (* the loop  `for j := range out { out[j] = f(rv); rv = m.MulPosition(rv) }` *)
  Fixpoint rot_seq (n : nat) (m : M22) (rv : V2) : list V2 :=
    match n with
    | 0%nat => []
    | S k => rv :: rot_seq k m (m22mulpos m rv)
    end.

  (* constants of sdf/utils.go (a/b of two exactly representable integers is the correctly
     rounded decimal literal at FOps) *)
  Definition sqrtHalf : T := cst 7071067811865476 10000000000000000.
  Definition tau : T := two * opi O.

  (* conv.P2ToV2(p2.Vec{R, Theta}) *)
  Definition p2_to_v2 (r theta : T) : V2 := mkV2 (r * ocos O theta) (r * osin O theta).

  (* ---- PolygonVertex *)
  Inductive pvtype := PvNormal | PvSmooth | PvArc.
  Definition pvtype_eqb (a b : pvtype) : bool :=
    match a, b with PvNormal, PvNormal | PvSmooth, PvSmooth | PvArc, PvArc => true | _, _ => false end.
  Record PV := mkPV { pv_rel : bool; pv_type : pvtype; pv_v : V2; pv_facets : Z; pv_radius : T }.

  Definition ne0 (x : T) : bool := negb (x =? o0 O).          (* x != 0 *)

  (* PolygonVertex{vertex: p}: every other field zero *)
  Definition plain (p : V2) : PV := mkPV false PvNormal p 0%Z (o0 O).

  Definition pv_Rel (v : PV) : PV := mkPV true (pv_type v) (pv_v v) (pv_facets v) (pv_radius v).
  Definition pv_Polar (v : PV) : PV :=
    mkPV (pv_rel v) (pv_type v) (p2_to_v2 (vx (pv_v v)) (vy (pv_v v))) (pv_facets v) (pv_radius v).
  Definition pv_Smooth (radius : T) (facets : Z) (v : PV) : PV :=
    if ne0 radius && negb (facets =? 0)%Z then mkPV (pv_rel v) PvSmooth (pv_v v) facets radius else v.
  Definition pv_Chamfer (size : T) (v : PV) : PV :=
    if ne0 size then mkPV (pv_rel v) PvSmooth (pv_v v) 1%Z (size * sqrtHalf) else v.
  Definition pv_Arc (radius : T) (facets : Z) (v : PV) : PV :=
    if ne0 radius && negb (facets =? 0)%Z then mkPV (pv_rel v) PvArc (pv_v v) facets radius else v.

  (* the calls chained on the *PolygonVertex returned by Add *)
  Inductive vop := ORel | OPolar | OSmooth (r : T) (f : Z) | OChamfer (s : T) | OArc (r : T) (f : Z).
  Definition apply_op (v : PV) (o : vop) : PV :=
    match o with
    | ORel => pv_Rel v
    | OPolar => pv_Polar v
    | OSmooth r f => pv_Smooth r f v
    | OChamfer s => pv_Chamfer s v
    | OArc r f => pv_Arc r f v
    end.
  (* p.Add(x, y).op1().op2()... *)
  Definition add_vertex (x y : T) (ops : list vop) : PV := fold_left apply_op ops (plain (mkV2 x y)).

  (* ---- nextVertex / prevVertex *)
  Definition next_vertex (closed : bool) (l : list PV) (i : nat) : option PV :=
    if Nat.eqb i (length l - 1) then (if closed then nth_error l 0 else None) else nth_error l (S i).
  Definition prev_vertex (closed : bool) (l : list PV) (i : nat) : option PV :=
    match i with
    | 0%nat => if closed then nth_error l (length l - 1) else None
    | S j => nth_error l j
    end.

  Definition set_nth (l : list PV) (i : nat) (v : PV) : list PV := firstn i l ++ v :: skipn (S i) l.

  (* ---- arcVertex: the new vertices between chord endpoints a (previous vertex) and b *)
  Definition arc_centre (a b : V2) (r : T) : V2 :=
    let side := sign r in
    let radius := oabs O r in
    let ba := v2normalize (v2sub b a) in
    let n := v2muls (mkV2 (vy ba) (- vx ba)) side in
    let mid := v2muls (v2add a b) half in
    let dMid := v2len (v2sub mid a) in
    let dCenter := osqrt O (omax O (o0 O) (radius * radius - dMid * dMid)) in
    v2add mid (v2muls n dCenter).
  Definition arc_dtheta (a b : V2) (r : T) (facets : Z) : T :=
    let side := sign r in
    let c := arc_centre a b r in
    let ac := v2normalize (v2sub a c) in
    let bc := v2normalize (v2sub b c) in
    (- side) * oacos O (clamp (v2dot ac bc) (- o1 O) (o1 O)) / ofZ O facets.
  Definition arc_geom (a b : V2) (r : T) (facets : Z) : list V2 :=
    let c := arc_centre a b r in
    let m := rotate (arc_dtheta a b r facets) in
    let rv := m22mulpos m (v2sub a c) in
    map (v2add c) (rot_seq (Z.to_nat (facets - 1)) m rv).

  Definition arc_vertex (closed : bool) (l : list PV) (i : nat) : list PV * bool :=
    match nth_error l i with
    | None => (l, false)
    | Some v =>
      if negb (pvtype_eqb (pv_type v) PvArc) then (l, false) else
      (* now it's a normal vertex *)
      let v' := mkPV (pv_rel v) PvNormal (pv_v v) (pv_facets v) (pv_radius v) in
      let l1 := set_nth l i v' in
      match prev_vertex closed l1 i with
      | None => (l1, false)
      | Some pv =>
        let pts := arc_geom (pv_v pv) (pv_v v') (pv_radius v') (pv_facets v') in
        (firstn i l1 ++ map plain pts ++ skipn i l1, true)
      end
    end.

  (* ---- smoothVertex: None = "unable to smooth - radius is too large" *)
  Definition smooth_v0 (vp v : V2) : V2 := v2normalize (v2sub vp v).
  Definition smooth_theta (vp v vn : V2) : T := oacos O (v2dot (smooth_v0 vp v) (smooth_v0 vn v)).
  Definition smooth_d1 (vp v vn : V2) (radius : T) : T := radius / otan O (smooth_theta vp v vn / two).
  Definition smooth_fits (vp v vn : V2) (radius : T) : bool :=
    let d1 := smooth_d1 vp v vn radius in
    negb ((d1 >? v2len (v2sub vp v)) || (d1 >? v2len (v2sub vn v))).
  (* tangent point on the edge towards w (w = vp: the first generated point) *)
  Definition smooth_tangent (w vp v vn : V2) (radius : T) : V2 :=
    v2add v (v2muls (smooth_v0 w v) (smooth_d1 vp v vn radius)).
  Definition smooth_centre (vp v vn : V2) (radius : T) : V2 :=
    let v0 := smooth_v0 vp v in
    let v1 := smooth_v0 vn v in
    let d2 := radius / osin O (smooth_theta vp v vn / two) in
    let vc := v2normalize (v2add v0 v1) in
    v2add v (v2muls vc d2).
  Definition smooth_dtheta (vp v vn : V2) (facets : Z) : T :=
    sign (v2cross (smooth_v0 vn v) (smooth_v0 vp v)) * (opi O - smooth_theta vp v vn) / ofZ O facets.
  Definition smooth_points (vp v vn : V2) (radius : T) (facets : Z) : list V2 :=
    let p0 := smooth_tangent vp vp v vn radius in
    let c := smooth_centre vp v vn radius in
    let rm := rotate (smooth_dtheta vp v vn facets) in
    let rv := v2sub p0 c in
    map (v2add c) (rot_seq (Z.to_nat (facets + 1)) rm rv).
  Definition smooth_geom (vp v vn : V2) (radius : T) (facets : Z) : option (list V2) :=
    if smooth_fits vp v vn radius then Some (smooth_points vp v vn radius facets) else None.

  Definition smooth_vertex (closed : bool) (l : list PV) (i : nat) : list PV * bool :=
    match nth_error l i with
    | None => (l, false)
    | Some v =>
      if negb (pvtype_eqb (pv_type v) PvSmooth) then (l, false) else
      match next_vertex closed l i, prev_vertex closed l i with
      | Some vn, Some vp =>
        match smooth_geom (pv_v vp) (pv_v v) (pv_v vn) (pv_radius v) (pv_facets v) with
        | None => (l, false)
        | Some pts => (firstn i l ++ map plain pts ++ skipn (S i) l, true)
        end
      | _, _ => (l, false)       (* can't smooth the endpoints of an open polygon *)
      end
    end.

  (* ---- createArcs / smoothVertices:
       for done == false { done = true; for i := range p.vlist { if step(i) { done = false } } }
     (`range p.vlist` fixes the number of iterations when the inner loop starts, while step
     lengthens the list) *)
  Fixpoint pass (step : list PV -> nat -> list PV * bool) (cnt i : nat) (l : list PV) (changed : bool)
    : list PV * bool :=
    match cnt with
    | 0%nat => (l, changed)
    | S c => let '(l', ch) := step l i in pass step c (S i) l' (changed || ch)
    end.
  Fixpoint until_done (fuel : nat) (step : list PV -> nat -> list PV * bool) (l : list PV) : list PV :=
    match fuel with
    | 0%nat => l
    | S f => let '(l', ch) := pass step (length l) 0 l false in
             if ch then until_done f step l' else l'
    end.
  (* every pass that reports a change turned at least one arc/smooth vertex into normal ones *)
  Definition create_arcs (closed : bool) (l : list PV) : list PV := until_done (S (length l)) (arc_vertex closed) l.
  Definition smooth_vertices (closed : bool) (l : list PV) : list PV := until_done (S (length l)) (smooth_vertex closed) l.

  (* ---- relToAbs.  Result: None = nil-pointer panic (first vertex of an open polygon relative),
     otherwise the list (the error return is ignored by fixups: conversion just stops). *)
  Fixpoint rel_loop (prev : PV) (l : list PV) : list PV :=
    match l with
    | [] => []
    | v :: r =>
      if pv_rel v then
        if pv_rel prev then v :: r              (* "relative vertex needs an absolute reference" *)
        else let v' := mkPV false (pv_type v) (v2add (pv_v v) (pv_v prev)) (pv_facets v) (pv_radius v) in
             v' :: rel_loop v' r
      else v :: rel_loop v r
    end.
  Definition rel_to_abs (closed : bool) (l : list PV) : option (list PV) :=
    match l with
    | [] => Some []
    | v :: r =>
      if pv_rel v then
        (if closed then Some (rel_loop (last l v) l) else None)
      else Some (v :: rel_loop v r)
    end.

  (* ---- Polygon, Vertices() *)
  Record Polygon := mkPolygon { pg_closed : bool; pg_reverse : bool; pg_vlist : list PV }.
  Definition fixups (p : Polygon) : option (list PV) :=
    match rel_to_abs (pg_closed p) (pg_vlist p) with
    | None => None
    | Some l => Some (smooth_vertices (pg_closed p) (create_arcs (pg_closed p) l))
    end.
  Definition vertices (p : Polygon) : option (list V2) :=
    match fixups p with
    | None => None
    | Some l => let vs := map pv_v l in Some (if pg_reverse p then rev vs else vs)
    end.

  (* ---- Nagon *)
  Definition nagon (n : Z) (radius : T) : list V2 :=
    if (n <? 3)%Z then [] else
    rot_seq (Z.to_nat n) (rotate (tau / ofZ O n)) (mkV2 radius (o0 O)).
End Build.

Arguments M22 : clear implicits.
Arguments mkM22 {O}.
Arguments PV : clear implicits.
Arguments mkPV {O}.
Arguments vop : clear implicits.
Arguments Polygon : clear implicits.
Arguments mkPolygon {O}.
