(* The vertex lists the model of ISOThread computes over the reals (corner smoothing of
   sdf/poly.go included) ARE the closed-form outlines of Sdf/Screw.v for which
   Sdf/IsoProfile.v proves the nesting. *)
From Coq Require Import Reals ZArith Lra Lia List Bool.
From Sdfx Require Import Num.Ops.
From Sdfx Require Import Num.RInst.
From Sdfx Require Import Geo.Vec.
From Sdfx Require Import Sdf.Screw.
Import ListNotations.
Open Scope R_scope.

Notation V := (V2 ROps).
Notation PVR := (PV ROps).

(* ------------------------------------------------------------------ polar form around a vertex *)

Definition dir (a : R) : V := mkV2 (cos a) (sin a).
(* v + L * dir a, written as the Go code computes it (v.Add(u.MulScalar(L))) *)
Definition polar (v : V) (L a : R) : V := v2add v (v2muls (dir a) L).

Lemma V2_eq (a b : V) : vx a = vx b -> vy a = vy b -> a = b.
Proof. destruct a, b; cbn; intros -> ->; reflexivity. Qed.

Lemma sc2 a : cos a * cos a + sin a * sin a = 1.
Proof. pose proof (sin2_cos2 a) as H. unfold Rsqr in H. lra. Qed.

Lemma len_polar v L a : 0 <= L -> v2len (v2sub (polar v L a) v) = L.
Proof.
  intros HL. unfold v2len, v2len2, v2dot, v2sub, polar, v2add, v2muls, dir; cbn.
  apply sqrt_lem_1; [| exact HL |].
  - nra.
  - pose proof (sc2 a). nra.
Qed.

Lemma norm_polar v L a : 0 < L -> v2normalize (v2sub (polar v L a) v) = dir a.
Proof.
  intros HL. unfold v2normalize. rewrite len_polar by lra.
  unfold v2muls, v2sub, polar, v2add, dir; cbn. apply V2_eq; cbn; field; lra.
Qed.

Lemma dot_dir a b : v2dot (dir a) (dir b) = cos (b - a).
Proof. unfold v2dot, dir; cbn. rewrite cos_minus. ring. Qed.

Lemma cross_dir a b : v2cross (dir b) (dir a) = sin (a - b).
Proof. unfold v2cross, dir; cbn. rewrite sin_minus. ring. Qed.

Definition is_sign (s : R) : Prop := s = 1 \/ s = -1.

Lemma cos_sign s t : is_sign s -> cos (s * t) = cos t.
Proof. intros [-> | ->]; [f_equal; ring|]. replace (-1 * t) with (- t) by ring. apply cos_neg. Qed.
Lemma sin_sign s t : is_sign s -> sin (s * t) = s * sin t.
Proof.
  intros [-> | ->]; [rewrite Rmult_1_l; f_equal; ring|].
  replace (-1 * t) with (- t) by ring. rewrite sin_antisym. ring.
Qed.

Lemma half_angle_pos t : 0 < t < PI -> 0 < sin (t / 2) /\ 0 < cos (t / 2) /\ 0 < sin t.
Proof.
  intros Ht. split; [apply sin_gt_0; lra|]. split; [apply cos_gt_0; lra | apply sin_gt_0; lra].
Qed.

(* the bisector: dir a + dir (a + s t) = 2 cos(t/2) dir (a + s t/2) *)
Lemma bisector a s t : is_sign s -> 0 < t < PI ->
  v2normalize (v2add (dir a) (dir (a + s * t))) = dir (a + s * (t / 2)).
Proof.
  intros Hs Ht. destruct (half_angle_pos t Ht) as [_ [Hc _]].
  set (m := a + s * (t / 2)). set (d := s * (t / 2)).
  assert (Ea : a = m - d) by (unfold m, d; ring).
  assert (Eb : a + s * t = m + d) by (unfold m, d; field).
  assert (Cd : cos d = cos (t / 2)) by (apply cos_sign; exact Hs).
  assert (Sum : v2add (dir a) (dir (a + s * t)) = mkV2 (2 * cos (t / 2) * cos m) (2 * cos (t / 2) * sin m)).
  { replace (dir (a + s * t)) with (dir (m + d)) by (rewrite Eb; reflexivity).
    replace (dir a) with (dir (m - d)) by (rewrite <- Ea; reflexivity).
    unfold v2add, dir; cbn.
    apply V2_eq; cbn; rewrite ?cos_plus, ?cos_minus, ?sin_plus, ?sin_minus, <- Cd; ring. }
  rewrite Sum. unfold v2normalize.
  assert (Len : v2len (mkV2 (2 * cos (t / 2) * cos m) (2 * cos (t / 2) * sin m) : V) = 2 * cos (t / 2)).
  { unfold v2len, v2len2, v2dot; cbn. apply sqrt_lem_1; [| lra |].
    - pose proof (sc2 m). nra.
    - pose proof (sc2 m). nra. }
  rewrite Len. unfold v2muls, dir; cbn. apply V2_eq; cbn; field; lra.
Qed.

(* ------------------------------------------------------------------ the arc *)

Lemma rot_dir t rho psi : rot_apply t (v2muls (dir psi) rho) = v2muls (dir (psi + t)) rho.
Proof.
  unfold rot_apply, v2muls, dir; cbn. apply V2_eq; cbn; rewrite ?cos_plus, ?sin_plus; ring.
Qed.

Fixpoint arc_closed (n : nat) (t : R) (c : V) (rho psi : R) : list PVR :=
  match n with
  | Datatypes.O => []
  | S n' => mkPV (v2add c (v2muls (dir psi) rho)) None :: arc_closed n' t c rho (psi + t)
  end.

Lemma arc_points_closed n : forall t c rho psi,
  arc_points n t c (v2muls (dir psi) rho) = arc_closed n t c rho psi.
Proof.
  induction n as [| n IH]; intros t c rho psi; [reflexivity|].
  cbn [arc_points arc_closed]. f_equal. rewrite rot_dir. apply IH.
Qed.

(* ------------------------------------------------------------------ smoothVertex in polar form *)

Lemma smooth_vertex_unmarked (l : list PVR) i v :
  nth_error l i = Some v -> pv_smooth v = None -> smooth_vertex l i = None.
Proof. intros H1 H2. unfold smooth_vertex. rewrite H1, H2. reflexivity. Qed.

Lemma smooth_vertex_polar (l : list PVR) i v rho n vp vn a s t L0 L1 :
  nth_error l i = Some (mkPV v (Some (rho, n))) -> i <> 0%nat ->
  nth_error l (i - 1) = Some vp -> nth_error l (i + 1) = Some vn ->
  pv_pos vp = polar v L0 a -> pv_pos vn = polar v L1 (a + s * t) ->
  is_sign s -> 0 < t < PI -> 0 < L0 -> 0 < L1 ->
  rho / tan (t / 2) <= L0 -> rho / tan (t / 2) <= L1 ->
  smooth_vertex l i =
  Some (firstn i l ++
        arc_closed (S n) (- s * (PI - t) / IZR (Z.of_nat n))
                   (polar v (rho / sin (t / 2)) (a + s * (t / 2))) rho (a - s * (PI / 2)) ++
        skipn (S i) l).
Proof.
  intros Hv Hi Hp Hn Ep En Hs Ht HL0 HL1 Hd0 Hd1.
  destruct (half_angle_pos t Ht) as [Hsh [Hch Hst]].
  unfold smooth_vertex. rewrite Hv. cbn [pv_smooth pv_pos].
  destruct (Nat.eqb i 0) eqn:Ei; [apply Nat.eqb_eq in Ei; contradiction|].
  rewrite Hp, Hn. rewrite Ep, En.
  rewrite (norm_polar v L0 a HL0), (norm_polar v L1 (a + s * t) HL1).
  rewrite (len_polar v L0 a) by lra. rewrite (len_polar v L1 (a + s * t)) by lra.
  rewrite dot_dir. replace (a + s * t - a) with (s * t) by ring. rewrite (cos_sign s t Hs).
  cbn [oacos ROps]. rewrite acos_cos by lra.
  cbn [odiv otan osin ROps]. change (@two ROps) with (1 + 1). replace (1 + 1) with 2 by lra.
  cbn [oltb ROps].
  assert (C0 : Rltb L0 (rho / tan (t / 2)) = false) by (apply Rltb_false; exact Hd0).
  assert (C1 : Rltb L1 (rho / tan (t / 2)) = false) by (apply Rltb_false; exact Hd1).
  rewrite C0, C1. cbn [orb].
  rewrite (bisector a s t Hs Ht).
  rewrite cross_dir. replace (a - (a + s * t)) with (s * (- t)) by ring.
  rewrite (sin_sign s (- t) Hs), sin_antisym.
  assert (Sg : @sign ROps (s * - sin t) = - s).
  { unfold sign. cbn [oltb o0 o1 oneg ROps].
    destruct Hs as [-> | ->].
    - assert (E : Rltb (1 * - sin t) 0 = true) by (apply Rltb_true; lra). rewrite E. reflexivity.
    - assert (E : Rltb (-1 * - sin t) 0 = false) by (apply Rltb_false; lra).
      assert (E' : Rltb 0 (-1 * - sin t) = true) by (apply Rltb_true; lra).
      rewrite E, E'. lra. }
  rewrite Sg. cbn [omul osub opi ofZ ROps].
  (* the radius vector at the first tangent point *)
  assert (RV : v2sub (v2add v (v2muls (dir a) (rho / tan (t / 2))))
                     (v2add v (v2muls (dir (a + s * (t / 2))) (rho / sin (t / 2))))
               = v2muls (dir (a - s * (PI / 2))) rho).
  { unfold v2sub, v2add, v2muls, dir; cbn. unfold tan.
    assert (Cm : cos (a + s * (t / 2)) = cos a * cos (t / 2) - sin a * (s * sin (t / 2))).
    { rewrite cos_plus, (cos_sign s _ Hs), (sin_sign s _ Hs). reflexivity. }
    assert (Sm : sin (a + s * (t / 2)) = sin a * cos (t / 2) + cos a * (s * sin (t / 2))).
    { rewrite sin_plus, (cos_sign s _ Hs), (sin_sign s _ Hs). reflexivity. }
    assert (Cq : cos (a - s * (PI / 2)) = s * sin a).
    { rewrite cos_minus, (cos_sign s _ Hs), (sin_sign s _ Hs), cos_PI2, sin_PI2. ring. }
    assert (Sq : sin (a - s * (PI / 2)) = - s * cos a).
    { rewrite sin_minus, (cos_sign s _ Hs), (sin_sign s _ Hs), cos_PI2, sin_PI2. ring. }
    rewrite Cm, Sm, Cq, Sq. apply V2_eq; cbn; field; lra. }
  fold (polar v (rho / sin (t / 2)) (a + s * (t / 2))) in RV |- *.
  rewrite RV. rewrite arc_points_closed. reflexivity.
Qed.

(* ------------------------------------------------------------------ ISOThread *)

Definition s3 : R := sqrt 3.
Lemma s3_sq : s3 * s3 = 3.
Proof. unfold s3. apply sqrt_sqrt. lra. Qed.
Lemma s3_pos : 0 < s3.
Proof. unfold s3. apply sqrt_lt_R0. lra. Qed.

Lemma dtor30 : @dtor ROps (ofZ ROps 30) = PI / 6.
Proof. unfold dtor. cbn. lra. Qed.

Lemma pvs_marked x y rho n : rho <> 0 -> n <> 0%nat ->
  @pvs ROps x y rho n = mkPV (mkV2 x y) (Some (rho, n)).
Proof.
  intros Hr Hn. unfold pvs. cbn [oeqb o0 ROps].
  assert (E : Reqb rho 0 = false) by (apply Reqb_false; exact Hr). rewrite E.
  destruct n; [contradiction | reflexivity].
Qed.

Lemma iso_pv_ext_R r p : 0 < p ->
  @iso_thread_pv ROps r p true =
  [ pvn p 0; pvn p (r + p * s3 / 16);
    mkPV (mkV2 (p / 2) (r - 7 * p * s3 / 16)) (Some (p * s3 / 12, 5%nat));
    pvn (p / 16) r; pvn (- p / 16) r;
    mkPV (mkV2 (- p / 2) (r - 7 * p * s3 / 16)) (Some (p * s3 / 12, 5%nat));
    pvn (- p) (r + p * s3 / 16); pvn (- p) 0 ].
Proof.
  intros Hp. pose proof s3_pos. pose proof s3_sq.
  unfold iso_thread_pv. rewrite dtor30.
  cbn [otan ocos odiv omul osub oadd oneg ofZ o0 ROps]. unfold cst, two. cbn [ofZ odiv oadd o1 ROps].
  rewrite tan_PI6, cos_PI6. fold s3.
  assert (ER : p / 8 / (s3 / 2) = p * s3 / 12) by (field_simplify_eq; [nra | lra]).
  rewrite ER.
  rewrite !pvs_marked by (try nra; try discriminate).
  unfold pvn.
  repeat (f_equal; try (field; lra)).
Qed.

Definition ext_l0 (r p : R) : list PVR :=
  [ pvn p 0; pvn p (r + p * s3 / 16);
    mkPV (mkV2 (p / 2) (r - 7 * p * s3 / 16)) (Some (p * s3 / 12, 5%nat));
    pvn (p / 16) r; pvn (- p / 16) r;
    mkPV (mkV2 (- p / 2) (r - 7 * p * s3 / 16)) (Some (p * s3 / 12, 5%nat));
    pvn (- p) (r + p * s3 / 16); pvn (- p) 0 ].

Lemma tan_PI6' : tan (PI / 3 / 2) = 1 / s3.
Proof. replace (PI / 3 / 2) with (PI / 6) by lra. apply tan_PI6. Qed.

Lemma pass_none k i (l : list PVR) ch : smooth_vertex l i = None ->
  smooth_pass (S k) i l ch = smooth_pass k (S i) l ch.
Proof. intros H. cbn [smooth_pass]. rewrite H. reflexivity. Qed.
Lemma pass_some k i (l l' : list PVR) ch : smooth_vertex l i = Some l' ->
  smooth_pass (S k) i l ch = smooth_pass k (S i) l' true.
Proof. intros H. cbn [smooth_pass]. rewrite H. reflexivity. Qed.

Lemma pass_done i (l : list PVR) c : smooth_pass 0 i l c = (l, c).
Proof. reflexivity. Qed.
Ltac done_step := match goal with |- context [smooth_pass 0 ?i ?l ?c] => rewrite (pass_done i l c) end; cbv beta iota; cbn [length].

Ltac none_step :=
  match goal with |- context [smooth_pass (S ?k) ?i ?l ?c] =>
    rewrite (pass_none k i l c); [| eapply smooth_vertex_unmarked; reflexivity] end.
Ltac some_step :=
  match goal with |- context [smooth_pass (S ?k) ?i ?l ?c] => erewrite (pass_some k i l _ c) end.

Lemma polar_PI3 (v : V) L : polar v L (PI / 3) = mkV2 (vx v + L / 2) (vy v + L * s3 / 2).
Proof. unfold polar, v2add, v2muls, dir; cbn. rewrite cos_PI3, sin_PI3. fold s3. apply V2_eq; cbn; field. Qed.
Lemma polar_2PI3 (v : V) L : polar v L (PI / 3 + 1 * (PI / 3)) = mkV2 (vx v - L / 2) (vy v + L * s3 / 2).
Proof.
  replace (PI / 3 + 1 * (PI / 3)) with (2 * (PI / 3)) by ring.
  unfold polar, v2add, v2muls, dir; cbn. rewrite cos_2PI3, sin_2PI3. fold s3. apply V2_eq; cbn; field.
Qed.
Lemma d1_bound rho L : 0 < rho -> rho * s3 <= L -> rho / tan (PI / 3 / 2) <= L.
Proof. intros Hr H. rewrite tan_PI6'. pose proof s3_pos. replace (rho / (1 / s3)) with (rho * s3) by (field; lra). exact H. Qed.

Lemma sin_PI6' : sin (PI / 3 / 2) = 1 / 2.
Proof. replace (PI / 3 / 2) with (PI / 6) by lra. apply sin_PI6. Qed.
Lemma cos_5PI6 : cos (5 * PI / 6) = - s3 / 2.
Proof. replace (5 * PI / 6) with (- (PI / 6) + PI) by lra. rewrite neg_cos, cos_neg, cos_PI6. unfold s3. lra. Qed.
Lemma sin_5PI6 : sin (5 * PI / 6) = 1 / 2.
Proof. replace (5 * PI / 6) with (- (PI / 6) + PI) by lra. rewrite neg_sin, sin_antisym, sin_PI6. lra. Qed.

(* a point of a root fillet (centre above the corner): polar angle X = - A *)
Lemma arc_pt_root (c : V) rho X A : X = - A ->
  v2add (polar c (rho / sin (PI / 3 / 2)) (PI / 3 + 1 * (PI / 3 / 2))) (v2muls (dir X) rho)
  = mkV2 (vx c + cos A * rho) (vy c + 2 * rho - sin A * rho).
Proof.
  intros ->. replace (PI / 3 + 1 * (PI / 3 / 2)) with (PI / 2) by lra. rewrite sin_PI6'.
  unfold polar, v2add, v2muls, dir; cbn. rewrite cos_PI2, sin_PI2, cos_neg, sin_antisym.
  apply V2_eq; cbn; field.
Qed.
(* a point of the crest fillet (centre below the corner): polar angle X = A *)
Lemma arc_pt_crest (c : V) rho X A : X = A ->
  v2add (polar c (rho / sin (PI / 3 / 2)) (- (PI / 3) + -1 * (PI / 3 / 2))) (v2muls (dir X) rho)
  = mkV2 (vx c + cos A * rho) (vy c - 2 * rho + sin A * rho).
Proof.
  intros ->. replace (- (PI / 3) + -1 * (PI / 3 / 2)) with (- (PI / 2)) by lra. rewrite sin_PI6'.
  unfold polar, v2add, v2muls, dir; cbn. rewrite cos_neg, sin_antisym, cos_PI2, sin_PI2.
  apply V2_eq; cbn; field.
Qed.

Ltac arc_root :=
  repeat match goal with
  | |- context [v2add (polar ?c (?rho / sin (PI / 3 / 2)) (PI / 3 + 1 * (PI / 3 / 2))) (v2muls (dir ?X) ?rho)] =>
    first [ rewrite (arc_pt_root c rho X (PI / 6)) by lra
          | rewrite (arc_pt_root c rho X (3 * PI / 10)) by lra
          | rewrite (arc_pt_root c rho X (13 * PI / 30)) by lra
          | rewrite (arc_pt_root c rho X (17 * PI / 30)) by lra
          | rewrite (arc_pt_root c rho X (7 * PI / 10)) by lra
          | rewrite (arc_pt_root c rho X (5 * PI / 6)) by lra ]
  end.

Lemma ext_vertices r p : 0 < p ->
  vertices (ext_l0 r p) = iso_polygon_of_outline p (@iso_ext_outline ROps r p).
Proof.
  intros Hp. pose proof s3_pos as Hs. pose proof s3_sq as Hq. pose proof PI_RGT_0 as Hpi.
  unfold vertices. replace (count_marked (ext_l0 r p)) with 2%nat by reflexivity.
  unfold ext_l0. cbn [smooth_loop length].
  (* pass 1 *)
  none_step. none_step.
  some_step.
  2:{ eapply (smooth_vertex_polar _ 2%nat _ _ _ (pvn p (r + p * s3 / 16)) (pvn (p / 16) r) (PI / 3) 1 (PI / 3) p (7 * p / 8));
      try reflexivity; try discriminate; try lra.
      - rewrite polar_PI3. cbn. apply V2_eq; cbn; field.
      - rewrite polar_2PI3. cbn. apply V2_eq; cbn; field.
      - left; reflexivity.
      - apply d1_bound; nra.
      - apply d1_bound; nra. }
  cbn [firstn skipn app arc_closed].
  do 5 none_step. done_step.
  (* pass 2 *)
  do 10 none_step.
  some_step.
  2:{ eapply (smooth_vertex_polar _ 10%nat _ _ _ (pvn (- p / 16) r) (pvn (- p) (r + p * s3 / 16)) (PI / 3) 1 (PI / 3) (7 * p / 8) p);
      try reflexivity; try discriminate; try lra.
      - rewrite polar_PI3. cbn. apply V2_eq; cbn; field.
      - rewrite polar_2PI3. cbn. apply V2_eq; cbn; field.
      - left; reflexivity.
      - apply d1_bound; nra.
      - apply d1_bound; nra. }
  cbn [firstn skipn app arc_closed Nat.sub].
  do 2 none_step. done_step.
  (* pass 3 *)
  do 18 none_step. done_step.
  cbn [map pv_pos pvn].
  change (IZR (Z.of_nat 5)) with 5.
  arc_root.
  unfold iso_polygon_of_outline, iso_ext_outline. cbn [rev app map fst snd].
  unfold iso_H, iso_kx, iso_ky, iso_ang, cst, two.
  cbn [T ROps ofZ oadd osub omul odiv oneg osqrt ocos osin opi o0 o1 vx vy]. fold s3.
  rewrite cos_PI6, sin_PI6, cos_5PI6, sin_5PI6. fold s3.
  repeat (apply (f_equal2 cons); [apply V2_eq; cbn [vx vy]; nra |]). reflexivity.
Qed.

Lemma iso_pv_int_R r p : 0 < p ->
  @iso_thread_pv ROps r p false =
  [ pvn p 0; pvn p (r - 5 * p * s3 / 16); pvn (3 * p / 8) (r - 5 * p * s3 / 16);
    mkPV (mkV2 0 (r + p * s3 / 16)) (Some (p * s3 / 24, 5%nat));
    pvn (- (3 * p / 8)) (r - 5 * p * s3 / 16); pvn (- p) (r - 5 * p * s3 / 16); pvn (- p) 0 ].
Proof.
  intros Hp. pose proof s3_pos. pose proof s3_sq.
  unfold iso_thread_pv. rewrite dtor30.
  cbn [otan ocos odiv omul osub oadd oneg ofZ o0 ROps]. unfold cst, two. cbn [ofZ odiv oadd o1 ROps].
  rewrite tan_PI6, cos_PI6. fold s3.
  assert (ER : p / 16 / (s3 / 2) = p * s3 / 24) by (field_simplify_eq; [nra | lra]).
  rewrite ER.
  rewrite !pvs_marked by (try nra; try discriminate).
  unfold pvn.
  repeat (f_equal; try (field; lra)).
Qed.

Definition int_l0 (r p : R) : list PVR :=
  [ pvn p 0; pvn p (r - 5 * p * s3 / 16); pvn (3 * p / 8) (r - 5 * p * s3 / 16);
    mkPV (mkV2 0 (r + p * s3 / 16)) (Some (p * s3 / 24, 5%nat));
    pvn (- (3 * p / 8)) (r - 5 * p * s3 / 16); pvn (- p) (r - 5 * p * s3 / 16); pvn (- p) 0 ].

Lemma polar_mPI3 (v : V) L : polar v L (- (PI / 3)) = mkV2 (vx v + L / 2) (vy v - L * s3 / 2).
Proof.
  unfold polar, v2add, v2muls, dir; cbn. rewrite cos_neg, sin_antisym, cos_PI3, sin_PI3. fold s3.
  apply V2_eq; cbn; field.
Qed.
Lemma polar_m2PI3 (v : V) L : polar v L (- (PI / 3) + -1 * (PI / 3)) = mkV2 (vx v - L / 2) (vy v - L * s3 / 2).
Proof.
  replace (- (PI / 3) + -1 * (PI / 3)) with (- (2 * (PI / 3))) by ring.
  unfold polar, v2add, v2muls, dir; cbn. rewrite cos_neg, sin_antisym, cos_2PI3, sin_2PI3. fold s3.
  apply V2_eq; cbn; field.
Qed.

Ltac arc_crest :=
  repeat match goal with
  | |- context [v2add (polar ?c (?rho / sin (PI / 3 / 2)) (- (PI / 3) + -1 * (PI / 3 / 2))) (v2muls (dir ?X) ?rho)] =>
    first [ rewrite (arc_pt_crest c rho X (PI / 6)) by lra
          | rewrite (arc_pt_crest c rho X (3 * PI / 10)) by lra
          | rewrite (arc_pt_crest c rho X (13 * PI / 30)) by lra
          | rewrite (arc_pt_crest c rho X (17 * PI / 30)) by lra
          | rewrite (arc_pt_crest c rho X (7 * PI / 10)) by lra
          | rewrite (arc_pt_crest c rho X (5 * PI / 6)) by lra ]
  end.

Lemma int_vertices r p : 0 < p ->
  vertices (int_l0 r p) = iso_polygon_of_outline p (@iso_int_outline ROps r p).
Proof.
  intros Hp. pose proof s3_pos as Hs. pose proof s3_sq as Hq. pose proof PI_RGT_0 as Hpi.
  unfold vertices. replace (count_marked (int_l0 r p)) with 1%nat by reflexivity.
  unfold int_l0. cbn [smooth_loop length].
  do 3 none_step.
  some_step.
  2:{ eapply (smooth_vertex_polar _ 3%nat _ _ _ (pvn (3 * p / 8) (r - 5 * p * s3 / 16)) (pvn (- (3 * p / 8)) (r - 5 * p * s3 / 16))
                (- (PI / 3)) (-1) (PI / 3) (3 * p / 4) (3 * p / 4));
      try reflexivity; try discriminate; try lra.
      - rewrite polar_mPI3. cbn. apply V2_eq; cbn; field.
      - rewrite polar_m2PI3. cbn. apply V2_eq; cbn; field.
      - right; reflexivity.
      - apply d1_bound; nra.
      - apply d1_bound; nra. }
  cbn [firstn skipn app arc_closed Nat.sub].
  do 3 none_step. done_step.
  do 12 none_step. done_step.
  cbn [map pv_pos pvn].
  change (IZR (Z.of_nat 5)) with 5.
  arc_crest.
  unfold iso_polygon_of_outline, iso_int_outline. cbn [rev app map fst snd].
  unfold iso_H, iso_kx, iso_ky, iso_ang, cst, two.
  cbn [T ROps ofZ oadd osub omul odiv oneg osqrt ocos osin opi o0 o1 vx vy]. fold s3.
  rewrite cos_PI6, sin_PI6, cos_5PI6, sin_5PI6. fold s3.
  repeat (apply (f_equal2 cons); [apply V2_eq; cbn [vx vy]; nra |]). reflexivity.
Qed.

Theorem iso_thread_is_outline : forall r p, 0 < p ->
  @iso_thread ROps r p true = iso_polygon_of_outline p (@iso_ext_outline ROps r p) /\
  @iso_thread ROps r p false = iso_polygon_of_outline p (@iso_int_outline ROps r p).
Proof.
  intros r p Hp. unfold iso_thread. rewrite iso_pv_ext_R, iso_pv_int_R by exact Hp.
  split; [apply ext_vertices | apply int_vertices]; exact Hp.
Qed.
