(* Proofs over the reals about Sdf/Build.v (sdf/poly.go): fillets, chamfers, arcs,
   relative and polar vertices, N-gons. *)
From Coq Require Import Reals Lra Lia List Bool ZArith Psatz.
From Sdfx Require Import Num.Ops Num.RInst Geo.Vec Sdf.Build.
Import ListNotations.
Open Scope R_scope.

Notation V := (V2 ROps).

(* expose the real-number operations behind the Ops record *)
Ltac rops := cbv [ROps T oadd osub omul odiv oneg oabs osqrt o0 o1 ofZ osin ocos otan oatan oacos
                  opi omax omin oltb oleb oeqb two half cst sq
                  v2add v2sub v2muls v2dot v2cross v2len2 v2len v2normalize vx vy] in *.

(* ------------------------------------------------------------ vectors *)
Definition dist (p q : V) : R := sqrt ((vx p - vx q) * (vx p - vx q) + (vy p - vy q) * (vy p - vy q)).
Definition is_unit (u : V) : Prop := vx u * vx u + vy u * vy u = 1.

Lemma V_eq (p q : V) : vx p = vx q -> vy p = vy q -> p = q.
Proof. destruct p, q; cbn; intros; subst; reflexivity. Qed.

Lemma dist_len (p q : V) : dist p q = v2len (v2sub p q).
Proof. reflexivity. Qed.

Lemma len2_nonneg (a : V) : 0 <= v2len2 a.
Proof. destruct a as [x y]; cbn. nra. Qed.

Lemma len_sq (a : V) : v2len a * v2len a = v2len2 a.
Proof. unfold v2len. cbn [osqrt ROps]. apply sqrt_sqrt, len2_nonneg. Qed.

Lemma len_pos (a : V) : 0 < v2len2 a -> 0 < v2len a.
Proof. intros H. unfold v2len. cbn [osqrt ROps]. apply sqrt_lt_R0, H. Qed.

Lemma normalize_unit (a : V) : 0 < v2len2 a -> is_unit (v2normalize a).
Proof.
  intros H. pose proof (len_pos a H) as HL. pose proof (len_sq a) as HS.
  unfold is_unit. destruct a as [x y]. set (L := v2len _) in *.
  unfold v2normalize. fold L. rops.
  replace (x * (1 / L) * (x * (1 / L)) + y * (1 / L) * (y * (1 / L))) with ((x * x + y * y) / (L * L))
    by (field; lra).
  rewrite <- HS. field. nra.
Qed.

Lemma normalize_scale (a : V) : 0 < v2len2 a -> a = v2muls (v2normalize a) (v2len a).
Proof.
  intros H. pose proof (len_pos a H) as HL. destruct a as [x y]. unfold v2normalize.
  set (L := v2len _) in *. apply V_eq; cbn; field; lra.
Qed.

(* (u.w)^2 + (u x w)^2 = 1 for unit vectors *)
Lemma lagrange (u w : V) : is_unit u -> is_unit w ->
  v2dot u w * v2dot u w + v2cross u w * v2cross u w = 1.
Proof.
  unfold is_unit. destruct u as [a b], w as [c d]; cbn. intros Hu Hw.
  replace ((a * c + b * d) * (a * c + b * d) + (a * d - b * c) * (a * d - b * c))
    with ((a * a + b * b) * (c * c + d * d)) by ring.
  rewrite Hu, Hw. ring.
Qed.

(* ------------------------------------------------------------ rotations *)
Definition rotv (a : R) (w : V) : V :=
  mkV2 (cos a * vx w - sin a * vy w) (sin a * vx w + cos a * vy w).

Lemma mulpos_rotate a w : m22mulpos (rotate a) w = rotv a w.
Proof. destruct w as [x y]. apply V_eq; cbn; ring. Qed.

Lemma rotv_0 w : rotv 0 w = w.
Proof. destruct w as [x y]. unfold rotv. rewrite cos_0, sin_0. apply V_eq; cbn; ring. Qed.

Lemma rotv_add a b w : rotv a (rotv b w) = rotv (a + b) w.
Proof. destruct w as [x y]. unfold rotv. rewrite cos_plus, sin_plus. apply V_eq; cbn; ring. Qed.

Lemma rotv_len2 a w : v2len2 (rotv a w) = v2len2 w.
Proof.
  destruct w as [x y]. cbn. pose proof (sin2_cos2 a) as H. unfold Rsqr in H.
  replace ((cos a * x - sin a * y) * (cos a * x - sin a * y) + (sin a * x + cos a * y) * (sin a * x + cos a * y))
    with ((sin a * sin a + cos a * cos a) * (x * x + y * y)) by ring.
  rewrite H. ring.
Qed.

(* the j-th element of the loop `rv = m.MulPosition(rv)` is the start rotated by j times the angle *)
Lemma rot_seq_length n m rv : length (@rot_seq ROps n m rv) = n.
Proof. revert rv; induction n; intros; cbn; [reflexivity | now rewrite IHn]. Qed.

Lemma rot_seq_nth : forall n a rv j d, (j < n)%nat ->
  nth j (@rot_seq ROps n (rotate a) rv) d = rotv (INR j * a) rv.
Proof.
  induction n; intros a rv j d Hj; [lia|].
  destruct j as [|j].
  - cbn [rot_seq nth]. change (INR 0) with 0. rewrite Rmult_0_l, rotv_0. reflexivity.
  - cbn [rot_seq nth]. rewrite IHn by lia. rewrite mulpos_rotate, rotv_add.
    f_equal. rewrite S_INR. ring.
Qed.

Lemma In_rot_seq n a rv p : In p (@rot_seq ROps n (rotate a) rv) -> exists j, (j < n)%nat /\ p = rotv (INR j * a) rv.
Proof.
  intros H. destruct (In_nth _ _ rv H) as (j & Hj & E). rewrite rot_seq_length in Hj.
  exists j; split; [exact Hj|]. rewrite <- E. apply rot_seq_nth, Hj.
Qed.

Lemma dist_add_c (c w : V) : dist (v2add c w) c = v2len w.
Proof.
  unfold dist, v2len, v2len2, v2dot. destruct c as [cx cy], w as [x y]. cbn. f_equal. ring.
Qed.
