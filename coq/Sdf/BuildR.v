(* Proofs over the reals about Sdf/Build.v (sdf/poly.go): fillets, chamfers, arcs,
   relative and polar vertices, N-gons. *)
From Coq Require Import Reals Lra Lia List Bool ZArith Psatz Nsatz.
From Sdfx Require Import Num.Ops.
From Sdfx Require Import Num.RInst.
From Sdfx Require Import Geo.Vec.
From Sdfx Require Import Sdf.Build.
Import ListNotations.
Open Scope R_scope.

Notation V := (V2 ROps).

(* expose the real-number operations behind the Ops record *)
Ltac rops := cbv [ROps T oadd osub omul odiv oneg oabs osqrt o0 o1 ofZ osin ocos otan oatan oacos
                  opi omax omin oltb oleb oeqb two half cst sq
                  v2add v2sub v2muls v2dot v2cross v2len2 v2len v2normalize vx vy] in *.

(* ------------------------------------------------------------ vectors *)
Definition dist (p q : V) : R := sqrt ((vx p - vx q) * (vx p - vx q) + (vy p - vy q) * (vy p - vy q)).
Definition is_unit (u : V) : Prop := vx u * vx u + vy u * vy u = 1.

Lemma V_eq (p q : V) : vx p = vx q -> vy p = vy q -> p = q.
Proof. destruct p, q; cbn; intros; subst; reflexivity. Qed.

Lemma dist_len (p q : V) : dist p q = v2len (v2sub p q).
Proof. reflexivity. Qed.

Lemma len2_nonneg (a : V) : 0 <= v2len2 a.
Proof. destruct a as [x y]; cbn. nra. Qed.

Lemma len_sq (a : V) : v2len a * v2len a = v2len2 a.
Proof. unfold v2len. cbn [osqrt ROps]. apply sqrt_sqrt, len2_nonneg. Qed.

Lemma len_pos (a : V) : 0 < v2len2 a -> 0 < v2len a.
Proof. intros H. unfold v2len. cbn [osqrt ROps]. apply sqrt_lt_R0, H. Qed.

Lemma normalize_unit (a : V) : 0 < v2len2 a -> is_unit (v2normalize a).
Proof.
  intros H. pose proof (len_pos a H) as HL. pose proof (len_sq a) as HS.
  unfold is_unit. destruct a as [x y]. set (L := v2len _) in *.
  unfold v2normalize. fold L. rops.
  replace (x * (1 / L) * (x * (1 / L)) + y * (1 / L) * (y * (1 / L))) with ((x * x + y * y) / (L * L))
    by (field; lra).
  rewrite <- HS. field. nra.
Qed.

Lemma normalize_scale (a : V) : 0 < v2len2 a -> a = v2muls (v2normalize a) (v2len a).
Proof.
  intros H. pose proof (len_pos a H) as HL. destruct a as [x y]. unfold v2normalize.
  set (L := v2len _) in *. clearbody L. apply V_eq; rops; field; lra.
Qed.

(* (u.w)^2 + (u x w)^2 = 1 for unit vectors *)
Lemma lagrange (u w : V) : is_unit u -> is_unit w ->
  v2dot u w * v2dot u w + v2cross u w * v2cross u w = 1.
Proof.
  unfold is_unit. destruct u as [a b], w as [c d]; cbn. intros Hu Hw.
  replace ((a * c + b * d) * (a * c + b * d) + (a * d - b * c) * (a * d - b * c))
    with ((a * a + b * b) * (c * c + d * d)) by ring.
  rewrite Hu, Hw. ring.
Qed.

(* ------------------------------------------------------------ rotations *)
Definition rotv (a : R) (w : V) : V :=
  mkV2 (cos a * vx w - sin a * vy w) (sin a * vx w + cos a * vy w).

Lemma mulpos_rotate a w : m22mulpos (rotate a) w = rotv a w.
Proof. destruct w as [x y]. apply V_eq; cbn; ring. Qed.

Lemma rotv_0 w : rotv 0 w = w.
Proof. destruct w as [x y]. unfold rotv. rewrite cos_0, sin_0. apply V_eq; cbn; ring. Qed.

Lemma rotv_add a b w : rotv a (rotv b w) = rotv (a + b) w.
Proof. destruct w as [x y]. unfold rotv. rewrite cos_plus, sin_plus. apply V_eq; cbn; ring. Qed.

Lemma rotv_len2 a w : v2len2 (rotv a w) = v2len2 w.
Proof.
  destruct w as [x y]. cbn. pose proof (sin2_cos2 a) as H. unfold Rsqr in H.
  replace ((cos a * x - sin a * y) * (cos a * x - sin a * y) + (sin a * x + cos a * y) * (sin a * x + cos a * y))
    with ((sin a * sin a + cos a * cos a) * (x * x + y * y)) by ring.
  rewrite H. ring.
Qed.

(* the j-th element of the loop `rv = m.MulPosition(rv)` is the start rotated by j times the angle *)
Lemma rot_seq_length n m rv : length (@rot_seq ROps n m rv) = n.
Proof. revert rv; induction n; intros; cbn; [reflexivity | now rewrite IHn]. Qed.

Lemma rot_seq_nth : forall n a rv j d, (j < n)%nat ->
  List.nth j (@rot_seq ROps n (rotate a) rv) d = rotv (INR j * a) rv.
Proof.
  induction n; intros a rv j d Hj; [lia|].
  destruct j as [|j].
  - cbn [rot_seq List.nth]. change (INR 0) with 0. rewrite Rmult_0_l, rotv_0. reflexivity.
  - cbn [rot_seq List.nth]. rewrite IHn by lia. rewrite mulpos_rotate, rotv_add.
    f_equal. rewrite S_INR. ring.
Qed.

Lemma In_rot_seq n a rv p : In p (@rot_seq ROps n (rotate a) rv) -> exists j, (j < n)%nat /\ p = rotv (INR j * a) rv.
Proof.
  intros H. destruct (In_nth _ _ rv H) as (j & Hj & E). rewrite rot_seq_length in Hj.
  exists j; split; [exact Hj|]. rewrite <- E. apply rot_seq_nth, Hj.
Qed.

Lemma dist_add_c (c w : V) : dist (v2add c w) c = v2len w.
Proof.
  unfold dist, v2len, v2len2, v2dot. destruct c as [cx cy], w as [x y]. cbn. f_equal. ring.
Qed.

(* ------------------------------------------------------------ sign, angles *)
Lemma sign_neg (x : R) : x < 0 -> @sign ROps x = -1.
Proof. intros H. unfold sign. rops. destruct (Rltb_true x 0) as [_ E]. rewrite (E H). reflexivity. Qed.
Lemma sign_pos (x : R) : 0 < x -> @sign ROps x = 1.
Proof.
  intros H. unfold sign. rops.
  destruct (Rltb x 0) eqn:C1; [apply Rltb_true in C1; lra|].
  destruct (Rltb_true 0 x) as [_ E]. rewrite (E H). reflexivity.
Qed.
Lemma sign_sq (x : R) : x <> 0 -> @sign ROps x * @sign ROps x = 1 /\ @sign ROps x * Rabs x = x.
Proof.
  intros H. destruct (Rlt_dec x 0) as [N|N].
  - rewrite (sign_neg x N), (Rabs_left x N). split; ring.
  - assert (P : 0 < x) by lra. rewrite (sign_pos x P), (Rabs_right x) by lra. split; ring.
Qed.

Lemma acos_facts (k : R) : -1 < k < 1 ->
  let t := acos k in 0 < t < PI /\ cos t = k /\ 0 < sin t /\ sin t * sin t = 1 - k * k.
Proof.
  intros Hk t. assert (C : cos t = k) by (apply cos_acos; lra).
  pose proof (acos_bound k) as B. fold t in B.
  assert (T0 : t <> 0) by (intros E; rewrite E, cos_0 in C; lra).
  assert (T1 : t <> PI) by (intros E; rewrite E, cos_PI in C; lra).
  assert (TT : 0 < t < PI) by lra.
  split; [exact TT|]. split; [exact C|].
  split; [apply sin_gt_0; lra|].
  pose proof (sin2_cos2 t) as H. unfold Rsqr in H. rewrite C in H. lra.
Qed.

Lemma half_angle (t : R) : 0 < t < PI ->
  0 < cos (t / 2) /\ 0 < sin (t / 2) /\ 2 * (cos (t / 2) * cos (t / 2)) = 1 + cos t /\
  2 * (sin (t / 2) * sin (t / 2)) = 1 - cos t /\ sin t = 2 * sin (t / 2) * cos (t / 2).
Proof.
  intros Ht. pose proof PI_RGT_0.
  assert (C : 0 < cos (t / 2)) by (apply cos_gt_0; lra).
  assert (S : 0 < sin (t / 2)) by (apply sin_gt_0; lra).
  assert (E : t = 2 * (t / 2)) by field.
  pose proof (cos_2a_cos (t / 2)) as H1. pose proof (sin_2a (t / 2)) as H2. rewrite <- E in H1, H2.
  pose proof (sin2_cos2 (t / 2)) as H3. unfold Rsqr in H3.
  repeat split; try assumption; lra.
Qed.

(* rotation by the signed angle s*(PI - t) *)
Lemma cos_sin_signed (s t : R) : s = 1 \/ s = -1 ->
  cos (s * (PI - t)) = - cos t /\ sin (s * (PI - t)) = s * sin t.
Proof.
  assert (C : cos (PI - t) = - cos t) by (rewrite cos_minus, cos_PI, sin_PI; ring).
  assert (S : sin (PI - t) = sin t) by (rewrite sin_minus, cos_PI, sin_PI; ring).
  intros [E|E]; subst s.
  - rewrite Rmult_1_l, C, S. split; ring.
  - replace (-1 * (PI - t)) with (- (PI - t)) by ring. rewrite cos_neg, sin_neg, C, S. split; ring.
Qed.

(* ------------------------------------------------------------ the corner, in coordinates *)
Section Corner.
  (* unit vectors u0 = (a, b) towards the previous vertex, u1 = (c, d) towards the next one *)
  Variables a b c d r : R.
  Hypothesis U0 : a * a + b * b = 1.
  Hypothesis U1 : c * c + d * d = 1.
  Let k := a * c + b * d.            (* u0 . u1 *)
  Let x := c * b - d * a.            (* u1 x u0 *)
  Hypothesis NC : x <> 0.

  Lemma corner_kx : k * k + x * x = 1.
  Proof. unfold k, x. nsatz. Qed.

  Lemma corner_k_range : -1 < k < 1.
  Proof. pose proof corner_kx. assert (0 < x * x) by nra. nra. Qed.

  Lemma corner_rot_u0 : - k * a - x * b = - c /\ x * a - k * b = - d.
  Proof. unfold k, x. split; nsatz. Qed.
  Lemma corner_rot_u1 : - k * c - x * d = a - 2 * k * c /\ x * c - k * d = b - 2 * k * d.
  Proof. unfold k, x. split; nsatz. Qed.

  Let th := acos k.
  Let ch := cos (th / 2).
  Let sh := sin (th / 2).
  Lemma corner_half : 0 < ch /\ 0 < sh /\ 2 * (ch * ch) = 1 + k /\ 2 * (sh * sh) = 1 - k /\ 0 < th < PI.
  Proof.
    destruct (acos_facts k corner_k_range) as (T & C & _ & _). fold th in T, C.
    destruct (half_angle th T) as (H1 & H2 & H3 & H4 & _). fold ch sh in H1, H2, H3, H4.
    rewrite C in H3, H4. repeat split; try assumption; lra.
  Qed.

  Lemma corner_x2 : x * x = 4 * (ch * ch) * (sh * sh).
  Proof. destruct corner_half as (_ & _ & H3 & H4 & _). pose proof corner_kx. nra. Qed.

  Let L := sqrt ((a + c) * (a + c) + (b + d) * (b + d)).
  Lemma corner_bis_len : L = 2 * ch.
  Proof.
    destruct corner_half as (H1 & _ & H3 & _). unfold L.
    pose proof (Rle_0_sqr (a + c)) as Q1. pose proof (Rle_0_sqr (b + d)) as Q2. unfold Rsqr in Q1, Q2.
    apply sqrt_lem_1; [lra | lra |].
    unfold k in H3. lra.
  Qed.

  Let lam := r / (2 * ch * sh).
  Let d1 := r / (sh / ch).
  Let d2 := r / sh.

  (* (tangent point on the edge towards u0) - centre, and the same towards u1 *)
  Lemma corner_rv0 : a * d1 - (a + c) * (1 / L) * d2 = lam * (k * a - c) /\
                     b * d1 - (b + d) * (1 / L) * d2 = lam * (k * b - d).
  Proof.
    destruct corner_half as (H1 & H2 & H3 & _). rewrite corner_bis_len.
    replace k with (2 * (ch * ch) - 1) by lra. unfold lam, d1, d2. split; field; lra.
  Qed.
  Lemma corner_rv1 : c * d1 - (a + c) * (1 / L) * d2 = lam * (k * c - a) /\
                     d * d1 - (b + d) * (1 / L) * d2 = lam * (k * d - b).
  Proof.
    destruct corner_half as (H1 & H2 & H3 & _). rewrite corner_bis_len.
    replace k with (2 * (ch * ch) - 1) by lra. unfold lam, d1, d2. split; field; lra.
  Qed.
  (* centre - vertex = lam * (u0 + u1) *)
  Lemma corner_cv : (a + c) * (1 / L) * d2 = lam * (a + c) /\ (b + d) * (1 / L) * d2 = lam * (b + d).
  Proof.
    destruct corner_half as (H1 & H2 & _). rewrite corner_bis_len. unfold lam, d2. split; field; lra.
  Qed.

  Lemma corner_rv_len2 : lam * (k * a - c) * (lam * (k * a - c)) + lam * (k * b - d) * (lam * (k * b - d)) = r * r.
  Proof.
    destruct corner_half as (H1 & H2 & H3 & H4 & _).
    assert (E : (k * a - c) * (k * a - c) + (k * b - d) * (k * b - d) = 1 - k * k).
    { replace ((k * a - c) * (k * a - c) + (k * b - d) * (k * b - d))
        with (k * k * (a * a + b * b) - 2 * k * (a * c + b * d) + (c * c + d * d)) by ring.
      rewrite U0, U1. fold k. ring. }
    replace (lam * (k * a - c) * (lam * (k * a - c)) + lam * (k * b - d) * (lam * (k * b - d)))
      with (lam * lam * ((k * a - c) * (k * a - c) + (k * b - d) * (k * b - d))) by ring.
    rewrite E. replace (1 - k * k) with ((1 - k) * (1 + k)) by ring. rewrite <- H3, <- H4.
    unfold lam. field. lra.
  Qed.

  (* the rotation by sign(x) * (PI - th) has cosine -k and sine x *)
  Lemma corner_rot_end :
    - k * (lam * (k * a - c)) - x * (lam * (k * b - d)) = lam * (k * c - a) /\
    x * (lam * (k * a - c)) + - k * (lam * (k * b - d)) = lam * (k * d - b).
  Proof. unfold k, x. split; nsatz. Qed.

  Lemma corner_lamx : lam * x * (lam * x) = r * r.
  Proof.
    destruct corner_half as (H1 & H2 & _). rewrite (Rmult_comm lam x).
    replace (x * lam * (x * lam)) with (x * x * (lam * lam)) by ring. rewrite corner_x2.
    unfold lam. field. lra.
  Qed.
  Lemma corner_d1 : lam * (1 + k) = d1.
  Proof.
    destruct corner_half as (H1 & H2 & H3 & _). rewrite <- H3. unfold lam, d1. field. lra.
  Qed.
  Lemma corner_sin : sin th = Rabs x.
  Proof.
    destruct (acos_facts k corner_k_range) as (_ & _ & S & S2). fold th in S, S2.
    pose proof corner_kx. unfold Rabs. destruct (Rcase_abs x); nra.
  Qed.
End Corner.

(* ------------------------------------------------------------ smoothVertex *)
Definition corner_ok (vp v vn : V) : Prop :=
  0 < v2len2 (v2sub vp v) /\ 0 < v2len2 (v2sub vn v) /\
  v2cross (smooth_v0 vn v) (smooth_v0 vp v) <> 0.

(* r / (2 cos(theta/2) sin(theta/2)) = r / sin theta *)
Definition corner_lam (vp v vn : V) (r : R) : R :=
  r / (2 * cos (smooth_theta vp v vn / 2) * sin (smooth_theta vp v vn / 2)).

Ltac two_is_2 := replace (1 + 1) with 2 in * by lra.

(* the three vectors everything is built from, in terms of the unit edge directions *)
Lemma smooth_vectors vp v vn r : corner_ok vp v vn ->
  let u0 := smooth_v0 vp v in let u1 := smooth_v0 vn v in
  let k := v2dot u0 u1 in let lam := corner_lam vp v vn r in
  let c := smooth_centre vp v vn r in
  v2sub (smooth_tangent vp vp v vn r) c = mkV2 (lam * (k * vx u0 - vx u1)) (lam * (k * vy u0 - vy u1)) /\
  v2sub (smooth_tangent vn vp v vn r) c = mkV2 (lam * (k * vx u1 - vx u0)) (lam * (k * vy u1 - vy u0)) /\
  v2sub c v = mkV2 (lam * (vx u0 + vx u1)) (lam * (vy u0 + vy u1)).
Proof.
  intros (H0 & H1 & NC). cbv zeta.
  unfold corner_lam, smooth_tangent, smooth_centre, smooth_d1, smooth_theta.
  assert (U0 : is_unit (smooth_v0 vp v)) by (apply normalize_unit; exact H0).
  assert (U1 : is_unit (smooth_v0 vn v)) by (apply normalize_unit; exact H1).
  set (u0 := smooth_v0 vp v) in *. set (u1 := smooth_v0 vn v) in *. clearbody u0 u1.
  destruct u0 as [a b], u1 as [c d], v as [px py]. unfold is_unit in U0, U1.
  rops. two_is_2. unfold tan.
  pose proof (corner_rv0 a b c d r U0 U1 NC) as [E1 E2].
  pose proof (corner_rv1 a b c d r U0 U1 NC) as [E3 E4].
  pose proof (corner_cv a b c d r U0 U1 NC) as [E5 E6].
  cbv zeta in E1, E2, E3, E4, E5, E6.
  repeat split; apply V_eq; rops.
  - rewrite <- E1. ring.
  - rewrite <- E2. ring.
  - rewrite <- E3. ring.
  - rewrite <- E4. ring.
  - rewrite <- E5. ring.
  - rewrite <- E6. ring.
Qed.

Lemma smooth_rv_len2 vp v vn r : corner_ok vp v vn ->
  v2len2 (v2sub (smooth_tangent vp vp v vn r) (smooth_centre vp v vn r)) = r * r.
Proof.
  intros OK. destruct (smooth_vectors vp v vn r OK) as (E & _ & _). cbv zeta in E. rewrite E.
  destruct OK as (H0 & H1 & NC).
  assert (U0 : is_unit (smooth_v0 vp v)) by (apply normalize_unit; exact H0).
  assert (U1 : is_unit (smooth_v0 vn v)) by (apply normalize_unit; exact H1).
  unfold corner_lam, smooth_theta.
  set (u0 := smooth_v0 vp v) in *. set (u1 := smooth_v0 vn v) in *. clearbody u0 u1.
  destruct u0 as [a b], u1 as [c d]. unfold is_unit in U0, U1. rops.
  pose proof (corner_rv_len2 a b c d r U0 U1 NC) as E1. cbv zeta in E1. exact E1.
Qed.

Lemma smooth_points_length (vp v vn : V) (r : R) n : length (smooth_points vp v vn r n) = Z.to_nat (n + 1).
Proof. unfold smooth_points. rewrite map_length, rot_seq_length. reflexivity. Qed.

(* every generated point is at distance r from the computed centre *)
Theorem smooth_points_on_circle vp v vn r n p : corner_ok vp v vn -> 0 < r ->
  In p (smooth_points vp v vn r n) -> dist p (smooth_centre vp v vn r) = r.
Proof.
  intros OK Hr Hin. unfold smooth_points in Hin. apply in_map_iff in Hin. destruct Hin as (w & <- & Hw).
  apply In_rot_seq in Hw. destruct Hw as (j & _ & ->).
  rewrite dist_add_c. unfold v2len. rewrite rotv_len2, smooth_rv_len2 by exact OK.
  cbn [osqrt ROps]. apply sqrt_square. lra.
Qed.

(* the centre is at distance r from both edge lines (unit directions u0, u1 through v) *)
Theorem smooth_centre_tangent vp v vn r : corner_ok vp v vn -> 0 < r ->
  let c := smooth_centre vp v vn r in
  Rabs (v2cross (v2sub c v) (smooth_v0 vp v)) = r /\ Rabs (v2cross (v2sub c v) (smooth_v0 vn v)) = r.
Proof.
  intros OK Hr. cbv zeta. destruct (smooth_vectors vp v vn r OK) as (_ & _ & E). cbv zeta in E. rewrite E.
  destruct OK as (H0 & H1 & NC).
  assert (U0 : is_unit (smooth_v0 vp v)) by (apply normalize_unit; exact H0).
  assert (U1 : is_unit (smooth_v0 vn v)) by (apply normalize_unit; exact H1).
  unfold corner_lam, smooth_theta.
  set (u0 := smooth_v0 vp v) in *. set (u1 := smooth_v0 vn v) in *. clearbody u0 u1.
  destruct u0 as [a b], u1 as [c d]. unfold is_unit in U0, U1. rops.
  pose proof (corner_lamx a b c d r U0 U1 NC) as E1. cbv zeta in E1.
  set (lam := r / _) in *. clearbody lam.
  split.
  - replace (lam * (a + c) * b - lam * (b + d) * a) with (lam * (c * b - d * a)) by ring.
    unfold Rabs. destruct (Rcase_abs _); nra.
  - replace (lam * (a + c) * d - lam * (b + d) * c) with (- (lam * (c * b - d * a))) by ring.
    unfold Rabs. destruct (Rcase_abs _); nra.
Qed.

(* a point p of the circle (centre c, radius r) where it touches the line through v with direction u *)
Definition tangent_at (p c v u : V) (r : R) : Prop :=
  v2cross (v2sub p v) u = 0 /\ v2dot (v2sub p c) u = 0 /\ dist p c = r.

Lemma smooth_tangent_is_tangent vp v vn r : corner_ok vp v vn -> 0 < r ->
  tangent_at (smooth_tangent vp vp v vn r) (smooth_centre vp v vn r) v (smooth_v0 vp v) r /\
  tangent_at (smooth_tangent vn vp v vn r) (smooth_centre vp v vn r) v (smooth_v0 vn v) r.
Proof.
  intros OK Hr. pose proof (smooth_rv_len2 vp v vn r OK) as RL.
  destruct (smooth_vectors vp v vn r OK) as (E0 & E1 & _). cbv zeta in E0, E1.
  unfold tangent_at. rewrite !dist_len. unfold v2len. rewrite RL.
  assert (RL1 : v2len2 (v2sub (smooth_tangent vn vp v vn r) (smooth_centre vp v vn r)) = r * r).
  { rewrite E1. rewrite E0 in RL. revert RL. rops. intros RL.
    destruct OK as (H0 & H1 & NC).
    assert (U0 : is_unit (smooth_v0 vp v)) by (apply normalize_unit; exact H0).
    assert (U1 : is_unit (smooth_v0 vn v)) by (apply normalize_unit; exact H1).
    unfold is_unit in U0, U1. revert RL U0 U1. rops.
    set (lam := corner_lam _ _ _ _). generalize lam. clear. intros lam.
    destruct (smooth_v0 vp v) as [a b], (smooth_v0 vn v) as [c d]. rops. intros RL U0 U1.
    nsatz. }
  rewrite RL1, E0, E1. cbn [osqrt ROps]. rewrite sqrt_square by lra.
  destruct OK as (H0 & H1 & NC).
  assert (U0 : is_unit (smooth_v0 vp v)) by (apply normalize_unit; exact H0).
  assert (U1 : is_unit (smooth_v0 vn v)) by (apply normalize_unit; exact H1).
  unfold smooth_tangent. set (d1 := smooth_d1 _ _ _ _). clearbody d1.
  set (lam := corner_lam _ _ _ _). clearbody lam.
  destruct (smooth_v0 vp v) as [a b], (smooth_v0 vn v) as [c d], v as [px py]. unfold is_unit in U0, U1.
  rops. repeat split; try reflexivity; try nsatz.
Qed.

Lemma v2add_sub_cancel (c p : V) : v2add c (v2sub p c) = p.
Proof. destruct c, p. apply V_eq; rops; ring. Qed.

Lemma smooth_points_nth (vp v vn : V) (r : R) n j d : (j < Z.to_nat (n + 1))%nat ->
  List.nth j (smooth_points vp v vn r n) d =
  v2add (smooth_centre vp v vn r)
        (rotv (INR j * smooth_dtheta vp v vn n)
              (v2sub (smooth_tangent vp vp v vn r) (smooth_centre vp v vn r))).
Proof.
  intros Hj. unfold smooth_points.
  rewrite (nth_indep _ d (v2add (smooth_centre vp v vn r) d))
    by (rewrite map_length, rot_seq_length; exact Hj).
  rewrite map_nth. rewrite rot_seq_nth by exact Hj. reflexivity.
Qed.

(* the first generated point is the tangent point on the edge towards the previous vertex *)
Theorem smooth_starts_at_tangent (vp v vn : V) (r : R) n d : (0 <= n)%Z ->
  List.nth 0 (smooth_points vp v vn r n) d = smooth_tangent vp vp v vn r.
Proof.
  intros Hn. rewrite smooth_points_nth by lia. change (INR 0) with 0.
  rewrite Rmult_0_l, rotv_0. apply v2add_sub_cancel.
Qed.

(* n * dtheta = sign * (PI - theta): the last generated point (index facets) is the tangent
   point on the edge towards the next vertex *)
Theorem smooth_ends_at_tangent (vp v vn : V) (r : R) n dflt : corner_ok vp v vn -> (1 <= n)%Z ->
  List.nth (Z.to_nat n) (smooth_points vp v vn r n) dflt = smooth_tangent vn vp v vn r.
Proof.
  intros OK Hn. rewrite smooth_points_nth by lia.
  rewrite <- (v2add_sub_cancel (smooth_centre vp v vn r) (smooth_tangent vn vp v vn r)). f_equal.
  destruct (smooth_vectors vp v vn r OK) as (E0 & E1 & _). cbv zeta in E0, E1. rewrite E0, E1.
  destruct OK as (H0 & H1 & NC).
  assert (U0 : is_unit (smooth_v0 vp v)) by (apply normalize_unit; exact H0).
  assert (U1 : is_unit (smooth_v0 vn v)) by (apply normalize_unit; exact H1).
  (* the total angle *)
  assert (EA : INR (Z.to_nat n) * smooth_dtheta vp v vn n =
               @sign ROps (v2cross (smooth_v0 vn v) (smooth_v0 vp v)) * (PI - smooth_theta vp v vn)).
  { rewrite INR_IZR_INZ, Z2Nat.id by lia. unfold smooth_dtheta. rops. field.
    apply not_0_IZR. lia. }
  rewrite EA. clear EA.
  destruct (sign_sq _ NC) as (SS & SA).
  assert (S1 : @sign ROps (v2cross (smooth_v0 vn v) (smooth_v0 vp v)) = 1 \/
               @sign ROps (v2cross (smooth_v0 vn v) (smooth_v0 vp v)) = -1).
  { destruct (Rlt_dec (v2cross (smooth_v0 vn v) (smooth_v0 vp v)) 0) as [N|N].
    - right. apply sign_neg, N.
    - left. apply sign_pos. lra. }
  destruct (cos_sin_signed _ (smooth_theta vp v vn) S1) as (EC & ES).
  unfold rotv. rewrite EC, ES. clear EC ES S1.
  unfold corner_lam in *. unfold smooth_theta in *.
  set (u0 := smooth_v0 vp v) in *. set (u1 := smooth_v0 vn v) in *. clearbody u0 u1.
  destruct u0 as [a b], u1 as [c d]. unfold is_unit in U0, U1. revert NC SS SA. rops. intros NC SS SA.
  destruct (acos_facts _ (corner_k_range a b c d U0 U1 NC)) as (_ & CK & _ & _).
  pose proof (corner_sin a b c d U0 U1 NC) as SK. cbv zeta in SK.
  rewrite CK, SK, SA.
  pose proof (corner_rot_end a b c d r U0 U1) as [R1 R2]. cbv zeta in R1, R2.
  apply V_eq; rops.
  - rewrite <- R1. ring.
  - rewrite <- R2. ring.
Qed.

(* ---- the vertex in its list: replaced by the facets+1 points, or left alone *)
Theorem smooth_unchanged_when_too_large closed (l : list (PV ROps)) i v vp vn :
  nth_error l i = Some v -> pv_type v = PvSmooth ->
  prev_vertex closed l i = Some vp -> next_vertex closed l i = Some vn ->
  (v2len (v2sub (pv_v vp) (pv_v v)) < smooth_d1 (pv_v vp) (pv_v v) (pv_v vn) (pv_radius v) \/
   v2len (v2sub (pv_v vn) (pv_v v)) < smooth_d1 (pv_v vp) (pv_v v) (pv_v vn) (pv_radius v)) ->
  smooth_vertex closed l i = (l, false).
Proof.
  intros Hv Ht Hp Hn Hbig. unfold smooth_vertex. rewrite Hv, Ht, Hn, Hp. cbn [pvtype_eqb negb].
  unfold smooth_geom, smooth_fits. cbn [oltb ROps].
  destruct Hbig as [H|H].
  - destruct (Rltb_true (v2len (v2sub (pv_v vp) (pv_v v))) (smooth_d1 (pv_v vp) (pv_v v) (pv_v vn) (pv_radius v))) as [_ E].
    rewrite (E H). reflexivity.
  - destruct (Rltb_true (v2len (v2sub (pv_v vn) (pv_v v))) (smooth_d1 (pv_v vp) (pv_v v) (pv_v vn) (pv_radius v))) as [_ E].
    rewrite (E H), orb_true_r. reflexivity.
Qed.

Theorem smooth_vertex_replaces closed (l : list (PV ROps)) i v vp vn :
  nth_error l i = Some v -> pv_type v = PvSmooth ->
  prev_vertex closed l i = Some vp -> next_vertex closed l i = Some vn ->
  smooth_d1 (pv_v vp) (pv_v v) (pv_v vn) (pv_radius v) <= v2len (v2sub (pv_v vp) (pv_v v)) ->
  smooth_d1 (pv_v vp) (pv_v v) (pv_v vn) (pv_radius v) <= v2len (v2sub (pv_v vn) (pv_v v)) ->
  smooth_vertex closed l i =
    (firstn i l ++ map plain (smooth_points (pv_v vp) (pv_v v) (pv_v vn) (pv_radius v) (pv_facets v)) ++ skipn (S i) l, true).
Proof.
  intros Hv Ht Hp Hn H0 H1. unfold smooth_vertex. rewrite Hv, Ht, Hn, Hp. cbn [pvtype_eqb negb].
  unfold smooth_geom, smooth_fits. cbn [oltb ROps].
  destruct (Rltb_false (v2len (v2sub (pv_v vp) (pv_v v))) (smooth_d1 (pv_v vp) (pv_v v) (pv_v vn) (pv_radius v))) as [_ E0].
  destruct (Rltb_false (v2len (v2sub (pv_v vn) (pv_v v))) (smooth_d1 (pv_v vp) (pv_v v) (pv_v vn) (pv_radius v))) as [_ E1].
  rewrite (E0 H0), (E1 H1). reflexivity.
Qed.

(* ---- Chamfer(size): a one-facet fillet of radius size*sqrtHalf, i.e. the two cut points *)
Lemma chamfer_marks (size : R) (v : PV ROps) : size <> 0 ->
  pv_Chamfer size v = mkPV (pv_rel v) PvSmooth (pv_v v) 1%Z (size * sqrtHalf).
Proof.
  intros H. unfold pv_Chamfer, ne0. cbn [oeqb o0 ROps].
  destruct (Reqb_false size 0) as [_ E]. rewrite (E H). reflexivity.
Qed.

Theorem chamfer_two_points (vp v vn : V) (size : R) : corner_ok vp v vn ->
  smooth_points vp v vn (size * sqrtHalf) 1 =
  [smooth_tangent vp vp v vn (size * sqrtHalf); smooth_tangent vn vp v vn (size * sqrtHalf)].
Proof.
  intros OK. pose proof (smooth_points_length vp v vn (size * sqrtHalf) 1) as HL.
  pose proof (smooth_starts_at_tangent vp v vn (size * sqrtHalf) 1 vp) as H0.
  pose proof (smooth_ends_at_tangent vp v vn (size * sqrtHalf) 1 vp OK) as H1.
  destruct (smooth_points vp v vn (size * sqrtHalf) 1) as [|p0 [|p1 [|p2 t]]]; cbn in HL; try lia.
  change (Z.to_nat 1) with 1%nat in H1. cbn [List.nth] in H0, H1.
  rewrite <- H0, <- H1 by lia. reflexivity.
Qed.

(* ------------------------------------------------------------ arcVertex, in coordinates *)
Section ArcCoord.
  (* (e, f): unit chord direction; h: half the chord; D: distance midpoint -> centre; s: side *)
  Variables e f h D s : R.
  Hypothesis UE : e * e + f * f = 1.
  Hypothesis SS : s * s = 1.
  Let r2 := h * h + D * D.
  Let ux := - e * h - s * f * D.      (* a - c *)
  Let uy := - f * h + s * e * D.
  Let tx := e * h - s * f * D.        (* b - c *)
  Let ty := f * h + s * e * D.
  Lemma arc_len_u : ux * ux + uy * uy = r2 /\ tx * tx + ty * ty = r2.
  Proof. unfold ux, uy, tx, ty, r2. split; nsatz. Qed.
  Lemma arc_dot_cross : ux * tx + uy * ty = D * D - h * h /\ ux * ty - uy * tx = - 2 * s * h * D.
  Proof. unfold ux, uy, tx, ty. split; nsatz. Qed.
  (* rotation with cosine kap and sine chi, where kap*r2 = D^2 - h^2, chi*r2 = -2shD *)
  Lemma arc_rot kap chi : kap * r2 = D * D - h * h -> chi * r2 = - 2 * s * h * D -> r2 <> 0 ->
    kap * ux - chi * uy = tx /\ chi * ux + kap * uy = ty.
  Proof.
    intros HK HC NZ. split; apply (Rmult_eq_reg_l r2); try exact NZ.
    - replace (r2 * (kap * ux - chi * uy)) with (kap * r2 * ux - chi * r2 * uy) by ring.
      rewrite HK, HC. unfold ux, uy, tx, r2. nsatz.
    - replace (r2 * (chi * ux + kap * uy)) with (chi * r2 * ux + kap * r2 * uy) by ring.
      rewrite HK, HC. unfold ux, uy, ty, r2. nsatz.
  Qed.
End ArcCoord.

(* sin A + sin B > sin (A + B) for positive angles with A + B <= PI *)
Lemma sin_sum_gt (A B : R) : 0 < A -> 0 < B -> A + B <= PI -> 0 < sin A + sin B - sin (A + B).
Proof.
  intros HA HB HS. rewrite sin_plus.
  assert (SA : 0 < sin A) by (apply sin_gt_0; lra).
  assert (SB : 0 < sin B) by (apply sin_gt_0; lra).
  assert (CA : cos A < 1).
  { replace A with (2 * (A / 2)) by field. rewrite cos_2a_sin.
    assert (0 < sin (A / 2)) by (apply sin_gt_0; lra). nra. }
  assert (CB : cos B < 1).
  { replace B with (2 * (B / 2)) by field. rewrite cos_2a_sin.
    assert (0 < sin (B / 2)) by (apply sin_gt_0; lra). nra. }
  nra.
Qed.

(* cross (Rot al u - u) (Rot be u - u) = |u|^2 (sin (be - al) + sin al - sin be) *)
Lemma cross_rot_rot (al be : R) (u : V) :
  v2cross (v2sub (rotv al u) u) (v2sub (rotv be u) u) = v2len2 u * (sin (be - al) + sin al - sin be).
Proof. destruct u as [x y]. unfold rotv. rewrite sin_minus. rops. ring. Qed.

(* ------------------------------------------------------------ arcVertex *)
Definition arc_ok (a b : V) (r : R) : Prop :=
  0 < v2len2 (v2sub b a) /\ r <> 0 /\ v2len2 (v2sub b a) <= 4 * (r * r).
Definition arc_h (a b : V) : R := v2len (v2sub b a) / 2.
Definition arc_D (a b : V) (r : R) : R := sqrt (r * r - arc_h a b * arc_h a b).

Lemma arc_dmid (a b : V) : v2len (v2sub (v2muls (v2add a b) half) a) = arc_h a b.
Proof.
  unfold arc_h. pose proof (len_sq (v2sub b a)) as LS. pose proof (len2_nonneg (v2sub b a)) as LN.
  assert (L0 : 0 <= v2len (v2sub b a)) by (unfold v2len; cbn [osqrt ROps]; apply sqrt_pos).
  set (Lw := v2len (v2sub b a)) in *. clearbody Lw.
  unfold v2len at 1. cbn [osqrt ROps]. apply sqrt_lem_1; [apply len2_nonneg | lra |].
  destruct a as [ax ay], b as [bx by_]. revert LS LN. rops. intros LS LN. two_is_2. nra.
Qed.

Lemma arc_h_D (a b : V) r : arc_ok a b r ->
  0 < arc_h a b /\ 0 <= arc_D a b r /\ arc_D a b r * arc_D a b r = r * r - arc_h a b * arc_h a b /\
  0 < r * r.
Proof.
  intros (HL & HR & HC). pose proof (len_pos _ HL) as LP. pose proof (len_sq (v2sub b a)) as LS.
  assert (HH : 0 <= r * r - arc_h a b * arc_h a b) by (unfold arc_h; nra).
  repeat split.
  - unfold arc_h. lra.
  - apply sqrt_pos.
  - unfold arc_D. apply sqrt_sqrt, HH.
  - nra.
Qed.

Lemma two_half (q : R) : q = 2 * (q / 2).
Proof. field. Qed.

Lemma arc_vectors (a b : V) r : arc_ok a b r ->
  let u := v2normalize (v2sub b a) in let h := arc_h a b in let D := arc_D a b r in
  let s := @sign ROps r in let c := arc_centre a b r in
  v2sub a c = mkV2 (- vx u * h - s * vy u * D) (- vy u * h + s * vx u * D) /\
  v2sub b c = mkV2 (vx u * h - s * vy u * D) (vy u * h + s * vx u * D).
Proof.
  intros OK. pose proof OK as (HL & HR & HC). cbv zeta.
  destruct (arc_h_D a b r OK) as (HP & D0 & DD & RR).
  unfold arc_centre. cbv zeta. rewrite arc_dmid.
  assert (EM : omax ROps (o0 ROps) (osub ROps (omul ROps (oabs ROps r) (oabs ROps r))
                                               (omul ROps (arc_h a b) (arc_h a b)))
               = r * r - arc_h a b * arc_h a b).
  { rops. replace (Rabs r * Rabs r) with (r * r) by (unfold Rabs; destruct (Rcase_abs r); ring).
    apply Rmax_right. rewrite <- DD. apply Rle_0_sqr. }
  rewrite EM. change (osqrt ROps (r * r - arc_h a b * arc_h a b)) with (arc_D a b r).
  pose proof (normalize_scale _ HL) as SC.
  assert (EH : v2len (v2sub b a) = 2 * arc_h a b) by (unfold arc_h; apply two_half).
  rewrite EH in SC. clear EH EM.
  set (u := v2normalize (v2sub b a)) in *. set (h := arc_h a b) in *. set (D := arc_D a b r) in *.
  set (s := @sign ROps r). clearbody u h D s.
  destruct a as [ax ay], b as [bx by_], u as [e f].
  revert SC. rops. intros SC. injection SC as Sx Sy. two_is_2.
  assert (Bx : bx = ax + e * (2 * h)) by lra. assert (By : by_ = ay + f * (2 * h)) by lra.
  subst bx by_. split; apply V_eq; rops; field.
Qed.

Lemma arc_len2 (a b : V) r : arc_ok a b r ->
  v2len2 (v2sub a (arc_centre a b r)) = r * r /\ v2len2 (v2sub b (arc_centre a b r)) = r * r.
Proof.
  intros OK. destruct (arc_vectors a b r OK) as (EA & EB). cbv zeta in EA, EB. rewrite EA, EB.
  destruct (arc_h_D a b r OK) as (HP & D0 & DD & RR). destruct OK as (HL & HR & HC).
  pose proof (normalize_unit _ HL) as UE. unfold is_unit in UE.
  assert (SS : @sign ROps r * @sign ROps r = 1) by (apply sign_sq, HR).
  set (u := v2normalize (v2sub b a)) in *. set (h := arc_h a b) in *. set (D := arc_D a b r) in *.
  set (s := @sign ROps r) in *. clearbody u h D s. destruct u as [e f]. revert UE. rops. intros UE.
  destruct (arc_len_u e f h D s UE SS) as (L1 & L2). cbv zeta in L1, L2.
  replace (r * r) with (h * h + D * D) by lra. split; [rewrite <- L1 | rewrite <- L2]; ring.
Qed.

Lemma arc_radius (a b : V) r : arc_ok a b r ->
  dist a (arc_centre a b r) = Rabs r /\ dist b (arc_centre a b r) = Rabs r.
Proof.
  intros OK. destruct (arc_len2 a b r OK) as (LA & LB). rewrite !dist_len. unfold v2len.
  rewrite LA, LB. cbn [osqrt ROps]. split; apply sqrt_Rsqr_abs.
Qed.

(* the unit vectors from the centre, their angle phi, and the total rotation -side*phi *)
Definition arc_phi (a b : V) (r : R) : R :=
  let c := arc_centre a b r in
  acos (clamp (v2dot (v2normalize (v2sub a c)) (v2normalize (v2sub b c))) (Ropp 1) 1).

Lemma arc_dtheta_phi (a b : V) r n : arc_dtheta a b r n = - @sign ROps r * arc_phi a b r / IZR n.
Proof. reflexivity. Qed.

Lemma clamp_id (x : R) : -1 <= x <= 1 -> @clamp ROps x (Ropp 1) 1 = x.
Proof.
  intros H. unfold clamp. rops.
  destruct (Rltb x (Ropp 1)) eqn:C1; [apply Rltb_true in C1; lra|].
  destruct (Rltb 1 x) eqn:C2; [apply Rltb_true in C2; lra|]. reflexivity.
Qed.

Lemma arc_rot_total (a b : V) r : arc_ok a b r ->
  let c := arc_centre a b r in
  rotv (- @sign ROps r * arc_phi a b r) (v2sub a c) = v2sub b c /\ 0 < arc_phi a b r <= PI.
Proof.
  intros OK. cbv zeta. destruct (arc_len2 a b r OK) as (LA & LB).
  destruct (arc_vectors a b r OK) as (EA & EB). cbv zeta in EA, EB.
  destruct (arc_h_D a b r OK) as (HP & D0 & DD & RR). pose proof OK as (HL & HR & HC).
  pose proof (normalize_unit _ HL) as UE. unfold is_unit in UE.
  assert (SS : @sign ROps r * @sign ROps r = 1) by (apply sign_sq, HR).
  assert (PA : 0 < v2len2 (v2sub a (arc_centre a b r))) by (rewrite LA; exact RR).
  assert (PB : 0 < v2len2 (v2sub b (arc_centre a b r))) by (rewrite LB; exact RR).
  pose proof (normalize_unit _ PA) as UA. pose proof (normalize_unit _ PB) as UB.
  pose proof (lagrange _ _ UA UB) as LG.
  unfold arc_phi. cbv zeta.
  (* both normalisations divide by rho = sqrt (r*r) *)
  assert (RA : v2len (v2sub a (arc_centre a b r)) = sqrt (r * r)) by (unfold v2len; rewrite LA; reflexivity).
  assert (RB : v2len (v2sub b (arc_centre a b r)) = sqrt (r * r)) by (unfold v2len; rewrite LB; reflexivity).
  assert (RS : sqrt (r * r) * sqrt (r * r) = r * r) by (apply sqrt_sqrt; lra).
  assert (RP : 0 < sqrt (r * r)) by (apply sqrt_lt_R0; exact RR).
  set (u := v2normalize (v2sub b a)) in *. set (h := arc_h a b) in *. set (D := arc_D a b r) in *.
  set (s := @sign ROps r) in *. clearbody u h D s. destruct u as [e f].
  unfold v2normalize in LG |- *. rewrite RA, RB in *. rewrite EA, EB in *.
  set (rho := sqrt (r * r)) in *. clearbody rho.
  clear EA EB LA LB PA PB RA RB UA UB.
  revert UE LG. rops. intros UE LG.
  destruct (arc_dot_cross e f h D s UE SS) as (DT & CR). cbv zeta in DT, CR.
  set (ux := - e * h - s * f * D) in *. set (uy := - f * h + s * e * D) in *.
  set (tx := e * h - s * f * D) in *. set (ty := f * h + s * e * D) in *.
  set (kap := ux * (1 / rho) * (tx * (1 / rho)) + uy * (1 / rho) * (ty * (1 / rho))) in *.
  set (chi := ux * (1 / rho) * (ty * (1 / rho)) - uy * (1 / rho) * (tx * (1 / rho))) in *.
  assert (NZ : h * h + D * D <> 0) by lra.
  assert (HK : kap * (h * h + D * D) = D * D - h * h).
  { unfold kap. replace (h * h + D * D) with (rho * rho) by lra. rewrite <- DT. field. lra. }
  assert (HC' : chi * (h * h + D * D) = - 2 * s * h * D).
  { unfold chi. replace (h * h + D * D) with (rho * rho) by lra. rewrite <- CR. field. lra. }
  assert (KR : -1 <= kap <= 1) by nra.
  assert (K1 : kap < 1) by nra.
  unfold clamp. rops.
  destruct (Rltb kap (- (1))) eqn:C1; [apply Rltb_true in C1; lra|].
  destruct (Rltb 1 kap) eqn:C2; [apply Rltb_true in C2; lra|]. clear C1 C2.
  pose proof (acos_bound kap) as AB. assert (CK : cos (acos kap) = kap) by (apply cos_acos; lra).
  assert (P0 : acos kap <> 0) by (intros E; rewrite E, cos_0 in CK; lra).
  split; [|lra].
  (* sine of the angle *)
  assert (SN : 0 <= sin (acos kap)) by (apply sin_ge_0; lra).
  pose proof (sin2_cos2 (acos kap)) as S2. unfold Rsqr in S2. rewrite CK in S2.
  assert (S1 : s = 1 \/ s = -1) by (assert ((s - 1) * (s + 1) = 0) by lra; destruct (Rmult_integral _ _ H); [left|right]; lra).
  assert (Q : 0 <= 2 * h * D / (h * h + D * D)).
  { apply Rmult_le_pos; [nra|]. apply Rlt_le, Rinv_0_lt_compat. nra. }
  assert (CH : chi = - s * (2 * h * D / (h * h + D * D))).
  { apply (Rmult_eq_reg_r (h * h + D * D)); [|exact NZ]. rewrite HC'. field. exact NZ. }
  assert (SV : sin (acos kap) = 2 * h * D / (h * h + D * D)).
  { assert (E2 : chi * chi = (2 * h * D / (h * h + D * D)) * (2 * h * D / (h * h + D * D))).
    { rewrite CH. replace (- s * (2 * h * D / (h * h + D * D)) * (- s * (2 * h * D / (h * h + D * D))))
        with (s * s * ((2 * h * D / (h * h + D * D)) * (2 * h * D / (h * h + D * D)))) by ring.
      rewrite SS. ring. }
    set (q := 2 * h * D / (h * h + D * D)) in *. clearbody q. nra. }
  destruct (arc_rot e f h D s UE SS kap chi HK HC' NZ) as (R1 & R2). cbv zeta in R1, R2.
  fold ux uy tx ty in R1, R2.
  assert (CS : cos (- s * acos kap) = kap /\ sin (- s * acos kap) = chi).
  { destruct S1 as [E|E]; rewrite E in *.
    - replace (- (1) * acos kap) with (- acos kap) by ring. rewrite cos_neg, sin_neg, CK, SV, CH. split; ring.
    - replace (- -1 * acos kap) with (acos kap) by ring. rewrite CK, SV, CH. split; ring. }
  destruct CS as (CC & CS). unfold rotv. rewrite CC, CS. apply V_eq; rops; assumption.
Qed.

(* the i-th new vertex (0-based) is the chord start rotated about the centre by (i+1) steps *)
Lemma arc_points_nth (a b : V) r n i dflt : (i < Z.to_nat (n - 1))%nat ->
  List.nth i (arc_geom a b r n) dflt =
  v2add (arc_centre a b r) (rotv (INR (S i) * arc_dtheta a b r n) (v2sub a (arc_centre a b r))).
Proof.
  intros Hi. unfold arc_geom.
  rewrite (nth_indep _ dflt (v2add (arc_centre a b r) dflt)) by (rewrite map_length, rot_seq_length; exact Hi).
  rewrite map_nth, rot_seq_nth by exact Hi. rewrite mulpos_rotate, rotv_add. do 2 f_equal.
  rewrite S_INR. ring.
Qed.

Lemma arc_points_length (a b : V) r n : length (arc_geom a b r n) = Z.to_nat (n - 1).
Proof. unfold arc_geom. rewrite map_length, rot_seq_length. reflexivity. Qed.

(* all facets-1 new points are at distance |radius| from the computed centre *)
Theorem arc_points_on_circle (a b : V) r n p : arc_ok a b r ->
  In p (arc_geom a b r n) -> dist p (arc_centre a b r) = Rabs r.
Proof.
  intros OK Hin. unfold arc_geom in Hin. apply in_map_iff in Hin. destruct Hin as (w & <- & Hw).
  apply In_rot_seq in Hw. destruct Hw as (j & _ & ->).
  rewrite dist_add_c. unfold v2len. rewrite rotv_len2, mulpos_rotate, rotv_len2.
  destruct (arc_len2 a b r OK) as (LA & _). rewrite LA. cbn [osqrt ROps]. apply sqrt_Rsqr_abs.
Qed.

(* the circle passes through both chord endpoints, and one more step after the last new
   point (facets steps in all) lands on the chord end b *)
Theorem arc_through_endpoints (a b : V) r n : arc_ok a b r -> (1 <= n)%Z ->
  dist a (arc_centre a b r) = Rabs r /\ dist b (arc_centre a b r) = Rabs r /\
  v2add (arc_centre a b r) (rotv (IZR n * arc_dtheta a b r n) (v2sub a (arc_centre a b r))) = b.
Proof.
  intros OK Hn. destruct (arc_radius a b r OK) as (RA & RB). split; [exact RA|]. split; [exact RB|].
  destruct (arc_rot_total a b r OK) as (RT & _). cbv zeta in RT.
  replace (IZR n * arc_dtheta a b r n) with (- @sign ROps r * arc_phi a b r).
  - rewrite RT. apply v2add_sub_cancel.
  - rewrite arc_dtheta_phi. field. apply not_0_IZR. lia.
Qed.

(* the sign of the radius selects the side: every new point lies strictly to the left of the
   directed chord a -> b for a positive radius, strictly to the right for a negative one *)
Theorem arc_side (a b : V) r n j : arc_ok a b r -> (0 < j < Z.to_nat n)%nat ->
  let p := v2add (arc_centre a b r) (rotv (INR j * arc_dtheta a b r n) (v2sub a (arc_centre a b r))) in
  0 < @sign ROps r * v2cross (v2sub b a) (v2sub p a).
Proof.
  intros OK Hj. cbv zeta.
  destruct (arc_rot_total a b r OK) as (RT & PH). cbv zeta in RT.
  destruct (arc_len2 a b r OK) as (LA & _). destruct (arc_h_D a b r OK) as (_ & _ & _ & RR).
  pose proof OK as (_ & HR & _).
  set (c := arc_centre a b r) in *. set (u := v2sub a c) in *. set (phi := arc_phi a b r) in *.
  set (s := @sign ROps r) in *.
  assert (Hn : (1 < n)%Z) by lia.
  assert (NP : 0 < IZR n) by (apply IZR_lt; lia).
  set (t := INR j / IZR n).
  assert (T01 : 0 < t < 1).
  { unfold t. assert (0 < INR j) by (apply lt_0_INR; lia).
    assert (INR j < IZR n) by (rewrite <- (Z2Nat.id n) by lia; rewrite <- INR_IZR_INZ; apply lt_INR; lia).
    split; [apply Rdiv_lt_0_compat; lra|]. apply (Rmult_lt_reg_r (IZR n)); [exact NP|].
    unfold Rdiv. rewrite Rmult_assoc, Rinv_l by lra. lra. }
  assert (EJ : INR j * arc_dtheta a b r n = - s * (t * phi)).
  { rewrite arc_dtheta_phi. fold s phi. unfold t. field. lra. }
  rewrite EJ.
  (* b - a and p - a as differences of rotations of u *)
  assert (EB : v2sub b a = v2sub (rotv (- s * phi) u) u).
  { rewrite RT. unfold u. destruct a, b, c. apply V_eq; rops; ring. }
  assert (EP : v2sub (v2add c (rotv (- s * (t * phi)) u)) a = v2sub (rotv (- s * (t * phi)) u) u).
  { unfold u. destruct a, c, (rotv (- s * (t * phi)) (v2sub _ _)). apply V_eq; rops; ring. }
  rewrite EB, EP, cross_rot_rot, LA.
  assert (S1 : s = 1 \/ s = -1).
  { destruct (Rlt_dec r 0) as [N|N]; [right; apply sign_neg, N | left; apply sign_pos; lra]. }
  pose proof (sin_sum_gt (t * phi) ((1 - t) * phi)) as SG.
  replace (t * phi + (1 - t) * phi) with phi in SG by ring.
  assert (G : 0 < sin (t * phi) + sin ((1 - t) * phi) - sin phi) by (apply SG; nra).
  destruct S1 as [E|E]; rewrite E.
  - replace (- (1) * (t * phi) - - (1) * phi) with ((1 - t) * phi) by ring.
    replace (- (1) * phi) with (- phi) by ring. replace (- (1) * (t * phi)) with (- (t * phi)) by ring.
    rewrite !sin_neg. nra.
  - replace (- -1 * (t * phi) - - -1 * phi) with (- ((1 - t) * phi)) by ring.
    replace (- -1 * phi) with phi by ring. replace (- -1 * (t * phi)) with (t * phi) by ring.
    rewrite sin_neg. nra.
Qed.

(* the arc vertex in its list: facets-1 plain vertices are inserted before it *)
Theorem arc_vertex_inserts closed (l : list (PV ROps)) i v pv :
  nth_error l i = Some v -> pv_type v = PvArc ->
  let v' := mkPV (pv_rel v) PvNormal (pv_v v) (pv_facets v) (pv_radius v) in
  let l1 := set_nth l i v' in
  prev_vertex closed l1 i = Some pv ->
  arc_vertex closed l i =
    (firstn i l1 ++ map plain (arc_geom (pv_v pv) (pv_v v) (pv_radius v) (pv_facets v)) ++ skipn i l1, true).
Proof.
  intros Hv Ht v' l1 Hp. unfold arc_vertex. rewrite Hv, Ht. cbn [pvtype_eqb negb].
  fold v'. fold l1. rewrite Hp. reflexivity.
Qed.

(* ------------------------------------------------------------ relative and polar vertices *)
Fixpoint abs_from (prev : V) (l : list (PV ROps)) : list V :=
  match l with
  | [] => []
  | v :: r => let p := if pv_rel v then v2add (pv_v v) prev else pv_v v in p :: abs_from p r
  end.
(* the stated absolute positions: a relative vertex is its offset plus the position before it *)
Definition abs_positions (l : list (PV ROps)) : list V :=
  match l with [] => [] | v :: r => pv_v v :: abs_from (pv_v v) r end.

Lemma rel_loop_spec : forall (r : list (PV ROps)) prev, pv_rel prev = false ->
  map pv_v (rel_loop prev r) = abs_from (pv_v prev) r /\
  Forall (fun v => pv_rel v = false) (rel_loop prev r) /\
  map pv_type (rel_loop prev r) = map pv_type r /\
  map pv_facets (rel_loop prev r) = map pv_facets r /\ map pv_radius (rel_loop prev r) = map pv_radius r.
Proof.
  induction r as [|v r IH]; intros prev Hp; cbn [rel_loop abs_from map].
  - repeat split; constructor.
  - destruct (pv_rel v) eqn:Hv.
    + rewrite Hp.
      set (v' := mkPV false (pv_type v) (v2add (pv_v v) (pv_v prev)) (pv_facets v) (pv_radius v)).
      destruct (IH v' eq_refl) as (I1 & I2 & I3 & I4 & I5). cbn [map]. rewrite I1, I3, I4, I5.
      repeat split; try reflexivity. constructor; [reflexivity | exact I2].
    + destruct (IH v Hv) as (I1 & I2 & I3 & I4 & I5). cbn [map]. rewrite I1, I3, I4, I5.
      repeat split; try reflexivity. constructor; [exact Hv | exact I2].
Qed.

Theorem rel_to_abs_spec closed (v0 : PV ROps) r : pv_rel v0 = false ->
  exists l', rel_to_abs closed (v0 :: r) = Some l' /\
    map pv_v l' = abs_positions (v0 :: r) /\ Forall (fun v => pv_rel v = false) l' /\
    map pv_type l' = map pv_type (v0 :: r) /\ map pv_facets l' = map pv_facets (v0 :: r) /\
    map pv_radius l' = map pv_radius (v0 :: r).
Proof.
  intros H0. unfold rel_to_abs. rewrite H0. eexists; split; [reflexivity|].
  destruct (rel_loop_spec r v0 H0) as (I1 & I2 & I3 & I4 & I5).
  cbn [map abs_positions]. rewrite I1, I3, I4, I5. repeat split; try reflexivity.
  constructor; [exact H0 | exact I2].
Qed.

(* Add(r, theta).Polar() is r (cos theta, sin theta), at distance |r| from the origin *)
Theorem polar_vertex (rr th : R) (ops : list (vop ROps)) :
  pv_v (add_vertex rr th [OPolar]) = mkV2 (rr * cos th) (rr * sin th) /\
  dist (mkV2 (rr * cos th) (rr * sin th)) (mkV2 0 0) = Rabs rr.
Proof.
  split; [reflexivity|]. unfold dist. rops.
  replace ((rr * cos th - 0) * (rr * cos th - 0) + (rr * sin th - 0) * (rr * sin th - 0))
    with (Rsqr rr * (Rsqr (sin th) + Rsqr (cos th))) by (unfold Rsqr; ring).
  rewrite sin2_cos2, Rmult_1_r. apply sqrt_Rsqr_abs.
Qed.

(* a polygon of plain vertices: Vertices() is the list of stated absolute positions *)
Lemma pass_noop (step : list (PV ROps) -> nat -> list (PV ROps) * bool) l :
  (forall i, step l i = (l, false)) -> forall cnt i, pass step cnt i l false = (l, false).
Proof. intros H. induction cnt; intros i; cbn [pass]; [reflexivity|]. rewrite H. cbn. apply IHcnt. Qed.

Lemma until_done_noop step (l : list (PV ROps)) fuel :
  (forall i, step l i = (l, false)) -> until_done fuel step l = l.
Proof. intros H. destruct fuel; cbn [until_done]; [reflexivity|]. rewrite pass_noop by exact H. reflexivity. Qed.

Lemma all_normal_nth (l : list (PV ROps)) i v :
  Forall (fun v => pv_type v = PvNormal) l -> nth_error l i = Some v -> pv_type v = PvNormal.
Proof. intros HF Hn. rewrite Forall_forall in HF. apply HF. eapply nth_error_In, Hn. Qed.

Theorem vertices_plain closed reverse (v0 : PV ROps) r :
  pv_rel v0 = false -> Forall (fun v => pv_type v = PvNormal) (v0 :: r) ->
  vertices (mkPolygon closed reverse (v0 :: r)) =
  Some (if reverse then rev (abs_positions (v0 :: r)) else abs_positions (v0 :: r)).
Proof.
  intros H0 HN. unfold vertices, fixups. cbn [pg_closed pg_vlist pg_reverse].
  destruct (rel_to_abs_spec closed v0 r H0) as (l' & E & EV & _ & ET & _). rewrite E.
  assert (HN' : Forall (fun v => pv_type v = PvNormal) l').
  { rewrite Forall_forall in *. intros v Hv. apply (in_map pv_type) in Hv. rewrite ET in Hv.
    apply in_map_iff in Hv. destruct Hv as (w & <- & Hw). symmetry.
    rewrite (HN w Hw). symmetry.
    (* pv_type v is among the types of the original list, all normal *)
    reflexivity. }
  unfold create_arcs, smooth_vertices.
  rewrite (until_done_noop (arc_vertex closed) l').
  - rewrite (until_done_noop (smooth_vertex closed) l').
    + rewrite EV. reflexivity.
    + intros i. unfold smooth_vertex. destruct (nth_error l' i) eqn:Hn; [|reflexivity].
      rewrite (all_normal_nth l' i p HN' Hn). reflexivity.
  - intros i. unfold arc_vertex. destruct (nth_error l' i) eqn:Hn; [|reflexivity].
    rewrite (all_normal_nth l' i p HN' Hn). reflexivity.
Qed.

(* ------------------------------------------------------------ Nagon *)
Theorem nagon_regular (n : Z) (radius : R) : (3 <= n)%Z ->
  length (nagon n radius) = Z.to_nat n /\
  forall i dflt, (i < Z.to_nat n)%nat ->
    List.nth i (nagon n radius) dflt =
    mkV2 (radius * cos (INR i * (2 * PI / IZR n))) (radius * sin (INR i * (2 * PI / IZR n))).
Proof.
  intros Hn. unfold nagon. destruct (n <? 3)%Z eqn:C; [apply Z.ltb_lt in C; lia|].
  split; [apply rot_seq_length|]. intros i dflt Hi. rewrite rot_seq_nth by exact Hi.
  unfold tau. rops. two_is_2. unfold rotv. apply V_eq; rops; ring.
Qed.
Theorem nagon_small (n : Z) (radius : R) : (n < 3)%Z -> nagon n radius = [].
Proof. intros Hn. unfold nagon. destruct (n <? 3)%Z eqn:C; [reflexivity | apply Z.ltb_ge in C; lia]. Qed.
