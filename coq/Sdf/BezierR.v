(* Proofs over the reals about Sdf/Bezier.v (sdf/bezier.go): polynomial coefficients,
   end points, sampling order for every outcome of the random perturbation, straight spans,
   closure. *)
From Coq Require Import Reals Lra Lia List Bool ZArith Psatz Sorted.
From Sdfx Require Import Num.Ops.
From Sdfx Require Import Num.RInst.
From Sdfx Require Import Geo.Vec.
From Sdfx Require Import Sdf.Build.
From Sdfx Require Import Sdf.Bezier.
Import ListNotations.
Open Scope R_scope.

Notation V := (V2 ROps).

Ltac rops := cbv [ROps T oadd osub omul odiv oneg oabs osqrt o0 o1 ofZ osin ocos otan oatan oacos
                  opi omax omin oltb oleb oeqb two half cst sq k3 k4 k6 k12
                  v2add v2sub v2muls v2dot v2cross v2len2 v2len v2normalize vx vy] in *.

(* ------------------------------------------------------------ de Casteljau / Bernstein *)
Fixpoint dc_step (t : R) (l : list R) : list R :=
  match l with
  | a :: (b :: _) as r => ((1 - t) * a + t * b) :: dc_step t r
  | _ => []
  end.
Fixpoint de_casteljau (fuel : nat) (t : R) (l : list R) : R :=
  match fuel with
  | O => List.hd 0 l
  | S f => match l with
           | [] => 0
           | [a] => a
           | _ => de_casteljau f t (dc_step t l)
           end
  end.
Definition bezier_point (x : list R) (t : R) : R := de_casteljau (length x) t x.

(* the Bernstein form, degrees 1..4 *)
Definition bernstein (x : list R) (t : R) : R :=
  let u := 1 - t in
  match x with
  | [x0; x1] => u * x0 + t * x1
  | [x0; x1; x2] => u * u * x0 + 2 * u * t * x1 + t * t * x2
  | [x0; x1; x2; x3] => u * u * u * x0 + 3 * u * u * t * x1 + 3 * u * t * t * x2 + t * t * t * x3
  | [x0; x1; x2; x3; x4] =>
      u * u * u * u * x0 + 4 * u * u * u * t * x1 + 6 * u * u * t * t * x2 + 4 * u * t * t * t * x3 + t * t * t * t * x4
  | _ => 0
  end.

(* the monomial coefficients Set computes are those of the Bernstein / de Casteljau form *)
Theorem poly_coeffs_are_bernstein (x : list R) (p : BPoly ROps) : (2 <= length x <= 5)%nat ->
  bp_raw x = Some p ->
  bp_n p = (length x - 1)%nat /\
  forall t, bp_f0 p t = bernstein x t /\ bp_f0 p t = bezier_point x t.
Proof.
  intros HL HP.
  destruct x as [|x0 [|x1 [|x2 [|x3 [|x4 [|x5 r]]]]]]; cbn in HL; try lia;
    cbn in HP; injection HP as <-; (split; [reflexivity|]); intros t;
    unfold bp_f0, bernstein, bezier_point; cbn; rops; split; ring.
Qed.

(* f(0) and f(1) of the computed polynomial are the first and last control values *)
Theorem raw_endpoints (x : list R) (p : BPoly ROps) : (1 <= length x <= 5)%nat ->
  bp_raw x = Some p -> bp_f0 p 0 = List.hd 0 x /\ bp_f0 p 1 = List.last x 0.
Proof.
  intros HL HP.
  destruct x as [|x0 [|x1 [|x2 [|x3 [|x4 [|x5 r]]]]]]; cbn in HL; try lia;
    cbn in HP; injection HP as <-; unfold bp_f0; cbn; rops; split; ring.
Qed.

(* ------------------------------------------------------------ zeroing of small coefficients *)
Lemma zero_small_cases (x y eps : R) :
  @zero_small ROps x y eps = x \/ (@zero_small ROps x y eps = 0 /\ Rabs x / y < eps).
Proof.
  unfold zero_small. rops. destruct (Rltb (Rabs x / y) eps) eqn:C.
  - right. apply Rltb_true in C. split; [reflexivity | exact C].
  - left. reflexivity.
Qed.

Lemma zero_small_close (x y eps : R) : Rabs x <= y -> 0 <= eps ->
  Rabs (@zero_small ROps x y eps - x) <= eps * y.
Proof.
  intros Hx He. pose proof (Rabs_pos x) as P.
  destruct (zero_small_cases x y eps) as [E|[E Hs]]; rewrite E.
  - replace (x - x) with 0 by ring. rewrite Rabs_R0. nra.
  - replace (0 - x) with (- x) by ring. rewrite Rabs_Ropp.
    destruct (Req_dec y 0) as [Y0|Y0].
    + assert (Rabs x = 0) by lra. nra.
    + assert (YP : 0 < y) by lra. apply Rlt_le.
      apply (Rmult_lt_compat_r y) in Hs; [|exact YP].
      unfold Rdiv in Hs. rewrite Rmult_assoc, Rinv_l, Rmult_1_r in Hs by exact Y0. exact Hs.
Qed.

(* lowering the order never changes a value: only zero leading coefficients are dropped *)
Lemma reduce_same_value (p : BPoly ROps) t : (bp_n p <= 4)%nat -> bp_f0 (bp_reduce p) t = bp_f0 p t.
Proof.
  intros Hn. destruct p as [n a b c d e]. cbn [bp_n] in Hn. unfold bp_reduce, is0. cbn [bp_n bp_a bp_b bp_c bp_d bp_e].
  cbn [oeqb o0 ROps].
  destruct n as [|[|[|[|[|n]]]]]; try lia; cbn [Nat.eqb andb];
  repeat match goal with
  | |- context [Reqb ?x 0] => let H := fresh "C" in destruct (Reqb x 0) eqn:H; [apply Reqb_true in H; subst | clear H]
  end; cbn [Nat.eqb andb]; unfold bp_f0; cbn [bp_n bp_a bp_b bp_c bp_d bp_e]; rops; try ring;
  repeat match goal with
  | |- context [Reqb ?x 0] => let H := fresh "C" in destruct (Reqb x 0) eqn:H; [apply Reqb_true in H; subst | clear H]
  end; cbn [Nat.eqb andb]; rops; ring.
Qed.

Lemma horner_bound (a x t : R) : 0 <= t <= 1 -> Rabs (a + t * x) <= Rabs a + Rabs x.
Proof.
  intros Ht. eapply Rle_trans; [apply Rabs_triang|]. rewrite Rabs_mult, (Rabs_right t) by lra.
  pose proof (Rabs_pos x). nra.
Qed.

Lemma eps_nonneg : 0 <= @epsilon ROps.
Proof. unfold epsilon. rops. apply Rlt_le, Rdiv_lt_0_compat; lra. Qed.

(* zeroing moves every value on [0,1] by at most 5 * 1e-12 * (sum of |coefficients|) *)
Theorem zeroing_close (p : BPoly ROps) t : 0 <= t <= 1 ->
  Rabs (bp_f0 (bp_zero p) t - bp_f0 p t) <= 5 * (@epsilon ROps * bp_sum p).
Proof.
  intros Ht. destruct p as [n a b c d e]. unfold bp_zero. cbn [bp_n bp_a bp_b bp_c bp_d bp_e].
  set (S := bp_sum _). set (eps := @epsilon ROps).
  assert (HS : S = Rabs a + Rabs b + Rabs c + Rabs d + Rabs e) by reflexivity.
  pose proof (Rabs_pos a). pose proof (Rabs_pos b). pose proof (Rabs_pos c). pose proof (Rabs_pos d). pose proof (Rabs_pos e).
  pose proof eps_nonneg as HE. fold eps in HE.
  assert (Da : Rabs (zero_small a S eps - a) <= eps * S) by (apply zero_small_close; lra).
  assert (Db : Rabs (zero_small b S eps - b) <= eps * S) by (apply zero_small_close; lra).
  assert (Dc : Rabs (zero_small c S eps - c) <= eps * S) by (apply zero_small_close; lra).
  assert (Dd : Rabs (zero_small d S eps - d) <= eps * S) by (apply zero_small_close; lra).
  assert (De : Rabs (zero_small e S eps - e) <= eps * S) by (apply zero_small_close; lra).
  set (a' := zero_small a S eps) in *. set (b' := zero_small b S eps) in *. set (c' := zero_small c S eps) in *.
  set (d' := zero_small d S eps) in *. set (e' := zero_small e S eps) in *.
  clearbody a' b' c' d' e' S eps.
  assert (ES : 0 <= eps * S) by nra.
  unfold bp_f0. cbn [bp_n bp_a bp_b bp_c bp_d bp_e]. rops.
  destruct n as [|[|[|[|n]]]].
  - lra.
  - replace (a' + t * b' - (a + t * b)) with ((a' - a) + t * (b' - b)) by ring.
    eapply Rle_trans; [apply horner_bound, Ht|]. lra.
  - replace (a' + t * (b' + t * c') - (a + t * (b + t * c))) with ((a' - a) + t * ((b' - b) + t * (c' - c))) by ring.
    eapply Rle_trans; [apply horner_bound, Ht|].
    pose proof (horner_bound (b' - b) (c' - c) t Ht). lra.
  - replace (a' + t * (b' + t * (c' + t * d')) - (a + t * (b + t * (c + t * d))))
      with ((a' - a) + t * ((b' - b) + t * ((c' - c) + t * (d' - d)))) by ring.
    eapply Rle_trans; [apply horner_bound, Ht|].
    pose proof (horner_bound (b' - b) ((c' - c) + t * (d' - d)) t Ht).
    pose proof (horner_bound (c' - c) (d' - d) t Ht). lra.
  - replace (a' + t * (b' + t * (c' + t * (d' + t * e'))) - (a + t * (b + t * (c + t * (d + t * e)))))
      with ((a' - a) + t * ((b' - b) + t * ((c' - c) + t * ((d' - d) + t * (e' - e))))) by ring.
    eapply Rle_trans; [apply horner_bound, Ht|].
    pose proof (horner_bound (b' - b) ((c' - c) + t * ((d' - d) + t * (e' - e))) t Ht).
    pose proof (horner_bound (c' - c) ((d' - d) + t * (e' - e)) t Ht).
    pose proof (horner_bound (d' - d) (e' - e) t Ht). lra.
Qed.

Lemma raw_order (x : list R) (p : BPoly ROps) : bp_raw x = Some p -> (bp_n p <= 4)%nat.
Proof.
  intros HP. destruct x as [|x0 [|x1 [|x2 [|x3 [|x4 [|x5 r]]]]]]; cbn in HP; try discriminate;
    injection HP as <-; cbn; lia.
Qed.

(* Set(x): the polynomial the sampler evaluates is the Bezier curve of the control values up to
   the zeroing threshold, and exactly when no coefficient is zeroed *)
Theorem set_close_to_bezier (x : list R) (p q : BPoly ROps) t : (2 <= length x <= 5)%nat ->
  bp_raw x = Some p -> bp_set x = Some q -> 0 <= t <= 1 ->
  Rabs (bp_f0 q t - bezier_point x t) <= 5 * (@epsilon ROps * bp_sum p).
Proof.
  intros HL HP HQ Ht. unfold bp_set in HQ. rewrite HP in HQ. injection HQ as <-.
  rewrite reduce_same_value by (unfold bp_zero; cbn [bp_n]; apply (raw_order x), HP).
  destruct (poly_coeffs_are_bernstein x p HL HP) as (_ & HB). destruct (HB t) as (_ & <-).
  apply zeroing_close, Ht.
Qed.

Theorem set_exact_when_nothing_zeroed (x : list R) (p q : BPoly ROps) : (2 <= length x <= 5)%nat ->
  bp_raw x = Some p -> bp_zero p = p -> bp_set x = Some q ->
  (forall t, bp_f0 q t = bezier_point x t /\ bp_f0 q t = bernstein x t) /\
  bp_f0 q 0 = List.hd 0 x /\ bp_f0 q 1 = List.last x 0.
Proof.
  intros HL HP HZ HQ. unfold bp_set in HQ. rewrite HP, HZ in HQ. injection HQ as <-.
  pose proof (raw_order x p HP) as HO.
  destruct (poly_coeffs_are_bernstein x p HL HP) as (_ & HB).
  destruct (raw_endpoints x p ltac:(lia) HP) as (E0 & E1).
  split; [|split]; [intros t | |]; rewrite !reduce_same_value by exact HO; try assumption.
  destruct (HB t) as (B1 & B2). split; assumption.
Qed.

(* ------------------------------------------------------------ Sample: parameters of the vertices *)
Definition emit_ts (t0 t1 : R) : list R := (if Reqb t0 0 then [t0] else []) ++ [t1].
(* the same recursion as [sample], recording the parameter of every appended vertex *)
Fixpoint sample_ts (d : nat) (s : Spline ROps) (t0 t1 : R) (p0 p1 : V) (rs : list R) : list R * list R :=
  let '(flat, rs1) := flat_test s t0 t1 p0 p1 rs in
  if flat then (emit_ts t0 t1, rs1) else
  match d with
  | O => (emit_ts t0 t1, rs1)
  | S d' =>
    let tmid := odiv ROps (oadd ROps t0 t1) two in
    let pmid := sp_f0 s tmid in
    let '(l1, rs2) := sample_ts d' s t0 tmid p0 pmid rs1 in
    let '(l2, rs3) := sample_ts d' s tmid t1 pmid p1 rs2 in
    (l1 ++ l2, rs3)
  end.

Lemma emit_map (s : Spline ROps) t0 t1 : emit t0 (sp_f0 s t0) (sp_f0 s t1) = map (sp_f0 s) (emit_ts t0 t1).
Proof. unfold emit, emit_ts. cbn [oeqb o0 ROps]. destruct (Reqb t0 0); reflexivity. Qed.

(* every vertex Sample appends is the curve point f0 at the recorded parameter *)
Lemma sample_map : forall d (s : Spline ROps) t0 t1 rs,
  sample d s t0 t1 (sp_f0 s t0) (sp_f0 s t1) rs =
  (map (sp_f0 s) (fst (sample_ts d s t0 t1 (sp_f0 s t0) (sp_f0 s t1) rs)),
   snd (sample_ts d s t0 t1 (sp_f0 s t0) (sp_f0 s t1) rs)).
Proof.
  induction d as [|d IH]; intros s t0 t1 rs; cbn [sample sample_ts];
    destruct (flat_test s t0 t1 (sp_f0 s t0) (sp_f0 s t1) rs) as [flat rs1]; destruct flat;
    cbn [fst snd]; try (rewrite emit_map; reflexivity).
  set (tmid := odiv ROps (oadd ROps t0 t1) two).
  rewrite (IH s t0 tmid rs1).
  destruct (sample_ts d s t0 tmid (sp_f0 s t0) (sp_f0 s tmid) rs1) as [l1 rs2]. cbn [fst snd].
  rewrite (IH s tmid t1 rs2).
  destruct (sample_ts d s tmid t1 (sp_f0 s tmid) (sp_f0 s t1) rs2) as [l2 rs3]. cbn [fst snd].
  rewrite map_app. reflexivity.
Qed.

Lemma sorted_app (l1 l2 : list R) : StronglySorted Rlt l1 -> StronglySorted Rlt l2 ->
  (forall a b, In a l1 -> In b l2 -> a < b) -> StronglySorted Rlt (l1 ++ l2).
Proof.
  induction l1 as [|a l1 IH]; intros S1 S2 H; cbn [app]; [exact S2|].
  inversion S1 as [|? ? S1' F1]; subst. constructor.
  - apply IH; [exact S1' | exact S2 |]. intros x y Hx Hy. apply H; [right; exact Hx | exact Hy].
  - apply Forall_app. split; [exact F1|]. rewrite Forall_forall. intros y Hy. apply H; [left; reflexivity | exact Hy].
Qed.

Lemma last_app {A} (l1 l2 : list A) d : l2 <> [] -> List.last (l1 ++ l2) d = List.last l2 d.
Proof.
  intros N. induction l1 as [|a l1 IH]; [reflexivity|]. cbn [app].
  change (List.last (a :: l1 ++ l2) d) with (match l1 ++ l2 with [] => a | _ :: _ => List.last (l1 ++ l2) d end).
  destruct (l1 ++ l2) eqn:E; [apply app_eq_nil in E; destruct E; contradiction | exact IH].
Qed.

Definition ts_ok (t0 t1 : R) (l : list R) : Prop :=
  l <> [] /\ StronglySorted Rlt l /\
  (forall x, In x l -> t0 <= x <= t1 /\ (x = t0 -> t0 = 0)) /\
  List.last l 0 = t1 /\ (t0 = 0 -> List.hd 1 l = 0).

Lemma emit_ts_ok t0 t1 : 0 <= t0 < t1 -> ts_ok t0 t1 (emit_ts t0 t1).
Proof.
  intros H. unfold ts_ok, emit_ts. destruct (Reqb t0 0) eqn:C; [apply Reqb_true in C | apply Reqb_false in C]; cbn [app].
  - split; [discriminate|]. split.
    { constructor; [constructor; constructor|]. constructor; [lra | constructor]. }
    split. { intros x [<-|[<-|[]]]; split; try lra; intros; lra. }
    split; [reflexivity | intros; cbn; lra].
  - split; [discriminate|]. split. { constructor; constructor. }
    split. { intros x [<-|[]]. split; [lra | intros; lra]. }
    split; [reflexivity | intros; lra].
Qed.

Lemma sample_ts_ok : forall d (s : Spline ROps) t0 t1 p0 p1 rs, 0 <= t0 < t1 ->
  ts_ok t0 t1 (fst (sample_ts d s t0 t1 p0 p1 rs)).
Proof.
  induction d as [|d IH]; intros s t0 t1 p0 p1 rs H; cbn [sample_ts];
    destruct (flat_test s t0 t1 p0 p1 rs) as [flat rs1]; destruct flat; cbn [fst];
    try (apply emit_ts_ok, H).
  set (tmid := odiv ROps (oadd ROps t0 t1) two).
  assert (HM : t0 < tmid < t1) by (unfold tmid; rops; lra).
  pose proof (IH s t0 tmid p0 (sp_f0 s tmid) rs1 ltac:(lra)) as K1.
  destruct (sample_ts d s t0 tmid p0 (sp_f0 s tmid) rs1) as [l1 rs2]. cbn [fst] in K1.
  pose proof (IH s tmid t1 (sp_f0 s tmid) p1 rs2 ltac:(lra)) as K2.
  destruct (sample_ts d s tmid t1 (sp_f0 s tmid) p1 rs2) as [l2 rs3]. cbn [fst] in K2 |- *.
  destruct K1 as (N1 & S1 & B1 & L1 & H1). destruct K2 as (N2 & S2 & B2 & L2 & H2).
  unfold ts_ok. split; [destruct l1; [contradiction | discriminate]|].
  split.
  { apply sorted_app; [exact S1 | exact S2 |]. intros a b Ha Hb.
    destruct (B1 a Ha) as (A1 & _). destruct (B2 b Hb) as (A2 & A3).
    destruct (Req_dec b tmid) as [E|E]; [specialize (A3 E); lra | lra]. }
  split.
  { intros x Hx. apply in_app_or in Hx. destruct Hx as [Hx|Hx].
    - destruct (B1 x Hx) as (A1 & A2). split; [lra | exact A2].
    - destruct (B2 x Hx) as (A1 & A2). split; [lra | intros; lra]. }
  split.
  { rewrite last_app by exact N2. exact L2. }
  intros E. destruct l1 as [|a l1]; [contradiction|]. cbn [app List.hd]. apply H1, E.
Qed.

(* Every vertex the sampler emits for a spline is the curve point f0(t) of a strictly increasing
   sequence of parameters that starts at 0 and ends at 1 - for ANY outcome rs of the random
   perturbation and any recursion depth. *)
Theorem sample_on_curve_increasing (d : nat) (s : Spline ROps) (rs : list R) :
  exists ts : list R,
    fst (sample d s 0 1 (sp_f0 s 0) (sp_f0 s 1) rs) = map (sp_f0 s) ts /\
    StronglySorted Rlt ts /\ (forall t, In t ts -> 0 <= t <= 1) /\
    List.hd 1 ts = 0 /\ List.last ts 0 = 1 /\ (2 <= length ts)%nat.
Proof.
  exists (fst (sample_ts d s 0 1 (sp_f0 s 0) (sp_f0 s 1) rs)).
  rewrite sample_map. cbn [fst]. split; [reflexivity|].
  destruct (sample_ts_ok d s 0 1 (sp_f0 s 0) (sp_f0 s 1) rs ltac:(lra)) as (N & S & B & L & H).
  split; [exact S|]. split; [intros t Ht; apply B, Ht|]. split; [apply H; reflexivity|]. split; [exact L|].
  specialize (H eq_refl).
  destruct (fst (sample_ts d s 0 1 (sp_f0 s 0) (sp_f0 s 1) rs)) as [|a [|b l]]; [contradiction | | cbn; lia].
  cbn in H, L. lra.
Qed.

(* ------------------------------------------------------------ straight spans *)
Lemma linear_colinear (s : Spline ROps) t : (bp_n (sp_x s) <= 1)%nat -> (bp_n (sp_y s) <= 1)%nat ->
  0 < sp_tol s -> colinear_slow (sp_f0 s t) (sp_f0 s 0) (sp_f0 s 1) (sp_tol s) = true.
Proof.
  intros Hx Hy Ht. destruct s as [tol [nx ax bx cx dx ex] [ny ay by_ cy dy ey]].
  cbn [sp_x sp_y sp_tol bp_n] in *. unfold colinear_slow, sp_f0, bp_f0. cbn [sp_x sp_y sp_tol bp_n bp_a bp_b bp_c bp_d bp_e].
  apply Rltb_true.
  destruct nx as [|[|nx]]; try lia; destruct ny as [|[|ny]]; try lia; rops;
  match goal with |- Rabs ?e < _ =>
    repeat match goal with |- context [sqrt ?q] => let k := fresh "k" in set (k := sqrt q); clearbody k end;
    match goal with |- Rabs ?e < _ => replace e with 0 by ring end
  end; rewrite Rabs_R0; exact Ht.
Qed.

(* a span whose polynomials are of order <= 1 is reproduced by exactly its two end points,
   whatever the random draws and the recursion depth *)
Theorem degree1_exact (d : nat) (s : Spline ROps) (rs : list R) :
  (bp_n (sp_x s) <= 1)%nat -> (bp_n (sp_y s) <= 1)%nat -> 0 < sp_tol s ->
  fst (sample d s 0 1 (sp_f0 s 0) (sp_f0 s 1) rs) = [sp_f0 s 0; sp_f0 s 1].
Proof.
  intros Hx Hy Ht.
  assert (F : fst (flat_test s 0 1 (sp_f0 s 0) (sp_f0 s 1) rs) = true).
  { unfold flat_test. rewrite linear_colinear by assumption.
    destruct (draw rs) as [r rs']. cbn [fst]. apply linear_colinear; assumption. }
  destruct d; cbn [sample]; destruct (flat_test s 0 1 (sp_f0 s 0) (sp_f0 s 1) rs) as [flat rs1];
    cbn [fst] in F; subst flat; cbn [fst]; unfold emit; cbn [oeqb o0 ROps];
    destruct (Reqb_true 0 0) as [_ E]; rewrite (E eq_refl); reflexivity.
Qed.

(* ------------------------------------------------------------ the polyline of a list of splines *)
Lemma ends_shape (l : list R) : (2 <= length l)%nat -> List.hd 1 l = 0 -> List.last l 0 = 1 ->
  exists m, l = 0 :: m ++ [1].
Proof.
  intros HL HH HT. destruct l as [|a l]; [cbn in HL; lia|]. cbn in HH. subst a.
  destruct l as [|b l]; [cbn in HL; lia|].
  assert (N : b :: l <> []) by discriminate.
  destruct (exists_last N) as (m & z & E). rewrite E in *. exists m.
  change (0 :: m ++ [z]) with ((0 :: m) ++ [z]) in HT. rewrite last_app in HT by discriminate.
  cbn in HT. subst z. reflexivity.
Qed.

Lemma sample01_shape (s : Spline ROps) rs :
  exists mid, fst (sample01 s rs) = sp_f0 s 0 :: mid ++ [sp_f0 s 1].
Proof.
  unfold sample01. destruct (sample_on_curve_increasing max_depth s rs) as (ts & E & _ & _ & H0 & H1 & HL).
  change (o0 ROps) with 0. change (o1 ROps) with 1. rewrite E.
  destruct (ends_shape ts HL H0 H1) as (m & ->). exists (map (sp_f0 s) m).
  cbn [map]. rewrite map_app. reflexivity.
Qed.

Fixpoint render_pts (ss : list (Spline ROps)) (rs : list R) : list V :=
  match ss with
  | [] => []
  | s :: r =>
    let '(vs, rs') := sample01 s rs in
    match r with [] => vs | _ => removelast vs ++ render_pts r rs' end
  end.

Lemma render_eq : forall (ss : list (Spline ROps)) p rs, fst (render ss p rs) = p ++ render_pts ss rs.
Proof.
  induction ss as [|s r IH]; intros p rs; cbn [render render_pts]; [cbn; now rewrite app_nil_r|].
  pose proof (sample01_shape s rs) as (mid & E).
  destruct (sample01 s rs) as [vs rs']. cbn [fst] in E.
  destruct r as [|s2 r]; [reflexivity|].
  rewrite IH. rewrite removelast_app by (rewrite E; discriminate). rewrite app_assoc. reflexivity.
Qed.

(* the polyline starts at f(0) of the first curve and ends at f(1) of the last one; each inner
   junction keeps the f(0) of the following curve (the f(1) before it is dropped) *)
Theorem polyline_endpoints : forall (ss : list (Spline ROps)) rs s0, ss <> [] ->
  List.hd (sp_f0 s0 0) (render_pts ss rs) = sp_f0 (List.hd s0 ss) 0 /\
  List.last (render_pts ss rs) (sp_f0 s0 0) = sp_f0 (List.last ss s0) 1.
Proof.
  induction ss as [|s r IH]; intros rs s0 N; [contradiction|]. cbn [render_pts].
  pose proof (sample01_shape s rs) as (mid & E).
  destruct (sample01 s rs) as [vs rs']. cbn [fst] in E. subst vs.
  destruct r as [|s2 r].
  - cbn [List.hd]. split; [reflexivity|].
    change (sp_f0 s 0 :: mid ++ [sp_f0 s 1]) with ((sp_f0 s 0 :: mid) ++ [sp_f0 s 1]).
    rewrite last_app by discriminate. reflexivity.
  - change (sp_f0 s 0 :: mid ++ [sp_f0 s 1]) with ((sp_f0 s 0 :: mid) ++ [sp_f0 s 1]).
    rewrite removelast_last. cbn [app List.hd]. split; [reflexivity|].
    destruct (IH rs' s0 ltac:(discriminate)) as (_ & L).
    change ((sp_f0 s 0 :: mid) ++ render_pts (s2 :: r) rs') with ((sp_f0 s 0 :: mid) ++ render_pts (s2 :: r) rs').
    assert (NE : render_pts (s2 :: r) rs' <> []).
    { cbn [render_pts]. pose proof (sample01_shape s2 rs') as (m2 & E2).
      destruct (sample01 s2 rs') as [vs2 rs2]. cbn [fst] in E2. subst vs2.
      destruct r; [discriminate|].
      change (sp_f0 s2 0 :: m2 ++ [sp_f0 s2 1]) with ((sp_f0 s2 0 :: m2) ++ [sp_f0 s2 1]).
      rewrite removelast_last. discriminate. }
    change (sp_f0 s 0 :: mid ++ render_pts (s2 :: r) rs') with ((sp_f0 s 0 :: mid) ++ render_pts (s2 :: r) rs').
    rewrite last_app by exact NE. rewrite L. reflexivity.
Qed.

(* ------------------------------------------------------------ closure *)
Lemma tol_nonneg : 0 <= @tolerance ROps.
Proof. unfold tolerance. rops. apply Rlt_le, Rdiv_lt_0_compat; lra. Qed.

Lemma v2equals_refl (a : V) : v2equals a a tolerance = true.
Proof.
  unfold v2equals. pose proof tol_nonneg as HT. destruct a as [x y]. cbn [vx vy]. cbn [oleb oabs osub ROps].
  replace (x - x) with 0 by ring. replace (y - y) with 0 by ring. rewrite Rabs_R0.
  destruct (Rleb_true 0 (@tolerance ROps)) as [_ E]. rewrite (E HT). reflexivity.
Qed.

(* after closure() of a closed curve the control list starts with an end point and ends with an
   end point at the same position (the first vertex itself when it had to be appended, otherwise
   one within the 1e-9 tolerance of it) *)
Theorem closed_curve_closes (l l' : list (BV ROps)) : closure true l = Some l' ->
  exists first, List.hd_error l' = Some first /\ bv_mid first = false /\
    bv_mid (List.last l' first) = false /\
    v2equals (bv_v (List.last l' first)) (bv_v first) tolerance = true.
Proof.
  unfold closure. cbn [negb]. destruct l as [|first [|second r]]; try discriminate.
  set (l0 := first :: second :: r). intros H. exists first.
  destruct (bv_mid first) eqn:MF; [discriminate|].
  destruct (bv_mid (List.last l0 first)) eqn:ML; cbn [negb] in H.
  - injection H as <-. split; [reflexivity|]. split; [first [exact MF | reflexivity]|].
    match goal with |- context [List.last ?q first] =>
      replace (List.last q first) with first
        by (symmetry; apply (last_app (first :: second :: r) [first]); discriminate) end. split; [first [exact MF | reflexivity] | apply v2equals_refl].
  - destruct (v2equals (bv_v (List.last l0 first)) (bv_v first) tolerance) eqn:EQ; cbn [negb] in H; injection H as <-.
    + split; [reflexivity|]. split; [first [exact MF | reflexivity]|]. split; [exact ML | exact EQ].
    + split; [reflexivity|]. split; [first [exact MF | reflexivity]|].
      match goal with |- context [List.last ?q first] =>
      replace (List.last q first) with first
        by (symmetry; apply (last_app (first :: second :: r) [first]); discriminate) end. split; [first [exact MF | reflexivity] | apply v2equals_refl].
Qed.
