(* The syntactic tie: every definition of Generated/SdfExpr.v (produced by harness/sdfgen from
   the Go AST of vec/v2/v2.go, vec/v3/v3.go, vec/conv/conv.go, sdf/utils.go, sdf/sdf2.go,
   sdf/sdf3.go, sdf/box2.go, sdf/box3.go, sdf/matrix.go (MulBox) on every run) is equal, for all
   arguments and over an arbitrary `O : Ops`, to the hand-written model function of Geo/Vec.v,
   Geo/Box.v, Geo/Mat.v, Sdf/Union2.v, Sdf/Shape.v.  How the equalities are decided is described in
   Sdf/GenEqTac.v: conversion (so: up to let-structure, helpers extracted or inlined, named constants),
   else conversion on every branch of an exhaustive case analysis over the ATOMIC tests of the `if`
   conditions (so: up to the shape of the control flow - nested if/else, else-if chains, switch, early
   return, && / || / ! against tests made one after the other), for loops over an arbitrary list a short
   induction stated for ANY loop body meeting the specification of one iteration (reads of an element just
   written are forwarded, a table may be filled by index or by append and may hold the whole interval
   or only its minimum).  No law of arithmetic is used (`O` is abstract), so an edit of the Go source
   (or of the model) that changes what a function computes - an expression, a comparison, the order of two
   tests with different outcomes, a branch result - makes the lemma of that function fail, with the message
   `Tactic failure: TRANSL_<name>: ...` naming the theorem of Props/TRANSL.v that cites it.

   Evaluate methods: the receiver fields are parameters of the generated definition; the lemma
   substitutes what the model's constructor `k_xxx` pre-computes and is stated about the
   closure of the object `k_xxx` returns.
   Constructors: the generated definition returns None where Go returns
   nil / an error, and otherwise the pair (Evaluate, BoundingBox) of the struct it built; the
   lemma `Xxx_ctor` says that this is the model's `k_xxx`, object for object (argument checks,
   pre-computed fields, closure and bounding box).  Wrapped SDF arguments are assumed non-nil,
   as in the model (`x == nil` is translated to `false`).

   Deviations of the hand model from the Go source that the first version of this file exposed
   (the equalities below did not hold); both have since been repaired in the model, and the
   lemmas are now plain equalities:
   * v2divs / v3divs (Geo/Vec.v) divided component-wise; Go's Vec.DivScalar is
     `a.MulScalar(1 / b)` (differs in float64: 3*(1/10) <> 3/10).  Used by ex_scale /
     ex_scaletwist (the slope `m`).
   * k_loft (Sdf/Shape.v) had no `if s.height != 0` guard around the mix factor: the Go code
     (after fix 418602f) uses k = 0.5 when height = 2*round; the model computed
     clamp (0.5*z/0 + 0.5) = NaN on the mid-plane there.

   Code with loops (second half of the file).  The translator maps `for _, x := range xs`,
   `for i := range xs`, `for i := 0; i < n; i++` to fold_left / range_loop / count_loop over the
   tuple of variables the body assigns (Num/Loop.v), `xs[i] = v` to list_set, `xs[i]` to nth, Go ints
   to Z.  Where the list is concrete (the 4 / 8 vertices of a box: MinMaxDist2, RotateCopy, Slice,
   Revolve, the twisted extrusions) the loop computes and the equality is still by conversion
   (after a case split on the `if` conditions).  Where the list or the count is arbitrary (Union:
   operands; Array, RotateUnion: the number of copies; VecSet.Min/Max; mulVertices) the model
   is a Fixpoint / fold of its own and the equality is a short induction, stated once for ANY loop
   body `F` that satisfies the specification of one iteration (`union2_loop1`, `count_loop_rotbox2`,
   ...); the generated body is then shown to satisfy that specification by conversion (`step_eq`),
   so the inductions do not depend on the let-structure of the generated text.
   A slice of SDFs is the list of (Evaluate, BoundingBox) pairs of its operands (`pf2`, `pf3`).
   Where an induction is involved the constructor lemma states `obj2_same` / `obj3_same` (same
   bounding box, pointwise the same distance function) instead of Leibniz equality of closures,
   so no functional extensionality is used. *)
From Coq Require Import ZArith List Bool Lia.
From Sdfx Require Import Num.Ops Num.Loop Geo.Vec Geo.Box Geo.Mat Sdf.Union2 Sdf.Shape Generated.SdfExpr.
From Sdfx Require Export Sdf.GenEqTac.
Import OpsNotations ListNotations.
Local Open Scope ops_scope.

Section GenEq.
  Context {O : Ops}.
  Notation T := (T O).
  Notation V2 := (V2 O).
  Notation V3 := (V3 O).

  (* ------------------------------------------------------------ vec/v2/v2.go *)
  Lemma v2_Add_eq : forall a b : V2, v2_Vec_Add a b = v2add a b. Proof. same_as TRANSL_v2_Add. Qed.
  Lemma v2_Sub_eq : forall a b : V2, v2_Vec_Sub a b = v2sub a b. Proof. same_as TRANSL_v2_Sub. Qed.
  Lemma v2_Mul_eq : forall a b : V2, v2_Vec_Mul a b = v2mul a b. Proof. same_as TRANSL_v2_Mul. Qed.
  Lemma v2_Div_eq : forall a b : V2, v2_Vec_Div a b = v2div a b. Proof. same_as TRANSL_v2_Div. Qed.
  Lemma v2_Neg_eq : forall a : V2, v2_Vec_Neg a = v2neg a. Proof. same_as TRANSL_v2_Neg. Qed.
  Lemma v2_Abs_eq : forall a : V2, v2_Vec_Abs a = v2abs a. Proof. same_as TRANSL_v2_Abs. Qed.
  Lemma v2_MulScalar_eq : forall (a : V2) (k : T), v2_Vec_MulScalar a k = v2muls a k. Proof. same_as TRANSL_v2_MulScalar. Qed.
  Lemma v2_AddScalar_eq : forall (a : V2) (k : T), v2_Vec_AddScalar a k = v2adds a k. Proof. same_as TRANSL_v2_AddScalar. Qed.
  Lemma v2_SubScalar_eq : forall (a : V2) (k : T), v2_Vec_SubScalar a k = v2subs a k. Proof. same_as TRANSL_v2_SubScalar. Qed.
  Lemma v2_Min_eq : forall a b : V2, v2_Vec_Min a b = v2min a b. Proof. same_as TRANSL_v2_Min. Qed.
  Lemma v2_Max_eq : forall a b : V2, v2_Vec_Max a b = v2max a b. Proof. same_as TRANSL_v2_Max. Qed.
  Lemma v2_Dot_eq : forall a b : V2, v2_Vec_Dot a b = v2dot a b. Proof. same_as TRANSL_v2_Dot. Qed.
  Lemma v2_Cross_eq : forall a b : V2, v2_Vec_Cross a b = v2cross a b. Proof. same_as TRANSL_v2_Cross. Qed.
  Lemma v2_Length2_eq : forall a : V2, v2_Vec_Length2 a = v2len2 a. Proof. same_as TRANSL_v2_Length2. Qed.
  Lemma v2_Length_eq : forall a : V2, v2_Vec_Length a = v2len a. Proof. same_as TRANSL_v2_Length. Qed.
  Lemma v2_Normalize_eq : forall a : V2, v2_Vec_Normalize a = v2normalize a. Proof. same_as TRANSL_v2_Normalize. Qed.
  Lemma v2_MinComponent_eq : forall a : V2, v2_Vec_MinComponent a = v2mincomp a. Proof. same_as TRANSL_v2_MinComponent. Qed.
  Lemma v2_MaxComponent_eq : forall a : V2, v2_Vec_MaxComponent a = v2maxcomp a. Proof. same_as TRANSL_v2_MaxComponent. Qed.
  Lemma v2_clamp_eq : forall x a b : T, v2_clamp x a b = clamp x a b. Proof. same_as TRANSL_v2_clamp. Qed.
  Lemma v2_Clamp_eq : forall a b c : V2, v2_Vec_Clamp a b c = v2clamp a b c. Proof. same_as TRANSL_v2_Clamp. Qed.
  Lemma v2_DivScalar_eq : forall (a : V2) (k : T), v2_Vec_DivScalar a k = v2divs a k. Proof. same_as TRANSL_v2_DivScalar. Qed.

  (* ------------------------------------------------------------ vec/v3/v3.go *)
  Lemma v3_Add_eq : forall a b : V3, v3_Vec_Add a b = v3add a b. Proof. same_as TRANSL_v3_Add. Qed.
  Lemma v3_Sub_eq : forall a b : V3, v3_Vec_Sub a b = v3sub a b. Proof. same_as TRANSL_v3_Sub. Qed.
  Lemma v3_Mul_eq : forall a b : V3, v3_Vec_Mul a b = v3mul a b. Proof. same_as TRANSL_v3_Mul. Qed.
  Lemma v3_Div_eq : forall a b : V3, v3_Vec_Div a b = v3div a b. Proof. same_as TRANSL_v3_Div. Qed.
  Lemma v3_Neg_eq : forall a : V3, v3_Vec_Neg a = v3neg a. Proof. same_as TRANSL_v3_Neg. Qed.
  Lemma v3_Abs_eq : forall a : V3, v3_Vec_Abs a = v3abs a. Proof. same_as TRANSL_v3_Abs. Qed.
  Lemma v3_MulScalar_eq : forall (a : V3) (k : T), v3_Vec_MulScalar a k = v3muls a k. Proof. same_as TRANSL_v3_MulScalar. Qed.
  Lemma v3_AddScalar_eq : forall (a : V3) (k : T), v3_Vec_AddScalar a k = v3adds a k. Proof. same_as TRANSL_v3_AddScalar. Qed.
  Lemma v3_SubScalar_eq : forall (a : V3) (k : T), v3_Vec_SubScalar a k = v3subs a k. Proof. same_as TRANSL_v3_SubScalar. Qed.
  Lemma v3_Min_eq : forall a b : V3, v3_Vec_Min a b = v3min a b. Proof. same_as TRANSL_v3_Min. Qed.
  Lemma v3_Max_eq : forall a b : V3, v3_Vec_Max a b = v3max a b. Proof. same_as TRANSL_v3_Max. Qed.
  Lemma v3_Dot_eq : forall a b : V3, v3_Vec_Dot a b = v3dot a b. Proof. same_as TRANSL_v3_Dot. Qed.
  Lemma v3_Cross_eq : forall a b : V3, v3_Vec_Cross a b = v3cross a b. Proof. same_as TRANSL_v3_Cross. Qed.
  Lemma v3_Length2_eq : forall a : V3, v3_Vec_Length2 a = v3len2 a. Proof. same_as TRANSL_v3_Length2. Qed.
  Lemma v3_Length_eq : forall a : V3, v3_Vec_Length a = v3len a. Proof. same_as TRANSL_v3_Length. Qed.
  Lemma v3_Normalize_eq : forall a : V3, v3_Vec_Normalize a = v3normalize a. Proof. same_as TRANSL_v3_Normalize. Qed.
  Lemma v3_MinComponent_eq : forall a : V3, v3_Vec_MinComponent a = v3mincomp a. Proof. same_as TRANSL_v3_MinComponent. Qed.
  Lemma v3_MaxComponent_eq : forall a : V3, v3_Vec_MaxComponent a = v3maxcomp a. Proof. same_as TRANSL_v3_MaxComponent. Qed.
  Lemma v3_clamp_eq : forall x a b : T, v3_clamp x a b = clamp x a b. Proof. same_as TRANSL_v3_clamp. Qed.
  Lemma v3_Clamp_eq : forall a b c : V3, v3_Vec_Clamp a b c = v3clamp a b c. Proof. same_as TRANSL_v3_Clamp. Qed.
  Lemma v3_DivScalar_eq : forall (a : V3) (k : T), v3_Vec_DivScalar a k = v3divs a k. Proof. same_as TRANSL_v3_DivScalar. Qed.
  Lemma v3_LTEZero_eq : forall a : V3, v3_Vec_LTEZero a = v3_lte_zero a. Proof. same_as TRANSL_v3_LTEZero. Qed.

  (* ------------------------------------------------------------ sdf/box2.go, sdf/box3.go *)
  Lemma NewBox2_eq : forall center size : V2, sdf_NewBox2 center size = newbox2 center size. Proof. same_as TRANSL_NewBox2. Qed.
  Lemma Box2_Extend_eq : forall a b : Box2 O, sdf_Box2_Extend a b = box2_extend a b. Proof. same_as TRANSL_Box2_Extend. Qed.
  Lemma Box2_Include_eq : forall (a : Box2 O) (v : V2), sdf_Box2_Include a v = box2_include a v. Proof. same_as TRANSL_Box2_Include. Qed.
  Lemma Box2_Translate_eq : forall (a : Box2 O) (v : V2), sdf_Box2_Translate a v = box2_translate a v. Proof. same_as TRANSL_Box2_Translate. Qed.
  Lemma Box2_Size_eq : forall a : Box2 O, sdf_Box2_Size a = box2_size a. Proof. same_as TRANSL_Box2_Size. Qed.
  Lemma Box2_Center_eq : forall a : Box2 O, sdf_Box2_Center a = box2_center a. Proof. same_as TRANSL_Box2_Center. Qed.
  Lemma Box2_ScaleAboutCenter_eq : forall (a : Box2 O) (k : T), sdf_Box2_ScaleAboutCenter a k = box2_scale_about_center a k.
  Proof. same_as TRANSL_Box2_ScaleAboutCenter. Qed.
  Lemma Box2_Enlarge_eq : forall (a : Box2 O) (v : V2), sdf_Box2_Enlarge a v = box2_enlarge a v. Proof. same_as TRANSL_Box2_Enlarge. Qed.
  Lemma Box2_Contains_eq : forall (a : Box2 O) (v : V2), sdf_Box2_Contains a v = box2_contains a v. Proof. same_as TRANSL_Box2_Contains. Qed.
  Lemma Box2_Vertices_eq : forall a : Box2 O, sdf_Box2_Vertices a = box2_vertices a. Proof. same_as TRANSL_Box2_Vertices. Qed.
  Lemma NewBox3_eq : forall center size : V3, sdf_NewBox3 center size = newbox3 center size. Proof. same_as TRANSL_NewBox3. Qed.
  Lemma Box3_Extend_eq : forall a b : Box3 O, sdf_Box3_Extend a b = box3_extend a b. Proof. same_as TRANSL_Box3_Extend. Qed.
  Lemma Box3_Include_eq : forall (a : Box3 O) (v : V3), sdf_Box3_Include a v = box3_include a v. Proof. same_as TRANSL_Box3_Include. Qed.
  Lemma Box3_Translate_eq : forall (a : Box3 O) (v : V3), sdf_Box3_Translate a v = box3_translate a v. Proof. same_as TRANSL_Box3_Translate. Qed.
  Lemma Box3_Size_eq : forall a : Box3 O, sdf_Box3_Size a = box3_size a. Proof. same_as TRANSL_Box3_Size. Qed.
  Lemma Box3_Center_eq : forall a : Box3 O, sdf_Box3_Center a = box3_center a. Proof. same_as TRANSL_Box3_Center. Qed.
  Lemma Box3_ScaleAboutCenter_eq : forall (a : Box3 O) (k : T), sdf_Box3_ScaleAboutCenter a k = box3_scale_about_center a k.
  Proof. same_as TRANSL_Box3_ScaleAboutCenter. Qed.
  Lemma Box3_Enlarge_eq : forall (a : Box3 O) (v : V3), sdf_Box3_Enlarge a v = box3_enlarge a v. Proof. same_as TRANSL_Box3_Enlarge. Qed.
  Lemma Box3_Contains_eq : forall (a : Box3 O) (v : V3), sdf_Box3_Contains a v = box3_contains a v. Proof. same_as TRANSL_Box3_Contains. Qed.
  Lemma Box3_Vertices_eq : forall a : Box3 O, sdf_Box3_Vertices a = box3_vertices a. Proof. same_as TRANSL_Box3_Vertices. Qed.

  (* ------------------------------------------------------------ sdf/matrix.go: MulBox *)
  Lemma M33_MulBox_eq : forall (a : list T) (box : Box2 O), sdf_M33_MulBox a box = m33_mulbox a box. Proof. same_as TRANSL_M33_MulBox. Qed.
  Lemma M44_MulBox_eq : forall (a : list T) (box : Box3 O), sdf_M44_MulBox a box = m44_mulbox a box. Proof. same_as TRANSL_M44_MulBox. Qed.

  (* ------------------------------------------------------------ sdf/utils.go *)
  Lemma Clamp_eq : forall x a b : T, sdf_Clamp x a b = clamp x a b. Proof. same_as TRANSL_Clamp. Qed.
  Lemma Mix_eq : forall x y a : T, sdf_Mix x y a = mix x y a. Proof. same_as TRANSL_Mix. Qed.
  Lemma Sign_eq : forall x : T, sdf_Sign x = sign x. Proof. same_as TRANSL_Sign. Qed.
  Lemma SawTooth_eq : forall x period : T, sdf_SawTooth x period = sawtooth x period. Proof. same_as TRANSL_SawTooth. Qed.
  Lemma poly_eq : forall a b k : T, sdf_poly a b k = poly a b k. Proof. same_as TRANSL_poly. Qed.
  Lemma sqrtHalf_eq : sdf_sqrtHalf = @sqrt_half O. Proof. same_as TRANSL_sqrtHalf. Qed.
  Lemma Pi_eq : sdf_Pi = opi O. Proof. same_as TRANSL_Pi. Qed.
  Lemma RoundMin_eq : forall k a b : T, sdf_RoundMin k a b = min_apply (MinRound k) a b. Proof. same_as TRANSL_RoundMin. Qed.
  Lemma ChamferMin_eq : forall k a b : T, sdf_ChamferMin k a b = min_apply (MinChamfer k) a b. Proof. same_as TRANSL_ChamferMin. Qed.
  Lemma PolyMin_eq : forall k a b : T, sdf_PolyMin k a b = min_apply (MinPoly k) a b. Proof. same_as TRANSL_PolyMin. Qed.
  Lemma PolyMax_eq : forall k a b : T, sdf_PolyMax k a b = max_apply (MaxPoly k) a b. Proof. same_as TRANSL_PolyMax. Qed.
  Lemma NormalExtrude_eq : forall p : V3, sdf_NormalExtrude p = ex_normal p. Proof. same_as TRANSL_NormalExtrude. Qed.
  Lemma TwistExtrude_eq : forall (height twist : T) (p : V3), sdf_TwistExtrude height twist p = ex_twist height twist p.
  Proof. same_as TRANSL_TwistExtrude. Qed.

  Lemma ScaleExtrude_eq : forall (height : T) (scale : V2) (p : V3),
    sdf_ScaleExtrude height scale p = ex_scale height scale p.
  Proof. same_as TRANSL_ScaleExtrude. Qed.
  Lemma ScaleTwistExtrude_eq : forall (height twist : T) (scale : V2) (p : V3),
    sdf_ScaleTwistExtrude height twist scale p = ex_scaletwist height twist scale p.
  Proof. same_as TRANSL_ScaleTwistExtrude. Qed.

  (* ------------------------------------------------------------ sdf/sdf2.go *)
  Lemma sdfBox2d_eq : forall p s : V2, sdf_sdfBox2d p s = sdf_box2d p s. Proof. same_as TRANSL_sdfBox2d. Qed.

  Lemma Circle_eq : forall (radius : T) o p, k_circle radius = Some o ->
    sdf_CircleSDF2_Evaluate radius p = ev2 o p.
  Proof. intros radius o p H. unfold k_circle in H. open_k H. same_as TRANSL_Circle. Qed.

  Lemma Box2_eq : forall (size : V2) round o p, k_box2 size round = Some o ->
    sdf_BoxSDF2_Evaluate (v2subs (v2muls size k05) round) round p = ev2 o p.
  Proof. intros size round o p H. unfold k_box2 in H. open_k H. same_as TRANSL_Box2. Qed.

  Lemma Line2_eq : forall (l : T) round o p, k_line2 l round = Some o ->
    sdf_LineSDF2_Evaluate (l / two) round p = ev2 o p.
  Proof. intros l round o p H. unfold k_line2 in H. open_k H. same_as TRANSL_Line2. Qed.

  Lemma Offset2_eq : forall (s : Obj2 O) offset o p, k_offset2 s offset = Some o ->
    sdf_OffsetSDF2_Evaluate (ev2 s) offset p = ev2 o p.
  Proof. intros s offset o p H. unfold k_offset2 in H. open_k H. same_as TRANSL_Offset2. Qed.

  Lemma Intersect2_eq : forall m (s0 s1 : Obj2 O) o p, k_intersect2 m s0 s1 = Some o ->
    sdf_IntersectionSDF2_Evaluate (ev2 s0) (ev2 s1) (max_apply m) p = ev2 o p.
  Proof. intros m s0 s1 o p H. unfold k_intersect2 in H. open_k H. same_as TRANSL_Intersect2. Qed.

  Lemma Difference2_eq : forall m (s0 s1 : Obj2 O) o p, k_difference2 m s0 s1 = Some o ->
    sdf_DifferenceSDF2_Evaluate (ev2 s0) (ev2 s1) (max_apply m) p = ev2 o p.
  Proof. intros m s0 s1 o p H. unfold k_difference2 in H. open_k H. same_as TRANSL_Difference2. Qed.

  Lemma Cut2_eq : forall (s : Obj2 O) a v o p, k_cut2 s a v = Some o ->
    sdf_CutSDF2_Evaluate (ev2 s) a (let v := v2normalize v in mkV2 (- vy v) (vx v)) p = ev2 o p.
  Proof. intros s a v o p H. unfold k_cut2 in H. open_k H. same_as TRANSL_Cut2. Qed.

  Lemma Transform2_eq : forall (s : Obj2 O) m o p, k_transform2 s m = Some o ->
    sdf_TransformSDF2_Evaluate (ev2 s) (m33_inverse m) p = ev2 o p.
  Proof. intros s m o p H. unfold k_transform2 in H. open_k H. same_as TRANSL_Transform2. Qed.

  Lemma ScaleUniform2_eq : forall (s : Obj2 O) k o p, k_scaleuniform2 s k = Some o ->
    sdf_ScaleUniformSDF2_Evaluate (ev2 s) k (o1 O / k) p = ev2 o p.
  Proof. intros s k o p H. unfold k_scaleuniform2 in H. open_k H. same_as TRANSL_ScaleUniform2. Qed.

  Lemma Elongate2_eq : forall (s : Obj2 O) h o p, k_elongate2 s h = Some o ->
    sdf_ElongateSDF2_Evaluate (ev2 s) (v2muls (v2abs h) k05) (v2muls (v2abs h) (- k05)) p = ev2 o p.
  Proof. intros s h o p H. unfold k_elongate2 in H. open_k H. same_as TRANSL_Elongate2. Qed.

  (* RotateCopy2D: theta = tau / n *)
  Lemma P2ToV2_eq : forall r th : T, conv_P2ToV2 (r, th) = mkV2 (r * ocos O th) (r * osin O th). Proof. same_as TRANSL_P2ToV2. Qed.
  Lemma RotateCopy2_eq : forall (s : Obj2 O) n o p, k_rotatecopy2 s n = Some o ->
    sdf_RotateCopySDF2_Evaluate (ev2 s) (tau / ofZ O n) p = ev2 o p.
  Proof. intros s n o p H. unfold k_rotatecopy2 in H. open_k H. same_as TRANSL_RotateCopy2. Qed.

  (* Slice2D: the in-plane axes it pre-computes *)
  Definition slice_u0 (n : V3) : V3 :=
    if wx n =? o0 O then mkV3 (o1 O) (o0 O) (o0 O)
    else if wy n =? o0 O then mkV3 (o0 O) (o1 O) (o0 O)
    else if wz n =? o0 O then mkV3 (o0 O) (o0 O) (o1 O)
    else mkV3 (wy n) (- wx n) (o0 O).
  Lemma Slice2_eq : forall (s : Obj3 O) a n o p, k_slice2 s a n = Some o ->
    sdf_SliceSDF2_Evaluate (ev3 s) a (v3normalize (slice_u0 n)) (v3normalize (v3cross n (slice_u0 n))) p = ev2 o p.
  Proof. intros s a n o p H. unfold k_slice2 in H. open_k H. same_as TRANSL_Slice2. Qed.

  (* ------------------------------------------------------------ sdf/sdf3.go *)
  Lemma sdfBox3d_eq : forall p s : V3, sdf_sdfBox3d p s = sdf_box3d p s. Proof. same_as TRANSL_sdfBox3d. Qed.

  Lemma Sphere_eq : forall (radius : T) o p, k_sphere radius = Some o ->
    sdf_SphereSDF3_Evaluate radius p = ev3 o p.
  Proof. intros radius o p H. unfold k_sphere in H. open_k H. same_as TRANSL_Sphere. Qed.

  Lemma Box3_eq : forall (size : V3) round o p, k_box3 size round = Some o ->
    sdf_BoxSDF3_Evaluate (v3subs (v3muls size k05) round) round p = ev3 o p.
  Proof. intros size round o p H. unfold k_box3 in H. open_k H. same_as TRANSL_Box3. Qed.

  Lemma Cylinder_eq : forall (height : T) radius round o p, k_cylinder height radius round = Some o ->
    sdf_CylinderSDF3_Evaluate ((height / two) - round) (radius - round) round p = ev3 o p.
  Proof. intros height radius round o p H. unfold k_cylinder in H. open_k H. same_as TRANSL_Cylinder. Qed.

  (* the fields Cone3D pre-computes, as k_cone does *)
  Definition cone_sh (height round : T) : T := (height / two) - round.
  Definition cone_u (height r0 r1 : T) : V2 := v2normalize (v2sub (mkV2 r1 (height / two)) (mkV2 r0 (- (height / two)))).
  Definition cone_n (height r0 r1 : T) : V2 := let u := cone_u height r0 r1 in mkV2 (vy u) (- (vx u)).
  Definition cone_sr0 (height r0 r1 round : T) : T :=
    let n := cone_n height r0 r1 in r0 - (o1 O + vy n) * (round / vx n).
  Definition cone_sr1 (height r0 r1 round : T) : T :=
    let n := cone_n height r0 r1 in r1 - (o1 O - vy n) * (round / vx n).
  Definition cone_l (height r0 r1 round : T) : T :=
    v2len (v2sub (mkV2 (cone_sr1 height r0 r1 round) (cone_sh height round))
                 (mkV2 (cone_sr0 height r0 r1 round) (- cone_sh height round))).

  Lemma Cone_eq : forall (height : T) r0 r1 round o p, k_cone height r0 r1 round = Some o ->
    sdf_ConeSDF3_Evaluate (cone_sr0 height r0 r1 round) (cone_sr1 height r0 r1 round) (cone_sh height round) round
                          (cone_u height r0 r1) (cone_n height r0 r1) (cone_l height r0 r1 round) p = ev3 o p.
  Proof. intros height r0 r1 round o p H. unfold k_cone in H. open_k H. same_as TRANSL_Cone. Qed.

  (* RevolveTheta3D: theta is reduced mod tau, norm = (-sin theta, cos theta) *)
  Lemma Sor_eq : forall (s : Obj2 O) theta0 o p, k_revolve s theta0 = Some o ->
    let theta := ofmod O (oabs O theta0) tau in
    sdf_SorSDF3_Evaluate (ev2 s) theta (mkV2 (- osin O theta) (ocos O theta)) p = ev3 o p.
  Proof.
    intros s theta0 o p H theta. unfold k_revolve in H. open_k H.
    unfold sdf_SorSDF3_Evaluate. cbn [ev3]. fold theta.
    destruct (theta =? o0 O); same_as TRANSL_Sor.
  Qed.

  Lemma Extrude_eval_eq : forall (s : Obj2 O) sh ex p, sdf_ExtrudeSDF3_Evaluate (ev2 s) sh ex p = extrude_ev s sh ex p.
  Proof. same_as TRANSL_Extrude_eval. Qed.
  Lemma Extrude_eq : forall (s : Obj2 O) height o p, k_extrude s height = Some o ->
    sdf_ExtrudeSDF3_Evaluate (ev2 s) (height / two) sdf_NormalExtrude p = ev3 o p.
  Proof. intros s height o p H. unfold k_extrude in H. open_k H. same_as TRANSL_Extrude. Qed.
  Lemma TwistExtrude3D_eq : forall (s : Obj2 O) height twist o p, k_twistextrude s height twist = Some o ->
    sdf_ExtrudeSDF3_Evaluate (ev2 s) (height / two) (sdf_TwistExtrude height twist) p = ev3 o p.
  Proof. intros s height twist o p H. unfold k_twistextrude in H. open_k H. same_as TRANSL_TwistExtrude3D. Qed.

  (* the shared tail of ExtrudeRounded / Loft *)
  Lemma ExtrudeRounded_tail_eq : forall (f : V2 -> T) (sh round : T) (p : V3),
    sdf_ExtrudeRoundedSDF3_Evaluate f sh round p = rounded_combine (f (mkV2 (wx p) (wy p))) (oabs O (wz p) - sh) round.
  Proof. same_as TRANSL_ExtrudeRounded_tail. Qed.

  Lemma ExtrudeRounded_eq : forall (s : Obj2 O) height round o p, (round =? o0 O) = false ->
    k_extruderounded s height round = Some o ->
    sdf_ExtrudeRoundedSDF3_Evaluate (ev2 s) ((height / two) - round) round p = ev3 o p.
  Proof.
    intros s height round o p Hr H. unfold k_extruderounded in H. rewrite Hr in H. open_k H. same_as TRANSL_ExtrudeRounded.
  Qed.

  (* Go: k := 0.5; if s.height != 0 { k = Clamp(..) } - model: if sh =? 0 then k05 else clamp .. *)
  Lemma Loft_eq : forall (s0 s1 : Obj2 O) height round o p, k_loft s0 s1 height round = Some o ->
    sdf_LoftSDF3_Evaluate (ev2 s0) (ev2 s1) ((height / two) - round) round p = ev3 o p.
  Proof.
    intros s0 s1 height round o p H. unfold k_loft in H. open_k H.
    unfold sdf_LoftSDF3_Evaluate. cbn [ev3].
    destruct ((height / two) - round =? o0 O); same_as TRANSL_Loft.
  Qed.

  Lemma Transform3_eq : forall (s : Obj3 O) m o p, k_transform3 s m = Some o ->
    sdf_TransformSDF3_Evaluate (ev3 s) (m44_inverse m) p = ev3 o p.
  Proof. intros s m o p H. unfold k_transform3 in H. open_k H. same_as TRANSL_Transform3. Qed.

  Lemma ScaleUniform3_eq : forall (s : Obj3 O) k o p, k_scaleuniform3 s k = Some o ->
    sdf_ScaleUniformSDF3_Evaluate (ev3 s) k (o1 O / k) p = ev3 o p.
  Proof. intros s k o p H. unfold k_scaleuniform3 in H. open_k H. same_as TRANSL_ScaleUniform3. Qed.

  Lemma Difference3_eq : forall m (s0 s1 : Obj3 O) o p, k_difference3 m s0 s1 = Some o ->
    sdf_DifferenceSDF3_Evaluate (ev3 s0) (ev3 s1) (max_apply m) p = ev3 o p.
  Proof. intros m s0 s1 o p H. unfold k_difference3 in H. open_k H. same_as TRANSL_Difference3. Qed.

  Lemma Intersect3_eq : forall m (s0 s1 : Obj3 O) o p, k_intersect3 m s0 s1 = Some o ->
    sdf_IntersectionSDF3_Evaluate (ev3 s0) (ev3 s1) (max_apply m) p = ev3 o p.
  Proof. intros m s0 s1 o p H. unfold k_intersect3 in H. open_k H. same_as TRANSL_Intersect3. Qed.

  Lemma Elongate3_eq : forall (s : Obj3 O) h o p, k_elongate3 s h = Some o ->
    sdf_ElongateSDF3_Evaluate (ev3 s) (v3muls (v3abs h) k05) (v3muls (v3abs h) (- k05)) p = ev3 o p.
  Proof. intros s h o p H. unfold k_elongate3 in H. open_k H. same_as TRANSL_Elongate3. Qed.

  Lemma Cut3_eq : forall (s : Obj3 O) a n o p, k_cut3 s a n = Some o ->
    sdf_CutSDF3_Evaluate (ev3 s) a (v3neg (v3normalize n)) p = ev3 o p.
  Proof. intros s a n o p H. unfold k_cut3 in H. open_k H. same_as TRANSL_Cut3. Qed.

  Lemma Offset3_eq : forall (s : Obj3 O) offset o p, k_offset3 s offset = Some o ->
    sdf_OffsetSDF3_Evaluate (ev3 s) offset p = ev3 o p.
  Proof. intros s offset o p H. unfold k_offset3 in H. open_k H. same_as TRANSL_Offset3. Qed.

  Lemma Shell3_eq : forall (s : Obj3 O) thickness o p, k_shell3 s thickness = Some o ->
    sdf_ShellSDF3_Evaluate (ev3 s) (k05 * thickness) p = ev3 o p.
  Proof. intros s thickness o p H. unfold k_shell3 in H. open_k H. same_as TRANSL_Shell3. Qed.
  Lemma RotateCopy3_eq : forall (s : Obj3 O) n o p, k_rotatecopy3 s n = Some o ->
    sdf_RotateCopySDF3_Evaluate (ev3 s) (tau / ofZ O n) p = ev3 o p.
  Proof. intros s n o p H. unfold k_rotatecopy3 in H. open_k H. same_as TRANSL_RotateCopy3. Qed.

  (* ------------------------------------------------------------ constructors, object for object *)
  Definition obj2_of (x : (V2 -> T) * Box2 O) : Obj2 O := mkObj2 (fst x) (snd x).
  Definition obj3_of (x : (V3 -> T) * Box3 O) : Obj3 O := mkObj3 (fst x) (snd x).

  Lemma Circle2D_ctor : forall radius : T, option_map obj2_of (sdf_Circle2D radius) = k_circle radius.
  Proof. intros. unfold sdf_Circle2D, k_circle. ctor_eq TRANSL_Circle2D_ctor. Qed.
  Lemma Box2D_ctor : forall (size : V2) (round : T), option_map obj2_of (sdf_Box2D size round) = k_box2 size round.
  Proof. intros. unfold sdf_Box2D, k_box2. ctor_eq TRANSL_Box2D_ctor. Qed.
  Lemma Line2D_ctor : forall l round : T, option_map obj2_of (sdf_Line2D l round) = k_line2 l round.
  Proof. intros. unfold sdf_Line2D, k_line2. ctor_eq TRANSL_Line2D_ctor. Qed.
  Lemma Offset2D_ctor : forall (s : Obj2 O) (offset : T),
    option_map obj2_of (sdf_Offset2D (ev2 s) (bb2 s) offset) = k_offset2 s offset.
  Proof. intros. unfold sdf_Offset2D, k_offset2. ctor_eq TRANSL_Offset2D_ctor. Qed.
  (* Intersect2D / Difference2D install math.Max; SetMax replaces it (the model's MaxK argument) *)
  Lemma Intersect2D_ctor : forall s0 s1 : Obj2 O,
    option_map obj2_of (sdf_Intersect2D (ev2 s0) (bb2 s0) (ev2 s1) (bb2 s1)) = k_intersect2 MaxDef s0 s1.
  Proof. intros. unfold sdf_Intersect2D, k_intersect2. ctor_eq TRANSL_Intersect2D_ctor. Qed.
  Lemma Difference2D_ctor : forall s0 s1 : Obj2 O,
    option_map obj2_of (sdf_Difference2D (ev2 s0) (bb2 s0) (ev2 s1) (bb2 s1)) = k_difference2 MaxDef s0 s1.
  Proof. intros. unfold sdf_Difference2D, k_difference2. ctor_eq TRANSL_Difference2D_ctor. Qed.
  Lemma Cut2D_ctor : forall (s : Obj2 O) (a v : V2),
    option_map obj2_of (sdf_Cut2D (ev2 s) (bb2 s) a v) = k_cut2 s a v.
  Proof. intros. unfold sdf_Cut2D, k_cut2. ctor_eq TRANSL_Cut2D_ctor. Qed.
  Lemma Transform2D_ctor : forall (s : Obj2 O) (m : list T),
    option_map obj2_of (sdf_Transform2D (ev2 s) (bb2 s) m) = k_transform2 s m.
  Proof. intros. unfold sdf_Transform2D, k_transform2. ctor_eq TRANSL_Transform2D_ctor. Qed.
  Lemma ScaleUniform2D_ctor : forall (s : Obj2 O) (k : T),
    option_map obj2_of (sdf_ScaleUniform2D (ev2 s) (bb2 s) k) = k_scaleuniform2 s k.
  Proof. intros. unfold sdf_ScaleUniform2D, k_scaleuniform2. ctor_eq TRANSL_ScaleUniform2D_ctor. Qed.
  Lemma Elongate2D_ctor : forall (s : Obj2 O) (h : V2),
    option_map obj2_of (sdf_Elongate2D (ev2 s) (bb2 s) h) = k_elongate2 s h.
  Proof. intros. unfold sdf_Elongate2D, k_elongate2. ctor_eq TRANSL_Elongate2D_ctor. Qed.

  Lemma Sphere3D_ctor : forall radius : T, option_map obj3_of (sdf_Sphere3D radius) = k_sphere radius.
  Proof. intros. unfold sdf_Sphere3D, k_sphere. ctor_eq TRANSL_Sphere3D_ctor. Qed.
  Lemma Box3D_ctor : forall (size : V3) (round : T), option_map obj3_of (sdf_Box3D size round) = k_box3 size round.
  Proof. intros. unfold sdf_Box3D, k_box3. rewrite v3_LTEZero_eq. ctor_eq TRANSL_Box3D_ctor. Qed.
  Lemma Cylinder3D_ctor : forall height radius round : T,
    option_map obj3_of (sdf_Cylinder3D height radius round) = k_cylinder height radius round.
  Proof. intros. unfold sdf_Cylinder3D, k_cylinder. ctor_eq TRANSL_Cylinder3D_ctor. Qed.
  Lemma Capsule3D_ctor : forall height radius : T,
    option_map obj3_of (sdf_Capsule3D height radius) = k_cylinder height radius radius.
  Proof. intros. unfold sdf_Capsule3D. via_ctor TRANSL_Capsule3D_ctor (Cylinder3D_ctor height radius radius). Qed.
  Lemma Cone3D_ctor : forall height r0 r1 round : T,
    option_map obj3_of (sdf_Cone3D height r0 r1 round) = k_cone height r0 r1 round.
  Proof. intros. unfold sdf_Cone3D, k_cone. ctor_eq TRANSL_Cone3D_ctor. Qed.
  Lemma Extrude3D_ctor : forall (s : Obj2 O) (height : T),
    option_map obj3_of (sdf_Extrude3D (ev2 s) (bb2 s) height) = k_extrude s height.
  Proof. intros. unfold sdf_Extrude3D, k_extrude. ctor_eq TRANSL_Extrude3D_ctor. Qed.
  Lemma ExtrudeRounded3D_ctor : forall (s : Obj2 O) (height round : T),
    option_map obj3_of (sdf_ExtrudeRounded3D (ev2 s) (bb2 s) height round) = k_extruderounded s height round.
  Proof. intros. unfold sdf_ExtrudeRounded3D, k_extruderounded. ctor_eq TRANSL_ExtrudeRounded3D_ctor. Qed.
  Lemma Transform3D_ctor : forall (s : Obj3 O) (m : list T),
    option_map obj3_of (sdf_Transform3D (ev3 s) (bb3 s) m) = k_transform3 s m.
  Proof. intros. unfold sdf_Transform3D, k_transform3. ctor_eq TRANSL_Transform3D_ctor. Qed.
  Lemma ScaleUniform3D_ctor : forall (s : Obj3 O) (k : T),
    option_map obj3_of (sdf_ScaleUniform3D (ev3 s) (bb3 s) k) = k_scaleuniform3 s k.
  Proof. intros. unfold sdf_ScaleUniform3D, k_scaleuniform3. ctor_eq TRANSL_ScaleUniform3D_ctor. Qed.
  Lemma Difference3D_ctor : forall s0 s1 : Obj3 O,
    option_map obj3_of (sdf_Difference3D (ev3 s0) (bb3 s0) (ev3 s1) (bb3 s1)) = k_difference3 MaxDef s0 s1.
  Proof. intros. unfold sdf_Difference3D, k_difference3. ctor_eq TRANSL_Difference3D_ctor. Qed.
  Lemma Intersect3D_ctor : forall s0 s1 : Obj3 O,
    option_map obj3_of (sdf_Intersect3D (ev3 s0) (bb3 s0) (ev3 s1) (bb3 s1)) = k_intersect3 MaxDef s0 s1.
  Proof. intros. unfold sdf_Intersect3D, k_intersect3. ctor_eq TRANSL_Intersect3D_ctor. Qed.
  Lemma Cut3D_ctor : forall (s : Obj3 O) (a n : V3),
    option_map obj3_of (sdf_Cut3D (ev3 s) (bb3 s) a n) = k_cut3 s a n.
  Proof. intros. unfold sdf_Cut3D, k_cut3. ctor_eq TRANSL_Cut3D_ctor. Qed.
  Lemma Elongate3D_ctor : forall (s : Obj3 O) (h : V3),
    option_map obj3_of (sdf_Elongate3D (ev3 s) (bb3 s) h) = k_elongate3 s h.
  Proof. intros. unfold sdf_Elongate3D, k_elongate3. ctor_eq TRANSL_Elongate3D_ctor. Qed.
  Lemma Offset3D_ctor : forall (s : Obj3 O) (offset : T),
    option_map obj3_of (sdf_Offset3D (ev3 s) (bb3 s) offset) = k_offset3 s offset.
  Proof. intros. unfold sdf_Offset3D, k_offset3. ctor_eq TRANSL_Offset3D_ctor. Qed.
  Lemma Shell3D_ctor : forall (s : Obj3 O) (thickness : T),
    option_map obj3_of (sdf_Shell3D (ev3 s) (bb3 s) thickness) = k_shell3 s thickness.
  Proof. intros. unfold sdf_Shell3D, k_shell3. ctor_eq TRANSL_Shell3D_ctor. Qed.

  Lemma ScaleExtrude3D_ctor : forall (s : Obj2 O) (height : T) (scale : V2),
    option_map obj3_of (sdf_ScaleExtrude3D (ev2 s) (bb2 s) height scale) = k_scaleextrude s height scale.
  Proof. intros. unfold sdf_ScaleExtrude3D, k_scaleextrude. ctor_eq TRANSL_ScaleExtrude3D_ctor. Qed.
  Lemma Loft3D_ctor : forall (s0 s1 : Obj2 O) (height round : T),
    option_map obj3_of (sdf_Loft3D (ev2 s0) (bb2 s0) (ev2 s1) (bb2 s1) height round) = k_loft s0 s1 height round.
  Proof. intros. unfold sdf_Loft3D, k_loft, sdf_LoftSDF3_Evaluate. ctor_eq TRANSL_Loft3D_ctor. Qed.
End GenEq.

(* ================================================================ code with loops *)

(* the loops of UnionSDF2.Evaluate / EvaluateSlow over an arbitrary operand list: an operand is
   any `e : E` with a box interval `Iv e` and a value `X e` at the query point.  The first loop of
   Evaluate fills a table `vs : list A` with one entry per operand from which the minimum box distance
   can be read back (`key`): the whole interval (A = Interval, key = fst), or the minimum alone
   (A = float64, key = identity); it may fill it by index (make + vs[i] = ..) or by append. *)
Section UnionLoops.
  Context {O : Ops}.
  Notation T := (T O).
  Context {E A : Type} (S : list E) (dflt : E) (da : A) (Iv : E -> Interval O) (X : E -> T) (minf : T -> T -> T)
          (key : A -> T).

  Lemma min_index_bound : forall (vs : list (Interval O)) i md mi,
    (mi < i + length vs)%nat -> (snd (min_index vs i md mi) < i + length vs)%nat.
  Proof.
    induction vs as [|v vs IH]; intros i md mi H; cbn [min_index length] in *; [cbn; lia|].
    destruct ((md <? o0 O) || (fst v <? md)).
    - replace (i + Datatypes.S (length vs))%nat with (Datatypes.S i + length vs)%nat by lia. apply IH. lia.
    - replace (i + Datatypes.S (length vs))%nat with (Datatypes.S i + length vs)%nat by lia. apply IH. lia.
  Qed.

  (* the first n entries of the table hold the minimum box distances of the first n operands *)
  Definition table_ok (n : nat) (vs : list A) : Prop :=
    forall j, (j < n)%nat -> key (nth j vs da) = fst (Iv (nth j S dflt)).

  (* first loop of UnionSDF2.Evaluate: fills the table and tracks the operand with the closest box.
     F is ANY loop body with this behaviour on the i-th element x of S; Inv is what it maintains about
     the table (its length). *)
  Definition loop1_step (Inv : nat -> list A -> Prop) (F : Z -> E -> list A * T * Z -> list A * T * Z) : Prop :=
    forall i x vs md mi, nth (Z.to_nat i) S dflt = x -> (0 <= i)%Z -> (Z.to_nat i < length S)%nat -> Inv (Z.to_nat i) vs ->
      Inv (Datatypes.S (Z.to_nat i)) (fst (fst (F i x (vs, md, mi)))) /\
      (forall j, (j < Z.to_nat i)%nat -> nth j (fst (fst (F i x (vs, md, mi)))) da = nth j vs da) /\
      key (nth (Z.to_nat i) (fst (fst (F i x (vs, md, mi)))) da) = fst (Iv x) /\
      (snd (fst (F i x (vs, md, mi))), snd (F i x (vs, md, mi))) =
        (if (md <? o0 O) || (fst (Iv x) <? md) then (fst (Iv x), i) else (md, mi)).

  Lemma union2_loop1 : forall Inv F, loop1_step Inv F ->
    forall xs pre vs md (mi : nat), S = pre ++ xs -> Inv (length pre) vs -> table_ok (length pre) vs ->
      table_ok (length S) (fst (fst (range_loop xs (Z.of_nat (length pre)) F (vs, md, Z.of_nat mi)))) /\
      snd (fst (range_loop xs (Z.of_nat (length pre)) F (vs, md, Z.of_nat mi))) = fst (min_index (map Iv xs) (length pre) md mi) /\
      snd (range_loop xs (Z.of_nat (length pre)) F (vs, md, Z.of_nat mi)) = Z.of_nat (snd (min_index (map Iv xs) (length pre) md mi)).
  Proof.
    intros Inv F HF. induction xs as [|x xs IH]; intros pre vs md mi HS HI HT.
    - rewrite app_nil_r in HS. rewrite HS. cbn. auto.
    - cbn [range_loop map min_index].
      assert (Hx : nth (Z.to_nat (Z.of_nat (length pre))) S dflt = x) by (rewrite Nat2Z.id, HS; apply nth_app_mid).
      assert (Hlt : (Z.to_nat (Z.of_nat (length pre)) < length S)%nat)
        by (rewrite Nat2Z.id, HS, app_length; cbn; lia).
      assert (HI' : Inv (Z.to_nat (Z.of_nat (length pre))) vs) by (rewrite Nat2Z.id; exact HI).
      destruct (HF _ x vs md (Z.of_nat mi) Hx (Zle_0_nat _) Hlt HI') as (H1 & H2 & H3 & H4).
      rewrite Nat2Z.id in H1, H2, H3.
      destruct (F (Z.of_nat (length pre)) x (vs, md, Z.of_nat mi)) as [[vs' md'] mi'] eqn:EF.
      cbn [fst snd] in H1, H2, H3, H4.
      assert (HS' : S = (pre ++ [x]) ++ xs) by (rewrite <- app_assoc; exact HS).
      assert (E2 : Datatypes.S (length pre) = length (pre ++ [x])) by (rewrite app_length; cbn; lia).
      assert (HT' : table_ok (length (pre ++ [x])) vs').
      { intros j Hj. rewrite <- E2 in Hj. destruct (Nat.eq_dec j (length pre)) as [->|Hne].
        - rewrite H3, <- Hx, Nat2Z.id. reflexivity.
        - rewrite H2 by lia. apply HT. lia. }
      rewrite (Z_of_nat_len_snoc pre x). rewrite E2 in H1.
      destruct ((md <? o0 O) || (fst (Iv x) <? md)); inversion H4; subst md' mi'; rewrite E2.
      + exact (IH (pre ++ [x]) vs' (fst (Iv x)) (length pre) HS' H1 HT').
      + exact (IH (pre ++ [x]) vs' md mi HS' H1 HT').
  Qed.

  (* second loop: every other operand whose box is within the bound.  The body may read the minimum box
     distance back from the table (Hk) or recompute it *)
  Lemma union2_loop2 : forall (vs : list A) (b : T) (mi : nat) (F : Z -> E -> T -> T),
    table_ok (length S) vs ->
    (forall i x, nth (Z.to_nat i) S dflt = x -> (Z.to_nat i < length S)%nat ->
        key (nth (Z.to_nat i) vs da) = fst (Iv x) -> forall d,
        F i x d = if negb (Z.eqb i (Z.of_nat mi)) && (fst (Iv x) <=? b) then minf d (X x) else d) ->
    forall xs pre d, S = pre ++ xs ->
      range_loop xs (Z.of_nat (length pre)) F d = prune_loop minf b mi (map (fun x => (Iv x, X x)) xs) (length pre) d.
  Proof.
    intros vs b mi F Hvs HF. induction xs as [|x xs IH]; intros pre d HS; [reflexivity|].
    cbn [range_loop map prune_loop].
    assert (Hx : nth (Z.to_nat (Z.of_nat (length pre))) S dflt = x) by (rewrite Nat2Z.id, HS; apply nth_app_mid).
    assert (Hlt : (Z.to_nat (Z.of_nat (length pre)) < length S)%nat)
      by (rewrite Nat2Z.id, HS, app_length; cbn; lia).
    rewrite (HF _ x Hx Hlt) by (rewrite <- Hx; apply Hvs; exact Hlt).
    rewrite Zeqb_of_nat.
    assert (HS' : S = (pre ++ [x]) ++ xs) by (rewrite <- app_assoc; exact HS).
    assert (E2 : Datatypes.S (length pre) = length (pre ++ [x])) by (rewrite app_length; cbn; lia).
    rewrite (Z_of_nat_len_snoc pre x), E2.
    destruct (negb (Nat.eqb (length pre) mi) && (fst (Iv x) <=? b)); apply (IH (pre ++ [x]) _ HS').
  Qed.

  (* EvaluateSlow *)
  Lemma union2_slow : forall (F : Z -> E -> T -> T),
    (forall i x, nth (Z.to_nat i) S dflt = x -> forall d,
        F i x d = if Z.eqb i 0 then X x else minf d (X x)) ->
    forall xs pre d, S = pre ++ xs ->
      range_loop xs (Z.of_nat (length pre)) F d = slow_loop minf (map X xs) (Nat.eqb (length pre) 0) d.
  Proof.
    intros F HF. induction xs as [|x xs IH]; intros pre d HS; [reflexivity|].
    cbn [range_loop map slow_loop].
    rewrite (HF _ x) by (rewrite Nat2Z.id; subst S; apply nth_app_mid).
    change 0%Z with (Z.of_nat 0). rewrite Zeqb_of_nat.
    assert (HS' : S = (pre ++ [x]) ++ xs) by (rewrite <- app_assoc; exact HS).
    rewrite (Z_of_nat_len_snoc pre x), (IH (pre ++ [x]) _ HS').
    replace (Nat.eqb (length (pre ++ [x])) 0) with false by (rewrite app_length; cbn; rewrite Nat.add_1_r; reflexivity).
    reflexivity.
  Qed.

  (* the model's pruned evaluation, once the operand with the closest box is known *)
  Lemma evaluate_prune : forall md mi,
    min_index (map Iv S) 0 (- o1 O) 0 = (md, mi) -> (mi < length S)%nat ->
    evaluate false minf (map (fun e => (Iv e, X e)) S) =
    prune_loop minf (X (nth mi S dflt) * X (nth mi S dflt)) mi (map (fun e => (Iv e, X e)) S) 0 (X (nth mi S dflt)).
  Proof.
    intros md mi Emi Hmi. unfold evaluate. rewrite map_map. cbn [fst].
    change (map (fun x : E => Iv x) S) with (map Iv S). rewrite Emi.
    set (g := fun e : E => (Iv e, X e)).
    rewrite (nth_indep (map g S) (o0 O, o0 O, o0 O) (g dflt)) by (rewrite map_length; exact Hmi).
    rewrite (map_nth g). reflexivity.
  Qed.
End UnionLoops.


Section GenEqLoops.
  Context {O : Ops}.
  Notation T := (T O).
  Notation V2 := (V2 O).
  Notation V3 := (V3 O).

  Definition obj2_same (a b : option (Obj2 O)) : Prop :=
    match a, b with
    | Some x, Some y => bb2 x = bb2 y /\ forall p, ev2 x p = ev2 y p
    | None, None => True
    | _, _ => False
    end.
  Definition obj3_same (a b : option (Obj3 O)) : Prop :=
    match a, b with
    | Some x, Some y => bb3 x = bb3 y /\ forall p, ev3 x p = ev3 y p
    | None, None => True
    | _, _ => False
    end.

  (* a slice of SDFs is the list of (Evaluate, BoundingBox) pairs of its operands *)
  Definition pf2 (s : Obj2 O) : (V2 -> T) * Box2 O := (ev2 s, bb2 s).
  Definition pf3 (s : Obj3 O) : (V3 -> T) * Box3 O := (ev3 s, bb3 s).

  Definition dflt2 : (V2 -> T) * Box2 O := ((fun _ : V2 => o0 O), mkBox2 (mkV2 (o0 O) (o0 O)) (mkV2 (o0 O) (o0 O))).
  Definition dflt3 : (V3 -> T) * Box3 O := ((fun _ : V3 => o0 O), mkBox3 (mkV3 (o0 O) (o0 O) (o0 O)) (mkV3 (o0 O) (o0 O) (o0 O))).

  (* ---- vec/v2, vec/v3: VecSet.Min / Max: whatever loop form the source uses (range over the values, over the
     indices, a counted loop up to len), the loop is the fold of the model *)
  Ltac vecset_tac s gen d h :=
    intros l;
    first [ solve [destruct l; reflexivity]
          | unfold gen; cbv zeta; norm_loops;
            match goal with |- range_loop l 0%Z ?F ?st = _ =>
              rewrite (range_loop_as_fold l d h F) by (step_tac s)
            end; destruct l; same_tac s
          | fail 1 s ": the loop generated from the current Go source is not the fold of the hand-written model" ].
  Lemma v2_VecSet_Min_eq : forall l : list V2, v2_VecSet_Min l = v2set_min l.
  Proof. vecset_tac TRANSL_v2_VecSet_Min (@v2_VecSet_Min) (mkV2 (o0 O) (o0 O)) (@v2min O). Qed.
  Lemma v2_VecSet_Max_eq : forall l : list V2, v2_VecSet_Max l = v2set_max l.
  Proof. vecset_tac TRANSL_v2_VecSet_Max (@v2_VecSet_Max) (mkV2 (o0 O) (o0 O)) (@v2max O). Qed.
  Lemma v3_VecSet_Min_eq : forall l : list V3, v3_VecSet_Min l = v3set_min l.
  Proof. vecset_tac TRANSL_v3_VecSet_Min (@v3_VecSet_Min) (mkV3 (o0 O) (o0 O) (o0 O)) (@v3min O). Qed.
  Lemma v3_VecSet_Max_eq : forall l : list V3, v3_VecSet_Max l = v3set_max l.
  Proof. vecset_tac TRANSL_v3_VecSet_Max (@v3_VecSet_Max) (mkV3 (o0 O) (o0 O) (o0 O)) (@v3max O). Qed.
  Lemma mulVertices2_eq : forall (v : list V2) (a : list T), sdf_mulVertices2 v a = map (m33_mulposition a) v.
  Proof. intros. unfold sdf_mulVertices2. cbv zeta. norm_loops.
    first [ exact (range_loop_set_map (m33_mulposition a) _ v)
          | fail 1 "TRANSL_mulVertices2: the loop generated from the current Go source is not `v[i] = a.MulPosition(v[i])` for every i" ]. Qed.
  Lemma mulVertices3_eq : forall (v : list V3) (a : list T), sdf_mulVertices3 v a = map (m44_mulposition a) v.
  Proof. intros. unfold sdf_mulVertices3. cbv zeta. norm_loops.
    first [ exact (range_loop_set_map (m44_mulposition a) _ v)
          | fail 1 "TRANSL_mulVertices3: the loop generated from the current Go source is not `v[i] = a.MulPosition(v[i])` for every i" ]. Qed.

  (* ---- sdf/box2.go, sdf/box3.go: MinMaxDist2.  Both sides are `let '(mn, mx) := <vertex loop> in
     <faces and edges>`: the loops over the 4 / 8 vertices first (by computation), then a case split *)
  Lemma Box2_MinMaxDist2_eq : forall (a : Box2 O) (p : V2), sdf_Box2_MinMaxDist2 a p = box2_minmax a p.
  Proof.
    intros. unfold sdf_Box2_MinMaxDist2, box2_minmax. cbv zeta.
    change (box2_translate a (v2neg p)) with (sdf_Box2_Translate a (v2_Vec_Neg p)).
    generalize (sdf_Box2_Translate a (v2_Vec_Neg p)). intros [[x0 y0] [x1 y1]].
    minmax_eq TRANSL_Box2_MinMaxDist2.
  Qed.
  Lemma Box3_MinMaxDist2_eq : forall (a : Box3 O) (p : V3), sdf_Box3_MinMaxDist2 a p = box3_minmax a p.
  Proof.
    intros. unfold sdf_Box3_MinMaxDist2, box3_minmax. cbv zeta.
    change (box3_translate a (v3neg p)) with (sdf_Box3_Translate a (v3_Vec_Neg p)).
    generalize (sdf_Box3_Translate a (v3_Vec_Neg p)). intros [[x0 y0 z0] [x1 y1 z1]].
    minmax_eq TRANSL_Box3_MinMaxDist2.
  Qed.

  (* ---- UnionSDF2.EvaluateSlow *)
  Lemma UnionSlow2_eq : forall (minf : T -> T -> T) (l : list (Obj2 O)) (p : V2),
    sdf_UnionSDF2_EvaluateSlow (map pf2 l) minf p =
    evaluate_slow minf (map (fun x => (box2_minmax (bb2 x) p, ev2 x p)) l).
  Proof.
    intros. unfold sdf_UnionSDF2_EvaluateSlow, evaluate_slow. rewrite map_map. cbn [snd].
    match goal with |- range_loop ?S0 0%Z ?F ?d = _ =>
      rewrite (union2_slow S0 dflt2 (fun e => fst e p) minf F) with (pre := []) (xs := S0);
      [ | step_eq TRANSL_UnionSlow2 | reflexivity ]
    end.
    rewrite map_map. reflexivity.
  Qed.

  (* ---- UnionSDF2.Evaluate *)
  (* the first loop satisfies the specification of its iteration (loop1_step): reads of the entry just
     written are forwarded, then case analysis on the atomic tests, then each part by conversion *)
  Ltac loop1_parts :=
    repeat match goal with |- _ /\ _ => split end;
    first [ reflexivity
          | solve [len_tac]
          | solve [intros; first [ rewrite nth_list_set_other by lia | rewrite nth_snoc_before by len_tac ]; reflexivity]
          | solve [forward_reads; reflexivity] ].
  Ltac loop1_split :=
    repeat match goal with
           | |- context [if ?c then _ else _] =>
               lazymatch c with
               | true => fail | false => fail
               | _ => cond_atom c ltac:(fun a => first [ open_test a | destruct_cond a ]);
                      cbv beta iota; cbn [andb orb negb fst snd]
               end
           end.
  Ltac loop1_tac s :=
    intros ?i ?x ?vs ?md ?mi ?Hx ?Hi0 ?Hi ?HInv;
    repeat match goal with H : _ |- _ => progress cbv beta in H end; use_nth;
    first [ solve [cbv beta zeta iota; cbn [fst snd]; forward_reads; loop1_split; loop1_parts]
          | timeout 30 (solve [autounfold with sdfgen; cbv beta zeta iota; cbn [fst snd]; forward_reads; loop1_split; loop1_parts])
          | fail 1 s ": the first loop of UnionSDF2.Evaluate generated from the current Go source does not (only) record the minimum box distance of every operand and track the least of them" ].

  Lemma Union2_eval_eq : forall mk (l : list (Obj2 O)) (p : V2), (0 < length l)%nat ->
    sdf_UnionSDF2_Evaluate (map pf2 l) (min_apply mk) (min_is_blend mk) p =
    evaluate (min_is_blend mk) (min_apply mk) (map (fun x => (box2_minmax (bb2 x) p, ev2 x p)) l).
  Proof.
    intros mk l p Hlen. unfold sdf_UnionSDF2_Evaluate.
    destruct (min_is_blend mk); [apply UnionSlow2_eq|].
    set (S0 := map pf2 l).
    pose (Iv := (fun e => sdf_Box2_MinMaxDist2 (snd e) p) : (V2 -> T) * Box2 O -> Interval O).
    pose (X := fun e : (V2 -> T) * Box2 O => fst e p).
    assert (Hops : map (fun x => (box2_minmax (bb2 x) p, ev2 x p)) l = map (fun e => (Iv e, X e)) S0).
    { unfold S0. rewrite map_map. apply map_ext. intro a. unfold Iv, X, pf2. cbn [fst snd].
      f_equal; symmetry; apply Box2_MinMaxDist2_eq. }
    rewrite Hops. clear Hops.
    destruct (min_index (map Iv S0) 0 (- o1 O) 0) as [md mi] eqn:Emi.
    assert (Hmi : (mi < length S0)%nat).
    { pose proof (min_index_bound (map Iv S0) 0 (- o1 O) 0) as B. rewrite Emi, map_length in B. cbn [snd] in B.
      apply B. unfold S0. rewrite map_length. lia. }
    rewrite (evaluate_prune S0 dflt2 Iv X (min_apply mk) md mi Emi Hmi).
    cbv zeta. norm_loops.
    (* first loop: the table of minimum box distances, the least of them and its index *)
    match goal with |- context [range_loop S0 0%Z ?F ?st] =>
      let tF := type of F in
      lazymatch tF with Z -> _ -> (list ?A * _ * _)%type -> _ =>
        let da := zero_of O A in
        let go key Inv :=
          assert (H1 := union2_loop1 (A := A) S0 dflt2 da Iv key Inv F);
          match type of H1 with ?P -> _ =>
            assert (HF : P); [ subst Iv X; loop1_tac TRANSL_Union2 | specialize (H1 HF S0 [] (fst (fst st)) (- o1 O) 0%nat eq_refl); clear HF ]
          end;
          match type of H1 with ?P -> _ => assert (HP : P) by (cbv beta; cbn [length fst snd]; len_tac); specialize (H1 HP); clear HP end;
          match type of H1 with ?P -> _ => assert (HP : P) by (intros j Hj; inversion Hj); specialize (H1 HP); clear HP end in
        first [ go (fun a : A => fst a) (fun (_ : nat) (vs : list A) => length vs = length S0)
              | go (fun a : A => a) (fun (_ : nat) (vs : list A) => length vs = length S0)
              | go (fun a : A => fst a) (fun (n : nat) (vs : list A) => length vs = n)
              | go (fun a : A => a) (fun (n : nat) (vs : list A) => length vs = n)
              | fail 1 "TRANSL_Union2: the first loop of UnionSDF2.Evaluate generated from the current Go source does not (only) record the minimum box distance of every operand and track the least of them" ];
        cbn [length] in H1; rewrite Emi in H1;
        first [ set (R := range_loop S0 0%Z F st) in *;
                change (range_loop S0 (Z.of_nat 0) F (fst (fst st), - o1 O, Z.of_nat 0)) with R in H1
              | fail 1 "TRANSL_Union2: UnionSDF2.Evaluate generated from the current Go source does not start its first loop with minDist2 = -1 and minIndex = 0" ];
        clearbody R; destruct R as [[vs md'] mi']; cbn [fst snd] in H1;
        destruct H1 as (Htab & Hmd & Hmi'); subst md' mi'
      end
    end.
    cbv beta iota zeta. norm_loops. rewrite ?Nat2Z.id.
    (* second loop *)
    match goal with |- range_loop S0 0%Z ?F ?d = _ =>
      refine (union2_loop2 S0 dflt2 _ Iv X (min_apply mk) _ vs _ mi F Htab _ S0 [] d eq_refl)
    end.
    subst Iv X. intros i x Hx Hi Hk. cbv beta in Hk.
    first [ solve [step_eq TRANSL_Union2]
          | solve [intros; cbv beta zeta; rewrite ?Hk; use_nth; cbv beta zeta; split_ifs]
          | fail 1 "TRANSL_Union2: the second loop of UnionSDF2.Evaluate generated from the current Go source is not the pruned fold of the hand-written model" ].
  Qed.

  Lemma Union2_eq : forall mk (l : list (Obj2 O)) o p, (2 <= length l)%nat -> k_union2 mk l = Some o ->
    sdf_UnionSDF2_Evaluate (map pf2 l) (min_apply mk) (min_is_blend mk) p = ev2 o p.
  Proof.
    intros mk l o p Hlen H. rewrite Union2_eval_eq by lia.
    destruct l as [|s0 [|s1 r]]; cbn [length] in Hlen; try lia.
    unfold k_union2 in H. inversion H; subst; clear H. reflexivity.
  Qed.

  (* ---- UnionSDF3.Evaluate *)
  Lemma Union3_eq : forall mk (l : list (Obj3 O)) o p, (2 <= length l)%nat -> k_union3 mk l = Some o ->
    sdf_UnionSDF3_Evaluate (map pf3 l) (min_apply mk) p = ev3 o p.
  Proof.
    intros mk l o p Hlen H.
    destruct l as [|s0 [|s1 r]]; cbn [length] in Hlen; try lia.
    unfold k_union3 in H. inversion H; subst; clear H. cbn [ev3].
    unfold sdf_UnionSDF3_Evaluate. cbv zeta.
    match goal with |- range_loop ?S0 0%Z ?F _ = _ =>
      rewrite (range_loop_first_at S0 dflt3 (fun x : (V3 -> T) * Box3 O => fst x p) (fun d x => min_apply mk d (fst x p)) F)
        with (x0 := pf3 s0) (r := map pf3 (s1 :: r))
    end.
    - rewrite fold_left_map. reflexivity.
    - step_eq TRANSL_Union3.
    - intros i x s Hi Hx. destruct i; [lia | step_eq TRANSL_Union3 | lia].
    - reflexivity.
  Qed.

  (* ---- the constructors: nil operands are the caller's concern (operands are non-nil here) *)
  Lemma Zlen_eqb_0 : forall {A} (x : A) l, Z.eqb (Z.of_nat (length (x :: l))) 0 = false.
  Proof. intros. apply Z.eqb_neq. cbn [length]. lia. Qed.
  Lemma Zlen_eqb_1 : forall {A} (x y : A) l, Z.eqb (Z.of_nat (length (x :: y :: l))) 1 = false.
  Proof. intros. apply Z.eqb_neq. cbn [length]. lia. Qed.

  Lemma Union2D_ctor : forall l : list (Obj2 O),
    obj2_same (option_map obj2_of (sdf_Union2D (map pf2 l))) (k_union2 MinDef l).
  Proof.
    intros l. unfold sdf_Union2D. cbv zeta.
    (* the loop that strips the nil operands (there are none here) copies the list; it occurs wherever s.sdf is used *)
    first [ match goal with |- context [range_loop (map pf2 l) 0%Z ?F []] =>
              let L := fresh "L" in
              set (L := range_loop (map pf2 l) 0%Z F []) in *;
              assert (EL : L = map pf2 l) by (exact (range_loop_strip (map pf2 l) dflt2 F ltac:(step_eq TRANSL_Union2D_ctor) []));
              clearbody L; subst L
            end
          | fail 1 "TRANSL_Union2D_ctor: the constructor generated from the current Go source does not start by copying its non-nil operands" ].
    destruct l as [|s0 [|s1 r]].
    - exact I.
    - split; reflexivity.
    - cbn [map]. rewrite !Zlen_eqb_0, ?Zlen_eqb_1. cbv zeta. rewrite ?Zlen_eqb_0, ?Zlen_eqb_1. cbn [option_map obj2_of fst snd nth].
      unfold k_union2, obj2_same in *. split.
      + cbn [bb2]. rewrite <- !(map_cons pf2).
        match goal with |- context [range_loop ?S0 0%Z ?F ?a] =>
          rewrite (range_loop_as_fold S0 dflt2 (fun bb x => box2_extend bb (snd x)) F) by (step_eq TRANSL_Union2D_ctor)
        end.
        rewrite fold_left_map. same_as TRANSL_Union2D_ctor.
      + intro p. rewrite <- !(map_cons pf2). cbn [ev2].
        exact (Union2_eval_eq MinDef (s0 :: s1 :: r) p ltac:(cbn; lia)).
  Qed.

  Lemma Union3D_ctor : forall l : list (Obj3 O),
    obj3_same (option_map obj3_of (sdf_Union3D (map pf3 l))) (k_union3 MinDef l).
  Proof.
    intros l. unfold sdf_Union3D. cbv zeta.
    (* the loop that strips the nil operands (there are none here) copies the list; it occurs wherever s.sdf is used *)
    first [ match goal with |- context [range_loop (map pf3 l) 0%Z ?F []] =>
              let L := fresh "L" in
              set (L := range_loop (map pf3 l) 0%Z F []) in *;
              assert (EL : L = map pf3 l) by (exact (range_loop_strip (map pf3 l) dflt3 F ltac:(step_eq TRANSL_Union3D_ctor) []));
              clearbody L; subst L
            end
          | fail 1 "TRANSL_Union3D_ctor: the constructor generated from the current Go source does not start by copying its non-nil operands" ].
    destruct l as [|s0 [|s1 r]].
    - exact I.
    - split; reflexivity.
    - cbn [map]. rewrite !Zlen_eqb_0, ?Zlen_eqb_1. cbv zeta. rewrite ?Zlen_eqb_0, ?Zlen_eqb_1. cbn [option_map obj3_of fst snd nth].
      pose proof (Union3_eq MinDef (s0 :: s1 :: r)) as HE.
      unfold k_union3, obj3_same in *. split.
      + cbn [bb3]. rewrite <- !(map_cons pf3).
        match goal with |- context [range_loop ?S0 0%Z ?F ?a] =>
          rewrite (range_loop_as_fold S0 dflt3 (fun bb x => box3_extend bb (snd x)) F) by (step_eq TRANSL_Union3D_ctor)
        end.
        rewrite fold_left_map. same_as TRANSL_Union3D_ctor.
      + intro p. rewrite <- !(map_cons pf3). exact (HE _ p ltac:(cbn; lia) eq_refl).
  Qed.

  (* ---- Array *)
  Lemma Array2_eq : forall mk (s : Obj2 O) nx ny step o p, k_array2 mk s nx ny step = Some o ->
    sdf_ArraySDF2_Evaluate (ev2 s) (nx, ny) step (min_apply mk) p = ev2 o p.
  Proof. intros mk s nx ny step o p H. unfold k_array2 in H. open_k H. same_as TRANSL_Array2. Qed.
  Lemma Array3_eq : forall mk (s : Obj3 O) nx ny nz step o p, k_array3 mk s nx ny nz step = Some o ->
    sdf_ArraySDF3_Evaluate (ev3 s) (nx, ny, nz) step (min_apply mk) p = ev3 o p.
  Proof. intros mk s nx ny nz step o p H. unfold k_array3 in H. open_k H. same_as TRANSL_Array3. Qed.

  Lemma Array2D_ctor : forall (s : Obj2 O) nx ny step,
    option_map obj2_of (sdf_Array2D (ev2 s) (bb2 s) (nx, ny) step) = k_array2 MinDef s nx ny step.
  Proof. intros. unfold sdf_Array2D, k_array2. cbn [fst snd]. ctor_eq TRANSL_Array2D_ctor. Qed.
  Lemma Array3D_ctor : forall (s : Obj3 O) nx ny nz step,
    option_map obj3_of (sdf_Array3D (ev3 s) (bb3 s) (nx, ny, nz) step) = k_array3 MinDef s nx ny nz step.
  Proof. intros. unfold sdf_Array3D, k_array3. cbn [fst snd]. ctor_eq TRANSL_Array3D_ctor. Qed.

  (* ---- RotateUnion: Evaluate *)
  Lemma count_loop_rotunion2 : forall mk (f : V2 -> T) sstep p (F : Z -> T * list T -> T * list T),
    (forall i d rot, F i (d, rot) = (min_apply mk d (f (m33_mulposition rot p)), m33_mul rot sstep)) ->
    forall n i rot d, fst (Loop.count_loop n i F (d, rot)) = rotunion_loop2 mk f n sstep rot p d.
  Proof. intros mk f sstep p F HF. induction n as [|n IH]; intros; cbn; [reflexivity|]. rewrite HF. apply IH. Qed.
  Lemma count_loop_rotunion3 : forall mk (f : V3 -> T) sstep p (F : Z -> T * list T -> T * list T),
    (forall i d rot, F i (d, rot) = (min_apply mk d (f (m44_mulposition rot p)), m44_mul rot sstep)) ->
    forall n i rot d, fst (Loop.count_loop n i F (d, rot)) = rotunion_loop3 mk f n sstep rot p d.
  Proof. intros mk f sstep p F HF. induction n as [|n IH]; intros; cbn; [reflexivity|]. rewrite HF. apply IH. Qed.

  Lemma RotateUnion2_eq : forall mk (s : Obj2 O) num step o p, k_rotateunion2 mk s num step = Some o ->
    sdf_RotateUnionSDF2_Evaluate (ev2 s) num (m33_inverse step) (min_apply mk) p = ev2 o p.
  Proof.
    intros mk s num step o p H. unfold k_rotateunion2 in H.
    destruct (num <=? 0)%Z; [discriminate|]. destruct (rotunion_box2 _ _ _ _ _) as [bmin bmax].
    inversion H; subst; clear H. cbn [ev2]. unfold sdf_RotateUnionSDF2_Evaluate.
    apply count_loop_rotunion2. step_eq TRANSL_RotateUnion2.
  Qed.
  Lemma RotateUnion3_eq : forall mk (s : Obj3 O) num step o p, k_rotateunion3 mk s num step = Some o ->
    sdf_RotateUnionSDF3_Evaluate (ev3 s) num (m44_inverse step) (min_apply mk) p = ev3 o p.
  Proof.
    intros mk s num step o p H. unfold k_rotateunion3 in H.
    destruct (num <=? 0)%Z; [discriminate|]. destruct (rotunion_box3 _ _ _ _ _) as [bmin bmax].
    inversion H; subst; clear H. cbn [ev3]. unfold sdf_RotateUnionSDF3_Evaluate.
    apply count_loop_rotunion3. step_eq TRANSL_RotateUnion3.
  Qed.

  (* ---- RotateUnion: the bounding box loop of the constructor *)
  Lemma count_loop_rotbox2 : forall step (F : Z -> V2 * V2 * list V2 -> V2 * V2 * list V2),
    (forall i bmin bmax v, F i (bmin, bmax, v) = (v2min bmin (v2set_min v), v2max bmax (v2set_max v), map (m33_mulposition step) v)) ->
    forall n i v bmin bmax, fst (Loop.count_loop n i F (bmin, bmax, v)) = rotunion_box2 n step v bmin bmax.
  Proof. intros step F HF. induction n as [|n IH]; intros; cbn; [reflexivity|]. rewrite HF. apply IH. Qed.
  Lemma count_loop_rotbox3 : forall step (F : Z -> V3 * V3 * list V3 -> V3 * V3 * list V3),
    (forall i bmin bmax v, F i (bmin, bmax, v) = (v3min bmin (v3set_min v), v3max bmax (v3set_max v), map (m44_mulposition step) v)) ->
    forall n i v bmin bmax, fst (Loop.count_loop n i F (bmin, bmax, v)) = rotunion_box3 n step v bmin bmax.
  Proof. intros step F HF. induction n as [|n IH]; intros; cbn; [reflexivity|]. rewrite HF. apply IH. Qed.

  (* the same loop when the source assigns the two corners in the other order (the state is (bbMax, bbMin, v)) *)
  Lemma count_loop_rotbox2_sw : forall step (F : Z -> V2 * V2 * list V2 -> V2 * V2 * list V2),
    (forall i bmax bmin v, F i (bmax, bmin, v) = (v2max bmax (v2set_max v), v2min bmin (v2set_min v), map (m33_mulposition step) v)) ->
    forall n i v bmin bmax, (snd (fst (Loop.count_loop n i F (bmax, bmin, v))), fst (fst (Loop.count_loop n i F (bmax, bmin, v)))) = rotunion_box2 n step v bmin bmax.
  Proof. intros step F HF. induction n as [|n IH]; intros; cbn; [reflexivity|]. rewrite HF. apply IH. Qed.
  Lemma count_loop_rotbox3_sw : forall step (F : Z -> V3 * V3 * list V3 -> V3 * V3 * list V3),
    (forall i bmax bmin v, F i (bmax, bmin, v) = (v3max bmax (v3set_max v), v3min bmin (v3set_min v), map (m44_mulposition step) v)) ->
    forall n i v bmin bmax, (snd (fst (Loop.count_loop n i F (bmax, bmin, v))), fst (fst (Loop.count_loop n i F (bmax, bmin, v)))) = rotunion_box3 n step v bmin bmax.
  Proof. intros step F HF. induction n as [|n IH]; intros; cbn; [reflexivity|]. rewrite HF. apply IH. Qed.

  Lemma RotateUnion2D_ctor : forall (s : Obj2 O) num step,
    obj2_same (option_map obj2_of (sdf_RotateUnion2D (ev2 s) (bb2 s) num step)) (k_rotateunion2 MinDef s num step).
  Proof.
    intros. pose proof (RotateUnion2_eq MinDef s num step) as HE.
    unfold sdf_RotateUnion2D, k_rotateunion2 in *.
    destruct (num <=? 0)%Z; [exact I|]. cbv zeta in *.
    match goal with |- context [Loop.count_loop ?n0 ?i0 ?F ?st] =>
      first [
        assert (HB : fst (Loop.count_loop n0 i0 F st) =
                     rotunion_box2 (Z.to_nat num) step (box2_vertices (bb2 s)) (hd v2zero (box2_vertices (bb2 s))) (hd v2zero (box2_vertices (bb2 s))));
        [ apply (count_loop_rotbox2 step F); intros; cbv beta iota;
          rewrite ?v2_VecSet_Min_eq, ?v2_VecSet_Max_eq, ?mulVertices2_eq; step_eq TRANSL_RotateUnion2D_ctor
        | destruct (Loop.count_loop n0 i0 F st) as [[bbMin bbMax] v] ]
      | (* the two corners assigned in the other order *)
        assert (HB : (snd (fst (Loop.count_loop n0 i0 F st)), fst (fst (Loop.count_loop n0 i0 F st))) =
                     rotunion_box2 (Z.to_nat num) step (box2_vertices (bb2 s)) (hd v2zero (box2_vertices (bb2 s))) (hd v2zero (box2_vertices (bb2 s))));
        [ apply (count_loop_rotbox2_sw step F); intros; cbv beta iota;
          rewrite ?v2_VecSet_Min_eq, ?v2_VecSet_Max_eq, ?mulVertices2_eq; step_eq TRANSL_RotateUnion2D_ctor
        | destruct (Loop.count_loop n0 i0 F st) as [[bbMax bbMin] v] ]
      | fail 1 "TRANSL_RotateUnion2D_ctor: the bounding-box loop generated from the current Go source is not the loop of the hand-written model" ]
    end.
    cbn [fst snd] in HB. rewrite <- HB in *.
    split; [reflexivity|]. intro p. exact (HE _ p eq_refl).
  Qed.
  Lemma RotateUnion3D_ctor : forall (s : Obj3 O) num step,
    obj3_same (option_map obj3_of (sdf_RotateUnion3D (ev3 s) (bb3 s) num step)) (k_rotateunion3 MinDef s num step).
  Proof.
    intros. pose proof (RotateUnion3_eq MinDef s num step) as HE.
    unfold sdf_RotateUnion3D, k_rotateunion3 in *.
    destruct (num <=? 0)%Z; [exact I|]. cbv zeta in *.
    match goal with |- context [Loop.count_loop ?n0 ?i0 ?F ?st] =>
      first [
        assert (HB : fst (Loop.count_loop n0 i0 F st) =
                     rotunion_box3 (Z.to_nat num) step (box3_vertices (bb3 s)) (hd v3zero (box3_vertices (bb3 s))) (hd v3zero (box3_vertices (bb3 s))));
        [ apply (count_loop_rotbox3 step F); intros; cbv beta iota;
          rewrite ?v3_VecSet_Min_eq, ?v3_VecSet_Max_eq, ?mulVertices3_eq; step_eq TRANSL_RotateUnion3D_ctor
        | destruct (Loop.count_loop n0 i0 F st) as [[bbMin bbMax] v] ]
      | (* the two corners assigned in the other order *)
        assert (HB : (snd (fst (Loop.count_loop n0 i0 F st)), fst (fst (Loop.count_loop n0 i0 F st))) =
                     rotunion_box3 (Z.to_nat num) step (box3_vertices (bb3 s)) (hd v3zero (box3_vertices (bb3 s))) (hd v3zero (box3_vertices (bb3 s))));
        [ apply (count_loop_rotbox3_sw step F); intros; cbv beta iota;
          rewrite ?v3_VecSet_Min_eq, ?v3_VecSet_Max_eq, ?mulVertices3_eq; step_eq TRANSL_RotateUnion3D_ctor
        | destruct (Loop.count_loop n0 i0 F st) as [[bbMax bbMin] v] ]
      | fail 1 "TRANSL_RotateUnion3D_ctor: the bounding-box loop generated from the current Go source is not the loop of the hand-written model" ]
    end.
    cbn [fst snd] in HB. rewrite <- HB in *.
    split; [reflexivity|]. intro p. exact (HE _ p eq_refl).
  Qed.

  (* ---- constructors whose loops run over the vertices of a box *)
  Lemma RotateCopy2D_ctor : forall (s : Obj2 O) n,
    option_map obj2_of (sdf_RotateCopy2D (ev2 s) (bb2 s) n) = k_rotatecopy2 s n.
  Proof. intros. unfold sdf_RotateCopy2D, k_rotatecopy2. ctor_eq TRANSL_RotateCopy2D_ctor. Qed.
  Lemma RotateCopy3D_ctor : forall (s : Obj3 O) n,
    option_map obj3_of (sdf_RotateCopy3D (ev3 s) (bb3 s) n) = k_rotatecopy3 s n.
  Proof. intros. unfold sdf_RotateCopy3D, k_rotatecopy3. ctor_eq TRANSL_RotateCopy3D_ctor. Qed.

  Lemma Slice2D_ctor : forall (s : Obj3 O) a n,
    option_map obj2_of (sdf_Slice2D (ev3 s) (bb3 s) a n) = k_slice2 s a n.
  Proof. intros. unfold sdf_Slice2D, k_slice2. fold (slice_u0 n). generalize (slice_u0 n). intro u0.
    destruct s as [f [[x0 y0 z0] [x1 y1 z1]]]. vm_eq TRANSL_Slice2D_ctor.
  Qed.

  Lemma RevolveTheta3D_ctor : forall (s : Obj2 O) theta,
    option_map obj3_of (sdf_RevolveTheta3D (ev2 s) (bb2 s) theta) = k_revolve s theta.
  Proof.
    intros. unfold sdf_RevolveTheta3D, sdf_SorSDF3_Evaluate, k_revolve. cbv zeta.
    split_ifs; same_as TRANSL_RevolveTheta3D_ctor.
  Qed.
  Lemma Revolve3D_ctor : forall (s : Obj2 O),
    option_map obj3_of (sdf_Revolve3D (ev2 s) (bb2 s)) = k_revolve s (o0 O).
  Proof. intros. unfold sdf_Revolve3D. via_ctor TRANSL_Revolve3D_ctor (RevolveTheta3D_ctor s (o0 O)). Qed.

  Lemma TwistExtrude3D_ctor : forall (s : Obj2 O) height twist,
    option_map obj3_of (sdf_TwistExtrude3D (ev2 s) (bb2 s) height twist) = k_twistextrude s height twist.
  Proof. intros. unfold sdf_TwistExtrude3D, k_twistextrude. ctor_eq TRANSL_TwistExtrude3D_ctor. Qed.
  Lemma ScaleTwistExtrude3D_ctor : forall (s : Obj2 O) height twist scale,
    option_map obj3_of (sdf_ScaleTwistExtrude3D (ev2 s) (bb2 s) height twist scale) = k_scaletwistextrude s height twist scale.
  Proof. intros. unfold sdf_ScaleTwistExtrude3D, k_scaletwistextrude. ctor_eq TRANSL_ScaleTwistExtrude3D_ctor. Qed.
  (* ---- mutators (SetMin / SetMax / SetExtrude): the new values of the fields they assign.  In the
     model the blend is the MinK / MaxK argument of k_xxx; UnionSDF2.SetMin also sets the flag that
     switches the box pruning off (min_is_blend) *)
  Lemma UnionSDF2_SetMin_eq : forall mk : MinK O, mk <> MinDef ->
    sdf_UnionSDF2_SetMin (min_apply mk) = (min_apply mk, min_is_blend mk).
  Proof. intros mk H. destruct mk; [contradiction | | | ]; same_as TRANSL_UnionSDF2_SetMin. Qed.
  Lemma SetMin_SetMax_eq : forall f : T -> T -> T,
    sdf_IntersectionSDF2_SetMax f = f /\ sdf_DifferenceSDF2_SetMax f = f /\ sdf_ArraySDF2_SetMin f = f /\
    sdf_RotateUnionSDF2_SetMin f = f /\ sdf_UnionSDF3_SetMin f = f /\ sdf_DifferenceSDF3_SetMax f = f /\
    sdf_IntersectionSDF3_SetMax f = f /\ sdf_ArraySDF3_SetMin f = f /\ sdf_RotateUnionSDF3_SetMin f = f.
  Proof. intros. repeat split; same_as TRANSL_SetMin_SetMax. Qed.
  Lemma SetExtrude_eq : forall f : V3 -> V2, sdf_ExtrudeSDF3_SetExtrude f = f.
  Proof. same_as TRANSL_SetExtrude. Qed.
End GenEqLoops.
