(* The syntactic tie: every definition of Generated/SdfExpr.v (produced by harness/sdfgen from
   the Go AST of vec/v2/v2.go, vec/v3/v3.go, vec/conv/conv.go, sdf/utils.go, sdf/sdf2.go,
   sdf/sdf3.go, sdf/box2.go, sdf/box3.go, sdf/matrix.go (MulBox) on every run) is equal, for all
   arguments and over an arbitrary `O : Ops`, to the hand-written model function of Geo/Vec.v,
   Geo/Box.v, Geo/Mat.v, Sdf/Union2.v, Sdf/Shape.v.  All proofs are by conversion (`same_as` =
   reflexivity after unfolding the constructor guards; `destruct` of one boolean where Go writes
   `if x != 0 {..}` and the model `if x =? 0 then .. else ..`), so they hold exactly as long as
   the Go function and the model function are the same term up to let-structure.  An edit of the
   Go source (or of the model) that changes what a function computes makes the lemma of that
   function fail, with the message `Tactic failure: TRANSL_<name>: ...` naming the theorem of
   Props/TRANSL.v that cites it.

   Evaluate methods: the receiver fields are parameters of the generated definition; the lemma
   substitutes what the model's constructor `k_xxx` pre-computes and is stated about the
   closure of the object `k_xxx` returns.
   Constructors (the loop-free ones): the generated definition returns None where Go returns
   nil / an error, and otherwise the pair (Evaluate, BoundingBox) of the struct it built; the
   lemma `Xxx_ctor` says that this is the model's `k_xxx`, object for object (argument checks,
   pre-computed fields, closure and bounding box).  Wrapped SDF arguments are assumed non-nil,
   as in the model (`x == nil` is translated to `false`).

   Deviations of the hand model from the Go source that the first version of this file exposed
   (the equalities below did not hold); both have since been repaired in the model, and the
   lemmas are now plain equalities:
   * v2divs / v3divs (Geo/Vec.v) divided component-wise; Go's Vec.DivScalar is
     `a.MulScalar(1 / b)` (differs in float64: 3*(1/10) <> 3/10).  Used by ex_scale /
     ex_scaletwist (the slope `m`).
   * k_loft (Sdf/Shape.v) had no `if s.height != 0` guard around the mix factor: the Go code
     (after fix 418602f) uses k = 0.5 when height = 2*round; the model computed
     clamp (0.5*z/0 + 0.5) = NaN on the mid-plane there. *)
From Coq Require Import ZArith List Bool.
From Sdfx Require Import Num.Ops Geo.Vec Geo.Box Geo.Mat Sdf.Union2 Sdf.Shape Generated.SdfExpr.
Import OpsNotations ListNotations.
Local Open Scope ops_scope.

(* open the constructor: discharge the argument checks that return None, expose the object *)
Ltac open_k H :=
  repeat match type of H with
         | (if ?c then None else _) = Some _ => destruct c; [discriminate H|]
         end;
  inversion H; subst; clear H.

(* `same_as TRANSL_x`: reflexivity, with a failure message that names the theorem of Props/TRANSL.v *)
Ltac same_tac s :=
  first [ reflexivity
        | fail 1 s ": the definition generated from the current Go source is not convertible to the hand-written model" ].
Tactic Notation "same_as" ident(s) := same_tac s.

(* constructor equality: split on the argument checks (the same boolean terms on both sides),
   then both sides are the same object up to conversion *)
Ltac ctor_tac s :=
  cbv zeta; cbn [orb andb];
  repeat (try reflexivity;
          match goal with
          | |- context [if ?c then _ else _] =>
              lazymatch c with false => fail | true => fail | negb ?d => destruct d | _ => destruct c end
          end);
  same_tac s.
Tactic Notation "ctor_eq" ident(s) := ctor_tac s.

Section GenEq.
  Context {O : Ops}.
  Notation T := (T O).
  Notation V2 := (V2 O).
  Notation V3 := (V3 O).

  (* ------------------------------------------------------------ vec/v2/v2.go *)
  Lemma v2_Add_eq : forall a b : V2, v2_Vec_Add a b = v2add a b. Proof. same_as TRANSL_v2_Add. Qed.
  Lemma v2_Sub_eq : forall a b : V2, v2_Vec_Sub a b = v2sub a b. Proof. same_as TRANSL_v2_Sub. Qed.
  Lemma v2_Mul_eq : forall a b : V2, v2_Vec_Mul a b = v2mul a b. Proof. same_as TRANSL_v2_Mul. Qed.
  Lemma v2_Div_eq : forall a b : V2, v2_Vec_Div a b = v2div a b. Proof. same_as TRANSL_v2_Div. Qed.
  Lemma v2_Neg_eq : forall a : V2, v2_Vec_Neg a = v2neg a. Proof. same_as TRANSL_v2_Neg. Qed.
  Lemma v2_Abs_eq : forall a : V2, v2_Vec_Abs a = v2abs a. Proof. same_as TRANSL_v2_Abs. Qed.
  Lemma v2_MulScalar_eq : forall (a : V2) (k : T), v2_Vec_MulScalar a k = v2muls a k. Proof. same_as TRANSL_v2_MulScalar. Qed.
  Lemma v2_AddScalar_eq : forall (a : V2) (k : T), v2_Vec_AddScalar a k = v2adds a k. Proof. same_as TRANSL_v2_AddScalar. Qed.
  Lemma v2_SubScalar_eq : forall (a : V2) (k : T), v2_Vec_SubScalar a k = v2subs a k. Proof. same_as TRANSL_v2_SubScalar. Qed.
  Lemma v2_Min_eq : forall a b : V2, v2_Vec_Min a b = v2min a b. Proof. same_as TRANSL_v2_Min. Qed.
  Lemma v2_Max_eq : forall a b : V2, v2_Vec_Max a b = v2max a b. Proof. same_as TRANSL_v2_Max. Qed.
  Lemma v2_Dot_eq : forall a b : V2, v2_Vec_Dot a b = v2dot a b. Proof. same_as TRANSL_v2_Dot. Qed.
  Lemma v2_Cross_eq : forall a b : V2, v2_Vec_Cross a b = v2cross a b. Proof. same_as TRANSL_v2_Cross. Qed.
  Lemma v2_Length2_eq : forall a : V2, v2_Vec_Length2 a = v2len2 a. Proof. same_as TRANSL_v2_Length2. Qed.
  Lemma v2_Length_eq : forall a : V2, v2_Vec_Length a = v2len a. Proof. same_as TRANSL_v2_Length. Qed.
  Lemma v2_Normalize_eq : forall a : V2, v2_Vec_Normalize a = v2normalize a. Proof. same_as TRANSL_v2_Normalize. Qed.
  Lemma v2_MinComponent_eq : forall a : V2, v2_Vec_MinComponent a = v2mincomp a. Proof. same_as TRANSL_v2_MinComponent. Qed.
  Lemma v2_MaxComponent_eq : forall a : V2, v2_Vec_MaxComponent a = v2maxcomp a. Proof. same_as TRANSL_v2_MaxComponent. Qed.
  Lemma v2_clamp_eq : forall x a b : T, v2_clamp x a b = clamp x a b. Proof. same_as TRANSL_v2_clamp. Qed.
  Lemma v2_Clamp_eq : forall a b c : V2, v2_Vec_Clamp a b c = v2clamp a b c. Proof. same_as TRANSL_v2_Clamp. Qed.
  Lemma v2_DivScalar_eq : forall (a : V2) (k : T), v2_Vec_DivScalar a k = v2divs a k. Proof. same_as TRANSL_v2_DivScalar. Qed.

  (* ------------------------------------------------------------ vec/v3/v3.go *)
  Lemma v3_Add_eq : forall a b : V3, v3_Vec_Add a b = v3add a b. Proof. same_as TRANSL_v3_Add. Qed.
  Lemma v3_Sub_eq : forall a b : V3, v3_Vec_Sub a b = v3sub a b. Proof. same_as TRANSL_v3_Sub. Qed.
  Lemma v3_Mul_eq : forall a b : V3, v3_Vec_Mul a b = v3mul a b. Proof. same_as TRANSL_v3_Mul. Qed.
  Lemma v3_Div_eq : forall a b : V3, v3_Vec_Div a b = v3div a b. Proof. same_as TRANSL_v3_Div. Qed.
  Lemma v3_Neg_eq : forall a : V3, v3_Vec_Neg a = v3neg a. Proof. same_as TRANSL_v3_Neg. Qed.
  Lemma v3_Abs_eq : forall a : V3, v3_Vec_Abs a = v3abs a. Proof. same_as TRANSL_v3_Abs. Qed.
  Lemma v3_MulScalar_eq : forall (a : V3) (k : T), v3_Vec_MulScalar a k = v3muls a k. Proof. same_as TRANSL_v3_MulScalar. Qed.
  Lemma v3_AddScalar_eq : forall (a : V3) (k : T), v3_Vec_AddScalar a k = v3adds a k. Proof. same_as TRANSL_v3_AddScalar. Qed.
  Lemma v3_SubScalar_eq : forall (a : V3) (k : T), v3_Vec_SubScalar a k = v3subs a k. Proof. same_as TRANSL_v3_SubScalar. Qed.
  Lemma v3_Min_eq : forall a b : V3, v3_Vec_Min a b = v3min a b. Proof. same_as TRANSL_v3_Min. Qed.
  Lemma v3_Max_eq : forall a b : V3, v3_Vec_Max a b = v3max a b. Proof. same_as TRANSL_v3_Max. Qed.
  Lemma v3_Dot_eq : forall a b : V3, v3_Vec_Dot a b = v3dot a b. Proof. same_as TRANSL_v3_Dot. Qed.
  Lemma v3_Cross_eq : forall a b : V3, v3_Vec_Cross a b = v3cross a b. Proof. same_as TRANSL_v3_Cross. Qed.
  Lemma v3_Length2_eq : forall a : V3, v3_Vec_Length2 a = v3len2 a. Proof. same_as TRANSL_v3_Length2. Qed.
  Lemma v3_Length_eq : forall a : V3, v3_Vec_Length a = v3len a. Proof. same_as TRANSL_v3_Length. Qed.
  Lemma v3_Normalize_eq : forall a : V3, v3_Vec_Normalize a = v3normalize a. Proof. same_as TRANSL_v3_Normalize. Qed.
  Lemma v3_MinComponent_eq : forall a : V3, v3_Vec_MinComponent a = v3mincomp a. Proof. same_as TRANSL_v3_MinComponent. Qed.
  Lemma v3_MaxComponent_eq : forall a : V3, v3_Vec_MaxComponent a = v3maxcomp a. Proof. same_as TRANSL_v3_MaxComponent. Qed.
  Lemma v3_clamp_eq : forall x a b : T, v3_clamp x a b = clamp x a b. Proof. same_as TRANSL_v3_clamp. Qed.
  Lemma v3_Clamp_eq : forall a b c : V3, v3_Vec_Clamp a b c = v3clamp a b c. Proof. same_as TRANSL_v3_Clamp. Qed.
  Lemma v3_DivScalar_eq : forall (a : V3) (k : T), v3_Vec_DivScalar a k = v3divs a k. Proof. same_as TRANSL_v3_DivScalar. Qed.
  Lemma v3_LTEZero_eq : forall a : V3, v3_Vec_LTEZero a = v3_lte_zero a. Proof. same_as TRANSL_v3_LTEZero. Qed.

  (* ------------------------------------------------------------ sdf/box2.go, sdf/box3.go *)
  Lemma NewBox2_eq : forall center size : V2, sdf_NewBox2 center size = newbox2 center size. Proof. same_as TRANSL_NewBox2. Qed.
  Lemma Box2_Extend_eq : forall a b : Box2 O, sdf_Box2_Extend a b = box2_extend a b. Proof. same_as TRANSL_Box2_Extend. Qed.
  Lemma Box2_Include_eq : forall (a : Box2 O) (v : V2), sdf_Box2_Include a v = box2_include a v. Proof. same_as TRANSL_Box2_Include. Qed.
  Lemma Box2_Translate_eq : forall (a : Box2 O) (v : V2), sdf_Box2_Translate a v = box2_translate a v. Proof. same_as TRANSL_Box2_Translate. Qed.
  Lemma Box2_Size_eq : forall a : Box2 O, sdf_Box2_Size a = box2_size a. Proof. same_as TRANSL_Box2_Size. Qed.
  Lemma Box2_Center_eq : forall a : Box2 O, sdf_Box2_Center a = box2_center a. Proof. same_as TRANSL_Box2_Center. Qed.
  Lemma Box2_ScaleAboutCenter_eq : forall (a : Box2 O) (k : T), sdf_Box2_ScaleAboutCenter a k = box2_scale_about_center a k.
  Proof. same_as TRANSL_Box2_ScaleAboutCenter. Qed.
  Lemma Box2_Enlarge_eq : forall (a : Box2 O) (v : V2), sdf_Box2_Enlarge a v = box2_enlarge a v. Proof. same_as TRANSL_Box2_Enlarge. Qed.
  Lemma Box2_Contains_eq : forall (a : Box2 O) (v : V2), sdf_Box2_Contains a v = box2_contains a v. Proof. same_as TRANSL_Box2_Contains. Qed.
  Lemma Box2_Vertices_eq : forall a : Box2 O, sdf_Box2_Vertices a = box2_vertices a. Proof. same_as TRANSL_Box2_Vertices. Qed.
  Lemma NewBox3_eq : forall center size : V3, sdf_NewBox3 center size = newbox3 center size. Proof. same_as TRANSL_NewBox3. Qed.
  Lemma Box3_Extend_eq : forall a b : Box3 O, sdf_Box3_Extend a b = box3_extend a b. Proof. same_as TRANSL_Box3_Extend. Qed.
  Lemma Box3_Include_eq : forall (a : Box3 O) (v : V3), sdf_Box3_Include a v = box3_include a v. Proof. same_as TRANSL_Box3_Include. Qed.
  Lemma Box3_Translate_eq : forall (a : Box3 O) (v : V3), sdf_Box3_Translate a v = box3_translate a v. Proof. same_as TRANSL_Box3_Translate. Qed.
  Lemma Box3_Size_eq : forall a : Box3 O, sdf_Box3_Size a = box3_size a. Proof. same_as TRANSL_Box3_Size. Qed.
  Lemma Box3_Center_eq : forall a : Box3 O, sdf_Box3_Center a = box3_center a. Proof. same_as TRANSL_Box3_Center. Qed.
  Lemma Box3_ScaleAboutCenter_eq : forall (a : Box3 O) (k : T), sdf_Box3_ScaleAboutCenter a k = box3_scale_about_center a k.
  Proof. same_as TRANSL_Box3_ScaleAboutCenter. Qed.
  Lemma Box3_Enlarge_eq : forall (a : Box3 O) (v : V3), sdf_Box3_Enlarge a v = box3_enlarge a v. Proof. same_as TRANSL_Box3_Enlarge. Qed.
  Lemma Box3_Contains_eq : forall (a : Box3 O) (v : V3), sdf_Box3_Contains a v = box3_contains a v. Proof. same_as TRANSL_Box3_Contains. Qed.
  Lemma Box3_Vertices_eq : forall a : Box3 O, sdf_Box3_Vertices a = box3_vertices a. Proof. same_as TRANSL_Box3_Vertices. Qed.

  (* ------------------------------------------------------------ sdf/matrix.go: MulBox *)
  Lemma M33_MulBox_eq : forall (a : list T) (box : Box2 O), sdf_M33_MulBox a box = m33_mulbox a box. Proof. same_as TRANSL_M33_MulBox. Qed.
  Lemma M44_MulBox_eq : forall (a : list T) (box : Box3 O), sdf_M44_MulBox a box = m44_mulbox a box. Proof. same_as TRANSL_M44_MulBox. Qed.

  (* ------------------------------------------------------------ sdf/utils.go *)
  Lemma Clamp_eq : forall x a b : T, sdf_Clamp x a b = clamp x a b. Proof. same_as TRANSL_Clamp. Qed.
  Lemma Mix_eq : forall x y a : T, sdf_Mix x y a = mix x y a. Proof. same_as TRANSL_Mix. Qed.
  Lemma Sign_eq : forall x : T, sdf_Sign x = sign x. Proof. same_as TRANSL_Sign. Qed.
  Lemma SawTooth_eq : forall x period : T, sdf_SawTooth x period = sawtooth x period. Proof. same_as TRANSL_SawTooth. Qed.
  Lemma poly_eq : forall a b k : T, sdf_poly a b k = poly a b k. Proof. same_as TRANSL_poly. Qed.
  Lemma sqrtHalf_eq : sdf_sqrtHalf = @sqrt_half O. Proof. same_as TRANSL_sqrtHalf. Qed.
  Lemma Pi_eq : sdf_Pi = opi O. Proof. same_as TRANSL_Pi. Qed.
  Lemma RoundMin_eq : forall k a b : T, sdf_RoundMin k a b = min_apply (MinRound k) a b. Proof. same_as TRANSL_RoundMin. Qed.
  Lemma ChamferMin_eq : forall k a b : T, sdf_ChamferMin k a b = min_apply (MinChamfer k) a b. Proof. same_as TRANSL_ChamferMin. Qed.
  Lemma PolyMin_eq : forall k a b : T, sdf_PolyMin k a b = min_apply (MinPoly k) a b. Proof. same_as TRANSL_PolyMin. Qed.
  Lemma PolyMax_eq : forall k a b : T, sdf_PolyMax k a b = max_apply (MaxPoly k) a b. Proof. same_as TRANSL_PolyMax. Qed.
  Lemma NormalExtrude_eq : forall p : V3, sdf_NormalExtrude p = ex_normal p. Proof. same_as TRANSL_NormalExtrude. Qed.
  Lemma TwistExtrude_eq : forall (height twist : T) (p : V3), sdf_TwistExtrude height twist p = ex_twist height twist p.
  Proof. same_as TRANSL_TwistExtrude. Qed.

  Lemma ScaleExtrude_eq : forall (height : T) (scale : V2) (p : V3),
    sdf_ScaleExtrude height scale p = ex_scale height scale p.
  Proof. same_as TRANSL_ScaleExtrude. Qed.
  Lemma ScaleTwistExtrude_eq : forall (height twist : T) (scale : V2) (p : V3),
    sdf_ScaleTwistExtrude height twist scale p = ex_scaletwist height twist scale p.
  Proof. same_as TRANSL_ScaleTwistExtrude. Qed.

  (* ------------------------------------------------------------ sdf/sdf2.go *)
  Lemma sdfBox2d_eq : forall p s : V2, sdf_sdfBox2d p s = sdf_box2d p s. Proof. same_as TRANSL_sdfBox2d. Qed.

  Lemma Circle_eq : forall (radius : T) o p, k_circle radius = Some o ->
    sdf_CircleSDF2_Evaluate radius p = ev2 o p.
  Proof. intros radius o p H. unfold k_circle in H. open_k H. same_as TRANSL_Circle. Qed.

  Lemma Box2_eq : forall (size : V2) round o p, k_box2 size round = Some o ->
    sdf_BoxSDF2_Evaluate (v2subs (v2muls size k05) round) round p = ev2 o p.
  Proof. intros size round o p H. unfold k_box2 in H. open_k H. same_as TRANSL_Box2. Qed.

  Lemma Line2_eq : forall (l : T) round o p, k_line2 l round = Some o ->
    sdf_LineSDF2_Evaluate (l / two) round p = ev2 o p.
  Proof. intros l round o p H. unfold k_line2 in H. open_k H. same_as TRANSL_Line2. Qed.

  Lemma Offset2_eq : forall (s : Obj2 O) offset o p, k_offset2 s offset = Some o ->
    sdf_OffsetSDF2_Evaluate (ev2 s) offset p = ev2 o p.
  Proof. intros s offset o p H. unfold k_offset2 in H. open_k H. same_as TRANSL_Offset2. Qed.

  Lemma Intersect2_eq : forall m (s0 s1 : Obj2 O) o p, k_intersect2 m s0 s1 = Some o ->
    sdf_IntersectionSDF2_Evaluate (ev2 s0) (ev2 s1) (max_apply m) p = ev2 o p.
  Proof. intros m s0 s1 o p H. unfold k_intersect2 in H. open_k H. same_as TRANSL_Intersect2. Qed.

  Lemma Difference2_eq : forall m (s0 s1 : Obj2 O) o p, k_difference2 m s0 s1 = Some o ->
    sdf_DifferenceSDF2_Evaluate (ev2 s0) (ev2 s1) (max_apply m) p = ev2 o p.
  Proof. intros m s0 s1 o p H. unfold k_difference2 in H. open_k H. same_as TRANSL_Difference2. Qed.

  Lemma Cut2_eq : forall (s : Obj2 O) a v o p, k_cut2 s a v = Some o ->
    sdf_CutSDF2_Evaluate (ev2 s) a (let v := v2normalize v in mkV2 (- vy v) (vx v)) p = ev2 o p.
  Proof. intros s a v o p H. unfold k_cut2 in H. open_k H. same_as TRANSL_Cut2. Qed.

  Lemma Transform2_eq : forall (s : Obj2 O) m o p, k_transform2 s m = Some o ->
    sdf_TransformSDF2_Evaluate (ev2 s) (m33_inverse m) p = ev2 o p.
  Proof. intros s m o p H. unfold k_transform2 in H. open_k H. same_as TRANSL_Transform2. Qed.

  Lemma ScaleUniform2_eq : forall (s : Obj2 O) k o p, k_scaleuniform2 s k = Some o ->
    sdf_ScaleUniformSDF2_Evaluate (ev2 s) k (o1 O / k) p = ev2 o p.
  Proof. intros s k o p H. unfold k_scaleuniform2 in H. open_k H. same_as TRANSL_ScaleUniform2. Qed.

  Lemma Elongate2_eq : forall (s : Obj2 O) h o p, k_elongate2 s h = Some o ->
    sdf_ElongateSDF2_Evaluate (ev2 s) (v2muls (v2abs h) k05) (v2muls (v2abs h) (- k05)) p = ev2 o p.
  Proof. intros s h o p H. unfold k_elongate2 in H. open_k H. same_as TRANSL_Elongate2. Qed.

  (* RotateCopy2D: theta = tau / n *)
  Lemma P2ToV2_eq : forall r th : T, conv_P2ToV2 (r, th) = mkV2 (r * ocos O th) (r * osin O th). Proof. same_as TRANSL_P2ToV2. Qed.
  Lemma RotateCopy2_eq : forall (s : Obj2 O) n o p, k_rotatecopy2 s n = Some o ->
    sdf_RotateCopySDF2_Evaluate (ev2 s) (tau / ofZ O n) p = ev2 o p.
  Proof. intros s n o p H. unfold k_rotatecopy2 in H. open_k H. same_as TRANSL_RotateCopy2. Qed.

  (* Slice2D: the in-plane axes it pre-computes *)
  Definition slice_u0 (n : V3) : V3 :=
    if wx n =? o0 O then mkV3 (o1 O) (o0 O) (o0 O)
    else if wy n =? o0 O then mkV3 (o0 O) (o1 O) (o0 O)
    else if wz n =? o0 O then mkV3 (o0 O) (o0 O) (o1 O)
    else mkV3 (wy n) (- wx n) (o0 O).
  Lemma Slice2_eq : forall (s : Obj3 O) a n o p, k_slice2 s a n = Some o ->
    sdf_SliceSDF2_Evaluate (ev3 s) a (v3normalize (slice_u0 n)) (v3normalize (v3cross n (slice_u0 n))) p = ev2 o p.
  Proof. intros s a n o p H. unfold k_slice2 in H. open_k H. same_as TRANSL_Slice2. Qed.

  (* ------------------------------------------------------------ sdf/sdf3.go *)
  Lemma sdfBox3d_eq : forall p s : V3, sdf_sdfBox3d p s = sdf_box3d p s. Proof. same_as TRANSL_sdfBox3d. Qed.

  Lemma Sphere_eq : forall (radius : T) o p, k_sphere radius = Some o ->
    sdf_SphereSDF3_Evaluate radius p = ev3 o p.
  Proof. intros radius o p H. unfold k_sphere in H. open_k H. same_as TRANSL_Sphere. Qed.

  Lemma Box3_eq : forall (size : V3) round o p, k_box3 size round = Some o ->
    sdf_BoxSDF3_Evaluate (v3subs (v3muls size k05) round) round p = ev3 o p.
  Proof. intros size round o p H. unfold k_box3 in H. open_k H. same_as TRANSL_Box3. Qed.

  Lemma Cylinder_eq : forall (height : T) radius round o p, k_cylinder height radius round = Some o ->
    sdf_CylinderSDF3_Evaluate ((height / two) - round) (radius - round) round p = ev3 o p.
  Proof. intros height radius round o p H. unfold k_cylinder in H. open_k H. same_as TRANSL_Cylinder. Qed.

  (* the fields Cone3D pre-computes, as k_cone does *)
  Definition cone_sh (height round : T) : T := (height / two) - round.
  Definition cone_u (height r0 r1 : T) : V2 := v2normalize (v2sub (mkV2 r1 (height / two)) (mkV2 r0 (- height / two))).
  Definition cone_n (height r0 r1 : T) : V2 := let u := cone_u height r0 r1 in mkV2 (vy u) (- (vx u)).
  Definition cone_sr0 (height r0 r1 round : T) : T :=
    let n := cone_n height r0 r1 in r0 - (o1 O + vy n) * (round / vx n).
  Definition cone_sr1 (height r0 r1 round : T) : T :=
    let n := cone_n height r0 r1 in r1 - (o1 O - vy n) * (round / vx n).
  Definition cone_l (height r0 r1 round : T) : T :=
    v2len (v2sub (mkV2 (cone_sr1 height r0 r1 round) (cone_sh height round))
                 (mkV2 (cone_sr0 height r0 r1 round) (- cone_sh height round))).

  Lemma Cone_eq : forall (height : T) r0 r1 round o p, k_cone height r0 r1 round = Some o ->
    sdf_ConeSDF3_Evaluate (cone_sr0 height r0 r1 round) (cone_sr1 height r0 r1 round) (cone_sh height round) round
                          (cone_u height r0 r1) (cone_n height r0 r1) (cone_l height r0 r1 round) p = ev3 o p.
  Proof. intros height r0 r1 round o p H. unfold k_cone in H. open_k H. same_as TRANSL_Cone. Qed.

  (* RevolveTheta3D: theta is reduced mod tau, norm = (-sin theta, cos theta) *)
  Lemma Sor_eq : forall (s : Obj2 O) theta0 o p, k_revolve s theta0 = Some o ->
    let theta := ofmod O (oabs O theta0) tau in
    sdf_SorSDF3_Evaluate (ev2 s) theta (mkV2 (- osin O theta) (ocos O theta)) p = ev3 o p.
  Proof.
    intros s theta0 o p H theta. unfold k_revolve in H. open_k H.
    unfold sdf_SorSDF3_Evaluate. cbn [ev3]. fold theta.
    destruct (theta =? o0 O); same_as TRANSL_Sor.
  Qed.

  Lemma Extrude_eval_eq : forall (s : Obj2 O) sh ex p, sdf_ExtrudeSDF3_Evaluate (ev2 s) sh ex p = extrude_ev s sh ex p.
  Proof. same_as TRANSL_Extrude_eval. Qed.
  Lemma Extrude_eq : forall (s : Obj2 O) height o p, k_extrude s height = Some o ->
    sdf_ExtrudeSDF3_Evaluate (ev2 s) (height / two) sdf_NormalExtrude p = ev3 o p.
  Proof. intros s height o p H. unfold k_extrude in H. open_k H. same_as TRANSL_Extrude. Qed.
  Lemma TwistExtrude3D_eq : forall (s : Obj2 O) height twist o p, k_twistextrude s height twist = Some o ->
    sdf_ExtrudeSDF3_Evaluate (ev2 s) (height / two) (sdf_TwistExtrude height twist) p = ev3 o p.
  Proof. intros s height twist o p H. unfold k_twistextrude in H. open_k H. same_as TRANSL_TwistExtrude3D. Qed.

  (* the shared tail of ExtrudeRounded / Loft *)
  Lemma ExtrudeRounded_tail_eq : forall (f : V2 -> T) (sh round : T) (p : V3),
    sdf_ExtrudeRoundedSDF3_Evaluate f sh round p = rounded_combine (f (mkV2 (wx p) (wy p))) (oabs O (wz p) - sh) round.
  Proof. same_as TRANSL_ExtrudeRounded_tail. Qed.

  Lemma ExtrudeRounded_eq : forall (s : Obj2 O) height round o p, (round =? o0 O) = false ->
    k_extruderounded s height round = Some o ->
    sdf_ExtrudeRoundedSDF3_Evaluate (ev2 s) ((height / two) - round) round p = ev3 o p.
  Proof.
    intros s height round o p Hr H. unfold k_extruderounded in H. rewrite Hr in H. open_k H. same_as TRANSL_ExtrudeRounded.
  Qed.

  (* Go: k := 0.5; if s.height != 0 { k = Clamp(..) } - model: if sh =? 0 then k05 else clamp .. *)
  Lemma Loft_eq : forall (s0 s1 : Obj2 O) height round o p, k_loft s0 s1 height round = Some o ->
    sdf_LoftSDF3_Evaluate (ev2 s0) (ev2 s1) ((height / two) - round) round p = ev3 o p.
  Proof.
    intros s0 s1 height round o p H. unfold k_loft in H. open_k H.
    unfold sdf_LoftSDF3_Evaluate. cbn [ev3].
    destruct ((height / two) - round =? o0 O); same_as TRANSL_Loft.
  Qed.

  Lemma Transform3_eq : forall (s : Obj3 O) m o p, k_transform3 s m = Some o ->
    sdf_TransformSDF3_Evaluate (ev3 s) (m44_inverse m) p = ev3 o p.
  Proof. intros s m o p H. unfold k_transform3 in H. open_k H. same_as TRANSL_Transform3. Qed.

  Lemma ScaleUniform3_eq : forall (s : Obj3 O) k o p, k_scaleuniform3 s k = Some o ->
    sdf_ScaleUniformSDF3_Evaluate (ev3 s) k (o1 O / k) p = ev3 o p.
  Proof. intros s k o p H. unfold k_scaleuniform3 in H. open_k H. same_as TRANSL_ScaleUniform3. Qed.

  Lemma Difference3_eq : forall m (s0 s1 : Obj3 O) o p, k_difference3 m s0 s1 = Some o ->
    sdf_DifferenceSDF3_Evaluate (ev3 s0) (ev3 s1) (max_apply m) p = ev3 o p.
  Proof. intros m s0 s1 o p H. unfold k_difference3 in H. open_k H. same_as TRANSL_Difference3. Qed.

  Lemma Intersect3_eq : forall m (s0 s1 : Obj3 O) o p, k_intersect3 m s0 s1 = Some o ->
    sdf_IntersectionSDF3_Evaluate (ev3 s0) (ev3 s1) (max_apply m) p = ev3 o p.
  Proof. intros m s0 s1 o p H. unfold k_intersect3 in H. open_k H. same_as TRANSL_Intersect3. Qed.

  Lemma Elongate3_eq : forall (s : Obj3 O) h o p, k_elongate3 s h = Some o ->
    sdf_ElongateSDF3_Evaluate (ev3 s) (v3muls (v3abs h) k05) (v3muls (v3abs h) (- k05)) p = ev3 o p.
  Proof. intros s h o p H. unfold k_elongate3 in H. open_k H. same_as TRANSL_Elongate3. Qed.

  Lemma Cut3_eq : forall (s : Obj3 O) a n o p, k_cut3 s a n = Some o ->
    sdf_CutSDF3_Evaluate (ev3 s) a (v3neg (v3normalize n)) p = ev3 o p.
  Proof. intros s a n o p H. unfold k_cut3 in H. open_k H. same_as TRANSL_Cut3. Qed.

  Lemma Offset3_eq : forall (s : Obj3 O) offset o p, k_offset3 s offset = Some o ->
    sdf_OffsetSDF3_Evaluate (ev3 s) offset p = ev3 o p.
  Proof. intros s offset o p H. unfold k_offset3 in H. open_k H. same_as TRANSL_Offset3. Qed.

  Lemma Shell3_eq : forall (s : Obj3 O) thickness o p, k_shell3 s thickness = Some o ->
    sdf_ShellSDF3_Evaluate (ev3 s) (k05 * thickness) p = ev3 o p.
  Proof. intros s thickness o p H. unfold k_shell3 in H. open_k H. same_as TRANSL_Shell3. Qed.
  Lemma RotateCopy3_eq : forall (s : Obj3 O) n o p, k_rotatecopy3 s n = Some o ->
    sdf_RotateCopySDF3_Evaluate (ev3 s) (tau / ofZ O n) p = ev3 o p.
  Proof. intros s n o p H. unfold k_rotatecopy3 in H. open_k H. same_as TRANSL_RotateCopy3. Qed.

  (* ------------------------------------------------------------ constructors, object for object *)
  Definition obj2_of (x : (V2 -> T) * Box2 O) : Obj2 O := mkObj2 (fst x) (snd x).
  Definition obj3_of (x : (V3 -> T) * Box3 O) : Obj3 O := mkObj3 (fst x) (snd x).

  Lemma Circle2D_ctor : forall radius : T, option_map obj2_of (sdf_Circle2D radius) = k_circle radius.
  Proof. intros. unfold sdf_Circle2D, k_circle. ctor_eq TRANSL_Circle2D_ctor. Qed.
  Lemma Box2D_ctor : forall (size : V2) (round : T), option_map obj2_of (sdf_Box2D size round) = k_box2 size round.
  Proof. intros. unfold sdf_Box2D, k_box2. ctor_eq TRANSL_Box2D_ctor. Qed.
  Lemma Line2D_ctor : forall l round : T, option_map obj2_of (sdf_Line2D l round) = k_line2 l round.
  Proof. intros. unfold sdf_Line2D, k_line2. ctor_eq TRANSL_Line2D_ctor. Qed.
  Lemma Offset2D_ctor : forall (s : Obj2 O) (offset : T),
    option_map obj2_of (sdf_Offset2D (ev2 s) (bb2 s) offset) = k_offset2 s offset.
  Proof. intros. unfold sdf_Offset2D, k_offset2. ctor_eq TRANSL_Offset2D_ctor. Qed.
  (* Intersect2D / Difference2D install math.Max; SetMax replaces it (the model's MaxK argument) *)
  Lemma Intersect2D_ctor : forall s0 s1 : Obj2 O,
    option_map obj2_of (sdf_Intersect2D (ev2 s0) (bb2 s0) (ev2 s1) (bb2 s1)) = k_intersect2 MaxDef s0 s1.
  Proof. intros. unfold sdf_Intersect2D, k_intersect2. ctor_eq TRANSL_Intersect2D_ctor. Qed.
  Lemma Difference2D_ctor : forall s0 s1 : Obj2 O,
    option_map obj2_of (sdf_Difference2D (ev2 s0) (bb2 s0) (ev2 s1) (bb2 s1)) = k_difference2 MaxDef s0 s1.
  Proof. intros. unfold sdf_Difference2D, k_difference2. ctor_eq TRANSL_Difference2D_ctor. Qed.
  Lemma Cut2D_ctor : forall (s : Obj2 O) (a v : V2),
    option_map obj2_of (sdf_Cut2D (ev2 s) (bb2 s) a v) = k_cut2 s a v.
  Proof. intros. unfold sdf_Cut2D, k_cut2. ctor_eq TRANSL_Cut2D_ctor. Qed.
  Lemma Transform2D_ctor : forall (s : Obj2 O) (m : list T),
    option_map obj2_of (sdf_Transform2D (ev2 s) (bb2 s) m) = k_transform2 s m.
  Proof. intros. unfold sdf_Transform2D, k_transform2. ctor_eq TRANSL_Transform2D_ctor. Qed.
  Lemma ScaleUniform2D_ctor : forall (s : Obj2 O) (k : T),
    option_map obj2_of (sdf_ScaleUniform2D (ev2 s) (bb2 s) k) = k_scaleuniform2 s k.
  Proof. intros. unfold sdf_ScaleUniform2D, k_scaleuniform2. ctor_eq TRANSL_ScaleUniform2D_ctor. Qed.
  Lemma Elongate2D_ctor : forall (s : Obj2 O) (h : V2),
    option_map obj2_of (sdf_Elongate2D (ev2 s) (bb2 s) h) = k_elongate2 s h.
  Proof. intros. unfold sdf_Elongate2D, k_elongate2. ctor_eq TRANSL_Elongate2D_ctor. Qed.

  Lemma Sphere3D_ctor : forall radius : T, option_map obj3_of (sdf_Sphere3D radius) = k_sphere radius.
  Proof. intros. unfold sdf_Sphere3D, k_sphere. ctor_eq TRANSL_Sphere3D_ctor. Qed.
  Lemma Box3D_ctor : forall (size : V3) (round : T), option_map obj3_of (sdf_Box3D size round) = k_box3 size round.
  Proof. intros. unfold sdf_Box3D, k_box3. rewrite v3_LTEZero_eq. ctor_eq TRANSL_Box3D_ctor. Qed.
  Lemma Cylinder3D_ctor : forall height radius round : T,
    option_map obj3_of (sdf_Cylinder3D height radius round) = k_cylinder height radius round.
  Proof. intros. unfold sdf_Cylinder3D, k_cylinder. ctor_eq TRANSL_Cylinder3D_ctor. Qed.
  Lemma Capsule3D_ctor : forall height radius : T,
    option_map obj3_of (sdf_Capsule3D height radius) = k_cylinder height radius radius.
  Proof. intros. unfold sdf_Capsule3D. apply Cylinder3D_ctor. Qed.
  Lemma Cone3D_ctor : forall height r0 r1 round : T,
    option_map obj3_of (sdf_Cone3D height r0 r1 round) = k_cone height r0 r1 round.
  Proof. intros. unfold sdf_Cone3D, k_cone. ctor_eq TRANSL_Cone3D_ctor. Qed.
  Lemma Extrude3D_ctor : forall (s : Obj2 O) (height : T),
    option_map obj3_of (sdf_Extrude3D (ev2 s) (bb2 s) height) = k_extrude s height.
  Proof. intros. unfold sdf_Extrude3D, k_extrude. ctor_eq TRANSL_Extrude3D_ctor. Qed.
  Lemma ExtrudeRounded3D_ctor : forall (s : Obj2 O) (height round : T),
    option_map obj3_of (sdf_ExtrudeRounded3D (ev2 s) (bb2 s) height round) = k_extruderounded s height round.
  Proof. intros. unfold sdf_ExtrudeRounded3D, k_extruderounded. ctor_eq TRANSL_ExtrudeRounded3D_ctor. Qed.
  Lemma Transform3D_ctor : forall (s : Obj3 O) (m : list T),
    option_map obj3_of (sdf_Transform3D (ev3 s) (bb3 s) m) = k_transform3 s m.
  Proof. intros. unfold sdf_Transform3D, k_transform3. ctor_eq TRANSL_Transform3D_ctor. Qed.
  Lemma ScaleUniform3D_ctor : forall (s : Obj3 O) (k : T),
    option_map obj3_of (sdf_ScaleUniform3D (ev3 s) (bb3 s) k) = k_scaleuniform3 s k.
  Proof. intros. unfold sdf_ScaleUniform3D, k_scaleuniform3. ctor_eq TRANSL_ScaleUniform3D_ctor. Qed.
  Lemma Difference3D_ctor : forall s0 s1 : Obj3 O,
    option_map obj3_of (sdf_Difference3D (ev3 s0) (bb3 s0) (ev3 s1) (bb3 s1)) = k_difference3 MaxDef s0 s1.
  Proof. intros. unfold sdf_Difference3D, k_difference3. ctor_eq TRANSL_Difference3D_ctor. Qed.
  Lemma Intersect3D_ctor : forall s0 s1 : Obj3 O,
    option_map obj3_of (sdf_Intersect3D (ev3 s0) (bb3 s0) (ev3 s1) (bb3 s1)) = k_intersect3 MaxDef s0 s1.
  Proof. intros. unfold sdf_Intersect3D, k_intersect3. ctor_eq TRANSL_Intersect3D_ctor. Qed.
  Lemma Cut3D_ctor : forall (s : Obj3 O) (a n : V3),
    option_map obj3_of (sdf_Cut3D (ev3 s) (bb3 s) a n) = k_cut3 s a n.
  Proof. intros. unfold sdf_Cut3D, k_cut3. ctor_eq TRANSL_Cut3D_ctor. Qed.
  Lemma Elongate3D_ctor : forall (s : Obj3 O) (h : V3),
    option_map obj3_of (sdf_Elongate3D (ev3 s) (bb3 s) h) = k_elongate3 s h.
  Proof. intros. unfold sdf_Elongate3D, k_elongate3. ctor_eq TRANSL_Elongate3D_ctor. Qed.
  Lemma Offset3D_ctor : forall (s : Obj3 O) (offset : T),
    option_map obj3_of (sdf_Offset3D (ev3 s) (bb3 s) offset) = k_offset3 s offset.
  Proof. intros. unfold sdf_Offset3D, k_offset3. ctor_eq TRANSL_Offset3D_ctor. Qed.
  Lemma Shell3D_ctor : forall (s : Obj3 O) (thickness : T),
    option_map obj3_of (sdf_Shell3D (ev3 s) (bb3 s) thickness) = k_shell3 s thickness.
  Proof. intros. unfold sdf_Shell3D, k_shell3. ctor_eq TRANSL_Shell3D_ctor. Qed.

  Lemma ScaleExtrude3D_ctor : forall (s : Obj2 O) (height : T) (scale : V2),
    option_map obj3_of (sdf_ScaleExtrude3D (ev2 s) (bb2 s) height scale) = k_scaleextrude s height scale.
  Proof. intros. unfold sdf_ScaleExtrude3D, k_scaleextrude. ctor_eq TRANSL_ScaleExtrude3D_ctor. Qed.
  Lemma Loft3D_ctor : forall (s0 s1 : Obj2 O) (height round : T),
    option_map obj3_of (sdf_Loft3D (ev2 s0) (bb2 s0) (ev2 s1) (bb2 s1) height round) = k_loft s0 s1 height round.
  Proof. intros. unfold sdf_Loft3D, k_loft, sdf_LoftSDF3_Evaluate. ctor_eq TRANSL_Loft3D_ctor. Qed.
End GenEq.
