(* The syntactic tie: every definition of Generated/SdfExpr.v (produced by harness/sdfgen from
   the Go AST of vec/v2/v2.go, vec/v3/v3.go, sdf/utils.go, sdf/sdf2.go, sdf/sdf3.go on every
   run) is equal, for all arguments and over an arbitrary `O : Ops`, to the hand-written model
   function of Geo/Vec.v, Sdf/Union2.v, Sdf/Shape.v.  All proofs are by conversion
   (`reflexivity` after unfolding the constructor guards; `destruct` of one boolean where Go
   writes `if x != 0 {..}` and the model `if x =? 0 then .. else ..`), so they hold exactly as
   long as the Go function and the model function are the same term up to let-structure.
   An edit of the Go source that changes what a function computes makes the lemma of that
   function fail.

   Evaluate methods: the receiver fields are parameters of the generated definition; the lemma
   substitutes what the model's constructor `k_xxx` pre-computes and is stated about the
   closure of the object `k_xxx` returns.

   Deviations of the hand model from the Go source found by this file (Shape.v is not edited
   here; see the `_deviation` / `_modulo` lemmas):
   * v2divs / v3divs (Geo/Vec.v) divide component-wise; Go's Vec.DivScalar is
     `a.MulScalar(1 / b)`.  Equal in exact arithmetic, not in float64
     (`divscalar_deviates_float`).  Used by ex_scale / ex_scaletwist (the slope `m`).
   * k_loft (Sdf/Shape.v) has no `if s.height != 0` guard around the mix factor: the Go code
     (after fix 418602f) uses k = 0.5 when height = 2*round; the model computes
     clamp (0.5*z/0 + 0.5) there.  Equal whenever sh =? 0 is false. *)
From Coq Require Import ZArith List Bool Floats.
From Sdfx Require Import Num.Ops Num.FInst Geo.Vec Geo.Box Geo.Mat Sdf.Union2 Sdf.Shape Generated.SdfExpr.
Import OpsNotations ListNotations.
Local Open Scope ops_scope.

(* open the constructor: discharge the argument checks that return None, expose the object *)
Ltac open_k H :=
  repeat match type of H with
         | (if ?c then None else _) = Some _ => destruct c; [discriminate H|]
         end;
  inversion H; subst; clear H.

Section GenEq.
  Context {O : Ops}.
  Notation T := (T O).
  Notation V2 := (V2 O).
  Notation V3 := (V3 O).

  (* ------------------------------------------------------------ vec/v2/v2.go *)
  Lemma v2_Add_eq : forall a b : V2, v2_Vec_Add a b = v2add a b. Proof. reflexivity. Qed.
  Lemma v2_Sub_eq : forall a b : V2, v2_Vec_Sub a b = v2sub a b. Proof. reflexivity. Qed.
  Lemma v2_Mul_eq : forall a b : V2, v2_Vec_Mul a b = v2mul a b. Proof. reflexivity. Qed.
  Lemma v2_Div_eq : forall a b : V2, v2_Vec_Div a b = v2div a b. Proof. reflexivity. Qed.
  Lemma v2_Neg_eq : forall a : V2, v2_Vec_Neg a = v2neg a. Proof. reflexivity. Qed.
  Lemma v2_Abs_eq : forall a : V2, v2_Vec_Abs a = v2abs a. Proof. reflexivity. Qed.
  Lemma v2_MulScalar_eq : forall (a : V2) (k : T), v2_Vec_MulScalar a k = v2muls a k. Proof. reflexivity. Qed.
  Lemma v2_AddScalar_eq : forall (a : V2) (k : T), v2_Vec_AddScalar a k = v2adds a k. Proof. reflexivity. Qed.
  Lemma v2_SubScalar_eq : forall (a : V2) (k : T), v2_Vec_SubScalar a k = v2subs a k. Proof. reflexivity. Qed.
  Lemma v2_Min_eq : forall a b : V2, v2_Vec_Min a b = v2min a b. Proof. reflexivity. Qed.
  Lemma v2_Max_eq : forall a b : V2, v2_Vec_Max a b = v2max a b. Proof. reflexivity. Qed.
  Lemma v2_Dot_eq : forall a b : V2, v2_Vec_Dot a b = v2dot a b. Proof. reflexivity. Qed.
  Lemma v2_Cross_eq : forall a b : V2, v2_Vec_Cross a b = v2cross a b. Proof. reflexivity. Qed.
  Lemma v2_Length2_eq : forall a : V2, v2_Vec_Length2 a = v2len2 a. Proof. reflexivity. Qed.
  Lemma v2_Length_eq : forall a : V2, v2_Vec_Length a = v2len a. Proof. reflexivity. Qed.
  Lemma v2_Normalize_eq : forall a : V2, v2_Vec_Normalize a = v2normalize a. Proof. reflexivity. Qed.
  Lemma v2_MinComponent_eq : forall a : V2, v2_Vec_MinComponent a = v2mincomp a. Proof. reflexivity. Qed.
  Lemma v2_MaxComponent_eq : forall a : V2, v2_Vec_MaxComponent a = v2maxcomp a. Proof. reflexivity. Qed.
  Lemma v2_clamp_eq : forall x a b : T, v2_clamp x a b = clamp x a b. Proof. reflexivity. Qed.
  Lemma v2_Clamp_eq : forall a b c : V2, v2_Vec_Clamp a b c = v2clamp a b c. Proof. reflexivity. Qed.
  (* Vec.DivScalar is a.MulScalar(1 / b): what the Go code computes ... *)
  Lemma v2_DivScalar_go : forall (a : V2) (k : T), v2_Vec_DivScalar a k = v2muls a (o1 O / k). Proof. reflexivity. Qed.
  (* ... which is the model's v2divs only where x / k = x * (1 / k) *)
  Lemma v2_DivScalar_modulo : (forall x k : T, x / k = x * (o1 O / k)) ->
    forall (a : V2) (k : T), v2_Vec_DivScalar a k = v2divs a k.
  Proof. intros Hd a k. unfold v2_Vec_DivScalar, v2_Vec_MulScalar, v2divs. rewrite <- !Hd. reflexivity. Qed.

  (* ------------------------------------------------------------ vec/v3/v3.go *)
  Lemma v3_Add_eq : forall a b : V3, v3_Vec_Add a b = v3add a b. Proof. reflexivity. Qed.
  Lemma v3_Sub_eq : forall a b : V3, v3_Vec_Sub a b = v3sub a b. Proof. reflexivity. Qed.
  Lemma v3_Mul_eq : forall a b : V3, v3_Vec_Mul a b = v3mul a b. Proof. reflexivity. Qed.
  Lemma v3_Div_eq : forall a b : V3, v3_Vec_Div a b = v3div a b. Proof. reflexivity. Qed.
  Lemma v3_Neg_eq : forall a : V3, v3_Vec_Neg a = v3neg a. Proof. reflexivity. Qed.
  Lemma v3_Abs_eq : forall a : V3, v3_Vec_Abs a = v3abs a. Proof. reflexivity. Qed.
  Lemma v3_MulScalar_eq : forall (a : V3) (k : T), v3_Vec_MulScalar a k = v3muls a k. Proof. reflexivity. Qed.
  Lemma v3_AddScalar_eq : forall (a : V3) (k : T), v3_Vec_AddScalar a k = v3adds a k. Proof. reflexivity. Qed.
  Lemma v3_SubScalar_eq : forall (a : V3) (k : T), v3_Vec_SubScalar a k = v3subs a k. Proof. reflexivity. Qed.
  Lemma v3_Min_eq : forall a b : V3, v3_Vec_Min a b = v3min a b. Proof. reflexivity. Qed.
  Lemma v3_Max_eq : forall a b : V3, v3_Vec_Max a b = v3max a b. Proof. reflexivity. Qed.
  Lemma v3_Dot_eq : forall a b : V3, v3_Vec_Dot a b = v3dot a b. Proof. reflexivity. Qed.
  Lemma v3_Cross_eq : forall a b : V3, v3_Vec_Cross a b = v3cross a b. Proof. reflexivity. Qed.
  Lemma v3_Length2_eq : forall a : V3, v3_Vec_Length2 a = v3len2 a. Proof. reflexivity. Qed.
  Lemma v3_Length_eq : forall a : V3, v3_Vec_Length a = v3len a. Proof. reflexivity. Qed.
  Lemma v3_Normalize_eq : forall a : V3, v3_Vec_Normalize a = v3normalize a. Proof. reflexivity. Qed.
  Lemma v3_MinComponent_eq : forall a : V3, v3_Vec_MinComponent a = v3mincomp a. Proof. reflexivity. Qed.
  Lemma v3_MaxComponent_eq : forall a : V3, v3_Vec_MaxComponent a = v3maxcomp a. Proof. reflexivity. Qed.
  Lemma v3_clamp_eq : forall x a b : T, v3_clamp x a b = clamp x a b. Proof. reflexivity. Qed.
  Lemma v3_Clamp_eq : forall a b c : V3, v3_Vec_Clamp a b c = v3clamp a b c. Proof. reflexivity. Qed.
  Lemma v3_DivScalar_go : forall (a : V3) (k : T), v3_Vec_DivScalar a k = v3muls a (o1 O / k). Proof. reflexivity. Qed.
  Lemma v3_DivScalar_modulo : (forall x k : T, x / k = x * (o1 O / k)) ->
    forall (a : V3) (k : T), v3_Vec_DivScalar a k = v3divs a k.
  Proof. intros Hd a k. unfold v3_Vec_DivScalar, v3_Vec_MulScalar, v3divs. rewrite <- !Hd. reflexivity. Qed.

  (* ------------------------------------------------------------ sdf/utils.go *)
  Lemma Clamp_eq : forall x a b : T, sdf_Clamp x a b = clamp x a b. Proof. reflexivity. Qed.
  Lemma Mix_eq : forall x y a : T, sdf_Mix x y a = mix x y a. Proof. reflexivity. Qed.
  Lemma Sign_eq : forall x : T, sdf_Sign x = sign x. Proof. reflexivity. Qed.
  Lemma SawTooth_eq : forall x period : T, sdf_SawTooth x period = sawtooth x period. Proof. reflexivity. Qed.
  Lemma poly_eq : forall a b k : T, sdf_poly a b k = poly a b k. Proof. reflexivity. Qed.
  Lemma sqrtHalf_eq : sdf_sqrtHalf = @sqrt_half O. Proof. reflexivity. Qed.
  Lemma Pi_eq : sdf_Pi = opi O. Proof. reflexivity. Qed.
  Lemma RoundMin_eq : forall k a b : T, sdf_RoundMin k a b = min_apply (MinRound k) a b. Proof. reflexivity. Qed.
  Lemma ChamferMin_eq : forall k a b : T, sdf_ChamferMin k a b = min_apply (MinChamfer k) a b. Proof. reflexivity. Qed.
  Lemma PolyMin_eq : forall k a b : T, sdf_PolyMin k a b = min_apply (MinPoly k) a b. Proof. reflexivity. Qed.
  Lemma PolyMax_eq : forall k a b : T, sdf_PolyMax k a b = max_apply (MaxPoly k) a b. Proof. reflexivity. Qed.
  Lemma NormalExtrude_eq : forall p : V3, sdf_NormalExtrude p = ex_normal p. Proof. reflexivity. Qed.
  Lemma TwistExtrude_eq : forall (height twist : T) (p : V3), sdf_TwistExtrude height twist p = ex_twist height twist p.
  Proof. reflexivity. Qed.

  (* ScaleExtrude / ScaleTwistExtrude: the Go slope is inv.Sub({1,1}).DivScalar(height), i.e.
     multiplied by 1/height; the model's ex_scale divides by height (v2divs). *)
  Definition ex_scale_go (height : T) (scale : V2) : V3 -> V2 :=
    let inv := mkV2 (o1 O / vx scale) (o1 O / vy scale) in
    let m := v2muls (v2sub inv (mkV2 (o1 O) (o1 O))) (o1 O / height) in
    let b := v2adds (v2muls inv k05) k05 in
    fun p => v2mul (mkV2 (wx p) (wy p)) (v2add (v2muls m (wz p)) b).
  Definition ex_scaletwist_go (height twist : T) (scale : V2) : V3 -> V2 :=
    let k := twist / height in
    fun p => m22_mulposition (mk_rotate (wz p * k)) (ex_scale_go height scale p).

  Lemma ScaleExtrude_go : forall (height : T) (scale : V2) (p : V3),
    sdf_ScaleExtrude height scale p = ex_scale_go height scale p.
  Proof. reflexivity. Qed.
  Lemma ScaleTwistExtrude_go : forall (height twist : T) (scale : V2) (p : V3),
    sdf_ScaleTwistExtrude height twist scale p = ex_scaletwist_go height twist scale p.
  Proof. reflexivity. Qed.
  Lemma ScaleExtrude_modulo : (forall x k : T, x / k = x * (o1 O / k)) ->
    forall (height : T) (scale : V2) (p : V3), sdf_ScaleExtrude height scale p = ex_scale height scale p.
  Proof.
    intros Hd height scale p. rewrite ScaleExtrude_go. unfold ex_scale_go, ex_scale.
    rewrite <- (v2_DivScalar_modulo Hd). reflexivity.
  Qed.
  Lemma ScaleTwistExtrude_modulo : (forall x k : T, x / k = x * (o1 O / k)) ->
    forall (height twist : T) (scale : V2) (p : V3),
      sdf_ScaleTwistExtrude height twist scale p = ex_scaletwist height twist scale p.
  Proof.
    intros Hd height twist scale p. rewrite ScaleTwistExtrude_go. unfold ex_scaletwist_go, ex_scaletwist.
    rewrite <- (ScaleExtrude_go height scale p), (ScaleExtrude_modulo Hd). reflexivity.
  Qed.

  (* ------------------------------------------------------------ sdf/sdf2.go *)
  Lemma sdfBox2d_eq : forall p s : V2, sdf_sdfBox2d p s = sdf_box2d p s. Proof. reflexivity. Qed.

  Lemma Circle_eq : forall (radius : T) o p, k_circle radius = Some o ->
    sdf_CircleSDF2_Evaluate radius p = ev2 o p.
  Proof. intros radius o p H. unfold k_circle in H. open_k H. reflexivity. Qed.

  Lemma Box2_eq : forall (size : V2) round o p, k_box2 size round = Some o ->
    sdf_BoxSDF2_Evaluate (v2subs (v2muls size k05) round) round p = ev2 o p.
  Proof. intros size round o p H. unfold k_box2 in H. open_k H. reflexivity. Qed.

  Lemma Line2_eq : forall (l : T) round o p, k_line2 l round = Some o ->
    sdf_LineSDF2_Evaluate (l / two) round p = ev2 o p.
  Proof. intros l round o p H. unfold k_line2 in H. open_k H. reflexivity. Qed.

  Lemma Offset2_eq : forall (s : Obj2 O) offset o p, k_offset2 s offset = Some o ->
    sdf_OffsetSDF2_Evaluate (ev2 s) offset p = ev2 o p.
  Proof. intros s offset o p H. unfold k_offset2 in H. open_k H. reflexivity. Qed.

  Lemma Intersect2_eq : forall m (s0 s1 : Obj2 O) o p, k_intersect2 m s0 s1 = Some o ->
    sdf_IntersectionSDF2_Evaluate (ev2 s0) (ev2 s1) (max_apply m) p = ev2 o p.
  Proof. intros m s0 s1 o p H. unfold k_intersect2 in H. open_k H. reflexivity. Qed.

  Lemma Difference2_eq : forall m (s0 s1 : Obj2 O) o p, k_difference2 m s0 s1 = Some o ->
    sdf_DifferenceSDF2_Evaluate (ev2 s0) (ev2 s1) (max_apply m) p = ev2 o p.
  Proof. intros m s0 s1 o p H. unfold k_difference2 in H. open_k H. reflexivity. Qed.

  Lemma Cut2_eq : forall (s : Obj2 O) a v o p, k_cut2 s a v = Some o ->
    sdf_CutSDF2_Evaluate (ev2 s) a (let v := v2normalize v in mkV2 (- vy v) (vx v)) p = ev2 o p.
  Proof. intros s a v o p H. unfold k_cut2 in H. open_k H. reflexivity. Qed.

  Lemma Transform2_eq : forall (s : Obj2 O) m o p, k_transform2 s m = Some o ->
    sdf_TransformSDF2_Evaluate (ev2 s) (m33_inverse m) p = ev2 o p.
  Proof. intros s m o p H. unfold k_transform2 in H. open_k H. reflexivity. Qed.

  Lemma ScaleUniform2_eq : forall (s : Obj2 O) k o p, k_scaleuniform2 s k = Some o ->
    sdf_ScaleUniformSDF2_Evaluate (ev2 s) k (o1 O / k) p = ev2 o p.
  Proof. intros s k o p H. unfold k_scaleuniform2 in H. open_k H. reflexivity. Qed.

  Lemma Elongate2_eq : forall (s : Obj2 O) h o p, k_elongate2 s h = Some o ->
    sdf_ElongateSDF2_Evaluate (ev2 s) (v2muls (v2abs h) k05) (v2muls (v2abs h) (- k05)) p = ev2 o p.
  Proof. intros s h o p H. unfold k_elongate2 in H. open_k H. reflexivity. Qed.

  (* ------------------------------------------------------------ sdf/sdf3.go *)
  Lemma sdfBox3d_eq : forall p s : V3, sdf_sdfBox3d p s = sdf_box3d p s. Proof. reflexivity. Qed.

  Lemma Sphere_eq : forall (radius : T) o p, k_sphere radius = Some o ->
    sdf_SphereSDF3_Evaluate radius p = ev3 o p.
  Proof. intros radius o p H. unfold k_sphere in H. open_k H. reflexivity. Qed.

  Lemma Box3_eq : forall (size : V3) round o p, k_box3 size round = Some o ->
    sdf_BoxSDF3_Evaluate (v3subs (v3muls size k05) round) round p = ev3 o p.
  Proof. intros size round o p H. unfold k_box3 in H. open_k H. reflexivity. Qed.

  Lemma Cylinder_eq : forall (height : T) radius round o p, k_cylinder height radius round = Some o ->
    sdf_CylinderSDF3_Evaluate ((height / two) - round) (radius - round) round p = ev3 o p.
  Proof. intros height radius round o p H. unfold k_cylinder in H. open_k H. reflexivity. Qed.

  (* the fields Cone3D pre-computes, as k_cone does *)
  Definition cone_sh (height round : T) : T := (height / two) - round.
  Definition cone_u (height r0 r1 : T) : V2 := v2normalize (v2sub (mkV2 r1 (height / two)) (mkV2 r0 (- height / two))).
  Definition cone_n (height r0 r1 : T) : V2 := let u := cone_u height r0 r1 in mkV2 (vy u) (- (vx u)).
  Definition cone_sr0 (height r0 r1 round : T) : T :=
    let n := cone_n height r0 r1 in r0 - (o1 O + vy n) * (round / vx n).
  Definition cone_sr1 (height r0 r1 round : T) : T :=
    let n := cone_n height r0 r1 in r1 - (o1 O - vy n) * (round / vx n).
  Definition cone_l (height r0 r1 round : T) : T :=
    v2len (v2sub (mkV2 (cone_sr1 height r0 r1 round) (cone_sh height round))
                 (mkV2 (cone_sr0 height r0 r1 round) (- cone_sh height round))).

  Lemma Cone_eq : forall (height : T) r0 r1 round o p, k_cone height r0 r1 round = Some o ->
    sdf_ConeSDF3_Evaluate (cone_sr0 height r0 r1 round) (cone_sr1 height r0 r1 round) (cone_sh height round) round
                          (cone_u height r0 r1) (cone_n height r0 r1) (cone_l height r0 r1 round) p = ev3 o p.
  Proof. intros height r0 r1 round o p H. unfold k_cone in H. open_k H. reflexivity. Qed.

  (* RevolveTheta3D: theta is reduced mod tau, norm = (-sin theta, cos theta) *)
  Lemma Sor_eq : forall (s : Obj2 O) theta0 o p, k_revolve s theta0 = Some o ->
    let theta := ofmod O (oabs O theta0) tau in
    sdf_SorSDF3_Evaluate (ev2 s) theta (mkV2 (- osin O theta) (ocos O theta)) p = ev3 o p.
  Proof.
    intros s theta0 o p H theta. unfold k_revolve in H. open_k H.
    unfold sdf_SorSDF3_Evaluate. cbn [ev3]. fold theta.
    destruct (theta =? o0 O); reflexivity.
  Qed.

  Lemma Extrude_eval_eq : forall (s : Obj2 O) sh ex p, sdf_ExtrudeSDF3_Evaluate (ev2 s) sh ex p = extrude_ev s sh ex p.
  Proof. reflexivity. Qed.
  Lemma Extrude_eq : forall (s : Obj2 O) height o p, k_extrude s height = Some o ->
    sdf_ExtrudeSDF3_Evaluate (ev2 s) (height / two) sdf_NormalExtrude p = ev3 o p.
  Proof. intros s height o p H. unfold k_extrude in H. open_k H. reflexivity. Qed.
  Lemma TwistExtrude3D_eq : forall (s : Obj2 O) height twist o p, k_twistextrude s height twist = Some o ->
    sdf_ExtrudeSDF3_Evaluate (ev2 s) (height / two) (sdf_TwistExtrude height twist) p = ev3 o p.
  Proof. intros s height twist o p H. unfold k_twistextrude in H. open_k H. reflexivity. Qed.

  (* the shared tail of ExtrudeRounded / Loft *)
  Lemma ExtrudeRounded_tail_eq : forall (f : V2 -> T) (sh round : T) (p : V3),
    sdf_ExtrudeRoundedSDF3_Evaluate f sh round p = rounded_combine (f (mkV2 (wx p) (wy p))) (oabs O (wz p) - sh) round.
  Proof. reflexivity. Qed.

  Lemma ExtrudeRounded_eq : forall (s : Obj2 O) height round o p, (round =? o0 O) = false ->
    k_extruderounded s height round = Some o ->
    sdf_ExtrudeRoundedSDF3_Evaluate (ev2 s) ((height / two) - round) round p = ev3 o p.
  Proof.
    intros s height round o p Hr H. unfold k_extruderounded in H. rewrite Hr in H. open_k H. reflexivity.
  Qed.

  (* Loft: what the Go code computes, as a model-level term *)
  Definition loft_ev_go (f0 f1 : V2 -> T) (sh round : T) (p : V3) : T :=
    let k := if negb (sh =? o0 O) then clamp ((k05 * wz p / sh) + k05) (o0 O) (o1 O) else k05 in
    let a := mix (f0 (mkV2 (wx p) (wy p))) (f1 (mkV2 (wx p) (wy p))) k in
    rounded_combine a (oabs O (wz p) - sh) round.
  Lemma Loft_go : forall (f0 f1 : V2 -> T) sh round p,
    sdf_LoftSDF3_Evaluate f0 f1 sh round p = loft_ev_go f0 f1 sh round p.
  Proof. reflexivity. Qed.
  (* equal to the model k_loft except on height = 2*round (sh = 0), where k_loft has no guard *)
  Lemma Loft_modulo : forall (s0 s1 : Obj2 O) height round o p, k_loft s0 s1 height round = Some o ->
    ((height / two) - round =? o0 O) = false ->
    sdf_LoftSDF3_Evaluate (ev2 s0) (ev2 s1) ((height / two) - round) round p = ev3 o p.
  Proof.
    intros s0 s1 height round o p H Hsh. unfold k_loft in H. open_k H.
    unfold sdf_LoftSDF3_Evaluate. cbn [ev3]. rewrite Hsh. reflexivity.
  Qed.

  Lemma Transform3_eq : forall (s : Obj3 O) m o p, k_transform3 s m = Some o ->
    sdf_TransformSDF3_Evaluate (ev3 s) (m44_inverse m) p = ev3 o p.
  Proof. intros s m o p H. unfold k_transform3 in H. open_k H. reflexivity. Qed.

  Lemma ScaleUniform3_eq : forall (s : Obj3 O) k o p, k_scaleuniform3 s k = Some o ->
    sdf_ScaleUniformSDF3_Evaluate (ev3 s) k (o1 O / k) p = ev3 o p.
  Proof. intros s k o p H. unfold k_scaleuniform3 in H. open_k H. reflexivity. Qed.

  Lemma Difference3_eq : forall m (s0 s1 : Obj3 O) o p, k_difference3 m s0 s1 = Some o ->
    sdf_DifferenceSDF3_Evaluate (ev3 s0) (ev3 s1) (max_apply m) p = ev3 o p.
  Proof. intros m s0 s1 o p H. unfold k_difference3 in H. open_k H. reflexivity. Qed.

  Lemma Intersect3_eq : forall m (s0 s1 : Obj3 O) o p, k_intersect3 m s0 s1 = Some o ->
    sdf_IntersectionSDF3_Evaluate (ev3 s0) (ev3 s1) (max_apply m) p = ev3 o p.
  Proof. intros m s0 s1 o p H. unfold k_intersect3 in H. open_k H. reflexivity. Qed.

  Lemma Elongate3_eq : forall (s : Obj3 O) h o p, k_elongate3 s h = Some o ->
    sdf_ElongateSDF3_Evaluate (ev3 s) (v3muls (v3abs h) k05) (v3muls (v3abs h) (- k05)) p = ev3 o p.
  Proof. intros s h o p H. unfold k_elongate3 in H. open_k H. reflexivity. Qed.

  Lemma Cut3_eq : forall (s : Obj3 O) a n o p, k_cut3 s a n = Some o ->
    sdf_CutSDF3_Evaluate (ev3 s) a (v3neg (v3normalize n)) p = ev3 o p.
  Proof. intros s a n o p H. unfold k_cut3 in H. open_k H. reflexivity. Qed.

  Lemma Offset3_eq : forall (s : Obj3 O) offset o p, k_offset3 s offset = Some o ->
    sdf_OffsetSDF3_Evaluate (ev3 s) offset p = ev3 o p.
  Proof. intros s offset o p H. unfold k_offset3 in H. open_k H. reflexivity. Qed.

  Lemma Shell3_eq : forall (s : Obj3 O) thickness o p, k_shell3 s thickness = Some o ->
    sdf_ShellSDF3_Evaluate (ev3 s) (k05 * thickness) p = ev3 o p.
  Proof. intros s thickness o p H. unfold k_shell3 in H. open_k H. reflexivity. Qed.
End GenEq.

(* ------------------------------------------------------------ the deviations are real *)
(* float64: 3 * (1/10) = 0.30000000000000004, 3 / 10 = 0.3 *)
Definition dev_a : V2 FOps := mkV2 3%float 3%float.
Definition dev_k : T FOps := 10%float.
Lemma divscalar_deviates_float : vx (v2_Vec_DivScalar dev_a dev_k) <> vx (v2divs dev_a dev_k).
Proof. cbn. intro H. apply (f_equal Prim2SF) in H. vm_compute in H. discriminate H. Qed.

(* Loft with height = 2*round (= 2, 1) at the origin, profiles constant 1 and 3: the Go code
   gives mix(1, 3, 0.5) - round = 1, k_loft gives NaN (0.5*0/0) *)
Definition dev_s0 : Obj2 FOps := mkObj2 (fun _ => 1%float) (mkBox2 v2zero v2zero).
Definition dev_s1 : Obj2 FOps := mkObj2 (fun _ => 3%float) (mkBox2 v2zero v2zero).
Definition dev_p : V3 FOps := mkV3 0%float 0%float 0%float.
Definition dev_height : T FOps := 2%float.
Definition dev_round : T FOps := 1%float.
Lemma loft_deviates_float :
  sdf_LoftSDF3_Evaluate (ev2 dev_s0) (ev2 dev_s1) ((dev_height / two) - dev_round) dev_round dev_p = o1 FOps /\
  match k_loft dev_s0 dev_s1 dev_height dev_round with
  | Some o => PrimFloat.is_nan (ev3 o dev_p) = true
  | None => False
  end.
Proof. split; vm_compute; reflexivity. Qed.
