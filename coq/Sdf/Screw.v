(* sdf/screw.go, sdf/utils.go (SawTooth), sdf/poly.go (vertex smoothing), sdf/mesh2.go
   (polygon distance/winding): the model, written once over the Ops record and following
   the Go source statement by statement.  Theorems: Sdf/ScrewR.v (reals), Sdf/ThreadDB.v
   (database, by reflection).  Correspondence: Sdf/C18Corr.v. *)
From Coq Require Import ZArith List Bool.
From Sdfx Require Import Num.Ops.
From Sdfx Require Import Geo.Vec.
From Sdfx Require Import Geo.Box.
Import OpsNotations ListNotations.
Local Open Scope ops_scope.
Section Screw.
  Context {O : Ops}.
  Notation T := (T O).
  Notation V2 := (V2 O).
  Notation V3 := (V3 O).

  (* ------------------------------------------------------------ utils.go *)

  (* func SawTooth(x, period float64) float64 *)
  Definition sawtooth (x period : T) : T :=
    let x := x + period / two in
    let t := x / period in
    period * (t - ofloor O t) - period / two.

  (* func DtoR(degrees float64) float64 { return (Pi / 180) * degrees } *)
  Definition dtor (degrees : T) : T := (opi O / ofZ O 180) * degrees.

  Definition tau : T := two * opi O.

  (* ------------------------------------------------------------ screw.go: ScrewSDF3 *)

  Record ScrewSDF3 := mkScrew {
    s_pitch : T;     (* thread to thread distance *)
    s_lead : T;      (* distance per turn, sign = handedness *)
    s_length : T;    (* HALF the length of the screw *)
    s_taper : T      (* taper angle *)
  }.

  (* func Screw3D(thread, length, taper, pitch, starts): None = an error is returned *)
  Definition screw3d (length taper pitch : T) (starts : Z) : option ScrewSDF3 :=
    if length <=? o0 O then None
    else if taper <? o0 O then None
    else if taper >=? opi O * half then None
    else if pitch <=? o0 O then None
    else Some (mkScrew pitch ((- pitch) * ofZ O starts) (length / two) taper).

  (* the bounding box Screw3D stores: `top` is the upper edge (Max.Y) of the thread profile's box, i.e. the
     radius of the thread; the taper adds length/2 * tan(taper) *)
  Definition screw_bb (top : T) (s : ScrewSDF3) : Box3 O :=
    let r := top + s_length s * otan O (s_taper s) in
    mkBox3 (mkV3 (- r) (- r) (- s_length s)) (mkV3 r r (s_length s)).

  (* the point of the profile plane the screw hands to its thread profile *)
  Definition screw_map (s : ScrewSDF3) (p : V3) : V2 :=
    let y0 := osqrt O (wx p * wx p + wy p * wy p) in
    let y1 := if negb (s_taper s =? o0 O) then oabs O (y0 + wz p * otan O (s_taper s)) else y0 in
    let theta := oatan2 O (wy p) (wx p) in
    let z := wz p + s_lead s * theta / tau in
    mkV2 (sawtooth z (s_pitch s)) y1.

  (* func (s *ScrewSDF3) Evaluate(p v3.Vec) float64 *)
  Definition screw_eval (thread : V2 -> T) (s : ScrewSDF3) (p : V3) : T :=
    let d0 := thread (screw_map s p) in
    let d1 := oabs O (wz p) - s_length s in
    omax O d0 d1.

  (* sdf.Difference3D(a, b).Evaluate = max(a, -b) (default max function) *)
  Definition difference (a b : T) : T := omax O a (- b).

  (* ------------------------------------------------------------ poly.go *)

  (* a polygon vertex: position and, when marked by Smooth(radius, facets), the smoothing *)
  Record PV := mkPV { pv_pos : V2; pv_smooth : option (T * nat) }.
  Definition pvn (x y : T) : PV := mkPV (mkV2 x y) None.
  (* func (v *PolygonVertex) Smooth(radius, facets): no effect for radius == 0 or facets == 0 *)
  Definition pvs (x y radius : T) (facets : nat) : PV :=
    if (radius =? o0 O) || Nat.eqb facets 0 then pvn x y
    else mkPV (mkV2 x y) (Some (radius, facets)).

  (* func Rotate(a float64) M22 ; func (a M22) MulPosition(b v2.Vec) *)
  Definition rot_apply (a : T) (b : V2) : V2 :=
    let s := osin O a in
    let c := ocos O a in
    mkV2 (c * vx b + (- s) * vy b) (s * vx b + c * vy b).

  Fixpoint arc_points (n : nat) (a : T) (c rv : V2) : list PV :=
    match n with
    | Datatypes.O => []
    | S n' => mkPV (v2add c rv) None :: arc_points n' a c (rot_apply a rv)
    end.

  (* func (p *Polygon) smoothVertex(i int) bool, for an open polygon: the new vertex list, or
     None when the function returns false *)
  Definition smooth_vertex (l : list PV) (i : nat) : option (list PV) :=
    match nth_error l i with
    | None => None
    | Some v =>
      match pv_smooth v with
      | None => None
      | Some (radius, facets) =>
        match (if Nat.eqb i 0 then None else nth_error l (i - 1)), nth_error l (i + 1) with
        | Some vp, Some vn =>
          let v0 := v2normalize (v2sub (pv_pos vp) (pv_pos v)) in
          let v1 := v2normalize (v2sub (pv_pos vn) (pv_pos v)) in
          let theta := oacos O (v2dot v0 v1) in
          let d1 := radius / otan O (theta / two) in
          if (d1 >? v2len (v2sub (pv_pos vp) (pv_pos v))) || (d1 >? v2len (v2sub (pv_pos vn) (pv_pos v)))
          then None
          else
            let p0 := v2add (pv_pos v) (v2muls v0 d1) in
            let d2 := radius / osin O (theta / two) in
            let vc := v2normalize (v2add v0 v1) in
            let c := v2add (pv_pos v) (v2muls vc d2) in
            let dtheta := sign (v2cross v1 v0) * (opi O - theta) / ofZ O (Z.of_nat facets) in
            let rv := v2sub p0 c in
            Some (firstn i l ++ arc_points (S facets) dtheta c rv ++ skipn (S i) l)
        | _, _ => None
        end
      end
    end.

  (* one `for i := range p.vlist` pass: the range length n is fixed when the pass starts,
     the list grows underneath it *)
  Fixpoint smooth_pass (k i : nat) (l : list PV) (changed : bool) : list PV * bool :=
    match k with
    | Datatypes.O => (l, changed)
    | S k' =>
      match smooth_vertex l i with
      | Some l' => smooth_pass k' (S i) l' true
      | None => smooth_pass k' (S i) l changed
      end
    end.

  (* func (p *Polygon) smoothVertices(): passes until one changes nothing; every successful
     smoothing removes one marked vertex, so (number of marked vertices + 1) passes suffice *)
  Fixpoint smooth_loop (fuel : nat) (l : list PV) : list PV :=
    match fuel with
    | Datatypes.O => l
    | S f =>
      let '(l', changed) := smooth_pass (length l) 0 l false in
      if changed then smooth_loop f l' else l'
    end.

  Definition count_marked (l : list PV) : nat :=
    length (filter (fun v => match pv_smooth v with Some _ => true | None => false end) l).

  (* func (p *Polygon) Vertices() for an open polygon without relative/arc vertices *)
  Definition vertices (l : list PV) : list V2 :=
    map pv_pos (smooth_loop (S (count_marked l)) l).

  (* ------------------------------------------------------------ screw.go: ISOThread *)

  Definition iso_thread_pv (radius pitch : T) (external : bool) : list PV :=
    let theta := dtor (ofZ O 30) in
    let h := pitch / (two * otan O theta) in
    let rMajor := radius in
    let r0 := rMajor - cst 7 8 * h in
    if external then
      let rRoot := (pitch / ofZ O 8) / ocos O theta in
      let xOfs := cst 1 16 * pitch in
      [ pvn pitch (o0 O);
        pvn pitch (r0 + h);
        pvs (pitch / two) r0 rRoot 5;
        pvn xOfs rMajor;
        pvn (- xOfs) rMajor;
        pvs ((- pitch) / two) r0 rRoot 5;
        pvn (- pitch) (r0 + h);
        pvn (- pitch) (o0 O) ]
    else
      let rMinor := r0 + cst 1 4 * h in
      let rCrest := (pitch / ofZ O 16) / ocos O theta in
      let xOfs := cst 1 8 * pitch in
      [ pvn pitch (o0 O);
        pvn pitch rMinor;
        pvn (pitch / two - xOfs) rMinor;
        pvs (o0 O) (r0 + h) rCrest 5;
        pvn ((- pitch) / two + xOfs) rMinor;
        pvn (- pitch) rMinor;
        pvn (- pitch) (o0 O) ].

  Definition iso_thread (radius pitch : T) (external : bool) : list V2 :=
    vertices (iso_thread_pv radius pitch external).

  (* ------------------------------------------------------------ closed form of the ISOThread outlines
     (left to right, without the two corners on the axis).  Smooth(radius, 5) replaces a corner by the
     6 points at 30 + 24 j degrees on the tangent arc.  Sdf/IsoProfile.v proves the nesting for these
     lists at ROps; Sdf/C18Corr.v compares them with `iso_thread` at FOps on every run. *)
  Definition iso_H : T := osqrt O (ofZ O 3) / two.                       (* h / pitch *)
  Definition iso_ang (n d : Z) : T := ofZ O n * opi O / ofZ O d.
  Definition iso_kx (a : T) : T := osqrt O (ofZ O 3) / ofZ O 12 * ocos O a.
  Definition iso_ky (a : T) : T := osqrt O (ofZ O 3) / ofZ O 12 * osin O a.

  Definition iso_ext_outline (r p : T) : list (T * T) :=
    let a1 := iso_ang 3 10 in let a2 := iso_ang 13 30 in let a3 := iso_ang 17 30 in let a4 := iso_ang 7 10 in
    let rm := r + p * (- cst 5 8 * iso_H) in
    let cy := r + p * (- cst 13 24 * iso_H) in
    [ (- p, r + p * (iso_H / ofZ O 8));
      (p * (- cst 5 8), rm);
      (p * (- cst 1 2 + iso_kx a4), cy - p * iso_ky a4);
      (p * (- cst 1 2 + iso_kx a3), cy - p * iso_ky a3);
      (p * (- cst 1 2 + iso_kx a2), cy - p * iso_ky a2);
      (p * (- cst 1 2 + iso_kx a1), cy - p * iso_ky a1);
      (p * (- cst 3 8), rm);
      (p * (- cst 1 16), r);
      (p * cst 1 16, r);
      (p * cst 3 8, rm);
      (p * (cst 1 2 + iso_kx a4), cy - p * iso_ky a4);
      (p * (cst 1 2 + iso_kx a3), cy - p * iso_ky a3);
      (p * (cst 1 2 + iso_kx a2), cy - p * iso_ky a2);
      (p * (cst 1 2 + iso_kx a1), cy - p * iso_ky a1);
      (p * cst 5 8, rm);
      (p, r + p * (iso_H / ofZ O 8)) ].

  Definition iso_int_outline (r p : T) : list (T * T) :=
    let a1 := iso_ang 3 10 in let a2 := iso_ang 13 30 in let a3 := iso_ang 17 30 in let a4 := iso_ang 7 10 in
    let rm := r + p * (- cst 5 8 * iso_H) in
    let cy := r + p * (- cst 1 24 * iso_H) in
    [ (- p, rm);
      (p * (- cst 3 8), rm);
      (p * (- cst 1 16), r);
      (p * (iso_kx a4 / two), cy + p * (iso_ky a4 / two));
      (p * (iso_kx a3 / two), cy + p * (iso_ky a3 / two));
      (p * (iso_kx a2 / two), cy + p * (iso_ky a2 / two));
      (p * (iso_kx a1 / two), cy + p * (iso_ky a1 / two));
      (p * cst 1 16, r);
      (p * cst 3 8, rm);
      (p, rm) ].

  (* the polygon ISOThread hands to Polygon2D, from the outline: Go lists it right to left and closes it
     through the two corners on the axis *)
  Definition iso_polygon_of_outline (p : T) (outline : list (T * T)) : list V2 :=
    mkV2 p (o0 O) :: map (fun q => mkV2 (fst q) (snd q)) (rev outline) ++ [mkV2 (- p) (o0 O)].

  (* ------------------------------------------------------------ mesh2.go *)

  (* lineInfo: a, b, unit vector, length *)
  Record LineInfo := mkLI { li_a : V2; li_b : V2; li_u : V2; li_len : T }.
  Definition new_line_info (a b : V2) : LineInfo :=
    let v := v2sub b a in mkLI a b (v2normalize v) (v2len v).

  (* func (a *lineInfo) minDistance2(p v2.Vec) float64 *)
  Definition min_distance2 (a : LineInfo) (p : V2) : T :=
    let pa := v2sub p (li_a a) in
    let t := v2dot pa (li_u a) in
    if t <? o0 O then v2len2 (v2sub (li_a a) p)
    else if t >? li_len a then v2len2 (v2sub (li_b a) p)
    else let dn := v2dot pa (mkV2 (vy (li_u a)) (- vx (li_u a))) in dn * dn.

  (* func (a *lineInfo) winding(p v2.Vec) int *)
  Definition winding (a : LineInfo) (p : V2) : Z :=
    let ay := vy (li_a a) in
    let by_ := vy (li_b a) in
    let dn := v2dot (v2sub p (li_a a)) (mkV2 (vy (li_u a)) (- vx (li_u a))) in
    if ay <=? vy p then (if (by_ >? vy p) && (dn <? o0 O) then 1%Z else 0%Z)
    else (if (by_ <=? vy p) && (dn >? o0 O) then (-1)%Z else 0%Z).

  (* func VertexToLine(vertex, closed=true): the closing segment is added unless the last vertex
     IS the first one (`vertex[0] != vertex[n-1]`, sdfx bf5538d; before that: unless the two
     coincide within `tolerance`) *)
  Definition v2eqb (a b : V2) : bool := (vx a =? vx b) && (vy a =? vy b).

  Fixpoint segments (l : list V2) : list LineInfo :=
    match l with
    | a :: ((b :: _) as tl) => new_line_info a b :: segments tl
    | _ => []
    end.

  Definition polygon_lines (l : list V2) : list LineInfo :=
    match l with
    | [] => []
    | v0 :: _ => if v2eqb v0 (last l v0) then segments l else segments (l ++ [v0])
    end.

  (* func (s *MeshSDF2Slow) Evaluate: the exhaustive loop.  (MeshSDF2.Evaluate, which Polygon2D
     returns, walks a quadtree of clipped pieces of the same segments - C04's subject.) *)
  Definition mesh_eval (ls : list LineInfo) (p : V2) : T :=
    let d2 := fold_left (fun d li => omin O d (min_distance2 li p)) ls (omaxf O) in
    let wn := fold_left (fun w li => (w + winding li p)%Z) ls 0%Z in
    let d := osqrt O d2 in
    if Z.eqb wn 0 then d else - d.

  Definition polygon_eval (l : list V2) (p : V2) : T := mesh_eval (polygon_lines l) p.

End Screw.

Arguments ScrewSDF3 : clear implicits.
Arguments PV : clear implicits.
Arguments LineInfo : clear implicits.
