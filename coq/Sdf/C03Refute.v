(* C03: the statements of the property that the pinned code does NOT satisfy, with explicit witnesses.
   (1) RotateCopy of an operand that is not mirror-symmetric about the sector axis is discontinuous. *)
From Coq Require Import Reals Lra Lia List Bool ZArith Psatz.
From Sdfx Require Import Num.Ops Num.RInst Geo.Vec Geo.Box Geo.BoxR Geo.NormR Geo.MinMaxR Geo.Mat
  Sdf.Union2 Sdf.Shape Sdf.ShapeR Sdf.LipR Sdf.LipTreeR Sdf.RotCopyR Sdf.ExactR.
Import ListNotations.
Open Scope R_scope.

Lemma sawtooth_val x period (m : Z) : 0 < period ->
  IZR m <= (x + period / 2) / period < IZR m + 1 -> @sawtooth ROps x period = x - period * IZR m.
Proof.
  intros Hp Hm. unfold sawtooth, two. cbn. unfold Rfloor.
  replace (period / (1 + 1)) with (period / 2) by (f_equal; ring).
  rewrite (Int_part_unique m _ Hm). field. lra.
Qed.

(* the lower half disc of radius 2: Cut2D(Circle2D(2), (0,0), (1,0)) *)
Definition half_disc : Shape2 ROps := Cut2 (Circle 2) (mkV2 0 0) (mkV2 1 0).

Lemma half_disc_build : exists oc, build2 half_disc = Some oc /\ forall p, ev2 oc p = Rmax (vy p) (len2 p - 2).
Proof.
  unfold half_disc. cbn [build2]. unfold k_circle.
  change (oltb ROps 2 (o0 ROps)) with (Rltb 2 0).
  destruct (Rltb 2 0) eqn:C; [apply Rltb_true in C; lra|]. cbn [obind]. unfold k_cut2.
  eexists. split; [reflexivity|]. intros p. cbn [ev2].
  change (omax ROps) with Rmax. f_equal.
  unfold v2dot, v2sub, v2normalize, v2muls, v2len, v2len2, v2dot. cbn.
  replace (1 * 1 + 0 * 0) with 1 by ring. rewrite sqrt_1. field.
Qed.

Lemma rotatecopy2_ev oc n : (0 < n)%Z -> exists o, k_rotatecopy2 oc n = Some o /\
  forall p, ev2 o p = ev2 oc (mkV2 (len2 p * cos (@sawtooth ROps (Ratan2 (vy p) (vx p)) (@tau ROps / IZR n)))
                                   (len2 p * sin (@sawtooth ROps (Ratan2 (vy p) (vx p)) (@tau ROps / IZR n)))).
Proof.
  intros Hn. unfold k_rotatecopy2. destruct (n <=? 0)%Z eqn:C; [apply Z.leb_le in C; lia|].
  eexists. split; [reflexivity|]. intros p. reflexivity.
Qed.

Lemma tau_half : @tau ROps / IZR 2 = PI.
Proof. unfold tau, two. cbn. field. Qed.

Theorem rotatecopy_asymmetric_refuted :
  exists (s : Shape2 ROps) (o : RObj2) (p q : RV2),
    lipwf2 s /\ build2 (RotateCopy2 s 2) = Some o /\ dist2 p q < Rabs (ev2 o p - ev2 o q).
Proof.
  destruct half_disc_build as (oc & Boc & Eoc).
  destruct (rotatecopy2_ev oc 2 ltac:(lia)) as (o & Bo & Eo).
  exists half_disc, o, (mkV2 0 1), (mkV2 1 1).
  split; [cbn; split; [left; lra | exact I]|].
  split; [cbn [build2]; rewrite Boc; cbn [obind]; exact Bo|].
  pose proof PI_RGT_0 as Hpi.
  (* p = (0,1): angle PI/2 is folded to -PI/2, the operand is evaluated at (0,-1) *)
  assert (Vp : ev2 o (mkV2 0 1) = -1).
  { rewrite Eo, Eoc. cbn [vx vy]. rewrite tau_half.
    assert (Ea : Ratan2 1 0 = PI / 2).
    { unfold Ratan2. destruct (Rlt_dec 0 0); [lra|]. destruct (Rlt_dec 0 1); [reflexivity | lra]. }
    rewrite Ea. rewrite (sawtooth_val (PI / 2) PI 1) by (try lra; replace ((PI / 2 + PI / 2) / PI) with 1 by (field; lra); lra).
    replace (PI / 2 - PI * 1) with (- (PI / 2)) by field. rewrite cos_neg, sin_neg, cos_PI2, sin_PI2.
    assert (El : len2 (mkV2 0 1) = 1) by (unfold len2; cbn [vx vy]; replace (0 * 0 + 1 * 1) with 1 by ring; apply sqrt_1).
    rewrite El.
    replace (len2 (mkV2 (1 * 0) (1 * - (1)))) with 1.
    2:{ unfold len2; cbn [vx vy]. replace (1 * 0 * (1 * 0) + 1 * - (1) * (1 * - (1))) with 1 by ring. symmetry; apply sqrt_1. }
    unfold Rmax. destruct (Rle_dec _ _); lra. }
  (* q = (1,1): angle PI/4 stays, the operand is evaluated at (1,1) *)
  assert (Vq : ev2 o (mkV2 1 1) = 1).
  { rewrite Eo, Eoc. cbn [vx vy]. rewrite tau_half.
    assert (Ea : Ratan2 1 1 = PI / 4).
    { unfold Ratan2. destruct (Rlt_dec 0 1); [|lra]. replace (1 / 1) with 1 by field. apply atan_1. }
    rewrite Ea. rewrite (sawtooth_val (PI / 4) PI 0) by (try lra; replace ((PI / 4 + PI / 2) / PI) with (3 / 4) by (field; lra); lra).
    replace (PI / 4 - PI * 0) with (PI / 4) by ring. rewrite cos_PI4, sin_PI4.
    assert (El : len2 (mkV2 1 1) = sqrt 2) by (unfold len2; cbn [vx vy]; f_equal; ring).
    rewrite El. assert (S2 : sqrt 2 * sqrt 2 = 2) by (apply sqrt_def; lra).
    assert (S0 : 0 < sqrt 2) by (apply sqrt_lt_R0; lra).
    replace (sqrt 2 * (1 / sqrt 2)) with 1 by (field; lra). rewrite El.
    unfold Rmax. destruct (Rle_dec 1 (sqrt 2 - 2)); [nra | reflexivity]. }
  rewrite Vp, Vq.
  assert (Ed : dist2 (mkV2 0 1) (mkV2 1 1) = 1).
  { unfold dist2, len2, sub2; cbn [vx vy]. replace ((0 - 1) * (0 - 1) + (1 - 1) * (1 - 1)) with 1 by ring. apply sqrt_1. }
  rewrite Ed. replace (-1 - 1) with (- (2)) by ring. rewrite Rabs_Ropp, Rabs_pos_eq; lra.
Qed.

(* (2) "Offsetting preserves exactness" is false for non-convex operands.  Witness: the two walls of a
   slot, S = { 1/2 < |x| < 3/2 } (two parallel strips; the slot |x| < 1/2 has half width 1/2),
   f(p) = ||x| - 1| - 1/2 is its exact signed distance.  Offset by r = 3/5 > 1/2: the slot closes,
   f - r = -1/10 at the slot centre, but the nearest point of the offset surface { f = r } is 21/10 away
   (only the bound |f - r| <= distance survives, which is the 1-Lipschitz property). *)
Definition walls (p : RV2) : R := Rabs (Rabs (vx p) - 1) - 1 / 2.
Definition walls_in (p : RV2) : Prop := 1 / 2 < Rabs (vx p) < 3 / 2.
Definition walls_bd (q : RV2) : Prop := Rabs (vx q) = 1 / 2 \/ Rabs (vx q) = 3 / 2.

Lemma walls_lip : lip1_2 walls.
Proof.
  intros p q. unfold walls. eapply Rle_trans; [|apply dist2_x].
  set (a := vx p) in *. set (b := vx q) in *.
  unfold Rabs. repeat destruct (Rcase_abs _); lra.
Qed.

Lemma dist2_same_y (x1 x2 y : R) : dist2 (mkV2 x1 y) (mkV2 x2 y) = Rabs (x1 - x2).
Proof.
  unfold dist2, len2, sub2. cbn [vx vy]. replace ((x1 - x2) * (x1 - x2) + (y - y) * (y - y)) with (Rsqr (x1 - x2)) by (unfold Rsqr; ring).
  apply sqrt_Rsqr_abs.
Qed.

Lemma walls_is_sdf : is_sdf2 walls walls_in walls_bd.
Proof.
  intros p. split; [|split].
  - unfold walls, walls_in. set (a := vx p). unfold Rabs. repeat destruct (Rcase_abs _); split; intros; lra.
  - intros q Hq. assert (Z : walls q = 0).
    { unfold walls. destruct Hq as [Hq|Hq]; rewrite Hq; unfold Rabs; destruct (Rcase_abs _); lra. }
    pose proof (walls_lip p q) as L. rewrite Z, Rminus_0_r in L. exact L.
  - destruct p as [x y]. unfold walls, walls_bd. cbn [vx vy].
    destruct (Rle_dec (Rabs x) 1) as [H1|H1].
    + exists (mkV2 (sg x * (1 / 2)) y). cbn [vx]. split; [left; apply abs_sg_mul; lra|].
      rewrite dist2_same_y. rewrite <- (sg_abs x) at 1.
      replace (sg x * Rabs x - sg x * (1 / 2)) with (sg x * (Rabs x - 1 / 2)) by ring.
      rewrite Rabs_mult. replace (Rabs (sg x)) with 1 by (unfold sg; destruct (Rle_dec 0 x); unfold Rabs; destruct (Rcase_abs _); lra).
      pose proof (Rabs_pos x). set (a := Rabs x) in *. unfold Rabs. repeat destruct (Rcase_abs _); lra.
    + exists (mkV2 (sg x * (3 / 2)) y). cbn [vx]. split; [right; apply abs_sg_mul; lra|].
      rewrite dist2_same_y. rewrite <- (sg_abs x) at 1.
      replace (sg x * Rabs x - sg x * (3 / 2)) with (sg x * (Rabs x - 3 / 2)) by ring.
      rewrite Rabs_mult. replace (Rabs (sg x)) with 1 by (unfold sg; destruct (Rle_dec 0 x); unfold Rabs; destruct (Rcase_abs _); lra).
      pose proof (Rabs_pos x). set (a := Rabs x) in *. unfold Rabs. repeat destruct (Rcase_abs _); lra.
Qed.

Theorem offset_nonconvex_refuted :
  exists (f : RV2 -> R) (S B : RV2 -> Prop) (r : R) (c : RV2),
    is_sdf2 f S B /\ lip1_2 f /\ 0 <= r /\
    f c - r = - (1 / 10) /\ (forall q, f q = r -> 21 / 10 <= dist2 c q) /\
    ~ is_sdf2 (fun p => f p - r) (fun p => f p < r) (fun q => f q = r).
Proof.
  exists walls, walls_in, walls_bd, (3 / 5), (mkV2 0 0).
  assert (Hc : walls (mkV2 0 0) - 3 / 5 = - (1 / 10)).
  { unfold walls. cbn [vx]. rewrite Rabs_R0. replace (0 - 1) with (- (1)) by ring. rewrite Rabs_Ropp, Rabs_pos_eq; lra. }
  assert (Hfar : forall q, walls q = 3 / 5 -> 21 / 10 <= dist2 (mkV2 0 0) q).
  { intros q Hq. eapply Rle_trans; [|apply dist2_x]. cbn [vx]. unfold walls in Hq. set (a := vx q) in *.
    replace (0 - a) with (- a) by ring. rewrite Rabs_Ropp. unfold Rabs in *. repeat destruct (Rcase_abs _); lra. }
  split; [exact walls_is_sdf|]. split; [exact walls_lip|]. split; [lra|]. split; [exact Hc|]. split; [exact Hfar|].
  intros H. destruct (H (mkV2 0 0)) as (_ & _ & (q & Hq & Dq)). rewrite Hc in Dq.
  rewrite Rabs_Ropp, Rabs_pos_eq in Dq by lra. pose proof (Hfar q Hq). lra.
Qed.

(* (3) Union2D with the plain minimum prunes operands by their bounding boxes.  Without the hypotheses
   of the pruning (prune_ok2: here an operand whose solid is empty, the intersection of two disjoint
   boxes, so that its value exceeds the distance to the farthest point of its stored box) the pruned
   evaluation drops the operand that attains the minimum and is not even continuous.
   Evaluated with exact rationals (QOps; no square root is taken on these evaluation paths):
   f(-21/2, 0) = 23/2 and f(-21/2, 1/2) = 19/2: a jump of 2 over a distance of 1/2. *)
From Coq Require Import QArith.
From Sdfx Require Import Num.QInst.

Definition qtr (tx ty : Q) : list Q := [1; 0; tx; 0; 1; ty; 0; 0; 1]%Q.
Definition qbox : Shape2 QOps := @Box2D QOps (mkV2 2 2)%Q 0%Q.
Definition prune_witness : Shape2 QOps :=
  @Union2 QOps (@Shape.MinDef QOps)
    [ @Intersect2 QOps (@Shape.MaxDef QOps) (@Transform2 QOps qbox (qtr (-2) 0)) (@Transform2 QOps qbox (qtr 2 0));
      @Transform2 QOps qbox (qtr (- (21 # 2)) 11) ].

Definition prune_values : option (Q * Q) :=
  match @build2 QOps prune_witness with
  | Some o => Some (Qred (ev2 o (mkV2 (- (21 # 2)) 0)%Q), Qred (ev2 o (mkV2 (- (21 # 2)) (1 # 2))%Q))
  | None => None
  end.

(* With the pinned pruning (interval overlap) these two values were 23/2 and 19/2: a jump of 2 over a
   distance of 1/2.  The repaired pruning returns the exhaustive minimum: 10 and 19/2. *)
Theorem union2_prune_witness_repaired : prune_values = Some (10, 19 # 2)%Q.
Proof. vm_compute. reflexivity. Qed.
