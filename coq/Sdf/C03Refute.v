(* C03: the statements of the property that the pinned code does NOT satisfy, with explicit witnesses.
   (1) RotateCopy of an operand that is not mirror-symmetric about the sector axis is discontinuous. *)
From Coq Require Import Reals Lra Lia List Bool ZArith Psatz.
From Sdfx Require Import Num.Ops Num.RInst Geo.Vec Geo.Box Geo.BoxR Geo.NormR Geo.MinMaxR Geo.Mat
  Sdf.Union2 Sdf.Shape Sdf.ShapeR Sdf.LipR Sdf.LipTreeR Sdf.RotCopyR.
Import ListNotations.
Open Scope R_scope.

Lemma sawtooth_val x period (m : Z) : 0 < period ->
  IZR m <= (x + period / 2) / period < IZR m + 1 -> @sawtooth ROps x period = x - period * IZR m.
Proof.
  intros Hp Hm. unfold sawtooth, two. cbn. unfold Rfloor.
  replace (period / (1 + 1)) with (period / 2) by (f_equal; ring).
  rewrite (Int_part_unique m _ Hm). field. lra.
Qed.

(* the lower half disc of radius 2: Cut2D(Circle2D(2), (0,0), (1,0)) *)
Definition half_disc : Shape2 ROps := Cut2 (Circle 2) (mkV2 0 0) (mkV2 1 0).

Lemma half_disc_build : exists oc, build2 half_disc = Some oc /\ forall p, ev2 oc p = Rmax (vy p) (len2 p - 2).
Proof.
  unfold half_disc. cbn [build2]. unfold k_circle.
  change (oltb ROps 2 (o0 ROps)) with (Rltb 2 0).
  destruct (Rltb 2 0) eqn:C; [apply Rltb_true in C; lra|]. cbn [obind]. unfold k_cut2.
  eexists. split; [reflexivity|]. intros p. cbn [ev2].
  change (omax ROps) with Rmax. f_equal.
  unfold v2dot, v2sub, v2normalize, v2muls, v2len, v2len2, v2dot. cbn.
  replace (1 * 1 + 0 * 0) with 1 by ring. rewrite sqrt_1. field.
Qed.

Lemma rotatecopy2_ev oc n : (0 < n)%Z -> exists o, k_rotatecopy2 oc n = Some o /\
  forall p, ev2 o p = ev2 oc (mkV2 (len2 p * cos (@sawtooth ROps (Ratan2 (vy p) (vx p)) (@tau ROps / IZR n)))
                                   (len2 p * sin (@sawtooth ROps (Ratan2 (vy p) (vx p)) (@tau ROps / IZR n)))).
Proof.
  intros Hn. unfold k_rotatecopy2. destruct (n <=? 0)%Z eqn:C; [apply Z.leb_le in C; lia|].
  eexists. split; [reflexivity|]. intros p. reflexivity.
Qed.

Lemma tau_half : @tau ROps / IZR 2 = PI.
Proof. unfold tau, two. cbn. field. Qed.

Theorem rotatecopy_asymmetric_refuted :
  exists (s : Shape2 ROps) (o : RObj2) (p q : RV2),
    lipwf2 s /\ build2 (RotateCopy2 s 2) = Some o /\ dist2 p q < Rabs (ev2 o p - ev2 o q).
Proof.
  destruct half_disc_build as (oc & Boc & Eoc).
  destruct (rotatecopy2_ev oc 2 ltac:(lia)) as (o & Bo & Eo).
  exists half_disc, o, (mkV2 0 1), (mkV2 1 1).
  split; [cbn; split; [left; lra | exact I]|].
  split; [cbn [build2]; rewrite Boc; cbn [obind]; exact Bo|].
  pose proof PI_RGT_0 as Hpi.
  (* p = (0,1): angle PI/2 is folded to -PI/2, the operand is evaluated at (0,-1) *)
  assert (Vp : ev2 o (mkV2 0 1) = -1).
  { rewrite Eo, Eoc. cbn [vx vy]. rewrite tau_half.
    assert (Ea : Ratan2 1 0 = PI / 2).
    { unfold Ratan2. destruct (Rlt_dec 0 0); [lra|]. destruct (Rlt_dec 0 1); [reflexivity | lra]. }
    rewrite Ea. rewrite (sawtooth_val (PI / 2) PI 1) by (try lra; replace ((PI / 2 + PI / 2) / PI) with 1 by (field; lra); lra).
    replace (PI / 2 - PI * 1) with (- (PI / 2)) by field. rewrite cos_neg, sin_neg, cos_PI2, sin_PI2.
    assert (El : len2 (mkV2 0 1) = 1) by (unfold len2; cbn [vx vy]; replace (0 * 0 + 1 * 1) with 1 by ring; apply sqrt_1).
    rewrite El.
    replace (len2 (mkV2 (1 * 0) (1 * - (1)))) with 1.
    2:{ unfold len2; cbn [vx vy]. replace (1 * 0 * (1 * 0) + 1 * - (1) * (1 * - (1))) with 1 by ring. symmetry; apply sqrt_1. }
    unfold Rmax. destruct (Rle_dec _ _); lra. }
  (* q = (1,1): angle PI/4 stays, the operand is evaluated at (1,1) *)
  assert (Vq : ev2 o (mkV2 1 1) = 1).
  { rewrite Eo, Eoc. cbn [vx vy]. rewrite tau_half.
    assert (Ea : Ratan2 1 1 = PI / 4).
    { unfold Ratan2. destruct (Rlt_dec 0 1); [|lra]. replace (1 / 1) with 1 by field. apply atan_1. }
    rewrite Ea. rewrite (sawtooth_val (PI / 4) PI 0) by (try lra; replace ((PI / 4 + PI / 2) / PI) with (3 / 4) by (field; lra); lra).
    replace (PI / 4 - PI * 0) with (PI / 4) by ring. rewrite cos_PI4, sin_PI4.
    assert (El : len2 (mkV2 1 1) = sqrt 2) by (unfold len2; cbn [vx vy]; f_equal; ring).
    rewrite El. assert (S2 : sqrt 2 * sqrt 2 = 2) by (apply sqrt_def; lra).
    assert (S0 : 0 < sqrt 2) by (apply sqrt_lt_R0; lra).
    replace (sqrt 2 * (1 / sqrt 2)) with 1 by (field; lra). rewrite El.
    unfold Rmax. destruct (Rle_dec 1 (sqrt 2 - 2)); [nra | reflexivity]. }
  rewrite Vp, Vq.
  assert (Ed : dist2 (mkV2 0 1) (mkV2 1 1) = 1).
  { unfold dist2, len2, sub2; cbn [vx vy]. replace ((0 - 1) * (0 - 1) + (1 - 1) * (1 - 1)) with 1 by ring. apply sqrt_1. }
  rewrite Ed. replace (-1 - 1) with (- (2)) by ring. rewrite Rabs_Ropp, Rabs_pos_eq; lra.
Qed.
