(* obj.Nut / obj.Bolt (Generated/ObjThread.v: the construction as read from the CURRENT obj/nut.go and
   obj/bolt.go): the threaded part of a generated bolt and the material of a generated nut of the same
   designation have no common interior point, for all tolerances >= 0 of both, every head style and all
   lengths - with the nut centred on the bolt's thread, for every designation (tapered ones included), and
   for untapered threads also with the nut moved along the axis by whole pitches.  Consequence of the
   sdf-level theorems (Sdf/ScrewR.v: one helical mapping for both screws; Sdf/IsoProfile.v: the external
   outline lies under the internal outline) applied to the arguments the generators really pass. *)
From Coq Require Import Reals ZArith List String Bool Lra.
From Sdfx Require Import Num.Ops.
From Sdfx Require Import Num.RInst.
From Sdfx Require Import Geo.Vec.
From Sdfx Require Import Generated.Threads.
From Sdfx Require Import Sdf.Screw.
From Sdfx Require Import Sdf.ScrewR.
From Sdfx Require Import Sdf.IsoProfile.
From Sdfx Require Import Sdf.ObjSkel.
From Sdfx Require Import Generated.ObjThread.
Import ListNotations.
Local Open Scope R_scope.
Local Open Scope string_scope.

(* equal real expressions (the generators may write t.Radius + k.Tolerance in another order) *)
Ltac rarith :=
  cbv zeta; cbn [T o0 o1 oadd osub omul odiv oneg ofZ ROps]; unfold cst, half, two; cbn [T o0 o1 oadd osub omul odiv oneg ofZ ROps];
  first [ lra | ring | (field; lra) ].

(* ------------------------------------------------------------------ meaning of a skeleton term *)
Section Sem.
  (* Evaluate of the profile sdf.ISOThread(radius, pitch, external) returns *)
  Variable prof : R -> R -> bool -> V2 ROps -> R.
  (* interior { Evaluate < 0 } of what the other constructors return (HexHead3D, KnurledHead3D, Cylinder3D) *)
  Variable call_in : string -> list R -> list string -> V3 ROps -> Prop.
  (* interior of the chamfered cylinder obj.ChamferedCylinder(s, kb, kt) intersects s with *)
  Variable chamfer_in : list R -> V3 ROps -> Prop.

  (* strictly outside { Evaluate > 0 }: needed for the shape that is cut away *)
  Inductive outside : Sk3 ROps -> V3 ROps -> Prop :=
  | out_screw : forall r p e len taper pitch starts s q,
      @screw3d ROps len taper pitch starts = Some s -> 0 < screw_eval (prof r p e) s q ->
      outside (SkScrew3D (SkISOThread r p e) len taper pitch starts) q.

  (* the interior { Evaluate < 0 } *)
  Inductive inside : Sk3 ROps -> V3 ROps -> Prop :=
  | in_screw : forall r p e len taper pitch starts s q,
      @screw3d ROps len taper pitch starts = Some s -> screw_eval (prof r p e) s q < 0 ->
      inside (SkScrew3D (SkISOThread r p e) len taper pitch starts) q
  | in_difference : forall a b q,                     (* max(a, -b) < 0 *)
      inside a q -> outside b q -> inside (SkDifference3D a b) q
  | in_union : forall l a q,                          (* min over the non-nil members < 0 *)
      In a l -> inside a q -> inside (SkUnion3D l) q
  | in_translate : forall a d q,                      (* a.Evaluate(q - d) *)
      inside a (v3sub q d) -> inside (SkTranslate3D a d) q
  | in_leaf : forall name nums strs q,
      call_in name nums strs q -> inside (SkCall3 name nums strs []) q
  | in_chamfered : forall nums strs a q,              (* Intersect3D(s, cc) = max(s, cc) < 0 *)
      inside a q -> chamfer_in nums q -> inside (SkCall3 "ChamferedCylinder" nums strs [a]) q.

  (* a part that contains a screw thread *)
  Inductive has_screw : Sk3 ROps -> Prop :=
  | hs_screw : forall th len taper pitch starts, has_screw (SkScrew3D th len taper pitch starts)
  | hs_translate : forall a d, has_screw a -> has_screw (SkTranslate3D a d)
  | hs_call : forall name nums strs subs a, In a subs -> has_screw a -> has_screw (SkCall3 name nums strs subs)
  | hs_union : forall l a, In a l -> has_screw a -> has_screw (SkUnion3D l)
  | hs_diff_l : forall a b, has_screw a -> has_screw (SkDifference3D a b)
  | hs_diff_r : forall a b, has_screw b -> has_screw (SkDifference3D a b).

  (* ---------------------------------------------------------------- mating with an axial shift *)

  (* an untapered screw maps q and q - (0, 0, k*pitch) to the same point of the profile plane, whatever its lead *)
  Lemma screw_map_shift : forall pitch lead len_a len_b (k : Z) (p p' : V3 ROps),
    pitch <> 0 -> wx p' = wx p -> wy p' = wy p -> wz p' = wz p - IZR k * pitch ->
    screw_map (mkScrew pitch lead len_a 0) p' = screw_map (mkScrew pitch lead len_b 0) p.
  Proof.
    intros pitch lead len_a len_b k p p' Hp Hx Hy Hz.
    unfold screw_map. cbn [s_taper s_lead s_pitch]. rewrite Hx, Hy, Hz.
    cbn [oeqb o0 ROps]. replace (Reqb 0 0) with true by (symmetry; apply Reqb_true; reflexivity).
    cbn [negb]. f_equal.
    cbn [oadd omul odiv osub oatan2 ROps].
    match goal with |- sawtooth ?a pitch = sawtooth ?b pitch =>
      replace a with (b + IZR (- k) * pitch) by (rewrite opp_IZR; ring) end.
    apply sawtooth_periodic. exact Hp.
  Qed.

  Lemma mating_shifted :
    forall (ext int : V2 ROps -> R) pitch lead taper len_e len_i,
    0 < pitch ->
    (forall q, - pitch / 2 <= vx q < pitch / 2 -> ext q < 0 -> int q <= 0) ->
    forall (k : Z), (k = 0%Z \/ taper = 0) ->
    forall p p' : V3 ROps, wx p' = wx p -> wy p' = wy p -> wz p' = wz p - IZR k * pitch ->
      Rabs (wz p') <= len_i ->
      ~ (screw_eval ext (mkScrew pitch lead len_e taper) p < 0 /\
         0 < screw_eval int (mkScrew pitch lead len_i taper) p').
  Proof.
    intros ext int pitch lead taper len_e len_i Hp Hnest k Hk p p' Hx Hy Hz Hlen [He Hi].
    assert (M : screw_map (mkScrew pitch lead len_i taper) p' = screw_map (mkScrew pitch lead len_e taper) p).
    { destruct Hk as [-> | ->].
      - assert (E : p' = p).
        { destruct p, p'; cbn in *. subst. f_equal. lra. }
        rewrite E. reflexivity.
      - apply (screw_map_shift pitch lead len_i len_e k p p'); try assumption. lra. }
    unfold screw_eval in He, Hi. cbn [omax oabs osub ROps s_length] in He, Hi.
    rewrite M in Hi.
    set (q := screw_map (mkScrew pitch lead len_e taper) p) in *.
    assert (He0 : ext q < 0) by (eapply Rle_lt_trans; [apply Rmax_l | exact He]).
    assert (Hq : - pitch / 2 <= vx q < pitch / 2).
    { unfold q, screw_map. cbn [vx s_pitch]. apply sawtooth_range. exact Hp. }
    pose proof (Hnest q Hq He0) as Hint.
    assert (Rmax (int q) (Rabs (wz p') - len_i) <= 0) by (apply Rmax_lub; lra).
    lra.
  Qed.

  (* ---------------------------------------------------------------- the generated constructions *)

  Lemma v3sub_z (q : V3 ROps) d : v3sub q (mkV3 0 0 d) = mkV3 (wx q) (wy q) (wz q - d).
  Proof. unfold v3sub. cbn. f_equal; lra. Qed.

  Theorem obj_nut_bolt_mate :
    forall (t : ThreadParameters ROps) name_n style_n tol_n name_b style_b tol_b total shank N B,
    gen_Nut t name_n style_n tol_n = Some N ->
    gen_Bolt t name_b style_b tol_b total shank = Some B ->
    0 < Pitch t ->
    (* what C04 is about: the external profile is negative only under its outline, the internal profile
       is non-positive under its outline (on the strip the helical mapping reaches) *)
    (forall q, - Pitch t / 2 <= vx q <= Pitch t / 2 -> prof (Radius t - tol_b) (Pitch t) true q < 0 ->
               0 <= vy q /\ under (@iso_ext_outline ROps (Radius t - tol_b) (Pitch t)) (vx q) (vy q)) ->
    (forall q, - Pitch t / 2 <= vx q <= Pitch t / 2 -> 0 <= vy q ->
               under (@iso_int_outline ROps (Radius t + tol_n) (Pitch t)) (vx q) (vy q) ->
               prof (Radius t + tol_n) (Pitch t) false q <= 0) ->
    (* the body of the nut (a hex or knurled head; its second argument is the height) lies between its end planes *)
    (forall name nums strs q, name = "HexHead3D" \/ name = "KnurledHead3D" ->
               call_in name nums strs q -> Rabs (wz q) <= nth 1 nums 0 / 2) ->
    0 <= tol_n /\ 0 <= tol_b /\
    exists (l : list (Sk3 ROps)) (off : R), B = SkUnion3D l /\
      forall a, In a l -> has_screw a ->
      forall (k : Z), (k = 0%Z \/ Taper t = 0) ->
      forall q, ~ (inside a q /\ inside N (v3sub q (mkV3 0 0 (off + IZR k * Pitch t)))).
  Proof.
    intros t name_n style_n tol_n name_b style_b tol_b total shank N B HN HB Hp Hext Hint Hbody.
    unfold gen_Nut in HN. unfold gen_Bolt in HB.
    cbn [oltb o0 ROps] in HN, HB.
    destruct (Rltb tol_n 0) eqn:En; [discriminate|]. apply Rltb_false in En.
    destruct (Rltb total 0) eqn:E1; [discriminate|].
    destruct (Rltb shank 0) eqn:E2; [discriminate|].
    destruct (Rltb tol_b 0) eqn:Eb; [discriminate|]. apply Rltb_false in Eb.
    split; [exact En|]. split; [exact Eb|].
    (* the mating argument for one explicit pair (thread part, nut) *)
    assert (KEY : forall body_name body_nums body_strs nh cham_nums cham_strs tl off,
      nth 1 body_nums 0 = nh ->
      body_name = "HexHead3D" \/ body_name = "KnurledHead3D" ->
      forall (k : Z), (k = 0%Z \/ Taper t = 0) -> forall q,
      ~ (inside (SkTranslate3D (SkCall3 "ChamferedCylinder" cham_nums cham_strs
                   [SkScrew3D (SkISOThread (Radius t - tol_b) (Pitch t) true) tl (Taper t) (Pitch t) 1%Z])
                   (mkV3 0 0 off)) q /\
         inside (SkDifference3D (SkCall3 body_name body_nums body_strs [])
                   (SkScrew3D (SkISOThread (Radius t + tol_n) (Pitch t) false) nh (Taper t) (Pitch t) 1%Z))
                (v3sub q (mkV3 0 0 (off + IZR k * Pitch t))))).
    { intros body_name body_nums body_strs nh cham_nums cham_strs tl off Hnh Hname k Hk q [Ha Hn].
      inversion Ha as [| | | a0 d0 q0 Ha1 | |]; subst.
      inversion Ha1 as [| | | | | nums0 strs0 a1 q1 Ha2 _]; subst.
      inversion Ha2 as [r0 p0 e0 len0 tp0 pi0 st0 se q2 Sse Hse | | | | |]; subst.
      inversion Hn as [| a0 b0 q0 Hb1 Hb2 | | | |]; subst.
      inversion Hb1 as [| | | | nm0 nums0 strs0 q1 Hc |]; subst.
      inversion Hb2 as [r0 p0 e0 len0 tp0 pi0 st0 si q2 Ssi Hsi]; subst.
      apply screw3d_some in Sse. destruct Sse as (_ & _ & _ & ->).
      apply screw3d_some in Ssi. destruct Ssi as (_ & _ & _ & ->).
      pose proof (Hbody _ _ _ _ Hname Hc) as Hz.
      rewrite !v3sub_z in *. cbn [wx wy wz] in *.
      refine (mating_shifted (prof (Radius t - tol_b) (Pitch t) true) (prof (Radius t + tol_n) (Pitch t) false)
                (Pitch t) (- Pitch t * IZR 1) (Taper t) (tl / 2) (nth 1 body_nums 0 / 2) Hp _ k Hk
                (mkV3 (wx q) (wy q) (wz q - off)) (mkV3 (wx q) (wy q) (wz q - (off + IZR k * Pitch t)))
                eq_refl eq_refl _ Hz (conj Hse Hsi)).
      - intros u Hu Hneg.
        assert (Hu' : - Pitch t / 2 <= vx u <= Pitch t / 2) by lra.
        destruct (Hext u Hu' Hneg) as [Hy Hund].
        apply (Hint u Hu' Hy).
        replace (Radius t + tol_n) with ((Radius t - tol_b) + (tol_b + tol_n)) by ring.
        apply iso_outlines_nest; try assumption. lra.
      - cbn [wz]. lra. }
    (* the shapes the two generators return *)
    assert (NUT : exists body_name body_nums body_strs nh ri,
      N = SkDifference3D (SkCall3 body_name body_nums body_strs [])
            (SkScrew3D (SkISOThread ri (Pitch t) false) nh (Taper t) (Pitch t) 1%Z) /\
      ri = Radius t + tol_n /\
      nth 1 body_nums 0 = nh /\ (body_name = "HexHead3D" \/ body_name = "KnurledHead3D")).
    { destruct (String.eqb style_n "hex"); [| destruct (String.eqb style_n "knurl"); [| discriminate]];
        injection HN as <-; do 5 eexists; (split; [reflexivity|]);
        (split; [first [reflexivity | rarith]|]); (split; [first [reflexivity | rarith]|]); auto. }
    destruct NUT as (bn & bnums & bstrs & nh & ri & -> & -> & Hnh & Hbn).
    assert (BOLT : exists head sh third, B = SkUnion3D [head; sh; third] /\
      ~ has_screw head /\ ~ has_screw sh /\
      (third = SkNil \/ exists cn cs tl off re, third =
         SkTranslate3D (SkCall3 "ChamferedCylinder" cn cs
           [SkScrew3D (SkISOThread re (Pitch t) true) tl (Taper t) (Pitch t) 1%Z]) (mkV3 0 0 off) /\
         re = Radius t - tol_b)).
    { assert (NS1 : forall nm nums strs, ~ has_screw (SkCall3 nm nums strs [])).
      { intros nm nums strs H. inversion H as [| | ? ? ? ? ? Hin | | |]; subst. destruct Hin. }
      assert (NS2 : forall nm nums strs d, ~ has_screw (SkTranslate3D (SkCall3 nm nums strs []) d)).
      { intros nm nums strs d H. inversion H; subst. eapply NS1; eassumption. }
      destruct (String.eqb style_b "hex"); [| destruct (String.eqb style_b "knurl"); [| discriminate]];
        match type of HB with context [if ?c then _ else _] => destruct c end;
        injection HB as <-; do 3 eexists; (split; [reflexivity|]);
        (split; [apply NS1|]); (split; [apply NS2|]);
        first [ left; reflexivity
              | right; do 5 eexists; (split; [reflexivity|]); first [reflexivity | rarith] ]. }
    destruct BOLT as (head & sh & third & -> & Hh & Hs & Hthird).
    destruct Hthird as [-> | (cn & cs & tl & off & re & -> & ->)].
    - exists [head; sh; SkNil], 0. split; [reflexivity|].
      intros a Ha Hscr. exfalso.
      destruct Ha as [<- | [<- | [<- | []]]]; [exact (Hh Hscr) | exact (Hs Hscr) | inversion Hscr].
    - eexists _, off. split; [reflexivity|].
      intros a Ha Hscr k Hk q.
      destruct Ha as [<- | [<- | [<- | []]]]; [exfalso; exact (Hh Hscr) | exfalso; exact (Hs Hscr) |].
      apply (KEY bn bnums bstrs nh cn cs tl off Hnh Hbn k Hk q).
  Qed.

End Sem.

(* ------------------------------------------------------------------ non-vacuity: an M6x1 nut and bolt *)
Definition m6 : ThreadParameters ROps :=
  {| Name := "M6x1"; Radius := 3; Pitch := 1; Taper := 0; HexFlat2Flat := 10; Units := "mm" |}.

(* decides the comparisons of concrete numbers the generators make *)
Ltac decide_cmp :=
  repeat match goal with
  | |- context [Rltb ?a ?b] => first [ rewrite (proj2 (Rltb_false a b)) by lra | rewrite (proj2 (Rltb_true a b)) by lra ]
  | |- context [Rleb ?a ?b] => first [ rewrite (proj2 (Rleb_false a b)) by lra | rewrite (proj2 (Rleb_true a b)) by lra ]
  | |- context [Reqb ?a ?b] => first [ rewrite (proj2 (Reqb_false a b)) by lra | rewrite (proj2 (Reqb_true a b)) by lra ]
  | |- context [Rmax ?a ?b] => first [ rewrite (Rmax_left a b) by lra | rewrite (Rmax_right a b) by lra ]
  | |- context [Rmin ?a ?b] => first [ rewrite (Rmin_left a b) by lra | rewrite (Rmin_right a b) by lra ]
  | _ => progress cbn [negb andb orb String.eqb Ascii.eqb Bool.eqb]
  end.

Lemma m6_generated : forall prof,
  (exists N, gen_Nut m6 "M6x1" "hex" 0 = Some N) /\
  (exists l a, gen_Bolt m6 "M6x1" "hex" 0 10 2 = Some (SkUnion3D l) /\ In a l /\ has_screw a) /\
  (exists l a, gen_Bolt m6 "M6x1" "knurl" 0 10 2 = Some (SkUnion3D l) /\ In a l /\ has_screw a) /\
  (exists q, inside prof (fun _ _ _ _ => True) (fun _ _ => True)
               (SkCall3 "HexHead3D" [1; 2] ["tb"] []) q).
Proof.
  intros prof.
  split; [| split; [| split]].
  - unfold gen_Nut. cbv zeta. cbn [oltb oleb oeqb omax omin osub oadd o0 ROps m6 Radius Pitch Taper HexFlat2Flat].
    decide_cmp. eexists. reflexivity.
  - unfold gen_Bolt. cbv zeta. cbn [oltb oleb oeqb omax omin osub oadd o0 ROps m6 Radius Pitch Taper HexFlat2Flat].
    decide_cmp.
    eexists _, _. split; [reflexivity|]. split; [right; right; left; reflexivity|].
    apply hs_translate. eapply hs_call; [left; reflexivity|]. apply hs_screw.
  - unfold gen_Bolt. cbv zeta. cbn [oltb oleb oeqb omax omin osub oadd o0 ROps m6 Radius Pitch Taper HexFlat2Flat].
    decide_cmp.
    eexists _, _. split; [reflexivity|]. split; [right; right; left; reflexivity|].
    apply hs_translate. eapply hs_call; [left; reflexivity|]. apply hs_screw.
  - exists (mkV3 0 0 0). apply in_leaf. exact I.
Qed.
