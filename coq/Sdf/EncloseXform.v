(* C01 over the reals, part 3: Transform2D / Transform3D for every affine matrix with non-zero
   determinant (inverse_correct + mulbox_hull), translations for every class, rigid motions for
   the Euclidean class lb2. *)
From Coq Require Import Reals Lra Lia List Bool ZArith Psatz.
From Sdfx Require Import Num.Ops Num.RInst Geo.Vec Geo.Box Geo.BoxR Geo.MinMaxR Geo.NormR Geo.Mat
  Sdf.Union2 Sdf.Shape Sdf.ShapeR Sdf.EncloseR.
Import ListNotations.
Open Scope R_scope.

Notation RM := (list (T ROps)).
(* Go's M33/M44 are fixed-size arrays and MulPosition ignores the last row: the matrix is an affine
   map only if that row is (0,0,1) resp. (0,0,0,1); Transform2D/3D do not check this, nor that
   the determinant is non-zero. *)
Definition affine33 (m : RM) : Prop :=
  nth 6 m (o0 ROps) = 0 /\ nth 7 m (o0 ROps) = 0 /\ nth 8 m (o0 ROps) = 1.
Definition affine44 (m : RM) : Prop :=
  nth 12 m (o0 ROps) = 0 /\ nth 13 m (o0 ROps) = 0 /\ nth 14 m (o0 ROps) = 0 /\ nth 15 m (o0 ROps) = 1.

Ltac gen33 m :=
  generalize dependent (nth 0 m (o0 ROps)); generalize dependent (nth 1 m (o0 ROps));
  generalize dependent (nth 2 m (o0 ROps)); generalize dependent (nth 3 m (o0 ROps));
  generalize dependent (nth 4 m (o0 ROps)); generalize dependent (nth 5 m (o0 ROps)).
Ltac gen44 m :=
  generalize dependent (nth 0 m (o0 ROps)); generalize dependent (nth 1 m (o0 ROps));
  generalize dependent (nth 2 m (o0 ROps)); generalize dependent (nth 3 m (o0 ROps));
  generalize dependent (nth 4 m (o0 ROps)); generalize dependent (nth 5 m (o0 ROps));
  generalize dependent (nth 6 m (o0 ROps)); generalize dependent (nth 7 m (o0 ROps));
  generalize dependent (nth 8 m (o0 ROps)); generalize dependent (nth 9 m (o0 ROps));
  generalize dependent (nth 10 m (o0 ROps)); generalize dependent (nth 11 m (o0 ROps)).

(* ------------------------------------------------------------ inverse_correct *)
Lemma inverse33_correct_r (m : RM) (p : RV2) : affine33 m -> @m33_determinant ROps m <> 0 ->
  @m33_mulposition ROps m (@m33_mulposition ROps (@m33_inverse ROps m) p) = p.
Proof.
  intros (H6 & H7 & H8) Hd. destruct p as [x y].
  unfold m33_mulposition, m33_inverse. cbn [nth vx vy].
  unfold m33_determinant in *. rewrite H6, H7, H8 in *. gen33 m.
  intros a5 a4 a3 a2 a1 a0 Hd. cbn in *.
  f_equal; field; intros E; apply Hd; rnorm; lra.
Qed.
Lemma inverse33_correct (m : RM) (p : RV2) : affine33 m -> @m33_determinant ROps m <> 0 ->
  @m33_mulposition ROps (@m33_inverse ROps m) (@m33_mulposition ROps m p) = p.
Proof.
  intros (H6 & H7 & H8) Hd. destruct p as [x y].
  unfold m33_mulposition, m33_inverse. cbn [nth vx vy].
  unfold m33_determinant in *. rewrite H6, H7, H8 in *. gen33 m.
  intros a5 a4 a3 a2 a1 a0 Hd. cbn in *.
  f_equal; field; intros E; apply Hd; rnorm; lra.
Qed.
Lemma inverse44_correct_r (m : RM) (p : RV3) : affine44 m -> @m44_determinant ROps m <> 0 ->
  @m44_mulposition ROps m (@m44_mulposition ROps (@m44_inverse ROps m) p) = p.
Proof.
  intros (H12 & H13 & H14 & H15) Hd. destruct p as [x y z].
  unfold m44_mulposition, m44_inverse. cbn [nth wx wy wz].
  unfold m44_determinant in *. rewrite H12, H13, H14, H15 in *. gen44 m.
  intros a11 a10 a9 a8 a7 a6 a5 a4 a3 a2 a1 a0 Hd. cbn in *.
  f_equal; field; intros E; apply Hd; rnorm; lra.
Qed.
Lemma inverse44_correct (m : RM) (p : RV3) : affine44 m -> @m44_determinant ROps m <> 0 ->
  @m44_mulposition ROps (@m44_inverse ROps m) (@m44_mulposition ROps m p) = p.
Proof.
  intros (H12 & H13 & H14 & H15) Hd. destruct p as [x y z].
  unfold m44_mulposition, m44_inverse. cbn [nth wx wy wz].
  unfold m44_determinant in *. rewrite H12, H13, H14, H15 in *. gen44 m.
  intros a11 a10 a9 a8 a7 a6 a5 a4 a3 a2 a1 a0 Hd. cbn in *.
  f_equal; field; intros E; apply Hd; rnorm; lra.
Qed.

(* ------------------------------------------------------------ mulbox_hull *)
Lemma mul_between (a lo hi q : R) : lo <= q <= hi -> Rmin (a * lo) (a * hi) <= a * q <= Rmax (a * lo) (a * hi).
Proof.
  intros Hq. unfold Rmin, Rmax. destruct (Rle_dec (a * lo) (a * hi)); destruct (Rle_dec 0 a); nra.
Qed.

Lemma mulbox33_ordered (m : RM) b : ordered2 (m33_mulbox m b).
Proof.
  unfold ordered2, m33_mulbox; cbn.
  assert (A : forall x y : R, Rmin x y <= Rmax x y)
    by (intros x y; unfold Rmin, Rmax; repeat destruct (Rle_dec _ _); lra).
  split; repeat apply Rplus_le_compat; first [apply A | apply Rle_refl].
Qed.
Lemma mulbox44_ordered (m : RM) b : ordered3 (m44_mulbox m b).
Proof.
  unfold ordered3, m44_mulbox; cbn.
  assert (A : forall x y : R, Rmin x y <= Rmax x y)
    by (intros x y; unfold Rmin, Rmax; repeat destruct (Rle_dec _ _); lra).
  repeat split; repeat apply Rplus_le_compat; first [apply A | apply Rle_refl].
Qed.

Theorem mulbox33_hull (m : RM) b q : in_box2 b q -> in_box2 (m33_mulbox m b) (@m33_mulposition ROps m q).
Proof.
  intros [Hx Hy]. unfold in_box2, m33_mulbox, m33_mulposition, mi; cbn.
  pose proof (mul_between (nth 0 m (o0 ROps)) _ _ _ Hx). pose proof (mul_between (nth 3 m (o0 ROps)) _ _ _ Hx).
  pose proof (mul_between (nth 1 m (o0 ROps)) _ _ _ Hy). pose proof (mul_between (nth 4 m (o0 ROps)) _ _ _ Hy).
  ropen. lra.
Qed.
Theorem mulbox44_hull (m : RM) b q : in_box3 b q -> in_box3 (m44_mulbox m b) (@m44_mulposition ROps m q).
Proof.
  intros (Hx & Hy & Hz). unfold in_box3, m44_mulbox, m44_mulposition, mi; cbn.
  pose proof (mul_between (nth 0 m (o0 ROps)) _ _ _ Hx). pose proof (mul_between (nth 4 m (o0 ROps)) _ _ _ Hx).
  pose proof (mul_between (nth 8 m (o0 ROps)) _ _ _ Hx).
  pose proof (mul_between (nth 1 m (o0 ROps)) _ _ _ Hy). pose proof (mul_between (nth 5 m (o0 ROps)) _ _ _ Hy).
  pose proof (mul_between (nth 9 m (o0 ROps)) _ _ _ Hy).
  pose proof (mul_between (nth 2 m (o0 ROps)) _ _ _ Hz). pose proof (mul_between (nth 6 m (o0 ROps)) _ _ _ Hz).
  pose proof (mul_between (nth 10 m (o0 ROps)) _ _ _ Hz).
  ropen. lra.
Qed.

(* ------------------------------------------------------------ Transform: enclosure *)
Theorem transform2_enc s (m : RM) o : affine33 m -> @m33_determinant ROps m <> 0 ->
  @k_transform2 ROps s m = Some o -> enc2 s -> enc2 o.
Proof.
  intros Ha Hd H [Ho Hs]. injection H as <-. split; cbn [bb2 ev2]; [apply mulbox33_ordered|].
  intros p Hp. rewrite <- (inverse33_correct_r m p Ha Hd). apply mulbox33_hull, Hs, Hp.
Qed.
Theorem transform3_enc s (m : RM) o : affine44 m -> @m44_determinant ROps m <> 0 ->
  @k_transform3 ROps s m = Some o -> enc3 s -> enc3 o.
Proof.
  intros Ha Hd H [Ho Hs]. injection H as <-. split; cbn [bb3 ev3]; [apply mulbox44_ordered|].
  intros p Hp. rewrite <- (inverse44_correct_r m p Ha Hd). apply mulbox44_hull, Hs, Hp.
Qed.
