(* C01 over the reals, part 3: Transform2D / Transform3D for every affine matrix with non-zero
   determinant (inverse_correct + mulbox_hull), translations for every class, rigid motions for
   the Euclidean class lb2. *)
From Coq Require Import Reals Lra Lia List Bool ZArith Psatz.
From Sdfx Require Import Num.Ops Num.RInst Geo.Vec Geo.Box Geo.BoxR Geo.MinMaxR Geo.NormR Geo.Mat
  Sdf.Union2 Sdf.Shape Sdf.ShapeR Sdf.EncloseR.
Import ListNotations.
Open Scope R_scope.

Notation RM := (list (T ROps)).
(* Go's M33/M44 are fixed-size arrays and MulPosition ignores the last row: the matrix is an affine
   map only if that row is (0,0,1) resp. (0,0,0,1); Transform2D/3D do not check this, nor that
   the determinant is non-zero. *)
Definition affine33 (m : RM) : Prop :=
  nth 6 m (o0 ROps) = 0 /\ nth 7 m (o0 ROps) = 0 /\ nth 8 m (o0 ROps) = 1.
Definition affine44 (m : RM) : Prop :=
  nth 12 m (o0 ROps) = 0 /\ nth 13 m (o0 ROps) = 0 /\ nth 14 m (o0 ROps) = 0 /\ nth 15 m (o0 ROps) = 1.

Ltac gen33 m :=
  generalize dependent (nth 0 m (o0 ROps)); generalize dependent (nth 1 m (o0 ROps));
  generalize dependent (nth 2 m (o0 ROps)); generalize dependent (nth 3 m (o0 ROps));
  generalize dependent (nth 4 m (o0 ROps)); generalize dependent (nth 5 m (o0 ROps)).
Ltac gen44 m :=
  generalize dependent (nth 0 m (o0 ROps)); generalize dependent (nth 1 m (o0 ROps));
  generalize dependent (nth 2 m (o0 ROps)); generalize dependent (nth 3 m (o0 ROps));
  generalize dependent (nth 4 m (o0 ROps)); generalize dependent (nth 5 m (o0 ROps));
  generalize dependent (nth 6 m (o0 ROps)); generalize dependent (nth 7 m (o0 ROps));
  generalize dependent (nth 8 m (o0 ROps)); generalize dependent (nth 9 m (o0 ROps));
  generalize dependent (nth 10 m (o0 ROps)); generalize dependent (nth 11 m (o0 ROps)).

Ltac name33 m :=
  set (a0 := nth 0 m (o0 ROps)) in *; set (a1 := nth 1 m (o0 ROps)) in *; set (a2 := nth 2 m (o0 ROps)) in *;
  set (a3 := nth 3 m (o0 ROps)) in *; set (a4 := nth 4 m (o0 ROps)) in *; set (a5 := nth 5 m (o0 ROps)) in *;
  clearbody a0 a1 a2 a3 a4 a5.
Ltac name44 m :=
  set (a0 := nth 0 m (o0 ROps)) in *; set (a1 := nth 1 m (o0 ROps)) in *; set (a2 := nth 2 m (o0 ROps)) in *;
  set (a3 := nth 3 m (o0 ROps)) in *; set (a4 := nth 4 m (o0 ROps)) in *; set (a5 := nth 5 m (o0 ROps)) in *;
  set (a6 := nth 6 m (o0 ROps)) in *; set (a7 := nth 7 m (o0 ROps)) in *; set (a8 := nth 8 m (o0 ROps)) in *;
  set (a9 := nth 9 m (o0 ROps)) in *; set (a10 := nth 10 m (o0 ROps)) in *; set (a11 := nth 11 m (o0 ROps)) in *;
  clearbody a0 a1 a2 a3 a4 a5 a6 a7 a8 a9 a10 a11.

(* ------------------------------------------------------------ inverse_correct *)
Lemma inverse33_correct_r (m : RM) (p : RV2) : affine33 m -> @m33_determinant ROps m <> 0 ->
  @m33_mulposition ROps m (@m33_mulposition ROps (@m33_inverse ROps m) p) = p.
Proof.
  intros (H6 & H7 & H8) Hd. destruct p as [x y].
  unfold m33_mulposition, m33_inverse. cbn [nth vx vy].
  unfold m33_determinant in *. rewrite H6, H7, H8 in *. gen33 m.
  intros a5 a4 a3 a2 a1 a0 Hd. cbn in *.
  f_equal; field; intros E; apply Hd; rnorm; lra.
Qed.
Lemma inverse33_correct (m : RM) (p : RV2) : affine33 m -> @m33_determinant ROps m <> 0 ->
  @m33_mulposition ROps (@m33_inverse ROps m) (@m33_mulposition ROps m p) = p.
Proof.
  intros (H6 & H7 & H8) Hd. destruct p as [x y].
  unfold m33_mulposition, m33_inverse. cbn [nth vx vy].
  unfold m33_determinant in *. rewrite H6, H7, H8 in *. gen33 m.
  intros a5 a4 a3 a2 a1 a0 Hd. cbn in *.
  f_equal; field; intros E; apply Hd; rnorm; lra.
Qed.
Lemma inverse44_correct_r (m : RM) (p : RV3) : affine44 m -> @m44_determinant ROps m <> 0 ->
  @m44_mulposition ROps m (@m44_mulposition ROps (@m44_inverse ROps m) p) = p.
Proof.
  intros (H12 & H13 & H14 & H15) Hd. destruct p as [x y z].
  unfold m44_mulposition, m44_inverse. cbn [nth wx wy wz].
  unfold m44_determinant in *. rewrite H12, H13, H14, H15 in *. gen44 m.
  intros a11 a10 a9 a8 a7 a6 a5 a4 a3 a2 a1 a0 Hd. cbn in *.
  f_equal; field; intros E; apply Hd; rnorm; lra.
Qed.
Lemma inverse44_correct (m : RM) (p : RV3) : affine44 m -> @m44_determinant ROps m <> 0 ->
  @m44_mulposition ROps (@m44_inverse ROps m) (@m44_mulposition ROps m p) = p.
Proof.
  intros (H12 & H13 & H14 & H15) Hd. destruct p as [x y z].
  unfold m44_mulposition, m44_inverse. cbn [nth wx wy wz].
  unfold m44_determinant in *. rewrite H12, H13, H14, H15 in *. gen44 m.
  intros a11 a10 a9 a8 a7 a6 a5 a4 a3 a2 a1 a0 Hd. cbn in *.
  f_equal; field; intros E; apply Hd; rnorm; lra.
Qed.

(* ------------------------------------------------------------ mulbox_hull *)
Lemma mul_between (a lo hi q : R) : lo <= q <= hi -> Rmin (a * lo) (a * hi) <= a * q <= Rmax (a * lo) (a * hi).
Proof.
  intros Hq. unfold Rmin, Rmax. destruct (Rle_dec (a * lo) (a * hi)); destruct (Rle_dec 0 a); nra.
Qed.

Lemma mulbox33_ordered (m : RM) b : ordered2 (m33_mulbox m b).
Proof.
  unfold ordered2, m33_mulbox; cbn.
  assert (A : forall x y : R, Rmin x y <= Rmax x y)
    by (intros x y; unfold Rmin, Rmax; repeat destruct (Rle_dec _ _); lra).
  split; repeat apply Rplus_le_compat; first [apply A | apply Rle_refl].
Qed.
Lemma mulbox44_ordered (m : RM) b : ordered3 (m44_mulbox m b).
Proof.
  unfold ordered3, m44_mulbox; cbn.
  assert (A : forall x y : R, Rmin x y <= Rmax x y)
    by (intros x y; unfold Rmin, Rmax; repeat destruct (Rle_dec _ _); lra).
  repeat split; repeat apply Rplus_le_compat; first [apply A | apply Rle_refl].
Qed.

Theorem mulbox33_hull (m : RM) b q : in_box2 b q -> in_box2 (m33_mulbox m b) (@m33_mulposition ROps m q).
Proof.
  intros [Hx Hy]. unfold in_box2, m33_mulbox, m33_mulposition, mi; cbn.
  pose proof (mul_between (nth 0 m (o0 ROps)) _ _ _ Hx). pose proof (mul_between (nth 3 m (o0 ROps)) _ _ _ Hx).
  pose proof (mul_between (nth 1 m (o0 ROps)) _ _ _ Hy). pose proof (mul_between (nth 4 m (o0 ROps)) _ _ _ Hy).
  ropen. lra.
Qed.
Theorem mulbox44_hull (m : RM) b q : in_box3 b q -> in_box3 (m44_mulbox m b) (@m44_mulposition ROps m q).
Proof.
  intros (Hx & Hy & Hz). unfold in_box3, m44_mulbox, m44_mulposition, mi; cbn.
  pose proof (mul_between (nth 0 m (o0 ROps)) _ _ _ Hx). pose proof (mul_between (nth 4 m (o0 ROps)) _ _ _ Hx).
  pose proof (mul_between (nth 8 m (o0 ROps)) _ _ _ Hx).
  pose proof (mul_between (nth 1 m (o0 ROps)) _ _ _ Hy). pose proof (mul_between (nth 5 m (o0 ROps)) _ _ _ Hy).
  pose proof (mul_between (nth 9 m (o0 ROps)) _ _ _ Hy).
  pose proof (mul_between (nth 2 m (o0 ROps)) _ _ _ Hz). pose proof (mul_between (nth 6 m (o0 ROps)) _ _ _ Hz).
  pose proof (mul_between (nth 10 m (o0 ROps)) _ _ _ Hz).
  ropen. lra.
Qed.

(* ------------------------------------------------------------ Transform: enclosure *)
Theorem transform2_enc s (m : RM) o : affine33 m -> @m33_determinant ROps m <> 0 ->
  @k_transform2 ROps s m = Some o -> enc2 s -> enc2 o.
Proof.
  intros Ha Hd H [Ho Hs]. injection H as <-. split; cbn [bb2 ev2]; [apply mulbox33_ordered|].
  intros p Hp. rewrite <- (inverse33_correct_r m p Ha Hd). apply mulbox33_hull, Hs, Hp.
Qed.
Theorem transform3_enc s (m : RM) o : affine44 m -> @m44_determinant ROps m <> 0 ->
  @k_transform3 ROps s m = Some o -> enc3 s -> enc3 o.
Proof.
  intros Ha Hd H [Ho Hs]. injection H as <-. split; cbn [bb3 ev3]; [apply mulbox44_ordered|].
  intros p Hp. rewrite <- (inverse44_correct_r m p Ha Hd). apply mulbox44_hull, Hs, Hp.
Qed.

(* ------------------------------------------------------------ translations: every class *)
Lemma translate2_inv (v p : RV2) :
  @m33_mulposition ROps (@m33_inverse ROps (@mk_translate2d ROps v)) p = mkV2 (vx p - vx v) (vy p - vy v).
Proof. unfold m33_mulposition, m33_inverse, m33_determinant, mk_translate2d; cbn. f_equal; field. Qed.
Lemma translate3_inv (v p : RV3) :
  @m44_mulposition ROps (@m44_inverse ROps (@mk_translate3d ROps v)) p = mkV3 (wx p - wx v) (wy p - wy v) (wz p - wz v).
Proof. unfold m44_mulposition, m44_inverse, m44_determinant, mk_translate3d; cbn. f_equal; field. Qed.
Lemma translate2_box (v : RV2) b : ordered2 b -> m33_mulbox (@mk_translate2d ROps v) b = box2_translate b v.
Proof.
  intros [Hx Hy]. unfold m33_mulbox, box2_translate, mk_translate2d, v2add, v2min, v2max, v2muls, mi; cbn.
  f_equal; f_equal; unfold Rmin, Rmax; repeat destruct (Rle_dec _ _); lra.
Qed.
Lemma translate3_box (v : RV3) b : ordered3 b -> m44_mulbox (@mk_translate3d ROps v) b = box3_translate b v.
Proof.
  intros (Hx & Hy & Hz). unfold m44_mulbox, box3_translate, mk_translate3d, v3add, v3min, v3max, v3muls, mi; cbn.
  f_equal; f_equal; unfold Rmin, Rmax; repeat destruct (Rle_dec _ _); lra.
Qed.

Lemma transform2_translate_cls D (v : RV2) s o : Dtrans2 D ->
  @k_transform2 ROps s (@mk_translate2d ROps v) = Some o -> cls2 D s -> cls2 D o.
Proof.
  intros DT H [Ho Hs]. apply some_inj in H. rewrite <- H. clear H. rewrite (translate2_box v _ Ho).
  split; cbn [bb2 ev2].
  - unfold ordered2 in *; cbn. lra.
  - intros p. rewrite translate2_inv, DT. destruct (Hs (mkV2 (vx p - vx v) (vy p - vy v))) as [Hd|Hin]; [now left | right].
    revert Hin. unfold in_box2; cbn. lra.
Qed.
Lemma transform3_translate_cls D (v : RV3) s o : Dtrans3 D ->
  @k_transform3 ROps s (@mk_translate3d ROps v) = Some o -> cls3 D s -> cls3 D o.
Proof.
  intros DT H [Ho Hs]. apply some_inj in H. rewrite <- H. clear H. rewrite (translate3_box v _ Ho).
  split; cbn [bb3 ev3].
  - unfold ordered3 in *; cbn. lra.
  - intros p. rewrite translate3_inv, DT.
    destruct (Hs (mkV3 (wx p - wx v) (wy p - wy v) (wz p - wz v))) as [Hd|Hin]; [now left | right].
    revert Hin. unfold in_box3; cbn. lra.
Qed.

(* ------------------------------------------------------------ rigid motions: the Euclidean class lb2 *)
Definition rigid33 (m : RM) : Prop :=
  affine33 m /\
  nth 0 m (o0 ROps) * nth 0 m (o0 ROps) + nth 3 m (o0 ROps) * nth 3 m (o0 ROps) = 1 /\
  nth 1 m (o0 ROps) * nth 1 m (o0 ROps) + nth 4 m (o0 ROps) * nth 4 m (o0 ROps) = 1 /\
  nth 0 m (o0 ROps) * nth 1 m (o0 ROps) + nth 3 m (o0 ROps) * nth 4 m (o0 ROps) = 0.
Definition rigid44 (m : RM) : Prop :=
  affine44 m /\
  nth 0 m (o0 ROps) * nth 0 m (o0 ROps) + nth 4 m (o0 ROps) * nth 4 m (o0 ROps) + nth 8 m (o0 ROps) * nth 8 m (o0 ROps) = 1 /\
  nth 1 m (o0 ROps) * nth 1 m (o0 ROps) + nth 5 m (o0 ROps) * nth 5 m (o0 ROps) + nth 9 m (o0 ROps) * nth 9 m (o0 ROps) = 1 /\
  nth 2 m (o0 ROps) * nth 2 m (o0 ROps) + nth 6 m (o0 ROps) * nth 6 m (o0 ROps) + nth 10 m (o0 ROps) * nth 10 m (o0 ROps) = 1 /\
  nth 0 m (o0 ROps) * nth 1 m (o0 ROps) + nth 4 m (o0 ROps) * nth 5 m (o0 ROps) + nth 8 m (o0 ROps) * nth 9 m (o0 ROps) = 0 /\
  nth 0 m (o0 ROps) * nth 2 m (o0 ROps) + nth 4 m (o0 ROps) * nth 6 m (o0 ROps) + nth 8 m (o0 ROps) * nth 10 m (o0 ROps) = 0 /\
  nth 1 m (o0 ROps) * nth 2 m (o0 ROps) + nth 5 m (o0 ROps) * nth 6 m (o0 ROps) + nth 9 m (o0 ROps) * nth 10 m (o0 ROps) = 0.

Lemma rigid33_det (m : RM) : rigid33 m -> @m33_determinant ROps m <> 0.
Proof.
  intros ((H6 & H7 & H8) & A & B & C). unfold m33_determinant. rewrite H6, H7, H8. name33 m. ropen. intros E.
  assert (D : (a0 * a4 - a1 * a3) * (a0 * a4 - a1 * a3) = (a0 * a0 + a3 * a3) * (a1 * a1 + a4 * a4) - (a0 * a1 + a3 * a4) * (a0 * a1 + a3 * a4)) by ring.
  rewrite A, B, C in D. assert (a0 * a4 - a1 * a3 = 0) by lra. rewrite H in D. lra.
Qed.
Lemma rigid33_iso (m : RM) p q : rigid33 m -> dist2 (@m33_mulposition ROps m p) (@m33_mulposition ROps m q) = dist2 p q.
Proof.
  intros (_ & A & B & C). unfold dist2, len2, sub2, m33_mulposition; cbn [vx vy]. f_equal. name33 m. ropen.
  transitivity ((a0 * a0 + a3 * a3) * ((vx p - vx q) * (vx p - vx q)) + (a1 * a1 + a4 * a4) * ((vy p - vy q) * (vy p - vy q))
                + 2 * (a0 * a1 + a3 * a4) * ((vx p - vx q) * (vy p - vy q))); [ring|]. rewrite A, B, C. ring.
Qed.

Lemma axd_attained lo hi x : lo <= hi -> exists c, lo <= c <= hi /\ (x - c) * (x - c) = axd lo hi x * axd lo hi x.
Proof.
  intros H. unfold axd, Rmax.
  destruct (Rle_dec (lo - x) (x - hi)); destruct (Rle_dec 0 _);
    first [ exists hi; split; [lra | ring] | exists lo; split; [lra | ring] | exists x; split; [lra | ring] ].
Qed.
Lemma boxdist2_attained b p : ordered2 b -> exists c, in_box2 b c /\ dist2 p c = boxdist2 b p.
Proof.
  intros [Hx Hy]. destruct (axd_attained _ _ (vx p) Hx) as (cx & Ix & Ex). destruct (axd_attained _ _ (vy p) Hy) as (cy & Iy & Ey).
  exists (mkV2 cx cy). split; [split; assumption|]. unfold dist2, len2, sub2, boxdist2; cbn [vx vy]. rewrite Ex, Ey. reflexivity.
Qed.

Theorem transform2_rigid_lb2 s (m : RM) o : rigid33 m -> @k_transform2 ROps s m = Some o -> lb2_2 s -> lb2_2 o.
Proof.
  intros Hm H [Ho Hs]. pose proof (rigid33_det m Hm) as Hd. destruct Hm as [Ha Hm']. pose proof (conj Ha Hm' : rigid33 m) as Hm.
  apply some_inj in H. rewrite <- H. clear H. split; cbn [bb2 ev2]; [apply mulbox33_ordered|].
  intros p. set (q0 := @m33_mulposition ROps (@m33_inverse ROps m) p).
  assert (Ep : @m33_mulposition ROps m q0 = p) by (apply inverse33_correct_r; assumption).
  destruct (Hs q0) as [Hdist|Hin]; [left | right; rewrite <- Ep; apply mulbox33_hull, Hin].
  destruct (boxdist2_attained (bb2 s) q0 Ho) as (c & Ic & Ec).
  pose proof (boxdist2_le_dist (m33_mulbox m (bb2 s)) p _ (mulbox33_hull m _ _ Ic)) as L.
  rewrite <- Ep in L at 2. rewrite rigid33_iso in L by exact Hm. rewrite <- Ep at 1. rewrite Ep. lra.
Qed.
