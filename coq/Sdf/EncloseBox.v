(* C01 over the reals, part 12: the (rounded) boxes are in the Euclidean class lb2:
   outside the bounding box the value of Box2D/Box3D is at least the Euclidean distance to the box. *)
From Coq Require Import Reals Lra Lia List Bool ZArith Psatz.
From Sdfx Require Import Num.Ops Num.RInst Geo.Vec Geo.Box Geo.BoxR Geo.MinMaxR Geo.NormR Geo.Mat
  Sdf.Union2 Sdf.Shape Sdf.ShapeR Sdf.EncloseR.
Import ListNotations.
Open Scope R_scope.

Definition pos (x : R) : R := Rmax 0 x.
Lemma pos_nonneg x : 0 <= pos x.
Proof. apply Rmax_l. Qed.
Lemma pos_ge x : x <= pos x.
Proof. apply Rmax_r. Qed.
Lemma pos_cases x : (pos x = 0 /\ x <= 0) \/ (pos x = x /\ 0 < x).
Proof. unfold pos, Rmax. destruct (Rle_dec 0 x); [destruct (Req_dec x 0); [left | right] | left]; lra. Qed.

Lemma axd_sym s x : axd (- s) s x = pos (Rabs x - s).
Proof.
  unfold axd, pos. f_equal. unfold Rmax, Rabs. destruct (Rle_dec _ _); destruct (Rcase_abs x); lra.
Qed.

(* shrinking every coordinate by r >= 0 shortens the positive part by at least r *)
Lemma prod_round (e r : R) : 0 <= r -> pos (e - r) * pos (e - r) + r * pos (e - r) <= pos (e - r) * pos e.
Proof.
  intros Hr. destruct (pos_cases (e - r)) as [[-> _]|[-> H]]; [lra|].
  destruct (pos_cases e) as [[-> H']|[-> _]]; [lra | nra].
Qed.

Lemma rounded_dist2 (e1 e2 r : R) : 0 <= r ->
  0 < sqrt (pos (e1 - r) * pos (e1 - r) + pos (e2 - r) * pos (e2 - r)) ->
  sqrt (pos (e1 - r) * pos (e1 - r) + pos (e2 - r) * pos (e2 - r)) + r <= sqrt (pos e1 * pos e1 + pos e2 * pos e2).
Proof.
  intros Hr HF. set (a1 := pos (e1 - r)) in *. set (a2 := pos (e2 - r)) in *.
  pose proof (pos_nonneg (e1 - r)) as A1. pose proof (pos_nonneg (e2 - r)) as A2. fold a1 in A1. fold a2 in A2.
  pose proof (prod_round e1 r Hr) as P1. pose proof (prod_round e2 r Hr) as P2. fold a1 in P1. fold a2 in P2.
  pose proof (dot_le_len2 (mkV2 a1 a2) (mkV2 (pos e1) (pos e2))) as CS. unfold len2 in CS; cbn [vx vy] in CS.
  set (F := sqrt (a1 * a1 + a2 * a2)) in *. set (E := sqrt (pos e1 * pos e1 + pos e2 * pos e2)) in *.
  assert (SF : F * F = a1 * a1 + a2 * a2) by (apply sqrt_sqrt; nra).
  assert (S1 : F <= a1 + a2) by (apply sqrt_le_sq; nra).
  assert (F * (F + r) <= F * E) by nra.
  apply Rmult_le_reg_l with F; assumption.
Qed.
Lemma rounded_dist3 (e1 e2 e3 r : R) : 0 <= r ->
  0 < sqrt (pos (e1 - r) * pos (e1 - r) + pos (e2 - r) * pos (e2 - r) + pos (e3 - r) * pos (e3 - r)) ->
  sqrt (pos (e1 - r) * pos (e1 - r) + pos (e2 - r) * pos (e2 - r) + pos (e3 - r) * pos (e3 - r)) + r
  <= sqrt (pos e1 * pos e1 + pos e2 * pos e2 + pos e3 * pos e3).
Proof.
  intros Hr HF. set (a1 := pos (e1 - r)) in *. set (a2 := pos (e2 - r)) in *. set (a3 := pos (e3 - r)) in *.
  pose proof (pos_nonneg (e1 - r)) as A1. pose proof (pos_nonneg (e2 - r)) as A2. pose proof (pos_nonneg (e3 - r)) as A3.
  fold a1 in A1. fold a2 in A2. fold a3 in A3.
  pose proof (prod_round e1 r Hr) as P1. pose proof (prod_round e2 r Hr) as P2. pose proof (prod_round e3 r Hr) as P3.
  fold a1 in P1. fold a2 in P2. fold a3 in P3.
  pose proof (dot_le_len3 (mkV3 a1 a2 a3) (mkV3 (pos e1) (pos e2) (pos e3))) as CS. unfold len3 in CS; cbn [wx wy wz] in CS.
  set (F := sqrt (a1 * a1 + a2 * a2 + a3 * a3)) in *.
  set (E := sqrt (pos e1 * pos e1 + pos e2 * pos e2 + pos e3 * pos e3)) in *.
  assert (SF : F * F = a1 * a1 + a2 * a2 + a3 * a3) by (apply sqrt_sqrt; nra).
  assert (S1 : F <= a1 + a2 + a3) by (apply sqrt_le_sq; nra).
  assert (F * (F + r) <= F * E) by nra.
  apply Rmult_le_reg_l with F; assumption.
Qed.

(* the box fields dominate the norm of the positive parts as soon as one part is positive *)
Lemma sdf_box2d_ge_pos p s : 0 < Rabs (vx p) - vx s \/ 0 < Rabs (vy p) - vy s ->
  sqrt (pos (Rabs (vx p) - vx s) * pos (Rabs (vx p) - vx s) + pos (Rabs (vy p) - vy s) * pos (Rabs (vy p) - vy s))
  <= @sdf_box2d ROps p s.
Proof.
  intros H. unfold sdf_box2d; cbn. set (dx := Rabs (vx p) - vx s) in *. set (dy := Rabs (vy p) - vy s) in *.
  replace (Rabs (vy p) - Rabs (vx p)) with (dy - dx + (vy s - vx s)) by (unfold dx, dy; ring).
  destruct (Rltb 0 dx) eqn:C1; destruct (Rltb 0 dy) eqn:C2; cbn [andb]; bfalse.
  - unfold pos. rewrite !Rmax_right by lra. lra.
  - unfold pos. rewrite (Rmax_right 0 dx), (Rmax_left 0 dy) by lra. rcmp1; [lra|]. apply sqrt_le_sq; [lra | nra].
  - unfold pos. rewrite (Rmax_left 0 dx), (Rmax_right 0 dy) by lra. rcmp1; [|lra]. apply sqrt_le_sq; [lra | nra].
  - lra.
Qed.

Lemma sqrt2_of3 a b : sqrt (a * a + b * b + 0 * 0) = sqrt (a * a + b * b).
Proof. f_equal; ring. Qed.

Lemma sdf_box3d_ge_pos p s :
  0 < Rabs (wx p) - wx s \/ 0 < Rabs (wy p) - wy s \/ 0 < Rabs (wz p) - wz s ->
  sqrt (pos (Rabs (wx p) - wx s) * pos (Rabs (wx p) - wx s) + pos (Rabs (wy p) - wy s) * pos (Rabs (wy p) - wy s)
        + pos (Rabs (wz p) - wz s) * pos (Rabs (wz p) - wz s))
  <= @sdf_box3d ROps p s.
Proof.
  intros H. unfold sdf_box3d; cbn.
  set (dx := Rabs (wx p) - wx s) in *. set (dy := Rabs (wy p) - wy s) in *. set (dz := Rabs (wz p) - wz s) in *.
  assert (PP : forall d, 0 < d -> pos d = d) by (intros d Hd; unfold pos; apply Rmax_right; lra).
  assert (PN : forall d, d <= 0 -> pos d = 0) by (intros d Hd; unfold pos; apply Rmax_left; lra).
  destruct (Rltb 0 dx) eqn:C1; destruct (Rltb 0 dy) eqn:C2; destruct (Rltb 0 dz) eqn:C3; cbn [andb]; bfalse;
    repeat match goal with
    | Hd : 0 < ?d |- context [pos ?d] => rewrite (PP d Hd)
    | Hd : ?d <= 0 |- context [pos ?d] => rewrite (PN d Hd)
    end; try lra; try (exfalso; destruct H as [H|[H|H]]; lra).
  all: try (apply sqrt_le_sq; [lra | nra]).
  all: try (apply sqrt_le_sq; [apply sqrt_pos | rewrite sqrt_sqrt by nra; nra]).
Qed.

(* ------------------------------------------------------------ Box2D, Box3D in lb2 (round >= 0) *)
Lemma boxdist2_pos b p : ~ in_box2 b p -> 0 < boxdist2 b p.
Proof. intros H. pose proof (boxdistinf2_pos _ _ H). pose proof (boxdistinf2_le b p). lra. Qed.
Lemma boxdist3_pos b p : ~ in_box3 b p -> 0 < boxdist3 b p.
Proof. intros H. pose proof (boxdistinf3_pos _ _ H). pose proof (boxdistinf3_le b p). lra. Qed.

Theorem box2_lb2 size round o : 0 <= vx size -> 0 <= vy size -> 0 <= round ->
  @k_box2 ROps size round = Some o -> lb2_2 o.
Proof.
  intros Hx Hy Hr H. unfold k_box2 in H. apply some_inj in H. rewrite <- H. clear H. rewrite k05_eq.
  set (sx := vx size * / 2). set (sy := vy size * / 2).
  split; cbn [bb2 ev2].
  { unfold ordered2; cbn. lra. }
  intros p. match goal with |- _ \/ in_box2 ?b p => destruct (classic_in_box2 b p) as [Hin|Hout]; [now right | left];
    pose proof (boxdist2_pos b p Hout) as HF; revert HF; unfold boxdist2 end.
  cbn [b2min b2max v2neg v2muls vx vy]. ropen. fold sx sy. rewrite !axd_sym.
  replace (Rabs (vx p) - sx) with (Rabs (vx p) - (sx - round) - round) by ring.
  replace (Rabs (vy p) - sy) with (Rabs (vy p) - (sy - round) - round) by ring.
  intros HF. pose proof (rounded_dist2 _ _ round Hr HF) as RD.
  pose proof (sdf_box2d_ge_pos p (mkV2 (sx - round) (sy - round))) as G. cbn [vx vy] in G.
  assert (Hpos : 0 < Rabs (vx p) - (sx - round) \/ 0 < Rabs (vy p) - (sy - round)).
  { destruct (Rlt_dec 0 (Rabs (vx p) - (sx - round))); [now left | right].
    destruct (Rlt_dec 0 (Rabs (vy p) - (sy - round))); [assumption | exfalso].
    unfold pos in HF. rewrite !Rmax_left in HF by lra. replace (0 * 0 + 0 * 0) with 0 in HF by ring. rewrite sqrt_0 in HF. lra. }
  specialize (G Hpos).
  change (v2subs (v2muls size (/ 2)) round) with (mkV2 (sx - round) (sy - round)). lra.
Qed.

Theorem box3_lb2 size round o : @k_box3 ROps size round = Some o -> lb2_3 o.
Proof.
  intros H. unfold k_box3, v3_lte_zero in H. kchecks H. cbn in K, K0. bfalse.
  apply some_inj in H. rewrite <- H. clear H. rewrite k05_eq.
  set (sx := wx size * / 2). set (sy := wy size * / 2). set (sz := wz size * / 2).
  split; cbn [bb3 ev3].
  { unfold ordered3; cbn. lra. }
  intros p. match goal with |- _ \/ in_box3 ?b p => destruct (classic_in_box3 b p) as [Hin|Hout]; [now right | left];
    pose proof (boxdist3_pos b p Hout) as HF; revert HF; unfold boxdist3 end.
  cbn [b3min b3max v3neg v3muls wx wy wz]. ropen. fold sx sy sz. rewrite !axd_sym.
  replace (Rabs (wx p) - sx) with (Rabs (wx p) - (sx - round) - round) by ring.
  replace (Rabs (wy p) - sy) with (Rabs (wy p) - (sy - round) - round) by ring.
  replace (Rabs (wz p) - sz) with (Rabs (wz p) - (sz - round) - round) by ring.
  intros HF. pose proof (rounded_dist3 _ _ _ round ltac:(lra) HF) as RD.
  pose proof (sdf_box3d_ge_pos p (mkV3 (sx - round) (sy - round) (sz - round))) as G. cbn [wx wy wz] in G.
  assert (Hpos : 0 < Rabs (wx p) - (sx - round) \/ 0 < Rabs (wy p) - (sy - round) \/ 0 < Rabs (wz p) - (sz - round)).
  { destruct (Rlt_dec 0 (Rabs (wx p) - (sx - round))); [now left | right].
    destruct (Rlt_dec 0 (Rabs (wy p) - (sy - round))); [now left | right].
    destruct (Rlt_dec 0 (Rabs (wz p) - (sz - round))); [assumption | exfalso].
    unfold pos in HF. rewrite !Rmax_left in HF by lra. replace (0 * 0 + 0 * 0 + 0 * 0) with 0 in HF by ring. rewrite sqrt_0 in HF. lra. }
  specialize (G Hpos).
  change (v3subs (v3muls size (/ 2)) round) with (mkV3 (sx - round) (sy - round) (sz - round)). lra.
Qed.

(* ------------------------------------------------------------ Cylinder3D / capsule in lb2 *)
Lemma Rabs_sq (a : R) : Rabs a * Rabs a = a * a.
Proof. unfold Rabs; destruct (Rcase_abs a); ring. Qed.

(* the square [-R,R]^2 contains the disc of radius R: it is at most as far away *)
Lemma square_le_disc (x y R0 : R) : 0 <= R0 ->
  pos (Rabs x - R0) * pos (Rabs x - R0) + pos (Rabs y - R0) * pos (Rabs y - R0)
  <= pos (sqrt (x * x + y * y) - R0) * pos (sqrt (x * x + y * y) - R0).
Proof.
  intros HR. set (rho := sqrt (x * x + y * y)).
  pose proof (abs_le_len2_x (mkV2 x y)) as X. pose proof (abs_le_len2_y (mkV2 x y)) as Y.
  unfold len2 in X, Y; cbn [vx vy] in X, Y. fold rho in X, Y.
  destruct (Rle_dec rho R0) as [Hin|Hout].
  - unfold pos. rewrite !Rmax_left by lra. lra.
  - destruct (ball2_near R0 (mkV2 x y) HR) as (q & Hq & Hd); [unfold len2; cbn [vx vy]; fold rho; lra|].
    unfold len2 in Hd; cbn [vx vy] in Hd. fold rho in Hd.
    pose proof (abs_le_len2_x q) as Qx. pose proof (abs_le_len2_y q) as Qy.
    pose proof (abs_le_len2_x (sub2 (mkV2 x y) q)) as Dx. pose proof (abs_le_len2_y (sub2 (mkV2 x y) q)) as Dy.
    cbn [sub2 vx vy] in Dx, Dy. pose proof (len2_sq (sub2 (mkV2 x y) q)) as SQ. cbn [sub2 vx vy] in SQ.
    unfold dist2 in Hd. rewrite Hd in Dx, Dy, SQ.
    pose proof (Rabs_triang (x - vx q) (vx q)) as T1. replace (x - vx q + vx q) with x in T1 by ring.
    pose proof (Rabs_triang (y - vy q) (vy q)) as T2. replace (y - vy q + vy q) with y in T2 by ring.
    assert (A1 : pos (Rabs x - R0) <= Rabs (x - vx q)) by (unfold pos; apply Rmax_lub; [apply Rabs_pos | lra]).
    assert (A2 : pos (Rabs y - R0) <= Rabs (y - vy q)) by (unfold pos; apply Rmax_lub; [apply Rabs_pos | lra]).
    pose proof (pos_nonneg (Rabs x - R0)). pose proof (pos_nonneg (Rabs y - R0)).
    pose proof (Rabs_sq (x - vx q)) as E1. pose proof (Rabs_sq (y - vy q)) as E2.
    pose proof (Rabs_pos (x - vx q)). pose proof (Rabs_pos (y - vy q)).
    unfold pos at 5 6. rewrite !Rmax_right by lra. nra.
Qed.

Theorem cylinder_lb2 h r round o : @k_cylinder ROps h r round = Some o -> lb2_3 o.
Proof.
  intros H. unfold k_cylinder in H. kchecks H. cbn in K, K0, K1, K2. bfalse.
  apply some_inj in H. rewrite <- H. clear H.
  split; cbn [bb3 ev3]; [unfold ordered3; cbn; lra|].
  intros p. match goal with |- _ \/ in_box3 ?b p => destruct (classic_in_box3 b p) as [Hin|Hout]; [now right | left];
    pose proof (boxdist3_pos b p Hout) as HF; revert HF; unfold boxdist3 end.
  cbn [b3min b3max v3neg wx wy wz]. ropen. rewrite two_eq. rewrite !axd_sym.
  change (v2len (mkV2 (wx p) (wy p))) with (sqrt (wx p * wx p + wy p * wy p)).
  set (rho := sqrt (wx p * wx p + wy p * wy p)). assert (Hrho : 0 <= rho) by apply sqrt_pos.
  pose proof (square_le_disc (wx p) (wy p) r ltac:(lra)) as SD. fold rho in SD.
  set (ax := pos (Rabs (wx p) - r)) in *. set (ay := pos (Rabs (wy p) - r)) in *. set (az := pos (Rabs (wz p) - h / 2)).
  intros HF.
  set (e1 := rho - (r - round)). set (e2 := Rabs (wz p) - (h / 2 - round)).
  assert (Eb : ax * ax + ay * ay + az * az <= pos (e1 - round) * pos (e1 - round) + pos (e2 - round) * pos (e2 - round)).
  { unfold e1, e2. replace (rho - (r - round) - round) with (rho - r) by ring.
    replace (Rabs (wz p) - (h / 2 - round) - round) with (Rabs (wz p) - h / 2) by ring. fold az. lra. }
  assert (HF' : 0 < sqrt (pos (e1 - round) * pos (e1 - round) + pos (e2 - round) * pos (e2 - round))).
  { eapply Rlt_le_trans; [exact HF | apply sqrt_le_1_alt, Eb]. }
  pose proof (rounded_dist2 e1 e2 round ltac:(lra) HF') as RD.
  pose proof (sqrt_le_1_alt _ _ Eb) as SB.
  pose proof (sdf_box2d_ge_pos (mkV2 rho (wz p)) (mkV2 (r - round) (h / 2 - round))) as G. cbn [vx vy] in G.
  rewrite (Rabs_pos_eq rho Hrho) in G. fold e1 e2 in G.
  assert (Hpos : 0 < e1 \/ 0 < e2).
  { destruct (Rlt_dec 0 e1); [now left | right]. destruct (Rlt_dec 0 e2); [assumption | exfalso].
    unfold pos in HF'. rewrite !Rmax_left in HF' by lra. replace (0 * 0 + 0 * 0) with 0 in HF' by ring. rewrite sqrt_0 in HF'. lra. }
  specialize (G Hpos). replace (h / (1 + 1)) with (h / 2) by field. lra.
Qed.
