(* C01 over the reals, part 2: set combinators.  Every lemma is generic in the distance-to-box
   function D (EncloseR.v: D = 0 enclosure, boxdistinf = class lbinf, boxdist = class lb2). *)
From Coq Require Import Reals Lra Lia List Bool ZArith Psatz.
From Sdfx Require Import Num.Ops Num.RInst Geo.Vec Geo.Box Geo.BoxR Geo.MinMaxR Geo.NormR Geo.Mat
  Sdf.Union2 Sdf.Union2R Sdf.Shape Sdf.ShapeR Sdf.EncloseR.
Import ListNotations.
Open Scope R_scope.

(* ------------------------------------------------------------ blends *)
(* sdf.poly with k > 0 never exceeds the minimum (it removes at most k/4), so the
   material-removing PolyMax never goes below the maximum *)
Lemma poly_le_min (a b k : R) : 0 < k -> @poly ROps a b k <= Rmin a b.
Proof.
  intros Hk. unfold poly, clamp, mix; cbn.
  set (t := (b - a) / k). assert (Eb : b = a + t * k) by (unfold t; field; lra).
  replace (1 / (1 + 1) + 1 / (1 + 1) * (b - a) / k) with (/ 2 + / 2 * t) by (unfold t; field; lra).
  clearbody t. subst b.
  assert (Hm : Rmin a (a + t * k) = a \/ Rmin a (a + t * k) = a + t * k)
    by (unfold Rmin; destruct (Rle_dec _ _); auto).
  pose proof (Rmin_l a (a + t * k)). pose proof (Rmin_r a (a + t * k)).
  rcmp1; [|rcmp1].
  - assert (t * k < - k) by nra. apply Rmin_glb; nra.
  - assert (k < t * k) by nra. apply Rmin_glb; nra.
  - set (h := / 2 + / 2 * t) in *. assert (Et : t = 2 * h - 1) by (unfold h; field). rewrite Et.
    apply Rmin_glb.
    + assert (0 <= k * (1 - h) * (1 - h)) by (apply Rmult_le_pos; [apply Rmult_le_pos|]; lra). nra.
    + assert (0 <= k * h * h) by (apply Rmult_le_pos; [apply Rmult_le_pos|]; lra). nra.
Qed.

Definition max_ok (m : MaxK ROps) : Prop := match m with MaxDef => True | MaxPoly k => 0 < k end.
Definition min_plain (m : MinK ROps) : Prop := m = MinDef.

Lemma max_apply_ge m (a b : R) : max_ok m -> Rmax a b <= @max_apply ROps m a b.
Proof.
  destruct m as [|k]; cbn [max_apply max_ok]; intros Hk; [apply Rle_refl|]. change (oneg ROps) with Ropp.
  pose proof (poly_le_min (- a) (- b) k Hk). pose proof (Rmin_l (- a) (- b)). pose proof (Rmin_r (- a) (- b)).
  apply Rmax_lub; lra.
Qed.

(* a combinator that keeps the box of its first operand and does not lower the value *)
Lemma keep2 D s f : cls2 D s -> (forall p, ev2 s p <= f p) -> cls2 D (mkObj2 f (bb2 s)).
Proof.
  intros [Ho H] Hf. split; [exact Ho|]. intros p; cbn. destruct (H p); [left; specialize (Hf p); lra | now right].
Qed.
Lemma keep3 D s f : cls3 D s -> (forall p, ev3 s p <= f p) -> cls3 D (mkObj3 f (bb3 s)).
Proof.
  intros [Ho H] Hf. split; [exact Ho|]. intros p; cbn. destruct (H p); [left; specialize (Hf p); lra | now right].
Qed.

Section Comb.
  Variable D2 : RBox2 -> RV2 -> R.
  Variable D3 : RBox3 -> RV3 -> R.
  Hypothesis M2 : Dmono2 D2.
  Hypothesis M3 : Dmono3 D3.
  Hypothesis T2 : Dtrans2 D2.
  Hypothesis T3 : Dtrans3 D3.

  (* ---------------------------------------------------------- Intersect, Difference, Cut *)
  Lemma intersect2_cls m s0 s1 o : max_ok m -> @k_intersect2 ROps m s0 s1 = Some o -> cls2 D2 s0 -> cls2 D2 o.
  Proof.
    intros Hm H H0. injection H as <-. apply keep2; [exact H0|]. intros p.
    pose proof (max_apply_ge m (ev2 s0 p) (ev2 s1 p) Hm). pose proof (Rmax_l (ev2 s0 p) (ev2 s1 p)). lra.
  Qed.
  Lemma difference2_cls m s0 s1 o : max_ok m -> @k_difference2 ROps m s0 s1 = Some o -> cls2 D2 s0 -> cls2 D2 o.
  Proof.
    intros Hm H H0. injection H as <-. apply keep2; [exact H0|]. intros p.
    pose proof (max_apply_ge m (ev2 s0 p) (- ev2 s1 p) Hm). pose proof (Rmax_l (ev2 s0 p) (- ev2 s1 p)).
    change (oneg ROps (ev2 s1 p)) with (- ev2 s1 p). lra.
  Qed.
  (* Go's Cut2D/Cut3D do not reject the zero vector; the enclosure does not depend on it *)
  Lemma cut2_cls s a v o : @k_cut2 ROps s a v = Some o -> cls2 D2 s -> cls2 D2 o.
  Proof. intros H H0. injection H as <-. apply keep2; [exact H0|]. intros p. apply Rmax_r. Qed.
  Lemma intersect3_cls m s0 s1 o : max_ok m -> @k_intersect3 ROps m s0 s1 = Some o -> cls3 D3 s0 -> cls3 D3 o.
  Proof.
    intros Hm H H0. injection H as <-. apply keep3; [exact H0|]. intros p.
    pose proof (max_apply_ge m (ev3 s0 p) (ev3 s1 p) Hm). pose proof (Rmax_l (ev3 s0 p) (ev3 s1 p)). lra.
  Qed.
  Lemma difference3_cls m s0 s1 o : max_ok m -> @k_difference3 ROps m s0 s1 = Some o -> cls3 D3 s0 -> cls3 D3 o.
  Proof.
    intros Hm H H0. injection H as <-. apply keep3; [exact H0|]. intros p.
    pose proof (max_apply_ge m (ev3 s0 p) (- ev3 s1 p) Hm). pose proof (Rmax_l (ev3 s0 p) (- ev3 s1 p)).
    change (oneg ROps (ev3 s1 p)) with (- ev3 s1 p). lra.
  Qed.
  Lemma cut3_cls s a n o : @k_cut3 ROps s a n = Some o -> cls3 D3 s -> cls3 D3 o.
  Proof. intros H H0. injection H as <-. apply keep3; [exact H0|]. intros p. apply Rmax_r. Qed.

  (* ---------------------------------------------------------- Union (plain minimum) *)
  Lemma extend2_sub a b : sub_box2 a (box2_extend a b) /\ sub_box2 b (box2_extend a b).
  Proof.
    unfold sub_box2, box2_extend; cbn.
    repeat split; first [apply Rmin_l | apply Rmin_r | apply Rmax_l | apply Rmax_r].
  Qed.
  Lemma extend3_sub a b : sub_box3 a (box3_extend a b) /\ sub_box3 b (box3_extend a b).
  Proof.
    unfold sub_box3, box3_extend; cbn.
    repeat split; first [apply Rmin_l | apply Rmin_r | apply Rmax_l | apply Rmax_r].
  Qed.
  Lemma fold_extend2_sub (l : list RObj2) b0 :
    let B := fold_left (fun bb x => box2_extend bb (bb2 x)) l b0 in
    sub_box2 b0 B /\ forall x, In x l -> sub_box2 (bb2 x) B.
  Proof.
    revert b0; induction l as [|y l IH]; intros b0; cbn [fold_left].
    - split; [apply sub_box2_refl | intros x []].
    - destruct (IH (box2_extend b0 (bb2 y))) as [A B]. destruct (extend2_sub b0 (bb2 y)) as [E1 E2].
      split; [eapply sub_box2_trans; eassumption|].
      intros x [<-|Hx]; [eapply sub_box2_trans; eassumption | auto].
  Qed.
  Lemma fold_extend3_sub (l : list RObj3) b0 :
    let B := fold_left (fun bb x => box3_extend bb (bb3 x)) l b0 in
    sub_box3 b0 B /\ forall x, In x l -> sub_box3 (bb3 x) B.
  Proof.
    revert b0; induction l as [|y l IH]; intros b0; cbn [fold_left].
    - split; [apply sub_box3_refl | intros x []].
    - destruct (IH (box3_extend b0 (bb3 y))) as [A B]. destruct (extend3_sub b0 (bb3 y)) as [E1 E2].
      split; [eapply sub_box3_trans; eassumption|].
      intros x [<-|Hx]; [eapply sub_box3_trans; eassumption | auto].
  Qed.

  (* a value taken from one operand whose box lies inside B *)
  Lemma member2 B x p : cls2 D2 x -> sub_box2 (bb2 x) B -> D2 B p <= ev2 x p \/ in_box2 B p.
  Proof.
    intros [_ H] Hs. destruct (H p) as [Hd|Hin]; [left | right; eapply sub_box2_in; eassumption].
    pose proof (M2 _ _ p Hs). lra.
  Qed.
  Lemma member3 B x p : cls3 D3 x -> sub_box3 (bb3 x) B -> D3 B p <= ev3 x p \/ in_box3 B p.
  Proof.
    intros [_ H] Hs. destruct (H p) as [Hd|Hin]; [left | right; eapply sub_box3_in; eassumption].
    pose proof (M3 _ _ p Hs). lra.
  Qed.

  Lemma fold_min3_in (r : list RObj3) p d0 :
    let v := fold_left (fun d x => Rmin d (ev3 x p)) r d0 in v = d0 \/ exists x, In x r /\ v = ev3 x p.
  Proof.
    revert d0; induction r as [|y r IH]; intros d0; cbn [fold_left]; [now left|].
    destruct (IH (Rmin d0 (ev3 y p))) as [E|(x & Hx & E)].
    - rewrite E. unfold Rmin; destruct (Rle_dec _ _); [now left | right; exists y; split; [now left | reflexivity]].
    - right. exists x. split; [now right | exact E].
  Qed.

  Theorem union3_cls (l : list RObj3) o :
    (forall x, In x l -> cls3 D3 x) -> @k_union3 ROps MinDef l = Some o -> cls3 D3 o.
  Proof.
    intros Hl H. destruct l as [|s0 [|s1 r]]; cbn in H; [discriminate | injection H as <-; apply Hl; now left|].
    injection H as <-.
    pose proof (fold_extend3_sub (s0 :: s1 :: r) (bb3 s0)) as [S0 S]. cbn [fold_left] in S0, S.
    split; cbn [bb3 ev3].
    - eapply sub_box3_ordered; [|exact S0]. apply (Hl s0). now left.
    - intros p.
      destruct (fold_min3_in r p (Rmin (ev3 s0 p) (ev3 s1 p))) as [E|(x & Hx & E)]; cbv zeta in E; rewrite E.
      + unfold Rmin; destruct (Rle_dec _ _).
        * apply member3; [apply Hl; now left | apply S; now left].
        * apply member3; [apply Hl; right; now left | apply S; right; now left].
      + apply member3; [apply Hl; right; now right | apply S; right; now right].
  Qed.

  (* 2D: the bounding-box pruned Evaluate returns the value of one of the operands (Sdf/Union2R.v) *)
  Lemma evaluate_plain_in (ops : list (IV * R)) : ops <> [] ->
    In (@evaluate ROps false Rmin ops) (map snd ops).
  Proof. exact (evaluate_in ops). Qed.

  Theorem union2_cls (l : list RObj2) o :
    (forall x, In x l -> cls2 D2 x) -> @k_union2 ROps MinDef l = Some o -> cls2 D2 o.
  Proof.
    intros Hl H. destruct l as [|s0 [|s1 r]]; cbn [k_union2] in H; [discriminate | injection H as <-; apply Hl; now left|].
    injection H as <-. set (l := s0 :: s1 :: r) in *.
    pose proof (fold_extend2_sub l (bb2 s0)) as [S0 S]. cbv zeta in S0, S.
    split; cbn [bb2 ev2].
    - eapply sub_box2_ordered; [|exact S0]. apply (Hl s0). now left.
    - intros p.
      match goal with |- _ <= ?v \/ _ => change v with (@evaluate ROps false Rmin (map (fun x : RObj2 => (box2_minmax (bb2 x) p, ev2 x p)) l)) end.
      pose proof (evaluate_plain_in (map (fun x : RObj2 => (box2_minmax (bb2 x) p, ev2 x p)) l)) as Hin.
      rewrite map_map in Hin. cbn [snd] in Hin. specialize (Hin ltac:(unfold l; discriminate)).
      apply in_map_iff in Hin. destruct Hin as (x & E & Hx). rewrite <- E.
      apply member2; [apply Hl, Hx | apply S, Hx].
  Qed.
End Comb.

(* ------------------------------------------------------------ Elongate *)
Lemma clamp_bounds (x a b : R) : a <= b -> a <= @clamp ROps x a b <= b.
Proof. intros H. unfold clamp; cbn. rcmp1; [lra|]. rcmp1; lra. Qed.

Lemma translate2_ordered b v : ordered2 b -> ordered2 (box2_translate b v).
Proof. unfold ordered2; cbn. lra. Qed.
Lemma translate3_ordered b v : ordered3 b -> ordered3 (box3_translate b v).
Proof. unfold ordered3; cbn. lra. Qed.
Lemma translate2_in b (v p : RV2) : in_box2 b (mkV2 (vx p - vx v) (vy p - vy v)) -> in_box2 (box2_translate b v) p.
Proof. unfold in_box2; cbn. lra. Qed.
Lemma translate3_in b (v p : RV3) :
  in_box3 b (mkV3 (wx p - wx v) (wy p - wy v) (wz p - wz v)) -> in_box3 (box3_translate b v) p.
Proof. unfold in_box3; cbn. lra. Qed.

(* a translate by a vector between two others lies in the hull of the two extreme translates *)
Lemma translate2_between b (c u v : RV2) :
  Rmin (vx u) (vx v) <= vx c <= Rmax (vx u) (vx v) -> Rmin (vy u) (vy v) <= vy c <= Rmax (vy u) (vy v) ->
  sub_box2 (box2_translate b c) (box2_extend (box2_translate b u) (box2_translate b v)).
Proof.
  unfold sub_box2; cbn. intros Hx Hy. revert Hx Hy. unfold Rmin, Rmax.
  repeat destruct (Rle_dec _ _); intros; lra.
Qed.
Lemma translate3_between b (c u v : RV3) :
  Rmin (wx u) (wx v) <= wx c <= Rmax (wx u) (wx v) -> Rmin (wy u) (wy v) <= wy c <= Rmax (wy u) (wy v) ->
  Rmin (wz u) (wz v) <= wz c <= Rmax (wz u) (wz v) ->
  sub_box3 (box3_translate b c) (box3_extend (box3_translate b u) (box3_translate b v)).
Proof.
  unfold sub_box3; cbn. intros Hx Hy Hz.
  assert (A : forall l a1 a2 c0, Rmin a1 a2 <= c0 -> Rmin (l + a1) (l + a2) <= l + c0)
    by (intros l a1 a2 c0; unfold Rmin; repeat destruct (Rle_dec _ _); lra).
  assert (B : forall l a1 a2 c0, c0 <= Rmax a1 a2 -> l + c0 <= Rmax (l + a1) (l + a2))
    by (intros l a1 a2 c0; unfold Rmax; repeat destruct (Rle_dec _ _); lra).
  repeat split; first [apply A | apply B]; tauto.
Qed.

Section Comb2.
  Variable D2 : RBox2 -> RV2 -> R.
  Variable D3 : RBox3 -> RV3 -> R.
  Hypothesis M2 : Dmono2 D2.
  Hypothesis M3 : Dmono3 D3.
  Hypothesis T2 : Dtrans2 D2.
  Hypothesis T3 : Dtrans3 D3.

  (* the value at p is the operand's value at p - c, and the operand's box translated by c is inside B *)
  Lemma shifted2 s B (c p : RV2) : cls2 D2 s -> sub_box2 (box2_translate (bb2 s) c) B ->
    D2 B p <= ev2 s (mkV2 (vx p - vx c) (vy p - vy c)) \/ in_box2 B p.
  Proof.
    intros [_ H] Hs. destruct (H (mkV2 (vx p - vx c) (vy p - vy c))) as [Hd|Hin].
    - left. pose proof (M2 _ _ p Hs) as A. rewrite T2 in A. lra.
    - right. eapply sub_box2_in; [exact Hs|]. apply translate2_in, Hin.
  Qed.
  Lemma shifted3 s B (c p : RV3) : cls3 D3 s -> sub_box3 (box3_translate (bb3 s) c) B ->
    D3 B p <= ev3 s (mkV3 (wx p - wx c) (wy p - wy c) (wz p - wz c)) \/ in_box3 B p.
  Proof.
    intros [_ H] Hs. destruct (H (mkV3 (wx p - wx c) (wy p - wy c) (wz p - wz c))) as [Hd|Hin].
    - left. pose proof (M3 _ _ p Hs) as A. rewrite T3 in A. lra.
    - right. eapply sub_box3_in; [exact Hs|]. apply translate3_in, Hin.
  Qed.

  Lemma elongate2_cls s h o : @k_elongate2 ROps s h = Some o -> cls2 D2 s -> cls2 D2 o.
  Proof.
    intros H Hs. unfold k_elongate2 in H; cbn in H. injection H as <-.
    set (hx := Rabs (vx h)). set (hy := Rabs (vy h)).
    assert (0 <= hx) by apply Rabs_pos. assert (0 <= hy) by apply Rabs_pos.
    assert (Sub : forall c : RV2, hx * - (1 / (1 + 1)) <= vx c <= hx * (1 / (1 + 1)) ->
                  hy * - (1 / (1 + 1)) <= vy c <= hy * (1 / (1 + 1)) ->
      sub_box2 (box2_translate (bb2 s) c)
        (box2_extend (box2_translate (bb2 s) (v2muls (v2abs h) (1 / (1 + 1))))
                     (box2_translate (bb2 s) (v2muls (v2abs h) (- (1 / (1 + 1))))))).
    { intros c Hx Hy. apply translate2_between; cbn; fold hx hy; unfold Rmin, Rmax; repeat destruct (Rle_dec _ _); lra. }
    split; cbn [bb2 ev2].
    - eapply sub_box2_ordered; [apply (translate2_ordered (bb2 s) (mkV2 0 0)), Hs|]. apply Sub; cbn; lra.
    - intros p. apply shifted2 with (c := v2clamp p (v2muls (v2abs h) (- (1 / (1 + 1)))) (v2muls (v2abs h) (1 / (1 + 1)))); [exact Hs|].
      apply Sub; cbn; fold hx hy; apply clamp_bounds; lra.
  Qed.
  Lemma elongate3_cls s h o : @k_elongate3 ROps s h = Some o -> cls3 D3 s -> cls3 D3 o.
  Proof.
    intros H Hs. unfold k_elongate3 in H; cbn in H. injection H as <-.
    set (hx := Rabs (wx h)). set (hy := Rabs (wy h)). set (hz := Rabs (wz h)).
    assert (0 <= hx) by apply Rabs_pos. assert (0 <= hy) by apply Rabs_pos. assert (0 <= hz) by apply Rabs_pos.
    assert (Sub : forall c : RV3, hx * - (1 / (1 + 1)) <= wx c <= hx * (1 / (1 + 1)) ->
                  hy * - (1 / (1 + 1)) <= wy c <= hy * (1 / (1 + 1)) ->
                  hz * - (1 / (1 + 1)) <= wz c <= hz * (1 / (1 + 1)) ->
      sub_box3 (box3_translate (bb3 s) c)
        (box3_extend (box3_translate (bb3 s) (v3muls (v3abs h) (1 / (1 + 1))))
                     (box3_translate (bb3 s) (v3muls (v3abs h) (- (1 / (1 + 1))))))).
    { intros c Hx Hy Hz. apply translate3_between; cbn; fold hx hy hz; unfold Rmin, Rmax; repeat destruct (Rle_dec _ _); lra. }
    split; cbn [bb3 ev3].
    - eapply sub_box3_ordered; [apply (translate3_ordered (bb3 s) (mkV3 0 0 0)), Hs|]. apply Sub; cbn; lra.
    - intros p. apply shifted3 with (c := v3clamp p (v3muls (v3abs h) (- (1 / (1 + 1)))) (v3muls (v3abs h) (1 / (1 + 1)))); [exact Hs|].
      apply Sub; cbn; fold hx hy hz; apply clamp_bounds; lra.
  Qed.
End Comb2.

(* ------------------------------------------------------------ ScaleUniform (k > 0)
   For k < 0 the model (and the Go code) multiplies the value by k, i.e. turns the solid inside
   out: the enclosure is then false (see scaleuniform_negative_refuted in EncloseAll.v). *)
Definition scaled_box2 (b : RBox2) (k : R) : RBox2 := mkBox2 (v2muls (b2min b) k) (v2muls (b2max b) k).
Definition scaled_box3 (b : RBox3) (k : R) : RBox3 := mkBox3 (v3muls (b3min b) k) (v3muls (b3max b) k).
Definition Dscale2 (D : RBox2 -> RV2 -> R) :=
  forall b k p, 0 < k -> D (scaled_box2 b k) p = k * D b (v2muls p (1 / k)).
Definition Dscale3 (D : RBox3 -> RV3 -> R) :=
  forall b k p, 0 < k -> D (scaled_box3 b k) p = k * D b (v3muls p (1 / k)).

Lemma axd_scale lo hi k x : 0 < k -> axd (lo * k) (hi * k) x = k * axd lo hi (x * (1 / k)).
Proof.
  intros Hk. unfold axd. rewrite <- !RmaxRmult by lra. f_equal; [ring|]. f_equal; field; lra.
Qed.
Lemma D0_scale2 : Dscale2 D0_2.
Proof. unfold Dscale2, D0_2; intros; ring. Qed.
Lemma D0_scale3 : Dscale3 D0_3.
Proof. unfold Dscale3, D0_3; intros; ring. Qed.
Lemma Dinf_scale2 : Dscale2 boxdistinf2.
Proof. intros b k p Hk. unfold boxdistinf2; cbn. rewrite !axd_scale by exact Hk. rewrite RmaxRmult by lra. reflexivity. Qed.
Lemma Dinf_scale3 : Dscale3 boxdistinf3.
Proof. intros b k p Hk. unfold boxdistinf3; cbn. rewrite !axd_scale by exact Hk. rewrite !RmaxRmult by lra. reflexivity. Qed.
Lemma sqrt_scale k s : 0 < k -> 0 <= s -> sqrt (k * k * s) = k * sqrt s.
Proof. intros Hk Hs. rewrite sqrt_mult by nra. rewrite sqrt_square by lra. reflexivity. Qed.
Lemma D2_scale2 : Dscale2 boxdist2.
Proof.
  intros b k p Hk. unfold boxdist2; cbn. rewrite !axd_scale by exact Hk.
  rewrite <- sqrt_scale by (try lra; nra). f_equal. ring.
Qed.
Lemma D2_scale3 : Dscale3 boxdist3.
Proof.
  intros b k p Hk. unfold boxdist3; cbn. rewrite !axd_scale by exact Hk.
  rewrite <- sqrt_scale by (try lra; nra). f_equal. ring.
Qed.

Lemma scale2_box b k : 0 < k -> ordered2 b ->
  m33_mulbox (@mk_scale2d ROps (mkV2 k k)) b = scaled_box2 b k.
Proof.
  intros Hk [Hx Hy]. unfold m33_mulbox, scaled_box2; cbn.
  assert (0 <= k * (vx (b2max b) - vx (b2min b))) by (apply Rmult_le_pos; lra).
  assert (0 <= k * (vy (b2max b) - vy (b2min b))) by (apply Rmult_le_pos; lra).
  unfold v2add, v2min, v2max, v2muls; cbn.
  f_equal; f_equal; unfold Rmin, Rmax; repeat destruct (Rle_dec _ _); lra.
Qed.

Lemma scaled2_ordered b k : 0 < k -> ordered2 b -> ordered2 (scaled_box2 b k).
Proof. unfold ordered2; cbn. intros; split; nra. Qed.
Lemma scaled3_ordered b k : 0 < k -> ordered3 b -> ordered3 (scaled_box3 b k).
Proof. unfold ordered3; cbn. intros; repeat split; nra. Qed.
Lemma scaled2_in b k (p : RV2) : 0 < k -> in_box2 b (v2muls p (1 / k)) -> in_box2 (scaled_box2 b k) p.
Proof.
  unfold in_box2; cbn. intros Hk H.
  assert (E : forall x : R, x = x * (1 / k) * k) by (intros; field; lra).
  rewrite (E (vx p)), (E (vy p)). split; split; apply Rmult_le_compat_r; lra.
Qed.
Lemma scaled3_in b k (p : RV3) : 0 < k -> in_box3 b (v3muls p (1 / k)) -> in_box3 (scaled_box3 b k) p.
Proof.
  unfold in_box3; cbn. intros Hk H.
  assert (E : forall x : R, x = x * (1 / k) * k) by (intros; field; lra).
  rewrite (E (wx p)), (E (wy p)), (E (wz p)). repeat split; apply Rmult_le_compat_r; lra.
Qed.

Lemma scaleuniform2_cls D s k o : Dscale2 D -> 0 < k ->
  @k_scaleuniform2 ROps s k = Some o -> cls2 D s -> cls2 D o.
Proof.
  intros DS Hk H [Ho Hs]. unfold k_scaleuniform2 in H. injection H as <-.
  rewrite (scale2_box _ _ Hk Ho). split; cbn [bb2 ev2].
  - apply scaled2_ordered; assumption.
  - intros p. destruct (Hs (v2muls p (o1 ROps / k))) as [Hd|Hin].
    + left. rewrite (DS _ _ p Hk). change (omul ROps) with Rmult. change (o1 ROps / k) with (1 / k) in *. nra.
    + right. apply scaled2_in; assumption.
Qed.

Lemma scale3_box b k : 0 < k -> ordered3 b ->
  m44_mulbox (@mk_scale3d ROps (mkV3 k k k)) b = scaled_box3 b k.
Proof.
  intros Hk (Hx & Hy & Hz). unfold m44_mulbox, scaled_box3; cbn.
  assert (0 <= k * (wx (b3max b) - wx (b3min b))) by (apply Rmult_le_pos; lra).
  assert (0 <= k * (wy (b3max b) - wy (b3min b))) by (apply Rmult_le_pos; lra).
  assert (0 <= k * (wz (b3max b) - wz (b3min b))) by (apply Rmult_le_pos; lra).
  unfold v3add, v3min, v3max, v3muls; cbn.
  f_equal; f_equal; unfold Rmin, Rmax; repeat destruct (Rle_dec _ _); lra.
Qed.

Lemma scaleuniform3_cls D s k o : Dscale3 D -> 0 < k ->
  @k_scaleuniform3 ROps s k = Some o -> cls3 D s -> cls3 D o.
Proof.
  intros DS Hk H [Ho Hs]. unfold k_scaleuniform3 in H. injection H as <-.
  rewrite (scale3_box _ _ Hk Ho). split; cbn [bb3 ev3].
  - apply scaled3_ordered; assumption.
  - intros p. destruct (Hs (v3muls p (o1 ROps / k))) as [Hd|Hin].
    + left. rewrite (DS _ _ p Hk). change (omul ROps) with Rmult. change (o1 ROps / k) with (1 / k) in *. nra.
    + right. apply scaled3_in; assumption.
Qed.

(* ------------------------------------------------------------ Offset (offset >= 0), Shell
   The operand must be in the class lbinf (or lb2, which is contained in it): outside its box its
   value dominates the max-norm distance to the box.  The result is again in lbinf. *)
Lemma offset2_lbinf s off o : 0 <= off -> @k_offset2 ROps s off = Some o -> lbinf_2 s -> lbinf_2 o.
Proof.
  intros Hoff H Hs. unfold k_offset2 in H; cbn in H. injection H as <-.
  destruct Hs as [Ho Hs']. pose proof (conj Ho Hs' : lbinf_2 s) as Hs. destruct Ho as [Hx Hy].
  apply lbinf2_intro; cbn [bb2 ev2]; [unfold ordered2; cbn; lra|].
  intros p Hout.
  assert (Hout' : ~ in_box2 (bb2 s) p) by (intros Hin; apply Hout; revert Hin; unfold in_box2; cbn; lra).
  pose proof (lbinf2_elim s p Hs Hout') as (A & B & C & D). unfold slab2; cbn. repeat split; lra.
Qed.
Lemma offset3_lbinf s off o : 0 <= off -> @k_offset3 ROps s off = Some o -> lbinf_3 s -> lbinf_3 o.
Proof.
  intros Hoff H Hs. unfold k_offset3 in H; cbn in H. injection H as <-.
  destruct Hs as [Ho Hs']. pose proof (conj Ho Hs' : lbinf_3 s) as Hs. destruct Ho as (Hx & Hy & Hz).
  apply lbinf3_intro; cbn [bb3 ev3]; [unfold ordered3; cbn; lra|].
  intros p Hout.
  assert (Hout' : ~ in_box3 (bb3 s) p) by (intros Hin; apply Hout; revert Hin; unfold in_box3; cbn; lra).
  pose proof (lbinf3_elim s p Hs Hout') as (A & B & C & D & E & F). unfold slab3; cbn. repeat split; lra.
Qed.
Lemma shell3_lbinf s th o : @k_shell3 ROps s th = Some o -> lbinf_3 s -> lbinf_3 o.
Proof.
  intros H Hs. unfold k_shell3 in H; cbn in H. kinv H. bfalse.
  destruct Hs as [Ho Hs']. pose proof (conj Ho Hs' : lbinf_3 s) as Hs. destruct Ho as (Hx & Hy & Hz).
  apply lbinf3_intro; cbn [bb3 ev3]; [unfold ordered3; cbn; lra|].
  intros p Hout.
  assert (Hout' : ~ in_box3 (bb3 s) p) by (intros Hin; apply Hout; revert Hin; unfold in_box3; cbn; lra).
  pose proof (lbinf3_elim s p Hs Hout') as (A & B & C & D & E & F). unfold slab3; cbn.
  pose proof (Rabs_ge_l (ev3 s p)). repeat split; lra.
Qed.

(* ------------------------------------------------------------ Array (plain minimum): enclosure.
   The loops start from the sentinel MaxFloat64, so the result is min(sentinel, values): a negative
   result is the value of one translated copy.  (The classes lbinf/lb2 are not claimed for arrays:
   farther than MaxFloat64 from the material the real-number model returns the sentinel.) *)
Lemma count_loop_inv {A} (P : A -> Prop) n : forall i (F : Z -> A -> A) acc,
  P acc -> (forall j d, (i <= j < i + Z.of_nat n)%Z -> P d -> P (F j d)) -> P (count_loop n i F acc).
Proof.
  induction n as [|n IH]; intros i F acc Ha HF; cbn [count_loop]; [exact Ha|].
  apply IH; [apply HF; [lia | exact Ha]|]. intros j d Hj. apply HF. lia.
Qed.

Lemma step_between (n j s : R) : 0 <= j <= n -> Rmin 0 (s * n) <= j * s <= Rmax 0 (s * n).
Proof.
  intros Hj. unfold Rmin, Rmax. destruct (Rle_dec 0 (s * n)).
  - destruct (Rle_dec 0 s); [nra|]. assert (n = 0 \/ 0 < n) as [->|Hn] by lra; nra.
  - destruct (Rle_dec 0 s); nra.
Qed.

Lemma array2_enc s nx ny step o :
  @k_array2 ROps MinDef s nx ny step = Some o -> enc2 s -> enc2 o.
Proof.
  intros H [Ho Hs]. unfold k_array2 in H. kinv H. apply orb_false_iff in K. destruct K as [K1 K2].
  apply Z.leb_gt in K1, K2. cbn [min_apply].
  set (B := box2_extend _ _).
  assert (Sub : forall j k, (0 <= j < nx)%Z -> (0 <= k < ny)%Z ->
            sub_box2 (box2_translate (bb2 s) (mkV2 (IZR j * vx step) (IZR k * vy step))) B).
  { intros j k Hj Hk. unfold B.
    assert (Jx : 0 <= IZR j <= IZR (nx - 1)) by (split; apply IZR_le; lia).
    assert (Jy : 0 <= IZR k <= IZR (ny - 1)) by (split; apply IZR_le; lia).
    pose proof (step_between _ _ (vx step) Jx) as Sx. pose proof (step_between _ _ (vy step) Jy) as Sy.
    unfold sub_box2; cbn. change (IZR (nx - 1)) with (ofZ ROps (nx - 1)) in *.
    change (IZR (ny - 1)) with (ofZ ROps (ny - 1)) in *.
    revert Sx Sy. unfold Rmin, Rmax. repeat destruct (Rle_dec _ _); intros; lra. }
  split; cbn [bb2 ev2].
  - eapply sub_box2_ordered; [|apply (Sub 0%Z 0%Z); lia]. apply translate2_ordered, Ho.
  - intros p. apply (count_loop_inv (fun d => d < 0 -> in_box2 B p)); [intros Hm; exfalso|].
    { change (omaxf ROps) with Rmaxfloat in Hm. unfold Rmaxfloat in Hm.
      assert (0 <= IZR (2 ^ 1024 - 2 ^ 971)) by (apply IZR_le; lia). lra. }
    intros j d Hj Hd. apply count_loop_inv; [exact Hd|]. intros k d' Hk Hd'.
    change (omin ROps) with Rmin. intros Hlt.
    unfold Rmin in Hlt; destruct (Rle_dec _ _); [auto|].
    eapply sub_box2_in; [apply (Sub j k); lia|]. apply translate2_in. apply Hs. exact Hlt.
Qed.

Lemma sentinel_nonneg : 0 <= omaxf ROps.
Proof. change (omaxf ROps) with Rmaxfloat. unfold Rmaxfloat. apply IZR_le; lia. Qed.

Lemma array3_enc s nx ny nz step o :
  @k_array3 ROps MinDef s nx ny nz step = Some o -> enc3 s -> enc3 o.
Proof.
  intros H [Ho Hs]. unfold k_array3 in H. kinv H.
  apply orb_false_iff in K. destruct K as [K K3]. apply orb_false_iff in K. destruct K as [K1 K2].
  apply Z.leb_gt in K1, K2, K3. cbn [min_apply].
  set (B := box3_extend _ _).
  assert (Sub : forall j k l, (0 <= j < nx)%Z -> (0 <= k < ny)%Z -> (0 <= l < nz)%Z ->
            sub_box3 (box3_translate (bb3 s) (mkV3 (IZR j * wx step) (IZR k * wy step) (IZR l * wz step))) B).
  { intros j k l Hj Hk Hl. unfold B.
    assert (Jx : 0 <= IZR j <= IZR (nx - 1)) by (split; apply IZR_le; lia).
    assert (Jy : 0 <= IZR k <= IZR (ny - 1)) by (split; apply IZR_le; lia).
    assert (Jz : 0 <= IZR l <= IZR (nz - 1)) by (split; apply IZR_le; lia).
    pose proof (step_between _ _ (wx step) Jx) as Sx. pose proof (step_between _ _ (wy step) Jy) as Sy.
    pose proof (step_between _ _ (wz step) Jz) as Sz.
    unfold sub_box3; cbn. change (IZR (nx - 1)) with (ofZ ROps (nx - 1)) in *.
    change (IZR (ny - 1)) with (ofZ ROps (ny - 1)) in *. change (IZR (nz - 1)) with (ofZ ROps (nz - 1)) in *.
    assert (A : forall lo a c : R, Rmin 0 a <= c -> Rmin lo (lo + a) <= lo + c)
      by (intros lo a c; unfold Rmin; repeat destruct (Rle_dec _ _); lra).
    assert (A' : forall hi a c : R, c <= Rmax 0 a -> hi + c <= Rmax hi (hi + a))
      by (intros hi a c; unfold Rmax; repeat destruct (Rle_dec _ _); lra).
    repeat split; first [apply A | apply A']; tauto. }
  split; cbn [bb3 ev3].
  - eapply sub_box3_ordered; [|apply (Sub 0%Z 0%Z 0%Z); lia]. apply translate3_ordered, Ho.
  - intros p. apply (count_loop_inv (fun d => d < 0 -> in_box3 B p)); [intros Hm; exfalso|].
    { pose proof sentinel_nonneg as SN. change (omaxf ROps) with Rmaxfloat in *. lra. }
    intros j d Hj Hd. apply count_loop_inv; [exact Hd|]. intros k d' Hk Hd'.
    apply count_loop_inv; [exact Hd'|]. intros l d'' Hl Hd''.
    change (omin ROps) with Rmin. intros Hlt.
    unfold Rmin in Hlt; destruct (Rle_dec _ _); [auto|].
    eapply sub_box3_in; [apply (Sub j k l); lia|]. apply translate3_in. apply Hs. exact Hlt.
Qed.

(* ------------------------------------------------------------ instances: enclosure / lbinf / lb2 *)
Lemma all_enc3_cls (l : list RObj3) : (forall x, In x l -> enc3 x) -> forall x, In x l -> cls3 D0_3 x.
Proof. intros H x Hx. apply enc3_cls, H, Hx. Qed.
Lemma all_enc2_cls (l : list RObj2) : (forall x, In x l -> enc2 x) -> forall x, In x l -> cls2 D0_2 x.
Proof. intros H x Hx. apply enc2_cls, H, Hx. Qed.

Theorem union3_enc l o : (forall x, In x l -> enc3 x) -> @k_union3 ROps MinDef l = Some o -> enc3 o.
Proof. intros Hl H. apply enc3_cls. eapply union3_cls; [apply D0_mono3 | apply all_enc3_cls, Hl | exact H]. Qed.
Theorem union2_enc l o : (forall x, In x l -> enc2 x) -> @k_union2 ROps MinDef l = Some o -> enc2 o.
Proof. intros Hl H. apply enc2_cls. eapply union2_cls; [apply D0_mono2 | apply all_enc2_cls, Hl | exact H]. Qed.
Theorem union3_lbinf l o : (forall x, In x l -> lbinf_3 x) -> @k_union3 ROps MinDef l = Some o -> lbinf_3 o.
Proof. intros Hl H. eapply union3_cls; [apply Dinf_mono3 | exact Hl | exact H]. Qed.
Theorem union2_lbinf l o : (forall x, In x l -> lbinf_2 x) -> @k_union2 ROps MinDef l = Some o -> lbinf_2 o.
Proof. intros Hl H. eapply union2_cls; [apply Dinf_mono2 | exact Hl | exact H]. Qed.
Theorem union3_lb2 l o : (forall x, In x l -> lb2_3 x) -> @k_union3 ROps MinDef l = Some o -> lb2_3 o.
Proof. intros Hl H. eapply union3_cls; [apply D2_mono3 | exact Hl | exact H]. Qed.
Theorem union2_lb2 l o : (forall x, In x l -> lb2_2 x) -> @k_union2 ROps MinDef l = Some o -> lb2_2 o.
Proof. intros Hl H. eapply union2_cls; [apply D2_mono2 | exact Hl | exact H]. Qed.

Theorem intersect2_enc m s0 s1 o : max_ok m -> @k_intersect2 ROps m s0 s1 = Some o -> enc2 s0 -> enc2 o.
Proof. intros Hm H H0. apply enc2_cls. eapply intersect2_cls; [exact Hm | exact H | apply enc2_cls, H0]. Qed.
Theorem intersect3_enc m s0 s1 o : max_ok m -> @k_intersect3 ROps m s0 s1 = Some o -> enc3 s0 -> enc3 o.
Proof. intros Hm H H0. apply enc3_cls. eapply intersect3_cls; [exact Hm | exact H | apply enc3_cls, H0]. Qed.
Theorem difference2_enc m s0 s1 o : max_ok m -> @k_difference2 ROps m s0 s1 = Some o -> enc2 s0 -> enc2 o.
Proof. intros Hm H H0. apply enc2_cls. eapply difference2_cls; [exact Hm | exact H | apply enc2_cls, H0]. Qed.
Theorem difference3_enc m s0 s1 o : max_ok m -> @k_difference3 ROps m s0 s1 = Some o -> enc3 s0 -> enc3 o.
Proof. intros Hm H H0. apply enc3_cls. eapply difference3_cls; [exact Hm | exact H | apply enc3_cls, H0]. Qed.
Theorem cut2_enc s a v o : @k_cut2 ROps s a v = Some o -> enc2 s -> enc2 o.
Proof. intros H H0. apply enc2_cls. eapply cut2_cls; [exact H | apply enc2_cls, H0]. Qed.
Theorem cut3_enc s a n o : @k_cut3 ROps s a n = Some o -> enc3 s -> enc3 o.
Proof. intros H H0. apply enc3_cls. eapply cut3_cls; [exact H | apply enc3_cls, H0]. Qed.
Theorem elongate2_enc s h o : @k_elongate2 ROps s h = Some o -> enc2 s -> enc2 o.
Proof. intros H H0. apply enc2_cls. eapply elongate2_cls; [apply D0_mono2 | apply D0_trans2 | exact H | apply enc2_cls, H0]. Qed.
Theorem elongate3_enc s h o : @k_elongate3 ROps s h = Some o -> enc3 s -> enc3 o.
Proof. intros H H0. apply enc3_cls. eapply elongate3_cls; [apply D0_mono3 | apply D0_trans3 | exact H | apply enc3_cls, H0]. Qed.
Theorem scaleuniform2_enc s k o : 0 < k -> @k_scaleuniform2 ROps s k = Some o -> enc2 s -> enc2 o.
Proof. intros Hk H H0. apply enc2_cls. eapply scaleuniform2_cls; [apply D0_scale2 | exact Hk | exact H | apply enc2_cls, H0]. Qed.
Theorem scaleuniform3_enc s k o : 0 < k -> @k_scaleuniform3 ROps s k = Some o -> enc3 s -> enc3 o.
Proof. intros Hk H H0. apply enc3_cls. eapply scaleuniform3_cls; [apply D0_scale3 | exact Hk | exact H | apply enc3_cls, H0]. Qed.
Theorem offset2_enc s off o : 0 <= off -> @k_offset2 ROps s off = Some o -> lbinf_2 s -> enc2 o.
Proof. intros Hoff H Hs. apply lbinf2_enc. eapply offset2_lbinf; eassumption. Qed.
Theorem offset3_enc s off o : 0 <= off -> @k_offset3 ROps s off = Some o -> lbinf_3 s -> enc3 o.
Proof. intros Hoff H Hs. apply lbinf3_enc. eapply offset3_lbinf; eassumption. Qed.
Theorem shell3_enc s th o : @k_shell3 ROps s th = Some o -> lbinf_3 s -> enc3 o.
Proof. intros H Hs. apply lbinf3_enc. eapply shell3_lbinf; eassumption. Qed.
