(* C01 over the reals, part 2: set combinators.  Every lemma is generic in the distance-to-box
   function D (EncloseR.v: D = 0 enclosure, boxdistinf = class lbinf, boxdist = class lb2). *)
From Coq Require Import Reals Lra Lia List Bool ZArith Psatz.
From Sdfx Require Import Num.Ops Num.RInst Geo.Vec Geo.Box Geo.BoxR Geo.MinMaxR Geo.NormR Geo.Mat
  Sdf.Union2 Sdf.Union2R Sdf.Shape Sdf.ShapeR Sdf.EncloseR.
Import ListNotations.
Open Scope R_scope.

(* ------------------------------------------------------------ blends *)
(* sdf.poly with k > 0 never exceeds the minimum (it removes at most k/4), so the
   material-removing PolyMax never goes below the maximum *)
Lemma poly_le_min (a b k : R) : 0 < k -> @poly ROps a b k <= Rmin a b.
Proof.
  intros Hk. unfold poly, clamp, mix; cbn.
  set (t := (b - a) / k). assert (Eb : b = a + t * k) by (unfold t; field; lra).
  replace (1 / (1 + 1) + 1 / (1 + 1) * (b - a) / k) with (/ 2 + / 2 * t) by (unfold t; field; lra).
  clearbody t. subst b.
  assert (Hm : Rmin a (a + t * k) = a \/ Rmin a (a + t * k) = a + t * k)
    by (unfold Rmin; destruct (Rle_dec _ _); auto).
  pose proof (Rmin_l a (a + t * k)). pose proof (Rmin_r a (a + t * k)).
  rcmp1; [|rcmp1].
  - assert (t * k < - k) by nra. apply Rmin_glb; nra.
  - assert (k < t * k) by nra. apply Rmin_glb; nra.
  - set (h := / 2 + / 2 * t) in *. assert (Et : t = 2 * h - 1) by (unfold h; field). rewrite Et.
    apply Rmin_glb.
    + assert (0 <= k * (1 - h) * (1 - h)) by (apply Rmult_le_pos; [apply Rmult_le_pos|]; lra). nra.
    + assert (0 <= k * h * h) by (apply Rmult_le_pos; [apply Rmult_le_pos|]; lra). nra.
Qed.

Definition max_ok (m : MaxK ROps) : Prop := match m with MaxDef => True | MaxPoly k => 0 < k end.
Definition min_plain (m : MinK ROps) : Prop := m = MinDef.

Lemma max_apply_ge m (a b : R) : max_ok m -> Rmax a b <= @max_apply ROps m a b.
Proof.
  destruct m as [|k]; cbn [max_apply max_ok]; intros Hk; [apply Rle_refl|]. change (oneg ROps) with Ropp.
  pose proof (poly_le_min (- a) (- b) k Hk). pose proof (Rmin_l (- a) (- b)). pose proof (Rmin_r (- a) (- b)).
  apply Rmax_lub; lra.
Qed.

(* a combinator that keeps the box of its first operand and does not lower the value *)
Lemma keep2 D s f : cls2 D s -> (forall p, ev2 s p <= f p) -> cls2 D (mkObj2 f (bb2 s)).
Proof.
  intros [Ho H] Hf. split; [exact Ho|]. intros p; cbn. destruct (H p); [left; specialize (Hf p); lra | now right].
Qed.
Lemma keep3 D s f : cls3 D s -> (forall p, ev3 s p <= f p) -> cls3 D (mkObj3 f (bb3 s)).
Proof.
  intros [Ho H] Hf. split; [exact Ho|]. intros p; cbn. destruct (H p); [left; specialize (Hf p); lra | now right].
Qed.

Section Comb.
  Variable D2 : RBox2 -> RV2 -> R.
  Variable D3 : RBox3 -> RV3 -> R.
  Hypothesis M2 : Dmono2 D2.
  Hypothesis M3 : Dmono3 D3.
  Hypothesis T2 : Dtrans2 D2.
  Hypothesis T3 : Dtrans3 D3.

  (* ---------------------------------------------------------- Intersect, Difference, Cut *)
  Lemma intersect2_cls m s0 s1 o : max_ok m -> @k_intersect2 ROps m s0 s1 = Some o -> cls2 D2 s0 -> cls2 D2 o.
  Proof.
    intros Hm H H0. injection H as <-. apply keep2; [exact H0|]. intros p.
    pose proof (max_apply_ge m (ev2 s0 p) (ev2 s1 p) Hm). pose proof (Rmax_l (ev2 s0 p) (ev2 s1 p)). lra.
  Qed.
  Lemma difference2_cls m s0 s1 o : max_ok m -> @k_difference2 ROps m s0 s1 = Some o -> cls2 D2 s0 -> cls2 D2 o.
  Proof.
    intros Hm H H0. injection H as <-. apply keep2; [exact H0|]. intros p.
    pose proof (max_apply_ge m (ev2 s0 p) (- ev2 s1 p) Hm). pose proof (Rmax_l (ev2 s0 p) (- ev2 s1 p)).
    change (oneg ROps (ev2 s1 p)) with (- ev2 s1 p). lra.
  Qed.
  (* Go's Cut2D/Cut3D do not reject the zero vector; the enclosure does not depend on it *)
  Lemma cut2_cls s a v o : @k_cut2 ROps s a v = Some o -> cls2 D2 s -> cls2 D2 o.
  Proof. intros H H0. injection H as <-. apply keep2; [exact H0|]. intros p. apply Rmax_r. Qed.
  Lemma intersect3_cls m s0 s1 o : max_ok m -> @k_intersect3 ROps m s0 s1 = Some o -> cls3 D3 s0 -> cls3 D3 o.
  Proof.
    intros Hm H H0. injection H as <-. apply keep3; [exact H0|]. intros p.
    pose proof (max_apply_ge m (ev3 s0 p) (ev3 s1 p) Hm). pose proof (Rmax_l (ev3 s0 p) (ev3 s1 p)). lra.
  Qed.
  Lemma difference3_cls m s0 s1 o : max_ok m -> @k_difference3 ROps m s0 s1 = Some o -> cls3 D3 s0 -> cls3 D3 o.
  Proof.
    intros Hm H H0. injection H as <-. apply keep3; [exact H0|]. intros p.
    pose proof (max_apply_ge m (ev3 s0 p) (- ev3 s1 p) Hm). pose proof (Rmax_l (ev3 s0 p) (- ev3 s1 p)).
    change (oneg ROps (ev3 s1 p)) with (- ev3 s1 p). lra.
  Qed.
  Lemma cut3_cls s a n o : @k_cut3 ROps s a n = Some o -> cls3 D3 s -> cls3 D3 o.
  Proof. intros H H0. injection H as <-. apply keep3; [exact H0|]. intros p. apply Rmax_r. Qed.

  (* ---------------------------------------------------------- Union (plain minimum) *)
  Lemma extend2_sub a b : sub_box2 a (box2_extend a b) /\ sub_box2 b (box2_extend a b).
  Proof.
    unfold sub_box2, box2_extend; cbn.
    repeat split; first [apply Rmin_l | apply Rmin_r | apply Rmax_l | apply Rmax_r].
  Qed.
  Lemma extend3_sub a b : sub_box3 a (box3_extend a b) /\ sub_box3 b (box3_extend a b).
  Proof.
    unfold sub_box3, box3_extend; cbn.
    repeat split; first [apply Rmin_l | apply Rmin_r | apply Rmax_l | apply Rmax_r].
  Qed.
  Lemma fold_extend2_sub (l : list RObj2) b0 :
    let B := fold_left (fun bb x => box2_extend bb (bb2 x)) l b0 in
    sub_box2 b0 B /\ forall x, In x l -> sub_box2 (bb2 x) B.
  Proof.
    revert b0; induction l as [|y l IH]; intros b0; cbn [fold_left].
    - split; [apply sub_box2_refl | intros x []].
    - destruct (IH (box2_extend b0 (bb2 y))) as [A B]. destruct (extend2_sub b0 (bb2 y)) as [E1 E2].
      split; [eapply sub_box2_trans; eassumption|].
      intros x [<-|Hx]; [eapply sub_box2_trans; eassumption | auto].
  Qed.
  Lemma fold_extend3_sub (l : list RObj3) b0 :
    let B := fold_left (fun bb x => box3_extend bb (bb3 x)) l b0 in
    sub_box3 b0 B /\ forall x, In x l -> sub_box3 (bb3 x) B.
  Proof.
    revert b0; induction l as [|y l IH]; intros b0; cbn [fold_left].
    - split; [apply sub_box3_refl | intros x []].
    - destruct (IH (box3_extend b0 (bb3 y))) as [A B]. destruct (extend3_sub b0 (bb3 y)) as [E1 E2].
      split; [eapply sub_box3_trans; eassumption|].
      intros x [<-|Hx]; [eapply sub_box3_trans; eassumption | auto].
  Qed.

  (* a value taken from one operand whose box lies inside B *)
  Lemma member2 B x p : cls2 D2 x -> sub_box2 (bb2 x) B -> D2 B p <= ev2 x p \/ in_box2 B p.
  Proof.
    intros [_ H] Hs. destruct (H p) as [Hd|Hin]; [left | right; eapply sub_box2_in; eassumption].
    pose proof (M2 _ _ p Hs). lra.
  Qed.
  Lemma member3 B x p : cls3 D3 x -> sub_box3 (bb3 x) B -> D3 B p <= ev3 x p \/ in_box3 B p.
  Proof.
    intros [_ H] Hs. destruct (H p) as [Hd|Hin]; [left | right; eapply sub_box3_in; eassumption].
    pose proof (M3 _ _ p Hs). lra.
  Qed.

  Lemma fold_min3_in (r : list RObj3) p d0 :
    let v := fold_left (fun d x => Rmin d (ev3 x p)) r d0 in v = d0 \/ exists x, In x r /\ v = ev3 x p.
  Proof.
    revert d0; induction r as [|y r IH]; intros d0; cbn [fold_left]; [now left|].
    destruct (IH (Rmin d0 (ev3 y p))) as [E|(x & Hx & E)].
    - rewrite E. unfold Rmin; destruct (Rle_dec _ _); [now left | right; exists y; split; [now left | reflexivity]].
    - right. exists x. split; [now right | exact E].
  Qed.

  Theorem union3_cls (l : list RObj3) o :
    (forall x, In x l -> cls3 D3 x) -> @k_union3 ROps MinDef l = Some o -> cls3 D3 o.
  Proof.
    intros Hl H. destruct l as [|s0 [|s1 r]]; cbn in H; [discriminate | injection H as <-; apply Hl; now left|].
    injection H as <-.
    pose proof (fold_extend3_sub (s0 :: s1 :: r) (bb3 s0)) as [S0 S]. cbn [fold_left] in S0, S.
    split; cbn [bb3 ev3].
    - eapply sub_box3_ordered; [|exact S0]. apply (Hl s0). now left.
    - intros p.
      destruct (fold_min3_in r p (Rmin (ev3 s0 p) (ev3 s1 p))) as [E|(x & Hx & E)]; cbv zeta in E; rewrite E.
      + unfold Rmin; destruct (Rle_dec _ _).
        * apply member3; [apply Hl; now left | apply S; now left].
        * apply member3; [apply Hl; right; now left | apply S; right; now left].
      + apply member3; [apply Hl; right; now right | apply S; right; now right].
  Qed.

  (* 2D: the bounding-box pruned Evaluate returns the value of one of the operands *)
  Lemma min_index_range (vs : list IV) i md mi0 : (mi0 < i)%nat ->
    (snd (@min_index ROps vs i md mi0) < i + length vs)%nat.
  Proof.
    revert i md mi0; induction vs as [|v r IH]; intros i md mi0 Hlt; cbn [min_index length snd]; [lia|].
    destruct (_ || _); (eapply Nat.lt_le_trans; [apply IH; lia | lia]).
  Qed.
  Lemma evaluate_plain_in (ops : list (IV * R)) : ops <> [] ->
    In (@evaluate ROps false Rmin ops) (map snd ops).
  Proof.
    intros Hne. unfold evaluate.
    match goal with |- context [@min_index ?a ?b ?c ?d ?e] => destruct (@min_index a b c d e) as [md mi] eqn:Emi end.
    assert (Hlt : (mi < length ops)%nat).
    { destruct ops as [|[v x] r]; [congruence|]. cbn [map fst min_index] in Emi.
      change (oltb ROps (oneg ROps (o1 ROps)) (o0 ROps)) with (Rltb (-1) 0) in Emi.
      assert (Rltb (-1) 0 = true) as E by (apply Rltb_true; lra). rewrite E in Emi. cbn [orb] in Emi.
      pose proof (min_index_range (map fst r) 1 (fst v) 0%nat ltac:(lia)) as R. rewrite Emi in R.
      cbn [snd] in R. rewrite map_length in R. cbn [length]. lia. }
    cbv beta iota zeta. rewrite prune_loop_kept.
    set (vm := nth mi (map fst ops) (o0 ROps, o0 ROps)).
    pose proof (kept_has_mi vm mi [] ops) as Hk. cbn [length] in Hk. rewrite Nat.sub_0_r in Hk.
    specialize (Hk ltac:(lia) ltac:(lia)).
    destruct (kept vm mi ops 0) as [|k ks] eqn:Ek; [destruct Hk|].
    change (o0 ROps) with 0. rewrite slow_loop_true.
    apply (kept_sub vm mi ops 0). rewrite Ek.
    destruct (lmin_in k ks) as [->|Hin]; [now left | now right].
  Qed.

  Theorem union2_cls (l : list RObj2) o :
    (forall x, In x l -> cls2 D2 x) -> @k_union2 ROps MinDef l = Some o -> cls2 D2 o.
  Proof.
    intros Hl H. destruct l as [|s0 [|s1 r]]; cbn [k_union2] in H; [discriminate | injection H as <-; apply Hl; now left|].
    injection H as <-. set (l := s0 :: s1 :: r) in *.
    pose proof (fold_extend2_sub l (bb2 s0)) as [S0 S]. cbv zeta in S0, S.
    split; cbn [bb2 ev2].
    - eapply sub_box2_ordered; [|exact S0]. apply (Hl s0). now left.
    - intros p. cbn [min_is_blend min_apply]. change (omin ROps) with Rmin.
      pose proof (evaluate_plain_in (map (fun x : RObj2 => (box2_minmax (bb2 x) p, ev2 x p)) l)) as Hin.
      rewrite map_map in Hin. cbn [snd] in Hin. specialize (Hin ltac:(unfold l; discriminate)).
      apply in_map_iff in Hin. destruct Hin as (x & E & Hx). rewrite <- E.
      apply member2; [apply Hl, Hx | apply S, Hx].
  Qed.
End Comb.
