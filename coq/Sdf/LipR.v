(* C03, Lipschitz part: every primitive and every listed combinator of Sdf/Shape.v is
   1-Lipschitz for the Euclidean distance (ROps instance), assembled by induction over the
   expression trees into C03_lipschitz2 / C03_lipschitz3. *)
From Coq Require Import Nsatz.
From Coq Require Import Reals Lra Lia List Bool ZArith Psatz.
From Sdfx Require Import Num.Ops Num.RInst Geo.Vec Geo.Box Geo.BoxR Geo.NormR Geo.MinMaxR Geo.Mat
  Sdf.Union2 Sdf.Union2R Sdf.Shape Sdf.ShapeR.
Import ListNotations.
Open Scope R_scope.

Definition lip1_2 (f : RV2 -> R) : Prop := forall p q, Rabs (f p - f q) <= dist2 p q.
Definition lip1_3 (f : RV3 -> R) : Prop := forall p q, Rabs (f p - f q) <= dist3 p q.

(* ------------------------------------------------------------------ real-number helpers *)
Lemma Rabs_le_iff a b : Rabs a <= b <-> - b <= a <= b.
Proof.
  split; [|apply Rabs_le]. unfold Rabs; destruct (Rcase_abs a); intros; lra.
Qed.

Lemma Rabs_abs_lip a b : Rabs (Rabs a - Rabs b) <= Rabs (a - b).
Proof. apply Rabs_triang_inv2. Qed.

Lemma Rmax_lip a b a' b' : Rabs (Rmax a b - Rmax a' b') <= Rmax (Rabs (a - a')) (Rabs (b - b')).
Proof.
  set (m := Rmax (Rabs (a - a')) (Rabs (b - b'))).
  assert (Ha : Rabs (a - a') <= m) by apply Rmax_l. assert (Hb : Rabs (b - b') <= m) by apply Rmax_r.
  apply Rabs_le_iff in Ha. apply Rabs_le_iff in Hb. apply Rabs_le.
  unfold Rmax; destruct (Rle_dec a b), (Rle_dec a' b'); lra.
Qed.
Lemma Rmin_lip a b a' b' : Rabs (Rmin a b - Rmin a' b') <= Rmax (Rabs (a - a')) (Rabs (b - b')).
Proof.
  set (m := Rmax (Rabs (a - a')) (Rabs (b - b'))).
  assert (Ha : Rabs (a - a') <= m) by apply Rmax_l. assert (Hb : Rabs (b - b') <= m) by apply Rmax_r.
  apply Rabs_le_iff in Ha. apply Rabs_le_iff in Hb. apply Rabs_le.
  unfold Rmin; destruct (Rle_dec a b), (Rle_dec a' b'); lra.
Qed.

Lemma sq_le_of_abs a b : Rabs a <= Rabs b -> a * a <= b * b.
Proof.
  intros H. pose proof (Rabs_pos a).
  assert (a * a = Rabs a * Rabs a) by (rewrite <- Rabs_mult; rewrite Rabs_pos_eq; nra).
  assert (b * b = Rabs b * Rabs b) by (rewrite <- Rabs_mult; rewrite Rabs_pos_eq; nra). nra.
Qed.
Lemma Rmax_le_both a b c : a <= c -> b <= c -> Rmax a b <= c.
Proof. intros; apply Rmax_lub; assumption. Qed.

(* the norm is monotone in the absolute values of the components *)
Lemma len2_mono a b c d : Rabs a <= Rabs c -> Rabs b <= Rabs d -> len2 (mkV2 a b) <= len2 (mkV2 c d).
Proof.
  intros H1 H2. apply len2_le; [apply len2_nonneg|]. rewrite len2_sq. cbn [vx vy].
  pose proof (Rabs_pos a). pose proof (Rabs_pos b).
  assert (a * a = Rabs a * Rabs a) by (rewrite <- Rabs_mult; rewrite Rabs_pos_eq; nra).
  assert (b * b = Rabs b * Rabs b) by (rewrite <- Rabs_mult; rewrite Rabs_pos_eq; nra).
  assert (c * c = Rabs c * Rabs c) by (rewrite <- Rabs_mult; rewrite Rabs_pos_eq; nra).
  assert (d * d = Rabs d * Rabs d) by (rewrite <- Rabs_mult; rewrite Rabs_pos_eq; nra).
  nra.
Qed.
Lemma len3_mono a b c a' b' c' : Rabs a <= Rabs a' -> Rabs b <= Rabs b' -> Rabs c <= Rabs c' ->
  len3 (mkV3 a b c) <= len3 (mkV3 a' b' c').
Proof.
  intros H1 H2 H3. apply len3_le; [apply len3_nonneg|]. rewrite len3_sq. cbn [wx wy wz].
  pose proof (Rabs_pos a). pose proof (Rabs_pos b). pose proof (Rabs_pos c).
  assert (a * a = Rabs a * Rabs a) by (rewrite <- Rabs_mult; rewrite Rabs_pos_eq; nra).
  assert (b * b = Rabs b * Rabs b) by (rewrite <- Rabs_mult; rewrite Rabs_pos_eq; nra).
  assert (c * c = Rabs c * Rabs c) by (rewrite <- Rabs_mult; rewrite Rabs_pos_eq; nra).
  assert (a' * a' = Rabs a' * Rabs a') by (rewrite <- Rabs_mult; rewrite Rabs_pos_eq; nra).
  assert (b' * b' = Rabs b' * Rabs b') by (rewrite <- Rabs_mult; rewrite Rabs_pos_eq; nra).
  assert (c' * c' = Rabs c' * Rabs c') by (rewrite <- Rabs_mult; rewrite Rabs_pos_eq; nra).
  nra.
Qed.

Lemma Rmax_abs_le_len2 a b : Rmax (Rabs a) (Rabs b) <= len2 (mkV2 a b).
Proof. apply Rmax_lub; [apply (abs_le_len2_x (mkV2 a b)) | apply (abs_le_len2_y (mkV2 a b))]. Qed.

Lemma dist2_x p q : Rabs (vx p - vx q) <= dist2 p q.
Proof. apply (abs_le_len2_x (sub2 p q)). Qed.
Lemma dist2_y p q : Rabs (vy p - vy q) <= dist2 p q.
Proof. apply (abs_le_len2_y (sub2 p q)). Qed.
Lemma dist3_x p q : Rabs (wx p - wx q) <= dist3 p q.
Proof. apply (abs_le_len3_x (sub3 p q)). Qed.
Lemma dist3_y p q : Rabs (wy p - wy q) <= dist3 p q.
Proof. apply (abs_le_len3_y (sub3 p q)). Qed.
Lemma dist3_z p q : Rabs (wz p - wz q) <= dist3 p q.
Proof. apply (abs_le_len3_z (sub3 p q)). Qed.
Lemma dist2_nonneg p q : 0 <= dist2 p q.
Proof. apply len2_nonneg. Qed.
Lemma dist3_nonneg p q : 0 <= dist3 p q.
Proof. apply len3_nonneg. Qed.

(* a map that is 1-Lipschitz in every component for the matching coordinate *)
Lemma dist2_comp_le a b a' b' p q :
  Rabs (a - a') <= Rabs (vx p - vx q) -> Rabs (b - b') <= Rabs (vy p - vy q) ->
  dist2 (mkV2 a b) (mkV2 a' b') <= dist2 p q.
Proof. intros. unfold dist2, sub2. cbn [vx vy]. apply len2_mono; assumption. Qed.
Lemma dist3_comp_le a b c a' b' c' p q :
  Rabs (a - a') <= Rabs (wx p - wx q) -> Rabs (b - b') <= Rabs (wy p - wy q) ->
  Rabs (c - c') <= Rabs (wz p - wz q) ->
  dist3 (mkV3 a b c) (mkV3 a' b' c') <= dist3 p q.
Proof. intros. unfold dist3, sub3. cbn [wx wy wz]. apply len3_mono; assumption. Qed.

(* ------------------------------------------------------------------ closure under the pointwise operations *)
Section Closure.
  Context {P : Type} (d : P -> P -> R).
  Definition lipd (f : P -> R) : Prop := forall p q, Rabs (f p - f q) <= d p q.

  Lemma lipd_const c : (forall p q, 0 <= d p q) -> lipd (fun _ => c).
  Proof. intros H p q. replace (c - c) with 0 by ring. rewrite Rabs_R0. apply H. Qed.
  Lemma lipd_sub f c : lipd f -> lipd (fun p => f p - c).
  Proof. intros H p q. replace (f p - c - (f q - c)) with (f p - f q) by ring. apply H. Qed.
  Lemma lipd_neg f : lipd f -> lipd (fun p => - f p).
  Proof. intros H p q. replace (- f p - - f q) with (- (f p - f q)) by ring. rewrite Rabs_Ropp. apply H. Qed.
  Lemma lipd_abs f : lipd f -> lipd (fun p => Rabs (f p)).
  Proof. intros H p q. eapply Rle_trans; [apply Rabs_abs_lip | apply H]. Qed.
  Lemma lipd_max f g : lipd f -> lipd g -> lipd (fun p => Rmax (f p) (g p)).
  Proof. intros Hf Hg p q. eapply Rle_trans; [apply Rmax_lip|]. apply Rmax_lub; [apply Hf | apply Hg]. Qed.
  Lemma lipd_min f g : lipd f -> lipd g -> lipd (fun p => Rmin (f p) (g p)).
  Proof. intros Hf Hg p q. eapply Rle_trans; [apply Rmin_lip|]. apply Rmax_lub; [apply Hf | apply Hg]. Qed.
  (* any binary operation that is 1-Lipschitz for the max-norm of its arguments *)
  Lemma lipd_binop (op : R -> R -> R) f g :
    (forall a b a' b', Rabs (op a b - op a' b') <= Rmax (Rabs (a - a')) (Rabs (b - b'))) ->
    lipd f -> lipd g -> lipd (fun p => op (f p) (g p)).
  Proof. intros Hop Hf Hg p q. eapply Rle_trans; [apply Hop|]. apply Rmax_lub; [apply Hf | apply Hg]. Qed.
  Lemma lipd_ext f g : (forall p, f p = g p) -> lipd f -> lipd g.
  Proof. intros E H p q. rewrite <- !E. apply H. Qed.
End Closure.

Lemma lip1_2_is_lipd f : lip1_2 f <-> lipd dist2 f.
Proof. reflexivity. Qed.
Lemma lip1_3_is_lipd f : lip1_3 f <-> lipd dist3 f.
Proof. reflexivity. Qed.

(* ------------------------------------------------------------------ the polynomial blend *)
(* poly a b k is a, b or b - (k + b - a)^2 / (4k), by the clamp branch *)
Lemma poly_cases a b k : 0 < k ->
  (b - a <= - k /\ @poly ROps a b k = b) \/
  (k <= b - a /\ @poly ROps a b k = a) \/
  (- k <= b - a <= k /\ 4 * k * (b - @poly ROps a b k) = (k + b - a) * (k + b - a)).
Proof.
  intros Hk. unfold poly, clamp, mix, half, two. cbn.
  set (h := 1 / (1 + 1) + 1 / (1 + 1) * (b - a) / k).
  assert (Hh : 2 * k * h = k + (b - a)) by (unfold h; field; lra).
  rcmp.
  - left. split; [nra|ring].
  - right; left. split; [nra|ring].
  - right; right. split; [nra|]. nra.
Qed.

Lemma poly_shift a b c k : @poly ROps (a + c) (b + c) k = @poly ROps a b k + c.
Proof.
  unfold poly, clamp, mix, half, two. cbn.
  replace (b + c - (a + c)) with (b - a) by ring.
  set (h := 1 / (1 + 1) + 1 / (1 + 1) * (b - a) / k). rcmp; ring.
Qed.

Lemma poly_mono_a a a' b k : 0 < k -> a <= a' -> @poly ROps a b k <= @poly ROps a' b k.
Proof.
  intros Hk Ha.
  destruct (poly_cases a b k Hk) as [[C E]|[[C E]|[C E]]];
  destruct (poly_cases a' b k Hk) as [[C' E']|[[C' E']|[C' E']]]; try (rewrite ?E, ?E'; nra); try nra.
Qed.
Lemma poly_mono_b a b b' k : 0 < k -> b <= b' -> @poly ROps a b k <= @poly ROps a b' k.
Proof.
  intros Hk Hb.
  destruct (poly_cases a b k Hk) as [[C E]|[[C E]|[C E]]];
  destruct (poly_cases a b' k Hk) as [[C' E']|[[C' E']|[C' E']]]; try (rewrite ?E, ?E'; nra); try nra.
Qed.

(* lip1_polymin: the blend is 1-Lipschitz for the max-norm of its two arguments *)
Lemma poly_lip a b a' b' k : 0 < k ->
  Rabs (@poly ROps a b k - @poly ROps a' b' k) <= Rmax (Rabs (a - a')) (Rabs (b - b')).
Proof.
  intros Hk. set (dl := Rmax (Rabs (a - a')) (Rabs (b - b'))).
  assert (Ha : Rabs (a - a') <= dl) by apply Rmax_l.
  assert (Hb : Rabs (b - b') <= dl) by apply Rmax_r.
  apply Rabs_le_iff in Ha. apply Rabs_le_iff in Hb.
  apply Rabs_le. split.
  - (* poly a b >= poly a' b' - dl *)
    assert (H1 : @poly ROps (a' + - dl) (b' + - dl) k <= @poly ROps a b k).
    { eapply Rle_trans; [apply (poly_mono_a _ a) | apply poly_mono_b]; lra. }
    rewrite poly_shift in H1. lra.
  - assert (H1 : @poly ROps a b k <= @poly ROps (a' + dl) (b' + dl) k).
    { eapply Rle_trans; [apply (poly_mono_a _ (a' + dl)) | apply poly_mono_b]; lra. }
    rewrite poly_shift in H1. lra.
Qed.

(* which blends are in the class *)
Definition minK_ok (m : MinK ROps) : Prop :=
  match m with MinDef => True | MinPoly k => 0 < k | _ => False end.
Definition maxK_ok (m : MaxK ROps) : Prop :=
  match m with MaxDef => True | MaxPoly k => 0 < k end.

Lemma min_apply_lip m a b a' b' : minK_ok m ->
  Rabs (min_apply m a b - min_apply m a' b') <= Rmax (Rabs (a - a')) (Rabs (b - b')).
Proof.
  destruct m as [|k|k|k]; cbn; intros H; try contradiction.
  - apply Rmin_lip.
  - apply poly_lip; exact H.
Qed.
Lemma max_apply_lip m a b a' b' : maxK_ok m ->
  Rabs (max_apply m a b - max_apply m a' b') <= Rmax (Rabs (a - a')) (Rabs (b - b')).
Proof.
  destruct m as [|k]; cbn [max_apply maxK_ok]; intros H.
  - apply Rmax_lip.
  - change (oneg ROps) with Ropp. pose proof (poly_lip (- a) (- b) (- a') (- b') k H) as L.
    replace (- a - - a') with (- (a - a')) in L by ring. replace (- b - - b') with (- (b - b')) in L by ring.
    rewrite !Rabs_Ropp in L.
    replace (- @poly ROps (- a) (- b) k - - @poly ROps (- a') (- b') k)
      with (- (@poly ROps (- a) (- b) k - @poly ROps (- a') (- b') k)) by ring.
    rewrite Rabs_Ropp. exact L.
Qed.

(* ------------------------------------------------------------------ signed distance to the negative quadrant / octant *)
(* sdf_box2d, sdf_box3d and rounded_combine are this function of d = |p| - s:
   inside (all components <= 0) the largest component, outside the norm of the positive parts.
   It is the supremum of the linear forms m . d over unit vectors m >= 0, and the supremum is
   attained: that gives the Lipschitz bound here and the nearest point / normal in ExactR.v *)
Definition relu (x : R) : R := Rmax x 0.
Definition orth2 (a b : R) : R :=
  if Rle_dec (Rmax a b) 0 then Rmax a b else len2 (mkV2 (relu a) (relu b)).
Definition orth3 (a b c : R) : R :=
  if Rle_dec (Rmax (Rmax a b) c) 0 then Rmax (Rmax a b) c else len3 (mkV3 (relu a) (relu b) (relu c)).

Lemma relu_nonneg x : 0 <= relu x.
Proof. apply Rmax_r. Qed.
Lemma relu_ge x : x <= relu x.
Proof. apply Rmax_l. Qed.
Lemma relu_pos x : 0 <= x -> relu x = x.
Proof. intros; unfold relu, Rmax; destruct (Rle_dec x 0); lra. Qed.
Lemma relu_neg x : x <= 0 -> relu x = 0.
Proof. intros; unfold relu, Rmax; destruct (Rle_dec x 0); lra. Qed.
Lemma relu_sq x : relu x * x = relu x * relu x.
Proof. unfold relu, Rmax; destruct (Rle_dec x 0); lra. Qed.

Lemma len2_x0 x : 0 <= x -> len2 (mkV2 x 0) = x.
Proof. intros. unfold len2; cbn [vx vy]. replace (x * x + 0 * 0) with (x * x) by ring. apply sqrt_square; lra. Qed.
Lemma len2_0y y : 0 <= y -> len2 (mkV2 0 y) = y.
Proof. intros. unfold len2; cbn [vx vy]. replace (0 * 0 + y * y) with (y * y) by ring. apply sqrt_square; lra. Qed.
Lemma len2_unit a b : a * a + b * b = 1 -> len2 (mkV2 a b) = 1.
Proof. intros H. unfold len2; cbn [vx vy]. rewrite H. apply sqrt_1. Qed.
Lemma len3_unit a b c : a * a + b * b + c * c = 1 -> len3 (mkV3 a b c) = 1.
Proof. intros H. unfold len3; cbn [wx wy wz]. rewrite H. apply sqrt_1. Qed.
Lemma len2_pos_iff p : 0 < len2 p <-> 0 < vx p * vx p + vy p * vy p.
Proof.
  pose proof (len2_sq p). pose proof (len2_nonneg p). split; intros; [nra|].
  destruct (Req_dec (len2 p) 0) as [E|E]; [rewrite E in *; lra | lra].
Qed.
Lemma len3_pos_iff p : 0 < len3 p <-> 0 < wx p * wx p + wy p * wy p + wz p * wz p.
Proof.
  pose proof (len3_sq p). pose proof (len3_nonneg p). split; intros; [nra|].
  destruct (Req_dec (len3 p) 0) as [E|E]; [rewrite E in *; lra | lra].
Qed.

Lemma orth2_support m1 m2 a b : 0 <= m1 -> 0 <= m2 -> m1 * m1 + m2 * m2 = 1 ->
  m1 * a + m2 * b <= orth2 a b.
Proof.
  intros H1 H2 Hu. unfold orth2. destruct (Rle_dec (Rmax a b) 0) as [Hm|Hm].
  - pose proof (Rmax_l a b). pose proof (Rmax_r a b). set (M := Rmax a b) in *.
    assert (1 <= m1 + m2) by nra. nra.
  - pose proof (dot_le_len2 (mkV2 m1 m2) (mkV2 (relu a) (relu b))) as D. cbn [vx vy] in D.
    rewrite (len2_unit m1 m2 Hu) in D.
    pose proof (relu_ge a). pose proof (relu_ge b). nra.
Qed.
Lemma orth2_attained a b : exists m1 m2, 0 <= m1 /\ 0 <= m2 /\ m1 * m1 + m2 * m2 = 1 /\
  m1 * a + m2 * b = orth2 a b.
Proof.
  unfold orth2. destruct (Rle_dec (Rmax a b) 0) as [Hm|Hm].
  - destruct (Rmax_case_eq a b) as [[E _]|[E _]]; rewrite E.
    + exists 1, 0. repeat split; lra.
    + exists 0, 1. repeat split; lra.
  - set (L := len2 (mkV2 (relu a) (relu b))).
    assert (HL : 0 < L).
    { apply len2_pos_iff. cbn [vx vy]. pose proof (relu_nonneg a). pose proof (relu_nonneg b).
      destruct (Rmax_case_eq a b) as [[E _]|[E _]]; rewrite E in Hm.
      - rewrite (relu_pos a) by lra. nra.
      - rewrite (relu_pos b) by lra. nra. }
    pose proof (len2_sq (mkV2 (relu a) (relu b))) as S. cbn [vx vy] in S. fold L in S.
    exists (relu a / L), (relu b / L).
    pose proof (relu_nonneg a). pose proof (relu_nonneg b).
    split; [apply Rmult_le_pos; [lra | apply Rlt_le, Rinv_0_lt_compat; lra]|].
    split; [apply Rmult_le_pos; [lra | apply Rlt_le, Rinv_0_lt_compat; lra]|].
    split.
    + replace (relu a / L * (relu a / L) + relu b / L * (relu b / L))
        with ((relu a * relu a + relu b * relu b) / (L * L)) by (field; lra).
      rewrite <- S. field; lra.
    + replace (relu a / L * a + relu b / L * b) with ((relu a * a + relu b * b) / L) by (field; lra).
      rewrite !relu_sq, <- S. field; lra.
Qed.

Lemma orth2_lip a b a' b' : Rabs (orth2 a b - orth2 a' b') <= len2 (mkV2 (a - a') (b - b')).
Proof.
  assert (Hh : forall a b a' b', orth2 a b - orth2 a' b' <= len2 (mkV2 (a - a') (b - b'))).
  { clear. intros a b a' b'. destruct (orth2_attained a b) as (m1 & m2 & H1 & H2 & Hu & E).
    pose proof (orth2_support m1 m2 a' b' H1 H2 Hu) as S.
    pose proof (dot_le_len2 (mkV2 m1 m2) (mkV2 (a - a') (b - b'))) as D. cbn [vx vy] in D.
    rewrite (len2_unit m1 m2 Hu) in D. nra. }
  apply Rabs_le. split.
  - pose proof (Hh a' b' a b) as H.
    replace (len2 (mkV2 (a' - a) (b' - b))) with (len2 (mkV2 (a - a') (b - b'))) in H
      by (unfold len2; cbn [vx vy]; f_equal; ring). lra.
  - apply Hh.
Qed.

Lemma orth3_support m1 m2 m3 a b c : 0 <= m1 -> 0 <= m2 -> 0 <= m3 -> m1 * m1 + m2 * m2 + m3 * m3 = 1 ->
  m1 * a + m2 * b + m3 * c <= orth3 a b c.
Proof.
  intros H1 H2 H3 Hu. unfold orth3. destruct (Rle_dec (Rmax (Rmax a b) c) 0) as [Hm|Hm].
  - pose proof (Rmax_l a b). pose proof (Rmax_r a b). pose proof (Rmax_l (Rmax a b) c). pose proof (Rmax_r (Rmax a b) c).
    set (M := Rmax (Rmax a b) c) in *.
    assert (1 <= m1 + m2 + m3) by nra.
    assert (m1 * a <= m1 * M) by nra. assert (m2 * b <= m2 * M) by nra. assert (m3 * c <= m3 * M) by nra. nra.
  - pose proof (dot_le_len3 (mkV3 m1 m2 m3) (mkV3 (relu a) (relu b) (relu c))) as D. cbn [wx wy wz] in D.
    rewrite (len3_unit m1 m2 m3 Hu) in D.
    pose proof (relu_ge a). pose proof (relu_ge b). pose proof (relu_ge c).
    assert (m1 * a <= m1 * relu a) by nra. assert (m2 * b <= m2 * relu b) by nra. assert (m3 * c <= m3 * relu c) by nra. lra.
Qed.
Lemma orth3_attained a b c : exists m1 m2 m3, 0 <= m1 /\ 0 <= m2 /\ 0 <= m3 /\ m1 * m1 + m2 * m2 + m3 * m3 = 1 /\
  m1 * a + m2 * b + m3 * c = orth3 a b c.
Proof.
  unfold orth3. destruct (Rle_dec (Rmax (Rmax a b) c) 0) as [Hm|Hm].
  - destruct (Rmax_case_eq (Rmax a b) c) as [[E _]|[E _]]; rewrite E.
    + destruct (Rmax_case_eq a b) as [[E' _]|[E' _]]; rewrite E'.
      * exists 1, 0, 0. repeat split; lra.
      * exists 0, 1, 0. repeat split; lra.
    + exists 0, 0, 1. repeat split; lra.
  - set (L := len3 (mkV3 (relu a) (relu b) (relu c))).
    pose proof (relu_nonneg a). pose proof (relu_nonneg b). pose proof (relu_nonneg c).
    assert (HL : 0 < L).
    { apply len3_pos_iff. cbn [wx wy wz].
      destruct (Rmax_case_eq (Rmax a b) c) as [[E _]|[E _]]; rewrite E in Hm.
      - destruct (Rmax_case_eq a b) as [[E' _]|[E' _]]; rewrite E' in Hm.
        + rewrite (relu_pos a) by lra. nra.
        + rewrite (relu_pos b) by lra. nra.
      - rewrite (relu_pos c) by lra. nra. }
    pose proof (len3_sq (mkV3 (relu a) (relu b) (relu c))) as S. cbn [wx wy wz] in S. fold L in S.
    exists (relu a / L), (relu b / L), (relu c / L).
    split; [apply Rmult_le_pos; [lra | apply Rlt_le, Rinv_0_lt_compat; lra]|].
    split; [apply Rmult_le_pos; [lra | apply Rlt_le, Rinv_0_lt_compat; lra]|].
    split; [apply Rmult_le_pos; [lra | apply Rlt_le, Rinv_0_lt_compat; lra]|].
    split.
    + replace (relu a / L * (relu a / L) + relu b / L * (relu b / L) + relu c / L * (relu c / L))
        with ((relu a * relu a + relu b * relu b + relu c * relu c) / (L * L)) by (field; lra).
      rewrite <- S. field; lra.
    + replace (relu a / L * a + relu b / L * b + relu c / L * c)
        with ((relu a * a + relu b * b + relu c * c) / L) by (field; lra).
      rewrite !relu_sq, <- S. field; lra.
Qed.

Lemma orth3_lip a b c a' b' c' :
  Rabs (orth3 a b c - orth3 a' b' c') <= len3 (mkV3 (a - a') (b - b') (c - c')).
Proof.
  assert (Hh : forall a b c a' b' c', orth3 a b c - orth3 a' b' c' <= len3 (mkV3 (a - a') (b - b') (c - c'))).
  { clear. intros a b c a' b' c'. destruct (orth3_attained a b c) as (m1 & m2 & m3 & H1 & H2 & H3 & Hu & E).
    pose proof (orth3_support m1 m2 m3 a' b' c' H1 H2 H3 Hu) as S.
    pose proof (dot_le_len3 (mkV3 m1 m2 m3) (mkV3 (a - a') (b - b') (c - c'))) as D. cbn [wx wy wz] in D.
    rewrite (len3_unit m1 m2 m3 Hu) in D. nra. }
  apply Rabs_le. split.
  - pose proof (Hh a' b' c' a b c) as H.
    replace (len3 (mkV3 (a' - a) (b' - b) (c' - c))) with (len3 (mkV3 (a - a') (b - b') (c - c'))) in H
      by (unfold len3; cbn [wx wy wz]; f_equal; ring). lra.
  - apply Hh.
Qed.

(* ---- the Go functions are this function *)
Lemma sdf_box2d_orth p s :
  @sdf_box2d ROps p s = orth2 (Rabs (vx p) - vx s) (Rabs (vy p) - vy s).
Proof.
  unfold sdf_box2d, orth2, v2abs, v2sub, v2len, v2len2, v2dot. cbn.
  set (dx := Rabs (vx p) - vx s). set (dy := Rabs (vy p) - vy s).
  replace (Rabs (vy p) - Rabs (vx p)) with (dy - dx + (vy s - vx s)) by (unfold dx, dy; ring).
  destruct (Rltb 0 dx) eqn:C1; [apply Rltb_true in C1 | apply Rltb_false in C1];
  (destruct (Rltb 0 dy) eqn:C2; [apply Rltb_true in C2 | apply Rltb_false in C2]); cbn [andb].
  - destruct (Rle_dec (Rmax dx dy) 0) as [Hm|Hm].
    + pose proof (Rmax_l dx dy). lra.
    + rewrite (relu_pos dx), (relu_pos dy) by lra. reflexivity.
  - destruct (Rltb _ _) eqn:C3; [apply Rltb_true in C3 | apply Rltb_false in C3]; [lra|].
    destruct (Rle_dec (Rmax dx dy) 0) as [Hm|Hm]; [pose proof (Rmax_l dx dy); lra|].
    rewrite (relu_pos dx), (relu_neg dy) by lra. rewrite len2_x0; lra.
  - destruct (Rltb _ _) eqn:C3; [apply Rltb_true in C3 | apply Rltb_false in C3]; [|lra].
    destruct (Rle_dec (Rmax dx dy) 0) as [Hm|Hm]; [pose proof (Rmax_r dx dy); lra|].
    rewrite (relu_neg dx), (relu_pos dy) by lra. rewrite len2_0y; lra.
  - destruct (Rle_dec (Rmax dx dy) 0) as [Hm|Hm].
    + destruct (Rltb _ _) eqn:C3; [apply Rltb_true in C3 | apply Rltb_false in C3];
      unfold Rmax; destruct (Rle_dec dx dy); lra.
    + exfalso. apply Hm. apply Rmax_lub; lra.
Qed.

Lemma rounded_combine_orth a b r : @rounded_combine ROps a b r = orth2 a b - r.
Proof.
  unfold rounded_combine, orth2. cbn. f_equal.
  destruct (Rltb 0 b) eqn:C1; [apply Rltb_true in C1 | apply Rltb_false in C1];
  (destruct (Rltb a 0) eqn:C2; [apply Rltb_true in C2 | apply Rltb_false in C2]).
  - destruct (Rle_dec (Rmax a b) 0) as [Hm|Hm]; [pose proof (Rmax_r a b); lra|].
    rewrite (relu_neg a), (relu_pos b) by lra. rewrite len2_0y; lra.
  - destruct (Rle_dec (Rmax a b) 0) as [Hm|Hm]; [pose proof (Rmax_r a b); lra|].
    rewrite (relu_pos a), (relu_pos b) by lra. reflexivity.
  - destruct (Rle_dec (Rmax a b) 0) as [Hm|Hm]; [reflexivity|].
    exfalso. apply Hm. apply Rmax_lub; lra.
  - destruct (Rle_dec (Rmax a b) 0) as [Hm|Hm].
    + pose proof (Rmax_l a b). assert (a = 0) by lra. subst a. unfold Rmax; destruct (Rle_dec 0 b); lra.
    + assert (0 < a). { destruct (Rle_dec a 0); [|lra]. exfalso; apply Hm; apply Rmax_lub; lra. }
      rewrite (relu_pos a), (relu_neg b) by lra. rewrite len2_x0; lra.
Qed.

Lemma len3_xy0 x y : len3 (mkV3 x y 0) = len2 (mkV2 x y).
Proof. unfold len3, len2; cbn [wx wy wz vx vy]. f_equal. ring. Qed.
Lemma len3_x0z x z : len3 (mkV3 x 0 z) = len2 (mkV2 x z).
Proof. unfold len3, len2; cbn [wx wy wz vx vy]. f_equal. ring. Qed.
Lemma len3_0yz y z : len3 (mkV3 0 y z) = len2 (mkV2 y z).
Proof. unfold len3, len2; cbn [wx wy wz vx vy]. f_equal. ring. Qed.

Lemma Rmax3_le0 a b c : Rmax (Rmax a b) c <= 0 <-> a <= 0 /\ b <= 0 /\ c <= 0.
Proof.
  pose proof (Rmax_l a b). pose proof (Rmax_r a b). pose proof (Rmax_l (Rmax a b) c). pose proof (Rmax_r (Rmax a b) c).
  split; [intros; lra|]. intros (?&?&?). apply Rmax_lub; [apply Rmax_lub|]; lra.
Qed.

Lemma sdf_box3d_orth p s :
  @sdf_box3d ROps p s = orth3 (Rabs (wx p) - wx s) (Rabs (wy p) - wy s) (Rabs (wz p) - wz s).
Proof.
  unfold sdf_box3d, orth3, v3abs, v3sub, v3len, v3len2, v3dot, v2len, v2len2, v2dot, v3maxcomp. cbn.
  set (dx := Rabs (wx p) - wx s). set (dy := Rabs (wy p) - wy s). set (dz := Rabs (wz p) - wz s).
  destruct (Rle_dec (Rmax (Rmax dx dy) dz) 0) as [Hm|Hm].
  - apply Rmax3_le0 in Hm. destruct Hm as (Hx & Hy & Hz).
    destruct (Rltb 0 dx) eqn:C1; [apply Rltb_true in C1; lra | clear C1].
    destruct (Rltb 0 dy) eqn:C2; [apply Rltb_true in C2; lra | clear C2].
    destruct (Rltb 0 dz) eqn:C3; [apply Rltb_true in C3; lra | clear C3].
    reflexivity.
  - rewrite Rmax3_le0 in Hm.
    destruct (Rltb 0 dx) eqn:C1; [apply Rltb_true in C1 | apply Rltb_false in C1];
    (destruct (Rltb 0 dy) eqn:C2; [apply Rltb_true in C2 | apply Rltb_false in C2]);
    (destruct (Rltb 0 dz) eqn:C3; [apply Rltb_true in C3 | apply Rltb_false in C3]); cbn [andb];
    try (exfalso; apply Hm; lra);
    rewrite ?(relu_pos dx), ?(relu_pos dy), ?(relu_pos dz), ?(relu_neg dx), ?(relu_neg dy), ?(relu_neg dz) by lra;
    rewrite ?len3_xy0, ?len3_x0z, ?len3_0yz, ?len2_x0, ?len2_0y by lra; try reflexivity.
Qed.

(* ------------------------------------------------------------------ primitives *)
Ltac someinv H := injection H as <-; cbn [ev2 ev3].

Lemma lip1_circle r o : k_circle r = Some o -> lip1_2 (ev2 o).
Proof.
  unfold k_circle. destruct (oltb ROps r (o0 ROps)); [discriminate|]. intros H; someinv H.
  apply (lipd_sub dist2). intros p q. apply len2_lip.
Qed.
Lemma lip1_sphere r o : k_sphere r = Some o -> lip1_3 (ev3 o).
Proof.
  unfold k_sphere. destruct (oleb ROps r (o0 ROps)); [discriminate|]. intros H; someinv H.
  apply (lipd_sub dist3). intros p q. apply len3_lip.
Qed.

Lemma lip1_sdf_box2d s : lip1_2 (fun p => @sdf_box2d ROps p s).
Proof.
  intros p q. rewrite !sdf_box2d_orth. eapply Rle_trans; [apply orth2_lip|].
  unfold dist2, sub2. apply len2_mono.
  - replace (Rabs (vx p) - vx s - (Rabs (vx q) - vx s)) with (Rabs (vx p) - Rabs (vx q)) by ring. apply Rabs_abs_lip.
  - replace (Rabs (vy p) - vy s - (Rabs (vy q) - vy s)) with (Rabs (vy p) - Rabs (vy q)) by ring. apply Rabs_abs_lip.
Qed.
Lemma lip1_sdf_box3d s : lip1_3 (fun p => @sdf_box3d ROps p s).
Proof.
  intros p q. rewrite !sdf_box3d_orth. eapply Rle_trans; [apply orth3_lip|].
  unfold dist3, sub3. apply len3_mono.
  - replace (Rabs (wx p) - wx s - (Rabs (wx q) - wx s)) with (Rabs (wx p) - Rabs (wx q)) by ring. apply Rabs_abs_lip.
  - replace (Rabs (wy p) - wy s - (Rabs (wy q) - wy s)) with (Rabs (wy p) - Rabs (wy q)) by ring. apply Rabs_abs_lip.
  - replace (Rabs (wz p) - wz s - (Rabs (wz q) - wz s)) with (Rabs (wz p) - Rabs (wz q)) by ring. apply Rabs_abs_lip.
Qed.

Lemma lip1_box2 size round o : k_box2 size round = Some o -> lip1_2 (ev2 o).
Proof. unfold k_box2. intros H; someinv H. apply (lipd_sub dist2). apply lip1_sdf_box2d. Qed.
Lemma lip1_box3 size round o : k_box3 size round = Some o -> lip1_3 (ev3 o).
Proof.
  unfold k_box3. destruct (v3_lte_zero size); [discriminate|]. destruct (oltb ROps round _); [discriminate|].
  intros H; someinv H. apply (lipd_sub dist3). apply lip1_sdf_box3d.
Qed.

(* Line2D: distance to the segment [-l/2, l/2] x {0}, minus the rounding *)
Lemma line2_form sl p :
  (let p' := @v2abs ROps p in
   if oleb ROps (vx p') sl then vy p' else @v2len ROps (v2sub p' (mkV2 sl (o0 ROps))))
  = len2 (mkV2 (relu (Rabs (vx p) - sl)) (vy p)).
Proof.
  cbn. change (oleb ROps) with Rleb.
  destruct (Rleb (Rabs (vx p)) sl) eqn:C; [apply Rleb_true in C | apply Rleb_false in C].
  - rewrite relu_neg by lra. unfold len2; cbn [vx vy].
    replace (0 * 0 + vy p * vy p) with (vy p * vy p) by ring.
    rewrite <- (sqrt_square (Rabs (vy p))) by apply Rabs_pos. f_equal.
    rewrite <- Rabs_mult. apply Rabs_pos_eq. nra.
  - rewrite relu_pos by lra. unfold v2len, v2len2, v2dot, len2. cbn. f_equal.
    replace (Rabs (vy p) - 0) with (Rabs (vy p)) by ring.
    assert (Rabs (vy p) * Rabs (vy p) = vy p * vy p) by (rewrite <- Rabs_mult; apply Rabs_pos_eq; nra). lra.
Qed.
Lemma relu_lip a b : Rabs (relu a - relu b) <= Rabs (a - b).
Proof. unfold relu. eapply Rle_trans; [apply Rmax_lip|]. replace (0 - 0) with 0 by ring. rewrite Rabs_R0. apply Rmax_lub; [lra | apply Rabs_pos]. Qed.

Lemma lip1_line2 l round o : k_line2 l round = Some o -> lip1_2 (ev2 o).
Proof.
  unfold k_line2. intros H; someinv H.
  apply (lipd_ext dist2 (fun p => len2 (mkV2 (relu (Rabs (vx p) - l / 2)) (vy p)) - round)).
  - intros p. pose proof (line2_form (l / 2) p) as E. cbn in E. cbn.
    change (oleb ROps) with Rleb in *. unfold two. cbn. 
    replace (l / (1 + 1)) with (l / 2) by (f_equal; ring).
    destruct (Rleb (Rabs (vx p)) (l / 2)); rewrite <- E; reflexivity.
  - apply (lipd_sub dist2). intros p q.
    eapply Rle_trans; [apply len2_lip|]. apply dist2_comp_le.
    + eapply Rle_trans; [apply relu_lip|].
      replace (Rabs (vx p) - l / 2 - (Rabs (vx q) - l / 2)) with (Rabs (vx p) - Rabs (vx q)) by ring. apply Rabs_abs_lip.
    + lra.
Qed.

(* ------------------------------------------------------------------ pre-composition with non-expanding maps *)
Definition nonexp22 (g : RV2 -> RV2) : Prop := forall p q, dist2 (g p) (g q) <= dist2 p q.
Definition nonexp33 (g : RV3 -> RV3) : Prop := forall p q, dist3 (g p) (g q) <= dist3 p q.
Definition nonexp32 (g : RV3 -> RV2) : Prop := forall p q, dist2 (g p) (g q) <= dist3 p q.
Definition iso22 (g : RV2 -> RV2) : Prop := forall p q, dist2 (g p) (g q) = dist2 p q.
Definition iso33 (g : RV3 -> RV3) : Prop := forall p q, dist3 (g p) (g q) = dist3 p q.

Lemma lip1_comp22 f g : lip1_2 f -> nonexp22 g -> lip1_2 (fun p => f (g p)).
Proof. intros Hf Hg p q. eapply Rle_trans; [apply Hf | apply Hg]. Qed.
Lemma lip1_comp33 f g : lip1_3 f -> nonexp33 g -> lip1_3 (fun p => f (g p)).
Proof. intros Hf Hg p q. eapply Rle_trans; [apply Hf | apply Hg]. Qed.
Lemma lip1_comp32 f g : lip1_2 f -> nonexp32 g -> lip1_3 (fun p => f (g p)).
Proof. intros Hf Hg p q. eapply Rle_trans; [apply Hf | apply Hg]. Qed.
Lemma iso22_nonexp g : iso22 g -> nonexp22 g.
Proof. intros H p q. rewrite H. lra. Qed.
Lemma iso33_nonexp g : iso33 g -> nonexp33 g.
Proof. intros H p q. rewrite H. lra. Qed.
Lemma iso22_right_inverse g h : iso22 g -> (forall p, g (h p) = p) -> iso22 h.
Proof. intros Hg Hi p q. rewrite <- (Hg (h p) (h q)), !Hi. reflexivity. Qed.
Lemma iso33_right_inverse g h : iso33 g -> (forall p, g (h p) = p) -> iso33 h.
Proof. intros Hg Hi p q. rewrite <- (Hg (h p) (h q)), !Hi. reflexivity. Qed.

(* the meridian map (x,y,z) -> (sqrt(x^2+y^2), z) and the projection (x,y,z) -> (x,y) *)
Definition rho (p : RV3) : R := sqrt (wx p * wx p + wy p * wy p).
Definition mer (p : RV3) : RV2 := mkV2 (rho p) (wz p).
Definition pxy (p : RV3) : RV2 := mkV2 (wx p) (wy p).

Lemma rho_lip p q : Rabs (rho p - rho q) <= len2 (mkV2 (wx p - wx q) (wy p - wy q)).
Proof. apply (len2_lip (pxy p) (pxy q)). Qed.
Lemma mer_nonexp : nonexp32 mer.
Proof.
  intros p q. unfold dist2, sub2, mer. cbn [vx vy].
  apply len2_le; [apply dist3_nonneg|]. cbn [vx vy].
  unfold dist3. rewrite len3_sq. cbn [sub3 wx wy wz].
  pose proof (rho_lip p q) as L. pose proof (len2_sq (mkV2 (wx p - wx q) (wy p - wy q))) as S. cbn [vx vy] in S.
  pose proof (len2_nonneg (mkV2 (wx p - wx q) (wy p - wy q))).
  apply Rabs_le_iff in L. nra.
Qed.
Lemma pxy_nonexp : nonexp32 pxy.
Proof.
  intros p q. unfold dist2, sub2, pxy. cbn [vx vy]. apply len2_le; [apply dist3_nonneg|]. cbn [vx vy].
  unfold dist3. rewrite len3_sq. cbn [sub3 wx wy wz]. pose proof (Rle_0_sqr (wz p - wz q)) as Sq. unfold Rsqr in Sq. lra.
Qed.

Lemma lip1_cylinder h r round o : k_cylinder h r round = Some o -> lip1_3 (ev3 o).
Proof.
  unfold k_cylinder. repeat (destruct (_ : bool); [discriminate|]). intros H; someinv H.
  apply (lipd_sub dist3). apply (lip1_comp32 (fun p2 => @sdf_box2d ROps p2 _) mer); [apply lip1_sdf_box2d | apply mer_nonexp].
Qed.

(* ------------------------------------------------------------------ rigid matrices *)
Definition en (m : list R) (i : nat) : R := List.nth i m 0.

(* affine last row, orthonormal columns: stated on the entries *)
Definition aff33 (m : list R) : Prop := en m 6 = 0 /\ en m 7 = 0 /\ en m 8 = 1.
Definition rigid33 (m : list R) : Prop :=
  aff33 m /\
  en m 0 * en m 0 + en m 3 * en m 3 = 1 /\ en m 1 * en m 1 + en m 4 * en m 4 = 1 /\
  en m 0 * en m 1 + en m 3 * en m 4 = 0.
Definition aff44 (m : list R) : Prop := en m 12 = 0 /\ en m 13 = 0 /\ en m 14 = 0 /\ en m 15 = 1.
Definition rigid44 (m : list R) : Prop :=
  aff44 m /\
  en m 0 * en m 0 + en m 4 * en m 4 + en m 8 * en m 8 = 1 /\
  en m 1 * en m 1 + en m 5 * en m 5 + en m 9 * en m 9 = 1 /\
  en m 2 * en m 2 + en m 6 * en m 6 + en m 10 * en m 10 = 1 /\
  en m 0 * en m 1 + en m 4 * en m 5 + en m 8 * en m 9 = 0 /\
  en m 0 * en m 2 + en m 4 * en m 6 + en m 8 * en m 10 = 0 /\
  en m 1 * en m 2 + en m 5 * en m 6 + en m 9 * en m 10 = 0.
Definition isoM33 (m : list R) : Prop := aff33 m /\ iso22 (@m33_mulposition ROps m).
Definition isoM44 (m : list R) : Prop := aff44 m /\ iso33 (@m44_mulposition ROps m).

Lemma rigid33_iso m : rigid33 m -> isoM33 m.
Proof.
  intros (A & H1 & H2 & H3). split; [exact A|]. intros p q.
  unfold dist2, len2, sub2, m33_mulposition. cbn. f_equal. fold (en m 0) (en m 1) (en m 2) (en m 3) (en m 4) (en m 5).
  set (dx := vx p - vx q). set (dy := vy p - vy q).
  replace (en m 0 * vx p + en m 1 * vy p + en m 2 - (en m 0 * vx q + en m 1 * vy q + en m 2)) with (en m 0 * dx + en m 1 * dy) by (unfold dx, dy; ring).
  replace (en m 3 * vx p + en m 4 * vy p + en m 5 - (en m 3 * vx q + en m 4 * vy q + en m 5)) with (en m 3 * dx + en m 4 * dy) by (unfold dx, dy; ring).
  transitivity ((en m 0 * en m 0 + en m 3 * en m 3) * (dx * dx) + (en m 1 * en m 1 + en m 4 * en m 4) * (dy * dy)
                + 2 * (en m 0 * en m 1 + en m 3 * en m 4) * (dx * dy)); [ring|]. rewrite H1, H2, H3. ring.
Qed.

Lemma rigid33_det m : rigid33 m -> @m33_determinant ROps m * @m33_determinant ROps m = 1.
Proof.
  intros ((A6 & A7 & A8) & H1 & H2 & H3). unfold m33_determinant. cbn.
  fold (en m 0) (en m 1) (en m 2) (en m 3) (en m 4) (en m 5) (en m 6) (en m 7) (en m 8).
  rewrite A6, A7, A8.
  transitivity ((en m 0 * en m 0 + en m 3 * en m 3) * (en m 1 * en m 1 + en m 4 * en m 4)
                - (en m 0 * en m 1 + en m 3 * en m 4) * (en m 0 * en m 1 + en m 3 * en m 4)); [ring|].
  rewrite H1, H2, H3. ring.
Qed.

Lemma rigid33_inverse_right m p : rigid33 m ->
  @m33_mulposition ROps m (@m33_mulposition ROps (@m33_inverse ROps m) p) = p.
Proof.
  intros R. pose proof (rigid33_det m R) as D. destruct R as ((A6 & A7 & A8) & _).
  assert (Dn : @m33_determinant ROps m <> 0) by (intros E; rewrite E in D; lra).
  unfold m33_inverse, m33_mulposition. cbn [nth vx vy].
  set (d := odiv ROps (o1 ROps) (@m33_determinant ROps m)).
  assert (Hd : d * @m33_determinant ROps m = 1) by (unfold d; cbn; field; exact Dn).
  unfold m33_determinant in Hd. cbn in Hd. cbn.
  fold (en m 0) (en m 1) (en m 2) (en m 3) (en m 4) (en m 5) (en m 6) (en m 7) (en m 8) in *.
  rewrite A6, A7, A8 in *. destruct p as [x y]. cbn [vx vy]. rnorm. f_equal; nsatz.
Qed.

Lemma rigid33_inverse_aff m : rigid33 m -> aff33 (@m33_inverse ROps m).
Proof.
  intros R. pose proof (rigid33_det m R) as D. destruct R as ((A6 & A7 & A8) & _).
  assert (Dn : @m33_determinant ROps m <> 0) by (intros E; rewrite E in D; lra).
  unfold aff33, en, m33_inverse. cbn [nth].
  set (d := odiv ROps (o1 ROps) (@m33_determinant ROps m)).
  assert (Hd : d * @m33_determinant ROps m = 1) by (unfold d; cbn; field; exact Dn).
  unfold m33_determinant in Hd. cbn in Hd. cbn.
  fold (en m 0) (en m 1) (en m 2) (en m 3) (en m 4) (en m 5) (en m 6) (en m 7) (en m 8) in *.
  rewrite A6, A7, A8 in *. rnorm. repeat split; nsatz.
Qed.

Lemma rigid33_inverse_iso m : rigid33 m -> isoM33 (@m33_inverse ROps m).
Proof.
  intros R. split; [apply rigid33_inverse_aff; exact R|].
  apply (iso22_right_inverse (@m33_mulposition ROps m)); [apply rigid33_iso; exact R|].
  intros p. apply rigid33_inverse_right; exact R.
Qed.

Lemma m33_mul_pos a b p : aff33 b ->
  @m33_mulposition ROps (@m33_mul ROps a b) p = @m33_mulposition ROps a (@m33_mulposition ROps b p).
Proof.
  intros (A6 & A7 & A8). unfold m33_mulposition, m33_mul. cbn.
  fold (en b 0) (en b 1) (en b 2) (en b 3) (en b 4) (en b 5) (en b 6) (en b 7) (en b 8).
  rewrite A6, A7, A8. f_equal; ring.
Qed.
Lemma isoM33_mul a b : isoM33 a -> isoM33 b -> isoM33 (@m33_mul ROps a b).
Proof.
  intros ((A6 & A7 & A8) & Ia) (Ab & Ib). split.
  - destruct Ab as (B6 & B7 & B8). unfold aff33, en, m33_mul. cbn.
    fold (en a 6) (en a 7) (en a 8) (en b 6) (en b 7) (en b 8). rewrite A6, A7, A8, B6, B7, B8. repeat split; ring.
  - intros p q. rewrite !m33_mul_pos by exact Ab. rewrite Ia. apply Ib.
Qed.
Lemma isoM33_identity : isoM33 (@mk_identity2d ROps).
Proof.
  split; [unfold aff33, en; cbn; repeat split; reflexivity|].
  intros p q. unfold dist2, len2, sub2, m33_mulposition. cbn. f_equal. ring.
Qed.

Ltac fold_en44 m :=
  fold (en m 0) (en m 1) (en m 2) (en m 3) (en m 4) (en m 5) (en m 6) (en m 7)
       (en m 8) (en m 9) (en m 10) (en m 11) (en m 12) (en m 13) (en m 14) (en m 15) in *.

Lemma rigid44_iso m : rigid44 m -> isoM44 m.
Proof.
  intros (A & H1 & H2 & H3 & H4 & H5 & H6). split; [exact A|]. intros p q.
  unfold dist3, len3, sub3, m44_mulposition. cbn. f_equal. fold_en44 m.
  set (dx := wx p - wx q). set (dy := wy p - wy q). set (dz := wz p - wz q).
  replace (en m 0 * wx p + en m 1 * wy p + en m 2 * wz p + en m 3 - (en m 0 * wx q + en m 1 * wy q + en m 2 * wz q + en m 3))
    with (en m 0 * dx + en m 1 * dy + en m 2 * dz) by (unfold dx, dy, dz; ring).
  replace (en m 4 * wx p + en m 5 * wy p + en m 6 * wz p + en m 7 - (en m 4 * wx q + en m 5 * wy q + en m 6 * wz q + en m 7))
    with (en m 4 * dx + en m 5 * dy + en m 6 * dz) by (unfold dx, dy, dz; ring).
  replace (en m 8 * wx p + en m 9 * wy p + en m 10 * wz p + en m 11 - (en m 8 * wx q + en m 9 * wy q + en m 10 * wz q + en m 11))
    with (en m 8 * dx + en m 9 * dy + en m 10 * dz) by (unfold dx, dy, dz; ring).
  transitivity ((en m 0 * en m 0 + en m 4 * en m 4 + en m 8 * en m 8) * (dx * dx)
                + (en m 1 * en m 1 + en m 5 * en m 5 + en m 9 * en m 9) * (dy * dy)
                + (en m 2 * en m 2 + en m 6 * en m 6 + en m 10 * en m 10) * (dz * dz)
                + 2 * (en m 0 * en m 1 + en m 4 * en m 5 + en m 8 * en m 9) * (dx * dy)
                + 2 * (en m 0 * en m 2 + en m 4 * en m 6 + en m 8 * en m 10) * (dx * dz)
                + 2 * (en m 1 * en m 2 + en m 5 * en m 6 + en m 9 * en m 10) * (dy * dz)); [ring|].
  rewrite H1, H2, H3, H4, H5, H6. ring.
Qed.

(* det^2 = det (M^T M) = 1 *)
Lemma rigid44_det m : rigid44 m -> @m44_determinant ROps m * @m44_determinant ROps m = 1.
Proof.
  intros ((A12 & A13 & A14 & A15) & H1 & H2 & H3 & H4 & H5 & H6). unfold m44_determinant. cbn.
  fold_en44 m. rewrite A12, A13, A14, A15.
  set (g11 := en m 0 * en m 0 + en m 4 * en m 4 + en m 8 * en m 8) in *.
  set (g22 := en m 1 * en m 1 + en m 5 * en m 5 + en m 9 * en m 9) in *.
  set (g33 := en m 2 * en m 2 + en m 6 * en m 6 + en m 10 * en m 10) in *.
  set (g12 := en m 0 * en m 1 + en m 4 * en m 5 + en m 8 * en m 9) in *.
  set (g13 := en m 0 * en m 2 + en m 4 * en m 6 + en m 8 * en m 10) in *.
  set (g23 := en m 1 * en m 2 + en m 5 * en m 6 + en m 9 * en m 10) in *.
  transitivity (g11 * g22 * g33 + 2 * g12 * g13 * g23 - g11 * g23 * g23 - g22 * g13 * g13 - g33 * g12 * g12);
    [unfold g11, g22, g33, g12, g13, g23; ring|].
  rewrite H1, H2, H3, H4, H5, H6. ring.
Qed.

Lemma rigid44_inverse_facts m : rigid44 m ->
  aff44 (@m44_inverse ROps m) /\
  forall p, @m44_mulposition ROps m (@m44_mulposition ROps (@m44_inverse ROps m) p) = p.
Proof.
  intros R. pose proof (rigid44_det m R) as D. destruct R as ((A12 & A13 & A14 & A15) & _).
  assert (Dn : @m44_determinant ROps m <> 0) by (intros E; rewrite E in D; lra).
  unfold aff44, en, m44_inverse, m44_mulposition. cbn [List.nth wx wy wz].
  set (d := odiv ROps (o1 ROps) (@m44_determinant ROps m)).
  assert (Hd : d * @m44_determinant ROps m = 1) by (unfold d; cbn; field; exact Dn).
  clearbody d. clear D Dn.
  unfold m44_determinant in Hd. cbn in Hd. cbn.
  fold_en44 m. rewrite A12, A13, A14, A15 in *.
  set (a0 := en m 0) in *. set (a1 := en m 1) in *. set (a2 := en m 2) in *. set (a3 := en m 3) in *.
  set (a4 := en m 4) in *. set (a5 := en m 5) in *. set (a6 := en m 6) in *. set (a7 := en m 7) in *.
  set (a8 := en m 8) in *. set (a9 := en m 9) in *. set (a10 := en m 10) in *. set (a11 := en m 11) in *.
  clearbody a0 a1 a2 a3 a4 a5 a6 a7 a8 a9 a10 a11. clear A12 A13 A14 A15.
  rnorm.
  split; [repeat split; nsatz|].
  intros [x y z]. cbn [wx wy wz]. f_equal; nsatz.
Qed.

Lemma rigid44_inverse_iso m : rigid44 m -> isoM44 (@m44_inverse ROps m).
Proof.
  intros R. destruct (rigid44_inverse_facts m R) as [A I]. split; [exact A|].
  apply (iso33_right_inverse (@m44_mulposition ROps m)); [apply rigid44_iso; exact R | exact I].
Qed.
Lemma m44_mul_pos a b p : aff44 b ->
  @m44_mulposition ROps (@m44_mul ROps a b) p = @m44_mulposition ROps a (@m44_mulposition ROps b p).
Proof.
  intros (A12 & A13 & A14 & A15). unfold m44_mulposition, m44_mul. cbn.
  fold_en44 b. rewrite A12, A13, A14, A15. f_equal; ring.
Qed.
Lemma isoM44_mul a b : isoM44 a -> isoM44 b -> isoM44 (@m44_mul ROps a b).
Proof.
  intros ((A12 & A13 & A14 & A15) & Ia) (Ab & Ib). split.
  - destruct Ab as (B12 & B13 & B14 & B15). unfold aff44, en, m44_mul. cbn.
    fold (en a 12) (en a 13) (en a 14) (en a 15) (en b 12) (en b 13) (en b 14) (en b 15).
    rewrite A12, A13, A14, A15, B12, B13, B14, B15. repeat split; ring.
  - intros p q. rewrite !m44_mul_pos by exact Ab. rewrite Ia. apply Ib.
Qed.
Lemma isoM44_identity : isoM44 (@mk_identity3d ROps).
Proof.
  split; [unfold aff44, en; cbn; repeat split; reflexivity|].
  intros p q. unfold dist3, len3, sub3, m44_mulposition. cbn. f_equal. ring.
Qed.

(* ------------------------------------------------------------------ combinators, 2D *)
Lemma lip1_offset2 s off o : k_offset2 s off = Some o -> lip1_2 (ev2 s) -> lip1_2 (ev2 o).
Proof. unfold k_offset2. intros H; someinv H. apply (lipd_sub dist2). Qed.

Lemma lip1_intersection2 m s0 s1 o : maxK_ok m -> k_intersect2 m s0 s1 = Some o ->
  lip1_2 (ev2 s0) -> lip1_2 (ev2 s1) -> lip1_2 (ev2 o).
Proof. unfold k_intersect2. intros Hm H; someinv H. apply (lipd_binop dist2). intros; apply max_apply_lip; exact Hm. Qed.

Lemma lip1_difference2 m s0 s1 o : maxK_ok m -> k_difference2 m s0 s1 = Some o ->
  lip1_2 (ev2 s0) -> lip1_2 (ev2 s1) -> lip1_2 (ev2 o).
Proof.
  unfold k_difference2. intros Hm H; someinv H. intros H0 H1.
  apply (lipd_binop dist2 (max_apply m) (ev2 s0) (fun p => - ev2 s1 p)); [intros; apply max_apply_lip; exact Hm | exact H0 | apply (lipd_neg dist2); exact H1].
Qed.

(* a half plane / half space with a unit normal *)
Lemma halfplane_lip ax ay nx ny : nx * nx + ny * ny = 1 ->
  lip1_2 (fun p => (vx p - ax) * nx + (vy p - ay) * ny).
Proof.
  intros Hu p q.
  pose proof (dot_le_len2 (sub2 p q) (mkV2 nx ny)) as D1.
  pose proof (dot_le_len2 (sub2 q p) (mkV2 nx ny)) as D2.
  rewrite (len2_unit nx ny Hu) in D1, D2. cbn [sub2 vx vy] in D1, D2.
  fold (dist2 p q) in D1. fold (dist2 q p) in D2. rewrite (dist2_sym q p) in D2.
  apply Rabs_le. rnorm. split; lra.
Qed.
Lemma halfspace_lip ax ay az nx ny nz : nx * nx + ny * ny + nz * nz = 1 ->
  lip1_3 (fun p => (wx p - ax) * nx + (wy p - ay) * ny + (wz p - az) * nz).
Proof.
  intros Hu p q.
  pose proof (dot_le_len3 (sub3 p q) (mkV3 nx ny nz)) as D1.
  pose proof (dot_le_len3 (sub3 q p) (mkV3 nx ny nz)) as D2.
  rewrite (len3_unit nx ny nz Hu) in D1, D2. cbn [sub3 wx wy wz] in D1, D2.
  fold (dist3 p q) in D1. fold (dist3 q p) in D2. rewrite (dist3_sym q p) in D2.
  apply Rabs_le. rnorm. split; lra.
Qed.

Lemma normalize2_unit (v : RV2) : (vx v <> 0 \/ vy v <> 0) ->
  vx (v2normalize v) * vx (v2normalize v) + vy (v2normalize v) * vy (v2normalize v) = 1.
Proof.
  intros Hv. unfold v2normalize, v2muls. cbn. change (sqrt (vx v * vx v + vy v * vy v)) with (len2 v).
  assert (HL : 0 < len2 v). { apply len2_pos_iff. destruct Hv; nra. }
  pose proof (len2_sq v) as S.
  replace (vx v * (1 / len2 v) * (vx v * (1 / len2 v)) + vy v * (1 / len2 v) * (vy v * (1 / len2 v)))
    with ((vx v * vx v + vy v * vy v) / (len2 v * len2 v)) by (field; lra).
  rewrite <- S. field; lra.
Qed.
Lemma normalize3_unit (v : RV3) : (wx v <> 0 \/ wy v <> 0 \/ wz v <> 0) ->
  wx (v3normalize v) * wx (v3normalize v) + wy (v3normalize v) * wy (v3normalize v)
  + wz (v3normalize v) * wz (v3normalize v) = 1.
Proof.
  intros Hv. unfold v3normalize, v3muls. cbn. change (sqrt (wx v * wx v + wy v * wy v + wz v * wz v)) with (len3 v).
  assert (HL : 0 < len3 v). { apply len3_pos_iff. destruct Hv as [|[|]]; nra. }
  pose proof (len3_sq v) as S.
  replace (wx v * (1 / len3 v) * (wx v * (1 / len3 v)) + wy v * (1 / len3 v) * (wy v * (1 / len3 v))
           + wz v * (1 / len3 v) * (wz v * (1 / len3 v)))
    with ((wx v * wx v + wy v * wy v + wz v * wz v) / (len3 v * len3 v)) by (field; lra).
  rewrite <- S. field; lra.
Qed.

Lemma lip1_cut2 s a v o : (vx v <> 0 \/ vy v <> 0) -> k_cut2 s a v = Some o -> lip1_2 (ev2 s) -> lip1_2 (ev2 o).
Proof.
  intros Hv. unfold k_cut2. intros H; someinv H. intros Hs.
  apply (lipd_max dist2); [|exact Hs].
  pose proof (normalize2_unit v Hv) as U. set (w := v2normalize v) in *.
  apply (lipd_ext dist2 (fun p => (vx p - vx a) * (- vy w) + (vy p - vy a) * vx w)).
  - intros p. unfold v2dot, v2sub. cbn. reflexivity.
  - apply halfplane_lip. rnorm. nra.
Qed.

Lemma lip1_transform2_rigid s m o : rigid33 m -> k_transform2 s m = Some o -> lip1_2 (ev2 s) -> lip1_2 (ev2 o).
Proof.
  intros R. unfold k_transform2. intros H; someinv H. intros Hs.
  apply lip1_comp22; [exact Hs|]. apply iso22_nonexp. apply rigid33_inverse_iso. exact R.
Qed.

Lemma scale2_dist p q k : 0 < k -> dist2 (v2muls p (1 / k)) (v2muls q (1 / k)) <= dist2 p q / k.
Proof.
  intros Hk. unfold dist2 at 1. apply len2_le.
  - apply Rmult_le_pos; [apply dist2_nonneg | apply Rlt_le, Rinv_0_lt_compat; exact Hk].
  - unfold sub2, v2muls. cbn. pose proof (len2_sq (sub2 p q)) as S. cbn [sub2 vx vy] in S. fold (dist2 p q) in S.
    replace (dist2 p q / k * (dist2 p q / k)) with ((dist2 p q * dist2 p q) / (k * k)) by (field; lra).
    rewrite S. apply Req_le. field. lra.
Qed.
Lemma lip1_scaleuniform2 s k o : 0 < k -> k_scaleuniform2 s k = Some o -> lip1_2 (ev2 s) -> lip1_2 (ev2 o).
Proof.
  intros Hk. unfold k_scaleuniform2. intros H; someinv H. intros Hs p q.
  change (omul ROps) with Rmult. change (odiv ROps (o1 ROps) k) with (1 / k).
  replace (ev2 s (v2muls p (1 / k)) * k - ev2 s (v2muls q (1 / k)) * k)
    with ((ev2 s (v2muls p (1 / k)) - ev2 s (v2muls q (1 / k))) * k) by ring.
  rewrite Rabs_mult, (Rabs_pos_eq k) by lra.
  pose proof (Hs (v2muls p (1 / k)) (v2muls q (1 / k))) as L. pose proof (scale2_dist p q k Hk) as S.
  apply Rle_trans with (dist2 p q / k * k); [|apply Req_le; field; lra].
  apply Rmult_le_compat_r; lra.
Qed.

(* counting loops whose body keeps the accumulator 1-Lipschitz *)
Lemma count_loop_lip {P : Type} (d : P -> P -> R) n :
  forall i (body : P -> Z -> R -> R) (acc : P -> R),
  (forall i g, lipd d g -> lipd d (fun p => body p i (g p))) -> lipd d acc ->
  lipd d (fun p => @count_loop R n i (body p) (acc p)).
Proof.
  induction n as [|n IH]; intros i body acc Hb Ha; cbn [count_loop]; [exact Ha|].
  apply (IH (i + 1)%Z body (fun p => body p i (acc p))); [exact Hb | apply Hb; exact Ha].
Qed.

Lemma translate2_iso c : iso22 (fun p => v2sub p c).
Proof. intros p q. unfold dist2, len2, sub2, v2sub. cbn. f_equal. ring. Qed.
Lemma translate3_iso c : iso33 (fun p => v3sub p c).
Proof. intros p q. unfold dist3, len3, sub3, v3sub. cbn. f_equal. ring. Qed.

Lemma lip1_array2 mk s nx ny step o : minK_ok mk -> k_array2 mk s nx ny step = Some o ->
  lip1_2 (ev2 s) -> lip1_2 (ev2 o).
Proof.
  intros Hm. unfold k_array2. destruct (_ || _); [discriminate|]. intros H; someinv H. intros Hs.
  apply (count_loop_lip dist2 (Z.to_nat nx) 0%Z
    (fun p j d => count_loop (Z.to_nat ny) 0 (fun k d => min_apply mk d (ev2 s (v2sub p (mkV2 (ofZ ROps j * vx step) (ofZ ROps k * vy step))))) d)
    (fun _ => omaxf ROps)).
  - intros j g Hg.
    apply (count_loop_lip dist2 (Z.to_nat ny) 0%Z
      (fun p k d => min_apply mk d (ev2 s (v2sub p (mkV2 (ofZ ROps j * vx step) (ofZ ROps k * vy step))))) g); [|exact Hg].
    intros k g' Hg'. apply (lipd_binop dist2 (min_apply mk) g'); [intros; apply min_apply_lip; exact Hm | exact Hg' |].
    apply (lip1_comp22 (ev2 s) (fun p => v2sub p _)); [exact Hs | apply iso22_nonexp, translate2_iso].
  - apply lipd_const. apply dist2_nonneg.
Qed.

Lemma rotunion_loop2_lip mk f n : minK_ok mk -> lip1_2 f ->
  forall sstep rot (d : RV2 -> R), isoM33 sstep -> isoM33 rot -> lip1_2 d ->
  lip1_2 (fun p => rotunion_loop2 mk f n sstep rot p (d p)).
Proof.
  intros Hm Hf. induction n as [|n IH]; intros sstep rot d Hs Hr Hd; cbn [rotunion_loop2]; [exact Hd|].
  apply (IH sstep (m33_mul rot sstep) (fun p => min_apply mk (d p) (f (m33_mulposition rot p)))); [exact Hs | apply isoM33_mul; assumption |].
  apply (lipd_binop dist2 (min_apply mk) d); [intros; apply min_apply_lip; exact Hm | exact Hd |].
  apply lip1_comp22; [exact Hf | apply iso22_nonexp; apply Hr].
Qed.
Lemma lip1_rotateunion2 mk s num step o : minK_ok mk -> rigid33 step ->
  k_rotateunion2 mk s num step = Some o -> lip1_2 (ev2 s) -> lip1_2 (ev2 o).
Proof.
  intros Hm R. unfold k_rotateunion2. destruct (num <=? 0)%Z; [discriminate|].
  destruct (rotunion_box2 _ _ _ _ _) as [bmin bmax]. intros H; someinv H. intros Hs.
  apply (rotunion_loop2_lip mk (ev2 s) (Z.to_nat num) Hm Hs (m33_inverse step) mk_identity2d (fun _ => omaxf ROps)).
  - apply rigid33_inverse_iso; exact R.
  - apply isoM33_identity.
  - apply (lipd_const dist2). apply dist2_nonneg.
Qed.

Lemma clamp_res_lip a b x y : a <= b ->
  Rabs ((x - @clamp ROps x a b) - (y - @clamp ROps y a b)) <= Rabs (x - y).
Proof.
  intros Hab. unfold clamp. cbn. rcmp; unfold Rabs; repeat destruct (Rcase_abs _); lra.
Qed.
Lemma half_pos : 0 < @half ROps.
Proof. unfold half, two. cbn. lra. Qed.

Lemma lip1_elongate2 s h o : k_elongate2 s h = Some o -> lip1_2 (ev2 s) -> lip1_2 (ev2 o).
Proof.
  unfold k_elongate2. intros H; someinv H. intros Hs.
  apply lip1_comp22; [exact Hs|]. intros p q. unfold v2sub, v2clamp, v2muls, v2abs. cbn [vx vy].
  pose proof half_pos as Hh. unfold k05.
  apply dist2_comp_le; apply clamp_res_lip; cbn;
  [pose proof (Rabs_pos (vx h)) | pose proof (Rabs_pos (vy h))]; nra.
Qed.

(* Union2D: the operand data the pruned Evaluate works on *)
Definition union2_ops (l : list RObj2) (p : RV2) : list (Interval ROps * R) :=
  map (fun x => (box2_minmax (bb2 x) p, ev2 x p)) l.
(* the hypotheses of Union2R.union_prune_eq at every point: boxes ordered, every operand's value is
   at least its distance to its own box (and negative only inside it), and at most the distance to the
   farthest point of its box (true when the operand's solid is non-empty, inside its box, and the operand
   is 1-Lipschitz).  Without them the pruned evaluation is not even continuous: union2_prune_refuted. *)
Definition prune_ok2 (l : list RObj2) : Prop :=
  forall p, Forall iv_ok (union2_ops l p) /\ Forall lower_ok (union2_ops l p) /\ Forall upper_ok (union2_ops l p).

Lemma slow_loop_lip minf (l : list (RV2 -> R)) :
  (forall a b a' b', Rabs (minf a b - minf a' b') <= Rmax (Rabs (a - a')) (Rabs (b - b'))) ->
  Forall lip1_2 l -> forall d, lip1_2 d ->
  lip1_2 (fun p => @slow_loop ROps minf (map (fun f => f p) l) false (d p)).
Proof.
  intros Hm Hl. induction Hl as [|f l Hf Hl IH]; intros d Hd; cbn [map slow_loop]; [exact Hd|].
  apply (IH (fun p => minf (d p) (f p))). apply (lipd_binop dist2 minf d f Hm Hd Hf).
Qed.

Lemma evaluate_slow_lip minf (l : list RObj2) :
  (forall a b a' b', Rabs (minf a b - minf a' b') <= Rmax (Rabs (a - a')) (Rabs (b - b'))) ->
  l <> [] -> Forall (fun x => lip1_2 (ev2 x)) l ->
  lip1_2 (fun p => @evaluate_slow ROps minf (union2_ops l p)).
Proof.
  intros Hm Hne Hl. destruct l as [|x l]; [congruence|].
  unfold evaluate_slow, union2_ops. cbn [map snd slow_loop].
  inversion Hl as [|? ? Hx Hl']; subst.
  apply (lipd_ext dist2 (fun p => @slow_loop ROps minf (map (fun f => f p) (map (fun x p => ev2 x p) l)) false (ev2 x p))).
  - intros p. rewrite !map_map. reflexivity.
  - apply slow_loop_lip; [exact Hm | | exact Hx].
    rewrite Forall_map. exact Hl'.
Qed.

Lemma lip1_union2 mk l o : minK_ok mk -> (mk = MinDef -> prune_ok2 l) ->
  k_union2 mk l = Some o -> Forall (fun x => lip1_2 (ev2 x)) l -> lip1_2 (ev2 o).
Proof.
  intros Hm Hp. unfold k_union2. destruct l as [|s0 [|s1 r]]; [discriminate | |].
  - intros H; injection H as <-. intros Hl. inversion Hl; assumption.
  - intros H; someinv H. intros Hl. set (l := s0 :: s1 :: r) in *.
    change (fun p => evaluate (min_is_blend mk) (min_apply mk) (map (fun x => (box2_minmax (bb2 x) p, ev2 x p)) l))
      with (fun p => evaluate (min_is_blend mk) (min_apply mk) (union2_ops l p)).
    destruct mk as [|k|k|k]; cbn [minK_ok] in Hm; try contradiction.
    + specialize (Hp eq_refl).
      apply (lipd_ext dist2 (fun p => @evaluate_slow ROps Rmin (union2_ops l p))).
      * intros p. destruct (Hp p) as (H1 & H2 & H3). symmetry. apply union_prune_eq; try assumption. discriminate.
      * apply evaluate_slow_lip; [apply Rmin_lip | discriminate | exact Hl].
    + cbn [min_is_blend]. unfold evaluate.
      apply (evaluate_slow_lip (min_apply (MinPoly k)) l); [intros; apply min_apply_lip; exact Hm | discriminate | exact Hl].
Qed.

(* ------------------------------------------------------------------ combinators, 3D *)
Lemma lip1_offset3 s off o : k_offset3 s off = Some o -> lip1_3 (ev3 s) -> lip1_3 (ev3 o).
Proof. unfold k_offset3. intros H; someinv H. apply (lipd_sub dist3). Qed.

Lemma lip1_shell3 s th o : k_shell3 s th = Some o -> lip1_3 (ev3 s) -> lip1_3 (ev3 o).
Proof.
  unfold k_shell3. destruct (oleb ROps th _); [discriminate|]. intros H; someinv H. intros Hs.
  apply (lipd_sub dist3). apply (lipd_abs dist3). exact Hs.
Qed.

Lemma lip1_intersection3 m s0 s1 o : maxK_ok m -> k_intersect3 m s0 s1 = Some o ->
  lip1_3 (ev3 s0) -> lip1_3 (ev3 s1) -> lip1_3 (ev3 o).
Proof. unfold k_intersect3. intros Hm H; someinv H. apply (lipd_binop dist3). intros; apply max_apply_lip; exact Hm. Qed.

Lemma lip1_difference3 m s0 s1 o : maxK_ok m -> k_difference3 m s0 s1 = Some o ->
  lip1_3 (ev3 s0) -> lip1_3 (ev3 s1) -> lip1_3 (ev3 o).
Proof.
  unfold k_difference3. intros Hm H; someinv H. intros H0 H1.
  apply (lipd_binop dist3 (max_apply m) (ev3 s0) (fun p => - ev3 s1 p)); [intros; apply max_apply_lip; exact Hm | exact H0 | apply (lipd_neg dist3); exact H1].
Qed.

Lemma lip1_cut3 s a n o : (wx n <> 0 \/ wy n <> 0 \/ wz n <> 0) -> k_cut3 s a n = Some o ->
  lip1_3 (ev3 s) -> lip1_3 (ev3 o).
Proof.
  intros Hn. unfold k_cut3. intros H; someinv H. intros Hs.
  apply (lipd_max dist3); [|exact Hs].
  pose proof (normalize3_unit n Hn) as U. set (w := v3normalize n) in *.
  apply (lipd_ext dist3 (fun p => (wx p - wx a) * (- wx w) + (wy p - wy a) * (- wy w) + (wz p - wz a) * (- wz w))).
  - intros p. unfold v3dot, v3sub, v3neg. cbn. reflexivity.
  - apply halfspace_lip. rnorm. nra.
Qed.

Lemma lip1_transform3_rigid s m o : rigid44 m -> k_transform3 s m = Some o -> lip1_3 (ev3 s) -> lip1_3 (ev3 o).
Proof.
  intros R. unfold k_transform3. intros H; someinv H. intros Hs.
  apply lip1_comp33; [exact Hs|]. apply iso33_nonexp. apply rigid44_inverse_iso. exact R.
Qed.

Lemma scale3_dist p q k : 0 < k -> dist3 (v3muls p (1 / k)) (v3muls q (1 / k)) <= dist3 p q / k.
Proof.
  intros Hk. unfold dist3 at 1. apply len3_le.
  - apply Rmult_le_pos; [apply dist3_nonneg | apply Rlt_le, Rinv_0_lt_compat; exact Hk].
  - unfold sub3, v3muls. cbn. pose proof (len3_sq (sub3 p q)) as S. cbn [sub3 wx wy wz] in S. fold (dist3 p q) in S.
    replace (dist3 p q / k * (dist3 p q / k)) with ((dist3 p q * dist3 p q) / (k * k)) by (field; lra).
    rewrite S. apply Req_le. field. lra.
Qed.
Lemma lip1_scaleuniform3 s k o : 0 < k -> k_scaleuniform3 s k = Some o -> lip1_3 (ev3 s) -> lip1_3 (ev3 o).
Proof.
  intros Hk. unfold k_scaleuniform3. intros H; someinv H. intros Hs p q.
  change (omul ROps) with Rmult. change (odiv ROps (o1 ROps) k) with (1 / k).
  replace (ev3 s (v3muls p (1 / k)) * k - ev3 s (v3muls q (1 / k)) * k)
    with ((ev3 s (v3muls p (1 / k)) - ev3 s (v3muls q (1 / k))) * k) by ring.
  rewrite Rabs_mult, (Rabs_pos_eq k) by lra.
  pose proof (Hs (v3muls p (1 / k)) (v3muls q (1 / k))) as L. pose proof (scale3_dist p q k Hk) as S.
  apply Rle_trans with (dist3 p q / k * k); [|apply Req_le; field; lra].
  apply Rmult_le_compat_r; lra.
Qed.

Lemma fold_min_lip mk (l : list RObj3) : minK_ok mk -> Forall (fun x => lip1_3 (ev3 x)) l ->
  forall d, lip1_3 d -> lip1_3 (fun p => fold_left (fun d x => min_apply mk d (ev3 x p)) l (d p)).
Proof.
  intros Hm Hl. induction Hl as [|x l Hx Hl IH]; intros d Hd; cbn [fold_left]; [exact Hd|].
  apply (IH (fun p => min_apply mk (d p) (ev3 x p))).
  apply (lipd_binop dist3 (min_apply mk) d (ev3 x)); [intros; apply min_apply_lip; exact Hm | exact Hd | exact Hx].
Qed.
Lemma lip1_union3 mk l o : minK_ok mk -> k_union3 mk l = Some o ->
  Forall (fun x => lip1_3 (ev3 x)) l -> lip1_3 (ev3 o).
Proof.
  intros Hm. unfold k_union3. destruct l as [|s0 [|s1 r]]; [discriminate | |].
  - intros H; injection H as <-. intros Hl. inversion Hl; assumption.
  - intros H; someinv H. intros Hl. inversion Hl as [|? ? H0 Hr]; subst.
    apply (fold_min_lip mk (s1 :: r) Hm Hr (ev3 s0) H0).
Qed.

Lemma lip1_elongate3 s h o : k_elongate3 s h = Some o -> lip1_3 (ev3 s) -> lip1_3 (ev3 o).
Proof.
  unfold k_elongate3. intros H; someinv H. intros Hs.
  apply lip1_comp33; [exact Hs|]. intros p q. unfold v3sub, v3clamp, v3muls, v3abs. cbn [wx wy wz].
  pose proof half_pos as Hh. unfold k05.
  apply dist3_comp_le; apply clamp_res_lip; cbn;
  [pose proof (Rabs_pos (wx h)) | pose proof (Rabs_pos (wy h)) | pose proof (Rabs_pos (wz h))]; nra.
Qed.

Lemma lip1_array3 mk s nx ny nz step o : minK_ok mk -> k_array3 mk s nx ny nz step = Some o ->
  lip1_3 (ev3 s) -> lip1_3 (ev3 o).
Proof.
  intros Hm. unfold k_array3. destruct (_ || _); [discriminate|]. intros H; someinv H. intros Hs.
  apply (count_loop_lip dist3 (Z.to_nat nx) 0%Z
    (fun p j d => count_loop (Z.to_nat ny) 0 (fun k d => count_loop (Z.to_nat nz) 0 (fun l d =>
       min_apply mk d (ev3 s (v3sub p (mkV3 (ofZ ROps j * wx step) (ofZ ROps k * wy step) (ofZ ROps l * wz step))))) d) d)
    (fun _ => omaxf ROps)).
  - intros j g Hg.
    apply (count_loop_lip dist3 (Z.to_nat ny) 0%Z
      (fun p k d => count_loop (Z.to_nat nz) 0 (fun l d =>
         min_apply mk d (ev3 s (v3sub p (mkV3 (ofZ ROps j * wx step) (ofZ ROps k * wy step) (ofZ ROps l * wz step))))) d) g); [|exact Hg].
    intros k g' Hg'.
    apply (count_loop_lip dist3 (Z.to_nat nz) 0%Z
      (fun p l d => min_apply mk d (ev3 s (v3sub p (mkV3 (ofZ ROps j * wx step) (ofZ ROps k * wy step) (ofZ ROps l * wz step))))) g'); [|exact Hg'].
    intros l g'' Hg''. apply (lipd_binop dist3 (min_apply mk) g''); [intros; apply min_apply_lip; exact Hm | exact Hg'' |].
    apply (lip1_comp33 (ev3 s) (fun p => v3sub p _)); [exact Hs | apply iso33_nonexp, translate3_iso].
  - apply lipd_const. apply dist3_nonneg.
Qed.

Lemma rotunion_loop3_lip mk f n : minK_ok mk -> lip1_3 f ->
  forall sstep rot (d : RV3 -> R), isoM44 sstep -> isoM44 rot -> lip1_3 d ->
  lip1_3 (fun p => rotunion_loop3 mk f n sstep rot p (d p)).
Proof.
  intros Hm Hf. induction n as [|n IH]; intros sstep rot d Hs Hr Hd; cbn [rotunion_loop3]; [exact Hd|].
  apply (IH sstep (m44_mul rot sstep) (fun p => min_apply mk (d p) (f (m44_mulposition rot p)))); [exact Hs | apply isoM44_mul; assumption |].
  apply (lipd_binop dist3 (min_apply mk) d); [intros; apply min_apply_lip; exact Hm | exact Hd |].
  apply lip1_comp33; [exact Hf | apply iso33_nonexp; apply Hr].
Qed.
Lemma lip1_rotateunion3 mk s num step o : minK_ok mk -> rigid44 step ->
  k_rotateunion3 mk s num step = Some o -> lip1_3 (ev3 s) -> lip1_3 (ev3 o).
Proof.
  intros Hm R. unfold k_rotateunion3. destruct (num <=? 0)%Z; [discriminate|].
  destruct (rotunion_box3 _ _ _ _ _) as [bmin bmax]. intros H; someinv H. intros Hs.
  apply (rotunion_loop3_lip mk (ev3 s) (Z.to_nat num) Hm Hs (m44_inverse step) mk_identity3d (fun _ => omaxf ROps)).
  - apply rigid44_inverse_iso; exact R.
  - apply isoM44_identity.
  - apply (lipd_const dist3). apply dist3_nonneg.
Qed.

(* ---- 2D -> 3D *)
Lemma lip1_extrude s h o : k_extrude s h = Some o -> lip1_2 (ev2 s) -> lip1_3 (ev3 o).
Proof.
  unfold k_extrude. intros H; someinv H. intros Hs. unfold extrude_ev, ex_normal.
  apply (lipd_max dist3).
  - apply (lip1_comp32 (ev2 s) pxy Hs pxy_nonexp).
  - apply (lipd_sub dist3). intros p q. eapply Rle_trans; [apply Rabs_abs_lip | apply dist3_z].
Qed.

Lemma lip1_extrude_rounded s h round o : k_extruderounded s h round = Some o -> lip1_2 (ev2 s) -> lip1_3 (ev3 o).
Proof.
  unfold k_extruderounded. destruct (oeqb ROps round _); [apply lip1_extrude|].
  destruct (oleb ROps h _); [discriminate|]. destruct (oltb ROps round _); [discriminate|].
  destruct (oltb ROps h _); [discriminate|]. intros H; injection H as <-. intros Hs.
  set (sh := h / two - round).
  apply (lipd_ext dist3 (fun p => orth2 (ev2 s (mkV2 (wx p) (wy p))) (Rabs (wz p) - sh) - round)).
  { intros p. symmetry. apply rounded_combine_orth. }
  intros p q.
  replace (orth2 (ev2 s (mkV2 (wx p) (wy p))) (Rabs (wz p) - sh) - round - (orth2 (ev2 s (mkV2 (wx q) (wy q))) (Rabs (wz q) - sh) - round))
    with (orth2 (ev2 s (mkV2 (wx p) (wy p))) (Rabs (wz p) - sh) - orth2 (ev2 s (mkV2 (wx q) (wy q))) (Rabs (wz q) - sh)) by ring.
  eapply Rle_trans; [apply orth2_lip|].
  apply len2_le; [apply dist3_nonneg|]. cbn [vx vy]. unfold dist3. rewrite len3_sq. cbn [sub3 wx wy wz].
  pose proof (Hs (pxy p) (pxy q)) as L1. unfold pxy in L1.
  pose proof (len2_sq (sub2 (pxy p) (pxy q))) as S. cbn [sub2 pxy vx vy] in S. fold (dist2 (pxy p) (pxy q)) in S. unfold pxy in S.
  pose proof (dist2_nonneg (mkV2 (wx p) (wy p)) (mkV2 (wx q) (wy q))) as N.
  set (da := ev2 s (mkV2 (wx p) (wy p)) - ev2 s (mkV2 (wx q) (wy q))) in *.
  assert (L2 : Rabs (Rabs (wz p) - sh - (Rabs (wz q) - sh)) <= Rabs (wz p - wz q)).
  { replace (Rabs (wz p) - sh - (Rabs (wz q) - sh)) with (Rabs (wz p) - Rabs (wz q)) by ring. apply Rabs_abs_lip. }
  set (db := Rabs (wz p) - sh - (Rabs (wz q) - sh)) in *.
  assert (Ea : da * da <= dist2 (mkV2 (wx p) (wy p)) (mkV2 (wx q) (wy q)) * dist2 (mkV2 (wx p) (wy p)) (mkV2 (wx q) (wy q))).
  { apply Rabs_le_iff in L1. nra. }
  assert (Eb : db * db <= (wz p - wz q) * (wz p - wz q)).
  { apply sq_le_of_abs. exact L2. }
  rnorm. lra.
Qed.

Ltac someinv' H :=
  injection H as <-;
  repeat match goal with
  | |- context [ev3 (mkObj3 ?f ?b)] => change (ev3 (mkObj3 f b)) with f
  | |- context [ev2 (mkObj2 ?f ?b)] => change (ev2 (mkObj2 f b)) with f
  end.

Lemma revolve_ev_lip s theta : lip1_2 (ev2 s) ->
  lip1_3 (fun p : RV3 =>
    let x := sqrt (wx p * wx p + wy p * wy p) in
    let a := ev2 s (mkV2 x (wz p)) in
    let b := if Reqb theta 0 then a
             else let d := - sin theta * wx p + cos theta * wy p in
                  if Rltb theta PI then Rmax (- wy p) d else Rmin (- wy p) d in
    Rmax a b).
Proof.
  intros Hs.
  assert (Ha : lip1_3 (fun p => ev2 s (mkV2 (sqrt (wx p * wx p + wy p * wy p)) (wz p)))).
  { apply (lip1_comp32 (ev2 s) mer Hs mer_nonexp). }
  assert (Hy : lip1_3 (fun p : RV3 => - wy p)).
  { intros p q. replace (- wy p - - wy q) with (- (wy p - wy q)) by ring. rewrite Rabs_Ropp. apply dist3_y. }
  assert (Hd : lip1_3 (fun p : RV3 => - sin theta * wx p + cos theta * wy p)).
  { apply (lipd_ext dist3 (fun p => (wx p - 0) * (- sin theta) + (wy p - 0) * cos theta + (wz p - 0) * 0)).
    - intros p. ring.
    - apply halfspace_lip. pose proof (sin2_cos2 theta) as E. unfold Rsqr in E. nra. }
  cbv zeta. destruct (Reqb theta 0).
  { apply (lipd_max dist3); exact Ha. }
  destruct (Rltb theta PI); (apply (lipd_max dist3); [exact Ha|]);
  [apply (lipd_max dist3) | apply (lipd_min dist3)]; assumption.
Qed.

Lemma lip1_revolve s theta0 o : k_revolve s theta0 = Some o -> lip1_2 (ev2 s) -> lip1_3 (ev3 o).
Proof.
  unfold k_revolve. destruct (oltb ROps theta0 _); [discriminate|]. intros H; injection H as <-. intros Hs.
  apply (revolve_ev_lip s (Rfmod (Rabs theta0) (@tau ROps)) Hs).
Qed.
