(* Correspondence for C17: the FOps instance of Sdf/Build.v and Sdf/Bezier.v (trigonometry
   through the bit-exact port of Go's math package) against the observed results of
   Polygon.Vertices(), Nagon() and Bezier.Polygon().Vertices(). *)
From Coq Require Import List ZArith NArith Floats Bool.
From Sdfx Require Import Num.Ops.
From Sdfx Require Import Num.FInst.
From Sdfx Require Import Geo.Vec.
From Sdfx Require Import Sdf.Build.
From Sdfx Require Import Sdf.Bezier.
Import ListNotations.

Definition fpt := (float * float)%type.

(* all coordinates agree (fclose: up to a harmless algebraic rewrite; fsame: bit for bit) *)
Fixpoint pts_agree (eq : float -> float -> bool) (m : list (V2 FOps)) (g : list fpt) : bool :=
  match m, g with
  | [], [] => true
  | p :: m', (x, y) :: g' => eq (vx p) x && eq (vy p) y && pts_agree eq m' g'
  | _, _ => false
  end.

(* ---- Polygon.Vertices(): id, (closed, reverse), vertices (x, y, chained calls),
        observed vertices (None = the call panicked) *)
Definition casep := (N * (bool * bool) * list (float * float * list (vop FOps)) * option (list fpt))%type.
Definition modelp (c : casep) : option (list (V2 FOps)) :=
  let '(_, (closed, reverse), vs, _) := c in
  vertices (mkPolygon closed reverse
              (map (fun v : float * float * list (vop FOps) => let '(x, y, ops) := v in add_vertex x y ops) vs)).
Definition okp (eq : float -> float -> bool) (c : casep) : bool :=
  let '(_, _, _, g) := c in
  match modelp c, g with
  | None, None => true
  | Some m, Some g => pts_agree eq m g
  | _, _ => false
  end.
Definition idp (c : casep) : N := let '(id, _, _, _) := c in id.
Definition mismatchesp (cs : list casep) : list N := map idp (filter (fun c => negb (okp fclose c)) cs).
Definition inexactp (cs : list casep) : list N := map idp (filter (fun c => negb (okp fsame c)) cs).

(* ---- Nagon(n, radius) *)
Definition casen := (N * Z * float * list fpt)%type.
Definition okn (eq : float -> float -> bool) (c : casen) : bool :=
  let '(_, n, r, g) := c in pts_agree eq (@nagon FOps n r) g.
Definition idn (c : casen) : N := let '(id, _, _, _) := c in id.
Definition mismatchesn (cs : list casen) : list N := map idn (filter (fun c => negb (okn fclose c)) cs).
Definition inexactn (cs : list casen) : list N := map idn (filter (fun c => negb (okn fsame c)) cs).

(* ---- Bezier.Polygon() then Vertices(): id, closed, vertices (x, y, chained calls),
        the draws sdfRand.Float64() returned, observed outcome *)
Inductive bres := BPanic | BError | BVerts (vs : list fpt).
Definition caseb := (N * bool * list (float * float * list (bop FOps)) * list float * bres)%type.
Definition modelb (c : caseb) : outcome FOps :=
  let '(_, closed, vs, rs, _) := c in
  match all_some (map (fun v : float * float * list (bop FOps) => let '(x, y, ops) := v in add_bvertex x y ops) vs) with
  | None => Panic
  | Some l => bezier_polygon closed l rs
  end.
Definition okb (eq : float -> float -> bool) (c : caseb) : bool :=
  let '(_, _, _, _, g) := c in
  match modelb c, g with
  | Panic, BPanic => true
  | Error, BError => true
  | Verts m, BVerts g => pts_agree eq m g
  | _, _ => false
  end.
Definition idb (c : caseb) : N := let '(id, _, _, _, _) := c in id.
Definition mismatchesb (cs : list caseb) : list N := map idb (filter (fun c => negb (okb fclose c)) cs).
Definition inexactb (cs : list caseb) : list N := map idb (filter (fun c => negb (okb fsame c)) cs).
