(* C03: every expression tree over the listed combinators evaluates to a 1-Lipschitz function.
   lipwf collects the side conditions (blend kinds and k > 0, rigid matrices stated on their
   entries, positive scale, non-zero cut directions, soundness of the 2D union's box pruning). *)
From Coq Require Import Reals Lra Lia List Bool ZArith.
From Sdfx Require Import Num.Ops Num.RInst Geo.Vec Geo.Box Geo.BoxR Geo.NormR Geo.Mat
  Sdf.Union2 Sdf.Union2R Sdf.Shape Sdf.ShapeR Sdf.LipR Sdf.ConeR.
Import ListNotations.
Open Scope R_scope.

Fixpoint lipwf2 (s : Shape2 ROps) : Prop :=
  match s with
  | Circle _ | Box2D _ _ | Line2D _ _ => True
  | Offset2 s _ => lipwf2 s
  | Intersect2 m a b => maxK_ok m /\ lipwf2 a /\ lipwf2 b
  | Difference2 m a b => maxK_ok m /\ lipwf2 a /\ lipwf2 b
  | Cut2 s _ v => (vx v <> 0 \/ vy v <> 0) /\ lipwf2 s
  | Transform2 s m => rigid33 m /\ lipwf2 s
  | ScaleUniform2 s k => 0 < k /\ lipwf2 s
  | Array2 mk s _ _ _ => minK_ok mk /\ lipwf2 s
  | RotateUnion2 mk s _ step => minK_ok mk /\ rigid33 step /\ lipwf2 s
  | RotateCopy2 _ _ => False      (* only for mirror-symmetric operands: lip1_rotatecopy2_symmetric *)
  | Elongate2 s _ => lipwf2 s
  | Union2 mk l =>
      minK_ok mk /\
      (mk = MinDef -> forall os, omap_all (map build2 l) = Some os -> prune_ok2 os) /\
      (fix all (l : list (Shape2 ROps)) : Prop := match l with [] => True | x :: r => lipwf2 x /\ all r end) l
  | Slice2 _ _ _ => False         (* not among the listed combinators *)
  end.

Fixpoint lipwf3 (s : Shape3 ROps) : Prop :=
  match s with
  | Sphere _ | Box3D _ _ | Cylinder _ _ _ | Cone _ _ _ _ => True
  | Revolve s _ => lipwf2 s
  | Extrude s _ => lipwf2 s
  | ExtrudeRounded s _ _ => lipwf2 s
  | TwistExtrude _ _ _ | ScaleExtrude _ _ _ | ScaleTwistExtrude _ _ _ _ | Loft _ _ _ _ => False
  | Transform3 s m => rigid44 m /\ lipwf3 s
  | ScaleUniform3 s k => 0 < k /\ lipwf3 s
  | Union3 mk l =>
      minK_ok mk /\
      (fix all (l : list (Shape3 ROps)) : Prop := match l with [] => True | x :: r => lipwf3 x /\ all r end) l
  | Difference3 m a b => maxK_ok m /\ lipwf3 a /\ lipwf3 b
  | Intersect3 m a b => maxK_ok m /\ lipwf3 a /\ lipwf3 b
  | Cut3 s _ n => (wx n <> 0 \/ wy n <> 0 \/ wz n <> 0) /\ lipwf3 s
  | Elongate3 s _ => lipwf3 s
  | Array3 mk s _ _ _ _ => minK_ok mk /\ lipwf3 s
  | RotateUnion3 mk s _ step => minK_ok mk /\ rigid44 step /\ lipwf3 s
  | RotateCopy3 _ _ => False
  | Offset3 s _ => lipwf3 s
  | Shell3 s _ => lipwf3 s
  end.

Ltac bind_inv B :=
  match type of B with
  | obind ?x _ = Some _ => let a := fresh "a" in let E := fresh "E" in destruct x as [a|] eqn:E; [cbn [obind] in B | discriminate B]
  end.

Lemma omap_all_cons {A} (x : option A) r os : omap_all (x :: r) = Some os ->
  exists a r', x = Some a /\ omap_all r = Some r' /\ os = a :: r'.
Proof.
  cbn [omap_all]. destruct x as [a|]; [|discriminate]. cbn [obind].
  destruct (omap_all r) as [r'|]; [|discriminate]. cbn [obind]. intros H; injection H as <-. eauto.
Qed.

Theorem C03_lipschitz2 : forall (s : Shape2 ROps) (o : RObj2), lipwf2 s -> build2 s = Some o -> lip1_2 (ev2 o).
Proof.
  fix IH 1. intros s. destruct s; intros o W B; cbn [lipwf2 build2] in W, B.
  - eapply lip1_circle; exact B.
  - eapply lip1_box2; exact B.
  - eapply lip1_line2; exact B.
  - bind_inv B. eapply lip1_offset2; [exact B | apply (IH s); assumption].
  - destruct W as (Wm & W0 & W1). bind_inv B. bind_inv B.
    eapply lip1_intersection2; [exact Wm | exact B | apply (IH s1); assumption | apply (IH s2); assumption].
  - destruct W as (Wm & W0 & W1). bind_inv B. bind_inv B.
    eapply lip1_difference2; [exact Wm | exact B | apply (IH s1); assumption | apply (IH s2); assumption].
  - destruct W as (Wv & W0). bind_inv B. eapply lip1_cut2; [exact Wv | exact B | apply (IH s); assumption].
  - destruct W as (Wm & W0). bind_inv B. eapply lip1_transform2_rigid; [exact Wm | exact B | apply (IH s); assumption].
  - destruct W as (Wk & W0). bind_inv B. eapply lip1_scaleuniform2; [exact Wk | exact B | apply (IH s); assumption].
  - destruct W as (Wm & W0). bind_inv B. eapply lip1_array2; [exact Wm | exact B | apply (IH s); assumption].
  - destruct W as (Wm & Wr & W0). bind_inv B. eapply lip1_rotateunion2; [exact Wm | exact Wr | exact B | apply (IH s); assumption].
  - contradiction.
  - bind_inv B. eapply lip1_elongate2; [exact B | apply (IH s); assumption].
  - destruct W as (Wm & Wp & Wl). bind_inv B.
    eapply lip1_union2; [exact Wm | intros Em; exact (Wp Em a eq_refl) | exact B |].
    clear B Wp Wm o. revert a E Wl. induction l as [|x l IHl]; intros os E Wl.
    + cbn in E. injection E as <-. constructor.
    + cbn [map] in E. apply omap_all_cons in E. destruct E as (a & r' & Ea & Er & ->).
      destruct Wl as [Wx Wl]. constructor; [apply (IH x); assumption | apply IHl; assumption].
  - contradiction.
Qed.

Theorem C03_lipschitz3 : forall (s : Shape3 ROps) (o : RObj3), lipwf3 s -> build3 s = Some o -> lip1_3 (ev3 o).
Proof.
  fix IH 1. intros s. destruct s; intros o W B; cbn [lipwf3 build3] in W, B; try contradiction.
  - eapply lip1_sphere; exact B.
  - eapply lip1_box3; exact B.
  - eapply lip1_cylinder; exact B.
  - eapply lip1_cone; exact B.
  - bind_inv B. eapply lip1_revolve; [exact B | eapply C03_lipschitz2; eassumption].
  - bind_inv B. eapply lip1_extrude; [exact B | eapply C03_lipschitz2; eassumption].
  - bind_inv B. eapply lip1_extrude_rounded; [exact B | eapply C03_lipschitz2; eassumption].
  - destruct W as (Wm & W0). bind_inv B. eapply lip1_transform3_rigid; [exact Wm | exact B | apply (IH s); assumption].
  - destruct W as (Wk & W0). bind_inv B. eapply lip1_scaleuniform3; [exact Wk | exact B | apply (IH s); assumption].
  - destruct W as (Wm & Wl). bind_inv B.
    eapply lip1_union3; [exact Wm | exact B |].
    clear B Wm o. revert a E Wl. induction l as [|x l IHl]; intros os E Wl.
    + cbn in E. injection E as <-. constructor.
    + cbn [map] in E. apply omap_all_cons in E. destruct E as (a & r' & Ea & Er & ->).
      destruct Wl as [Wx Wl]. constructor; [apply (IH x); assumption | apply IHl; assumption].
  - destruct W as (Wm & W0 & W1). bind_inv B. bind_inv B.
    eapply lip1_difference3; [exact Wm | exact B | apply (IH s1); assumption | apply (IH s2); assumption].
  - destruct W as (Wm & W0 & W1). bind_inv B. bind_inv B.
    eapply lip1_intersection3; [exact Wm | exact B | apply (IH s1); assumption | apply (IH s2); assumption].
  - destruct W as (Wv & W0). bind_inv B. eapply lip1_cut3; [exact Wv | exact B | apply (IH s); assumption].
  - bind_inv B. eapply lip1_elongate3; [exact B | apply (IH s); assumption].
  - destruct W as (Wm & W0). bind_inv B. eapply lip1_array3; [exact Wm | exact B | apply (IH s); assumption].
  - destruct W as (Wm & Wr & W0). bind_inv B. eapply lip1_rotateunion3; [exact Wm | exact Wr | exact B | apply (IH s); assumption].
  - bind_inv B. eapply lip1_offset3; [exact B | apply (IH s); assumption].
  - bind_inv B. eapply lip1_shell3; [exact B | apply (IH s); assumption].
Qed.

(* ------------------------------------------------------------------ consequences *)
Theorem no_overestimate3 (f : RV3 -> R) p q : lip1_3 f -> f q = 0 -> Rabs (f p) <= dist3 p q.
Proof. intros L Hq. specialize (L p q). rewrite Hq, Rminus_0_r in L. exact L. Qed.
Theorem no_overestimate2 (f : RV2 -> R) p q : lip1_2 f -> f q = 0 -> Rabs (f p) <= dist2 p q.
Proof. intros L Hq. specialize (L p q). rewrite Hq, Rminus_0_r in L. exact L. Qed.

(* inside the ball of radius |f p| about p the field keeps the sign it has at p:
   what the octree/quadtree "isEmpty" test and sphere tracing rely on *)
Theorem ball_has_no_sign_change3 (f : RV3 -> R) p q : lip1_3 f -> dist3 p q < Rabs (f p) ->
  (0 < f p -> 0 < f q) /\ (f p < 0 -> f q < 0).
Proof.
  intros L H. specialize (L p q). apply Rabs_le_iff in L. unfold Rabs in H. destruct (Rcase_abs (f p)); split; intros; lra.
Qed.
Theorem ball_has_no_sign_change2 (f : RV2 -> R) p q : lip1_2 f -> dist2 p q < Rabs (f p) ->
  (0 < f p -> 0 < f q) /\ (f p < 0 -> f q < 0).
Proof.
  intros L H. specialize (L p q). apply Rabs_le_iff in L. unfold Rabs in H. destruct (Rcase_abs (f p)); split; intros; lra.
Qed.

(* ------------------------------------------------------------------ discharging the pruning hypotheses *)
(* prune_ok2 holds for operands whose stored box is ordered and encloses the solid, whose value
   outside is at least the distance to the box, which are 1-Lipschitz and have a point of their
   solid (value <= 0) inside their box.  (The first three are the operand classes of C01.) *)
Definition prune_operand_ok (x : RObj2) : Prop :=
  ordered2 (bb2 x) /\
  (forall p, ev2 x p < 0 -> in_box2 (bb2 x) p) /\
  (forall p, 0 <= ev2 x p -> exists q, in_box2 (bb2 x) q /\ dist2_2 p q <= ev2 x p * ev2 x p) /\
  lip1_2 (ev2 x) /\
  (exists w, in_box2 (bb2 x) w /\ ev2 x w <= 0).

Lemma dist2_sq p q : dist2 p q * dist2 p q = dist2_2 p q.
Proof. unfold dist2. rewrite len2_sq. unfold dist2_2, sub2. cbn [vx vy]. reflexivity. Qed.

Lemma dist2_2_nonneg p q : 0 <= dist2_2 p q.
Proof. rewrite <- dist2_sq. pose proof (dist2_nonneg p q). nra. Qed.
Lemma dist2_2_self p : dist2_2 p p = 0.
Proof. unfold dist2_2. rewrite !Rminus_diag_eq by reflexivity. lra. Qed.

Theorem prune_ok2_intro (l : list RObj2) : Forall prune_operand_ok l -> prune_ok2 l.
Proof.
  intros H p. unfold union2_ops. rewrite !Forall_map.
  repeat split; (eapply Forall_impl; [|exact H]); intros x (Ho & Henc & Hlb & Hlip & (w & Hw & Hw0));
  rewrite (box2_minmax_exact _ p Ho);
  destruct (spec2_is_distance_interval (bb2 x) p Ho) as (Hb & (q0 & Hq0 & E0) & _);
  set (lo := fst (spec2_minmax (bb2 x) p)) in *; set (hi := snd (spec2_minmax (bb2 x) p)) in *;
  assert (Hlo0 : 0 <= lo) by (rewrite <- E0; apply dist2_2_nonneg).
  - unfold iv_ok. cbn [fst snd]. fold lo hi. split; [exact Hlo0|]. destruct (Hb q0 Hq0). lra.
  - unfold lower_ok. destruct (spec2_minmax (bb2 x) p) as [lo' hi'] eqn:Es. cbn [fst snd] in *. subst lo hi. split.
    + intros Hx. destruct (Rlt_dec (ev2 x p) 0) as [Hn|Hn].
      * pose proof (Hb p (Henc p Hn)) as [B1 _]. rewrite dist2_2_self in B1. lra.
      * assert (Ez : ev2 x p = 0) by lra. destruct (Hlb p ltac:(lra)) as (q & Hq & Dq). pose proof (Hb q Hq) as [B1 _].
        rewrite Ez in Dq. lra.
    + intros Hx. destruct (Hlb p Hx) as (q & Hq & Dq). pose proof (Hb q Hq) as [B1 _]. lra.
  - unfold upper_ok. destruct (spec2_minmax (bb2 x) p) as [lo' hi'] eqn:Es. cbn [fst snd] in *. subst lo hi.
    destruct (Rle_dec (ev2 x p) 0) as [Hx|Hx]; [left; exact Hx | right].
    pose proof (Hlip p w) as L. apply Rabs_le_iff in L. pose proof (Hb w Hw) as [_ B2].
    rewrite <- (dist2_sq p w) in B2. pose proof (dist2_nonneg p w). nra.
Qed.
