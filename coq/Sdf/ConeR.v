(* C03: the truncated cone.  In the meridian half plane (rho, z) ConeSDF3.Evaluate is the signed
   distance to the convex region K = { |z| <= sh } /\ { (P - V0) . n <= 0 } (V0, V1 the inset
   rim vertices, n the outward slope normal).  Here: the seven branches as a case lemma, the
   support-function characterisation (supremum of min (m.(P-V0)) (m.(P-V1)) over unit m with
   m.x >= 0, attained), and from it the Lipschitz bound. *)
From Coq Require Import Reals Lra Lia List Bool ZArith Psatz.
From Sdfx Require Import Num.Ops Num.RInst Geo.Vec Geo.Box Geo.BoxR Geo.NormR Geo.MinMaxR Geo.Mat
  Sdf.Union2 Sdf.Shape Sdf.ShapeR Sdf.LipR.
Import ListNotations.
Open Scope R_scope.

(* the evaluation code of k_cone as a function of the meridian point p2 and the stored fields *)
Definition cone2 (sh sr0 sr1 ux uy l round : R) (p2 : RV2) : R :=
  let nx := uy in let ny := - ux in
  if Rleb sh (vy p2) && Rleb (vx p2) sr1 then vy p2 - sh - round
  else if Rleb (vy p2) (- sh) && Rleb (vx p2) sr0 then - vy p2 - sh - round
  else
    let v := mkV2 (vx p2 - sr0) (vy p2 - - sh) in
    let dslope := vx v * nx + vy v * ny in
    if Rltb dslope 0 && Rltb (Rabs (vy p2)) sh
    then - Rmin (- dslope) (sh - Rabs (vy p2)) - round
    else
      let t := vx v * ux + vy v * uy in
      if Rleb 0 t && Rleb t l then dslope - round
      else if Rltb t 0 then len2 v - round
      else len2 (mkV2 (vx p2 - sr1) (vy p2 - sh)) - round.

Section Cone.
  Variables sh sr0 sr1 ux uy l : R.
  Hypothesis Hu : ux * ux + uy * uy = 1.
  Hypothesis Huy : 0 < uy.
  Hypothesis Hl : 0 <= l.
  Hypothesis Hx : sr1 - sr0 = l * ux.
  Hypothesis Hz : 2 * sh = l * uy.

  Lemma sh_nonneg : 0 <= sh.
  Proof. nra. Qed.

  (* coordinates relative to the two rim vertices *)
  Definition cvx (P : RV2) := vx P - sr0.
  Definition cvz (P : RV2) := vy P + sh.
  Definition cwx (P : RV2) := vx P - sr1.
  Definition cwz (P : RV2) := vy P - sh.
  Definition ct (P : RV2) := cvx P * ux + cvz P * uy.
  Definition cdl (P : RV2) := cvx P * uy - cvz P * ux.
  Definition coneU (P : RV2) : R := cone2 sh sr0 sr1 ux uy l 0 P.

  Lemma cone2_round round P : cone2 sh sr0 sr1 ux uy l round P = coneU P - round.
  Proof.
    unfold coneU, cone2. cbv zeta.
    repeat match goal with |- context [if ?c then _ else _] => destruct c end; ring.
  Qed.

  Lemma cw_cv P : cwx P = cvx P - l * ux /\ cwz P = cvz P - l * uy.
  Proof. unfold cwx, cvx, cwz, cvz. split; lra. Qed.

  Definition notR1 P := cwz P < 0 \/ 0 < cwx P.
  Definition notR2 P := 0 < cvz P \/ 0 < cvx P.
  Definition notR3 P := 0 <= cdl P \/ cvz P <= 0 \/ 0 <= cwz P.

  Lemma cone_cases P :
    (0 <= cwz P /\ cwx P <= 0 /\ coneU P = cwz P) \/
    (cvz P <= 0 /\ cvx P <= 0 /\ coneU P = - cvz P) \/
    (cdl P < 0 /\ 0 < cvz P /\ cwz P < 0 /\ coneU P = Rmax (cdl P) (Rmax (cwz P) (- cvz P))) \/
    (notR1 P /\ notR2 P /\ notR3 P /\ 0 <= ct P <= l /\ coneU P = cdl P) \/
    (notR1 P /\ notR2 P /\ notR3 P /\ ct P < 0 /\ coneU P = len2 (mkV2 (cvx P) (cvz P))) \/
    (notR1 P /\ notR2 P /\ notR3 P /\ l < ct P /\ coneU P = len2 (mkV2 (cwx P) (cwz P))).
  Proof.
    unfold coneU, cone2, notR1, notR2, notR3, ct, cdl, cvx, cvz, cwx, cwz. cbv zeta. cbn [vx vy].
    destruct (Rleb sh (vy P)) eqn:C1; [apply Rleb_true in C1 | apply Rleb_false in C1];
    (destruct (Rleb (vx P) sr1) eqn:C2; [apply Rleb_true in C2 | apply Rleb_false in C2]); cbn [andb];
    try (left; repeat split; lra);
    (destruct (Rleb (vy P) (- sh)) eqn:C3; [apply Rleb_true in C3 | apply Rleb_false in C3]);
    (destruct (Rleb (vx P) sr0) eqn:C4; [apply Rleb_true in C4 | apply Rleb_false in C4]); cbn [andb];
    try (right; left; repeat split; lra);
    replace (vy P - - sh) with (vy P + sh) by ring;
    replace ((vx P - sr0) * uy + (vy P + sh) * - ux) with ((vx P - sr0) * uy - (vy P + sh) * ux) by ring;
    set (dl := (vx P - sr0) * uy - (vy P + sh) * ux); set (t := (vx P - sr0) * ux + (vy P + sh) * uy);
    (destruct (Rltb dl 0) eqn:C5; [apply Rltb_true in C5 | apply Rltb_false in C5]);
    (destruct (Rltb (Rabs (vy P)) sh) eqn:C6; [apply Rltb_true in C6 | apply Rltb_false in C6]); cbn [andb];
    try (right; right; left;
         assert (A1 : - sh < vy P < sh) by (unfold Rabs in C6; destruct (Rcase_abs (vy P)); lra);
         split; [lra|]; split; [lra|]; split; [lra|];
         replace (- Rmin (- dl) (sh - Rabs (vy P)) - 0) with (- Rmin (- dl) (sh - Rabs (vy P))) by ring;
         unfold Rmin, Rmax, Rabs; destruct (Rcase_abs (vy P)); repeat destruct (Rle_dec _ _); lra);
    assert (N3 : 0 <= dl \/ vy P + sh <= 0 \/ 0 <= vy P - sh)
      by (try (left; lra); unfold Rabs in C6; destruct (Rcase_abs (vy P)); lra);
    (destruct (Rleb 0 t) eqn:C7; [apply Rleb_true in C7 | apply Rleb_false in C7]);
    (destruct (Rleb t l) eqn:C8; [apply Rleb_true in C8 | apply Rleb_false in C8]); cbn [andb];
    try (right; right; right; left; repeat split; try lra; ring);
    (destruct (Rltb t 0) eqn:C9; [apply Rltb_true in C9 | apply Rltb_false in C9]); try lra;
    try (right; right; right; right; left; repeat split; try lra;
         replace (len2 (mkV2 (vx P - sr0) (vy P + sh)) - 0) with (len2 (mkV2 (vx P - sr0) (vy P + sh))) by ring; reflexivity);
    try (right; right; right; right; right; repeat split; try lra;
         replace (len2 (mkV2 (vx P - sr1) (vy P - sh)) - 0) with (len2 (mkV2 (vx P - sr1) (vy P - sh))) by ring; reflexivity).
  Qed.

  (* the support family: unit directions with a non-negative radial component *)
  Definition csup (m1 m2 : R) (P : RV2) : R :=
    Rmin (m1 * cvx P + m2 * cvz P) (m1 * cwx P + m2 * cwz P).

  (* the slope is an edge of K only between the two vertices: outside region 3 and with the foot on
     the slope segment, the point is on the outer side of the slope line *)
  Lemma slope_region_outside P : notR1 P -> notR2 P -> notR3 P -> 0 <= ct P <= l -> 0 <= cdl P.
  Proof.
    intros N1 N2 N3 [T0 T1]. destruct (cw_cv P) as [Ex Ez].
    unfold notR1, notR2, notR3, ct, cdl in *.
    set (a := cvx P) in *. set (b := cvz P) in *. rewrite Ex, Ez in *.
    destruct (Rle_dec 0 (a * uy - b * ux)) as [|Hneg]; [assumption|]. exfalso.
    assert (Hd : a * uy - b * ux < 0) by lra. clear Hneg.
    destruct N3 as [N3|[N3|N3]]; [lra| |].
    - (* below the base plane: then right of the base rim *)
      destruct N2 as [N2|N2]; [lra|].
      assert (0 <= ux). { destruct (Rle_dec 0 ux); [assumption|]. assert (a * ux < 0) by nra. nra. }
      nra.
    - (* above the top plane: then right of the top rim *)
      destruct N1 as [N1|N1]; [lra|].
      set (a' := a - l * ux) in *. set (b' := b - l * uy) in *.
      assert (T1' : a' * ux + b' * uy <= 0) by (unfold a', b'; nra).
      assert (Hd' : a' * uy - b' * ux < 0) by (unfold a', b'; nra).
      assert (ux <= 0). { destruct (Rle_dec ux 0); [assumption|]. assert (0 < a' * ux) by nra. nra. }
      nra.
  Qed.

  Lemma csup_le m1 m2 P : 0 <= m1 -> m1 * m1 + m2 * m2 = 1 -> csup m1 m2 P <= coneU P.
  Proof.
    intros H1 Hm. unfold csup. destruct (cw_cv P) as [Ex Ez]. pose proof sh_nonneg as Hsh.
    assert (Hm2 : -1 <= m2 <= 1) by nra.
    destruct (cone_cases P) as [(A & B & E)|[(A & B & E)|[(A & B & C & E)|[(N1 & N2 & N3 & T & E)|[(N1 & N2 & N3 & T & E)|(N1 & N2 & N3 & T & E)]]]]];
    rewrite E.
    - (* above the top face *)
      eapply Rle_trans; [apply Rmin_r|]. nra.
    - (* below the base *)
      eapply Rle_trans; [apply Rmin_l|]. nra.
    - (* inside *)
      set (a := cvx P) in *. set (b := cvz P) in *. set (dl := cdl P) in *.
      assert (Edl : dl = a * uy - b * ux) by reflexivity.
      set (M := Rmax dl (Rmax (cwz P) (- b))).
      assert (M1 : dl <= M) by apply Rmax_l.
      assert (M2 : cwz P <= M) by (eapply Rle_trans; [apply Rmax_l | apply Rmax_r]).
      assert (M3 : - b <= M) by (eapply Rle_trans; [apply Rmax_r | apply Rmax_r]).
      assert (M0 : M < 0) by (unfold M; repeat apply Rmax_lub_lt; lra).
      set (c := m1 * ux + m2 * uy).
      set (al := m1 / uy).
      assert (Hal : 0 <= al) by (apply Rmult_le_pos; [lra | apply Rlt_le, Rinv_0_lt_compat; lra]).
      assert (Eal : al * uy = m1) by (unfold al; field; lra).
      destruct (Rle_dec 0 c) as [Hc|Hc].
      + (* m between the slope normal and the top normal *)
        set (be := c / uy).
        assert (Hbe : 0 <= be) by (apply Rmult_le_pos; [lra | apply Rlt_le, Rinv_0_lt_compat; lra]).
        assert (Ebe : be * uy = c) by (unfold be; field; lra).
        assert (E2 : m2 = be - al * ux).
        { apply (Rmult_eq_reg_r uy); [|lra]. replace ((be - al * ux) * uy) with (be * uy - (al * uy) * ux) by ring.
          rewrite Ebe, Eal. unfold c. nra. }
        assert (Sum : 1 <= al + be).
        { assert (al * al + be * be - 2 * al * be * ux = 1).
          { rewrite <- Hm. rewrite E2. rewrite <- Eal.
            replace (al * uy * (al * uy) + (be - al * ux) * (be - al * ux))
              with (al * al * (ux * ux + uy * uy) + be * be - 2 * al * be * ux) by ring. rewrite Hu. ring. }
          assert (-1 <= ux <= 1) by nra. nra. }
        eapply Rle_trans; [apply Rmin_r|]. rewrite Ex, Ez. fold a b.
        assert (Ew : m1 * (a - l * ux) + m2 * (b - l * uy) = al * dl + be * (b - l * uy)).
        { rewrite <- Eal at 1. rewrite E2. rewrite Edl. nra. }
        rewrite Ew. rewrite Ez in M2. fold b in M2. nra.
      + (* m between the slope normal and the base normal *)
        set (be := - c / uy).
        assert (Hbe : 0 <= be) by (apply Rmult_le_pos; [lra | apply Rlt_le, Rinv_0_lt_compat; lra]).
        assert (Ebe : be * uy = - c) by (unfold be; field; lra).
        assert (E2 : m2 = - be - al * ux).
        { apply (Rmult_eq_reg_r uy); [|lra]. replace ((- be - al * ux) * uy) with (- (be * uy) - (al * uy) * ux) by ring.
          rewrite Ebe, Eal. unfold c. nra. }
        assert (Sum : 1 <= al + be).
        { assert (al * al + be * be + 2 * al * be * ux = 1).
          { rewrite <- Hm. rewrite E2. rewrite <- Eal.
            replace (al * uy * (al * uy) + (- be - al * ux) * (- be - al * ux))
              with (al * al * (ux * ux + uy * uy) + be * be + 2 * al * be * ux) by ring. rewrite Hu. ring. }
          assert (-1 <= ux <= 1) by nra. nra. }
        eapply Rle_trans; [apply Rmin_l|].
        assert (Ev : m1 * a + m2 * b = al * dl + be * (- b)).
        { rewrite <- Eal at 1. rewrite E2. rewrite Edl. nra. }
        rewrite Ev. nra.
    - (* nearest to the slope *)
      pose proof (slope_region_outside P N1 N2 N3 T) as D0.
      set (a := cvx P) in *. set (b := cvz P) in *.
      set (c := m1 * ux + m2 * uy). set (s := m1 * uy - m2 * ux).
      assert (Hcs : c * c + s * s = 1).
      { unfold c, s. transitivity ((m1 * m1 + m2 * m2) * (ux * ux + uy * uy)); [ring | rewrite Hu, Hm; ring]. }
      assert (Hs : s <= 1) by nra.
      unfold ct, cdl in *. fold a b in T, D0 |- *.
      assert (Ev : m1 * a + m2 * b = c * (a * ux + b * uy) + s * (a * uy - b * ux)).
      { unfold c, s. transitivity ((m1 * a + m2 * b) * (ux * ux + uy * uy)); [rewrite Hu; ring | ring]. }
      assert (Ew : m1 * cwx P + m2 * cwz P = c * (a * ux + b * uy - l) + s * (a * uy - b * ux)).
      { rewrite Ex, Ez. fold a b.
        replace (m1 * (a - l * ux) + m2 * (b - l * uy)) with (m1 * a + m2 * b - l * c) by (unfold c; ring).
        rewrite Ev. ring. }
      rewrite Ev, Ew. set (t := a * ux + b * uy) in *. set (dl := a * uy - b * ux) in *.
      assert (s * dl <= dl) by nra.
      destruct (Rle_dec 0 c).
      + eapply Rle_trans; [apply Rmin_r|]. nra.
      + eapply Rle_trans; [apply Rmin_l|]. nra.
    - (* nearest to the base rim *)
      eapply Rle_trans; [apply Rmin_l|].
      pose proof (dot_le_len2 (mkV2 m1 m2) (mkV2 (cvx P) (cvz P))) as D. cbn [vx vy] in D.
      rewrite (len2_unit m1 m2 Hm) in D. lra.
    - (* nearest to the top rim *)
      eapply Rle_trans; [apply Rmin_r|].
      pose proof (dot_le_len2 (mkV2 m1 m2) (mkV2 (cwx P) (cwz P))) as D. cbn [vx vy] in D.
      rewrite (len2_unit m1 m2 Hm) in D. lra.
  Qed.

  (* nearest to a rim vertex: the point is not on the axis side of that vertex *)
  Lemma base_rim_side P : notR1 P -> notR2 P -> notR3 P -> ct P < 0 -> 0 <= cvx P.
  Proof.
    intros N1 N2 N3 T. destruct (cw_cv P) as [Ex Ez].
    unfold notR1, notR2, notR3, ct, cdl in *. rewrite Ex, Ez in *.
    set (a := cvx P) in *. set (b := cvz P) in *.
    destruct (Rle_dec 0 a) as [|Hneg]; [assumption|]. exfalso. assert (Ha : a < 0) by lra. clear Hneg.
    destruct N2 as [N2|N2]; [|lra].
    assert (0 < ux). { destruct (Rlt_dec 0 ux); [assumption|]. assert (0 <= a * ux) by nra. nra. }
    assert (Hd : a * uy - b * ux < 0) by nra.
    destruct N3 as [N3|[N3|N3]]; [lra | lra |].
    destruct N1 as [N1|N1]; [lra|]. nra.
  Qed.
  Lemma top_rim_side P : notR1 P -> notR2 P -> notR3 P -> l < ct P -> 0 <= cwx P.
  Proof.
    intros N1 N2 N3 T. destruct (cw_cv P) as [Ex Ez].
    unfold notR1, notR2, notR3, ct, cdl in *.
    assert (Ea : cvx P = cwx P + l * ux) by lra. assert (Eb : cvz P = cwz P + l * uy) by lra.
    rewrite Ea, Eb in *. clear Ex Ez Ea Eb.
    set (a := cwx P) in *. set (b := cwz P) in *.
    destruct (Rle_dec 0 a) as [|Hneg]; [assumption|]. exfalso. assert (Ha : a < 0) by lra. clear Hneg.
    destruct N1 as [N1|N1]; [|lra].
    assert (T' : 0 < a * ux + b * uy) by nra.
    assert (ux < 0). { destruct (Rlt_dec ux 0); [assumption|]. assert (a * ux <= 0) by nra. nra. }
    assert (Hd : (a + l * ux) * uy - (b + l * uy) * ux < 0) by nra.
    destruct N3 as [N3|[N3|N3]]; [lra | | lra].
    destruct N2 as [N2|N2]; [lra|]. nra.
  Qed.

  Lemma csup_attained P : exists m1 m2, 0 <= m1 /\ m1 * m1 + m2 * m2 = 1 /\ csup m1 m2 P = coneU P.
  Proof.
    unfold csup. destruct (cw_cv P) as [Ex Ez]. pose proof sh_nonneg as Hsh.
    destruct (cone_cases P) as [(A & B & E)|[(A & B & E)|[(A & B & C & E)|[(N1 & N2 & N3 & T & E)|[(N1 & N2 & N3 & T & E)|(N1 & N2 & N3 & T & E)]]]]];
    rewrite E.
    - exists 0, 1. split; [lra|]. split; [ring|]. rewrite Rmin_right; [ring | nra].
    - exists 0, (-1). split; [lra|]. split; [ring|]. rewrite Rmin_left; [ring | nra].
    - (* inside: the face that is nearest *)
      destruct (Rmax_case_eq (cdl P) (Rmax (cwz P) (- cvz P))) as [[E1 _]|[E1 _]]; rewrite E1.
      + exists uy, (- ux). split; [lra|]. split; [nra|].
        replace (uy * cwx P + - ux * cwz P) with (uy * cvx P + - ux * cvz P) by (rewrite Ex, Ez; ring).
        rewrite Rmin_left by lra. unfold cdl. ring.
      + destruct (Rmax_case_eq (cwz P) (- cvz P)) as [[E2 _]|[E2 _]]; rewrite E2.
        * exists 0, 1. split; [lra|]. split; [ring|]. rewrite Rmin_right; [ring | nra].
        * exists 0, (-1). split; [lra|]. split; [ring|]. rewrite Rmin_left; [ring | nra].
    - exists uy, (- ux). split; [lra|]. split; [nra|].
      replace (uy * cwx P + - ux * cwz P) with (uy * cvx P + - ux * cvz P) by (rewrite Ex, Ez; ring).
      rewrite Rmin_left by lra. unfold cdl. ring.
    - (* base rim: the direction from the vertex to P *)
      pose proof (base_rim_side P N1 N2 N3 T) as Hside.
      set (a := cvx P) in *. set (b := cvz P) in *. set (L := len2 (mkV2 a b)).
      assert (HL : 0 < L).
      { apply len2_pos_iff. cbn [vx vy]. unfold ct in T. fold a b in T.
        destruct (Req_dec a 0) as [Ea|Ea]; [|nra]. destruct (Req_dec b 0) as [Eb|Eb]; [|nra]. rewrite Ea, Eb in T. lra. }
      pose proof (len2_sq (mkV2 a b)) as S. cbn [vx vy] in S. fold L in S.
      exists (a / L), (b / L).
      split; [apply Rmult_le_pos; [lra | apply Rlt_le, Rinv_0_lt_compat; lra]|].
      split.
      + replace (a / L * (a / L) + b / L * (b / L)) with ((a * a + b * b) / (L * L)) by (field; lra). rewrite <- S. field; lra.
      + assert (E1 : a / L * a + b / L * b = L).
        { replace (a / L * a + b / L * b) with ((a * a + b * b) / L) by (field; lra). rewrite <- S. field; lra. }
        rewrite Ex, Ez. fold a b.
        replace (a / L * (a - l * ux) + b / L * (b - l * uy)) with (a / L * a + b / L * b - l * ((a * ux + b * uy) / L)) by (field; lra).
        rewrite E1. rewrite Rmin_left; [reflexivity|].
        unfold ct in T. fold a b in T.
        assert (0 <= - ((a * ux + b * uy) / L)).
        { replace (- ((a * ux + b * uy) / L)) with (- (a * ux + b * uy) * / L) by (field; lra).
          apply Rmult_le_pos; [lra | apply Rlt_le, Rinv_0_lt_compat; lra]. }
        nra.
    - (* top rim *)
      pose proof (top_rim_side P N1 N2 N3 T) as Hside.
      assert (Ea : cvx P = cwx P + l * ux) by lra. assert (Eb : cvz P = cwz P + l * uy) by lra.
      set (a := cwx P) in *. set (b := cwz P) in *. set (L := len2 (mkV2 a b)).
      assert (T' : 0 < a * ux + b * uy). { unfold ct in T. rewrite Ea, Eb in T. nra. }
      assert (HL : 0 < L).
      { apply len2_pos_iff. cbn [vx vy].
        destruct (Req_dec a 0) as [Ea0|Ea0]; [|nra]. destruct (Req_dec b 0) as [Eb0|Eb0]; [|nra]. rewrite Ea0, Eb0 in T'. lra. }
      pose proof (len2_sq (mkV2 a b)) as S. cbn [vx vy] in S. fold L in S.
      exists (a / L), (b / L).
      split; [apply Rmult_le_pos; [lra | apply Rlt_le, Rinv_0_lt_compat; lra]|].
      split.
      + replace (a / L * (a / L) + b / L * (b / L)) with ((a * a + b * b) / (L * L)) by (field; lra). rewrite <- S. field; lra.
      + assert (E1 : a / L * a + b / L * b = L).
        { replace (a / L * a + b / L * b) with ((a * a + b * b) / L) by (field; lra). rewrite <- S. field; lra. }
        rewrite Ea, Eb.
        replace (a / L * (a + l * ux) + b / L * (b + l * uy)) with (a / L * a + b / L * b + l * ((a * ux + b * uy) / L)) by (field; lra).
        rewrite E1. rewrite Rmin_right; [reflexivity|].
        assert (0 <= (a * ux + b * uy) / L) by (apply Rmult_le_pos; [lra | apply Rlt_le, Rinv_0_lt_compat; lra]).
        nra.
  Qed.

  (* every member of the family is 1-Lipschitz *)
  Lemma csup_lip m1 m2 : m1 * m1 + m2 * m2 = 1 -> lip1_2 (csup m1 m2).
  Proof.
    intros Hm. unfold csup. apply (lipd_min dist2).
    - apply (lipd_ext dist2 (fun P => (vx P - sr0) * m1 + (vy P - - sh) * m2)).
      + intros P. unfold cvx, cvz. ring.
      + apply halfplane_lip; exact Hm.
    - apply (lipd_ext dist2 (fun P => (vx P - sr1) * m1 + (vy P - sh) * m2)).
      + intros P. unfold cwx, cwz. ring.
      + apply halfplane_lip; exact Hm.
  Qed.

  Theorem coneU_lip : lip1_2 coneU.
  Proof.
    assert (Hh : forall P Q, coneU P - coneU Q <= dist2 P Q).
    { intros P Q. destruct (csup_attained P) as (m1 & m2 & H1 & Hm & E).
      pose proof (csup_le m1 m2 Q H1 Hm) as LQ. pose proof (csup_lip m1 m2 Hm P Q) as L.
      apply Rabs_le_iff in L. lra. }
    intros P Q. apply Rabs_le. split.
    - pose proof (Hh Q P) as H. rewrite (dist2_sym Q P) in H. lra.
    - apply Hh.
  Qed.

  (* ---------------------------------------------------------------- the solid, its boundary, nearest points *)
  Definition inK (X : RV2) : Prop := cdl X <= 0 /\ 0 <= cvz X /\ cwz X <= 0.
  Definition coneS (X : RV2) : Prop := cdl X < 0 /\ 0 < cvz X /\ cwz X < 0.
  Definition coneB (X : RV2) : Prop := inK X /\ (cdl X = 0 \/ cvz X = 0 \/ cwz X = 0).

  (* coordinates along and across the slope *)
  Lemma slope_coords X : cvx X = ct X * ux + cdl X * uy /\ cvz X = ct X * uy - cdl X * ux.
  Proof.
    unfold ct, cdl. split.
    - transitivity (cvx X * (ux * ux + uy * uy)); [rewrite Hu; ring | ring].
    - transitivity (cvz X * (ux * ux + uy * uy)); [rewrite Hu; ring | ring].
  Qed.

  Lemma coneU_sign X : coneU X < 0 <-> coneS X.
  Proof.
    unfold coneS. destruct (cw_cv X) as [Ex Ez].
    destruct (cone_cases X) as [(A & B & E)|[(A & B & E)|[(A & B & C & E)|[(N1 & N2 & N3 & T & E)|[(N1 & N2 & N3 & T & E)|(N1 & N2 & N3 & T & E)]]]]];
    rewrite E.
    - split; intros; lra.
    - split; intros; lra.
    - split; [intros _; repeat split; lra|]. intros _. repeat apply Rmax_lub_lt; lra.
    - pose proof (slope_region_outside X N1 N2 N3 T). split; intros; lra.
    - pose proof (len2_nonneg (mkV2 (cvx X) (cvz X))). split; [intros; lra|]. intros (H1 & H2 & H3).
      unfold notR3 in N3. lra.
    - pose proof (len2_nonneg (mkV2 (cwx X) (cwz X))). split; [intros; lra|]. intros (H1 & H2 & H3).
      unfold notR3 in N3. lra.
  Qed.

  Lemma coneU_nonpos_inK X : inK X -> coneU X <= 0.
  Proof.
    intros (K1 & K2 & K3). destruct (cw_cv X) as [Ex Ez]. destruct (slope_coords X) as [Sx Sz].
    destruct (cone_cases X) as [(A & B & E)|[(A & B & E)|[(A & B & C & E)|[(N1 & N2 & N3 & T & E)|[(N1 & N2 & N3 & T & E)|(N1 & N2 & N3 & T & E)]]]]];
    rewrite E; try lra.
    - repeat apply Rmax_lub; lra.
    - (* base rim region: impossible inside K *)
      exfalso. unfold notR1, notR2, notR3 in *. destruct N3 as [N3|[N3|N3]].
      + assert (cdl X = 0) by lra. nra.
      + assert (Ev : cvz X = 0) by lra. destruct N2 as [N2|N2]; [lra|]. unfold cdl in K1. rewrite Ev in K1. nra.
      + assert (Ew : cwz X = 0) by lra. destruct N1 as [N1|N1]; [lra|].
        assert (cdl X = cwx X * uy - cwz X * ux) by (unfold cdl; rewrite Ex, Ez; ring). nra.
    - exfalso. unfold notR1, notR2, notR3 in *. destruct N3 as [N3|[N3|N3]].
      + assert (Ed : cdl X = 0) by lra. rewrite Ed in Sz. assert (cwz X = (ct X - l) * uy) by (rewrite Ez, Sz; ring). nra.
      + assert (Ev : cvz X = 0) by lra. destruct N2 as [N2|N2]; [lra|]. unfold cdl in K1. rewrite Ev in K1. nra.
      + assert (Ew : cwz X = 0) by lra. destruct N1 as [N1|N1]; [lra|].
        assert (cdl X = cwx X * uy - cwz X * ux) by (unfold cdl; rewrite Ex, Ez; ring). nra.
  Qed.

  Lemma coneB_zero X : coneB X -> coneU X = 0.
  Proof.
    intros [K Hb]. apply Rle_antisym; [apply coneU_nonpos_inK; exact K|].
    destruct K as (K1 & K2 & K3). destruct (cw_cv X) as [Ex Ez]. destruct Hb as [Hb|[Hb|Hb]].
    - eapply Rle_trans; [|apply (csup_le uy (- ux) X); [lra | nra]].
      unfold csup. replace (uy * cwx X + - ux * cwz X) with (uy * cvx X + - ux * cvz X) by (rewrite Ex, Ez; ring).
      rewrite Rmin_left by lra. unfold cdl in Hb. lra.
    - eapply Rle_trans; [|apply (csup_le 0 (-1) X); [lra | ring]].
      unfold csup. rewrite Rmin_left by nra. lra.
    - eapply Rle_trans; [|apply (csup_le 0 1 X); [lra | ring]].
      unfold csup. rewrite Rmin_right by nra. lra.
  Qed.

  Definition shift2 (P : RV2) (k m1 m2 : R) : RV2 := mkV2 (vx P + k * m1) (vy P + k * m2).
  Lemma shift_coords P k m1 m2 :
    cvx (shift2 P k m1 m2) = cvx P + k * m1 /\ cvz (shift2 P k m1 m2) = cvz P + k * m2 /\
    cwx (shift2 P k m1 m2) = cwx P + k * m1 /\ cwz (shift2 P k m1 m2) = cwz P + k * m2 /\
    cdl (shift2 P k m1 m2) = cdl P + k * (m1 * uy - m2 * ux) /\
    ct (shift2 P k m1 m2) = ct P + k * (m1 * ux + m2 * uy).
  Proof. unfold cdl, ct, cvx, cvz, cwx, cwz, shift2. cbn [vx vy]. repeat split; ring. Qed.

  (* the nearest point b = P - U(P) m lies on the closed solid, and on the non-negative side of the
     axis when P does and the rim radii are non-negative *)
  Lemma cone_nearest P : exists m1 m2, 0 <= m1 /\ m1 * m1 + m2 * m2 = 1 /\ csup m1 m2 P = coneU P /\
    inK (shift2 P (- coneU P) m1 m2) /\
    (0 <= sr0 -> 0 <= sr1 -> 0 <= vx P -> 0 <= vx (shift2 P (- coneU P) m1 m2)).
  Proof.
    unfold csup, inK. destruct (cw_cv P) as [Ex Ez]. pose proof sh_nonneg as Hsh. destruct (slope_coords P) as [Sx Sz].
    assert (Hux : -1 <= ux <= 1) by nra.
    destruct (cone_cases P) as [(A & B & E)|[(A & B & E)|[(A & B & C & E)|[(N1 & N2 & N3 & T & E)|[(N1 & N2 & N3 & T & E)|(N1 & N2 & N3 & T & E)]]]]];
    rewrite E.
    - exists 0, 1. split; [lra|]. split; [ring|]. split; [rewrite Rmin_right; [ring | nra]|].
      destruct (shift_coords P (- cwz P) 0 1) as (S1 & S2 & S3 & S4 & S5 & S6). rewrite S5, S2, S4. cbn [shift2 vx].
      split; [|intros; lra]. unfold cdl. rewrite Ex, Ez in *. split; [nra|]. split; nra.
    - exists 0, (-1). split; [lra|]. split; [ring|]. split; [rewrite Rmin_left; [ring | nra]|].
      destruct (shift_coords P (- - cvz P) 0 (-1)) as (S1 & S2 & S3 & S4 & S5 & S6). rewrite S5, S2, S4. cbn [shift2 vx].
      split; [|intros; lra]. unfold cdl. rewrite Ez in *. split; [nra|]. split; nra.
    - (* inside *)
      destruct (Rmax_case_eq (cdl P) (Rmax (cwz P) (- cvz P))) as [[E1 G1]|[E1 G1]]; rewrite E1.
      + assert (G2 : cwz P <= cdl P) by (eapply Rle_trans; [apply Rmax_l | exact G1]).
        assert (G3 : - cvz P <= cdl P) by (eapply Rle_trans; [apply Rmax_r | exact G1]).
        exists uy, (- ux). split; [lra|]. split; [nra|]. split.
        { replace (uy * cwx P + - ux * cwz P) with (uy * cvx P + - ux * cvz P) by (rewrite Ex, Ez; ring).
          rewrite Rmin_left by lra. unfold cdl. ring. }
        destruct (shift_coords P (- cdl P) uy (- ux)) as (S1 & S2 & S3 & S4 & S5 & S6). rewrite S5, S2, S4. cbn [shift2 vx].
        split; [|intros; nra].
        split; [apply Req_le; transitivity (cdl P - cdl P * (ux * ux + uy * uy)); [ring | rewrite Hu; ring]|].
        split; nra.
      + destruct (Rmax_case_eq (cwz P) (- cvz P)) as [[E2 G2]|[E2 G2]]; rewrite E2 in *.
        * exists 0, 1. split; [lra|]. split; [ring|]. split; [rewrite Rmin_right; [ring | nra]|].
          destruct (shift_coords P (- cwz P) 0 1) as (S1 & S2 & S3 & S4 & S5 & S6). rewrite S5, S2, S4. cbn [shift2 vx].
          split; [|intros; lra]. split; [nra|]. split; nra.
        * exists 0, (-1). split; [lra|]. split; [ring|]. split; [rewrite Rmin_left; [ring | nra]|].
          destruct (shift_coords P (- - cvz P) 0 (-1)) as (S1 & S2 & S3 & S4 & S5 & S6). rewrite S5, S2, S4. cbn [shift2 vx].
          split; [|intros; lra]. split; [nra|]. split; nra.
    - (* slope *)
      pose proof (slope_region_outside P N1 N2 N3 T) as D0.
      exists uy, (- ux). split; [lra|]. split; [nra|]. split.
      { replace (uy * cwx P + - ux * cwz P) with (uy * cvx P + - ux * cvz P) by (rewrite Ex, Ez; ring).
        rewrite Rmin_left by lra. unfold cdl. ring. }
      destruct (shift_coords P (- cdl P) uy (- ux)) as (S1 & S2 & S3 & S4 & S5 & S6). rewrite S5, S2, S4.
      assert (Ed : cdl P + - cdl P * (uy * uy - - ux * ux) = 0) by (transitivity (cdl P - cdl P * (ux * ux + uy * uy)); [ring | rewrite Hu; ring]).
      assert (Ev : cvz P + - cdl P * - ux = ct P * uy) by (rewrite Sz; ring).
      split.
      { split; [lra|]. split; [rewrite Ev; nra|]. rewrite Ez. replace (cvz P - l * uy + - cdl P * - ux) with (cvz P + - cdl P * - ux - l * uy) by ring. rewrite Ev. nra. }
      intros H0 H1 HP. cbn [shift2 vx].
      assert (Eb : vx P + - cdl P * uy = sr0 + ct P * ux).
      { unfold cvx in Sx. replace (vx P) with (sr0 + (ct P * ux + cdl P * uy)) by lra. ring. }
      rewrite Eb. destruct (Rle_dec 0 ux); [nra|]. assert (ct P * ux >= l * ux) by nra. lra.
    - (* base rim *)
      pose proof (base_rim_side P N1 N2 N3 T) as Hside.
      set (a := cvx P) in *. set (b := cvz P) in *. set (L := len2 (mkV2 a b)).
      assert (HL : 0 < L).
      { apply len2_pos_iff. cbn [vx vy]. unfold ct in T. fold a b in T.
        destruct (Req_dec a 0) as [Ea|Ea]; [|nra]. destruct (Req_dec b 0) as [Eb|Eb]; [|nra]. rewrite Ea, Eb in T. lra. }
      pose proof (len2_sq (mkV2 a b)) as S. cbn [vx vy] in S. fold L in S.
      exists (a / L), (b / L).
      assert (La : L * (a / L) = a) by (field; lra). assert (Lb : L * (b / L) = b) by (field; lra).
      split; [apply Rmult_le_pos; [lra | apply Rlt_le, Rinv_0_lt_compat; lra]|].
      split.
      { replace (a / L * (a / L) + b / L * (b / L)) with ((a * a + b * b) / (L * L)) by (field; lra). rewrite <- S. field; lra. }
      split.
      { assert (E1 : a / L * a + b / L * b = L).
        { replace (a / L * a + b / L * b) with ((a * a + b * b) / L) by (field; lra). rewrite <- S. field; lra. }
        rewrite Ex, Ez. fold a b.
        replace (a / L * (a - l * ux) + b / L * (b - l * uy)) with (a / L * a + b / L * b - l * ((a * ux + b * uy) / L)) by (field; lra).
        rewrite E1. rewrite Rmin_left; [reflexivity|].
        unfold ct in T. fold a b in T.
        assert (0 <= - ((a * ux + b * uy) / L)).
        { replace (- ((a * ux + b * uy) / L)) with (- (a * ux + b * uy) * / L) by (field; lra).
          apply Rmult_le_pos; [lra | apply Rlt_le, Rinv_0_lt_compat; lra]. }
        nra. }
      destruct (shift_coords P (- L) (a / L) (b / L)) as (S1 & S2 & S3 & S4 & S5 & S6). rewrite S5, S2, S4. cbn [shift2 vx].
      fold a b. rewrite Ez. fold b.
      assert (Z1 : a + - L * (a / L) = 0) by lra. assert (Z2 : b + - L * (b / L) = 0) by lra.
      split.
      { split.
        - unfold cdl. fold a b. replace (a * uy - b * ux + - L * (a / L * uy - b / L * ux)) with ((a + - L * (a / L)) * uy - (b + - L * (b / L)) * ux) by ring.
          rewrite Z1, Z2. lra.
        - split; [lra|]. replace (b - l * uy + - L * (b / L)) with (b + - L * (b / L) - l * uy) by ring. rewrite Z2. nra. }
      intros H0 H1 HP. replace (vx P + - L * (a / L)) with (sr0 + (a + - L * (a / L))) by (unfold a, cvx; ring). rewrite Z1. lra.
    - (* top rim *)
      pose proof (top_rim_side P N1 N2 N3 T) as Hside.
      assert (Ea : cvx P = cwx P + l * ux) by lra. assert (Eb : cvz P = cwz P + l * uy) by lra.
      set (a := cwx P) in *. set (b := cwz P) in *. set (L := len2 (mkV2 a b)).
      assert (T' : 0 < a * ux + b * uy). { unfold ct in T. rewrite Ea, Eb in T. nra. }
      assert (HL : 0 < L).
      { apply len2_pos_iff. cbn [vx vy].
        destruct (Req_dec a 0) as [Ea0|Ea0]; [|nra]. destruct (Req_dec b 0) as [Eb0|Eb0]; [|nra]. rewrite Ea0, Eb0 in T'. lra. }
      pose proof (len2_sq (mkV2 a b)) as S. cbn [vx vy] in S. fold L in S.
      exists (a / L), (b / L).
      assert (La : L * (a / L) = a) by (field; lra). assert (Lb : L * (b / L) = b) by (field; lra).
      split; [apply Rmult_le_pos; [lra | apply Rlt_le, Rinv_0_lt_compat; lra]|].
      split.
      { replace (a / L * (a / L) + b / L * (b / L)) with ((a * a + b * b) / (L * L)) by (field; lra). rewrite <- S. field; lra. }
      split.
      { assert (E1 : a / L * a + b / L * b = L).
        { replace (a / L * a + b / L * b) with ((a * a + b * b) / L) by (field; lra). rewrite <- S. field; lra. }
        rewrite Ea, Eb.
        replace (a / L * (a + l * ux) + b / L * (b + l * uy)) with (a / L * a + b / L * b + l * ((a * ux + b * uy) / L)) by (field; lra).
        rewrite E1. rewrite Rmin_right; [reflexivity|].
        assert (0 <= (a * ux + b * uy) / L) by (apply Rmult_le_pos; [lra | apply Rlt_le, Rinv_0_lt_compat; lra]).
        nra. }
      destruct (shift_coords P (- L) (a / L) (b / L)) as (S1 & S2 & S3 & S4 & S5 & S6). rewrite S5, S2, S4. cbn [shift2 vx].
      fold a b. rewrite Eb.
      assert (Z1 : a + - L * (a / L) = 0) by lra. assert (Z2 : b + - L * (b / L) = 0) by lra.
      split.
      { split.
        - unfold cdl. rewrite Ea, Eb.
          replace ((a + l * ux) * uy - (b + l * uy) * ux + - L * (a / L * uy - b / L * ux)) with ((a + - L * (a / L)) * uy - (b + - L * (b / L)) * ux) by ring.
          rewrite Z1, Z2. lra.
        - split; [|lra]. replace (b + l * uy + - L * (b / L)) with (b + - L * (b / L) + l * uy) by ring. rewrite Z2. nra. }
      intros H0 H1 HP. replace (vx P + - L * (a / L)) with (sr1 + (a + - L * (a / L))) by (unfold a, cwx; ring). rewrite Z1. lra.
  Qed.

  (* along the normal through the nearest point the value grows with unit speed *)
  Lemma cone_ray b m1 m2 t : inK b -> 0 <= m1 -> m1 * m1 + m2 * m2 = 1 -> csup m1 m2 b = 0 -> 0 <= t ->
    coneU (shift2 b t m1 m2) = t.
  Proof.
    intros K M1 Hm C0 Ht. apply Rle_antisym.
    - pose proof (coneU_lip (shift2 b t m1 m2) b) as L. apply Rabs_le_iff in L.
      assert (Ed : dist2 (shift2 b t m1 m2) b = t).
      { unfold dist2, sub2, shift2. cbn [vx vy].
        replace (vx b + t * m1 - vx b) with (t * m1) by ring. replace (vy b + t * m2 - vy b) with (t * m2) by ring.
        unfold len2; cbn [vx vy]. replace (t * m1 * (t * m1) + t * m2 * (t * m2)) with (t * t * (m1 * m1 + m2 * m2)) by ring.
        rewrite Hm, Rmult_1_r. apply sqrt_square; exact Ht. }
      pose proof (coneU_nonpos_inK b K). lra.
    - eapply Rle_trans; [|apply (csup_le m1 m2 _ M1 Hm)].
      unfold csup in *. destruct (shift_coords b t m1 m2) as (S1 & S2 & S3 & S4 & _). rewrite S1, S2, S3, S4.
      replace (m1 * (cvx b + t * m1) + m2 * (cvz b + t * m2)) with (m1 * cvx b + m2 * cvz b + t * (m1 * m1 + m2 * m2)) by ring.
      replace (m1 * (cwx b + t * m1) + m2 * (cwz b + t * m2)) with (m1 * cwx b + m2 * cwz b + t * (m1 * m1 + m2 * m2)) by ring.
      rewrite Hm. unfold Rmin in *. repeat destruct (Rle_dec _ _); lra.
  Qed.
End Cone.

(* ------------------------------------------------------------------ the fields Cone3D stores *)
Ltac rops :=
  change (omul ROps) with Rmult in *; change (odiv ROps) with Rdiv in *; change (oadd ROps) with Rplus in *;
  change (osub ROps) with Rminus in *; change (oneg ROps) with Ropp in *; change (o1 ROps) with 1 in *;
  change (o0 ROps) with 0 in *; change (T ROps) with R in *.

Record cone_fields (sh sr0 sr1 ux uy l : R) : Prop := {
  cf_unit : ux * ux + uy * uy = 1;
  cf_uy : 0 < uy;
  cf_l : 0 <= l;
  cf_x : sr1 - sr0 = l * ux;
  cf_z : 2 * sh = l * uy
}.

Lemma k_cone_fields h r0 r1 round o : k_cone h r0 r1 round = Some o ->
  exists sh sr0 sr1 ux uy l, cone_fields sh sr0 sr1 ux uy l /\ 0 < h /\ 0 <= round /\ sh = h / 2 - round /\
    ux * h = uy * (r1 - r0) /\
    sr0 = r0 - (1 - ux) * (round / uy) /\ sr1 = r1 - (1 + ux) * (round / uy) /\
    forall p, ev3 o p = cone2 sh sr0 sr1 ux uy l round (mer p).
Proof.
  unfold k_cone.
  destruct (oleb ROps h (o0 ROps)) eqn:C1; [discriminate|]. apply Rleb_false in C1.
  destruct (oltb ROps round (o0 ROps)) eqn:C2; [discriminate|]. apply Rltb_false in C2.
  destruct (oltb ROps h _) eqn:C3; [discriminate|]. apply Rltb_false in C3.
  unfold two in C3. cbn in C1, C2, C3.
  intros H. injection H as <-.
  set (D := @v2sub ROps (mkV2 r1 (h / two)%o) (mkV2 r0 (- (h / two))%o)).
  assert (ED : vx D = r1 - r0 /\ vy D = h). { unfold D, v2sub, two. cbn. split; [reflexivity | field]. }
  destruct ED as [EDx EDy].
  set (u := v2normalize D).
  assert (HD : vx D <> 0 \/ vy D <> 0) by (right; lra).
  pose proof (normalize2_unit D HD) as Hu. fold u in Hu.
  assert (HL : 0 < len2 D). { apply len2_pos_iff. rewrite EDy. nra. }
  assert (Eux : vx u = (r1 - r0) / len2 D).
  { unfold u, v2normalize, v2muls. cbn [vx vy]. change (@v2len ROps D) with (len2 D). rewrite EDx. rops. field; lra. }
  assert (Euy : vy u = h / len2 D).
  { unfold u, v2normalize, v2muls. cbn [vx vy]. change (@v2len ROps D) with (len2 D). rewrite EDy. rops. field; lra. }
  assert (Huy : 0 < vy u). { rewrite Euy. apply Rmult_lt_0_compat; [lra | apply Rinv_0_lt_compat; lra]. }
  set (sh := h / 2 - round).
  set (sr0 := r0 - (1 + - vx u) * (round / vy u)).
  set (sr1 := r1 - (1 - - vx u) * (round / vy u)).
  set (lam := (h - 2 * round) / h).
  assert (Hlam : 0 <= lam) by (apply Rmult_le_pos; [lra | apply Rlt_le, Rinv_0_lt_compat; lra]).
  assert (Ex : sr1 - sr0 = lam * len2 D * vx u).
  { unfold sr1, sr0, lam. rewrite Eux, Euy. field. lra. }
  assert (Ez : 2 * sh = lam * len2 D * vy u).
  { unfold sh, lam. rewrite Euy. field. lra. }
  set (l := len2 (mkV2 (sr1 - sr0) (sh - - sh))).
  assert (El : l = lam * len2 D).
  { assert (0 <= lam * len2 D) by nra. pose proof (len2_nonneg (mkV2 (sr1 - sr0) (sh - - sh))) as Hn. fold l in Hn.
    pose proof (len2_sq (mkV2 (sr1 - sr0) (sh - - sh))) as S. fold l in S. cbn [vx vy] in S.
    replace (sh - - sh) with (2 * sh) in S by ring. rewrite Ex, Ez in S.
    assert (l * l = (lam * len2 D) * (lam * len2 D)) by (rewrite S; transitivity ((lam * len2 D) * (lam * len2 D) * (vx u * vx u + vy u * vy u)); [ring | rewrite Hu; ring]).
    nra. }
  exists sh, sr0, sr1, (vx u), (vy u), l.
  split; [constructor; try assumption; [unfold l; apply len2_nonneg | rewrite El; exact Ex | rewrite El; exact Ez]|].
  split; [lra|]. split; [lra|]. split; [reflexivity|].
  split; [rewrite Eux, Euy; field; lra|]. split; [unfold sr0; ring|]. split; [unfold sr1; ring|].
  intros p. reflexivity.
Qed.

Lemma lip1_cone h r0 r1 round o : k_cone h r0 r1 round = Some o -> lip1_3 (ev3 o).
Proof.
  intros H. destruct (k_cone_fields _ _ _ _ _ H) as (sh & sr0 & sr1 & ux & uy & l & F & _ & _ & _ & _ & _ & _ & E).
  apply (lipd_ext dist3 (fun p => cone2 sh sr0 sr1 ux uy l round (mer p))); [intros p; symmetry; apply E|].
  destruct F as [Hu Huy Hl Hx Hz].
  apply (lipd_ext dist3 (fun p => coneU sh sr0 sr1 ux uy l (mer p) - round)).
  { intros p. symmetry. apply cone2_round. }
  apply (lipd_sub dist3). apply (lip1_comp32 _ mer); [|apply mer_nonexp].
  apply (coneU_lip sh sr0 sr1 ux uy l Hu Huy Hl Hx Hz).
Qed.
