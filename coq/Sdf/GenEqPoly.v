(* The syntactic tie for sdf/mesh2.go: the per-segment functions of the polygon SDF
   (newLineInfo, lineInfo.minDistance2, lineInfo.winding), translated from the Go AST of the current source tree
   (harness/sdfgen -> Generated/SdfExpr.v), are equal to the model functions of Sdf/Poly.v for all
   segments and points, over an arbitrary Ops.  The receiver fields (line, unitVector, length) are
   the parameters of the generated definitions; a *Line2 is the pair of its end points. *)
From Coq Require Import ZArith List Bool.
From Sdfx Require Import Num.Ops Num.Loop Geo.Vec Geo.Box Sdf.Poly Generated.SdfExpr Sdf.GenEqTac.
Import OpsNotations ListNotations.
Local Open Scope ops_scope.

Section GenEqPoly.
  Context {O : Ops}.

  (* newLineInfo: the struct it returns is the tuple (line, unitVector, length) of its fields *)
  Definition li_of (x : (V2 O * V2 O) * V2 O * T O) : @LineInfo O :=
    mkLI (fst (fst (fst x))) (snd (fst (fst x))) (snd (fst x)) (snd x).
  Lemma newLineInfo_eq : forall l : @Seg O, li_of (sdf_newLineInfo l) = new_line_info l.
  Proof. intros. unfold sdf_newLineInfo, new_line_info, li_of. same_as TRANSL_newLineInfo. Qed.

  Lemma lineInfo_minDistance2_eq : forall (a : @LineInfo O) (p : V2 O),
    sdf_lineInfo_minDistance2 (li_a a, li_b a) (li_u a) (li_len a) p = min_distance2 a p.
  Proof. intros. unfold sdf_lineInfo_minDistance2, min_distance2. same_as TRANSL_lineInfo_minDistance2. Qed.

  Lemma lineInfo_winding_eq : forall (a : @LineInfo O) (p : V2 O),
    sdf_lineInfo_winding (li_a a, li_b a) (li_u a) p = winding a p.
  Proof. intros. unfold sdf_lineInfo_winding, winding. same_as TRANSL_lineInfo_winding. Qed.
End GenEqPoly.
