(* Correspondence for C18: the FOps instance of Sdf/Screw.v and of the generated thread
   database functions against what sdf.ThreadLookup / ToMillimetre / Screw3D / ISOThread
   returned in the run that wrote the cases file. *)
From Coq Require Import List ZArith NArith QArith Floats Bool String.
From Sdfx Require Import Num.Ops.
From Sdfx Require Import Num.FInst.
From Sdfx Require Import Num.QInst.
From Sdfx Require Import Geo.Vec.
From Sdfx Require Import Sdf.Screw.
From Sdfx Require Import Generated.Threads.
Import ListNotations.

Definition fv2 (x y : float) : V2 FOps := mkV2 x y.
Definition fv3 (x y z : float) : V3 FOps := mkV3 x y z.

(* float64(c) of an exact constant c = n/d with n, d < 2^53: one correctly rounded division *)
Definition q2f (q : Q) : float := @cst FOps (Qnum q) (Zpos (Qden q)).
Definition q2q (q : Q) : Q := @cst QOps (Qnum q) (Zpos (Qden q)).
Definition q_small (q : Q) : bool := (Z.abs (Qnum q) <? 2 ^ 53)%Z && (Zpos (Qden q) <? 2 ^ 53)%Z.

(* the row the Go map holds for a key: the LAST call with that name *)
Definition find_row (name : string) : option (string * addfn * (Q * Q * Q)) :=
  fold_left (fun acc row => let '(n, _, _) := row in if String.eqb n name then Some row else acc)
            thread_rows None.

(* |g - s| <= 2^-52 |s| : g is the float nearest to s up to one more rounding *)
Definition qnear (g : float) (s : Q) : bool :=
  Qle_bool (Qabs.Qabs (F2Q g - s)) ((1 # 2 ^ 52) * Qabs.Qabs s).

(* ---- database case: id, name, ThreadLookup fields (radius, pitch, taper, ftof), units,
        the same after ToMillimetre *)
Definition cased := (N * string * (float * float * float * float) * string *
                     (float * float * float * float) * string)%type.
Definition same_fields (t : ThreadParameters FOps) (name : string) (f : float * float * float * float) (u : string) : bool :=
  let '(r, p, tp, ff) := f in
  String.eqb (Name t) name && fsame (Radius t) r && fsame (Pitch t) p && fsame (Taper t) tp &&
  fsame (HexFlat2Flat t) ff && String.eqb (Units t) u.
Definition okd (c : cased) : bool :=
  let '(id, name, f, u, fm, um) := c in
  match find_row name with
  | None => false
  | Some (n, fn, (a, b, d)) =>
    let t := @apply_add FOps fn n (q2f a) (q2f b) (q2f d) in
    let tq := @apply_add QOps fn n (q2q a) (q2q b) (q2q d) in
    let '(r, p, _, ff) := f in
    q_small a && q_small b && q_small d &&
    same_fields t name f u && same_fields (ToMillimetre t) name fm um &&
    (* the stored floats are the exact rational row values up to rounding *)
    qnear r (Radius tq) && qnear p (Pitch tq) && qnear ff (HexFlat2Flat tq)
  end.
Definition mismatchesd (cs : list cased) : list N :=
  map (fun c : cased => let '(id, _, _, _, _, _) := c in id) (filter (fun c => negb (okd c)) cs).

(* every generated row must have been looked up: indices of rows whose name is not in the cases *)
Definition uncovered (cs : list cased) : list N :=
  let names := map (fun c : cased => let '(_, n, _, _, _, _) := c in n) cs in
  map (fun ir => N.of_nat (fst ir))
      (filter (fun ir : nat * (string * addfn * (Q * Q * Q)) =>
                 let '(_, (n, _, _)) := ir in negb (existsb (String.eqb n) names))
              (combine (seq 0 (List.length thread_rows)) thread_rows)).

(* ---- probe case: Screw3D(probe, length, taper, pitch, starts) where probe is an SDF2 that
        records its argument and returns the constant c.
        id, (length, taper, pitch, starts), p, c, None (constructor error) | Some (p0, result) *)
Definition casep := (N * (float * float * float * Z) * (float * float * float) * float *
                     option ((float * float) * float))%type.
Definition okp (c : casep) : bool :=
  let '(id, (len, tap, pit, st), (x, y, z), k, obs) := c in
  match @screw3d FOps len tap pit st, obs with
  | None, None => true
  | Some s, Some ((p0x, p0y), res) =>
    let m := screw_map s (fv3 x y z) in
    fsame (vx m) p0x && fsame (vy m) p0y && fsame (screw_eval (fun _ => k) s (fv3 x y z)) res
  | _, _ => false
  end.
Definition mismatchesp (cs : list casep) : list N :=
  map (fun c : casep => let '(id, _, _, _, _) := c in id) (filter (fun c => negb (okp c)) cs).

(* ---- SawTooth: id, x, period, result *)
Definition cases := (N * float * float * float)%type.
Definition mismatchess (cs : list cases) : list N :=
  map (fun c : cases => let '(id, _, _, _) := c in id)
      (filter (fun c : cases => let '(id, x, p, r) := c in negb (fsame (@sawtooth FOps x p) r)) cs).

(* ---- profile / full screw: the model polygon is evaluated exhaustively, the implementation
        walks a quadtree of clipped segment pieces, so agreement is within an absolute
        tolerance 1e-10 * (radius + pitch); bit-exact agreement is counted separately *)
Definition c_tolerance : float := 0x1.12e0be826d695p-30%float.   (* 1e-9, sdf.tolerance *)
Definition near (scale x y : float) : bool :=
  fsame x y || PrimFloat.leb (PrimFloat.abs (x - y)) (0x1.b7cdfd9d7bdbbp-34 * scale)%float.

(* id, point, implementation value *)
Definition pt2 := (N * (float * float) * float)%type.
Definition pt3 := (N * (float * float * float) * float)%type.

(* (radius, pitch, external), points of the profile plane with ISOThread(...).Evaluate *)
Definition casef := ((float * float * bool) * list pt2)%type.
Definition bad_f (exact : bool) (c : casef) : list N :=
  let '((r, p, ext), pts) := c in
  let vs := @iso_thread FOps r p ext in
  let ls := polygon_lines vs in
  map (fun q : pt2 => let '(id, _, _) := q in id)
      (filter (fun q : pt2 => let '(id, (x, y), g) := q in
                 let m := mesh_eval ls (fv2 x y) in
                 negb (if exact then fsame m g else near (PrimFloat.abs r + PrimFloat.abs p) m g)) pts).
Definition mismatchesf (cs : list casef) : list N := flat_map (bad_f false) cs.
Definition inexactf (cs : list casef) : list N := flat_map (bad_f true) cs.

(* (radius, pitch, external), (length, taper, starts), points with Screw3D(ISOThread(..),..).Evaluate *)
Definition caseg := ((float * float * bool) * (float * float * Z) * list pt3)%type.
Definition bad_g (exact : bool) (c : caseg) : list N :=
  let '((r, p, ext), (len, tap, st), pts) := c in
  let vs := @iso_thread FOps r p ext in
  let ls := polygon_lines vs in
  match @screw3d FOps len tap p st with
  | None => map (fun q : pt3 => let '(id, _, _) := q in id) pts
  | Some s =>
    map (fun q : pt3 => let '(id, _, _) := q in id)
        (filter (fun q : pt3 => let '(id, (x, y, z), g) := q in
                   let m := screw_eval (mesh_eval ls) s (fv3 x y z) in
                   negb (if exact then fsame m g else near (PrimFloat.abs r + PrimFloat.abs p) m g)) pts)
  end.
Definition mismatchesg (cs : list caseg) : list N := flat_map (bad_g false) cs.
Definition inexactg (cs : list caseg) : list N := flat_map (bad_g true) cs.

(* ---- the smoothed vertex lists of the model against their closed form (for which
        Sdf/IsoProfile.v proves the nesting): id, radius, pitch; every coordinate must agree
        within 1e-12 * (radius + pitch), for the external and the internal profile *)
Definition casev := (N * float * float)%type.
Fixpoint close_lists (tol : float) (a b : list (V2 FOps)) : bool :=
  match a, b with
  | [], [] => true
  | u :: a', v :: b' =>
    PrimFloat.leb (PrimFloat.abs (vx u - vx v)) tol && PrimFloat.leb (PrimFloat.abs (vy u - vy v)) tol &&
    close_lists tol a' b'
  | _, _ => false
  end.
Definition okv (c : casev) : bool :=
  let '(id, r, p) := c in
  let tol := (0x1.19799812dea11p-40 * (PrimFloat.abs r + PrimFloat.abs p))%float in
  close_lists tol (@iso_thread FOps r p true) (iso_polygon_of_outline p (@iso_ext_outline FOps r p)) &&
  close_lists tol (@iso_thread FOps r p false) (iso_polygon_of_outline p (@iso_int_outline FOps r p)).
Definition mismatchesv (cs : list casev) : list N :=
  map (fun c : casev => let '(id, _, _) := c in id) (filter (fun c => negb (okv c)) cs).
