(* C01 over the reals, part 9: rigid motions in 3D keep the Euclidean class lb2. *)
From Coq Require Import Reals Lra Lia List Bool ZArith Psatz.
From Sdfx Require Import Num.Ops Num.RInst Geo.Vec Geo.Box Geo.BoxR Geo.MinMaxR Geo.NormR Geo.Mat
  Sdf.Union2 Sdf.Shape Sdf.ShapeR Sdf.EncloseR Sdf.EncloseXform.
Import ListNotations.
Open Scope R_scope.

Lemma rigid44_det (m : RM) : rigid44 m -> @m44_determinant ROps m <> 0.
Proof.
  intros ((H12 & H13 & H14 & H15) & G11 & G22 & G33 & G12 & G13 & G23).
  unfold m44_determinant. rewrite H12, H13, H14, H15. name44 m. ropen. intros E.
  set (D := a0 * (a5 * a10 - a6 * a9) - a1 * (a4 * a10 - a6 * a8) + a2 * (a4 * a9 - a5 * a8)).
  assert (ED : D = 0) by (unfold D; lra).
  assert (Gram : D * D =
    (a0 * a0 + a4 * a4 + a8 * a8) * ((a1 * a1 + a5 * a5 + a9 * a9) * (a2 * a2 + a6 * a6 + a10 * a10)
                                     - (a1 * a2 + a5 * a6 + a9 * a10) * (a1 * a2 + a5 * a6 + a9 * a10))
    - (a0 * a1 + a4 * a5 + a8 * a9) * ((a0 * a1 + a4 * a5 + a8 * a9) * (a2 * a2 + a6 * a6 + a10 * a10)
                                       - (a1 * a2 + a5 * a6 + a9 * a10) * (a0 * a2 + a4 * a6 + a8 * a10))
    + (a0 * a2 + a4 * a6 + a8 * a10) * ((a0 * a1 + a4 * a5 + a8 * a9) * (a1 * a2 + a5 * a6 + a9 * a10)
                                        - (a1 * a1 + a5 * a5 + a9 * a9) * (a0 * a2 + a4 * a6 + a8 * a10)))
    by (unfold D; ring).
  rewrite G11, G22, G33, G12, G13, G23, ED in Gram. lra.
Qed.

Lemma rigid44_iso (m : RM) p q : rigid44 m -> dist3 (@m44_mulposition ROps m p) (@m44_mulposition ROps m q) = dist3 p q.
Proof.
  intros (_ & G11 & G22 & G33 & G12 & G13 & G23). unfold dist3, len3, sub3, m44_mulposition; cbn [wx wy wz]. f_equal.
  name44 m. ropen.
  set (dx := wx p - wx q). set (dy := wy p - wy q). set (dz := wz p - wz q).
  transitivity ((a0 * a0 + a4 * a4 + a8 * a8) * (dx * dx) + (a1 * a1 + a5 * a5 + a9 * a9) * (dy * dy)
                + (a2 * a2 + a6 * a6 + a10 * a10) * (dz * dz)
                + 2 * (a0 * a1 + a4 * a5 + a8 * a9) * (dx * dy) + 2 * (a0 * a2 + a4 * a6 + a8 * a10) * (dx * dz)
                + 2 * (a1 * a2 + a5 * a6 + a9 * a10) * (dy * dz)); [unfold dx, dy, dz; ring|].
  rewrite G11, G22, G33, G12, G13, G23. ring.
Qed.

Lemma boxdist3_attained b p : ordered3 b -> exists c, in_box3 b c /\ dist3 p c = boxdist3 b p.
Proof.
  intros (Hx & Hy & Hz). destruct (axd_attained _ _ (wx p) Hx) as (cx & Ix & Ex).
  destruct (axd_attained _ _ (wy p) Hy) as (cy & Iy & Ey). destruct (axd_attained _ _ (wz p) Hz) as (cz & Iz & Ez).
  exists (mkV3 cx cy cz). split; [repeat split; tauto|].
  unfold dist3, len3, sub3, boxdist3; cbn [wx wy wz]. rewrite Ex, Ey, Ez. reflexivity.
Qed.

Theorem transform3_rigid_lb2 s (m : RM) o : rigid44 m -> @k_transform3 ROps s m = Some o -> lb2_3 s -> lb2_3 o.
Proof.
  intros Hm H [Ho Hs]. pose proof (rigid44_det m Hm) as Hd. destruct Hm as [Ha Hm']. pose proof (conj Ha Hm' : rigid44 m) as Hm.
  apply some_inj in H. rewrite <- H. clear H. split; cbn [bb3 ev3]; [apply mulbox44_ordered|].
  intros p. set (q0 := @m44_mulposition ROps (@m44_inverse ROps m) p).
  assert (Ep : @m44_mulposition ROps m q0 = p) by (apply inverse44_correct_r; assumption).
  destruct (Hs q0) as [Hdist|Hin]; [left | right; rewrite <- Ep; apply mulbox44_hull, Hin].
  destruct (boxdist3_attained (bb3 s) q0 Ho) as (c & Ic & Ec).
  pose proof (boxdist3_le_dist (m44_mulbox m (bb3 s)) p _ (mulbox44_hull m _ _ Ic)) as L.
  rewrite <- Ep in L at 2. rewrite rigid44_iso in L by exact Hm. lra.
Qed.
