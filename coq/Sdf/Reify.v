(* Reification of real library objects (DESIGN.md 2.2): the expression trees that the hook
   sdf.VerifDumpTree2/3 (/repo/sdf/verif_hooks_c01.go) reads off a Go value.  RShape2/RShape3 have
   one constructor per constructor of Sdf/Shape.v (same arguments) plus the leaves and wrappers
   that only occur in dumped objects:
     ROpaque2/3 id bb : a Go shape without a model; its values come from an environment
     RMesh2 segs bb   : MeshSDF2 (Polygon2D / Mesh2D): the clipped line segments held by the
                        quadtree leaves and the stored box; evaluated as MeshSDF2Slow over them
     RCache2 s        : Cache2D (same values, same box)
     RPrim2 p         : the parameter-only primitives of Sdf/Prim2X.v (FlatFlankCam2D, ThreeArcCam2D,
                        Flange1, ArcSpiral2D) with their constructor arguments
     RRack2 t p l bb  : GearRackSDF2: the tooth operand, the stored pitch, half length and box.
   interp maps a tree to the object the Go constructors build (the k_xxx of Sdf/Shape.v);
   rmap2/rmap3 change the number system of every parameter (Q -> R for the theorems, Q -> float
   for the replay against Go). *)
From Coq Require Import ZArith NArith List Bool.
From Sdfx Require Import Num.Ops Geo.Vec Geo.Box Geo.Mat Sdf.Union2 Sdf.Shape Sdf.Poly Sdf.Prim2X.
From Sdfx Require Sdf.Screw.
Import ListNotations.

Section Reify.
  Context {O : Ops}.
  Notation T := (T O).
  Notation V2 := (V2 O).
  Notation V3 := (V3 O).
  Notation Box2 := (Box2 O).
  Notation Box3 := (Box3 O).
  Notation M33 := (list T).
  Notation M44 := (list T).
  Notation Obj2 := (Obj2 O).
  Notation Obj3 := (Obj3 O).
  Notation MinK := (MinK O).
  Notation MaxK := (MaxK O).
  Notation Seg := (Seg O).

  (* Mesh2D rejects an empty segment list; Evaluate = sqrt of the least squared segment distance,
     negated when the crossing number is not 0 (MeshSDF2Slow.Evaluate over the leaf pieces) *)
  Definition k_mesh2 (segs : list Seg) (bb : Box2) : option Obj2 :=
    match segs with
    | [] => None
    | _ => Some (mkObj2 (Poly.eval_slow (convert_lines segs)) bb)
    end.

  (* Screw3D (sdf/screw.go): the constructor checks and Evaluate are Sdf/Screw.v (the C18 model); the
     box is the thread profile's top (its y axis is the screw radius) plus the taper increment over
     half the length, and +-length/2 along z *)
  Definition k_screw (th : Obj2) (length taper pitch : T) (starts : Z) : option Obj3 :=
    match Screw.screw3d length taper pitch starts with
    | None => None
    | Some s =>
        let r := oadd O (vy (b2max (bb2 th))) (omul O (Screw.s_length s) (otan O taper)) in
        Some (mkObj3 (Screw.screw_eval (ev2 th) s)
                     (mkBox3 (mkV3 (oneg O r) (oneg O r) (oneg O (Screw.s_length s))) (mkV3 r r (Screw.s_length s))))
    end.

  Inductive RShape2 :=
  | ROpaque2 (id : N) (bb : Box2)
  | RMesh2 (segs : list Seg) (bb : Box2)
  | RCache2 (s : RShape2)
  | RCircle (r : T) | RBox2D (size : V2) (round : T) | RLine2D (l round : T)
  | ROffset2 (s : RShape2) (off : T)
  | RIntersect2 (m : MaxK) (s0 s1 : RShape2) | RDifference2 (m : MaxK) (s0 s1 : RShape2)
  | RCut2 (s : RShape2) (a v : V2)
  | RTransform2 (s : RShape2) (m : M33)
  | RScaleUniform2 (s : RShape2) (k : T)
  | RArray2 (mk : MinK) (s : RShape2) (nx ny : Z) (step : V2)
  | RRotateUnion2 (mk : MinK) (s : RShape2) (num : Z) (step : M33)
  | RRotateCopy2 (s : RShape2) (n : Z)
  | RElongate2 (s : RShape2) (h : V2)
  | RUnion2 (mk : MinK) (l : list RShape2)
  | RSlice2 (s : RShape3) (a n : V3)
  | RPrim2 (p : Prim2 O)
  | RRack2 (tooth : RShape2) (pitch length : T) (bb : Box2)
  with RShape3 :=
  | ROpaque3 (id : N) (bb : Box3)
  | RSphere (r : T) | RBox3D (size : V3) (round : T) | RCylinder (h r round : T) | RCone (h r0 r1 round : T)
  | RRevolve (s : RShape2) (theta : T)
  | RExtrude (s : RShape2) (h : T) | RTwistExtrude (s : RShape2) (h twist : T)
  | RScaleExtrude (s : RShape2) (h : T) (scale : V2) | RScaleTwistExtrude (s : RShape2) (h twist : T) (scale : V2)
  | RExtrudeRounded (s : RShape2) (h round : T) | RLoft (s0 s1 : RShape2) (h round : T)
  | RTransform3 (s : RShape3) (m : M44) | RScaleUniform3 (s : RShape3) (k : T)
  | RUnion3 (mk : MinK) (l : list RShape3)
  | RDifference3 (m : MaxK) (s0 s1 : RShape3) | RIntersect3 (m : MaxK) (s0 s1 : RShape3)
  | RCut3 (s : RShape3) (a n : V3) | RElongate3 (s : RShape3) (h : V3)
  | RArray3 (mk : MinK) (s : RShape3) (nx ny nz : Z) (step : V3)
  | RRotateUnion3 (mk : MinK) (s : RShape3) (num : Z) (step : M44)
  | RRotateCopy3 (s : RShape3) (n : Z)
  | ROffset3 (s : RShape3) (off : T) | RShell3 (s : RShape3) (thickness : T)
  | RScrew (s : RShape2) (length taper pitch : T) (starts : Z).

  (* the values of the opaque leaves *)
  Record Env := mkEnv { env2 : N -> V2 -> T; env3 : N -> V3 -> T }.

  Section Interp.
    Variable E : Env.
    Fixpoint interp2 (s : RShape2) : option Obj2 :=
      match s with
      | ROpaque2 id bb => Some (mkObj2 (env2 E id) bb)
      | RMesh2 segs bb => k_mesh2 segs bb
      | RCache2 s => interp2 s
      | RCircle r => k_circle r
      | RBox2D size round => k_box2 size round
      | RLine2D l round => k_line2 l round
      | ROffset2 s off => obind (interp2 s) (fun o => k_offset2 o off)
      | RIntersect2 m s0 s1 => obind (interp2 s0) (fun a => obind (interp2 s1) (fun b => k_intersect2 m a b))
      | RDifference2 m s0 s1 => obind (interp2 s0) (fun a => obind (interp2 s1) (fun b => k_difference2 m a b))
      | RCut2 s a v => obind (interp2 s) (fun o => k_cut2 o a v)
      | RTransform2 s m => obind (interp2 s) (fun o => k_transform2 o m)
      | RScaleUniform2 s k => obind (interp2 s) (fun o => k_scaleuniform2 o k)
      | RArray2 mk s nx ny step => obind (interp2 s) (fun o => k_array2 mk o nx ny step)
      | RRotateUnion2 mk s num step => obind (interp2 s) (fun o => k_rotateunion2 mk o num step)
      | RRotateCopy2 s n => obind (interp2 s) (fun o => k_rotatecopy2 o n)
      | RElongate2 s h => obind (interp2 s) (fun o => k_elongate2 o h)
      | RUnion2 mk l => obind (omap_all (map interp2 l)) (fun os => k_union2 mk os)
      | RSlice2 s a n => obind (interp3 s) (fun o => k_slice2 o a n)
      | RPrim2 p => k_prim2 p
      | RRack2 tooth pitch length bb => obind (interp2 tooth) (fun o => k_rack2 o pitch length bb)
      end
    with interp3 (s : RShape3) : option Obj3 :=
      match s with
      | ROpaque3 id bb => Some (mkObj3 (env3 E id) bb)
      | RSphere r => k_sphere r
      | RBox3D size round => k_box3 size round
      | RCylinder h r round => k_cylinder h r round
      | RCone h r0 r1 round => k_cone h r0 r1 round
      | RRevolve s theta => obind (interp2 s) (fun o => k_revolve o theta)
      | RExtrude s h => obind (interp2 s) (fun o => k_extrude o h)
      | RTwistExtrude s h tw => obind (interp2 s) (fun o => k_twistextrude o h tw)
      | RScaleExtrude s h sc => obind (interp2 s) (fun o => k_scaleextrude o h sc)
      | RScaleTwistExtrude s h tw sc => obind (interp2 s) (fun o => k_scaletwistextrude o h tw sc)
      | RExtrudeRounded s h round => obind (interp2 s) (fun o => k_extruderounded o h round)
      | RLoft s0 s1 h round => obind (interp2 s0) (fun a => obind (interp2 s1) (fun b => k_loft a b h round))
      | RTransform3 s m => obind (interp3 s) (fun o => k_transform3 o m)
      | RScaleUniform3 s k => obind (interp3 s) (fun o => k_scaleuniform3 o k)
      | RUnion3 mk l => obind (omap_all (map interp3 l)) (fun os => k_union3 mk os)
      | RDifference3 m s0 s1 => obind (interp3 s0) (fun a => obind (interp3 s1) (fun b => k_difference3 m a b))
      | RIntersect3 m s0 s1 => obind (interp3 s0) (fun a => obind (interp3 s1) (fun b => k_intersect3 m a b))
      | RCut3 s a n => obind (interp3 s) (fun o => k_cut3 o a n)
      | RElongate3 s h => obind (interp3 s) (fun o => k_elongate3 o h)
      | RArray3 mk s nx ny nz step => obind (interp3 s) (fun o => k_array3 mk o nx ny nz step)
      | RRotateUnion3 mk s num step => obind (interp3 s) (fun o => k_rotateunion3 mk o num step)
      | RRotateCopy3 s n => obind (interp3 s) (fun o => k_rotatecopy3 o n)
      | ROffset3 s off => obind (interp3 s) (fun o => k_offset3 o off)
      | RShell3 s th => obind (interp3 s) (fun o => k_shell3 o th)
      | RScrew s length taper pitch starts => obind (interp2 s) (fun o => k_screw o length taper pitch starts)
      end.
  End Interp.

  (* the opaque leaves of a tree *)
  Fixpoint opaque_free2 (s : RShape2) : bool :=
    match s with
    | ROpaque2 _ _ => false
    | RMesh2 _ _ | RCircle _ | RBox2D _ _ | RLine2D _ _ | RPrim2 _ => true
    | RCache2 s | ROffset2 s _ | RCut2 s _ _ | RTransform2 s _ | RScaleUniform2 s _ | RArray2 _ s _ _ _
    | RRotateUnion2 _ s _ _ | RRotateCopy2 s _ | RElongate2 s _ | RRack2 s _ _ _ => opaque_free2 s
    | RIntersect2 _ s0 s1 | RDifference2 _ s0 s1 => opaque_free2 s0 && opaque_free2 s1
    | RUnion2 _ l => forallb opaque_free2 l
    | RSlice2 s _ _ => opaque_free3 s
    end
  with opaque_free3 (s : RShape3) : bool :=
    match s with
    | ROpaque3 _ _ => false
    | RSphere _ | RBox3D _ _ | RCylinder _ _ _ | RCone _ _ _ _ => true
    | RRevolve s _ | RExtrude s _ | RTwistExtrude s _ _ | RScaleExtrude s _ _ | RScaleTwistExtrude s _ _ _
    | RExtrudeRounded s _ _ | RScrew s _ _ _ _ => opaque_free2 s
    | RLoft s0 s1 _ _ => opaque_free2 s0 && opaque_free2 s1
    | RTransform3 s _ | RScaleUniform3 s _ | RCut3 s _ _ | RElongate3 s _ | RArray3 _ s _ _ _ _
    | RRotateUnion3 _ s _ _ | RRotateCopy3 s _ | ROffset3 s _ | RShell3 s _ => opaque_free3 s
    | RUnion3 _ l => forallb opaque_free3 l
    | RDifference3 _ s0 s1 | RIntersect3 _ s0 s1 => opaque_free3 s0 && opaque_free3 s1
    end.
End Reify.

Arguments RShape2 : clear implicits.
Arguments RShape3 : clear implicits.
Arguments Env : clear implicits.

(* ------------------------------------------------------------ change of number system *)
Section Map.
  Context {A B : Ops} (f : T A -> T B).
  Definition map_v2 (v : V2 A) : V2 B := mkV2 (f (vx v)) (f (vy v)).
  Definition map_v3 (v : V3 A) : V3 B := mkV3 (f (wx v)) (f (wy v)) (f (wz v)).
  Definition map_box2 (b : Box2 A) : Box2 B := mkBox2 (map_v2 (b2min b)) (map_v2 (b2max b)).
  Definition map_box3 (b : Box3 A) : Box3 B := mkBox3 (map_v3 (b3min b)) (map_v3 (b3max b)).
  Definition map_seg (s : Seg A) : Seg B := (map_v2 (fst s), map_v2 (snd s)).
  Definition map_mink (m : MinK A) : MinK B :=
    match m with
    | MinDef => MinDef | MinPoly k => MinPoly (f k) | MinRound k => MinRound (f k) | MinChamfer k => MinChamfer (f k)
    end.
  Definition map_maxk (m : MaxK A) : MaxK B :=
    match m with MaxDef => MaxDef | MaxPoly k => MaxPoly (f k) end.

  Fixpoint rmap2 (s : RShape2 A) : RShape2 B :=
    match s with
    | ROpaque2 id bb => ROpaque2 id (map_box2 bb)
    | RMesh2 segs bb => RMesh2 (map map_seg segs) (map_box2 bb)
    | RCache2 s => RCache2 (rmap2 s)
    | RCircle r => RCircle (f r)
    | RBox2D size round => RBox2D (map_v2 size) (f round)
    | RLine2D l round => RLine2D (f l) (f round)
    | ROffset2 s off => ROffset2 (rmap2 s) (f off)
    | RIntersect2 m s0 s1 => RIntersect2 (map_maxk m) (rmap2 s0) (rmap2 s1)
    | RDifference2 m s0 s1 => RDifference2 (map_maxk m) (rmap2 s0) (rmap2 s1)
    | RCut2 s a v => RCut2 (rmap2 s) (map_v2 a) (map_v2 v)
    | RTransform2 s m => RTransform2 (rmap2 s) (map f m)
    | RScaleUniform2 s k => RScaleUniform2 (rmap2 s) (f k)
    | RArray2 mk s nx ny step => RArray2 (map_mink mk) (rmap2 s) nx ny (map_v2 step)
    | RRotateUnion2 mk s num step => RRotateUnion2 (map_mink mk) (rmap2 s) num (map f step)
    | RRotateCopy2 s n => RRotateCopy2 (rmap2 s) n
    | RElongate2 s h => RElongate2 (rmap2 s) (map_v2 h)
    | RUnion2 mk l => RUnion2 (map_mink mk) (map rmap2 l)
    | RSlice2 s a n => RSlice2 (rmap3 s) (map_v3 a) (map_v3 n)
    | RPrim2 p => RPrim2 (map_prim2 f p)
    | RRack2 tooth pitch length bb => RRack2 (rmap2 tooth) (f pitch) (f length) (map_box2 bb)
    end
  with rmap3 (s : RShape3 A) : RShape3 B :=
    match s with
    | ROpaque3 id bb => ROpaque3 id (map_box3 bb)
    | RSphere r => RSphere (f r)
    | RBox3D size round => RBox3D (map_v3 size) (f round)
    | RCylinder h r round => RCylinder (f h) (f r) (f round)
    | RCone h r0 r1 round => RCone (f h) (f r0) (f r1) (f round)
    | RRevolve s theta => RRevolve (rmap2 s) (f theta)
    | RExtrude s h => RExtrude (rmap2 s) (f h)
    | RTwistExtrude s h tw => RTwistExtrude (rmap2 s) (f h) (f tw)
    | RScaleExtrude s h sc => RScaleExtrude (rmap2 s) (f h) (map_v2 sc)
    | RScaleTwistExtrude s h tw sc => RScaleTwistExtrude (rmap2 s) (f h) (f tw) (map_v2 sc)
    | RExtrudeRounded s h round => RExtrudeRounded (rmap2 s) (f h) (f round)
    | RLoft s0 s1 h round => RLoft (rmap2 s0) (rmap2 s1) (f h) (f round)
    | RTransform3 s m => RTransform3 (rmap3 s) (map f m)
    | RScaleUniform3 s k => RScaleUniform3 (rmap3 s) (f k)
    | RUnion3 mk l => RUnion3 (map_mink mk) (map rmap3 l)
    | RDifference3 m s0 s1 => RDifference3 (map_maxk m) (rmap3 s0) (rmap3 s1)
    | RIntersect3 m s0 s1 => RIntersect3 (map_maxk m) (rmap3 s0) (rmap3 s1)
    | RCut3 s a n => RCut3 (rmap3 s) (map_v3 a) (map_v3 n)
    | RElongate3 s h => RElongate3 (rmap3 s) (map_v3 h)
    | RArray3 mk s nx ny nz step => RArray3 (map_mink mk) (rmap3 s) nx ny nz (map_v3 step)
    | RRotateUnion3 mk s num step => RRotateUnion3 (map_mink mk) (rmap3 s) num (map f step)
    | RRotateCopy3 s n => RRotateCopy3 (rmap3 s) n
    | ROffset3 s off => ROffset3 (rmap3 s) (f off)
    | RShell3 s th => RShell3 (rmap3 s) (f th)
    | RScrew s length taper pitch starts => RScrew (rmap2 s) (f length) (f taper) (f pitch) starts
    end.
End Map.
