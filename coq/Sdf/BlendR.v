(* sdf/utils.go blend functions over the reals (model: min_apply / max_apply / poly of Sdf/Shape.v):
   a blend never removes material (result <= min, resp. >= max), is symmetric, and the
   polynomial blend adds a fillet of bounded size that vanishes once the operands differ by k.
   ExpMin / PowMin use exp / log / pow, which the Ops record does not have: they are
   modelled here directly over R. *)
From Coq Require Import Reals Lra Lia List Bool ZArith.
From Sdfx Require Import Num.Ops Num.RInst Geo.Vec Geo.Box Geo.NormR Geo.Mat Sdf.Union2 Sdf.Shape.
Open Scope R_scope.

Definition polymin (k a b : R) : R := @poly ROps a b k.
Definition polymax (k a b : R) : R := @max_apply ROps (MaxPoly k) a b.
Definition roundmin (k a b : R) : R := @min_apply ROps (MinRound k) a b.
Definition chamfermin (k a b : R) : R := @min_apply ROps (MinChamfer k) a b.

(* ---- the clamp and its value h *)
Lemma clamp01_cases t :
  (t < 0 /\ @clamp ROps t 0 1 = 0) \/ (1 < t /\ @clamp ROps t 0 1 = 1) \/ (0 <= t <= 1 /\ @clamp ROps t 0 1 = t).
Proof.
  unfold clamp. change (oltb ROps) with Rltb. rcmp; lra.
Qed.

Lemma polymin_unfold k a b :
  polymin k a b =
  let h := @clamp ROps (1 / 2 + 1 / 2 * (b - a) / k) 0 1 in (b + h * (a - b)) - k * h * (1 - h).
Proof.
  unfold polymin, poly, mix, half, two. cbn. reflexivity.
Qed.

(* PolyMin: within [min - k/4, min] *)
Theorem polymin_bounds k a b : 0 < k -> Rmin a b - k / 4 <= polymin k a b <= Rmin a b.
Proof.
  intros K. rewrite polymin_unfold. cbv zeta.
  set (t := 1 / 2 + 1 / 2 * (b - a) / k).
  assert (Et : a = b - k * (2 * t - 1)) by (subst t; field; lra).
  clearbody t.
  destruct (clamp01_cases t) as [[H ->]|[[H ->]|[H ->]]].
  - (* h = 0: b - a <= -k *)
    assert (k * (2 * t - 1) < - k) by nra.
    unfold Rmin; destruct (Rle_dec a b); lra.
  - assert (k < k * (2 * t - 1)) by nra.
    unfold Rmin; destruct (Rle_dec a b); lra.
  - subst a. replace (b + t * (b - k * (2 * t - 1) - b) - k * t * (1 - t)) with (b - k * (t * t)) by ring.
    unfold Rmin; destruct (Rle_dec (b - k * (2 * t - 1)) b) as [L|L].
    + assert (T : 1 / 2 <= t) by (destruct (Rle_dec (1 / 2) t); [assumption | exfalso; nra]).
      assert (P1 : 0 <= k * ((1 - t) * (1 - t))) by (apply Rmult_le_pos; nra).
      assert (P2 : 0 <= k * ((t - 1 / 2) * (3 / 2 - t))) by (apply Rmult_le_pos; [lra | apply Rmult_le_pos; lra]).
      split; lra.
    + assert (T : t < 1 / 2) by (destruct (Rlt_dec t (1 / 2)); [assumption | exfalso; nra]).
      assert (P1 : 0 <= k * (t * t)) by (apply Rmult_le_pos; nra).
      assert (P2 : 0 <= k * ((1 / 2 - t) * (1 / 2 + t))) by (apply Rmult_le_pos; [lra | apply Rmult_le_pos; lra]).
      split; lra.
Qed.
Theorem polymin_le_min k a b : 0 < k -> polymin k a b <= Rmin a b.
Proof. intros K. apply polymin_bounds, K. Qed.

(* once the operands differ by k the blend is the plain minimum *)
Theorem polymin_far k a b : 0 < k -> k <= Rabs (a - b) -> polymin k a b = Rmin a b.
Proof.
  intros K F. rewrite polymin_unfold. cbv zeta.
  set (t := 1 / 2 + 1 / 2 * (b - a) / k).
  assert (Et : a = b - k * (2 * t - 1)) by (subst t; field; lra).
  clearbody t. subst a.
  replace (b - k * (2 * t - 1) - b) with (- (k * (2 * t - 1))) in * by ring.
  unfold Rabs in F. destruct (Rcase_abs (- (k * (2 * t - 1)))) as [C|C].
  - (* a < b and b - a >= k: t >= 1 *)
    assert (T : 1 <= t) by (destruct (Rle_dec 1 t); [assumption | exfalso; nra]).
    assert (E : @clamp ROps t 0 1 = 1).
    { destruct (clamp01_cases t) as [[H' ->]|[[H' ->]|[H' ->]]]; lra. }
    rewrite E. unfold Rmin; destruct (Rle_dec (b - k * (2 * t - 1)) b); lra.
  - assert (T : t <= 0) by (destruct (Rle_dec t 0); [assumption | exfalso; nra]).
    assert (E : @clamp ROps t 0 1 = 0).
    { destruct (clamp01_cases t) as [[H' ->]|[[H' ->]|[H' ->]]]; lra. }
    rewrite E. unfold Rmin; destruct (Rle_dec (b - k * (2 * t - 1)) b) as [L|L]; [|lra].
    assert (k * (2 * t - 1) <= - k) by nra. lra.
Qed.

Theorem polymin_sym k a b : 0 < k -> polymin k a b = polymin k b a.
Proof.
  intros K. rewrite !polymin_unfold. cbv zeta.
  set (t := 1 / 2 + 1 / 2 * (b - a) / k). set (t' := 1 / 2 + 1 / 2 * (a - b) / k).
  assert (E : t' = 1 - t) by (subst t t'; field; lra).
  assert (Et : a = b - k * (2 * t - 1)) by (subst t; field; lra).
  clearbody t t'. subst t' a.
  destruct (clamp01_cases t) as [[H ->]|[[H ->]|[H ->]]];
  destruct (clamp01_cases (1 - t)) as [[H' ->]|[[H' ->]|[H' ->]]]; try lra; ring.
Qed.

(* PolyMax is the mirror image *)
Theorem polymax_mirror k a b : polymax k a b = - polymin k (- a) (- b).
Proof. reflexivity. Qed.
Theorem polymax_bounds k a b : 0 < k -> Rmax a b <= polymax k a b <= Rmax a b + k / 4.
Proof.
  intros K. rewrite polymax_mirror. pose proof (polymin_bounds k (- a) (- b) K) as B.
  assert (E : Rmin (- a) (- b) = - Rmax a b).
  { unfold Rmin, Rmax. destruct (Rle_dec (- a) (- b)), (Rle_dec a b); lra. }
  rewrite E in B. lra.
Qed.
Theorem polymax_far k a b : 0 < k -> k <= Rabs (a - b) -> polymax k a b = Rmax a b.
Proof.
  intros K F. rewrite polymax_mirror. rewrite polymin_far; [| exact K |].
  - unfold Rmin, Rmax. destruct (Rle_dec (- a) (- b)), (Rle_dec a b); lra.
  - replace (- a - - b) with (- (a - b)) by ring. rewrite Rabs_Ropp. exact F.
Qed.
Theorem polymax_sym k a b : 0 < k -> polymax k a b = polymax k b a.
Proof. intros K. rewrite !polymax_mirror. f_equal. apply polymin_sym, K. Qed.

(* ---- RoundMin *)
Lemma roundmin_unfold k a b :
  roundmin k a b = Rmax k (Rmin a b) - sqrt (Rmax (k - a) 0 * Rmax (k - a) 0 + Rmax (k - b) 0 * Rmax (k - b) 0).
Proof. reflexivity. Qed.

Theorem roundmin_le_min k a b : roundmin k a b <= Rmin a b.
Proof.
  rewrite roundmin_unfold.
  set (u := Rmax (k - a) 0). set (v := Rmax (k - b) 0).
  assert (U : 0 <= u) by apply Rmax_r. assert (V : 0 <= v) by apply Rmax_r.
  assert (S1 : u <= sqrt (u * u + v * v)).
  { rewrite <- (sqrt_square u U) at 1. apply sqrt_le_1_alt. nra. }
  assert (S2 : v <= sqrt (u * u + v * v)).
  { rewrite <- (sqrt_square v V) at 1. apply sqrt_le_1_alt. nra. }
  assert (S0 : 0 <= sqrt (u * u + v * v)) by apply sqrt_pos.
  assert (U' : k - a <= u) by apply Rmax_l. assert (V' : k - b <= v) by apply Rmax_l.
  unfold Rmax at 1. destruct (Rle_dec k (Rmin a b)); [lra|].
  unfold Rmin in *. destruct (Rle_dec a b); lra.
Qed.
Theorem roundmin_sym k a b : roundmin k a b = roundmin k b a.
Proof. rewrite !roundmin_unfold. rewrite (Rmin_comm a b). f_equal. f_equal. ring. Qed.
(* away from the blend zone (both operands at least k) nothing changes *)
Theorem roundmin_far k a b : k <= a -> k <= b -> roundmin k a b = Rmin a b.
Proof.
  intros A B. rewrite roundmin_unfold.
  rewrite (Rmax_right (k - a) 0) by lra. rewrite (Rmax_right (k - b) 0) by lra.
  replace (0 * 0 + 0 * 0) with 0 by ring. rewrite sqrt_0.
  rewrite Rmax_right; [ring|]. unfold Rmin; destruct (Rle_dec a b); lra.
Qed.

(* ---- ChamferMin *)
Lemma chamfermin_unfold k a b :
  chamfermin k a b = Rmin (Rmin a b) ((a - k + b) * @sqrt_half ROps).
Proof. reflexivity. Qed.
Theorem chamfermin_le_min k a b : chamfermin k a b <= Rmin a b.
Proof. rewrite chamfermin_unfold. apply Rmin_l. Qed.
Theorem chamfermin_sym k a b : chamfermin k a b = chamfermin k b a.
Proof. rewrite !chamfermin_unfold. rewrite (Rmin_comm a b). f_equal. f_equal. ring. Qed.

(* every blend of the enum at once *)
Theorem min_blend_never_removes (m : MinK ROps) a b :
  (match m with MinPoly k => 0 < k | _ => True end) -> @min_apply ROps m a b <= Rmin a b.
Proof.
  destruct m as [|k|k|k]; intros H.
  - apply Rle_refl.
  - apply (polymin_le_min k a b H).
  - apply (roundmin_le_min k a b).
  - apply (chamfermin_le_min k a b).
Qed.
Theorem min_blend_symmetric (m : MinK ROps) a b :
  (match m with MinPoly k => 0 < k | _ => True end) -> @min_apply ROps m a b = @min_apply ROps m b a.
Proof.
  destruct m as [|k|k|k]; intros H.
  - apply Rmin_comm.
  - apply (polymin_sym k a b H).
  - apply (roundmin_sym k a b).
  - apply (chamfermin_sym k a b).
Qed.
Theorem max_blend_never_removes (m : MaxK ROps) a b :
  (match m with MaxPoly k => 0 < k | _ => True end) -> Rmax a b <= @max_apply ROps m a b.
Proof.
  destruct m as [|k]; intros H; [apply Rle_refl|]. apply (polymax_bounds k a b H).
Qed.

(* a point inside an operand stays inside the blended union; a point outside an operand
   of an intersection / removed by a difference stays outside *)
Corollary min_blend_inside (m : MinK ROps) a b :
  (match m with MinPoly k => 0 < k | _ => True end) -> (a < 0 \/ b < 0) -> @min_apply ROps m a b < 0.
Proof.
  intros H I. pose proof (min_blend_never_removes m a b H). unfold Rmin in *. destruct (Rle_dec a b); lra.
Qed.

(* ---- ExpMin(k)(a,b) = -log(exp(-k a) + exp(-k b)) / k *)
Definition expmin (k a b : R) : R := - ln (exp (- k * a) + exp (- k * b)) / k.
Theorem expmin_le_min k a b : 0 < k -> expmin k a b <= Rmin a b.
Proof.
  intros K. unfold expmin.
  assert (L : forall x, x = a \/ x = b -> - k * x <= ln (exp (- k * a) + exp (- k * b))).
  { intros x Hx. rewrite <- (ln_exp (- k * x)). 
    pose proof (exp_pos (- k * a)). pose proof (exp_pos (- k * b)).
    destruct (Rle_lt_or_eq_dec (exp (- k * x)) (exp (- k * a) + exp (- k * b))) as [Hlt|Heq].
    - destruct Hx; subst; lra.
    - left. apply ln_increasing; [apply exp_pos | exact Hlt].
    - rewrite Heq. apply Rle_refl. }
  assert (Q : forall x, x = a \/ x = b -> - ln (exp (- k * a) + exp (- k * b)) / k <= x).
  { intros x Hx. specialize (L x Hx). apply Rmult_le_reg_r with k; [exact K|].
    unfold Rdiv. rewrite Rmult_assoc, Rinv_l by lra. lra. }
  unfold Rmin. destruct (Rle_dec a b); apply Q; auto.
Qed.
Theorem expmin_sym k a b : expmin k a b = expmin k b a.
Proof. unfold expmin. rewrite (Rplus_comm (exp (- k * a))). reflexivity. Qed.
Lemma exp_le x y : x <= y -> exp x <= exp y.
Proof. intros [H| ->]; [left; apply exp_increasing, H | apply Rle_refl]. Qed.
(* ... and it adds at most ln 2 / k *)
Theorem expmin_bounds k a b : 0 < k -> Rmin a b - ln 2 / k <= expmin k a b.
Proof.
  intros K. unfold expmin.
  set (m := Rmin a b).
  assert (Ha : exp (- k * a) <= exp (- k * m)).
  { apply exp_le. assert (m <= a) by apply Rmin_l. nra. }
  assert (Hb : exp (- k * b) <= exp (- k * m)).
  { apply exp_le. assert (m <= b) by apply Rmin_r. nra. }
  pose proof (exp_pos (- k * a)). pose proof (exp_pos (- k * b)). pose proof (exp_pos (- k * m)).
  assert (LL : ln (exp (- k * a) + exp (- k * b)) <= ln 2 + - k * m).
  { replace (ln 2 + - k * m) with (ln 2 + ln (exp (- k * m))) by (rewrite ln_exp; reflexivity).
    rewrite <- ln_mult by lra.
    destruct (Rle_lt_or_eq_dec (exp (- k * a) + exp (- k * b)) (2 * exp (- k * m))) as [Hlt|Heq]; [lra| |].
    - left. apply ln_increasing; lra.
    - rewrite Heq. apply Rle_refl. }
  apply Rmult_le_reg_r with k; [exact K|].
  unfold Rdiv. rewrite Rmult_assoc, Rinv_l by lra.
  replace ((m - ln 2 * / k) * k) with (m * k - ln 2) by (field; lra). lra.
Qed.

(* ---- PowMin(k)(a,b) = ((a^k b^k) / (a^k + b^k))^(1/k): the source marks it "weird results".
   For integer exponents (math.Pow is then total) the formula is a minimum-like function only for
   positive operands; for an even exponent it maps two negative ("inside") values to a positive
   one, i.e. it removes material.  Witness k = 2, a = b = -1. *)
Definition powmin2 (a b : R) : R := sqrt ((a * a) * (b * b) / (a * a + b * b)).
Theorem powmin_removes_material_refuted : exists a b, a < 0 /\ b < 0 /\ 0 < powmin2 a b.
Proof.
  exists (-1), (-1). split; [lra|]. split; [lra|]. unfold powmin2. apply sqrt_lt_R0. lra.
Qed.
(* for positive operands it does stay below the minimum *)
Theorem powmin2_le_min_positive a b : 0 < a -> 0 < b -> powmin2 a b <= Rmin a b.
Proof.
  intros A B. unfold powmin2.
  assert (P : 0 < a * a + b * b) by nra.
  assert (Q : forall x, 0 < x -> (a * a) * (b * b) / (a * a + b * b) <= x * x -> 
              sqrt ((a * a) * (b * b) / (a * a + b * b)) <= x).
  { intros x X H. rewrite <- (sqrt_square x) by lra. apply sqrt_le_1_alt. exact H. }
  unfold Rmin. destruct (Rle_dec a b); apply Q; try assumption.
  - apply Rmult_le_reg_r with (a * a + b * b); [exact P|].
    unfold Rdiv. rewrite Rmult_assoc, Rinv_l by lra. nra.
  - apply Rmult_le_reg_r with (a * a + b * b); [exact P|].
    unfold Rdiv. rewrite Rmult_assoc, Rinv_l by lra. nra.
Qed.
