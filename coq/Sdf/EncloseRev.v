(* C01 over the reals, part 5: Revolve3D / RevolveTheta3D (full and partial revolution, every
   quadrant set selected by theta).  Trigonometry enters only through sin^2 + cos^2 = 1 and the
   signs of sin/cos per quadrant. *)
From Coq Require Import Reals Lra Lia List Bool ZArith Psatz.
From Sdfx Require Import Num.Ops Num.RInst Geo.Vec Geo.Box Geo.BoxR Geo.MinMaxR Geo.NormR Geo.Mat
  Sdf.Union2 Sdf.Shape Sdf.ShapeR Sdf.EncloseR.
Import ListNotations.
Open Scope R_scope.

(* ------------------------------------------------------------ math.Mod *)
Lemma fmod_range (x y : R) : 0 <= x -> 0 < y -> 0 <= Rfmod x y < y.
Proof.
  intros Hx Hy. unfold Rfmod, Rtrunc.
  assert (Hq : 0 <= x / y) by (apply Rmult_le_pos; [lra | left; apply Rinv_0_lt_compat; lra]).
  destruct (Rle_dec 0 (x / y)); [|contradiction].
  destruct (base_Int_part (x / y)) as [A B]. set (n := IZR (Int_part (x / y))) in *.
  assert (E : x = y * (x / y)) by (field; lra).
  split; [rewrite E at 1 | rewrite E at 1]; nra.
Qed.

(* ------------------------------------------------------------ VecSet.Min / VecSet.Max *)
Lemma fold_v2min_le (l : list RV2) a :
  (vx (fold_left v2min l a) <= vx a /\ vy (fold_left v2min l a) <= vy a) /\
  forall v, In v l -> vx (fold_left v2min l a) <= vx v /\ vy (fold_left v2min l a) <= vy v.
Proof.
  revert a; induction l as [|w l IH]; intros a; cbn [fold_left]; [split; [lra | intros v []]|].
  destruct (IH (v2min a w)) as [[A1 A2] B]. cbn in A1, A2.
  pose proof (Rmin_l (vx a) (vx w)). pose proof (Rmin_r (vx a) (vx w)).
  pose proof (Rmin_l (vy a) (vy w)). pose proof (Rmin_r (vy a) (vy w)).
  split; [lra|]. intros v [<-|Hv]; [lra | apply B, Hv].
Qed.
Lemma fold_v2max_ge (l : list RV2) a :
  (vx a <= vx (fold_left v2max l a) /\ vy a <= vy (fold_left v2max l a)) /\
  forall v, In v l -> vx v <= vx (fold_left v2max l a) /\ vy v <= vy (fold_left v2max l a).
Proof.
  revert a; induction l as [|w l IH]; intros a; cbn [fold_left]; [split; [lra | intros v []]|].
  destruct (IH (v2max a w)) as [[A1 A2] B]. cbn in A1, A2.
  pose proof (Rmax_l (vx a) (vx w)). pose proof (Rmax_r (vx a) (vx w)).
  pose proof (Rmax_l (vy a) (vy w)). pose proof (Rmax_r (vy a) (vy w)).
  split; [lra|]. intros v [<-|Hv]; [lra | apply B, Hv].
Qed.
Lemma set_min_le (l : list RV2) v : In v l -> vx (@v2set_min ROps l) <= vx v /\ vy (@v2set_min ROps l) <= vy v.
Proof. intros H. unfold v2set_min. apply fold_v2min_le, H. Qed.
Lemma set_max_ge (l : list RV2) v : In v l -> vx v <= vx (@v2set_max ROps l) /\ vy v <= vy (@v2set_max ROps l).
Proof. intros H. unfold v2set_max. apply fold_v2max_ge, H. Qed.

(* ------------------------------------------------------------ the wedge, without angles *)
Definition rev_vset (theta : R) : list RV2 :=
  [mkV2 0 0; mkV2 1 0; mkV2 (cos theta) (sin theta)]
  ++ (if Rltb (1 / (1 + 1) * PI) theta then [mkV2 0 1] else [])
  ++ (if Rltb PI theta then [mkV2 (- (1)) 0] else [])
  ++ (if Rltb (3 / 2 * PI) theta then [mkV2 0 (- (1))] else []).

Lemma rev_in0 theta : In (mkV2 0 0) (rev_vset theta).
Proof. unfold rev_vset. cbn. auto. Qed.
Lemma rev_in1 theta : In (mkV2 1 0) (rev_vset theta).
Proof. unfold rev_vset. cbn. auto. Qed.
Lemma rev_incs theta : In (mkV2 (cos theta) (sin theta)) (rev_vset theta).
Proof. unfold rev_vset. cbn. auto. Qed.
Lemma rev_in_y theta : 1 / (1 + 1) * PI < theta -> In (mkV2 0 1) (rev_vset theta).
Proof.
  intros H. apply Rltb_true in H. unfold rev_vset.
  apply in_or_app; right. apply in_or_app; left. rewrite H. now left.
Qed.
Lemma rev_in_nx theta : PI < theta -> In (mkV2 (- (1)) 0) (rev_vset theta).
Proof.
  intros H. apply Rltb_true in H. unfold rev_vset.
  apply in_or_app; right. apply in_or_app; right. apply in_or_app; left. rewrite H. now left.
Qed.
Lemma rev_in_ny theta : 3 / 2 * PI < theta -> In (mkV2 0 (- (1))) (rev_vset theta).
Proof.
  intros H. apply Rltb_true in H. unfold rev_vset.
  apply in_or_app; right. apply in_or_app; right. apply in_or_app; right. rewrite H. now left.
Qed.

(* the value of the wedge part of SorSDF3.Evaluate *)
Definition wedge (theta x y : R) : R :=
  if Rltb theta PI then Rmax (- y) (- sin theta * x + cos theta * y)
  else Rmin (- y) (- sin theta * x + cos theta * y).

Lemma sq_cmp (a b : R) : 0 <= a -> 0 <= b -> a * a <= b * b -> a <= b.
Proof. intros. nra. Qed.

(* a point of radius rho <= l inside the wedge lies, per coordinate, between l times two members of the set *)
Lemma wedge_box theta x y rho l : 0 < theta < 2 * PI -> 0 <= rho <= l -> rho * rho = x * x + y * y ->
  wedge theta x y < 0 ->
  (exists v, In v (rev_vset theta) /\ vx v * l <= x) /\ (exists v, In v (rev_vset theta) /\ x <= vx v * l) /\
  (exists v, In v (rev_vset theta) /\ vy v * l <= y) /\ (exists v, In v (rev_vset theta) /\ y <= vy v * l).
Proof.
  intros Ht Hr Er Hw. pose proof PI_RGT_0 as Hpi.
  pose proof (sin2_cos2 theta) as SC. unfold Rsqr in SC. set (sn := sin theta) in *. set (cs := cos theta) in *.
  assert (Ax : Rabs x <= rho) by (apply sq_cmp; [apply Rabs_pos | lra |]; rewrite <- Rabs_mult, Rabs_pos_eq; nra).
  assert (Ay : Rabs y <= rho) by (apply sq_cmp; [apply Rabs_pos | lra |]; rewrite <- Rabs_mult, Rabs_pos_eq; nra).
  apply Rabs_le_inv in Ax, Ay.
  assert (X1 : exists v, In v (rev_vset theta) /\ x <= vx v * l) by (exists (mkV2 1 0); split; [apply rev_in1 | cbn; lra]).
  unfold wedge in Hw. fold sn cs in Hw.
  destruct (Rltb theta PI) eqn:C; bfalse.
  - (* intersection of two half planes: 0 < y and cs y < sn x *)
    pose proof (Rmax_l (- y) (- sn * x + cs * y)). pose proof (Rmax_r (- y) (- sn * x + cs * y)).
    assert (Hsn : 0 < sn) by (apply sin_gt_0; lra).
    assert (Y0 : exists v, In v (rev_vset theta) /\ vy v * l <= y) by (exists (mkV2 0 0); split; [apply rev_in0 | cbn; lra]).
    split; [|split; [exact X1 | split; [exact Y0|]]].
    + destruct (Rle_dec 0 x); [exists (mkV2 0 0); split; [apply rev_in0 | cbn; lra]|].
      exists (mkV2 cs sn); split; [apply rev_incs|]; cbn.
      assert (cs < 0) by nra. assert (- x <= - cs * rho); [|nra].
      apply sq_cmp; [lra | nra|]. assert (0 <= (sn * x - cs * y) * (- sn * x - cs * y)) by (apply Rmult_le_pos; nra). nra.
    + destruct (Rlt_dec (1 / (1 + 1) * PI) theta); [exists (mkV2 0 1); split; [apply rev_in_y; lra | cbn; lra]|].
      assert (Hcs : 0 <= cs) by (apply cos_ge_0; lra).
      exists (mkV2 cs sn); split; [apply rev_incs|]; cbn.
      assert (y <= sn * rho); [|nra].
      apply sq_cmp; [lra | nra|]. assert (0 <= x) by nra.
      assert (0 <= (sn * x - cs * y) * (sn * x + cs * y)) by (apply Rmult_le_pos; nra). nra.
  - (* union of two half planes *)
    assert (Y1 : exists v, In v (rev_vset theta) /\ y <= vy v * l) by (exists (mkV2 0 1); split; [apply rev_in_y; lra | cbn; lra]).
    assert (X0 : exists v, In v (rev_vset theta) /\ vx v * l <= x).
    { destruct (Rlt_dec PI theta); [exists (mkV2 (- (1)) 0); split; [apply rev_in_nx; lra | cbn; lra]|].
      assert (theta = PI) as E by lra. exists (mkV2 cs sn); split; [apply rev_incs|]; cbn. unfold cs. rewrite E, cos_PI. lra. }
    split; [exact X0 | split; [exact X1 | split; [|exact Y1]]].
    destruct (Rlt_dec (3 / 2 * PI) theta); [exists (mkV2 0 (- (1))); split; [apply rev_in_ny; lra | cbn; lra]|].
    destruct (Rle_dec 0 y); [exists (mkV2 0 0); split; [apply rev_in0 | cbn; lra]|].
    assert (Hsn : sn <= 0) by (apply sin_le_0; lra). assert (Hcs : cs <= 0) by (apply cos_le_0; lra).
    assert (Hd : - sn * x + cs * y < 0) by (revert Hw; unfold Rmin; destruct (Rle_dec _ _); lra).
    exists (mkV2 cs sn); split; [apply rev_incs|]; cbn.
    assert (- y <= - sn * rho); [|nra].
    apply sq_cmp; [lra | nra|]. assert (0 <= (sn * x - cs * y) * (sn * x + cs * y)) by (apply Rmult_le_pos; nra). nra.
Qed.

(* ------------------------------------------------------------ Revolve3D / RevolveTheta3D *)
Lemma rho_le_l (b : RBox2) (rho : R) : 0 <= rho -> vx (b2min b) <= rho <= vx (b2max b) ->
  rho <= Rmax (Rabs (vx (b2min b))) (Rabs (vx (b2max b))).
Proof.
  intros H0 H. eapply Rle_trans; [|apply Rmax_r]. pose proof (Rabs_ge_l (vx (b2max b))). lra.
Qed.

Lemma revolve_enc s theta0 o : @k_revolve ROps s theta0 = Some o -> enc2 s -> enc3 o.
Proof.
  intros H [[Hx Hy] Hs]. unfold k_revolve in H. kinv H. bfalse. cbv zeta.
  pose proof PI_RGT_0 as Hpi.
  assert (Ht : 0 <= Rfmod (Rabs theta0) ((1 + 1) * PI) < (1 + 1) * PI) by (apply fmod_range; [apply Rabs_pos | lra]).
  change (ofmod ROps (oabs ROps theta0) tau) with (Rfmod (Rabs theta0) ((1 + 1) * PI)).
  set (theta := Rfmod (Rabs theta0) ((1 + 1) * PI)) in *. clearbody theta.
  ropen. set (l := Rmax (Rabs (vx (b2min (bb2 s)))) (Rabs (vx (b2max (bb2 s))))).
  assert (Hl : 0 <= l) by (unfold l; eapply Rle_trans; [apply Rabs_pos | apply Rmax_l]).
  destruct (Reqb theta 0) eqn:E0; bfalse.
  - (* full revolution *)
    split; cbn [bb3 ev3].
    + unfold ordered3; cbn. fold l.
      assert (forall a : R, Rmin (Rmin a a) (- a) * l <= Rmax (Rmax a a) (- a) * l) as M.
      { intros a. apply Rmult_le_compat_r; [exact Hl|]. unfold Rmin, Rmax; repeat destruct (Rle_dec _ _); lra. }
      split; [apply M | split; [apply M | exact Hy]].
    + intros p Hp. change (omax ROps) with Rmax in Hp. rewrite Rmax_left in Hp by lra.
      change (omul ROps) with Rmult in Hp. change (oadd ROps) with Rplus in Hp. change (osqrt ROps) with sqrt in Hp.
      set (rho := sqrt (wx p * wx p + wy p * wy p)) in *.
      destruct (Hs _ Hp) as [Ix Iy]. cbn in Ix, Iy.
      assert (Hrho : 0 <= rho) by apply sqrt_pos.
      pose proof (rho_le_l (bb2 s) rho Hrho Ix) as Hrl. fold l in Hrl.
      pose proof (abs_le_len2_x (mkV2 (wx p) (wy p))) as X. pose proof (abs_le_len2_y (mkV2 (wx p) (wy p))) as Y.
      unfold len2 in X, Y; cbn in X, Y. fold rho in X, Y.
      assert (Ax : Rabs (wx p) <= l) by lra. assert (Ay : Rabs (wy p) <= l) by lra. apply Rabs_le_inv in Ax, Ay.
      unfold in_box3; cbn. fold l.
      replace (Rmin (Rmin 1 1) (- (1))) with (- (1)) by (unfold Rmin; repeat destruct (Rle_dec _ _); lra).
      replace (Rmax (Rmax 1 1) (- (1))) with 1 by (unfold Rmax; repeat destruct (Rle_dec _ _); lra). lra.
  - (* partial revolution *)
    assert (Ht' : 0 < theta < 2 * PI) by lra.
    match goal with |- context [@v2set_min ROps ?vs] => change vs with (rev_vset theta) end.
    split; cbn [bb3 ev3].
    + destruct (set_min_le _ _ (rev_in0 theta)) as [A B]. destruct (set_max_ge _ _ (rev_in0 theta)) as [C D].
      cbn in A, B, C, D. unfold ordered3; cbn. fold l. split; [nra | split; [nra | exact Hy]].
    + intros p Hp. change (omax ROps) with Rmax in Hp.
      match type of Hp with Rmax ?a ?b < 0 => pose proof (Rmax_l a b) as Ha; pose proof (Rmax_r a b) as Hb end.
      change (omul ROps) with Rmult in *. change (oadd ROps) with Rplus in *. change (osqrt ROps) with sqrt in *.
      set (rho := sqrt (wx p * wx p + wy p * wy p)) in *.
      destruct (Hs (mkV2 rho (wz p)) ltac:(lra)) as [Ix Iy]. cbn in Ix, Iy.
      assert (Hrho : 0 <= rho) by apply sqrt_pos.
      pose proof (rho_le_l (bb2 s) rho Hrho Ix) as Hrl. fold l in Hrl.
      assert (Er : rho * rho = wx p * wx p + wy p * wy p) by (apply sqrt_sqrt; nra).
      assert (Hw : wedge theta (wx p) (wy p) < 0).
      { unfold wedge. eapply Rle_lt_trans; [|exact Hp]. eapply Rle_trans; [|exact Hb]. apply Req_le. reflexivity. }
      destruct (wedge_box theta (wx p) (wy p) rho l Ht' (conj Hrho Hrl) Er Hw)
        as ((v1 & I1 & L1) & (v2 & I2 & L2) & (v3 & I3 & L3) & (v4 & I4 & L4)).
      destruct (set_min_le _ _ I1) as [A1 _]. destruct (set_max_ge _ _ I2) as [A2 _].
      destruct (set_min_le _ _ I3) as [_ A3]. destruct (set_max_ge _ _ I4) as [_ A4].
      apply (Rmult_le_compat_r l _ _ Hl) in A1, A2, A3, A4.
      unfold in_box3, v2muls; cbn [bb3 b3min b3max wx wy wz vx vy]. ropen. fold l. lra.
Qed.

(* a full revolution (theta a multiple of 2 pi, in particular Revolve3D = theta 0) of a profile in the class
   lbinf is in lbinf *)
Lemma revolve_full_lbinf s theta0 o : Rfmod (Rabs theta0) (@tau ROps) = 0 ->
  @k_revolve ROps s theta0 = Some o -> lbinf_2 s -> lbinf_3 o.
Proof.
  intros Hth H Hs. destruct Hs as [[Hx Hy] Hs']. pose proof (conj (conj Hx Hy) Hs' : lbinf_2 s) as Hs.
  unfold k_revolve in H. kinv' H. bfalse. cbv zeta.
  change (ofmod ROps (oabs ROps theta0) tau) with (Rfmod (Rabs theta0) (@tau ROps)). rewrite Hth.
  ropen. set (l := Rmax (Rabs (vx (b2min (bb2 s)))) (Rabs (vx (b2max (bb2 s))))).
  assert (Hl : 0 <= l) by (unfold l; eapply Rle_trans; [apply Rabs_pos | apply Rmax_l]).
  assert (Hlx : vx (b2max (bb2 s)) <= l) by (unfold l; eapply Rle_trans; [apply Rabs_ge_l | apply Rmax_r]).
  assert (E0 : Reqb 0 0 = true) by (apply Reqb_true; reflexivity). rewrite E0.
  assert (Emin : Rmin (Rmin 1 1) (- (1)) = - (1)) by (unfold Rmin; repeat destruct (Rle_dec _ _); lra).
  assert (Emax : Rmax (Rmax 1 1) (- (1)) = 1) by (unfold Rmax; repeat destruct (Rle_dec _ _); lra).
  apply lbinf3_intro; cbn [bb3 ev3].
  - unfold ordered3; cbn. fold l. rewrite Emin, Emax. lra.
  - intros p Hout.
    assert (EM : forall a : R, Rmax a a = a) by (intros a; apply Rmax_left; lra).
    set (rho := sqrt (wx p * wx p + wy p * wy p)) in *. assert (Hrho : 0 <= rho) by apply sqrt_pos.
    pose proof (abs_le_len2_x (mkV2 (wx p) (wy p))) as X. pose proof (abs_le_len2_y (mkV2 (wx p) (wy p))) as Y.
    unfold len2 in X, Y; cbn in X, Y. fold rho in X, Y.
    pose proof (Rabs_ge_l (wx p)). pose proof (Rabs_ge_r (wx p)). pose proof (Rabs_ge_l (wy p)). pose proof (Rabs_ge_r (wy p)).
    assert (Hout2 : ~ in_box2 (bb2 s) (mkV2 rho (wz p))).
    { intros [Ix Iy]. cbn in Ix, Iy. apply Hout. unfold in_box3; cbn. fold l. rewrite Emin, Emax. lra. }
    pose proof (lbinf2_elim s _ Hs Hout2) as (A & B & C & D). cbn in A, B, C, D.
    unfold slab3; cbn. fold l. rewrite Emin, Emax. fold rho. rewrite EM. repeat split; lra.
Qed.
