(* Non-vacuity of the reified certificates: a boolean check on the dumped parameters (the
   constructors' own argument checks, evaluated at exact rationals) implies that the tree builds
   over the reals, so `interp3 E (inj3 t) = Some o` in C01_reified_certificate3 has a witness. *)
From Coq Require Import Reals Lra Lia List Bool ZArith NArith QArith Qreals Psatz.
From Sdfx Require Import Num.Ops Num.RInst Num.QInst Geo.Vec Geo.Box Geo.BoxR Geo.NormR Geo.Mat
  Sdf.Union2 Sdf.Shape Sdf.ShapeR Sdf.EncloseR Sdf.EncloseAll Sdf.Poly Sdf.Reify Sdf.ReifyR Sdf.ReifyCheck
  Sdf.Prim2X Sdf.Prim2XR.
From Sdfx Require Sdf.Screw Sdf.ScrewR.
Import ListNotations.
Local Open Scope R_scope.

(* ------------------------------------------------------------ constructors over the reals *)
Ltac kpass :=
  repeat match goal with
  | |- exists o, (if ?c then None else _) = Some o =>
      let K := fresh "K" in destruct c eqn:K; [exfalso; bfalse; try lra|]
  end.
Ltac done_some := eexists; reflexivity.

Lemma circle_builds r : 0 <= r -> exists o, @k_circle ROps r = Some o.
Proof. intros H. unfold k_circle. ropen. kpass. done_some. Qed.
Lemma sphere_builds r : 0 < r -> exists o, @k_sphere ROps r = Some o.
Proof. intros H. unfold k_sphere. ropen. kpass. done_some. Qed.
Lemma box3_builds (size : RV3) round : 0 < wx size -> 0 < wy size -> 0 < wz size -> 0 <= round ->
  exists o, @k_box3 ROps size round = Some o.
Proof.
  intros Hx Hy Hz Hr. unfold k_box3, v3_lte_zero. ropen.
  destruct (Rleb (wx size) 0) eqn:C1; [apply Rleb_true in C1; lra|].
  destruct (Rleb (wy size) 0) eqn:C2; [apply Rleb_true in C2; lra|].
  destruct (Rleb (wz size) 0) eqn:C3; [apply Rleb_true in C3; lra|]. cbn [orb].
  kpass. done_some.
Qed.
Lemma cylinder_builds h r round : 0 < r -> 0 <= round -> round <= r -> 2 * round <= h ->
  exists o, @k_cylinder ROps h r round = Some o.
Proof. intros H1 H2 H3 H4. unfold k_cylinder. rewrite two_eq. ropen. kpass. done_some. Qed.
Lemma cone_builds h r0 r1 round : 0 < h -> 0 <= round -> 2 * round <= h ->
  exists o, @k_cone ROps h r0 r1 round = Some o.
Proof. intros H1 H2 H3. unfold k_cone. rewrite !two_eq. ropen. kpass. done_some. Qed.
Lemma revolve_builds s theta : 0 <= theta -> exists o, @k_revolve ROps s theta = Some o.
Proof. intros H. unfold k_revolve. ropen. kpass. done_some. Qed.
Lemma extruderounded_builds s h round : 0 < h -> 0 <= round -> 2 * round <= h ->
  exists o, @k_extruderounded ROps s h round = Some o.
Proof.
  intros H1 H2 H3. unfold k_extruderounded. rewrite two_eq. ropen.
  destruct (Reqb round 0); [unfold k_extrude; done_some|]. kpass. done_some.
Qed.
Lemma loft_builds s0 s1 h round : 0 < h -> 0 <= round -> 2 * round <= h ->
  exists o, @k_loft ROps s0 s1 h round = Some o.
Proof. intros H1 H2 H3. unfold k_loft. rewrite two_eq. ropen. kpass. done_some. Qed.
Lemma shell3_builds s th : 0 < th -> exists o, @k_shell3 ROps s th = Some o.
Proof. intros H. unfold k_shell3. ropen. kpass. done_some. Qed.
Lemma array2_builds mk s nx ny step : (0 < nx)%Z -> (0 < ny)%Z -> exists o, @k_array2 ROps mk s nx ny step = Some o.
Proof.
  intros H1 H2. unfold k_array2.
  destruct (nx <=? 0)%Z eqn:C1; [apply Z.leb_le in C1; lia|]. destruct (ny <=? 0)%Z eqn:C2; [apply Z.leb_le in C2; lia|].
  cbn [orb]. done_some.
Qed.
Lemma array3_builds mk s nx ny nz step : (0 < nx)%Z -> (0 < ny)%Z -> (0 < nz)%Z ->
  exists o, @k_array3 ROps mk s nx ny nz step = Some o.
Proof.
  intros H1 H2 H3. unfold k_array3.
  destruct (nx <=? 0)%Z eqn:C1; [apply Z.leb_le in C1; lia|]. destruct (ny <=? 0)%Z eqn:C2; [apply Z.leb_le in C2; lia|].
  destruct (nz <=? 0)%Z eqn:C3; [apply Z.leb_le in C3; lia|]. cbn [orb]. done_some.
Qed.
Lemma rotateunion2_builds mk s num step : (0 < num)%Z -> exists o, @k_rotateunion2 ROps mk s num step = Some o.
Proof.
  intros H. unfold k_rotateunion2. destruct (num <=? 0)%Z eqn:C; [apply Z.leb_le in C; lia|].
  destruct (rotunion_box2 _ _ _ _ _). done_some.
Qed.
Lemma rotateunion3_builds mk s num step : (0 < num)%Z -> exists o, @k_rotateunion3 ROps mk s num step = Some o.
Proof.
  intros H. unfold k_rotateunion3. destruct (num <=? 0)%Z eqn:C; [apply Z.leb_le in C; lia|].
  destruct (rotunion_box3 _ _ _ _ _). done_some.
Qed.
Lemma rotatecopy2_builds s n : (0 < n)%Z -> exists o, @k_rotatecopy2 ROps s n = Some o.
Proof. intros H. unfold k_rotatecopy2. destruct (n <=? 0)%Z eqn:C; [apply Z.leb_le in C; lia|]. done_some. Qed.
Lemma rotatecopy3_builds s n : (0 < n)%Z -> exists o, @k_rotatecopy3 ROps s n = Some o.
Proof. intros H. unfold k_rotatecopy3. destruct (n <=? 0)%Z eqn:C; [apply Z.leb_le in C; lia|]. done_some. Qed.
Lemma union2_builds mk (l : list RObj2) : l <> [] -> exists o, @k_union2 ROps mk l = Some o.
Proof. intros H. destruct l as [|a [|b l]]; [congruence | done_some | done_some]. Qed.
Lemma union3_builds mk (l : list RObj3) : l <> [] -> exists o, @k_union3 ROps mk l = Some o.
Proof. intros H. destruct l as [|a [|b l]]; [congruence | done_some | done_some]. Qed.
Lemma mesh2_builds (segs : list (Seg ROps)) bb : segs <> [] -> exists o, @k_mesh2 ROps segs bb = Some o.
Proof. intros H. destruct segs; [congruence | done_some]. Qed.
Lemma screw_builds th length taper pitch starts : 0 < length -> 0 <= taper < 3 / 2 -> 0 < pitch ->
  exists o, @k_screw ROps th length taper pitch starts = Some o.
Proof.
  intros H1 H2 H3. unfold k_screw.
  destruct (@Screw.screw3d ROps length taper pitch starts) eqn:S; [done_some|]. exfalso.
  apply (ScrewR.screw3d_accepts length taper pitch starts); [exact H1 | | exact H3 | exact S].
  pose proof PI2_3_2. lra.
Qed.

(* ------------------------------------------------------------ the check at exact rationals *)
Local Open Scope Q_scope.
Definition q2x (x : Q) : Q := 2 * x.
Local Open Scope R_scope.
Lemma q2x_sound x : Q2R (q2x x) = 2 * Q2R x.
Proof. unfold q2x. rewrite Q2R_mult. replace (Q2R 2) with 2; [reflexivity|]. unfold Q2R; cbn. lra. Qed.
Definition qlt32 (x : Q) : bool := negb (Qle_bool (3 # 2) x).
Lemma qlt32_sound x : qlt32 x = true -> Q2R x < 3 / 2.
Proof.
  unfold qlt32. intros H. apply negb_true_iff in H.
  destruct (Qlt_le_dec x (3 # 2)) as [L|L].
  - apply Qlt_Rlt in L. replace (Q2R (3 # 2)) with (3 / 2) in L; [exact L|]. unfold Q2R; cbn. lra.
  - apply Qle_bool_iff in L. congruence.
Qed.
Definition nonnil {A} (l : list A) : bool := match l with [] => false | _ => true end.

Definition round_okb (h round : Q) : bool := qlt0 h && qle0 round && qleb (q2x round) h.
Lemma round_okb_sound h round : round_okb h round = true -> 0 < Q2R h /\ 0 <= Q2R round /\ 2 * Q2R round <= Q2R h.
Proof.
  unfold round_okb. intros H. apply andb_true_iff in H. destruct H as [H H3]. apply andb_true_iff in H. destruct H as [H1 H2].
  split; [apply qlt0_sound, H1 | split; [apply qle0_sound, H2|]]. rewrite <- q2x_sound. apply qleb_sound, H3.
Qed.

(* ArcSpiral2D rejects a = 0 and start = end; the other primitives of Sdf/Prim2X.v accept what prim2_wfb accepts *)
Definition prim2_buildsb (p : Prim2 QOps) : bool :=
  match p with
  | PArcSpiral a _ s e _ => negb (qis0 a) && negb (Qeq_bool s e)
  | PThreeArcCam d b n f => qleb (b + d + n)%Q (q2x f)
  | _ => true
  end.
Lemma prim2_buildsb_sound p : prim2_buildsb p = true -> prim2_builds (map_prim2 (A := QOps) (B := ROps) Q2R p).
Proof.
  destruct p; cbn [prim2_buildsb map_prim2 prim2_builds]; intros H; try exact I.
  { apply qleb_sound in H. rewrite q2x_sound, !Q2R_plus in H. lra. }
  apply andb_true_iff in H. destruct H as [Ha Hs]. apply negb_true_iff in Ha, Hs. split.
  - apply Q2R_nonzero, Ha.
  - intros E. apply eqR_Qeq in E. apply Qeq_bool_iff in E. congruence.
Qed.

Fixpoint buildsb2 (s : QS2) : bool :=
  match s with
  | ROpaque2 _ _ => true
  | RMesh2 segs _ => nonnil segs
  | RCache2 s => buildsb2 s
  | RCircle r => qle0 r
  | RBox2D _ _ | RLine2D _ _ => true
  | ROffset2 s _ | RCut2 s _ _ | RTransform2 s _ | RScaleUniform2 s _ | RElongate2 s _ => buildsb2 s
  | RIntersect2 _ s0 s1 | RDifference2 _ s0 s1 => buildsb2 s0 && buildsb2 s1
  | RArray2 _ s nx ny _ => buildsb2 s && (0 <? nx)%Z && (0 <? ny)%Z
  | RRotateUnion2 _ s num _ => buildsb2 s && (0 <? num)%Z
  | RRotateCopy2 s n => buildsb2 s && (0 <? n)%Z
  | RUnion2 _ l => nonnil l && forallb buildsb2 l
  | RSlice2 s _ _ => buildsb3 s
  | RPrim2 p => prim2_wfb p && prim2_buildsb p
  | RRack2 s _ _ _ => buildsb2 s
  end
with buildsb3 (s : QS3) : bool :=
  match s with
  | ROpaque3 _ _ => true
  | RSphere r => qlt0 r
  | RBox3D size round => qlt0 (wx size) && qlt0 (wy size) && qlt0 (wz size) && qle0 round
  | RCylinder h r round => qlt0 r && qle0 round && qleb round r && qleb (q2x round) h
  | RCone h _ _ round => round_okb h round
  | RRevolve s theta => buildsb2 s && qle0 theta
  | RExtrude s _ | RTwistExtrude s _ _ | RScaleExtrude s _ _ | RScaleTwistExtrude s _ _ _ => buildsb2 s
  | RExtrudeRounded s h round => buildsb2 s && round_okb h round
  | RLoft s0 s1 h round => buildsb2 s0 && buildsb2 s1 && round_okb h round
  | RTransform3 s _ | RScaleUniform3 s _ | RCut3 s _ _ | RElongate3 s _ | ROffset3 s _ => buildsb3 s
  | RUnion3 _ l => nonnil l && forallb buildsb3 l
  | RDifference3 _ s0 s1 | RIntersect3 _ s0 s1 => buildsb3 s0 && buildsb3 s1
  | RArray3 _ s nx ny nz _ => buildsb3 s && (0 <? nx)%Z && (0 <? ny)%Z && (0 <? nz)%Z
  | RRotateUnion3 _ s num _ => buildsb3 s && (0 <? num)%Z
  | RRotateCopy3 s n => buildsb3 s && (0 <? n)%Z
  | RShell3 s th => buildsb3 s && qlt0 th
  | RScrew s length taper pitch _ => buildsb2 s && qlt0 length && qle0 taper && qlt32 taper && qlt0 pitch
  end.

Section Builds.
  Variable E : REnv.

  Lemma omap_all_builds {A B} (f : A -> option B) (l : list A) :
    (forall x, In x l -> exists o, f x = Some o) -> exists os, omap_all (map f l) = Some os /\ length os = length l.
  Proof.
    induction l as [|a l IH]; intros H; cbn [map omap_all]; [exists []; split; reflexivity|].
    destruct (H a (or_introl eq_refl)) as [o Ho]. destruct (IH (fun x Hx => H x (or_intror Hx))) as (os & Hos & Hl).
    rewrite Ho, Hos. cbn [obind]. exists (o :: os). split; [reflexivity | cbn; congruence].
  Qed.

  Ltac child IH s H := let o1 := fresh "o1" in let H1 := fresh "H1" in destruct (IH s H) as [o1 H1]; first [rewrite H1 | unfold inj2, inj3 in H1; rewrite H1]; cbn [obind].
  (* a child of the other dimension: cbn leaves the mutual fixpoint unfolded, restate the goal by conversion *)
  Ltac cross2 IH s H :=
    let o1 := fresh "o1" in let H1 := fresh "H1" in
    destruct (IH s H) as [o1 H1];
    match goal with |- exists o, obind _ ?f = Some o => change (exists o, obind (interp2 E (inj2 s)) f = Some o) end;
    rewrite H1; cbn [obind].
  Ltac cross3 IH s H :=
    let o1 := fresh "o1" in let H1 := fresh "H1" in
    destruct (IH s H) as [o1 H1];
    match goal with |- exists o, obind _ ?f = Some o => change (exists o, obind (interp3 E (inj3 s)) f = Some o) end;
    rewrite H1; cbn [obind].
  Ltac zpos := repeat match goal with H : (0 <? _)%Z = true |- _ => apply Z.ltb_lt in H end.

  Lemma builds2 (s : QS2) : buildsb2 s = true -> exists o, interp2 E (inj2 s) = Some o
  with builds3 (s : QS3) : buildsb3 s = true -> exists o, interp3 E (inj3 s) = Some o.
  Proof.
    - destruct s; cbn [buildsb2 inj2 rmap2 interp2]; intros H.
      + done_some.
      + apply mesh2_builds. destruct segs; [discriminate | cbn; discriminate].
      + apply builds2, H.
      + apply circle_builds, qle0_sound, H.
      + unfold k_box2. done_some.
      + unfold k_line2. done_some.
      + child builds2 s H. unfold k_offset2. done_some.
      + apply andb_true_iff in H. destruct H as [H0 H1]. child builds2 s1 H0. child builds2 s2 H1. unfold k_intersect2. done_some.
      + apply andb_true_iff in H. destruct H as [H0 H1]. child builds2 s1 H0. child builds2 s2 H1. unfold k_difference2. done_some.
      + child builds2 s H. unfold k_cut2. done_some.
      + child builds2 s H. unfold k_transform2. done_some.
      + child builds2 s H. unfold k_scaleuniform2. done_some.
      + split_and H. child builds2 s H. zpos. apply array2_builds; assumption.
      + split_and H. child builds2 s H. zpos. apply rotateunion2_builds; assumption.
      + split_and H. child builds2 s H. zpos. apply rotatecopy2_builds; assumption.
      + child builds2 s H. unfold k_elongate2. done_some.
      + split_and H.
        assert (X : forall x, In x (map (@rmap2 QOps ROps Q2R) l) -> exists o, interp2 E x = Some o).
        { clear H. induction l as [|a l IHl]; cbn [map forallb] in *; [intros x []|].
          apply andb_true_iff in B. destruct B as [Ba Bl]. intros x [<-|Hx]; [apply (builds2 a), Ba | apply IHl; assumption]. }
        destruct (omap_all_builds (interp2 E) _ X) as (os & Hos & Hl).
        first [rewrite Hos | change (@rmap2 QOps ROps Q2R) with inj2 in Hos; rewrite Hos]. cbn [obind].
        apply union2_builds. destruct l; [discriminate|]. destruct os; [cbn in Hl; discriminate | discriminate].
      + cross3 builds3 s H. unfold k_slice2. done_some.
      + apply andb_true_iff in H. destruct H as [Hw Hb].
        apply prim2_builds_some; [apply prim2_wfb_sound, Hw | apply prim2_buildsb_sound, Hb].
      + child builds2 s H. unfold k_rack2. done_some.
    - destruct s; cbn [buildsb3 inj3 rmap3 interp3]; intros H.
      + done_some.
      + apply sphere_builds, qlt0_sound, H.
      + split_and H. apply box3_builds; cbn [map_v3 wx wy wz]; first [apply qlt0_sound | apply qle0_sound]; assumption.
      + split_and H. apply cylinder_builds; [apply qlt0_sound, H | apply qle0_sound, B1 | apply qleb_sound, B0 | rewrite <- q2x_sound; apply qleb_sound, B].
      + apply round_okb_sound in H. destruct H as (H1 & H2 & H3). apply cone_builds; assumption.
      + split_and H. cross2 builds2 s H. apply revolve_builds, qle0_sound, B.
      + cross2 builds2 s H. unfold k_extrude. done_some.
      + cross2 builds2 s H. unfold k_twistextrude. done_some.
      + cross2 builds2 s H. unfold k_scaleextrude. done_some.
      + cross2 builds2 s H. unfold k_scaletwistextrude. done_some.
      + split_and H. cross2 builds2 s H. apply round_okb_sound in B. destruct B as (H1' & H2 & H3). apply extruderounded_builds; assumption.
      + split_and H. cross2 builds2 s0 H. cross2 builds2 s1 B0. apply round_okb_sound in B. destruct B as (H1' & H2' & H3). apply loft_builds; assumption.
      + child builds3 s H. unfold k_transform3. done_some.
      + child builds3 s H. unfold k_scaleuniform3. done_some.
      + split_and H.
        assert (X : forall x, In x (map (@rmap3 QOps ROps Q2R) l) -> exists o, interp3 E x = Some o).
        { clear H. induction l as [|a l IHl]; cbn [map forallb] in *; [intros x []|].
          apply andb_true_iff in B. destruct B as [Ba Bl]. intros x [<-|Hx]; [apply (builds3 a), Ba | apply IHl; assumption]. }
        destruct (omap_all_builds (interp3 E) _ X) as (os & Hos & Hl).
        first [rewrite Hos | change (@rmap3 QOps ROps Q2R) with inj3 in Hos; rewrite Hos]. cbn [obind].
        apply union3_builds. destruct l; [discriminate|]. destruct os; [cbn in Hl; discriminate | discriminate].
      + apply andb_true_iff in H. destruct H as [H0 H1]. child builds3 s1 H0. child builds3 s2 H1. unfold k_difference3. done_some.
      + apply andb_true_iff in H. destruct H as [H0 H1]. child builds3 s1 H0. child builds3 s2 H1. unfold k_intersect3. done_some.
      + child builds3 s H. unfold k_cut3. done_some.
      + child builds3 s H. unfold k_elongate3. done_some.
      + split_and H. child builds3 s H. zpos. apply array3_builds; assumption.
      + split_and H. child builds3 s H. zpos. apply rotateunion3_builds; assumption.
      + split_and H. child builds3 s H. zpos. apply rotatecopy3_builds; assumption.
      + child builds3 s H. unfold k_offset3. done_some.
      + split_and H. child builds3 s H. apply shell3_builds, qlt0_sound, B.
      + split_and H. cross2 builds2 s H. apply screw_builds; [apply qlt0_sound, B2 | split; [apply qle0_sound, B1 | apply qlt32_sound, B0] | apply qlt0_sound, B].
  Qed.
End Builds.

(* the certificate with its witness *)
Theorem reified_certificate3_total (t : QS3) : wfb3 t = true -> buildsb3 t = true -> opaque_free3 t = true ->
  forall E : REnv, exists o, interp3 E (inj3 t) = Some o /\ enc3 o.
Proof.
  intros W B F E. destruct (builds3 E t B) as [o H]. exists o. split; [exact H|].
  exact (reified_certificate3_closed t W F E o H).
Qed.
Theorem reified_certificate2_total (t : QS2) : wfb2 t = true -> buildsb2 t = true -> opaque_free2 t = true ->
  forall E : REnv, exists o, interp2 E (inj2 t) = Some o /\ enc2 o.
Proof.
  intros W B F E. destruct (builds2 E t B) as [o H]. exists o. split; [exact H|].
  exact (reified_certificate2_closed t W F E o H).
Qed.
