(* sdf/cache2.go: CacheSDF2 (evaluation cache in front of an SDF2).
   State = finite map (association list) + the two counters; Evaluate takes the mutex for its
   whole body (the C10 repair), so a history of calls - concurrent or not - acts on the state as
   the sequence of the atomic bodies in lock-acquisition order.  `ceval` is that body.
   Generic in the key / value types: the theorems use real points with Leibniz equality,
   the correspondence (Sdf/C02Corr.v) float points with Go's == on map keys. *)
From Coq Require Import List Bool Arith Lia NArith.
Import ListNotations.

Section Cache.
  Context {K V : Type}.
  Context (keq : K -> K -> bool).
  Context (f : K -> V).                      (* the wrapped shape's Evaluate *)

  Record cstate := mkC { cmap : list (K * V); creads : N; chits : N }.
  Definition cinit : cstate := mkC [] 0 0.

  Fixpoint lookup (k : K) (m : list (K * V)) : option V :=
    match m with
    | [] => None
    | (k', v) :: r => if keq k k' then Some v else lookup k r
    end.

  (* CacheSDF2.Evaluate between Lock and Unlock *)
  Definition ceval (st : cstate) (p : K) : cstate * V :=
    let reads := (creads st + 1)%N in
    match lookup p (cmap st) with
    | Some d => (mkC (cmap st) reads (chits st + 1)%N, d)
    | None => let d := f p in (mkC ((p, d) :: cmap st) reads (chits st), d)
    end.

  (* a history of queries: final state and the values returned, in order *)
  Fixpoint crun (st : cstate) (qs : list K) : cstate * list V :=
    match qs with
    | [] => (st, [])
    | q :: r => let '(st1, d) := ceval st q in let '(st2, ds) := crun st1 r in (st2, d :: ds)
    end.

  (* invariant: everything stored is the wrapped shape's own value at a key equal to the stored one *)
  Definition consistent (st : cstate) : Prop := forall k v, lookup k (cmap st) = Some v -> v = f k.

  Context (keq_eq : forall a b, keq a b = true -> a = b).

  Lemma cinit_consistent : consistent cinit.
  Proof. intros k v H. discriminate H. Qed.

  Lemma ceval_correct st p : consistent st -> snd (ceval st p) = f p /\ consistent (fst (ceval st p)).
  Proof.
    intros I. unfold ceval. destruct (lookup p (cmap st)) as [d|] eqn:E; cbn [fst snd].
    - split; [apply I, E | exact I].
    - split; [reflexivity|]. intros k v. cbn [cmap lookup]. destruct (keq k p) eqn:Ek.
      + intros [= <-]. apply keq_eq in Ek. subst. reflexivity.
      + apply I.
  Qed.

  Theorem cache_refines_from st qs : consistent st ->
    snd (crun st qs) = map f qs /\ consistent (fst (crun st qs)).
  Proof.
    revert st. induction qs as [|q r IH]; intros st I; cbn [crun map]; [split; [reflexivity | exact I]|].
    destruct (ceval_correct st q I) as [E1 I1]. destruct (ceval st q) as [st1 d]. cbn [fst snd] in *.
    destruct (IH st1 I1) as [E2 I2]. destruct (crun st1 r) as [st2 ds]. cbn [fst snd] in *.
    subst. split; [reflexivity | exact I2].
  Qed.

  (* every history of queries against a fresh cache returns the wrapped shape's own values *)
  Theorem cache_refines qs : snd (crun cinit qs) = map f qs.
  Proof. apply cache_refines_from, cinit_consistent. Qed.

  (* counters: reads counts the calls, hits never exceeds reads, misses = entries stored *)
  Lemma ceval_counters st p :
    let st' := fst (ceval st p) in
    creads st' = (creads st + 1)%N /\
    ((chits st' = (chits st + 1)%N /\ length (cmap st') = length (cmap st)) \/
     (chits st' = chits st /\ length (cmap st') = S (length (cmap st)))).
  Proof.
    cbv zeta. unfold ceval. destruct (lookup p (cmap st)); cbn [fst creads chits cmap length]; split; auto.
  Qed.
  Theorem cache_counters qs : let st := fst (crun cinit qs) in
    creads st = N.of_nat (length qs) /\ (chits st + N.of_nat (length (cmap st)) = creads st)%N.
  Proof.
    cbv zeta.
    assert (G : forall qs st, let st' := fst (crun st qs) in
              creads st' = (creads st + N.of_nat (length qs))%N /\
              (chits st' + N.of_nat (length (cmap st')) = chits st + N.of_nat (length (cmap st)) + N.of_nat (length qs))%N).
    { clear qs. induction qs as [|q r IH]; intros st; cbv zeta; cbn [crun fst length]; [split; lia|].
      pose proof (ceval_counters st q) as C. cbv zeta in C. destruct (ceval st q) as [st1 d]. cbn [fst] in C.
      specialize (IH st1). cbv zeta in IH. destruct (crun st1 r) as [st2 ds]. cbn [fst] in *.
      destruct C as [C1 [[C2 C3]|[C2 C3]]]; destruct IH as [I1 I2]; split; lia. }
    specialize (G qs cinit). cbv zeta in G. cbn [cinit creads chits cmap length] in G. destruct G as [G1 G2].
    split; lia.
  Qed.

  (* a repeated query is served from the map: the wrapped shape is evaluated at most once per distinct key *)
  Context (keq_refl : forall a, keq a a = true).
  Lemma ceval_stores st p : lookup p (cmap (fst (ceval st p))) <> None.
  Proof.
    unfold ceval. destruct (lookup p (cmap st)) eqn:E; cbn [fst cmap lookup]; [rewrite E; discriminate|].
    rewrite keq_refl. discriminate.
  Qed.
End Cache.
