(* Correspondence for C02: the FOps instance of the matrix code (Generated/MatrixExpr.v, translated
   from sdf/matrix.go on every run), the blend functions, SawTooth, the extrusion maps
   (Sdf/Shape.v), the cache (Sdf/Cache.v) and the voxel wrapper (Sdf/Voxel.v) against the
   values the Go code returned on the generated arguments. *)
From Coq Require Import List ZArith NArith Floats Bool.
From Sdfx Require Import Num.Ops Num.FInst Geo.Vec Geo.Box Geo.Mat Sdf.Union2 Sdf.Shape Sdf.Cache Sdf.Voxel.
Import ListNotations.

Definition fv2 (x y : float) : V2 FOps := mkV2 x y.
Definition fv3 (x y z : float) : V3 FOps := mkV3 x y z.
Definition l2 (v : V2 FOps) : list float := [vx v; vy v].
Definition l3 (v : V3 FOps) : list float := [wx v; wy v; wz v].

Fixpoint all2 (cmp : float -> float -> bool) (a b : list float) : bool :=
  match a, b with
  | [], [] => true
  | x :: a', y :: b' => cmp x y && all2 cmp a' b'
  | _, _ => false
  end.

(* ------------------------------------------------------------------ matrix code *)
Inductive mop :=
| ORot3 (v : V3 FOps) (a : float) | ORotX (a : float) | ORotY (a : float) | ORotZ (a : float)
| OMirrorXY | OMirrorXZ | OMirrorYZ | OMirrorXeqY | OMirrorX | OMirrorY
| OTrans3 (v : V3 FOps) | OTrans2 (v : V2 FOps) | OScale3 (v : V3 FOps) | OScale2 (v : V2 FOps)
| ORot2d (a : float) | ORot (a : float)
| OMul44 (a b : list float) | OMul33 (a b : list float) | OMul22 (a b : list float)
| OInv44 (a : list float) | OInv33 (a : list float) | OInv22 (a : list float)
| ODet44 (a : list float) | ODet33 (a : list float) | ODet22 (a : list float)
| OPos44 (a : list float) (p : V3 FOps) | OPos33 (a : list float) (p : V2 FOps) | OPos22 (a : list float) (p : V2 FOps).

Definition mop_eval (o : mop) : list float :=
  match o with
  | ORot3 v a => @mk_rotate3d FOps v a
  | ORotX a => @mk_rotatex FOps a | ORotY a => @mk_rotatey FOps a | ORotZ a => @mk_rotatez FOps a
  | OMirrorXY => @mk_mirrorxy FOps | OMirrorXZ => @mk_mirrorxz FOps | OMirrorYZ => @mk_mirroryz FOps
  | OMirrorXeqY => @mk_mirrorxeqy FOps | OMirrorX => @mk_mirrorx FOps | OMirrorY => @mk_mirrory FOps
  | OTrans3 v => @mk_translate3d FOps v | OTrans2 v => @mk_translate2d FOps v
  | OScale3 v => @mk_scale3d FOps v | OScale2 v => @mk_scale2d FOps v
  | ORot2d a => @mk_rotate2d FOps a | ORot a => @mk_rotate FOps a
  | OMul44 a b => @m44_mul FOps a b | OMul33 a b => @m33_mul FOps a b | OMul22 a b => @m22_mul FOps a b
  | OInv44 a => @m44_inverse FOps a | OInv33 a => @m33_inverse FOps a | OInv22 a => @m22_inverse FOps a
  | ODet44 a => [@m44_determinant FOps a] | ODet33 a => [@m33_determinant FOps a] | ODet22 a => [@m22_determinant FOps a]
  | OPos44 a p => l3 (@m44_mulposition FOps a p)
  | OPos33 a p => l2 (@m33_mulposition FOps a p)
  | OPos22 a p => l2 (@m22_mulposition FOps a p)
  end.

Definition casem := (N * mop * list float)%type.
Definition mismatches_mat (cs : list casem) : list N :=
  map (fun c : casem => let '(id, _, _) := c in id)
      (filter (fun c : casem => let '(_, o, g) := c in negb (all2 fclose (mop_eval o) g)) cs).
Definition inexact_mat (cs : list casem) : list N :=
  map (fun c : casem => let '(id, _, _) := c in id)
      (filter (fun c : casem => let '(_, o, g) := c in negb (all2 fsame (mop_eval o) g)) cs).

(* ------------------------------------------------------------------ blends, SawTooth, extrusion maps *)
Inductive fop :=
| BRoundMin (k a b : float) | BChamferMin (k a b : float) | BPolyMin (k a b : float) | BPolyMax (k a b : float)
| FSaw (x period : float)
| XNormal (p : V3 FOps) | XTwist (h tw : float) (p : V3 FOps)
| XScale (h : float) (sc : V2 FOps) (p : V3 FOps) | XScaleTwist (h tw : float) (sc : V2 FOps) (p : V3 FOps).

Definition fop_eval (o : fop) : list float :=
  match o with
  | BRoundMin k a b => [@min_apply FOps (MinRound k) a b]
  | BChamferMin k a b => [@min_apply FOps (MinChamfer k) a b]
  | BPolyMin k a b => [@min_apply FOps (MinPoly k) a b]
  | BPolyMax k a b => [@max_apply FOps (MaxPoly k) a b]
  | FSaw x period => [@sawtooth FOps x period]
  | XNormal p => l2 (@ex_normal FOps p)
  | XTwist h tw p => l2 (@ex_twist FOps h tw p)
  | XScale h sc p => l2 (@ex_scale FOps h sc p)
  | XScaleTwist h tw sc p => l2 (@ex_scaletwist FOps h tw sc p)
  end.
Definition casef := (N * fop * list float)%type.
Definition mismatches_fun (cs : list casef) : list N :=
  map (fun c : casef => let '(id, _, _) := c in id)
      (filter (fun c : casef => let '(_, o, g) := c in negb (all2 fclose (fop_eval o) g)) cs).
Definition inexact_fun (cs : list casef) : list N :=
  map (fun c : casef => let '(id, _, _) := c in id)
      (filter (fun c : casef => let '(_, o, g) := c in negb (all2 fsame (fop_eval o) g)) cs).

(* ------------------------------------------------------------------ cache *)
(* a query carries the point and the wrapped shape's own value there (Evaluate of the operand);
   keys are compared by their bit patterns, as the repaired CacheSDF2 does *)
Definition cquery := (float * float * float)%type.
Definition ckeq (a b : cquery) : bool :=
  let '(ax, ay, _) := a in let '(bx, by_, _) := b in fsame ax bx && fsame ay by_.
Definition cdirect (a : cquery) : float := let '(_, _, d) := a in d.
(* id, history of (query, value the cache returned), final reads / hits / entries *)
Definition casec := (N * list (cquery * float) * (N * N * N))%type.
Definition okc (c : casec) : bool :=
  let '(id, h, (reads, hits, entries)) := c in
  let '(st, outs) := crun ckeq cdirect cinit (map fst h) in
  all2 fsame outs (map snd h) &&
  N.eqb (creads st) reads && N.eqb (chits st) hits && N.eqb (N.of_nat (length (cmap st))) entries.
Definition mismatches_cache (cs : list casec) : list N :=
  map (fun c : casec => let '(id, _, _) := c in id) (filter (fun c => negb (okc c)) cs).

(* ------------------------------------------------------------------ voxel *)
Definition i3 (x y z : Z) : I3 := (x, y, z).
(* id, box min, box max, meshCells, cells reported by Go, stored corners, queries with Go's values *)
Definition casev := (N * V3 FOps * V3 FOps * Z * I3 * list (I3 * float) * list (V3 FOps * float))%type.
Definition okv (cmp : float -> float -> bool) (c : casev) : bool :=
  let '(id, bmin, bmax, mesh, cells, tab, qs) := c in
  i3eqb (@voxel_cells FOps bmin bmax mesh) cells &&
  let m := @mkVoxel FOps (@tab_lookup FOps tab) bmin bmax cells in
  forallb (fun q : V3 FOps * float => let '(p, g) := q in cmp (@voxel_eval FOps m p) g) qs.
Definition mismatches_voxel (cs : list casev) : list N :=
  map (fun c : casev => let '(id, _, _, _, _, _, _) := c in id) (filter (fun c => negb (okv fclose c)) cs).
Definition inexact_voxel (cs : list casev) : list N :=
  map (fun c : casev => let '(id, _, _, _, _, _, _) := c in id) (filter (fun c => negb (okv fsame c)) cs).
