(* Correspondence for the shape embedding: build a generated expression tree at FOps and
   compare its bounding box and its values at the generated points with what the Go
   constructors / Evaluate returned. *)
From Coq Require Import List ZArith NArith Floats Bool.
From Sdfx Require Import Num.Ops Num.FInst Geo.Vec Geo.Box Geo.Mat Sdf.Union2 Sdf.Shape.
Import ListNotations.

Definition fv2 (x y : float) : V2 FOps := mkV2 x y.
Definition fv3 (x y z : float) : V3 FOps := mkV3 x y z.

Definition MinDef := @Shape.MinDef FOps.
Definition MinPoly := @Shape.MinPoly FOps.
Definition MinRound := @Shape.MinRound FOps.
Definition MinChamfer := @Shape.MinChamfer FOps.
Definition MaxDef := @Shape.MaxDef FOps.
Definition MaxPoly := @Shape.MaxPoly FOps.

Definition fCircle := @Circle FOps.
Definition fBox2D := @Box2D FOps.
Definition fLine2D := @Line2D FOps.
Definition fOffset2 := @Offset2 FOps.
Definition fIntersect2 := @Intersect2 FOps.
Definition fDifference2 := @Difference2 FOps.
Definition fCut2 := @Cut2 FOps.
Definition fTransform2 := @Transform2 FOps.
Definition fScaleUniform2 := @ScaleUniform2 FOps.
Definition fArray2 := @Array2 FOps.
Definition fRotateUnion2 := @RotateUnion2 FOps.
Definition fRotateCopy2 := @RotateCopy2 FOps.
Definition fElongate2 := @Elongate2 FOps.
Definition fUnion2 := @Union2 FOps.
Definition fSlice2 := @Slice2 FOps.
Definition fSphere := @Sphere FOps.
Definition fBox3D := @Box3D FOps.
Definition fCylinder := @Cylinder FOps.
Definition fCone := @Cone FOps.
Definition fRevolve := @Revolve FOps.
Definition fExtrude := @Extrude FOps.
Definition fTwistExtrude := @TwistExtrude FOps.
Definition fScaleExtrude := @ScaleExtrude FOps.
Definition fScaleTwistExtrude := @ScaleTwistExtrude FOps.
Definition fExtrudeRounded := @ExtrudeRounded FOps.
Definition fLoft := @Loft FOps.
Definition fTransform3 := @Transform3 FOps.
Definition fScaleUniform3 := @ScaleUniform3 FOps.
Definition fUnion3 := @Union3 FOps.
Definition fDifference3 := @Difference3 FOps.
Definition fIntersect3 := @Intersect3 FOps.
Definition fCut3 := @Cut3 FOps.
Definition fElongate3 := @Elongate3 FOps.
Definition fArray3 := @Array3 FOps.
Definition fRotateUnion3 := @RotateUnion3 FOps.
Definition fRotateCopy3 := @RotateCopy3 FOps.
Definition fOffset3 := @Offset3 FOps.
Definition fShell3 := @Shell3 FOps.

(* a 3D case: id, tree, Go box (min xyz, max xyz), points with the Go values *)
Definition case3 := (N * Shape3 FOps * (float * float * float * float * float * float) *
                     list (float * float * float * float))%type.
Definition case2 := (N * Shape2 FOps * (float * float * float * float) * list (float * float * float))%type.

Definition box3_close (cmp : float -> float -> bool) (b : Box3 FOps) (g : float * float * float * float * float * float) : bool :=
  let '(lx, ly, lz, hx, hy, hz) := g in
  cmp (wx (b3min b)) lx && cmp (wy (b3min b)) ly && cmp (wz (b3min b)) lz &&
  cmp (wx (b3max b)) hx && cmp (wy (b3max b)) hy && cmp (wz (b3max b)) hz.
Definition box2_close (cmp : float -> float -> bool) (b : Box2 FOps) (g : float * float * float * float) : bool :=
  let '(lx, ly, hx, hy) := g in
  cmp (vx (b2min b)) lx && cmp (vy (b2min b)) ly && cmp (vx (b2max b)) hx && cmp (vy (b2max b)) hy.

Definition ok3 (cmp : float -> float -> bool) (c : case3) : bool :=
  let '(id, t, gb, pts) := c in
  match build3 t with
  | None => false
  | Some o =>
      box3_close cmp (bb3 o) gb &&
      forallb (fun q : float * float * float * float =>
                 let '(x, y, z, g) := q in cmp (ev3 o (fv3 x y z)) g) pts
  end.
Definition ok2 (cmp : float -> float -> bool) (c : case2) : bool :=
  let '(id, t, gb, pts) := c in
  match build2 t with
  | None => false
  | Some o =>
      box2_close cmp (bb2 o) gb &&
      forallb (fun q : float * float * float => let '(x, y, g) := q in cmp (ev2 o (fv2 x y)) g) pts
  end.

Definition id3 (c : case3) : N := let '(id, _, _, _) := c in id.
Definition id2 (c : case2) : N := let '(id, _, _, _) := c in id.
Definition mismatches3 (cs : list case3) : list N := map id3 (filter (fun c => negb (ok3 fclose c)) cs).
Definition inexact3 (cs : list case3) : list N := map id3 (filter (fun c => negb (ok3 fsame c)) cs).
Definition mismatches2 (cs : list case2) : list N := map id2 (filter (fun c => negb (ok2 fclose c)) cs).
Definition inexact2 (cs : list case2) : list N := map id2 (filter (fun c => negb (ok2 fsame c)) cs).
