(* C02 over the reals, part 2: SawTooth and RotateCopy (sector folding), Revolve (sector
   membership in cylindrical coordinates), the extrusions (z-range, twist, scale, rounded),
   Loft and Slice. *)
From Coq Require Import Reals Lra Lia List Bool ZArith.
From Sdfx Require Import Num.Ops Num.RInst Geo.Vec Geo.Box Geo.BoxR Geo.NormR Geo.MinMaxR Geo.Mat Geo.MatR Geo.RotR
  Geo.PolarR Sdf.Union2 Sdf.Shape Sdf.ShapeR.
Import ListNotations.
Open Scope R_scope.

(* ------------------------------------------------------------------ SawTooth *)
Definition saw (x period : R) : R := @sawtooth ROps x period.
Lemma saw_unfold x T : saw x T = T * ((x + T / 2) / T - Rfloor ((x + T / 2) / T)) - T / 2.
Proof. unfold saw, sawtooth, two. cbn. reflexivity. Qed.

(* SawTooth differs from x by a whole number of periods ... *)
Theorem sawtooth_congruent x T : T <> 0 -> saw x T = x - T * Rfloor ((x + T / 2) / T).
Proof. intros N. rewrite saw_unfold. rfield. exact N. Qed.
(* ... and lies in [-period/2, period/2) *)
Theorem sawtooth_range x T : 0 < T -> - (T / 2) <= saw x T < T / 2.
Proof.
  intros P. rewrite saw_unfold. destruct (Rfloor_spec ((x + T / 2) / T)) as [L U].
  set (t := (x + T / 2) / T) in *. set (f := Rfloor t) in *. split; nra.
Qed.
Theorem sawtooth_periodic x T (k : Z) : T <> 0 -> saw (x + IZR k * T) T = saw x T.
Proof.
  intros N. rewrite !saw_unfold.
  replace ((x + IZR k * T + T / 2) / T) with ((x + T / 2) / T + IZR k) by (rfield; exact N).
  rewrite Rfloor_add_int. rring.
Qed.
(* on the fundamental interval it is the identity *)
Theorem sawtooth_id x T : 0 < T -> - (T / 2) <= x < T / 2 -> saw x T = x.
Proof.
  intros P [L U]. rewrite sawtooth_congruent by lra.
  assert (E : Rfloor ((x + T / 2) / T) = IZR 0).
  { apply Rfloor_unique. split.
    - apply Rmult_le_reg_r with T; [exact P|]. unfold Rdiv. rewrite Rmult_assoc, Rinv_l by lra. lra.
    - apply Rmult_lt_reg_r with T; [exact P|]. unfold Rdiv. rewrite Rmult_assoc, Rinv_l by lra. lra. }
  rewrite E. rring.
Qed.

(* ------------------------------------------------------------------ RotateCopy *)
(* the point the operand is evaluated at *)
Definition rc_fold (theta : R) (p : RV2) : RV2 :=
  let r := len2 p in let th := saw (Ratan2 (vy p) (vx p)) theta in mkV2 (r * cos th) (r * sin th).
Definition rot2 (a : R) (p : RV2) : RV2 := mkV2 (cos a * vx p - sin a * vy p) (sin a * vx p + cos a * vy p).
Definition sector_angle (n : Z) : R := @tau ROps / IZR n.

Lemma tau_2PI : @tau ROps = 2 * PI.
Proof. unfold tau, two. cbn. rring. Qed.

Lemma len2_zero (p : RV2) : len2 p = 0 -> p = mkV2 0 0.
Proof.
  intros H. pose proof (len2_sq p) as S. rewrite H in S. destruct p as [x y]; cbn [vx vy] in *.
  assert (x = 0) by nra. assert (y = 0) by nra. subst. reflexivity.
Qed.

Lemma rc_fold_invariant (n : Z) (p : RV2) : (0 < n)%Z ->
  rc_fold (sector_angle n) (rot2 (sector_angle n) p) = rc_fold (sector_angle n) p.
Proof.
  intros N. set (theta := sector_angle n).
  assert (NR : 0 < IZR n) by (apply IZR_lt; exact N).
  assert (N1 : 1 <= IZR n) by (apply IZR_le; lia).
  pose proof PI_RGT_0 as P.
  assert (TH : theta * IZR n = 2 * PI) by (unfold theta, sector_angle; rewrite tau_2PI; rfield; lra).
  assert (T0 : 0 < theta) by (unfold theta, sector_angle; rewrite tau_2PI; apply Rdiv_lt_0_compat; lra).
  assert (T1 : theta <= 2 * PI) by nra.
  destruct (Req_dec (len2 p) 0) as [Z|NZ].
  { rewrite (len2_zero p Z). unfold rot2; cbn [vx vy]. f_equal. f_equal; rring. }
  destruct (polar_atan2 p NZ) as (B & Hx & Hy). cbv zeta in *.
  set (phi := Ratan2 (vy p) (vx p)) in *. set (r := len2 p) in *.
  assert (R : 0 < r) by (pose proof (len2_nonneg p); fold r in H; lra).
  (* the rotated point in polar form, its angle reduced to (-PI, PI] *)
  set (j := if Rle_dec (phi + theta) PI then 0%Z else 1%Z).
  set (phi' := phi + theta - IZR j * (2 * PI)).
  assert (B' : - PI < phi' <= PI).
  { unfold phi', j. destruct (Rle_dec (phi + theta) PI); simpl; lra. }
  assert (C' : cos phi' = cos (phi + theta) /\ sin phi' = sin (phi + theta)).
  { unfold phi', j. destruct (Rle_dec (phi + theta) PI); simpl.
    - replace (phi + theta - 0 * (2 * PI)) with (phi + theta) by rring. auto.
    - rewrite <- (cos_2PI_shift (phi + theta - 1 * (2 * PI))), <- (sin_2PI_shift (phi + theta - 1 * (2 * PI))).
      replace (phi + theta - 1 * (2 * PI) + 2 * PI) with (phi + theta) by rring. auto. }
  destruct C' as [Cc Cs].
  assert (E : rot2 theta p = mkV2 (r * cos phi') (r * sin phi')).
  { unfold rot2. rewrite Hx, Hy, Cc, Cs, cos_plus, sin_plus. f_equal; rring. }
  rewrite E. unfold rc_fold. cbn [vx vy].
  rewrite len2_polar by lra. rewrite atan2_polar by assumption. fold r. fold phi.
  assert (S : saw phi' theta = saw phi theta).
  { unfold phi'. replace (phi + theta - IZR j * (2 * PI)) with (phi + IZR (1 - j * n) * theta).
    - apply sawtooth_periodic. lra.
    - rewrite minus_IZR, mult_IZR. rewrite <- TH. rring. }
  rewrite S. reflexivity.
Qed.

Lemma rc_fold_fundamental theta (p : RV2) : 0 < theta -> len2 p <> 0 ->
  - (theta / 2) <= Ratan2 (vy p) (vx p) < theta / 2 -> rc_fold theta p = p.
Proof.
  intros T NZ S. destruct (polar_atan2 p NZ) as (B & Hx & Hy). cbv zeta in *.
  unfold rc_fold. rewrite sawtooth_id by assumption. destruct p as [x y]; cbn [vx vy] in *. f_equal; auto.
Qed.

Lemma rotatecopy3_ev (s o : RObj3) n : k_rotatecopy3 s n = Some o -> (0 < n)%Z /\
  forall p, ev3 o p = let q := rc_fold (sector_angle n) (mkV2 (wx p) (wy p)) in ev3 s (mkV3 (vx q) (vy q) (wz p)).
Proof.
  unfold k_rotatecopy3. destruct (n <=? 0)%Z eqn:E; [discriminate|]. apply Z.leb_gt in E.
  intros H. split; [exact E|]. intros p.
  assert (EV : forall o', Some o' = Some o -> ev3 o' p = ev3 o p) by (intros o' [= ->]; reflexivity).
  symmetry. exact (EV _ H).
Qed.
Lemma rotatecopy2_ev (s o : RObj2) n : k_rotatecopy2 s n = Some o -> (0 < n)%Z /\
  forall p, ev2 o p = ev2 s (rc_fold (sector_angle n) p).
Proof.
  unfold k_rotatecopy2. destruct (n <=? 0)%Z eqn:E; [discriminate|]. apply Z.leb_gt in E.
  intros H. split; [exact E|]. intros p.
  assert (EV : forall o', Some o' = Some o -> ev2 o' p = ev2 o p) by (intros o' [= ->]; reflexivity).
  symmetry. exact (EV _ H).
Qed.

(* invariance under the rotation by 2 PI / n about the z axis (the matrix RotateZ builds) *)
Theorem rotatecopy3_invariant (s o : RObj3) n : k_rotatecopy3 s n = Some o ->
  forall p, ev3 o (mp44 (@mk_rotatez ROps (sector_angle n)) p) = ev3 o p.
Proof.
  intros H p. destruct (rotatecopy3_ev s o n H) as [N EV]. rewrite !EV. cbv zeta.
  rewrite rotatez_action. cbn [wx wy wz].
  change (mkV2 (cos (sector_angle n) * wx p - sin (sector_angle n) * wy p)
               (sin (sector_angle n) * wx p + cos (sector_angle n) * wy p))
    with (rot2 (sector_angle n) (mkV2 (wx p) (wy p))).
  rewrite rc_fold_invariant by exact N. reflexivity.
Qed.
Theorem rotatecopy2_invariant (s o : RObj2) n : k_rotatecopy2 s n = Some o ->
  forall p, ev2 o (mp33 (@mk_rotate2d ROps (sector_angle n)) p) = ev2 o p.
Proof.
  intros H p. destruct (rotatecopy2_ev s o n H) as [N EV]. rewrite !EV.
  destruct (rotate2d_orthonormal (sector_angle n)) as (_ & _ & _ & A). cbv zeta in A. rewrite A.
  change (mkV2 (cos (sector_angle n) * vx p - sin (sector_angle n) * vy p)
               (sin (sector_angle n) * vx p + cos (sector_angle n) * vy p))
    with (rot2 (sector_angle n) p).
  rewrite rc_fold_invariant by exact N. reflexivity.
Qed.
(* on the sector centred on +x (azimuth in [-PI/n, PI/n)) the copy is the operand itself *)
Theorem rotatecopy3_fundamental (s o : RObj3) n : k_rotatecopy3 s n = Some o ->
  forall p : RV3, len2 (mkV2 (wx p) (wy p)) <> 0 ->
  - (PI / IZR n) <= Ratan2 (wy p) (wx p) < PI / IZR n -> ev3 o p = ev3 s p.
Proof.
  intros H p NZ S. destruct (rotatecopy3_ev s o n H) as [N EV]. rewrite EV. cbv zeta.
  assert (NR : 0 < IZR n) by (apply IZR_lt; exact N). pose proof PI_RGT_0.
  assert (T : sector_angle n / 2 = PI / IZR n) by (unfold sector_angle; rewrite tau_2PI; rfield; lra).
  rewrite rc_fold_fundamental; cbn [vx vy]; [destruct p; reflexivity | | exact NZ | rewrite T; exact S].
  unfold sector_angle. rewrite tau_2PI. apply Rdiv_lt_0_compat; lra.
Qed.
Theorem rotatecopy2_fundamental (s o : RObj2) n : k_rotatecopy2 s n = Some o ->
  forall p : RV2, len2 p <> 0 ->
  - (PI / IZR n) <= Ratan2 (vy p) (vx p) < PI / IZR n -> ev2 o p = ev2 s p.
Proof.
  intros H p NZ S. destruct (rotatecopy2_ev s o n H) as [N EV]. rewrite EV.
  assert (NR : 0 < IZR n) by (apply IZR_lt; exact N). pose proof PI_RGT_0.
  assert (T : sector_angle n / 2 = PI / IZR n) by (unfold sector_angle; rewrite tau_2PI; rfield; lra).
  rewrite rc_fold_fundamental; [reflexivity | | exact NZ | rewrite T; exact S].
  unfold sector_angle. rewrite tau_2PI. apply Rdiv_lt_0_compat; lra.
Qed.

(* ------------------------------------------------------------------ math.Mod on non-negative arguments *)
Lemma fmod_range x y : 0 <= x -> 0 < y ->
  0 <= Rfmod x y < y /\ exists k : Z, (0 <= k)%Z /\ x = Rfmod x y + IZR k * y.
Proof.
  intros X Y. unfold Rfmod, Rtrunc.
  assert (Q : 0 <= x / y) by (apply Rmult_le_pos; [exact X | left; apply Rinv_0_lt_compat, Y]).
  destruct (Rle_dec 0 (x / y)) as [_|N]; [|lra].
  destruct (base_Int_part (x / y)) as [L U]. set (k := Int_part (x / y)) in *.
  assert (E : x = x / y * y) by (rfield; lra).
  split; [split; nra|]. exists k. split; [|rring].
  assert (-1 < IZR k) by lra. apply le_IZR. 
  assert ((-1 < k)%Z) by (apply lt_IZR; exact H). apply IZR_le. lia.
Qed.

Lemma Rmax_neg_iff x y : Rmax x y < 0 <-> x < 0 /\ y < 0.
Proof. unfold Rmax. destruct (Rle_dec x y); split; intros; lra. Qed.
Lemma Rmin_neg_iff x y : Rmin x y < 0 <-> x < 0 \/ y < 0.
Proof. unfold Rmin. destruct (Rle_dec x y); split; intros H; try lra; destruct H; lra. Qed.

(* ------------------------------------------------------------------ Revolve *)
Definition rev_val (s : RObj2) (theta : R) (p : RV3) : R :=
  let x := sqrt (wx p * wx p + wy p * wy p) in
  let a := ev2 s (mkV2 x (wz p)) in
  let b := if Reqb theta 0 then a
           else let d := - sin theta * wx p + cos theta * wy p in
                if Rltb theta PI then Rmax (- wy p) d else Rmin (- wy p) d in
  Rmax a b.



Lemma revolve3_ev (s : RObj2) (o : RObj3) theta0 : k_revolve s theta0 = Some o ->
  0 <= theta0 /\ forall p, ev3 o p = rev_val s (Rfmod (Rabs theta0) (@tau ROps)) p.
Proof.
  unfold k_revolve. change (oltb ROps theta0 (o0 ROps)) with (Rltb theta0 0).
  destruct (Rltb theta0 0) eqn:E; [discriminate|]. apply Rltb_false in E.
  intros H. split; [exact E|]. intros p.
  assert (EV : forall o', Some o' = Some o -> ev3 o' p = ev3 o p) by (intros o' [= ->]; reflexivity).
  symmetry. exact (EV _ H).
Qed.

(* the angle actually used: theta0 reduced to [0, 2 PI) *)
Lemma revolve_angle theta0 : 0 <= theta0 ->
  let theta := Rfmod (Rabs theta0) (@tau ROps) in
  0 <= theta < 2 * PI /\ exists k : Z, (0 <= k)%Z /\ theta0 = theta + IZR k * (2 * PI).
Proof.
  intros T. cbv zeta. rewrite tau_2PI, Rabs_pos_eq by exact T. pose proof PI_RGT_0.
  apply fmod_range; lra.
Qed.

(* theta a multiple of 2 PI: the full solid of revolution *)
Theorem revolve_full (s : RObj2) (o : RObj3) theta0 : k_revolve s theta0 = Some o ->
  Rfmod (Rabs theta0) (@tau ROps) = 0 ->
  forall p, ev3 o p = ev2 s (mkV2 (sqrt (wx p * wx p + wy p * wy p)) (wz p)).
Proof.
  intros H Z p. destruct (revolve3_ev s o theta0 H) as [_ EV]. rewrite EV, Z. unfold rev_val.
  assert (E : Reqb 0 0 = true) by (apply Reqb_true; reflexivity). rewrite E. cbv zeta. apply Rmax_left, Rle_refl.
Qed.

(* partial revolve, in cylindrical coordinates: inside iff the profile contains (rho, z)
   and the azimuth lies in the open sector (0, theta) -- for both wedge constructions *)
Theorem revolve_sector (s : RObj2) (o : RObj3) theta0 : k_revolve s theta0 = Some o ->
  let theta := Rfmod (Rabs theta0) (@tau ROps) in theta <> 0 ->
  forall rho phi z, 0 < rho -> 0 <= phi < 2 * PI ->
  (ev3 o (mkV3 (rho * cos phi) (rho * sin phi) z) < 0 <-> ev2 s (mkV2 rho z) < 0 /\ 0 < phi < theta).
Proof.
  intros H theta NZ rho phi z R [P0 P1]. destruct (revolve3_ev s o theta0 H) as [T0 EV].
  destruct (revolve_angle theta0 T0) as [[A0 A1] _]. fold theta in A0, A1.
  rewrite EV. fold theta. unfold rev_val. cbn [wx wy wz]. pose proof PI_RGT_0 as PP.
  assert (L : sqrt (rho * cos phi * (rho * cos phi) + rho * sin phi * (rho * sin phi)) = rho).
  { pose proof (len2_polar rho phi ltac:(lra)) as Q. unfold len2 in Q; cbn [vx vy] in Q. exact Q. }
  rewrite L.
  assert (D : - sin theta * (rho * cos phi) + cos theta * (rho * sin phi) = rho * sin (phi - theta))
    by (rewrite sin_minus; rring).
  rewrite D.
  assert (E : Reqb theta 0 = false) by (apply Reqb_false; exact NZ). rewrite E.
  assert (T : 0 < theta) by lra.
  assert (S1 : - (rho * sin phi) < 0 <-> 0 < phi < PI).
  { rewrite <- (sin_pos_iff phi) by lra. split; intros; nra. }
  assert (S2 : phi - theta < PI -> (rho * sin (phi - theta) < 0 <-> - PI < phi - theta < 0)).
  { intros Hlt. rewrite <- (sin_neg_iff (phi - theta)) by lra. split; intros; nra. }
  set (a := ev2 s (mkV2 rho z)) in *.
  destruct (Rltb theta PI) eqn:W; [apply Rltb_true in W | apply Rltb_false in W].
  - (* theta < PI: intersection of the two half-planes *)
    rewrite !Rmax_neg_iff, S1. split.
    + intros (Ha & Hb & Hc). apply S2 in Hc; [|lra]. repeat split; lra.
    + intros (Ha & Hb). split; [exact Ha|]. split; [lra | apply S2; lra].
  - (* theta >= PI: union of the two half-planes *)
    rewrite Rmax_neg_iff, Rmin_neg_iff, S1, S2 by lra. split.
    + intros (Ha & [Hb|Hb]); repeat split; lra.
    + intros (Ha & Hb). split; [exact Ha|]. destruct (Rlt_dec phi PI); [left | right]; lra.
Qed.

(* ------------------------------------------------------------------ Extrusions *)
Lemma k05_half : @k05 ROps = 1 / 2.
Proof. unfold k05, half, two. cbn. rfield. Qed.

Lemma extrude_ev_inside (s : RObj2) sh ex p :
  @extrude_ev ROps s sh ex p < 0 <-> ev2 s (ex p) < 0 /\ Rabs (wz p) < sh.
Proof.
  unfold extrude_ev. change (omax ROps) with Rmax. change (oabs ROps) with Rabs. change (osub ROps) with Rminus.
  unfold Rmax. destruct (Rle_dec _ _); split; intros; lra.
Qed.

(* every extrusion lives in |z| < height/2, and there it is the profile at the mapped point *)
Theorem extrude_zrange (s : RObj2) (o : RObj3) h tw sc :
  (k_extrude s h = Some o \/ k_twistextrude s h tw = Some o \/
   k_scaleextrude s h sc = Some o \/ k_scaletwistextrude s h tw sc = Some o) ->
  forall p, ev3 o p < 0 -> Rabs (wz p) < h / 2.
Proof.
  assert (Hh : h / (1 + 1) = h / 2) by rfield.
  intros [H|[H|[H|H]]] p; injection H as <-; cbn [ev3]; rewrite extrude_ev_inside; intros [_ Hz]; lra.
Qed.

Theorem extrude_sem (s : RObj2) (o : RObj3) h : k_extrude s h = Some o ->
  forall p, ev3 o p = Rmax (ev2 s (mkV2 (wx p) (wy p))) (Rabs (wz p) - h / 2).
Proof.
  assert (Hh : h / (1 + 1) = h / 2) by rfield.
  intros [= <-] p. cbn [ev3]. unfold extrude_ev, ex_normal. rewrite Hh. reflexivity.
Qed.

(* twist: ex_twist turns the query point by +z*twist/height, so the cross-section at height z is
   the profile turned by -z*twist/height (a point q of the profile appears at rot2 (-z k) q) *)
Lemma ex_twist_rot h tw (p : RV3) : @ex_twist ROps h tw p = rot2 (wz p * (tw / h)) (mkV2 (wx p) (wy p)).
Proof.
  unfold ex_twist. destruct (rotate_orthonormal (wz p * (tw / h))) as (_ & _ & A). cbv zeta in A.
  apply (A (mkV2 (wx p) (wy p))).
Qed.
Lemma rot2_inverse a q : rot2 a (rot2 (- a) q) = q.
Proof.
  destruct q as [x y]. unfold rot2; cbn [vx vy]. rewrite cos_neg, sin_neg.
  pose proof (sin2_cos2' a) as T. f_equal.
  - transitivity ((sin a * sin a + cos a * cos a) * x); [rring | rewrite T; rring].
  - transitivity ((sin a * sin a + cos a * cos a) * y); [rring | rewrite T; rring].
Qed.
Theorem twist_section (s : RObj2) (o : RObj3) h tw : k_twistextrude s h tw = Some o ->
  forall (q : RV2) z,
  let q' := rot2 (- (z * (tw / h))) q in
  ev3 o (mkV3 (vx q') (vy q') z) = Rmax (ev2 s q) (Rabs z - h / 2).
Proof.
  assert (Hh : h / (1 + 1) = h / 2) by rfield.
  intros [= <-] q z q'. cbn [ev3]. unfold extrude_ev. rewrite ex_twist_rot, Hh. cbn [wx wy wz].
  replace (mkV2 (vx q') (vy q')) with q' by (destruct q'; reflexivity).
  unfold q'. rewrite rot2_inverse. reflexivity.
Qed.
(* handedness: going up by dz the section turns by -dz*twist/height about +z, i.e. a positive
   twist gives a left-handed (clockwise, seen from +z) screw; the total turn bottom to top is -twist *)
Theorem twist_total_turn h tw : h <> 0 -> - (h / 2 * (tw / h)) - - (- (h / 2) * (tw / h)) = - tw.
Proof. intros H. field. exact H. Qed.

(* scale: the query point is multiplied by an affine function of z that is 1 at the bottom
   face and 1/scale at the top face, so the section grows linearly from the profile to scale * profile *)
Definition scale_lam (h sc z : R) : R := (1 / sc - 1) / h * z + (1 / sc * (1 / 2) + 1 / 2).
Lemma ex_scale_lam h (sc : RV2) (p : RV3) :
  @ex_scale ROps h sc p = mkV2 (wx p * scale_lam h (vx sc) (wz p)) (wy p * scale_lam h (vy sc) (wz p)).
Proof.
  unfold ex_scale, scale_lam, v2mul, v2add, v2muls, v2adds, v2divs, v2sub. cbn [vx vy]. rewrite k05_half.
  cbn. f_equal; unfold Rdiv; ring.
Qed.
Lemma scale_lam_ends h sc : h <> 0 -> sc <> 0 ->
  scale_lam h sc (- (h / 2)) = 1 /\ scale_lam h sc (h / 2) = 1 / sc /\
  forall z, scale_lam h sc z = 1 + (z / h + 1 / 2) * (1 / sc - 1).
Proof. intros H S. unfold scale_lam. repeat split; intros; field; auto. Qed.
Theorem scale_section (s : RObj2) (o : RObj3) h (sc : RV2) : k_scaleextrude s h sc = Some o ->
  forall p, ev3 o p = Rmax (ev2 s (mkV2 (wx p * scale_lam h (vx sc) (wz p)) (wy p * scale_lam h (vy sc) (wz p))))
                           (Rabs (wz p) - h / 2).
Proof.
  assert (Hh : h / (1 + 1) = h / 2) by rfield.
  intros [= <-] p. cbn [ev3]. unfold extrude_ev. rewrite ex_scale_lam, Hh. reflexivity.
Qed.
(* bottom face: the profile itself; top face: the profile scaled by `scale` *)
Corollary scale_section_faces (s : RObj2) (o : RObj3) h (sc : RV2) : k_scaleextrude s h sc = Some o ->
  0 < h -> vx sc <> 0 -> vy sc <> 0 -> forall q : RV2,
  ev3 o (mkV3 (vx q) (vy q) (- (h / 2))) = Rmax (ev2 s q) 0 /\
  ev3 o (mkV3 (vx sc * vx q) (vy sc * vy q) (h / 2)) = Rmax (ev2 s q) 0.
Proof.
  intros H Hp Sx Sy q. rewrite !(scale_section s o h sc H). cbn [wx wy wz].
  destruct (scale_lam_ends h (vx sc)) as (B1 & T1 & _); [lra | exact Sx|].
  destruct (scale_lam_ends h (vy sc)) as (B2 & T2 & _); [lra | exact Sy|].
  rewrite B1, B2, T1, T2. rewrite Rabs_Ropp, Rabs_pos_eq by lra.
  split; (f_equal; [f_equal; destruct q as [x y]; cbn [vx vy]; f_equal; rfield; assumption | lra]).
Qed.
Lemma ex_scaletwist_rot h tw (sc : RV2) (p : RV3) :
  @ex_scaletwist ROps h tw sc p =
  rot2 (wz p * (tw / h)) (mkV2 (wx p * scale_lam h (vx sc) (wz p)) (wy p * scale_lam h (vy sc) (wz p))).
Proof.
  unfold ex_scaletwist. cbv zeta.
  destruct (rotate_orthonormal (wz p * (tw / h))) as (_ & _ & A). cbv zeta in A.
  pose proof (ex_scale_lam h sc p) as E. unfold ex_scale in E. cbv zeta in E. rewrite E.
  apply (A (mkV2 (wx p * scale_lam h (vx sc) (wz p)) (wy p * scale_lam h (vy sc) (wz p)))).
Qed.
Theorem scaletwist_section (s : RObj2) (o : RObj3) h tw (sc : RV2) : k_scaletwistextrude s h tw sc = Some o ->
  forall p, ev3 o p =
    Rmax (ev2 s (rot2 (wz p * (tw / h))
                      (mkV2 (wx p * scale_lam h (vx sc) (wz p)) (wy p * scale_lam h (vy sc) (wz p)))))
         (Rabs (wz p) - h / 2).
Proof.
  assert (Hh : h / (1 + 1) = h / 2) by rfield.
  intros [= <-] p. cbn [ev3]. unfold extrude_ev. rewrite Hh, ex_scaletwist_rot. reflexivity.
Qed.

(* ------------------------------------------------------------------ ExtrudeRounded / Loft *)
(* the shared tail is the distance to the quadrant {a <= 0, b <= 0} (exact when a, b are), minus round *)
Theorem rounded_combine_sem a b r :
  @rounded_combine ROps a b r = sqrt (Rmax a 0 * Rmax a 0 + Rmax b 0 * Rmax b 0) + Rmin (Rmax a b) 0 - r.
Proof.
  unfold rounded_combine. change (oltb ROps) with Rltb. change (omax ROps) with Rmax. change (osqrt ROps) with sqrt.
  change (o0 ROps) with 0. change (osub ROps) with Rminus. change (oadd ROps) with Rplus. change (omul ROps) with Rmult.
  destruct (Rltb 0 b) eqn:B; [apply Rltb_true in B | apply Rltb_false in B];
  (destruct (Rltb a 0) eqn:A; [apply Rltb_true in A | apply Rltb_false in A]).
  - rewrite (Rmax_right a 0), (Rmax_left b 0) by lra. replace (0 * 0 + b * b) with (b * b) by rring.
    rewrite sqrt_square by lra. rewrite (Rmax_right a b), Rmin_right by lra. rring.
  - rewrite (Rmax_left a 0), (Rmax_left b 0) by lra.
    assert (0 < Rmax a b) by (unfold Rmax; destruct (Rle_dec a b); lra). rewrite Rmin_right by lra. rring.
  - rewrite (Rmax_right a 0), (Rmax_right b 0) by lra. replace (0 * 0 + 0 * 0) with 0 by rring. rewrite sqrt_0.
    assert (Rmax a b <= 0) by (unfold Rmax; destruct (Rle_dec a b); lra). rewrite Rmin_left by lra. rring.
  - rewrite (Rmax_left a 0), (Rmax_right b 0) by lra. replace (a * a + 0 * 0) with (a * a) by rring.
    rewrite sqrt_square by lra. rewrite (Rmax_left a b) by lra.
    destruct (Req_dec a 0) as [->|N]; [rewrite Rmin_left by lra; rring | rewrite Rmin_right by lra; rring].
Qed.
Lemma rounded_combine_inside a b r : 0 <= r -> @rounded_combine ROps a b r < 0 -> b < r.
Proof.
  intros R. rewrite rounded_combine_sem. intros H.
  destruct (Rlt_dec b r); [assumption|]. exfalso.
  assert (B : 0 <= b) by lra. rewrite (Rmax_left b 0) in H by lra.
  assert (S : b <= sqrt (Rmax a 0 * Rmax a 0 + b * b)).
  { rewrite <- (sqrt_square b B) at 1. apply sqrt_le_1_alt. nra. }
  assert (M : 0 <= Rmax a b) by (unfold Rmax; destruct (Rle_dec a b); lra).
  rewrite Rmin_right in H by lra. lra.
Qed.

Theorem extrude_rounded_sem (s : RObj2) (o : RObj3) h r : k_extruderounded s h r = Some o -> r <> 0 ->
  0 < r /\ 2 * r <= h /\
  forall p, ev3 o p = @rounded_combine ROps (ev2 s (mkV2 (wx p) (wy p))) (Rabs (wz p) - (h / 2 - r)) r /\
            (ev3 o p < 0 -> Rabs (wz p) < h / 2).
Proof.
  unfold k_extruderounded. intros H N.
  change (oeqb ROps r (o0 ROps)) with (Reqb r 0) in H. change (oleb ROps h (o0 ROps)) with (Rleb h 0) in H.
  change (oltb ROps r (o0 ROps)) with (Rltb r 0) in H. change (oltb ROps h (omul ROps (@two ROps) r)) with (Rltb h (2 * r)) in H.
  destruct (Reqb r 0) eqn:E0; [apply Reqb_true in E0; lra|].
  destruct (Rleb h 0) eqn:E1; [discriminate|]. destruct (Rltb r 0) eqn:E2; [discriminate|].
  destruct (Rltb h (2 * r)) eqn:E3; [discriminate|].
  apply Rleb_false in E1. apply Rltb_false in E2, E3. injection H as <-.
  split; [lra|]. split; [lra|]. intros p. cbn [ev3].
  assert (Hh : h / (1 + 1) - r = h / 2 - r) by rfield.
  rewrite Hh. split; [reflexivity|]. intros I. apply rounded_combine_inside in I; lra.
Qed.

(* the mix factor; with height = 2*round there is no straight part (sh = 0) and it is 1/2 *)
Definition loft_mix (sh z : R) : R := if Reqb sh 0 then 1 / 2 else @clamp ROps (1 / 2 * z / sh + 1 / 2) 0 1.
Theorem loft_sem (s0 s1 : RObj2) (o : RObj3) h r : k_loft s0 s1 h r = Some o ->
  0 <= r /\ 2 * r <= h /\ 0 < h /\
  forall p, let sh := h / 2 - r in let k := loft_mix sh (wz p) in
    ev3 o p = @rounded_combine ROps (ev2 s0 (mkV2 (wx p) (wy p)) + k * (ev2 s1 (mkV2 (wx p) (wy p)) - ev2 s0 (mkV2 (wx p) (wy p))))
                                    (Rabs (wz p) - sh) r.
Proof.
  unfold k_loft. intros H.
  change (oleb ROps h (o0 ROps)) with (Rleb h 0) in H.
  change (oltb ROps r (o0 ROps)) with (Rltb r 0) in H. change (oltb ROps h (omul ROps (@two ROps) r)) with (Rltb h (2 * r)) in H.
  destruct (Rleb h 0) eqn:E1; [discriminate|]. destruct (Rltb r 0) eqn:E2; [discriminate|].
  destruct (Rltb h (2 * r)) eqn:E3; [discriminate|].
  apply Rleb_false in E1. apply Rltb_false in E2, E3.
  split; [lra|]. split; [lra|]. split; [lra|]. intros p. set (sh := h / 2 - r).
  assert (EV : forall o', Some o' = Some o -> ev3 o' p = ev3 o p) by (intros o' [= ->]; reflexivity).
  rewrite <- (EV _ H). reflexivity.
Qed.
(* the mix factor is 0 at and below the bottom of the straight part, 1 at and above its top,
   linear in between: the loft starts as the first profile and ends as the second *)
Theorem loft_mix_ends sh z : 0 < sh ->
  (z <= - sh -> loft_mix sh z = 0) /\ (sh <= z -> loft_mix sh z = 1) /\
  (- sh <= z <= sh -> loft_mix sh z = (z + sh) / (2 * sh)).
Proof.
  intros S. unfold loft_mix, clamp. change (oltb ROps) with Rltb.
  destruct (Reqb sh 0) eqn:Z; [apply Reqb_true in Z; lra|].
  assert (E : 1 / 2 * z / sh + 1 / 2 = (z + sh) / (2 * sh)) by (field; lra). rewrite E.
  assert (Q : forall c, (z + sh) / (2 * sh) < c <-> z + sh < c * (2 * sh)).
  { intros c. split; intros Hc.
    - apply Rmult_lt_reg_r with (/ (2 * sh)); [apply Rinv_0_lt_compat; lra|].
      rewrite (Rmult_assoc c), Rinv_r by lra. unfold Rdiv in Hc. lra.
    - unfold Rdiv. apply Rmult_lt_reg_r with (2 * sh); [lra|]. rewrite Rmult_assoc, Rinv_l by lra. lra. }
  assert (Q' : forall c, c < (z + sh) / (2 * sh) <-> c * (2 * sh) < z + sh).
  { intros c. split; intros Hc.
    - apply Rmult_lt_reg_r with (/ (2 * sh)); [apply Rinv_0_lt_compat; lra|].
      rewrite (Rmult_assoc c), Rinv_r by lra. unfold Rdiv in Hc. lra.
    - unfold Rdiv. apply Rmult_lt_reg_r with (2 * sh); [lra|]. rewrite Rmult_assoc, Rinv_l by lra. lra. }
  repeat split; intros Hz; rcmp; try reflexivity; try (apply Q in C; lra); try (apply Q' in C0; lra); try lra.
  - assert (~ (z + sh) / (2 * sh) < 0) by lra. assert (z + sh = 0) by (destruct (Req_dec (z + sh) 0); [assumption | exfalso; apply H; apply Q; lra]).
    rewrite H0. field. lra.
  - assert (z = sh) by (destruct (Req_dec z sh); [assumption | exfalso; assert (1 < (z + sh) / (2 * sh)) by (apply Q'; lra); lra]).
    subst. field. lra.
Qed.

(* ------------------------------------------------------------------ Slice2D *)
Definition slice_u0 (n : RV3) : RV3 :=
  if Reqb (wx n) 0 then mkV3 1 0 0 else if Reqb (wy n) 0 then mkV3 0 1 0
  else if Reqb (wz n) 0 then mkV3 0 0 1 else mkV3 (wy n) (- wx n) 0.
Definition slice_u (n : RV3) : RV3 := @v3normalize ROps (slice_u0 n).
Definition slice_v (n : RV3) : RV3 := @v3normalize ROps (@v3cross ROps n (slice_u0 n)).
Definition dot3 (a b : RV3) : R := wx a * wx b + wy a * wy b + wz a * wz b.

Theorem slice_sem (s : RObj3) (o : RObj2) (a n : RV3) : k_slice2 s a n = Some o ->
  forall p : RV2, ev2 o p = ev3 s (mkV3 (wx a + wx (slice_u n) * vx p + wx (slice_v n) * vy p)
                                       (wy a + wy (slice_u n) * vx p + wy (slice_v n) * vy p)
                                       (wz a + wz (slice_u n) * vx p + wz (slice_v n) * vy p)).
Proof.
  intros H p.
  assert (EV : forall o', Some o' = Some o -> ev2 o' p = ev2 o p) by (intros o' [= ->]; reflexivity).
  symmetry. exact (EV _ H).
Qed.

Lemma len3_pos_of_dot (w : RV3) : 0 < dot3 w w -> len3 w <> 0.
Proof. intros H. unfold len3. unfold dot3 in H. pose proof (sqrt_lt_R0 _ H). lra. Qed.
Lemma normalize_dot (w b : RV3) : len3 w <> 0 -> dot3 (@v3normalize ROps w) b = dot3 w b / len3 w.
Proof.
  intros L. unfold dot3, v3normalize, v3muls. cbn [wx wy wz]. rewrite v3len_eq.
  cbn -[len3]. rfield. exact L.
Qed.
Lemma dot3_comm a b : dot3 a b = dot3 b a. Proof. unfold dot3. rring. Qed.

Lemma slice_u0_facts (n : RV3) : len3 n <> 0 -> dot3 n (slice_u0 n) = 0 /\ 0 < dot3 (slice_u0 n) (slice_u0 n).
Proof.
  intros L. unfold slice_u0, dot3.
  destruct (Reqb (wx n) 0) eqn:E1; [apply Reqb_true in E1; cbn [wx wy wz]; split; [rewrite E1; rring | lra]|].
  destruct (Reqb (wy n) 0) eqn:E2; [apply Reqb_true in E2; cbn [wx wy wz]; split; [rewrite E2; rring | lra]|].
  destruct (Reqb (wz n) 0) eqn:E3; [apply Reqb_true in E3; cbn [wx wy wz]; split; [rewrite E3; rring | lra]|].
  apply Reqb_false in E1. cbn [wx wy wz]. split; [rring|]. nra.
Qed.

(* u, v are orthonormal and perpendicular to n, whichever of the four branches chose u *)
Theorem slice_axes_orthonormal (n : RV3) : len3 n <> 0 ->
  dot3 (slice_u n) (slice_u n) = 1 /\ dot3 (slice_v n) (slice_v n) = 1 /\ dot3 (slice_u n) (slice_v n) = 0 /\
  dot3 (slice_u n) n = 0 /\ dot3 (slice_v n) n = 0.
Proof.
  intros L. destruct (slice_u0_facts n L) as [P U]. unfold slice_u, slice_v.
  generalize dependent (slice_u0 n). intros u0 P U.
  set (v0 := @v3cross ROps n u0).
  assert (NN : 0 < dot3 n n).
  { pose proof (len3_sq n) as S. pose proof (len3_nonneg n). unfold dot3. rewrite <- S. nra. }
  assert (V : dot3 v0 v0 = dot3 n n * dot3 u0 u0 - dot3 n u0 * dot3 n u0) by (unfold v0, v3cross, dot3; cbn; rring).
  rewrite P in V. assert (VP : 0 < dot3 v0 v0) by (rewrite V; nra).
  pose proof (len3_pos_of_dot u0 U) as LU. pose proof (len3_pos_of_dot v0 VP) as LV.
  assert (V1 : dot3 v0 n = 0) by (unfold v0, v3cross, dot3; cbn; rring).
  assert (V2 : dot3 v0 u0 = 0) by (unfold v0, v3cross, dot3; cbn; rring).
  clearbody v0.
  pose proof (normalize_unit u0 LU) as NU. pose proof (normalize_unit v0 LV) as NV. cbv zeta in NU, NV.
  split; [exact NU|]. split; [exact NV|].
  split; [rewrite normalize_dot by exact LU; rewrite dot3_comm, normalize_dot by exact LV; rewrite V2; rfield; split; assumption|].
  split; [rewrite normalize_dot by exact LU; rewrite dot3_comm, P; rfield; exact LU|].
  rewrite normalize_dot by exact LV. rewrite V1. rfield. exact LV.
Qed.
