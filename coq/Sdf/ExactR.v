(* C03, exactness part: the primitives of Sdf/Shape.v are Euclidean signed distance functions.
   For a solid given by an explicit predicate S with boundary set B:
     is_sdf f S B  :=  f < 0 exactly inside, |f p| <= dist p q for every boundary point q,
                       and some boundary point is at distance exactly |f p|.
   Method: every primitive here is convex; f is the supremum of 1-Lipschitz "support" functions,
   attained at each point by a unit direction n (the outward normal at the nearest boundary
   point b), with p = b + f(p) n and f(b + t n) = t for all t >= 0 (a normal ray).  The record
   `exact` packages: 1-Lipschitz, zero on B, sign, normal rays.  From it: is_sdf, and closure under
   offsetting (rounding), rigid motion, uniform scaling and full revolution. *)
From Coq Require Import Reals Lra Lia List Bool ZArith Psatz.
From Sdfx Require Import Num.Ops Num.RInst Geo.Vec Geo.Box Geo.BoxR Geo.NormR Geo.MinMaxR Geo.Mat
  Sdf.Union2 Sdf.Shape Sdf.ShapeR Sdf.LipR Sdf.ConeR.
Import ListNotations.
Open Scope R_scope.

Definition is_sdf2 (f : RV2 -> R) (S B : RV2 -> Prop) : Prop :=
  forall p, (f p < 0 <-> S p) /\ (forall q, B q -> Rabs (f p) <= dist2 p q) /\
            (exists q, B q /\ dist2 p q = Rabs (f p)).
Definition is_sdf3 (f : RV3 -> R) (S B : RV3 -> Prop) : Prop :=
  forall p, (f p < 0 <-> S p) /\ (forall q, B q -> Rabs (f p) <= dist3 p q) /\
            (exists q, B q /\ dist3 p q = Rabs (f p)).

(* points b + t n *)
Definition ray2 (b n : RV2) (t : R) : RV2 := mkV2 (vx b + t * vx n) (vy b + t * vy n).
Definition ray3 (b n : RV3) (t : R) : RV3 := mkV3 (wx b + t * wx n) (wy b + t * wy n) (wz b + t * wz n).
Definition unit2 (n : RV2) : Prop := vx n * vx n + vy n * vy n = 1.
Definition unit3 (n : RV3) : Prop := wx n * wx n + wy n * wy n + wz n * wz n = 1.

Lemma V2_eq (p q : RV2) : vx p = vx q -> vy p = vy q -> p = q.
Proof. destruct p, q; cbn; intros; subst; reflexivity. Qed.
Lemma V3_eq (p q : RV3) : wx p = wx q -> wy p = wy q -> wz p = wz q -> p = q.
Proof. destruct p, q; cbn; intros; subst; reflexivity. Qed.

Lemma dist2_ray b n t s : unit2 n -> dist2 (ray2 b n t) (ray2 b n s) = Rabs (t - s).
Proof.
  intros Hn. unfold dist2, len2, sub2, ray2. cbn [vx vy].
  replace ((vx b + t * vx n - (vx b + s * vx n)) * (vx b + t * vx n - (vx b + s * vx n)) +
           (vy b + t * vy n - (vy b + s * vy n)) * (vy b + t * vy n - (vy b + s * vy n)))
    with ((t - s) * (t - s) * (vx n * vx n + vy n * vy n)) by ring.
  rewrite Hn, Rmult_1_r. apply sqrt_Rsqr_abs.
Qed.
Lemma dist3_ray b n t s : unit3 n -> dist3 (ray3 b n t) (ray3 b n s) = Rabs (t - s).
Proof.
  intros Hn. unfold dist3, len3, sub3, ray3. cbn [wx wy wz].
  replace ((wx b + t * wx n - (wx b + s * wx n)) * (wx b + t * wx n - (wx b + s * wx n)) +
           (wy b + t * wy n - (wy b + s * wy n)) * (wy b + t * wy n - (wy b + s * wy n)) +
           (wz b + t * wz n - (wz b + s * wz n)) * (wz b + t * wz n - (wz b + s * wz n)))
    with ((t - s) * (t - s) * (wx n * wx n + wy n * wy n + wz n * wz n)) by ring.
  rewrite Hn, Rmult_1_r. apply sqrt_Rsqr_abs.
Qed.
Lemma ray2_0 b n : ray2 b n 0 = b.
Proof. apply V2_eq; cbn; ring. Qed.
Lemma ray3_0 b n : ray3 b n 0 = b.
Proof. apply V3_eq; cbn; ring. Qed.

(* ------------------------------------------------------------------ the certificate *)
Record exact2 (f : RV2 -> R) (S B : RV2 -> Prop) : Prop := {
  e2_lip : lip1_2 f;
  e2_zero : forall q, B q -> f q = 0;
  e2_sign : forall p, f p < 0 <-> S p;
  e2_rays : forall p, exists b n, B b /\ unit2 n /\ p = ray2 b n (f p) /\ forall t, 0 <= t -> f (ray2 b n t) = t
}.
Record exact3 (f : RV3 -> R) (S B : RV3 -> Prop) : Prop := {
  e3_lip : lip1_3 f;
  e3_zero : forall q, B q -> f q = 0;
  e3_sign : forall p, f p < 0 <-> S p;
  e3_rays : forall p, exists b n, B b /\ unit3 n /\ p = ray3 b n (f p) /\ forall t, 0 <= t -> f (ray3 b n t) = t
}.

Theorem exact2_is_sdf f S B : exact2 f S B -> is_sdf2 f S B.
Proof.
  intros [L Z Sg Ry] p. split; [apply Sg|]. split.
  - intros q Hq. pose proof (L p q) as H. rewrite (Z q Hq), Rminus_0_r in H. exact H.
  - destruct (Ry p) as (b & n & Hb & Hn & Ep & _). exists b. split; [exact Hb|].
    rewrite Ep at 1. rewrite <- (ray2_0 b n) at 2. rewrite (dist2_ray b n _ 0 Hn). f_equal. ring.
Qed.
Theorem exact3_is_sdf f S B : exact3 f S B -> is_sdf3 f S B.
Proof.
  intros [L Z Sg Ry] p. split; [apply Sg|]. split.
  - intros q Hq. pose proof (L p q) as H. rewrite (Z q Hq), Rminus_0_r in H. exact H.
  - destruct (Ry p) as (b & n & Hb & Hn & Ep & _). exists b. split; [exact Hb|].
    rewrite Ep at 1. rewrite <- (ray3_0 b n) at 2. rewrite (dist3_ray b n _ 0 Hn). f_equal. ring.
Qed.

(* offset_of_exact: rounding by r >= 0.  What is needed is exactly the certificate: f 1-Lipschitz and
   through every point a normal ray along which f grows with unit speed for ever (true for convex
   solids; false in general, see offset_nonconvex_refuted).  The offset solid is { f < r }, its
   boundary { f = r }, and the result is again certified, so roundings compose. *)
Theorem offset_of_exact2 f S B r : 0 <= r -> exact2 f S B ->
  exact2 (fun p => f p - r) (fun p => f p < r) (fun q => f q = r).
Proof.
  intros Hr [L Z Sg Ry]. constructor.
  - apply (lipd_sub dist2). exact L.
  - intros q Hq. lra.
  - intros p. split; intros; lra.
  - intros p. destruct (Ry p) as (b & n & Hb & Hn & Ep & Ht).
    exists (ray2 b n r), n. split; [apply Ht; exact Hr|]. split; [exact Hn|]. split.
    + rewrite Ep at 1. apply V2_eq; cbn; ring.
    + intros t Ht0. replace (ray2 (ray2 b n r) n t) with (ray2 b n (r + t)) by (apply V2_eq; cbn; ring).
      rewrite Ht by lra. ring.
Qed.
Theorem offset_of_exact3 f S B r : 0 <= r -> exact3 f S B ->
  exact3 (fun p => f p - r) (fun p => f p < r) (fun q => f q = r).
Proof.
  intros Hr [L Z Sg Ry]. constructor.
  - apply (lipd_sub dist3). exact L.
  - intros q Hq. lra.
  - intros p. split; intros; lra.
  - intros p. destruct (Ry p) as (b & n & Hb & Hn & Ep & Ht).
    exists (ray3 b n r), n. split; [apply Ht; exact Hr|]. split; [exact Hn|]. split.
    + rewrite Ep at 1. apply V3_eq; cbn; ring.
    + intros t Ht0. replace (ray3 (ray3 b n r) n t) with (ray3 b n (r + t)) by (apply V3_eq; cbn; ring).
      rewrite Ht by lra. ring.
Qed.

Lemma exact2_ext f g S B : (forall p, f p = g p) -> exact2 f S B -> exact2 g S B.
Proof.
  intros E [L Z Sg Ry]. constructor.
  - apply (lipd_ext dist2 f g E L).
  - intros q Hq. rewrite <- E. apply Z, Hq.
  - intros p. rewrite <- E. apply Sg.
  - intros p. destruct (Ry p) as (b & n & Hb & Hn & Ep & Ht). exists b, n. rewrite <- E.
    repeat split; try assumption. intros t H0. rewrite <- E. apply Ht, H0.
Qed.
Lemma exact3_ext f g S B : (forall p, f p = g p) -> exact3 f S B -> exact3 g S B.
Proof.
  intros E [L Z Sg Ry]. constructor.
  - apply (lipd_ext dist3 f g E L).
  - intros q Hq. rewrite <- E. apply Z, Hq.
  - intros p. rewrite <- E. apply Sg.
  - intros p. destruct (Ry p) as (b & n & Hb & Hn & Ep & Ht). exists b, n. rewrite <- E.
    repeat split; try assumption. intros t H0. rewrite <- E. apply Ht, H0.
Qed.
Lemma exact2_iff f S S' B B' : (forall p, S p <-> S' p) -> (forall q, B q <-> B' q) -> exact2 f S B -> exact2 f S' B'.
Proof.
  intros ES EB [L Z Sg Ry]. constructor; [exact L | | |].
  - intros q Hq. apply Z, EB, Hq.
  - intros p. rewrite <- ES. apply Sg.
  - intros p. destruct (Ry p) as (b & n & Hb & R). exists b, n. split; [apply EB, Hb | exact R].
Qed.
Lemma exact3_iff f S S' B B' : (forall p, S p <-> S' p) -> (forall q, B q <-> B' q) -> exact3 f S B -> exact3 f S' B'.
Proof.
  intros ES EB [L Z Sg Ry]. constructor; [exact L | | |].
  - intros q Hq. apply Z, EB, Hq.
  - intros p. rewrite <- ES. apply Sg.
  - intros p. destruct (Ry p) as (b & n & Hb & R). exists b, n. split; [apply EB, Hb | exact R].
Qed.

(* ------------------------------------------------------------------ circle and sphere *)
Lemma len2_scale_unit e c : unit2 e -> 0 <= c -> len2 (mkV2 (c * vx e) (c * vy e)) = c.
Proof.
  intros He Hc. unfold len2; cbn [vx vy].
  replace (c * vx e * (c * vx e) + c * vy e * (c * vy e)) with (c * c * (vx e * vx e + vy e * vy e)) by ring.
  rewrite He, Rmult_1_r. apply sqrt_square; exact Hc.
Qed.
Lemma len3_scale_unit e c : unit3 e -> 0 <= c -> len3 (mkV3 (c * wx e) (c * wy e) (c * wz e)) = c.
Proof.
  intros He Hc. unfold len3; cbn [wx wy wz].
  replace (c * wx e * (c * wx e) + c * wy e * (c * wy e) + c * wz e * (c * wz e))
    with (c * c * (wx e * wx e + wy e * wy e + wz e * wz e)) by ring.
  rewrite He, Rmult_1_r. apply sqrt_square; exact Hc.
Qed.
Lemma len2_zero p : len2 p = 0 -> vx p = 0 /\ vy p = 0.
Proof. intros H. pose proof (len2_sq p) as S. rewrite H in S. split; nra. Qed.
Lemma len3_zero p : len3 p = 0 -> wx p = 0 /\ wy p = 0 /\ wz p = 0.
Proof. intros H. pose proof (len3_sq p) as S. rewrite H in S. repeat split; nra. Qed.

Lemma scale_div (a L : R) : L <> 0 -> a = L * (a / L).
Proof. intros; field; assumption. Qed.

Lemma unit_dir2 p : exists e, unit2 e /\ p = mkV2 (len2 p * vx e) (len2 p * vy e).
Proof.
  pose proof (len2_nonneg p) as Hn. destruct (Req_dec (len2 p) 0) as [E|E].
  - exists (mkV2 1 0). split; [unfold unit2; cbn; ring|]. destruct (len2_zero p E) as [Ex Ey]. rewrite E.
    apply V2_eq; cbn; lra.
  - exists (mkV2 (vx p / len2 p) (vy p / len2 p)). pose proof (len2_sq p) as S. split.
    + unfold unit2; cbn [vx vy].
      replace (vx p / len2 p * (vx p / len2 p) + vy p / len2 p * (vy p / len2 p))
        with ((vx p * vx p + vy p * vy p) / (len2 p * len2 p)) by (field; exact E). rewrite <- S. field; exact E.
    + apply V2_eq; cbn [vx vy]; apply scale_div; exact E.
Qed.
Lemma unit_dir3 p : exists e, unit3 e /\ p = mkV3 (len3 p * wx e) (len3 p * wy e) (len3 p * wz e).
Proof.
  pose proof (len3_nonneg p) as Hn. destruct (Req_dec (len3 p) 0) as [E|E].
  - exists (mkV3 1 0 0). split; [unfold unit3; cbn; ring|]. destruct (len3_zero p E) as (Ex & Ey & Ez). rewrite E.
    apply V3_eq; cbn; lra.
  - exists (mkV3 (wx p / len3 p) (wy p / len3 p) (wz p / len3 p)). pose proof (len3_sq p) as S. split.
    + unfold unit3; cbn [wx wy wz].
      replace (wx p / len3 p * (wx p / len3 p) + wy p / len3 p * (wy p / len3 p) + wz p / len3 p * (wz p / len3 p))
        with ((wx p * wx p + wy p * wy p + wz p * wz p) / (len3 p * len3 p)) by (field; exact E). rewrite <- S. field; exact E.
    + apply V3_eq; cbn [wx wy wz]; apply scale_div; exact E.
Qed.

Lemma disc_exact r : 0 <= r -> exact2 (fun p => len2 p - r) (fun p => len2 p < r) (fun q => len2 q = r).
Proof.
  intros Hr. constructor.
  - apply (lipd_sub dist2). intros p q. apply len2_lip.
  - intros q Hq. lra.
  - intros p. split; intros; lra.
  - intros p. destruct (unit_dir2 p) as (e & He & Ep). pose proof (len2_nonneg p) as Hn.
    exists (mkV2 (r * vx e) (r * vy e)), e.
    split; [apply len2_scale_unit; assumption|]. split; [exact He|]. split.
    + rewrite Ep at 1. apply V2_eq; cbn [ray2 vx vy]; rring.
    + intros t Ht. unfold ray2; cbn [vx vy].
      replace (r * vx e + t * vx e) with ((r + t) * vx e) by ring. replace (r * vy e + t * vy e) with ((r + t) * vy e) by ring.
      rewrite len2_scale_unit by (try assumption; lra). ring.
Qed.
Lemma ball_exact r : 0 <= r -> exact3 (fun p => len3 p - r) (fun p => len3 p < r) (fun q => len3 q = r).
Proof.
  intros Hr. constructor.
  - apply (lipd_sub dist3). intros p q. apply len3_lip.
  - intros q Hq. lra.
  - intros p. split; intros; lra.
  - intros p. destruct (unit_dir3 p) as (e & He & Ep). pose proof (len3_nonneg p) as Hn.
    exists (mkV3 (r * wx e) (r * wy e) (r * wz e)), e.
    split; [apply len3_scale_unit; assumption|]. split; [exact He|]. split.
    + rewrite Ep at 1. apply V3_eq; cbn [ray3 wx wy wz]; rring.
    + intros t Ht. unfold ray3; cbn [wx wy wz].
      replace (r * wx e + t * wx e) with ((r + t) * wx e) by ring. replace (r * wy e + t * wy e) with ((r + t) * wy e) by ring.
      replace (r * wz e + t * wz e) with ((r + t) * wz e) by ring.
      rewrite len3_scale_unit by (try assumption; lra). ring.
Qed.

(* Circle2D(r): the open disc of radius r, boundary the circle *)
Theorem circle_exact r o : k_circle r = Some o ->
  exact2 (ev2 o) (fun p => len2 p < r) (fun q => len2 q = r).
Proof.
  unfold k_circle. change (oltb ROps r (o0 ROps)) with (Rltb r 0).
  destruct (Rltb r 0) eqn:C; [discriminate|]. apply Rltb_false in C. intros H; injection H as <-. cbn [ev2].
  apply (disc_exact r C).
Qed.
Theorem circle_is_sdf r o : k_circle r = Some o -> is_sdf2 (ev2 o) (fun p => len2 p < r) (fun q => len2 q = r).
Proof. intros H. apply exact2_is_sdf, (circle_exact r o H). Qed.

Theorem sphere_exact r o : k_sphere r = Some o ->
  exact3 (ev3 o) (fun p => len3 p < r) (fun q => len3 q = r).
Proof.
  unfold k_sphere. change (oleb ROps r (o0 ROps)) with (Rleb r 0).
  destruct (Rleb r 0) eqn:C; [discriminate|]. apply Rleb_false in C. intros H; injection H as <-. cbn [ev3].
  apply (ball_exact r). lra.
Qed.
Theorem sphere_is_sdf r o : k_sphere r = Some o -> is_sdf3 (ev3 o) (fun p => len3 p < r) (fun q => len3 q = r).
Proof. intros H. apply exact3_is_sdf, (sphere_exact r o H). Qed.

(* ------------------------------------------------------------------ the negative quadrant / octant: nearest point and normal *)
Lemma orth2_nonpos a b : a <= 0 -> b <= 0 -> orth2 a b = Rmax a b.
Proof. intros. unfold orth2. destruct (Rle_dec (Rmax a b) 0) as [|N]; [reflexivity|]. exfalso; apply N; apply Rmax_lub; lra. Qed.
Lemma orth2_neg_iff a b : orth2 a b < 0 <-> a < 0 /\ b < 0.
Proof.
  unfold orth2. pose proof (Rmax_l a b). pose proof (Rmax_r a b). destruct (Rle_dec (Rmax a b) 0) as [Hm|Hm].
  - split; [intros; lra|]. intros [? ?]. apply Rmax_lub_lt; lra.
  - pose proof (len2_nonneg (mkV2 (relu a) (relu b))). split; [intros; lra|]. intros [? ?]. exfalso; apply Hm; apply Rmax_lub; lra.
Qed.

Lemma orth2_nearest a b : exists m1 m2, 0 <= m1 /\ 0 <= m2 /\ m1 * m1 + m2 * m2 = 1 /\
  m1 * a + m2 * b = orth2 a b /\
  a - orth2 a b * m1 <= 0 /\ b - orth2 a b * m2 <= 0 /\
  (0 < orth2 a b -> a - orth2 a b * m1 = Rmin a 0 /\ b - orth2 a b * m2 = Rmin b 0).
Proof.
  unfold orth2. destruct (Rle_dec (Rmax a b) 0) as [Hm|Hm].
  - pose proof (Rmax_l a b). pose proof (Rmax_r a b).
    destruct (Rmax_case_eq a b) as [[E Hle]|[E Hle]]; rewrite E.
    + exists 1, 0. repeat split; try lra.
    + exists 0, 1. repeat split; try lra.
  - set (L := len2 (mkV2 (relu a) (relu b))).
    pose proof (relu_nonneg a) as Ra. pose proof (relu_nonneg b) as Rb.
    assert (HL : 0 < L).
    { apply len2_pos_iff. cbn [vx vy].
      destruct (Rmax_case_eq a b) as [[E _]|[E _]]; rewrite E in Hm.
      - rewrite (relu_pos a) by lra. nra.
      - rewrite (relu_pos b) by lra. nra. }
    pose proof (len2_sq (mkV2 (relu a) (relu b))) as S. cbn [vx vy] in S. fold L in S.
    exists (relu a / L), (relu b / L).
    assert (E1 : L * (relu a / L) = relu a) by (field; lra).
    assert (E2 : L * (relu b / L) = relu b) by (field; lra).
    split; [apply Rmult_le_pos; [lra | apply Rlt_le, Rinv_0_lt_compat; lra]|].
    split; [apply Rmult_le_pos; [lra | apply Rlt_le, Rinv_0_lt_compat; lra]|].
    split.
    { replace (relu a / L * (relu a / L) + relu b / L * (relu b / L))
        with ((relu a * relu a + relu b * relu b) / (L * L)) by (field; lra).
      rewrite <- S. field; lra. }
    split.
    { replace (relu a / L * a + relu b / L * b) with ((relu a * a + relu b * b) / L) by (field; lra).
      rewrite !relu_sq, <- S. field; lra. }
    rewrite E1, E2.
    assert (Ma : a - relu a = Rmin a 0) by (unfold relu, Rmax, Rmin; destruct (Rle_dec a 0); lra).
    assert (Mb : b - relu b = Rmin b 0) by (unfold relu, Rmax, Rmin; destruct (Rle_dec b 0); lra).
    pose proof (Rmin_r a 0). pose proof (Rmin_r b 0).
    split; [lra|]. split; [lra|]. intros _. split; assumption.
Qed.

Lemma orth2_ray c1 c2 m1 m2 t : c1 <= 0 -> c2 <= 0 -> 0 <= m1 -> 0 <= m2 -> m1 * m1 + m2 * m2 = 1 ->
  m1 * c1 + m2 * c2 = 0 -> 0 <= t -> orth2 (c1 + t * m1) (c2 + t * m2) = t.
Proof.
  intros H1 H2 M1 M2 Hu H0 Ht. apply Rle_antisym.
  - pose proof (orth2_lip (c1 + t * m1) (c2 + t * m2) c1 c2) as L. apply Rabs_le_iff in L.
    replace (c1 + t * m1 - c1) with (t * m1) in L by ring. replace (c2 + t * m2 - c2) with (t * m2) in L by ring.
    pose proof (len2_scale_unit (mkV2 m1 m2) t Hu Ht) as Ls. cbn [vx vy] in Ls. rewrite Ls in L.
    rewrite (orth2_nonpos c1 c2 H1 H2) in L. assert (Rmax c1 c2 <= 0) by (apply Rmax_lub; lra). lra.
  - pose proof (orth2_support m1 m2 (c1 + t * m1) (c2 + t * m2) M1 M2 Hu). nra.
Qed.

(* sign bookkeeping for the |x| folds *)
Definition sg (x : R) : R := if Rle_dec 0 x then 1 else -1.
Lemma sg_sq x : sg x * sg x = 1.
Proof. unfold sg; destruct (Rle_dec 0 x); ring. Qed.
Lemma sg_abs x : sg x * Rabs x = x.
Proof. unfold sg, Rabs; destruct (Rle_dec 0 x), (Rcase_abs x); lra. Qed.
Lemma abs_sg_mul x y : 0 <= y -> Rabs (sg x * y) = y.
Proof. intros. unfold sg; destruct (Rle_dec 0 x); [rewrite Rmult_1_l; apply Rabs_pos_eq; lra|]. replace (-1 * y) with (- y) by ring. rewrite Rabs_Ropp. apply Rabs_pos_eq; lra. Qed.
Lemma sg_nonneg x : 0 <= x -> sg x = 1.
Proof. intros; unfold sg; destruct (Rle_dec 0 x); lra. Qed.

(* ------------------------------------------------------------------ 2D box *)
Definition box2_in (s : RV2) (p : RV2) : Prop := Rabs (vx p) < vx s /\ Rabs (vy p) < vy s.
Definition box2_bd (s : RV2) (q : RV2) : Prop :=
  Rabs (vx q) <= vx s /\ Rabs (vy q) <= vy s /\ (Rabs (vx q) = vx s \/ Rabs (vy q) = vy s).

(* the nearest boundary point b, the unit normal n there, and the normal ray; for points with
   x >= 0 both b and n have non-negative x (used when the box is a meridian profile) *)
Lemma box2_rays s p : 0 <= vx s -> 0 <= vy s ->
  let f := fun p => @sdf_box2d ROps p s in
  exists b n, box2_bd s b /\ unit2 n /\ p = ray2 b n (f p) /\ (forall t, 0 <= t -> f (ray2 b n t) = t) /\
              (0 <= vx p -> 0 <= vx b /\ 0 <= vx n).
Proof.
  intros Hsx Hsy f. unfold f. 
  set (d1 := Rabs (vx p) - vx s). set (d2 := Rabs (vy p) - vy s).
  assert (Ef : @sdf_box2d ROps p s = orth2 d1 d2) by apply sdf_box2d_orth.
  destruct (orth2_nearest d1 d2) as (m1 & m2 & M1 & M2 & Hu & Hdot & C1 & C2 & Hpos).
  set (F := orth2 d1 d2) in *.
  set (c1 := d1 - F * m1) in *. set (c2 := d2 - F * m2) in *.
  assert (B1 : 0 <= vx s + c1).
  { destruct (Rle_dec F 0) as [HF|HF].
    - assert (F * m1 <= 0) by nra. unfold c1, d1. pose proof (Rabs_pos (vx p)). lra.
    - destruct (Hpos ltac:(lra)) as [E1 _]. rewrite E1. unfold d1, Rmin. pose proof (Rabs_pos (vx p)). destruct (Rle_dec _ _); lra. }
  assert (B2 : 0 <= vy s + c2).
  { destruct (Rle_dec F 0) as [HF|HF].
    - assert (F * m2 <= 0) by nra. unfold c2, d2. pose proof (Rabs_pos (vy p)). lra.
    - destruct (Hpos ltac:(lra)) as [_ E2]. rewrite E2. unfold d2, Rmin. pose proof (Rabs_pos (vy p)). destruct (Rle_dec _ _); lra. }
  assert (Hmc : m1 * c1 + m2 * c2 = 0).
  { unfold c1, c2. transitivity ((m1 * d1 + m2 * d2) - F * (m1 * m1 + m2 * m2)); [ring | rewrite Hdot, Hu; ring]. }
  assert (Hc0 : orth2 c1 c2 = 0).
  { pose proof (orth2_ray c1 c2 m1 m2 0 C1 C2 M1 M2 Hu Hmc ltac:(lra)) as E.
    replace (c1 + 0 * m1) with c1 in E by ring. replace (c2 + 0 * m2) with c2 in E by ring. exact E. }
  set (b := mkV2 (sg (vx p) * (vx s + c1)) (sg (vy p) * (vy s + c2))).
  set (n := mkV2 (sg (vx p) * m1) (sg (vy p) * m2)).
  assert (Hray : forall t, 0 <= t -> @sdf_box2d ROps (ray2 b n t) s = orth2 (c1 + t * m1) (c2 + t * m2)).
  { intros t Ht. rewrite sdf_box2d_orth. unfold ray2, b, n. cbn [vx vy].
    replace (sg (vx p) * (vx s + c1) + t * (sg (vx p) * m1)) with (sg (vx p) * (vx s + c1 + t * m1)) by ring.
    replace (sg (vy p) * (vy s + c2) + t * (sg (vy p) * m2)) with (sg (vy p) * (vy s + c2 + t * m2)) by ring.
    rewrite !abs_sg_mul by nra. f_equal; ring. }
  exists b, n. split; [|split; [|split; [|split]]].
  - unfold box2_bd, b. cbn [vx vy]. rewrite !abs_sg_mul by assumption.
    split; [lra|]. split; [lra|].
    rewrite (orth2_nonpos c1 c2 C1 C2) in Hc0. destruct (Rmax_case_eq c1 c2) as [[E _]|[E _]]; rewrite E in Hc0; [left | right]; lra.
  - unfold unit2, n. cbn [vx vy].
    replace (sg (vx p) * m1 * (sg (vx p) * m1) + sg (vy p) * m2 * (sg (vy p) * m2))
      with ((sg (vx p) * sg (vx p)) * (m1 * m1) + (sg (vy p) * sg (vy p)) * (m2 * m2)) by ring.
    rewrite !sg_sq. lra.
  - rewrite Ef. apply V2_eq; unfold ray2, b, n; cbn [vx vy].
    + replace (sg (vx p) * (vx s + c1) + F * (sg (vx p) * m1)) with (sg (vx p) * (vx s + c1 + F * m1)) by ring.
      replace (vx s + c1 + F * m1) with (Rabs (vx p)) by (unfold c1, d1; ring). symmetry; apply sg_abs.
    + replace (sg (vy p) * (vy s + c2) + F * (sg (vy p) * m2)) with (sg (vy p) * (vy s + c2 + F * m2)) by ring.
      replace (vy s + c2 + F * m2) with (Rabs (vy p)) by (unfold c2, d2; ring). symmetry; apply sg_abs.
  - intros t Ht. rewrite (Hray t Ht). apply orth2_ray; assumption.
  - intros Hx. unfold b, n. cbn [vx]. rewrite (sg_nonneg _ Hx). split; nra.
Qed.

Theorem box2_sharp_exact s : 0 <= vx s -> 0 <= vy s ->
  exact2 (fun p => @sdf_box2d ROps p s) (box2_in s) (box2_bd s).
Proof.
  intros Hsx Hsy. constructor.
  - apply lip1_sdf_box2d.
  - intros q Hq. destruct Hq as (H1 & H2 & H3). rewrite sdf_box2d_orth. rewrite orth2_nonpos by lra.
    destruct H3 as [H3|H3]; unfold Rmax; destruct (Rle_dec _ _); lra.
  - intros p. rewrite sdf_box2d_orth, orth2_neg_iff. unfold box2_in. split; intros [? ?]; split; lra.
  - intros p. destruct (box2_rays s p Hsx Hsy) as (b & n & Hb & Hn & Ep & Ht & _). exists b, n. auto.
Qed.

(* Box2D(size, round): the inset box of half sizes size/2 - round, offset by round *)
Theorem box2_exact size round o : k_box2 size round = Some o ->
  0 <= round -> 2 * round <= vx size -> 2 * round <= vy size ->
  let ss := mkV2 (vx size / 2 - round) (vy size / 2 - round) in
  exact2 (ev2 o) (fun p => @sdf_box2d ROps p ss < round) (fun q => @sdf_box2d ROps q ss = round).
Proof.
  intros H Hr Hx Hy ss. unfold k_box2 in H. injection H as <-.
  assert (Ess : @v2subs ROps (v2muls size k05) round = ss).
  { unfold ss, v2subs, v2muls, k05, half, two. cbn. apply V2_eq; cbn [vx vy]; rnorm; field. }
  apply (exact2_ext (fun p => @sdf_box2d ROps p ss - round)).
  { intros p. rewrite <- Ess. reflexivity. }
  apply (offset_of_exact2 (fun p => @sdf_box2d ROps p ss) (box2_in ss) (box2_bd ss) round Hr).
  apply box2_sharp_exact; unfold ss; cbn [vx vy]; lra.
Qed.
Theorem box2_is_sdf size round o : k_box2 size round = Some o ->
  0 <= round -> 2 * round <= vx size -> 2 * round <= vy size ->
  let ss := mkV2 (vx size / 2 - round) (vy size / 2 - round) in
  is_sdf2 (ev2 o) (fun p => @sdf_box2d ROps p ss < round) (fun q => @sdf_box2d ROps q ss = round).
Proof. intros H Hr Hx Hy ss. apply exact2_is_sdf. apply (box2_exact size round o H Hr Hx Hy). Qed.
(* the sharp box with the solid and its boundary spelt out *)
Theorem box2_sharp_is_sdf size o : k_box2 size 0 = Some o -> 0 <= vx size -> 0 <= vy size ->
  let ss := mkV2 (vx size / 2) (vy size / 2) in
  is_sdf2 (ev2 o) (box2_in ss) (box2_bd ss).
Proof.
  intros H Hx Hy ss. unfold k_box2 in H. injection H as <-. apply exact2_is_sdf.
  assert (Ess : @v2subs ROps (v2muls size k05) 0 = ss).
  { unfold ss, v2subs, v2muls, k05, half, two. cbn. apply V2_eq; cbn [vx vy]; rnorm; field. }
  apply (exact2_ext (fun p => @sdf_box2d ROps p ss)).
  - intros p. rewrite <- Ess. cbn [ev2]. change (osub ROps) with Rminus. rnorm. symmetry. apply Rminus_0_r.
  - apply box2_sharp_exact; unfold ss; cbn [vx vy]; lra.
Qed.

(* ------------------------------------------------------------------ 3D box: all eight branches of sdf_box3d through orth3 *)
Lemma orth3_nonpos a b c : a <= 0 -> b <= 0 -> c <= 0 -> orth3 a b c = Rmax (Rmax a b) c.
Proof. intros. unfold orth3. destruct (Rle_dec _ 0) as [|N]; [reflexivity|]. exfalso; apply N; apply Rmax3_le0; lra. Qed.
Lemma orth3_neg_iff a b c : orth3 a b c < 0 <-> a < 0 /\ b < 0 /\ c < 0.
Proof.
  unfold orth3. pose proof (Rmax_l a b). pose proof (Rmax_r a b). pose proof (Rmax_l (Rmax a b) c). pose proof (Rmax_r (Rmax a b) c).
  destruct (Rle_dec (Rmax (Rmax a b) c) 0) as [Hm|Hm].
  - split; [intros; lra|]. intros (? & ? & ?). repeat apply Rmax_lub_lt; lra.
  - pose proof (len3_nonneg (mkV3 (relu a) (relu b) (relu c))). split; [intros; lra|]. intros (? & ? & ?).
    exfalso; apply Hm; apply Rmax3_le0; lra.
Qed.

Lemma orth3_nearest a b c : exists m1 m2 m3, 0 <= m1 /\ 0 <= m2 /\ 0 <= m3 /\ m1 * m1 + m2 * m2 + m3 * m3 = 1 /\
  m1 * a + m2 * b + m3 * c = orth3 a b c /\
  a - orth3 a b c * m1 <= 0 /\ b - orth3 a b c * m2 <= 0 /\ c - orth3 a b c * m3 <= 0 /\
  (0 < orth3 a b c -> a - orth3 a b c * m1 = Rmin a 0 /\ b - orth3 a b c * m2 = Rmin b 0 /\ c - orth3 a b c * m3 = Rmin c 0).
Proof.
  unfold orth3. destruct (Rle_dec (Rmax (Rmax a b) c) 0) as [Hm|Hm].
  - pose proof (Rmax_l a b). pose proof (Rmax_r a b). pose proof (Rmax_l (Rmax a b) c). pose proof (Rmax_r (Rmax a b) c).
    destruct (Rmax_case_eq (Rmax a b) c) as [[E Hle]|[E Hle]]; rewrite E.
    + destruct (Rmax_case_eq a b) as [[E' Hle']|[E' Hle']]; rewrite E' in *.
      * exists 1, 0, 0. repeat split; try lra.
      * exists 0, 1, 0. repeat split; try lra.
    + exists 0, 0, 1. repeat split; try lra.
  - set (L := len3 (mkV3 (relu a) (relu b) (relu c))).
    pose proof (relu_nonneg a) as Ra. pose proof (relu_nonneg b) as Rb. pose proof (relu_nonneg c) as Rc.
    assert (HL : 0 < L).
    { apply len3_pos_iff. cbn [wx wy wz].
      destruct (Rmax_case_eq (Rmax a b) c) as [[E _]|[E _]]; rewrite E in Hm.
      - destruct (Rmax_case_eq a b) as [[E' _]|[E' _]]; rewrite E' in Hm.
        + rewrite (relu_pos a) by lra. nra.
        + rewrite (relu_pos b) by lra. nra.
      - rewrite (relu_pos c) by lra. nra. }
    pose proof (len3_sq (mkV3 (relu a) (relu b) (relu c))) as S. cbn [wx wy wz] in S. fold L in S.
    exists (relu a / L), (relu b / L), (relu c / L).
    assert (E1 : L * (relu a / L) = relu a) by (field; lra).
    assert (E2 : L * (relu b / L) = relu b) by (field; lra).
    assert (E3 : L * (relu c / L) = relu c) by (field; lra).
    split; [apply Rmult_le_pos; [lra | apply Rlt_le, Rinv_0_lt_compat; lra]|].
    split; [apply Rmult_le_pos; [lra | apply Rlt_le, Rinv_0_lt_compat; lra]|].
    split; [apply Rmult_le_pos; [lra | apply Rlt_le, Rinv_0_lt_compat; lra]|].
    split.
    { replace (relu a / L * (relu a / L) + relu b / L * (relu b / L) + relu c / L * (relu c / L))
        with ((relu a * relu a + relu b * relu b + relu c * relu c) / (L * L)) by (field; lra).
      rewrite <- S. field; lra. }
    split.
    { replace (relu a / L * a + relu b / L * b + relu c / L * c) with ((relu a * a + relu b * b + relu c * c) / L) by (field; lra).
      rewrite !relu_sq, <- S. field; lra. }
    rewrite E1, E2, E3.
    assert (Ma : a - relu a = Rmin a 0) by (unfold relu, Rmax, Rmin; destruct (Rle_dec a 0); lra).
    assert (Mb : b - relu b = Rmin b 0) by (unfold relu, Rmax, Rmin; destruct (Rle_dec b 0); lra).
    assert (Mc : c - relu c = Rmin c 0) by (unfold relu, Rmax, Rmin; destruct (Rle_dec c 0); lra).
    pose proof (Rmin_r a 0). pose proof (Rmin_r b 0). pose proof (Rmin_r c 0).
    split; [lra|]. split; [lra|]. split; [lra|]. intros _. repeat split; assumption.
Qed.

Lemma orth3_ray c1 c2 c3 m1 m2 m3 t : c1 <= 0 -> c2 <= 0 -> c3 <= 0 -> 0 <= m1 -> 0 <= m2 -> 0 <= m3 ->
  m1 * m1 + m2 * m2 + m3 * m3 = 1 -> m1 * c1 + m2 * c2 + m3 * c3 = 0 -> 0 <= t ->
  orth3 (c1 + t * m1) (c2 + t * m2) (c3 + t * m3) = t.
Proof.
  intros H1 H2 H3 M1 M2 M3 Hu H0 Ht. apply Rle_antisym.
  - pose proof (orth3_lip (c1 + t * m1) (c2 + t * m2) (c3 + t * m3) c1 c2 c3) as L. apply Rabs_le_iff in L.
    replace (c1 + t * m1 - c1) with (t * m1) in L by ring. replace (c2 + t * m2 - c2) with (t * m2) in L by ring.
    replace (c3 + t * m3 - c3) with (t * m3) in L by ring.
    pose proof (len3_scale_unit (mkV3 m1 m2 m3) t Hu Ht) as Ls. cbn [wx wy wz] in Ls. rewrite Ls in L.
    rewrite (orth3_nonpos c1 c2 c3 H1 H2 H3) in L. assert (Rmax (Rmax c1 c2) c3 <= 0) by (apply Rmax3_le0; lra). lra.
  - pose proof (orth3_support m1 m2 m3 (c1 + t * m1) (c2 + t * m2) (c3 + t * m3) M1 M2 M3 Hu). nra.
Qed.

Definition box3_in (s : RV3) (p : RV3) : Prop := Rabs (wx p) < wx s /\ Rabs (wy p) < wy s /\ Rabs (wz p) < wz s.
Definition box3_bd (s : RV3) (q : RV3) : Prop :=
  Rabs (wx q) <= wx s /\ Rabs (wy q) <= wy s /\ Rabs (wz q) <= wz s /\
  (Rabs (wx q) = wx s \/ Rabs (wy q) = wy s \/ Rabs (wz q) = wz s).

Lemma box3_rays s p : 0 <= wx s -> 0 <= wy s -> 0 <= wz s ->
  let f := fun p => @sdf_box3d ROps p s in
  exists b n, box3_bd s b /\ unit3 n /\ p = ray3 b n (f p) /\ (forall t, 0 <= t -> f (ray3 b n t) = t).
Proof.
  intros Hsx Hsy Hsz f. unfold f.
  set (d1 := Rabs (wx p) - wx s). set (d2 := Rabs (wy p) - wy s). set (d3 := Rabs (wz p) - wz s).
  assert (Ef : @sdf_box3d ROps p s = orth3 d1 d2 d3) by apply sdf_box3d_orth.
  destruct (orth3_nearest d1 d2 d3) as (m1 & m2 & m3 & M1 & M2 & M3 & Hu & Hdot & C1 & C2 & C3 & Hpos).
  set (F := orth3 d1 d2 d3) in *.
  set (c1 := d1 - F * m1) in *. set (c2 := d2 - F * m2) in *. set (c3 := d3 - F * m3) in *.
  assert (B1 : 0 <= wx s + c1).
  { destruct (Rle_dec F 0) as [HF|HF].
    - assert (F * m1 <= 0) by nra. unfold c1, d1. pose proof (Rabs_pos (wx p)). lra.
    - destruct (Hpos ltac:(lra)) as (E1 & _ & _). rewrite E1. unfold d1, Rmin. pose proof (Rabs_pos (wx p)). destruct (Rle_dec _ _); lra. }
  assert (B2 : 0 <= wy s + c2).
  { destruct (Rle_dec F 0) as [HF|HF].
    - assert (F * m2 <= 0) by nra. unfold c2, d2. pose proof (Rabs_pos (wy p)). lra.
    - destruct (Hpos ltac:(lra)) as (_ & E2 & _). rewrite E2. unfold d2, Rmin. pose proof (Rabs_pos (wy p)). destruct (Rle_dec _ _); lra. }
  assert (B3 : 0 <= wz s + c3).
  { destruct (Rle_dec F 0) as [HF|HF].
    - assert (F * m3 <= 0) by nra. unfold c3, d3. pose proof (Rabs_pos (wz p)). lra.
    - destruct (Hpos ltac:(lra)) as (_ & _ & E3). rewrite E3. unfold d3, Rmin. pose proof (Rabs_pos (wz p)). destruct (Rle_dec _ _); lra. }
  assert (Hmc : m1 * c1 + m2 * c2 + m3 * c3 = 0).
  { unfold c1, c2, c3. transitivity ((m1 * d1 + m2 * d2 + m3 * d3) - F * (m1 * m1 + m2 * m2 + m3 * m3)); [ring | rewrite Hdot, Hu; ring]. }
  assert (Hc0 : orth3 c1 c2 c3 = 0).
  { pose proof (orth3_ray c1 c2 c3 m1 m2 m3 0 C1 C2 C3 M1 M2 M3 Hu Hmc ltac:(lra)) as E.
    replace (c1 + 0 * m1) with c1 in E by ring. replace (c2 + 0 * m2) with c2 in E by ring. replace (c3 + 0 * m3) with c3 in E by ring. exact E. }
  set (b := mkV3 (sg (wx p) * (wx s + c1)) (sg (wy p) * (wy s + c2)) (sg (wz p) * (wz s + c3))).
  set (n := mkV3 (sg (wx p) * m1) (sg (wy p) * m2) (sg (wz p) * m3)).
  assert (Hray : forall t, 0 <= t -> @sdf_box3d ROps (ray3 b n t) s = orth3 (c1 + t * m1) (c2 + t * m2) (c3 + t * m3)).
  { intros t Ht. rewrite sdf_box3d_orth. unfold ray3, b, n. cbn [wx wy wz].
    replace (sg (wx p) * (wx s + c1) + t * (sg (wx p) * m1)) with (sg (wx p) * (wx s + c1 + t * m1)) by ring.
    replace (sg (wy p) * (wy s + c2) + t * (sg (wy p) * m2)) with (sg (wy p) * (wy s + c2 + t * m2)) by ring.
    replace (sg (wz p) * (wz s + c3) + t * (sg (wz p) * m3)) with (sg (wz p) * (wz s + c3 + t * m3)) by ring.
    rewrite !abs_sg_mul by nra. f_equal; ring. }
  exists b, n. split; [|split; [|split]].
  - unfold box3_bd, b. cbn [wx wy wz]. rewrite !abs_sg_mul by assumption.
    split; [lra|]. split; [lra|]. split; [lra|].
    rewrite (orth3_nonpos c1 c2 c3 C1 C2 C3) in Hc0.
    destruct (Rmax_case_eq (Rmax c1 c2) c3) as [[E _]|[E _]]; rewrite E in Hc0.
    + destruct (Rmax_case_eq c1 c2) as [[E' _]|[E' _]]; rewrite E' in Hc0; [left | right; left]; lra.
    + right; right; lra.
  - unfold unit3, n. cbn [wx wy wz].
    replace (sg (wx p) * m1 * (sg (wx p) * m1) + sg (wy p) * m2 * (sg (wy p) * m2) + sg (wz p) * m3 * (sg (wz p) * m3))
      with ((sg (wx p) * sg (wx p)) * (m1 * m1) + (sg (wy p) * sg (wy p)) * (m2 * m2) + (sg (wz p) * sg (wz p)) * (m3 * m3)) by ring.
    rewrite !sg_sq. lra.
  - rewrite Ef. apply V3_eq; unfold ray3, b, n; cbn [wx wy wz].
    + replace (sg (wx p) * (wx s + c1) + F * (sg (wx p) * m1)) with (sg (wx p) * (wx s + c1 + F * m1)) by ring.
      replace (wx s + c1 + F * m1) with (Rabs (wx p)) by (unfold c1, d1; ring). symmetry; apply sg_abs.
    + replace (sg (wy p) * (wy s + c2) + F * (sg (wy p) * m2)) with (sg (wy p) * (wy s + c2 + F * m2)) by ring.
      replace (wy s + c2 + F * m2) with (Rabs (wy p)) by (unfold c2, d2; ring). symmetry; apply sg_abs.
    + replace (sg (wz p) * (wz s + c3) + F * (sg (wz p) * m3)) with (sg (wz p) * (wz s + c3 + F * m3)) by ring.
      replace (wz s + c3 + F * m3) with (Rabs (wz p)) by (unfold c3, d3; ring). symmetry; apply sg_abs.
  - intros t Ht. rewrite (Hray t Ht). apply orth3_ray; assumption.
Qed.

Theorem box3_sharp_exact s : 0 <= wx s -> 0 <= wy s -> 0 <= wz s ->
  exact3 (fun p => @sdf_box3d ROps p s) (box3_in s) (box3_bd s).
Proof.
  intros Hsx Hsy Hsz. constructor.
  - apply lip1_sdf_box3d.
  - intros q Hq. destruct Hq as (H1 & H2 & H3 & H4). rewrite sdf_box3d_orth. rewrite orth3_nonpos by lra.
    destruct H4 as [H4|[H4|H4]]; unfold Rmax; repeat destruct (Rle_dec _ _); lra.
  - intros p. rewrite sdf_box3d_orth, orth3_neg_iff. unfold box3_in. split; intros (? & ? & ?); repeat split; lra.
  - intros p. apply (box3_rays s p Hsx Hsy Hsz).
Qed.

(* Box3D(size, round) *)
Theorem box3_exact size round o : k_box3 size round = Some o ->
  2 * round <= wx size -> 2 * round <= wy size -> 2 * round <= wz size ->
  let ss := mkV3 (wx size / 2 - round) (wy size / 2 - round) (wz size / 2 - round) in
  exact3 (ev3 o) (fun p => @sdf_box3d ROps p ss < round) (fun q => @sdf_box3d ROps q ss = round).
Proof.
  intros H Hx Hy Hz ss. unfold k_box3 in H.
  destruct (v3_lte_zero size); [discriminate|].
  change (oltb ROps round (o0 ROps)) with (Rltb round 0) in H.
  destruct (Rltb round 0) eqn:C; [discriminate|]. apply Rltb_false in C. injection H as <-.
  assert (Ess : @v3subs ROps (v3muls size k05) round = ss).
  { unfold ss, v3subs, v3muls, k05, half, two. cbn. apply V3_eq; cbn [wx wy wz]; rnorm; field. }
  apply (exact3_ext (fun p => @sdf_box3d ROps p ss - round)).
  { intros p. rewrite <- Ess. reflexivity. }
  apply (offset_of_exact3 (fun p => @sdf_box3d ROps p ss) (box3_in ss) (box3_bd ss) round C).
  apply box3_sharp_exact; unfold ss; cbn [wx wy wz]; lra.
Qed.
Theorem box3_is_sdf size round o : k_box3 size round = Some o ->
  2 * round <= wx size -> 2 * round <= wy size -> 2 * round <= wz size ->
  let ss := mkV3 (wx size / 2 - round) (wy size / 2 - round) (wz size / 2 - round) in
  is_sdf3 (ev3 o) (fun p => @sdf_box3d ROps p ss < round) (fun q => @sdf_box3d ROps q ss = round).
Proof. intros H Hx Hy Hz ss. apply exact3_is_sdf. apply (box3_exact size round o H Hx Hy Hz). Qed.
Theorem box3_sharp_is_sdf size o : k_box3 size 0 = Some o ->
  let ss := mkV3 (wx size / 2) (wy size / 2) (wz size / 2) in
  is_sdf3 (ev3 o) (box3_in ss) (box3_bd ss).
Proof.
  intros H ss. unfold k_box3 in H. destruct (v3_lte_zero size) eqn:Cz; [discriminate|].
  destruct (oltb ROps 0 (o0 ROps)); [discriminate|]. injection H as <-. apply exact3_is_sdf.
  unfold v3_lte_zero in Cz. change (oleb ROps) with Rleb in Cz. change (o0 ROps) with 0 in Cz.
  apply orb_false_iff in Cz. destruct Cz as [Cz C3]. apply orb_false_iff in Cz. destruct Cz as [C1 C2].
  apply Rleb_false in C1, C2, C3.
  assert (Ess : @v3subs ROps (v3muls size k05) 0 = ss).
  { unfold ss, v3subs, v3muls, k05, half, two. cbn. apply V3_eq; cbn [wx wy wz]; rnorm; field. }
  apply (exact3_ext (fun p => @sdf_box3d ROps p ss)).
  - intros p. rewrite <- Ess. cbn [ev3]. change (osub ROps) with Rminus. rnorm. symmetry. apply Rminus_0_r.
  - apply box3_sharp_exact; unfold ss; cbn [wx wy wz]; lra.
Qed.

(* ------------------------------------------------------------------ Line2D: the segment [-l/2, l/2] x {0}, rounded *)
Definition seg_dist (sl : R) (p : RV2) : R := len2 (mkV2 (relu (Rabs (vx p) - sl)) (vy p)).
Definition seg_bd (sl : R) (q : RV2) : Prop := Rabs (vx q) <= sl /\ vy q = 0.

Lemma len2_00 : len2 (mkV2 0 0) = 0.
Proof. unfold len2; cbn [vx vy]. replace (0 * 0 + 0 * 0) with 0 by ring. apply sqrt_0. Qed.

Lemma add_0_mul (a b : R) : a = a + 0 * b.
Proof. ring. Qed.
Lemma len2_le_antisym p t : len2 p <= t -> t <= len2 p -> len2 p = t.
Proof. intros; lra. Qed.

Theorem segment_exact sl : 0 <= sl -> exact2 (seg_dist sl) (fun _ => False) (seg_bd sl).
Proof.
  intros Hsl. constructor.
  - intros p q. unfold seg_dist. eapply Rle_trans; [apply len2_lip|]. apply dist2_comp_le; [|lra].
    eapply Rle_trans; [apply relu_lip|].
    replace (Rabs (vx p) - sl - (Rabs (vx q) - sl)) with (Rabs (vx p) - Rabs (vx q)) by ring. apply Rabs_abs_lip.
  - intros q [H1 H2]. unfold seg_dist. rewrite relu_neg by lra. rewrite H2. apply len2_00.
  - intros p. pose proof (len2_nonneg (mkV2 (relu (Rabs (vx p) - sl)) (vy p))). unfold seg_dist. split; [lra | tauto].
  - intros p. unfold seg_dist.
    set (d1 := Rabs (vx p) - sl). set (a := relu d1). set (L := len2 (mkV2 a (vy p))).
    pose proof (relu_nonneg d1) as Ha. fold a in Ha.
    assert (Em : Rabs (vx p) - a = Rmin (Rabs (vx p)) sl).
    { unfold a, relu, d1, Rmax, Rmin. repeat destruct (Rle_dec _ _); lra. }
    assert (Hm0 : 0 <= Rmin (Rabs (vx p)) sl) by (apply Rmin_glb; [apply Rabs_pos | lra]).
    assert (Hm1 : Rmin (Rabs (vx p)) sl <= sl) by apply Rmin_r.
    (* relu ((min |x| sl) + k - sl) = k for k = t a / L: either a = 0 or min = sl *)
    assert (Hk : forall k, 0 <= k -> (a = 0 -> k = 0) -> relu (Rmin (Rabs (vx p)) sl + k - sl) = k).
    { intros k Hk0 Hk1. destruct (Rle_dec d1 0) as [Hd|Hd].
      - assert (a = 0) by (unfold a; apply relu_neg; exact Hd). rewrite (Hk1 H). apply relu_neg. lra.
      - assert (Rmin (Rabs (vx p)) sl = sl) by (unfold Rmin, d1 in *; destruct (Rle_dec _ _); lra).
        rewrite H. replace (sl + k - sl) with k by ring. apply relu_pos; exact Hk0. }
    pose proof (len2_sq (mkV2 a (vy p))) as S. cbn [vx vy] in S. fold L in S.
    pose proof (len2_nonneg (mkV2 a (vy p))) as HLn. fold L in HLn.
    destruct (Req_dec L 0) as [E0|E0].
    + (* p on the segment *)
      assert (a = 0 /\ vy p = 0) by (rewrite E0 in S; split; nra). destruct H as [Ea Ey].
      exists p, (mkV2 0 1). split; [split; [unfold a in Ea; unfold relu, Rmax, d1 in *; destruct (Rle_dec _ _); lra | exact Ey]|].
      split; [unfold unit2; cbn; ring|]. split; [apply V2_eq; cbn [ray2 vx vy]; rewrite E0; apply add_0_mul|].
      intros t Ht. unfold ray2. cbn [vx vy]. rewrite Rmult_0_r, Rplus_0_r. fold d1. fold a. rewrite Ea, Ey.
      rewrite Rplus_0_l, Rmult_1_r. apply len2_0y; exact Ht.
    + exists (mkV2 (sg (vx p) * Rmin (Rabs (vx p)) sl) 0), (mkV2 (sg (vx p) * (a / L)) (vy p / L)).
      assert (HL : 0 < L) by lra.
      assert (Hq : 0 <= a / L) by (apply Rmult_le_pos; [lra | apply Rlt_le, Rinv_0_lt_compat; lra]).
      split; [split; cbn [vx vy]; [rewrite abs_sg_mul by lra; lra | reflexivity]|].
      split.
      { unfold unit2. cbn [vx vy].
        replace (sg (vx p) * (a / L) * (sg (vx p) * (a / L)) + vy p / L * (vy p / L))
          with ((sg (vx p) * sg (vx p)) * ((a * a) / (L * L)) + (vy p * vy p) / (L * L)) by (field; lra).
        rewrite sg_sq. replace (1 * (a * a / (L * L)) + vy p * vy p / (L * L)) with ((a * a + vy p * vy p) / (L * L)) by (field; lra).
        rewrite <- S. field; lra. }
      split.
      { apply V2_eq; cbn [ray2 vx vy].
        - replace (sg (vx p) * Rmin (Rabs (vx p)) sl + L * (sg (vx p) * (a / L))) with (sg (vx p) * (Rmin (Rabs (vx p)) sl + a)) by (field; lra).
          rewrite <- Em. replace (Rabs (vx p) - a + a) with (Rabs (vx p)) by ring. symmetry; apply sg_abs.
        - rewrite Rplus_0_l. apply scale_div. lra. }
      intros t Ht. unfold ray2. cbn [vx vy].
      replace (sg (vx p) * Rmin (Rabs (vx p)) sl + t * (sg (vx p) * (a / L))) with (sg (vx p) * (Rmin (Rabs (vx p)) sl + t * (a / L))) by ring.
      rewrite abs_sg_mul by nra.
      rewrite (Hk (t * (a / L))); [| nra | intros Ea; rewrite Ea; unfold Rdiv; ring].
      replace (0 + t * (vy p / L)) with (t * (vy p / L)) by ring.
      apply len2_le_antisym.
      * apply len2_le; [exact Ht|]. cbn [vx vy]. apply Req_le.
        replace (t * (a / L) * (t * (a / L)) + t * (vy p / L) * (t * (vy p / L))) with (t * t * ((a * a + vy p * vy p) / (L * L))) by (field; lra).
        rewrite <- S. field; lra.
      * apply le_len2; [exact Ht|]. cbn [vx vy]. apply Req_le.
        replace (t * (a / L) * (t * (a / L)) + t * (vy p / L) * (t * (vy p / L))) with (t * t * ((a * a + vy p * vy p) / (L * L))) by (field; lra).
        rewrite <- S. field; lra.
Qed.

(* Line2D(l, round): all points within round of the segment *)
Theorem line2_exact l round o : k_line2 l round = Some o -> 0 <= l -> 0 <= round ->
  exact2 (ev2 o) (fun p => seg_dist (l / 2) p < round) (fun q => seg_dist (l / 2) q = round).
Proof.
  intros H Hl Hr. unfold k_line2 in H. injection H as <-.
  apply (exact2_ext (fun p => seg_dist (l / 2) p - round)).
  - intros p. cbn [ev2]. unfold seg_dist. pose proof (line2_form (l / 2) p) as E. cbn in E.
    change (oleb ROps) with Rleb in *. unfold two. cbn.
    replace (l / (1 + 1)) with (l / 2) by (f_equal; ring).
    destruct (Rleb (Rabs (vx p)) (l / 2)); rewrite <- E; reflexivity.
  - apply (offset_of_exact2 _ (fun _ => False) (seg_bd (l / 2)) round Hr). apply segment_exact. lra.
Qed.
Theorem line2_is_sdf l round o : k_line2 l round = Some o -> 0 <= l -> 0 <= round ->
  is_sdf2 (ev2 o) (fun p => seg_dist (l / 2) p < round) (fun q => seg_dist (l / 2) q = round).
Proof. intros H Hl Hr. apply exact2_is_sdf, (line2_exact l round o H Hl Hr). Qed.

(* ------------------------------------------------------------------ full revolution of a meridian profile *)
(* certificate on the half plane x >= 0: nearest points and normals stay on that side *)
Record exact2h (g : RV2 -> R) (S B : RV2 -> Prop) : Prop := {
  h_lip : lip1_2 g;
  h_zero : forall q, 0 <= vx q -> B q -> g q = 0;
  h_sign : forall p, 0 <= vx p -> (g p < 0 <-> S p);
  h_rays : forall p, 0 <= vx p -> exists b n, B b /\ unit2 n /\ 0 <= vx b /\ 0 <= vx n /\
             p = ray2 b n (g p) /\ forall t, 0 <= t -> g (ray2 b n t) = t
}.

Lemma distr3 (a b c d : R) : (a + b * c) * d = a * d + b * (c * d).
Proof. ring. Qed.
Lemma rho_nonneg p : 0 <= rho p.
Proof. apply sqrt_pos. Qed.
Lemma rho_scaled e c z : unit2 e -> 0 <= c -> rho (mkV3 (c * vx e) (c * vy e) z) = c.
Proof. intros He Hc. unfold rho. cbn [wx wy]. apply (len2_scale_unit e c He Hc). Qed.

(* revolve_exact: for a profile certified on x >= 0 the 2D distance in the meridian half plane is the
   3D distance (reverse triangle inequality on rho = mer_nonexp) *)
Theorem revolve_exact g S B : exact2h g S B ->
  exact3 (fun p => g (mer p)) (fun p => S (mer p)) (fun q => B (mer q)).
Proof.
  intros [L Z Sg Ry]. constructor.
  - apply (lip1_comp32 g mer L mer_nonexp).
  - intros q Hq. apply Z; [apply rho_nonneg | exact Hq].
  - intros p. apply Sg. apply rho_nonneg.
  - intros p. destruct (Ry (mer p) (rho_nonneg p)) as (b & n & Hb & Hn & Hbx & Hnx & Ep & Ht).
    destruct (unit_dir2 (pxy p)) as (e & He & Epx). change (len2 (pxy p)) with (rho p) in Epx.
    set (b3 := mkV3 (vx b * vx e) (vx b * vy e) (vy b)). set (n3 := mkV3 (vx n * vx e) (vx n * vy e) (vy n)).
    assert (Hmer : forall t, 0 <= t -> mer (ray3 b3 n3 t) = ray2 b n t).
    { intros t Ht0. unfold mer, ray3, ray2, b3, n3. cbn [wx wy wz]. f_equal.
      replace (vx b * vx e + t * (vx n * vx e)) with ((vx b + t * vx n) * vx e) by ring.
      replace (vx b * vy e + t * (vx n * vy e)) with ((vx b + t * vx n) * vy e) by ring.
      apply rho_scaled; [exact He | nra]. }
    exists b3, n3. split; [|split; [|split]].
    + rewrite <- (ray3_0 b3 n3). rewrite Hmer by lra. rewrite ray2_0. exact Hb.
    + unfold unit3, n3. cbn [wx wy wz]. unfold unit2 in *.
      replace (vx n * vx e * (vx n * vx e) + vx n * vy e * (vx n * vy e) + vy n * vy n)
        with (vx n * vx n * (vx e * vx e + vy e * vy e) + vy n * vy n) by ring. rewrite He. lra.
    + assert (E1 : rho p = vx b + g (mer p) * vx n) by (apply (f_equal vx) in Ep; exact Ep).
      assert (E2 : wz p = vy b + g (mer p) * vy n) by (apply (f_equal vy) in Ep; exact Ep).
      apply (f_equal vx) in Epx as Ex. apply (f_equal vy) in Epx as Ey. cbn [pxy vx vy] in Ex, Ey.
      apply V3_eq; unfold ray3, b3, n3; cbn [wx wy wz].
      * rewrite Ex, E1. apply distr3.
      * rewrite Ey, E1. apply distr3.
      * exact E2.
    + intros t Ht0. rewrite Hmer by exact Ht0. apply Ht; exact Ht0.
Qed.

(* revolve_full_preserves_sdf, in terms of is_sdf: a profile whose boundary lies in x >= 0 *)
Theorem revolve_full_preserves_sdf g S (B : RV2 -> Prop) : (forall q, B q -> 0 <= vx q) -> is_sdf2 g S B ->
  is_sdf3 (fun p => g (mer p)) (fun p => S (mer p)) (fun q => B (mer q)).
Proof.
  intros HB H p. destruct (H (mer p)) as (Sg & Lo & (q2 & Hq2 & Dq)). split; [exact Sg|]. split.
  - intros q Hq. eapply Rle_trans; [apply Lo; exact Hq | apply mer_nonexp].
  - destruct (unit_dir2 (pxy p)) as (e & He & Epx). change (len2 (pxy p)) with (rho p) in Epx.
    pose proof (HB q2 Hq2) as Hx.
    exists (mkV3 (vx q2 * vx e) (vx q2 * vy e) (vy q2)). split.
    + unfold mer. cbn [wz]. rewrite (rho_scaled e (vx q2) (vy q2) He Hx). destruct q2; exact Hq2.
    + rewrite <- Dq. unfold dist3, dist2, len3, len2, sub3, sub2, mer. cbn [wx wy wz vx vy]. f_equal.
      apply (f_equal vx) in Epx as Ex. apply (f_equal vy) in Epx as Ey. cbn [pxy vx vy] in Ex, Ey. rewrite Ex, Ey.
      transitivity ((rho p - vx q2) * (rho p - vx q2) * (vx e * vx e + vy e * vy e) + (wz p - vy q2) * (wz p - vy q2)); [ring|].
      rewrite He. ring.
Qed.

(* the 2D box as a meridian profile *)
Lemma box2_exact2h s : 0 <= vx s -> 0 <= vy s ->
  exact2h (fun p => @sdf_box2d ROps p s) (box2_in s) (box2_bd s).
Proof.
  intros Hx Hy. destruct (box2_sharp_exact s Hx Hy) as [L Z Sg _]. constructor.
  - exact L.
  - intros q _. apply Z.
  - intros p _. apply Sg.
  - intros p Hp. destruct (box2_rays s p Hx Hy) as (b & n & Hb & Hn & Ep & Ht & Hh). destruct (Hh Hp) as [Hbx Hnx].
    exists b, n. auto 10.
Qed.

(* Cylinder3D(height, radius, round): the box [0, radius - round] x [-(height/2 - round), ...] in (rho, z),
   revolved, offset by round.  round = radius gives the capsule. *)
Theorem cylinder_exact h r round o : k_cylinder h r round = Some o ->
  let ss := mkV2 (r - round) (h / 2 - round) in
  exact3 (ev3 o) (fun p => @sdf_box2d ROps (mer p) ss < round) (fun q => @sdf_box2d ROps (mer q) ss = round).
Proof.
  intros H ss. unfold k_cylinder in H.
  change (oleb ROps r (o0 ROps)) with (Rleb r 0) in H. destruct (Rleb r 0) eqn:C1; [discriminate|]. apply Rleb_false in C1.
  change (oltb ROps round (o0 ROps)) with (Rltb round 0) in H. destruct (Rltb round 0) eqn:C2; [discriminate|]. apply Rltb_false in C2.
  change (oltb ROps r round) with (Rltb r round) in H. destruct (Rltb r round) eqn:C3; [discriminate|]. apply Rltb_false in C3.
  destruct (oltb ROps h _) eqn:C4; [discriminate|]. apply Rltb_false in C4. unfold two in C4. cbn in C4.
  injection H as <-.
  assert (Ess : mkV2 (osub ROps r round) (osub ROps (odiv ROps h two) round) = ss).
  { unfold ss, two. cbn. apply V2_eq; cbn [vx vy]; [reflexivity | rnorm; field]. }
  apply (exact3_ext (fun p => @sdf_box2d ROps (mer p) ss - round)).
  { intros p. rewrite <- Ess. reflexivity. }
  apply (offset_of_exact3 (fun p => @sdf_box2d ROps (mer p) ss) (fun p => box2_in ss (mer p)) (fun q => box2_bd ss (mer q)) round C2).
  apply (revolve_exact (fun p2 => @sdf_box2d ROps p2 ss)). apply box2_exact2h; unfold ss; cbn [vx vy]; lra.
Qed.
Theorem cylinder_is_sdf h r round o : k_cylinder h r round = Some o ->
  let ss := mkV2 (r - round) (h / 2 - round) in
  is_sdf3 (ev3 o) (fun p => @sdf_box2d ROps (mer p) ss < round) (fun q => @sdf_box2d ROps (mer q) ss = round).
Proof. intros H ss. apply exact3_is_sdf, (cylinder_exact h r round o H). Qed.
(* the sharp cylinder: rho < r and |z| < h/2 *)
Theorem cylinder_sharp_is_sdf h r o : k_cylinder h r 0 = Some o ->
  is_sdf3 (ev3 o) (fun p => rho p < r /\ Rabs (wz p) < h / 2)
          (fun q => rho q <= r /\ Rabs (wz q) <= h / 2 /\ (rho q = r \/ Rabs (wz q) = h / 2)).
Proof.
  intros H. pose proof (cylinder_exact h r 0 o H) as E. cbv zeta in E.
  rewrite !Rminus_0_r in E.
  set (ss := mkV2 r (h / 2)) in *.
  unfold k_cylinder in H.
  change (oleb ROps r (o0 ROps)) with (Rleb r 0) in H. destruct (Rleb r 0) eqn:C1; [discriminate|]. apply Rleb_false in C1.
  destruct (oltb ROps 0 _); [discriminate|]. destruct (oltb ROps r 0); [discriminate|].
  destruct (oltb ROps h _) eqn:C4; [discriminate|]. apply Rltb_false in C4. unfold two in C4. cbn in C4.
  assert (X : exact2 (fun p2 => @sdf_box2d ROps p2 ss) (box2_in ss) (box2_bd ss)) by (apply box2_sharp_exact; unfold ss; cbn [vx vy]; lra).
  apply exact3_is_sdf. apply (exact3_iff (ev3 o) (fun p => @sdf_box2d ROps (mer p) ss < 0) _ (fun q => @sdf_box2d ROps (mer q) ss = 0) _); [| |exact E].
  - intros p. rewrite (e2_sign _ _ _ X (mer p)). unfold box2_in, ss, mer. cbn [vx vy]. rewrite (Rabs_pos_eq (rho p)) by apply rho_nonneg. tauto.
  - intros q. unfold ss, mer. split.
    + intros Hq. pose proof (rho_nonneg q) as Hr.
      rewrite sdf_box2d_orth in Hq. cbn [vx vy] in Hq. rewrite (Rabs_pos_eq (rho q)) in Hq by exact Hr.
      unfold orth2 in Hq. destruct (Rle_dec _ 0) as [Hm|Hm].
      * pose proof (Rmax_l (rho q - r) (Rabs (wz q) - h / 2)). pose proof (Rmax_r (rho q - r) (Rabs (wz q) - h / 2)).
        split; [lra|]. split; [lra|]. destruct (Rmax_case_eq (rho q - r) (Rabs (wz q) - h / 2)) as [[E1 _]|[E1 _]]; rewrite E1 in Hq; [left | right]; lra.
      * exfalso. apply Hm. rewrite <- Hq.
        set (a := rho q - r) in *. set (b := Rabs (wz q) - h / 2) in *.
        pose proof (relu_ge a). pose proof (relu_ge b). pose proof (relu_nonneg a). pose proof (relu_nonneg b).
        apply Rmax_lub.
        -- eapply Rle_trans; [apply relu_ge|]. pose proof (abs_le_len2_x (mkV2 (relu a) (relu b))) as A. cbn [vx] in A. rewrite Rabs_pos_eq in A by assumption. exact A.
        -- eapply Rle_trans; [apply relu_ge|]. pose proof (abs_le_len2_y (mkV2 (relu a) (relu b))) as A. cbn [vy] in A. rewrite Rabs_pos_eq in A by assumption. exact A.
    + intros (H1 & H2 & H3). apply (e2_zero _ _ _ X). unfold box2_bd. cbn [vx vy]. rewrite (Rabs_pos_eq (rho q)) by apply rho_nonneg. tauto.
Qed.
(* Capsule3D(h, r) = Cylinder3D(h, r, r): all points within r of the axis segment |z| <= h/2 - r *)
Theorem capsule_is_sdf h r o : k_cylinder h r r = Some o ->
  let ss := mkV2 0 (h / 2 - r) in
  is_sdf3 (ev3 o) (fun p => @sdf_box2d ROps (mer p) ss < r) (fun q => @sdf_box2d ROps (mer q) ss = r).
Proof.
  intros H ss. pose proof (cylinder_is_sdf h r r o H) as E. cbv zeta in E. replace (r - r) with 0 in E by (symmetry; apply Rminus_diag_eq; reflexivity). exact E.
Qed.

(* ------------------------------------------------------------------ the truncated cone (all seven regions) *)
Lemma add_neg_cancel (a k m : R) : a = a + - k * m + k * m.
Proof. ring. Qed.

Theorem cone_profile_exact sh sr0 sr1 ux uy l : cone_fields sh sr0 sr1 ux uy l -> 0 <= sr0 -> 0 <= sr1 ->
  exact2h (coneU sh sr0 sr1 ux uy l) (coneS sh sr0 ux uy) (coneB sh sr0 ux uy).
Proof.
  intros [Hu Huy Hl Hx Hz] H0 H1. constructor.
  - apply (coneU_lip sh sr0 sr1 ux uy l Hu Huy Hl Hx Hz).
  - intros q _ Hq. apply (coneB_zero sh sr0 sr1 ux uy l Hu Huy Hl Hx Hz q Hq).
  - intros p _. apply (coneU_sign sh sr0 sr1 ux uy l Hu Huy Hl Hx Hz p).
  - intros P HP.
    destruct (cone_nearest sh sr0 sr1 ux uy l Hu Huy Hl Hx Hz P) as (m1 & m2 & M1 & Hm & Hc & HK & Hside).
    set (U := coneU sh sr0 sr1 ux uy l P) in *.
    set (b := shift2 P (- U) m1 m2) in *.
    assert (Hcb : csup sh sr0 sr1 m1 m2 b = 0).
    { unfold csup in *. destruct (shift_coords sh sr0 sr1 ux uy P (- U) m1 m2) as (S1 & S2 & S3 & S4 & _).
      fold b in S1, S2, S3, S4. rewrite S1, S2, S3, S4.
      replace (m1 * (cvx sr0 P + - U * m1) + m2 * (cvz sh P + - U * m2)) with (m1 * cvx sr0 P + m2 * cvz sh P - U * (m1 * m1 + m2 * m2)) by ring.
      replace (m1 * (cwx sr1 P + - U * m1) + m2 * (cwz sh P + - U * m2)) with (m1 * cwx sr1 P + m2 * cwz sh P - U * (m1 * m1 + m2 * m2)) by ring.
      rewrite Hm. unfold Rmin in *. repeat destruct (Rle_dec _ _); lra. }
    assert (Hray : forall t, 0 <= t -> coneU sh sr0 sr1 ux uy l (ray2 b (mkV2 m1 m2) t) = t).
    { intros t Ht. apply (cone_ray sh sr0 sr1 ux uy l Hu Huy Hl Hx Hz b m1 m2 t HK M1 Hm Hcb Ht). }
    exists b, (mkV2 m1 m2). split; [|split; [exact Hm|split; [apply Hside; assumption|split; [exact M1|split]]]].
    + split; [exact HK|]. pose proof (Hray 0 ltac:(lra)) as U0. rewrite ray2_0 in U0.
      destruct HK as (K1 & K2 & K3).
      destruct (Req_dec (cdl sh sr0 ux uy b) 0) as [|N1]; [left; assumption|].
      destruct (Req_dec (cvz sh b) 0) as [|N2]; [right; left; assumption|].
      destruct (Req_dec (cwz sh b) 0) as [|N3]; [right; right; assumption|].
      exfalso. assert (Sb : coneS sh sr0 ux uy b) by (unfold coneS; repeat split; lra).
      apply (coneU_sign sh sr0 sr1 ux uy l Hu Huy Hl Hx Hz b) in Sb. lra.
    + apply V2_eq; unfold ray2, b, shift2; cbn [vx vy]; fold U; apply add_neg_cancel.
    + exact Hray.
Qed.

(* Cone3D(height, r0, r1, round): the stored fields (inset radii sr0, sr1, half height sh, slope
   direction u, slope length l) satisfy the relations of cone_fields; when the inset radii are
   non-negative (the admissible rounding) Evaluate is the signed distance to the revolved, rounded
   trapezoid. *)
Theorem cone_exact h r0 r1 round o : k_cone h r0 r1 round = Some o ->
  exists sh sr0 sr1 ux uy l,
    cone_fields sh sr0 sr1 ux uy l /\ sh = h / 2 - round /\ ux * h = uy * (r1 - r0) /\
    sr0 = r0 - (1 - ux) * (round / uy) /\ sr1 = r1 - (1 + ux) * (round / uy) /\
    (0 <= sr0 -> 0 <= sr1 ->
     exact3 (ev3 o) (fun p => coneU sh sr0 sr1 ux uy l (mer p) < round)
                    (fun q => coneU sh sr0 sr1 ux uy l (mer q) = round)).
Proof.
  intros H. destruct (k_cone_fields _ _ _ _ _ H) as (sh & sr0 & sr1 & ux & uy & l & F & Hh & Hr & Esh & Eu & E0 & E1 & Ev).
  exists sh, sr0, sr1, ux, uy, l. repeat (split; [assumption|]). intros H0 H1.
  apply (exact3_ext (fun p => coneU sh sr0 sr1 ux uy l (mer p) - round)).
  { intros p. rewrite Ev. destruct F as [Hu Huy Hl Hx Hz]. symmetry. apply (cone2_round sh sr0 sr1 ux uy l). }
  apply (offset_of_exact3 _ (fun p => coneS sh sr0 ux uy (mer p)) (fun q => coneB sh sr0 ux uy (mer q)) round Hr).
  apply (revolve_exact (coneU sh sr0 sr1 ux uy l)). apply cone_profile_exact; assumption.
Qed.
Theorem cone_is_sdf h r0 r1 round o : k_cone h r0 r1 round = Some o ->
  exists sh sr0 sr1 ux uy l,
    cone_fields sh sr0 sr1 ux uy l /\ sh = h / 2 - round /\ ux * h = uy * (r1 - r0) /\
    sr0 = r0 - (1 - ux) * (round / uy) /\ sr1 = r1 - (1 + ux) * (round / uy) /\
    (0 <= sr0 -> 0 <= sr1 ->
     is_sdf3 (ev3 o) (fun p => coneU sh sr0 sr1 ux uy l (mer p) < round)
                     (fun q => coneU sh sr0 sr1 ux uy l (mer q) = round)).
Proof.
  intros H. destruct (cone_exact h r0 r1 round o H) as (sh & sr0 & sr1 & ux & uy & l & F & A & B & C & D & E).
  exists sh, sr0, sr1, ux, uy, l. repeat (split; [assumption|]). intros H0 H1. apply exact3_is_sdf, E; assumption.
Qed.
(* the unrounded cone with the solid spelt out: |z| < h/2 and the point is on the inner side of the slope *)
Theorem cone_sharp_is_sdf h r0 r1 o : k_cone h r0 r1 0 = Some o -> 0 <= r0 -> 0 <= r1 ->
  exists ux uy l, cone_fields (h / 2) r0 r1 ux uy l /\
    is_sdf3 (ev3 o) (fun p => coneS (h / 2) r0 ux uy (mer p)) (fun q => coneB (h / 2) r0 ux uy (mer q)).
Proof.
  intros H H0 H1. destruct (k_cone_fields _ _ _ _ _ H) as (sh & sr0 & sr1 & ux & uy & l & F & Hh & Hr & Esh & Eu & E0 & E1 & Ev).
  assert (Es : sh = h / 2) by lra. assert (Es0 : sr0 = r0) by (rewrite E0; unfold Rdiv; ring). assert (Es1 : sr1 = r1) by (rewrite E1; unfold Rdiv; ring).
  clear Esh E0 E1. subst sh sr0 sr1. exists ux, uy, l. split; [exact F|]. apply exact3_is_sdf.
  apply (exact3_ext (fun p => coneU (h / 2) r0 r1 ux uy l (mer p))).
  { intros p. rewrite Ev. destruct F as [Hu Huy Hl Hx Hz]. rewrite (cone2_round (h / 2) r0 r1 ux uy l). ring. }
  apply (revolve_exact (coneU (h / 2) r0 r1 ux uy l)). apply cone_profile_exact; assumption.
Qed.

(* ------------------------------------------------------------------ preservation under distance-preserving maps *)
Ltac ratoms :=
  repeat match goal with
  | |- context [@wx ROps ?p] => let x := fresh "x" in generalize (@wx ROps p : R); intro x
  | |- context [@wy ROps ?p] => let x := fresh "x" in generalize (@wy ROps p : R); intro x
  | |- context [@wz ROps ?p] => let x := fresh "x" in generalize (@wz ROps p : R); intro x
  | |- context [@vx ROps ?p] => let x := fresh "x" in generalize (@vx ROps p : R); intro x
  | |- context [@vy ROps ?p] => let x := fresh "x" in generalize (@vy ROps p : R); intro x
  end.

Lemma dist3_zero p q : dist3 p q = 0 -> p = q.
Proof. intros H. destruct (len3_zero _ H) as (A & B & C). cbn [sub3 wx wy wz] in A, B, C. apply V3_eq; lra. Qed.
Lemma dist2_zero p q : dist2 p q = 0 -> p = q.
Proof. intros H. destruct (len2_zero _ H) as (A & B). cbn [sub2 vx vy] in A, B. apply V2_eq; lra. Qed.

(* rigid_preserves_sdf: h is the point map applied before evaluating (the inverse transform), g a
   section of it *)
Theorem rigid_preserves_sdf3 f (S B : RV3 -> Prop) (g h : RV3 -> RV3) : iso33 h -> (forall p, h (g p) = p) ->
  is_sdf3 f S B -> is_sdf3 (fun p => f (h p)) (fun p => S (h p)) (fun q => B (h q)).
Proof.
  intros Ih Hg H p. destruct (H (h p)) as (Sg & Lo & (q0 & Hq0 & Dq)). split; [exact Sg|]. split.
  - intros q Hq. rewrite <- (Ih p q). apply Lo; exact Hq.
  - exists (g q0). split; [rewrite Hg; exact Hq0|]. rewrite <- (Ih p (g q0)), Hg. exact Dq.
Qed.
Theorem rigid_preserves_sdf2 f (S B : RV2 -> Prop) (g h : RV2 -> RV2) : iso22 h -> (forall p, h (g p) = p) ->
  is_sdf2 f S B -> is_sdf2 (fun p => f (h p)) (fun p => S (h p)) (fun q => B (h q)).
Proof.
  intros Ih Hg H p. destruct (H (h p)) as (Sg & Lo & (q0 & Hq0 & Dq)). split; [exact Sg|]. split.
  - intros q Hq. rewrite <- (Ih p q). apply Lo; exact Hq.
  - exists (g q0). split; [rewrite Hg; exact Hq0|]. rewrite <- (Ih p (g q0)), Hg. exact Dq.
Qed.

(* Transform3D / Transform2D with an orthogonal matrix + translation (rigid44 / rigid33 on the entries) *)
Theorem transform3_preserves_sdf s m o (S B : RV3 -> Prop) : rigid44 m -> k_transform3 s m = Some o ->
  is_sdf3 (ev3 s) S B ->
  is_sdf3 (ev3 o) (fun p => S (@m44_mulposition ROps (m44_inverse m) p)) (fun q => B (@m44_mulposition ROps (m44_inverse m) q)).
Proof.
  intros R H E. unfold k_transform3 in H. injection H as <-. cbn [ev3].
  destruct (rigid44_inverse_iso m R) as [_ Ih]. destruct (rigid44_iso m R) as [_ Im].
  destruct (rigid44_inverse_facts m R) as [_ Hr].
  apply (rigid_preserves_sdf3 (ev3 s) S B (@m44_mulposition ROps m) _ Ih); [|exact E].
  intros p. apply dist3_zero. rewrite <- (Im _ p), Hr. unfold dist3, len3, sub3. cbn [wx wy wz].
  replace ((wx (m44_mulposition m p) - wx (m44_mulposition m p)) * (wx (m44_mulposition m p) - wx (m44_mulposition m p)) +
           (wy (m44_mulposition m p) - wy (m44_mulposition m p)) * (wy (m44_mulposition m p) - wy (m44_mulposition m p)) +
           (wz (m44_mulposition m p) - wz (m44_mulposition m p)) * (wz (m44_mulposition m p) - wz (m44_mulposition m p))) with 0 by rring.
  apply sqrt_0.
Qed.
Theorem transform2_preserves_sdf s m o (S B : RV2 -> Prop) : rigid33 m -> k_transform2 s m = Some o ->
  is_sdf2 (ev2 s) S B ->
  is_sdf2 (ev2 o) (fun p => S (@m33_mulposition ROps (m33_inverse m) p)) (fun q => B (@m33_mulposition ROps (m33_inverse m) q)).
Proof.
  intros R H E. unfold k_transform2 in H. injection H as <-. cbn [ev2].
  destruct (rigid33_inverse_iso m R) as [_ Ih]. destruct (rigid33_iso m R) as [_ Im].
  apply (rigid_preserves_sdf2 (ev2 s) S B (@m33_mulposition ROps m) _ Ih); [|exact E].
  intros p. apply dist2_zero. rewrite <- (Im _ p), (rigid33_inverse_right m _ R). unfold dist2, len2, sub2. cbn [vx vy].
  replace ((vx (m33_mulposition m p) - vx (m33_mulposition m p)) * (vx (m33_mulposition m p) - vx (m33_mulposition m p)) +
           (vy (m33_mulposition m p) - vy (m33_mulposition m p)) * (vy (m33_mulposition m p) - vy (m33_mulposition m p))) with 0 by rring.
  apply sqrt_0.
Qed.

(* scale_preserves_sdf: k * f (p / k) *)
Lemma len3_scale k v : 0 <= k -> len3 (mkV3 (k * wx v) (k * wy v) (k * wz v)) = k * len3 v.
Proof.
  intros Hk. apply sqrt_lem_1.
  - apply sq_nonneg3.
  - apply Rmult_le_pos; [exact Hk | apply len3_nonneg].
  - cbn [wx wy wz]. replace (k * len3 v * (k * len3 v)) with (k * k * (len3 v * len3 v)) by ring. rewrite len3_sq. ring.
Qed.
Lemma len2_scale k v : 0 <= k -> len2 (mkV2 (k * vx v) (k * vy v)) = k * len2 v.
Proof.
  intros Hk. apply sqrt_lem_1.
  - apply sq_nonneg2.
  - apply Rmult_le_pos; [exact Hk | apply len2_nonneg].
  - cbn [vx vy]. replace (k * len2 v * (k * len2 v)) with (k * k * (len2 v * len2 v)) by ring. rewrite len2_sq. ring.
Qed.

Theorem scale_preserves_sdf3 f (S B : RV3 -> Prop) k : 0 < k -> is_sdf3 f S B ->
  is_sdf3 (fun p => f (v3muls p (1 / k)) * k) (fun p => S (v3muls p (1 / k))) (fun q => B (v3muls q (1 / k))).
Proof.
  intros Hk H p. destruct (H (v3muls p (1 / k))) as (Sg & Lo & (q0 & Hq0 & Dq)).
  assert (Eabs : Rabs (f (v3muls p (1 / k)) * k) = Rabs (f (v3muls p (1 / k))) * k) by (rewrite Rabs_mult, (Rabs_pos_eq k); lra).
  split; [|split].
  - rewrite <- Sg. split; intros; nra.
  - intros q Hq. rewrite Eabs. pose proof (Lo _ Hq) as L. pose proof (scale3_dist p q k Hk) as Sd.
    apply Rle_trans with (dist3 p q / k * k); [apply Rmult_le_compat_r; lra | apply Req_le; field; lra].
  - exists (mkV3 (k * wx q0) (k * wy q0) (k * wz q0)). split.
    + replace (v3muls (mkV3 (k * wx q0) (k * wy q0) (k * wz q0)) (1 / k)) with q0; [exact Hq0|].
      apply V3_eq; unfold v3muls; cbn; ratoms; rnorm; field; lra.
    + rewrite Eabs, <- Dq. unfold dist3.
      replace (sub3 p (mkV3 (k * wx q0) (k * wy q0) (k * wz q0)))
        with (mkV3 (k * wx (sub3 (v3muls p (1 / k)) q0)) (k * wy (sub3 (v3muls p (1 / k)) q0)) (k * wz (sub3 (v3muls p (1 / k)) q0))).
      * rewrite len3_scale by lra. ring.
      * apply V3_eq; unfold sub3, v3muls; cbn; ratoms; rnorm; field; lra.
Qed.
Theorem scale_preserves_sdf2 f (S B : RV2 -> Prop) k : 0 < k -> is_sdf2 f S B ->
  is_sdf2 (fun p => f (v2muls p (1 / k)) * k) (fun p => S (v2muls p (1 / k))) (fun q => B (v2muls q (1 / k))).
Proof.
  intros Hk H p. destruct (H (v2muls p (1 / k))) as (Sg & Lo & (q0 & Hq0 & Dq)).
  assert (Eabs : Rabs (f (v2muls p (1 / k)) * k) = Rabs (f (v2muls p (1 / k))) * k) by (rewrite Rabs_mult, (Rabs_pos_eq k); lra).
  split; [|split].
  - rewrite <- Sg. split; intros; nra.
  - intros q Hq. rewrite Eabs. pose proof (Lo _ Hq) as L. pose proof (scale2_dist p q k Hk) as Sd.
    apply Rle_trans with (dist2 p q / k * k); [apply Rmult_le_compat_r; lra | apply Req_le; field; lra].
  - exists (mkV2 (k * vx q0) (k * vy q0)). split.
    + replace (v2muls (mkV2 (k * vx q0) (k * vy q0)) (1 / k)) with q0; [exact Hq0|].
      apply V2_eq; unfold v2muls; cbn; ratoms; rnorm; field; lra.
    + rewrite Eabs, <- Dq. unfold dist2.
      replace (sub2 p (mkV2 (k * vx q0) (k * vy q0)))
        with (mkV2 (k * vx (sub2 (v2muls p (1 / k)) q0)) (k * vy (sub2 (v2muls p (1 / k)) q0))).
      * rewrite len2_scale by lra. ring.
      * apply V2_eq; unfold sub2, v2muls; cbn; ratoms; rnorm; field; lra.
Qed.
(* ScaleUniform3D / ScaleUniform2D *)
Theorem scaleuniform3_preserves_sdf s k o (S B : RV3 -> Prop) : 0 < k -> k_scaleuniform3 s k = Some o ->
  is_sdf3 (ev3 s) S B -> is_sdf3 (ev3 o) (fun p => S (v3muls p (1 / k))) (fun q => B (v3muls q (1 / k))).
Proof. intros Hk H E. unfold k_scaleuniform3 in H. injection H as <-. cbn [ev3]. apply (scale_preserves_sdf3 (ev3 s) S B k Hk E). Qed.
Theorem scaleuniform2_preserves_sdf s k o (S B : RV2 -> Prop) : 0 < k -> k_scaleuniform2 s k = Some o ->
  is_sdf2 (ev2 s) S B -> is_sdf2 (ev2 o) (fun p => S (v2muls p (1 / k))) (fun q => B (v2muls q (1 / k))).
Proof. intros Hk H E. unfold k_scaleuniform2 in H. injection H as <-. cbn [ev2]. apply (scale_preserves_sdf2 (ev2 s) S B k Hk E). Qed.

Lemma Int_part_unique0 : Int_part 0 = 0%Z.
Proof. unfold Int_part. rewrite <- (up_tech 0 0); [lia | simpl; lra | simpl; lra]. Qed.

(* full revolution of a 2D shape: RevolveTheta3D(s, 0) *)
Lemma revolve0_ev s o : k_revolve s 0 = Some o -> forall p, ev3 o p = ev2 s (mer p).
Proof.
  intros H. unfold k_revolve in H. change (oltb ROps 0 (o0 ROps)) with (Rltb 0 0) in H.
  destruct (Rltb 0 0) eqn:C; [apply Rltb_true in C; lra|].
  assert (Et : ofmod ROps (oabs ROps 0) (@tau ROps) = 0).
  { change (ofmod ROps (oabs ROps 0) (@tau ROps)) with (Rfmod (Rabs 0) (@tau ROps)).
    unfold Rfmod. rewrite Rabs_R0. unfold Rdiv. rewrite Rmult_0_l. unfold Rtrunc. destruct (Rle_dec 0 0); [|lra].
    rewrite Int_part_unique0. rnorm. ring. }
  rewrite Et in H.
  assert (Eq : oeqb ROps 0 (o0 ROps) = true) by (apply Reqb_true; reflexivity).
  rewrite Eq in H. injection H as <-. intros p. cbn [ev3]. change (omax ROps) with Rmax.
  apply Rmax_left. apply Rle_refl.
Qed.
Theorem revolve_full_preserves_sdf_k s o (S B : RV2 -> Prop) : k_revolve s 0 = Some o ->
  (forall q, B q -> 0 <= vx q) -> is_sdf2 (ev2 s) S B ->
  is_sdf3 (ev3 o) (fun p => S (mer p)) (fun q => B (mer q)).
Proof.
  intros H HB E. pose proof (revolve_full_preserves_sdf (ev2 s) S B HB E) as X.
  intros p. rewrite (revolve0_ev s o H p). apply X.
Qed.
