(* Correspondence for C04.
   tree cases : the FOps instance of Mesh2D/qtBuild/lineIntersect/lineClip (Sdf/Poly.v) must rebuild the
                quadtree dumped from the real MeshSDF2 bit for bit, and the dumped tree must pass
                `well_clipped_check` at QOps (exact rationals): with tolerance 0 where the cut points
                are exact (axis-parallel edges), with tolerance 2^-40*scale elsewhere.
   eval cases : eval_fast on the dumped tree / eval_slow on the segments at FOps against the
                observed Evaluate of Mesh2D / Mesh2DSlow (sign exactly, value within fclose), and
                the exact QOps specification (crossing number, squared distance) against both. *)
From Coq Require Import List ZArith NArith QArith Floats Bool.
From Sdfx Require Import Num.Ops Num.FInst Num.QInst Geo.Vec Geo.Box Sdf.Poly.
Import ListNotations.

Definition fseg := (float * float * float * float)%type.
Inductive ftree :=
| FN
| FL (box : fseg) (c : float * float) (hs : float) (l : list fseg)
| FQ (box : fseg) (c : float * float) (hs : float) (c0 c1 c2 c3 : ftree).

Section Inj.
  Context {O : Ops} (inj : float -> T O).
  Definition iv2 (p : float * float) : V2 O := mkV2 (inj (fst p)) (inj (snd p)).
  Definition iseg (s : fseg) : Seg O :=
    let '(ax, ay, bx, by_) := s in (mkV2 (inj ax) (inj ay), mkV2 (inj bx) (inj by_)).
  Definition ibox (s : fseg) : Box2 O :=
    let '(ax, ay, bx, by_) := s in mkBox2 (mkV2 (inj ax) (inj ay)) (mkV2 (inj bx) (inj by_)).
  Fixpoint itree (t : ftree) : qt O (Seg O) :=
    match t with
    | FN => QNil
    | FL b c h l => QLeaf (ibox b) (iv2 c) (inj h) (map iseg l)
    | FQ b c h c0 c1 c2 c3 => QNode (ibox b) (iv2 c) (inj h) (itree c0) (itree c1) (itree c2) (itree c3)
    end.
End Inj.

Definition fid (x : float) : T FOps := x.

(* math.Nextafter on float64 (NaN if either argument is NaN; x if x = y; otherwise the neighbour of
   x in the direction of y; Go's special case for x = 0 is the same value) *)
Definition fnextafter (x y : float) : float :=
  if PrimFloat.is_nan x || PrimFloat.is_nan y then PrimFloat.nan
  else if PrimFloat.eqb x y then x
  else if PrimFloat.ltb y x then PrimFloat.next_down x else PrimFloat.next_up x.
Definition fq (x : float) : T QOps := F2Q x.

(* ---- bit-exact comparison of a model tree with the dumped tree *)
Definition v2same (a b : V2 FOps) : bool := fsame (vx a) (vx b) && fsame (vy a) (vy b).
Definition segsame (a b : Seg FOps) : bool := v2same (fst a) (fst b) && v2same (snd a) (snd b).
Definition boxsame (a b : Box2 FOps) : bool := v2same (b2min a) (b2min b) && v2same (b2max a) (b2max b).
Fixpoint tree_same (a b : qt FOps (Seg FOps)) : bool :=
  match a, b with
  | QNil, QNil => true
  | QLeaf ba ca ha la, QLeaf bb cb hb lb =>
      boxsame ba bb && v2same ca cb && fsame ha hb && forall2b segsame la lb
  | QNode ba ca ha a0 a1 a2 a3, QNode bb cb hb b0 b1 b2 b3 =>
      boxsame ba bb && v2same ca cb && fsame ha hb &&
      tree_same a0 b0 && tree_same a1 b1 && tree_same a2 b2 && tree_same a3 b3
  | _, _ => false
  end.

(* ---- the same tree up to 2^-40*scale in every number (same shape, same number of pieces): what a
   harmless rewrite of the interpolation in lineClip may change.  The certificate is checked on the
   dumped tree itself, so nothing is lost by accepting such a dump. *)
Definition fnear (sc x y : float) : bool :=
  fsame x y || PrimFloat.leb (PrimFloat.abs (x - y)) (0x1p-40 * sc)%float.
Definition v2near (sc : float) (a b : V2 FOps) : bool := fnear sc (vx a) (vx b) && fnear sc (vy a) (vy b).
Definition segnear (sc : float) (a b : Seg FOps) : bool := v2near sc (fst a) (fst b) && v2near sc (snd a) (snd b).
Definition boxnear (sc : float) (a b : Box2 FOps) : bool := v2near sc (b2min a) (b2min b) && v2near sc (b2max a) (b2max b).
Fixpoint tree_near (sc : float) (a b : qt FOps (Seg FOps)) : bool :=
  match a, b with
  | QNil, QNil => true
  | QLeaf ba ca ha la, QLeaf bb cb hb lb =>
      boxnear sc ba bb && v2near sc ca cb && fnear sc ha hb && forall2b (segnear sc) la lb
  | QNode ba ca ha a0 a1 a2 a3, QNode bb cb hb b0 b1 b2 b3 =>
      boxnear sc ba bb && v2near sc ca cb && fnear sc ha hb &&
      tree_near sc a0 b0 && tree_near sc a1 b1 && tree_near sc a2 b2 && tree_near sc a3 b3
  | _, _ => false
  end.

(* scale of a dumped tree: largest |coordinate| of the root box *)
Definition tree_scale (t : ftree) : Q :=
  match t with
  | FN => 1
  | FL (a, b, c, d) _ _ _ | FQ (a, b, c, d) _ _ _ _ _ _ =>
      let m x y := if Qle_bool x y then y else x in
      m (m (Qabs.Qabs (F2Q a)) (Qabs.Qabs (F2Q b))) (m (Qabs.Qabs (F2Q c)) (Qabs.Qabs (F2Q d)))
  end.
Definition eps40 : Q := 1 # (2 ^ 40).

Definition segsF (verts : list (float * float)) : list (Seg FOps) :=
  @vertex_to_line FOps (map (@iv2 FOps fid) verts).
Definition seg_to_Q (s : Seg FOps) : Seg QOps :=
  (mkV2 (F2Q (vx (fst s))) (F2Q (vy (fst s))), mkV2 (F2Q (vx (snd s))) (F2Q (vy (snd s)))).

(* ---- tree case: id, mode, qtMaxLevel, vertices, dumped tree, chains hint.
   mode 0: the tolerant certificate must hold; 1: also the exact (tolerance 0) winding certificate;
   2: only "model rebuilds the dump" is required (not used on the repaired code: since lineIntersect
   clips by coordinates no polygon is outside the class) *)
Definition tcase := (N * N * N * list (float * float) * ftree * list (list fseg))%type.
Definition tid (c : tcase) : N := let '(id, _, _, _, _, _) := c in id.
(* The certificate on a dumped tree.  chain_check, box_check and nondeg_b do arithmetic and run at
   QOps (exact rationals).  perm_check, ray_check and owner_check only compare coordinates; on
   finite floats PrimFloat.eqb / leb ARE the exact comparisons of the real values, so these three
   run at FOps (same generic text, ~1000x cheaper than comparing rationals). *)
Definition cert (tol : Q) (tree : ftree) (sf : list (Seg FOps)) (chains : list (list fseg)) : bool * bool :=
  let sq := map seg_to_Q sf in
  let tq := @itree QOps fq tree in
  let tf := @itree FOps fid tree in
  let cq := map (map (@iseg QOps fq)) chains in
  let cf := map (map (@iseg FOps fid)) chains in
  let w := forall2b (@chain_check QOps tol) sq cq && @perm_check FOps (pieces tf) (concat cf) &&
           @ray_check FOps tf && @owner_check FOps tf in
  (w, w && @box_check QOps tol tq && forallb (@nondeg_b QOps) sq).

Definition tree_scale_f0 (t : ftree) : float :=
  match t with
  | FN => 1%float
  | FL (a, b, c, d) _ _ _ | FQ (a, b, c, d) _ _ _ _ _ _ =>
      let m (x y : float) := if PrimFloat.leb x y then y else x in
      m (m (PrimFloat.abs a) (PrimFloat.abs b)) (m (PrimFloat.abs c) (PrimFloat.abs d))
  end.

(* (model rebuilds the dump bit for bit, ... up to 2^-40*scale, tolerant certificate, exact winding
   certificate, exact full certificate) *)
Definition tcheck (c : tcase) : bool * bool * bool * bool * bool :=
  let '(id, ex, maxlevel, verts, tree, chains) := c in
  let sf := segsF verts in
  let built := @mesh2d FOps fnextafter (N.to_nat maxlevel) sf in
  let tol := Qred (eps40 * tree_scale tree) in
  let c0 := cert 0%Q tree sf chains in
  let dump := @itree FOps fid tree in
  (tree_same built dump, tree_near (tree_scale_f0 tree) built dump, snd (cert tol tree sf chains), fst c0, snd c0).
Definition tok (c : tcase) : bool :=
  let '(id, ex, _, _, _, _) := c in
  let '(same, near, certtol, w0, full0) := tcheck c in
  (same || near) && (N.eqb ex 2 || (certtol && (negb (N.eqb ex 1) || w0))).
Definition mismatches_tree (cs : list tcase) : list N := map tid (filter (fun c => negb (tok c)) cs).
(* information: trees the model does not rebuild bit for bit, or on which the exact (tolerance 0)
   winding certificate does not hold (cut points of oblique edges are rounded) *)
Definition inexact_tree (cs : list tcase) : list N :=
  map tid (filter (fun c : tcase => let '(same, near, certtol, w0, full0) := tcheck c in negb (same && w0)) cs).
Definition notsame_tree (cs : list tcase) : list N :=
  map tid (filter (fun c : tcase => let '(same, near, certtol, w0, full0) := tcheck c in negb same) cs).

(* ---- eval case: vertices, dumped tree, points (id, run the Q spec, on the boundary, p, fast, slow) *)
Definition epoint := (N * bool * bool * (float * float) * float * float)%type.
Definition ecase := (list (float * float) * ftree * list epoint)%type.

Definition sign_same (x y : float) : bool := Bool.eqb (PrimFloat.get_sign x) (PrimFloat.get_sign y).

(* |g| against the exact squared distance d2 (no square root at Q) *)
Definition qclose2 (g : float) (d2 : Q) (s : Q) : bool :=
  let gq := Qabs.Qabs (F2Q g) in
  let e := (2 # 1000000000000)%Q in
  let b := (e * (gq + s)) * (2 * gq + e * (gq + s)) in
  Qle_bool (Qabs.Qabs (gq * gq - d2)) b.

Definition fnear0 (scale x y : float) : bool :=
  PrimFloat.leb (PrimFloat.abs (x - y)) (0x1p-40 * scale)%float.
Definition tree_scale_f (t : ftree) : float :=
  match t with
  | FN => 1%float
  | FL (a, b, c, d) _ _ _ | FQ (a, b, c, d) _ _ _ _ _ _ =>
      let m (x y : float) := if PrimFloat.leb x y then y else x in
      m (m (PrimFloat.abs a) (PrimFloat.abs b)) (m (PrimFloat.abs c) (PrimFloat.abs d))
  end.

Definition pcheck (treeF : qt FOps (LineInfo FOps)) (lisF : list (LineInfo FOps))
           (sq : list (Seg QOps)) (scale : Q) (sf : float) (pt : epoint) : bool * bool :=
  let '(id, doq, bnd, p, gf, gs) := pt in
  let pF := @iv2 FOps fid p in
  let mf := @eval_fast FOps treeF pF in
  let ms := @eval_slow FOps lisF pF in
  (* on (or within rounding of) the boundary the value is 0 up to 2^-40*scale and its sign is
     immaterial; elsewhere: relative agreement and the same sign *)
  let okF := if bnd then fnear0 sf mf gf && fnear0 sf ms gs
             else fclose mf gf && fclose ms gs && sign_same mf gf && sign_same ms gs in
  let okQ :=
    if doq then
      let pQ := @iv2 QOps fq p in
      let wn := @wn_spec QOps sq pQ in
      let d2 := @dist2_spec QOps sq pQ in
      let inside := negb (Z.eqb wn 0) in
      let m x y := if Qle_bool x y then y else x in
      let s := m scale (m (Qabs.Qabs (F2Q (fst p))) (Qabs.Qabs (F2Q (snd p)))) in
      (bnd || (Bool.eqb (PrimFloat.get_sign gf) inside && Bool.eqb (PrimFloat.get_sign gs) inside)) &&
      qclose2 gf d2 s && qclose2 gs d2 s
    else true in
  (okF && okQ, fsame mf gf && fsame ms gs).

Definition eprep (c : ecase) :=
  let '(verts, tree, pts) := c in
  let sf := segsF verts in
  (@qt_map FOps _ _ (@new_line_info FOps) (@itree FOps fid tree), @convert_lines FOps sf,
   map seg_to_Q sf, tree_scale tree, tree_scale_f tree, pts).
Definition pid (pt : epoint) : N := let '(id, _, _, _, _, _) := pt in id.
Definition mismatches_eval (cs : list ecase) : list N :=
  flat_map (fun c => let '(tf, lf, sq, sc, scf, pts) := eprep c in
                     map pid (filter (fun pt => negb (fst (pcheck tf lf sq sc scf pt))) pts)) cs.
Definition inexact_eval (cs : list ecase) : list N :=
  flat_map (fun c => let '(tf, lf, sq, sc, scf, pts) := eprep c in
                     map pid (filter (fun pt => negb (snd (pcheck tf lf sq sc scf pt))) pts)) cs.

(* ---- the defect of the pinned commit (repaired by "fix: Box2.lineIntersect keeps the end points
   ... bit-exact"): for the edge of the 10-vertex star (R = 1, r = 0.4) that arrives at the inner
   vertex (0.3236..., -0.2351141009169893), u + v*1 differs from the vertex in the last bit of y, and
   at a point level with that vertex the half-open rule counts the clipped piece as a crossing that
   the edge itself does not make. *)
Definition star_edge : Seg FOps :=
  (mkV2 0x1.3c6ef372fe94cp-02%float (-0x1.e6f0e134455p-01)%float,
   mkV2 0x1.4b5f949465d53p-02%float (-0x1.e183807222a32p-03)%float).
Definition star_point : V2 FOps := mkV2 (-0x1.9e3779b97f4a8p-01)%float (-0x1.e183807222a32p-03)%float.
Lemma pinned_clip_refuted :
  exists (l : Seg FOps) (p : V2 FOps),
    v2same (@clip_pt_pinned FOps l 1%float) (snd l) = false /\
    @winding FOps (@new_line_info FOps (fst l, @clip_pt_pinned FOps l 1%float)) p = 1%Z /\
    @winding FOps (@new_line_info FOps l) p = 0%Z /\
    v2same (@clip_pt FOps l 1%float) (snd l) = true.
Proof. exists star_edge, star_point. vm_compute. repeat split. Qed.

(* ---- the defect repaired by "fix: Box2.lineIntersect clips by coordinates": the documented example
   examples/bezier egg1 (56 vertices as Bezier.Polygon returns them, bounding box {0,0}-{5.77,16}).
   The quadtree box is [-0.08,16.08]^2 and its centre line y = 7.999999999999998 passes 2 ulp below
   the vertex (5.625, 8).  The tolerance version of lineIntersect snapped that vertex onto the line in
   one leaf piece and left it alone in the neighbouring piece, so the leaf pieces no longer form
   closed chains: at (-67.678, 7.9999999999999991), far to the left of the box and level with the
   gap, the quadtree walk counts -1 crossings (brute force and the exact rational crossing number: 0)
   and Evaluate returns -67.678, "inside".  The repaired clipping gives 0 and +67.678. *)
Definition egg1_verts : list (float * float) :=
  ([(0, 0);
   (0x1.d4cfp-02, 0x1.7cp-07);
   (0x1.c9bcp-01, 0x1.78p-05);
   (0x1.4f154p+00, 0x1.a28p-04);
   (0x1.b3fp+00, 0x1.7p-03);
   (0x1.09c26p+01, 0x1.1c6p-02);
   (0x1.36f5p+01, 0x1.95p-02);
   (0x1.619b2p+01, 0x1.109p-01);
   (0x1.89cp+01, 0x1.6p-01);
   (0x1.af6eep+01, 0x1.b87p-01);
   (0x1.d2b3p+01, 0x1.0ccp+00);
   (0x1.f397ap+01, 0x1.4168p+00);
   (0x1.0914p+02, 0x1.7ap+00);
   (0x1.1737bp+02, 0x1.b658p+00);
   (0x1.243c8p+02, 0x1.f64p+00);
   (0x1.30281p+02, 0x1.1cc4p+01);
   (0x1.3bp+02, 0x1.4p+01);
   (0x1.44c9fp+02, 0x1.64bcp+01);
   (0x1.4d8b8p+02, 0x1.8aep+01);
   (0x1.554a5p+02, 0x1.b254p+01);
   (0x1.5c0cp+02, 0x1.dbp+01);
   (0x1.61d63p+02, 0x1.0266p+02);
   (0x1.66ae8p+02, 0x1.17dp+02);
   (0x1.6a9a9p+02, 0x1.2db2p+02);
   (0x1.6dap+02, 0x1.44p+02);
   (0x1.710d8p+02, 0x1.71bp+02);
   (0x1.7124p+02, 0x1.a08p+02);
   (0x1.6e108p+02, 0x1.d01p+02);
   (0x1.68p+02, 0x1p+03);
   (0x1.5f1f8p+02, 0x1.17f8p+03);
   (0x1.539cp+02, 0x1.2fcp+03);
   (0x1.45a28p+02, 0x1.4728p+03);
   (0x1.356p+02, 0x1.5ep+03);
   (0x1.23018p+02, 0x1.7418p+03);
   (0x1.0eb4p+02, 0x1.894p+03);
   (0x1.f149p+01, 0x1.9d48p+03);
   (0x1.c2p+01, 0x1.bp+03);
   (0x1.8fe7p+01, 0x1.c138p+03);
   (0x1.5b58p+01, 0x1.d0cp+03);
   (0x1.40406p+01, 0x1.d7d3p+03);
   (0x1.24adp+01, 0x1.de68p+03);
   (0x1.08a92p+01, 0x1.e479p+03);
   (0x1.d88p+00, 0x1.eap+03);
   (0x1.9ef9cp+00, 0x1.eef7p+03);
   (0x1.64d6p+00, 0x1.f358p+03);
   (0x1.2a2b4p+00, 0x1.f71dp+03);
   (0x1.de2p-01, 0x1.fa4p+03);
   (0x1.a2be7p-01, 0x1.fb92ep+03);
   (0x1.67358p-01, 0x1.fcbbp+03);
   (0x1.2b8adp-01, 0x1.fdb7ap+03);
   (0x1.df88p-02, 0x1.fe88p+03);
   (0x1.67cd6p-02, 0x1.ff2b6p+03);
   (0x1.dfe2p-03, 0x1.ffa1p+03);
   (0x1.dff88p-04, 0x1.ffe82p+03);
   (0, 0x1p+04)])%float.
Definition egg1_point : V2 FOps := mkV2 (-0x1.0eb68p+6)%float 0x1.fffffffffffffp+2%float.
Definition ffast (t : qt FOps (Seg FOps)) (p : V2 FOps) : float :=
  @eval_fast FOps (@qt_map FOps _ _ (@new_line_info FOps) t) p.
Definition fwalk (t : qt FOps (Seg FOps)) (p : V2 FOps) : Z :=
  @qt_winding FOps (@qt_map FOps _ _ (@new_line_info FOps) t) p 0%Z.
Lemma pinned_snap_refuted :
  exists (verts : list (float * float)) (p : V2 FOps),
    let segs := segsF verts in
    PrimFloat.ltb (vx p) (vx (b2min (@mesh_bb FOps segs))) = true /\
    @wn_spec QOps (map seg_to_Q segs) (mkV2 (F2Q (vx p)) (F2Q (vy p))) = 0%Z /\
    snd (@slow_loop FOps (@convert_lines FOps segs) p) = 0%Z /\
    fwalk (@mesh2d_snap FOps 3 segs) p = (-1)%Z /\
    PrimFloat.ltb (ffast (@mesh2d_snap FOps 3 segs) p) 0%float = true /\
    fwalk (@mesh2d FOps fnextafter 3 segs) p = 0%Z /\
    PrimFloat.ltb 0%float (ffast (@mesh2d FOps fnextafter 3 segs) p) = true.
Proof. exists egg1_verts, egg1_point. vm_compute. repeat split. Qed.
