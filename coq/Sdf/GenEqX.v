(* The syntactic tie for the primitives of Sdf/Prim2X.v: the definitions that harness/sdfgen
   translates from sdf/cams.go, sdf/flange.go, sdf/rack.go, sdf/spiral.go (Generated/SdfExpr.v, rewritten
   from the current Go source on every run) are equal, for all arguments and over an arbitrary
   `O : Ops`, to the hand-written model functions.  All proofs are by conversion (Sdf/GenEq.v explains
   the tactics): a semantic edit of FlatFlankCam2D, MakeFlatFlankCam, NewFlange1, ThreeArcCam2D, of their
   Evaluate methods, of GearRackSDF2.Evaluate or of polarDist2 breaks the lemma named after it.
   Not translated (tied by differential execution at primitive floats in harness/cmd/c01 only):
   ArcSpiral2D / ArcSpiralSDF2.Evaluate / arcSpiral.radius / arcSpiral.theta (unbounded `for` loops, a
   slice of candidate angles, math.Round, math.Pow in a dead branch), GearRack2D (builds a Polygon2D),
   MakeThreeArcCam (line intersection of sdf/line.go). *)
From Coq Require Import ZArith List Bool.
From Sdfx Require Import Num.Ops Num.Loop Geo.Vec Geo.Box Geo.Mat Sdf.Union2 Sdf.Shape Sdf.Prim2X
  Generated.SdfExpr Sdf.GenEq.
Import OpsNotations ListNotations.
Local Open Scope ops_scope.

Section GenEqX.
  Context {O : Ops}.
  Notation T := (T O).
  Notation V2 := (V2 O).

  (* ------------------------------------------------------------ Evaluate methods *)
  Lemma FlatFlankCam_eq : forall (distance baseRadius noseRadius : T) (a u : V2) (l : T) (p : V2),
    sdf_FlatFlankCamSDF2_Evaluate distance baseRadius noseRadius a u l p = flatflank_ev distance baseRadius noseRadius a u l p.
  Proof. intros. same_as TRANSL_FlatFlankCam. Qed.

  Lemma Flange1_eq : forall (distance centerRadius sideRadius : T) (a u : V2) (l : T) (p : V2),
    sdf_Flange1_Evaluate distance centerRadius sideRadius a u l p = flange1_ev distance centerRadius sideRadius a u l p.
  Proof. intros. same_as TRANSL_Flange1. Qed.

  Lemma ThreeArcCam_eq : forall (distance baseRadius noseRadius flankRadius : T) (fc : V2) (thetaBase thetaNose : T) (p : V2),
    sdf_ThreeArcCamSDF2_Evaluate distance baseRadius noseRadius flankRadius fc thetaBase thetaNose p
    = threearc_ev distance baseRadius noseRadius flankRadius fc thetaBase thetaNose p.
  Proof. intros. same_as TRANSL_ThreeArcCam. Qed.

  Lemma GearRack_eq : forall (tooth : V2 -> T) (pitch length : T) (p : V2),
    sdf_GearRackSDF2_Evaluate tooth pitch length p = gearrack_ev tooth pitch length p.
  Proof. intros. same_as TRANSL_GearRack. Qed.

  Lemma polarDist2_eq : forall p0 p1 : T * T, sdf_polarDist2 p0 p1 = polar_dist2 p0 p1.
  Proof. intros. same_as TRANSL_polarDist2. Qed.

  (* ------------------------------------------------------------ constructors *)
  Lemma FlatFlankCam2D_ctor : forall distance baseRadius noseRadius : T,
    option_map obj2_of (sdf_FlatFlankCam2D distance baseRadius noseRadius) = k_flatflankcam distance baseRadius noseRadius.
  Proof. intros. unfold sdf_FlatFlankCam2D, k_flatflankcam. ctor_eq TRANSL_FlatFlankCam2D_ctor. Qed.

  Lemma MakeFlatFlankCam_ctor : forall lift duration maxDiameter : T,
    option_map obj2_of (sdf_MakeFlatFlankCam lift duration maxDiameter) = k_makeflatflankcam lift duration maxDiameter.
  Proof.
    intros. unfold sdf_MakeFlatFlankCam, k_makeflatflankcam. change sdf_Pi with (opi O).
    ctor_eq TRANSL_MakeFlatFlankCam_ctor.
  Qed.

  Lemma NewFlange1_ctor : forall distance centerRadius sideRadius : T,
    option_map obj2_of (sdf_NewFlange1 distance centerRadius sideRadius) = k_flange1 distance centerRadius sideRadius.
  Proof. intros. unfold sdf_NewFlange1, k_flange1. ctor_eq TRANSL_NewFlange1_ctor. Qed.

  Lemma ThreeArcCam2D_ctor : forall distance baseRadius noseRadius flankRadius : T,
    option_map obj2_of (sdf_ThreeArcCam2D distance baseRadius noseRadius flankRadius)
    = k_threearccam distance baseRadius noseRadius flankRadius.
  Proof. intros. unfold sdf_ThreeArcCam2D, k_threearccam. ctor_eq TRANSL_ThreeArcCam2D_ctor. Qed.
End GenEqX.
