(* The screw code translated from the Go AST of the current sdf/screw.go and sdf/utils.go
   (Generated/ThreadExpr.v, rewritten by harness/threadgen on every run) is the hand-written model
   of Sdf/Screw.v that the theorems of C18 (Sdf/ScrewR.v, Sdf/IsoProfile.v, Sdf/IsoClosed.v) are
   about: equal for ALL arguments, at the real-number instance the theorems are stated at.

   Every proof first tries conversion (which succeeds on the unchanged tree, and then the equality
   holds in any number system - the statements are kept at the reals only because of the second
   method): a rewrite of the Go text that only introduces or removes local variables, moves a body
   into an unexported helper, switches between field assignments and keyed literals, or names a
   constant leaves the two sides convertible.  Otherwise the two sides are compared as expressions
   over the reals, congruence by congruence, with ring / field / lra at the leaves: commuted or
   re-associated sums and products, x*0.5 for x/2, -(a*b) for (-a)*b.  A changed operation, operand,
   comparison or constant makes both methods fail. *)
From Coq Require Import Reals ZArith List Bool Lra.
From Sdfx Require Import Num.Ops.
From Sdfx Require Import Num.RInst.
From Sdfx Require Import Geo.Vec.
From Sdfx Require Import Geo.Box.
From Sdfx Require Import Sdf.Screw.
From Sdfx Require Import Generated.ThreadExpr.
Import ListNotations.
Local Open Scope R_scope.

(* equality of two real expressions / vectors / lists / options built the same way up to arithmetic *)
Ltac rleaf :=
  first [ reflexivity
        | match goal with |- @eq R _ _ => first [ lra | ring | (field; lra) ] end ].
Ltac rsame :=
  first
    [ rleaf
    | match goal with
      | |- (if ?a then _ else _) = (if ?b then _ else _) =>
          tryif constr_eq a b then idtac
          else (let H := fresh "Hc" in assert (H : a = b) by rsame; rewrite H; clear H);
          destruct b; rsame
      end
    | (* make the arguments of a function ring does not know (floor, sqrt, abs, tan ...) syntactically equal
         where they are provably equal, then try again *)
      progress (repeat match goal with
                       | |- context [?f ?a] =>
                           lazymatch type of f with
                           | R -> R =>
                               match goal with
                               | |- context [f ?b] =>
                                   tryif constr_eq a b then fail
                                   else (let H := fresh "Ha" in assert (H : a = b) by rsame; rewrite H; clear H)
                               end
                           end
                       end); rsame
    | match goal with
      | |- ?f _ = ?g _ => progress f_equal; rsame
      end ].
Ltac rnorm :=
  cbv zeta;
  cbn [T o0 o1 oadd osub omul odiv oneg oabs osqrt oltb oleb oeqb omin omax ofZ ofloor oceil
       osin ocos otan oatan oatan2 oacos opi ROps];
  unfold cst, half, two, sq;
  cbn [T o0 o1 oadd osub omul odiv oneg ofZ ROps].
Ltac transl_with unf := intros; first [ reflexivity | (unf; rnorm; rsame) ].

(* sdf/utils.go *)
Lemma transl_SawTooth : forall x period : R, @gen_SawTooth ROps x period = @sawtooth ROps x period.
Proof. transl_with ltac:(unfold gen_SawTooth, sawtooth). Qed.

Lemma transl_DtoR : forall degrees : R, @gen_DtoR ROps degrees = @dtor ROps degrees.
Proof. transl_with ltac:(unfold gen_DtoR, dtor). Qed.

Ltac case_guards :=
  repeat match goal with
         | |- context [if ?c then None else _] => destruct c; [reflexivity|]
         | |- context [if ?c then _ else _] => destruct c
         end.

(* Screw3D: for a non-nil thread profile the constructor checks exactly the guards of `screw3d` and
   stores pitch, lead = -pitch * starts, HALF the length and the taper ... *)
Lemma transl_Screw3D : forall (bb : Box2 ROps) (length taper pitch : R) (starts : Z),
  option_map (fun g => mkScrew (ScrewSDF3_pitch g) (ScrewSDF3_lead g) (ScrewSDF3_length g) (ScrewSDF3_taper g))
             (@gen_Screw3D ROps false bb length taper pitch starts)
  = @screw3d ROps length taper pitch starts.
Proof.
  intros. unfold gen_Screw3D, screw3d.
  first [ case_guards; reflexivity
        | unfold gen_DtoR, gen_SawTooth; rnorm; case_guards; cbn; rnorm; rsame ].
Qed.

(* ... and the box [-r, r]^2 x [-length/2, length/2], r = top of the profile's box + length/2 * tan taper;
   a nil profile is rejected *)
Lemma transl_Screw3D_bb : forall (bb : Box2 ROps) (length taper pitch : R) (starts : Z),
  option_map ScrewSDF3_bb (@gen_Screw3D ROps false bb length taper pitch starts)
  = option_map (screw_bb (vy (b2max bb))) (@screw3d ROps length taper pitch starts).
Proof.
  intros. unfold gen_Screw3D, screw3d.
  first [ case_guards; reflexivity
        | unfold gen_DtoR, gen_SawTooth, screw_bb; rnorm; case_guards; cbn; rnorm; rsame ].
Qed.

Lemma transl_Screw3D_nil : forall (bb : Box2 ROps) (length taper pitch : R) (starts : Z),
  @gen_Screw3D ROps true bb length taper pitch starts = None.
Proof. reflexivity. Qed.

(* ScrewSDF3.Evaluate *)
Lemma transl_ScrewSDF3_Evaluate : forall (thread : V2 ROps -> R) (s : ScrewSDF3 ROps) (p : V3 ROps),
  @gen_ScrewSDF3_Evaluate ROps thread (s_pitch s) (s_lead s) (s_length s) (s_taper s) p = screw_eval thread s p.
Proof.
  transl_with ltac:(unfold gen_ScrewSDF3_Evaluate, screw_eval, screw_map, gen_SawTooth, sawtooth, tau).
Qed.

(* ISOThread: the vertex list handed to Polygon2D, before the smoothing of the marked corners *)
Lemma transl_ISOThread : forall (radius pitch : R) (external : bool),
  @gen_ISOThread ROps radius pitch external = @iso_thread_pv ROps radius pitch external.
Proof.
  intros. destruct external;
    first [ reflexivity
          | (unfold gen_ISOThread, iso_thread_pv, gen_DtoR, dtor, pvs, pvn; rnorm; rsame) ].
Qed.
