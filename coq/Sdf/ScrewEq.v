(* The screw code translated from the Go AST of the current sdf/screw.go and sdf/utils.go
   (Generated/ThreadExpr.v, rewritten by harness/threadgen on every run) is the hand-written model
   of Sdf/Screw.v that the theorems of C18 (Sdf/ScrewR.v, Sdf/IsoProfile.v, Sdf/IsoClosed.v) are
   about: for ALL arguments and for ANY number system (reals, rationals, binary64).

   The proofs are by conversion (after case analysis on the guards of the constructor), so a
   rewrite of the Go text that only introduces or removes local variables, moves a body into an
   unexported helper, switches between field assignments and keyed literals, or names a constant
   leaves them valid; a change of an operation, an operand, a comparison or a constant does not. *)
From Coq Require Import ZArith List Bool.
From Sdfx Require Import Num.Ops.
From Sdfx Require Import Geo.Vec.
From Sdfx Require Import Geo.Box.
From Sdfx Require Import Sdf.Screw.
From Sdfx Require Import Generated.ThreadExpr.
Import OpsNotations ListNotations.
Local Open Scope ops_scope.

Ltac transl :=
  intros;
  first [ reflexivity
        | repeat (match goal with |- context [if ?c then _ else _] => destruct c end); reflexivity ].

Section ScrewEq.
  Context {O : Ops}.

  (* sdf/utils.go *)
  Lemma transl_SawTooth : forall x period : T O, gen_SawTooth x period = sawtooth x period.
  Proof. transl. Qed.

  Lemma transl_DtoR : forall degrees : T O, gen_DtoR degrees = dtor degrees.
  Proof. transl. Qed.

  (* Screw3D: for a non-nil thread profile the constructor checks exactly the guards of `screw3d` and
     stores pitch, lead = -pitch * starts, HALF the length and the taper ... *)
  Lemma transl_Screw3D : forall (bb : Box2 O) (length taper pitch : T O) (starts : Z),
    option_map (fun g => mkScrew (ScrewSDF3_pitch g) (ScrewSDF3_lead g) (ScrewSDF3_length g) (ScrewSDF3_taper g))
               (gen_Screw3D false bb length taper pitch starts)
    = screw3d length taper pitch starts.
  Proof. intros. unfold gen_Screw3D, screw3d. transl. Qed.

  (* ... and the box [-r, r]^2 x [-length/2, length/2], r = top of the profile's box + length/2 * tan taper;
     a nil profile is rejected *)
  Lemma transl_Screw3D_bb : forall (bb : Box2 O) (length taper pitch : T O) (starts : Z),
    option_map ScrewSDF3_bb (gen_Screw3D false bb length taper pitch starts)
    = option_map (screw_bb (vy (b2max bb))) (screw3d length taper pitch starts).
  Proof. intros. unfold gen_Screw3D, screw3d. transl. Qed.

  Lemma transl_Screw3D_nil : forall (bb : Box2 O) (length taper pitch : T O) (starts : Z),
    gen_Screw3D true bb length taper pitch starts = None.
  Proof. transl. Qed.

  (* ScrewSDF3.Evaluate *)
  Lemma transl_ScrewSDF3_Evaluate : forall (thread : V2 O -> T O) (s : ScrewSDF3 O) (p : V3 O),
    gen_ScrewSDF3_Evaluate thread (s_pitch s) (s_lead s) (s_length s) (s_taper s) p = screw_eval thread s p.
  Proof. transl. Qed.

  (* ISOThread: the vertex list handed to Polygon2D, before the smoothing of the marked corners *)
  Lemma transl_ISOThread : forall (radius pitch : T O) (external : bool),
    gen_ISOThread radius pitch external = iso_thread_pv radius pitch external.
  Proof. intros. destruct external; reflexivity. Qed.

End ScrewEq.
