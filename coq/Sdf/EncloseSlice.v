(* C01 over the reals, part 7: Slice2D.  In all four branches the plane axes u, v are orthonormal
   and perpendicular to n; the projection used for the box is then a left inverse of the
   plane parametrisation, and it is affine, so it maps the operand's box into the hull of the
   projected vertices. *)
From Coq Require Import Reals Lra Lia List Bool ZArith Psatz.
From Sdfx Require Import Num.Ops Num.RInst Geo.Vec Geo.Box Geo.BoxR Geo.MinMaxR Geo.NormR Geo.Mat
  Sdf.Union2 Sdf.Shape Sdf.ShapeR Sdf.EncloseR Sdf.EncloseRev Sdf.EncloseRot.
Import ListNotations.
Open Scope R_scope.

Definition dot3 (a b : RV3) : R := wx a * wx b + wy a * wy b + wz a * wz b.
Lemma v3dot_eq a b : @v3dot ROps a b = dot3 a b.
Proof. reflexivity. Qed.

(* ------------------------------------------------------------ normalisation *)
Lemma normalize_dot (a b : RV3) : dot3 (@v3normalize ROps a) (@v3normalize ROps b) = dot3 a b * ((1 / len3 a) * (1 / len3 b)).
Proof. unfold v3normalize, v3muls, dot3; cbn. change (sqrt (wx a * wx a + wy a * wy a + wz a * wz a)) with (len3 a).
  change (sqrt (wx b * wx b + wy b * wy b + wz b * wz b)) with (len3 b). ring. Qed.
Lemma normalize_perp (a b : RV3) : dot3 a b = 0 -> dot3 (@v3normalize ROps a) (@v3normalize ROps b) = 0.
Proof. intros H. rewrite normalize_dot, H. ring. Qed.
Lemma normalize_unit (a : RV3) : 0 < dot3 a a -> dot3 (@v3normalize ROps a) (@v3normalize ROps a) = 1.
Proof.
  intros H. rewrite normalize_dot. pose proof (len3_sq a) as S. fold (dot3 a a) in S.
  assert (0 < len3 a). { pose proof (len3_nonneg a). destruct (Req_dec (len3 a) 0) as [E|E]; [rewrite E in S; lra | lra]. }
  rewrite <- S. field. lra.
Qed.

(* ------------------------------------------------------------ affine maps R^3 -> R^2 *)
Definition affine_fun32 (G : RV3 -> RV2) : Prop :=
  exists a0 a1 a2 a3 b0 b1 b2 b3 : R, forall q,
    G q = mkV2 (a0 * wx q + a1 * wy q + a2 * wz q + a3) (b0 * wx q + b1 * wy q + b2 * wz q + b3).

Lemma affine_hull32 G b q : affine_fun32 G -> in_box3 b q ->
  in_box2 (mkBox2 (@v2set_min ROps (map G (box3_vertices b))) (@v2set_max ROps (map G (box3_vertices b)))) (G q).
Proof.
  intros (a0 & a1 & a2 & a3 & b0 & b1 & b2 & b3 & HG) Hin. unfold in_box2; cbn [b2min b2max].
  destruct (lin3_min b q a0 a1 a2 Hin) as (c1 & I1 & L1). destruct (lin3_min b q (- a0) (- a1) (- a2) Hin) as (c2 & I2 & L2).
  destruct (lin3_min b q b0 b1 b2 Hin) as (c3 & I3 & L3). destruct (lin3_min b q (- b0) (- b1) (- b2) Hin) as (c4 & I4 & L4).
  destruct (set_min_le _ _ (in_map G _ _ I1)) as [A1 _]. destruct (set_max_ge _ _ (in_map G _ _ I2)) as [A2 _].
  destruct (set_min_le _ _ (in_map G _ _ I3)) as [_ A3]. destruct (set_max_ge _ _ (in_map G _ _ I4)) as [_ A4].
  rewrite HG in A1, A2, A3, A4. rewrite (HG q). cbn [vx vy] in *. lra.
Qed.

(* ------------------------------------------------------------ the projection of Slice2D *)
Definition slice_proj (a u v nn : RV3) (vt : RV3) : RV2 :=
  let va := @v3sub ROps vt a in
  let pa := @v3sub ROps va (@v3muls ROps nn (@v3dot ROps nn va)) in
  mkV2 (@v3dot ROps pa u) (@v3dot ROps pa v).
Definition slice_point (a u v : RV3) (p : RV2) : RV3 :=
  @v3add ROps (@v3add ROps a (@v3muls ROps u (vx p))) (@v3muls ROps v (vy p)).

Lemma slice_proj_affine a u v nn : affine_fun32 (slice_proj a u v nn).
Proof.
  set (G := slice_proj a u v nn).
  exists (vx (G (mkV3 1 0 0)) - vx (G (mkV3 0 0 0))), (vx (G (mkV3 0 1 0)) - vx (G (mkV3 0 0 0))),
         (vx (G (mkV3 0 0 1)) - vx (G (mkV3 0 0 0))), (vx (G (mkV3 0 0 0))),
         (vy (G (mkV3 1 0 0)) - vy (G (mkV3 0 0 0))), (vy (G (mkV3 0 1 0)) - vy (G (mkV3 0 0 0))),
         (vy (G (mkV3 0 0 1)) - vy (G (mkV3 0 0 0))), (vy (G (mkV3 0 0 0))).
  intros [x y z]. unfold G, slice_proj; cbn. f_equal; ring.
Qed.

Lemma slice_proj_point a u v nn p : dot3 u u = 1 -> dot3 v v = 1 -> dot3 u v = 0 -> dot3 nn u = 0 -> dot3 nn v = 0 ->
  slice_proj a u v nn (slice_point a u v p) = p.
Proof.
  unfold dot3. intros Huu Hvv Huv Hnu Hnv. destruct p as [x y]. unfold slice_proj, slice_point; cbn. f_equal.
  - transitivity (x * (wx u * wx u + wy u * wy u + wz u * wz u) + y * (wx u * wx v + wy u * wy v + wz u * wz v)
      - (x * (wx nn * wx u + wy nn * wy u + wz nn * wz u) + y * (wx nn * wx v + wy nn * wy v + wz nn * wz v))
        * (wx nn * wx u + wy nn * wy u + wz nn * wz u)); [ring|]. rewrite Huu, Huv, Hnu, Hnv. ring.
  - transitivity (x * (wx u * wx v + wy u * wy v + wz u * wz v) + y * (wx v * wx v + wy v * wy v + wz v * wz v)
      - (x * (wx nn * wx u + wy nn * wy u + wz nn * wz u) + y * (wx nn * wx v + wy nn * wy v + wz nn * wz v))
        * (wx nn * wx v + wy nn * wy v + wz nn * wz v)); [ring|]. rewrite Hvv, Huv, Hnu, Hnv. ring.
Qed.

Lemma slice_core s (a u v nn : RV3) : dot3 u u = 1 -> dot3 v v = 1 -> dot3 u v = 0 -> dot3 nn u = 0 -> dot3 nn v = 0 ->
  enc3 s ->
  enc2 (mkObj2 (fun p => ev3 s (slice_point a u v p))
               (mkBox2 (@v2set_min ROps (map (slice_proj a u v nn) (box3_vertices (bb3 s))))
                       (@v2set_max ROps (map (slice_proj a u v nn) (box3_vertices (bb3 s)))))).
Proof.
  intros Huu Hvv Huv Hnu Hnv [Ho Hs]. split; cbn [bb2 ev2].
  - assert (I : In (slice_proj a u v nn (b3min (bb3 s))) (map (slice_proj a u v nn) (box3_vertices (bb3 s))))
      by (apply in_map; unfold box3_vertices; cbn; auto).
    destruct (set_min_le _ _ I). destruct (set_max_ge _ _ I). unfold ordered2; cbn [b2min b2max]. lra.
  - intros p Hp. apply Hs in Hp.
    pose proof (affine_hull32 _ _ _ (slice_proj_affine a u v nn) Hp) as Hh.
    rewrite slice_proj_point in Hh by assumption. exact Hh.
Qed.

(* ------------------------------------------------------------ Slice2D
   Go does not reject n = 0 (Normalize would then produce NaN); n <> 0 is the only hypothesis. *)
Lemma cross_perp_l (n u : RV3) : dot3 u (@v3cross ROps n u) = 0.
Proof. unfold dot3, v3cross; cbn. ring. Qed.
Lemma cross_perp_n (n u : RV3) : dot3 n (@v3cross ROps n u) = 0.
Proof. unfold dot3, v3cross; cbn. ring. Qed.
Lemma cross_len (n u : RV3) : dot3 n u = 0 ->
  dot3 (@v3cross ROps n u) (@v3cross ROps n u) = dot3 n n * dot3 u u.
Proof. unfold dot3, v3cross; cbn. intros H.
  transitivity ((wx n * wx n + wy n * wy n + wz n * wz n) * (wx u * wx u + wy u * wy u + wz u * wz u)
                - (wx n * wx u + wy n * wy u + wz n * wz u) * (wx n * wx u + wy n * wy u + wz n * wz u)); [ring|].
  rewrite H. ring. Qed.

Lemma slice_axes (n u0 : RV3) : 0 < dot3 n n -> 0 < dot3 u0 u0 -> dot3 n u0 = 0 ->
  let u := @v3normalize ROps u0 in let v := @v3normalize ROps (@v3cross ROps n u0) in let nn := @v3normalize ROps n in
  dot3 u u = 1 /\ dot3 v v = 1 /\ dot3 u v = 0 /\ dot3 nn u = 0 /\ dot3 nn v = 0.
Proof.
  intros Hn Hu Hnu. cbv zeta. repeat split.
  - apply normalize_unit, Hu.
  - apply normalize_unit. rewrite cross_len by exact Hnu. apply Rmult_lt_0_compat; assumption.
  - apply normalize_perp, cross_perp_l.
  - apply normalize_perp, Hnu.
  - apply normalize_perp, cross_perp_n.
Qed.

Theorem slice2_enc s (a n : RV3) o : 0 < dot3 n n -> @k_slice2 ROps s a n = Some o -> enc3 s -> enc2 o.
Proof.
  intros Hn H Hs. unfold k_slice2 in H. apply some_inj in H. rewrite <- H. clear H.
  set (u0 := if oeqb ROps (wx n) (o0 ROps) then _ else _).
  assert (Hu0 : 0 < dot3 u0 u0 /\ dot3 n u0 = 0).
  { unfold u0. change (oeqb ROps) with Reqb. change (o0 ROps) with 0. unfold dot3 in *.
    destruct (Reqb (wx n) 0) eqn:E1; bfalse; [cbn; rewrite E1; split; lra|].
    destruct (Reqb (wy n) 0) eqn:E2; bfalse; [cbn; rewrite E2; split; lra|].
    destruct (Reqb (wz n) 0) eqn:E3; bfalse; [cbn; rewrite E3; split; lra|].
    cbn. split; [|ring]. assert (0 < wx n * wx n) by nra. nra. }
  destruct Hu0 as [Hu0 Hnu0].
  destruct (slice_axes n u0 Hn Hu0 Hnu0) as (A & B & C & D & E).
  exact (slice_core s a _ _ _ A B C D E Hs).
Qed.
