(* sdf/mesh2.go (lineInfo, minDistance2, winding, qtNode, qtBuild, searchOrder, minBoxDist2,
   minDist2, winding, Mesh2D, MeshSDF2.Evaluate, MeshSDF2Slow.Evaluate, VertexToLine) and
   sdf/box2.go (Square, quad0..quad3, lineClip, lineIntersect, lineFilter; Snap, and the tAppend /
   tolerance version of lineIntersect that the repaired code replaced, kept for the refutation
   theorems), sdf/utils.go (EqualFloat64, SnapFloat64).  The model follows the Go code statement by
   statement; then the
   sqrt-free specification (crossing number with cross products, squared segment distance) and the
   decidable certificate `well_clipped_check` for a clipped quadtree. *)
From Coq Require Import ZArith List Bool.
From Sdfx Require Import Num.Ops Geo.Vec Geo.Box.
Import OpsNotations ListNotations.
Local Open Scope ops_scope.

Section Poly.
  Context {O : Ops}.
  Notation T := (T O).
  Notation V2 := (V2 O).
  Notation Box2 := (Box2 O).

  Definition Seg := (V2 * V2)%type.

  (* ------------------------------------------------------------ lineInfo *)
  Record LineInfo := mkLI { li_a : V2; li_b : V2; li_u : V2; li_len : T }.

  Definition new_line_info (l : Seg) : LineInfo :=
    let v := v2sub (snd l) (fst l) in
    mkLI (fst l) (snd l) (v2normalize v) (v2len v).

  Definition convert_lines (ls : list Seg) : list LineInfo := map new_line_info ls.

  Definition min_distance2 (a : LineInfo) (p : V2) : T :=
    let pa := v2sub p (li_a a) in
    let t := v2dot pa (li_u a) in
    if t <? o0 O then v2len2 (v2sub (li_a a) p)
    else if t >? li_len a then v2len2 (v2sub (li_b a) p)
    else
      let dn := v2dot pa (mkV2 (vy (li_u a)) (- vx (li_u a))) in
      dn * dn.

  Definition winding (a : LineInfo) (p : V2) : Z :=
    let ay := vy (li_a a) in
    let by_ := vy (li_b a) in
    let dn := v2dot (v2sub p (li_a a)) (mkV2 (vy (li_u a)) (- vx (li_u a))) in
    if ay <=? vy p then
      (if (by_ >? vy p) && (dn <? o0 O) then 1%Z else 0%Z)
    else
      (if (by_ <=? vy p) && (dn >? o0 O) then (-1)%Z else 0%Z).

  (* ------------------------------------------------------------ utils.go, box2.go *)
  Definition tolerance : T := cst 1 1000000000.

  Definition equal_float64 (a b eps : T) : bool := (a =? b) || (oabs O (a - b) <? eps).
  Definition snap_float64 (a b eps : T) : T := if equal_float64 a b eps then b else a.

  Definition box2_snap (a : Box2) (p : V2) (delta : T) : V2 :=
    let x := snap_float64 (vx p) (vx (b2min a)) delta in
    let x := snap_float64 x (vx (b2max a)) delta in
    let y := snap_float64 (vy p) (vy (b2min a)) delta in
    let y := snap_float64 y (vy (b2max a)) delta in
    mkV2 x y.

  Definition box2_square (a : Box2) : Box2 :=
    let side := v2maxcomp (box2_size a) in
    mkBox2 (b2min a) (v2add (b2min a) (mkV2 side side)).

  Definition quad0 (a : Box2) : Box2 :=
    let c := v2add (b2min a) (v2muls (box2_size a) half) in mkBox2 (b2min a) c.
  Definition quad1 (a : Box2) : Box2 :=
    let c := v2add (b2min a) (v2muls (box2_size a) half) in
    mkBox2 (mkV2 (vx c) (vy (b2min a))) (mkV2 (vx (b2max a)) (vy c)).
  Definition quad2 (a : Box2) : Box2 :=
    let c := v2add (b2min a) (v2muls (box2_size a) half) in
    mkBox2 (mkV2 (vx (b2min a)) (vy c)) (mkV2 (vx c) (vy (b2max a))).
  Definition quad3 (a : Box2) : Box2 :=
    let c := v2add (b2min a) (v2muls (box2_size a) half) in mkBox2 c (b2max a).

  Definition t_append (set : list T) (t : T) : list T :=
    if (t <? o0 O) || (t >? o1 O) then set
    else if existsb (fun s => equal_float64 s t tolerance) set then set
    else set ++ [t].

  (* the candidate parameters: 0, 1 and the crossings of the four box sides *)
  Definition clip_ts (a : Box2) (l : Seg) : list T :=
    let u := fst l in
    let v := v2sub (snd l) (fst l) in
    let ts := [o0 O; o1 O] in
    let ts := if negb (vy v =? o0 O) then
                let k := o1 O / vy v in
                t_append (t_append ts ((vy (b2min a) - vy u) * k)) ((vy (b2max a) - vy u) * k)
              else ts in
    if negb (vx v =? o0 O) then
      let k := o1 O / vx v in
      t_append (t_append ts ((vx (b2min a) - vx u) * k)) ((vx (b2max a) - vx u) * k)
    else ts.
  (* the point at parameter t; the end points of the line are used as they are *)
  Definition clip_pt (l : Seg) (t : T) : V2 :=
    let p := v2add (fst l) (v2muls (v2sub (snd l) (fst l)) t) in
    if t =? o0 O then fst l else if t =? o1 O then snd l else p.

  (* the pinned commit computed every candidate, the end points included, as u + v*t *)
  Definition clip_pt_pinned (l : Seg) (t : T) : V2 :=
    v2add (fst l) (v2muls (v2sub (snd l) (fst l)) t).

  (* Box2.lineIntersect BEFORE "fix: Box2.lineIntersect clips by coordinates": candidate parameters
     merged within 1e-9, every candidate point (the end points of the line included) snapped onto a
     box edge within 1e-9, but a line with both end points in the box returned as it is *)
  Definition line_intersect_snap (a : Box2) (l : Seg) : option Seg :=
    let u := fst l in
    let v := v2sub (snd l) (fst l) in
    if (vy v =? o0 O) && (vy u =? vy (b2max a)) then None
    else if (vx v =? o0 O) && (vx u =? vx (b2max a)) then None
    else if box2_contains a (fst l) && box2_contains a (snd l) then Some l
    else
      let ps := flat_map (fun t =>
                  let p := box2_snap a (clip_pt l t) tolerance in
                  if box2_contains a p then [p] else []) (clip_ts a l) in
      match ps with
      | [p0; p1] =>
          let vx_ := v2sub p1 p0 in
          if v2dot v vx_ >? o0 O then Some (p0, p1) else Some (p1, p0)
      | _ => None
      end.

  Definition line_filter_snap (a : Box2) (ls : list Seg) : list Seg :=
    flat_map (fun l => match line_intersect_snap a l with Some x => [x] | None => [] end) ls.

  (* ------------------------------------------------------------ lineClip, lineIntersect *)
  Section Clip.
    (* math.Nextafter.  At the float instance: the neighbouring float64 (C04Corr.fnextafter); at the
       real and rational instances the identity on its first argument - the reals have no gaps, the
       interpolated point lies strictly inside the range it is clamped to. *)
    Context (nextafter : T -> T -> T).

    Definition line_clip (l : Seg) (mn mx : T) : option Seg :=
      let x0 := vx (fst l) in
      let x1 := vx (snd l) in
      if x0 =? x1 then
        (if (x0 <? mn) || (x0 >=? mx) then None else Some l)
      else if (omax O x0 x1 <=? mn) || (omin O x0 x1 >=? mx) then None
      else
        let ymin := omin O (vy (fst l)) (vy (snd l)) in
        let ymax := omax O (vy (fst l)) (vy (snd l)) in
        let cut := fun (p : V2) =>
          let x := omin O (omax O (vx p) mn) mx in
          if negb (x =? vx p) then
            let y := vy (fst l) + (vy (snd l) - vy (fst l)) * ((x - x0) / (x1 - x0)) in
            mkV2 x (omin O (omax O y ymin) (nextafter ymax ymin))
          else p in
        Some (cut (fst l), cut (snd l)).

    Definition swap_xy (l : Seg) : Seg :=
      (mkV2 (vy (fst l)) (vx (fst l)), mkV2 (vy (snd l)) (vx (snd l))).

    Definition line_intersect (a : Box2) (l : Seg) : option Seg :=
      let u := fst l in
      let v := v2sub (snd l) (fst l) in
      if (vy v =? o0 O) && (vy u =? vy (b2max a)) then None
      else if (vx v =? o0 O) && (vx u =? vx (b2max a)) then None
      else if box2_contains a (fst l) && box2_contains a (snd l) then Some l
      else
        match line_clip l (vx (b2min a)) (vx (b2max a)) with
        | None => None
        | Some x =>
            match line_clip (swap_xy x) (vy (b2min a)) (vy (b2max a)) with
            | None => None
            | Some y => Some (swap_xy y)
            end
        end.

    Definition line_filter (a : Box2) (ls : list Seg) : list Seg :=
      flat_map (fun l => match line_intersect a l with Some x => [x] | None => [] end) ls.
  End Clip.

  (* ------------------------------------------------------------ quadtree *)
  Inductive qt (A : Type) : Type :=
  | QNil : qt A
  | QLeaf (box : Box2) (center : V2) (halfSide : T) (leaf : list A) : qt A
  | QNode (box : Box2) (center : V2) (halfSide : T) (c0 c1 c2 c3 : qt A) : qt A.
  Arguments QNil {A}.
  Arguments QLeaf {A}.
  Arguments QNode {A}.

  Fixpoint qt_map {A B : Type} (f : A -> B) (t : qt A) : qt B :=
    match t with
    | QNil => QNil
    | QLeaf b c h l => QLeaf b c h (map f l)
    | QNode b c h c0 c1 c2 c3 => QNode b c h (qt_map f c0) (qt_map f c1) (qt_map f c2) (qt_map f c3)
    end.

  Fixpoint pieces {A : Type} (t : qt A) : list A :=
    match t with
    | QNil => []
    | QLeaf _ _ _ l => l
    | QNode _ _ _ c0 c1 c2 c3 => pieces c0 ++ pieces c1 ++ pieces c2 ++ pieces c3
    end.

  (* qtBuild; fuel = qtMaxLevel - level.  (convertLines is applied afterwards by qt_map.)
     `filter` = Box2.lineFilter *)
  Fixpoint qt_build_with (filter : Box2 -> list Seg -> list Seg) (fuel : nat) (box : Box2) (ls : list Seg) : qt Seg :=
    match ls with
    | [] => QNil
    | _ =>
        let hs := half * (vx (b2max box) - vx (b2min box)) in
        let c := box2_center box in
        match fuel, ls with
        | _, [_] => QLeaf box c hs ls
        | 0%nat, _ => QLeaf box c hs ls
        | S f, _ =>
            QNode box c hs
              (qt_build_with filter f (quad0 box) (filter (quad0 box) ls))
              (qt_build_with filter f (quad1 box) (filter (quad1 box) ls))
              (qt_build_with filter f (quad2 box) (filter (quad2 box) ls))
              (qt_build_with filter f (quad3 box) (filter (quad3 box) ls))
        end
    end.
  Definition qt_build (nextafter : T -> T -> T) := qt_build_with (line_filter nextafter).
  Definition qt_build_snap := qt_build_with line_filter_snap.

  Definition ord (a b c d : nat) : nat * nat * nat * nat := (a, b, c, d).
  Definition search_order (c p : V2) : nat * nat * nat * nat :=
    let p := v2sub p c in
    if vx p >=? o0 O then
      if vy p >=? o0 O then
        if vy p >=? vx p then ord 3 2 1 0 else ord 3 1 2 0
      else
        if vy p <=? - vx p then ord 1 0 3 2 else ord 1 3 0 2
    else
      if vy p >=? o0 O then
        if vy p >=? - vx p then ord 2 3 0 1 else ord 2 0 3 1
      else
        if vy p <=? vx p then ord 0 1 2 3 else ord 0 2 1 3.

  Definition min_box_dist2 (c : V2) (hs : T) (p : V2) : T :=
    let p := v2abs (v2sub p c) in
    let dx := vx p - hs in
    let dy := vy p - hs in
    if (dx <? o0 O) && (dy <? o0 O) then o0 O
    else if dy <? o0 O then dx * dx
    else if dx <? o0 O then dy * dy
    else (dx * dx) + (dy * dy).

  Definition leaf_dist2 (l : list LineInfo) (p : V2) : T :=
    fold_left (fun dd li => omin O dd (min_distance2 li p)) l (omaxf O).

  Fixpoint qt_mindist2 (t : qt LineInfo) (p : V2) (dd : T) : T :=
    match t with
    | QNil => dd
    | QLeaf _ c hs l =>
        if min_box_dist2 c hs p >=? dd then dd else omin O dd (leaf_dist2 l p)
    | QNode _ c hs c0 c1 c2 c3 =>
        if min_box_dist2 c hs p >=? dd then dd
        else
          let f := fun (i : nat) (dd : T) =>
            match i with
            | 0%nat => qt_mindist2 c0 p dd
            | 1%nat => qt_mindist2 c1 p dd
            | 2%nat => qt_mindist2 c2 p dd
            | _ => qt_mindist2 c3 p dd
            end in
          let '(i0, i1, i2, i3) := search_order c p in
          f i3 (f i2 (f i1 (f i0 dd)))
    end.

  Definition leaf_winding (l : list LineInfo) (p : V2) (wn : Z) : Z :=
    fold_left (fun w li => (w + winding li p)%Z) l wn.

  Fixpoint qt_winding (t : qt LineInfo) (p : V2) (wn : Z) : Z :=
    match t with
    | QNil => wn
    | QLeaf _ _ _ l => leaf_winding l p wn
    | QNode _ c _ c0 c1 c2 c3 =>
        let q := v2sub p c in
        if vx q <? o0 O then
          if vy q <? o0 O then qt_winding c1 p (qt_winding c0 p wn)
          else qt_winding c3 p (qt_winding c2 p wn)
        else
          if vy q <? o0 O then qt_winding c1 p wn
          else qt_winding c3 p wn
    end.

  (* MeshSDF2.Evaluate *)
  Definition eval_fast (t : qt LineInfo) (p : V2) : T :=
    let d2 := qt_mindist2 t p (omaxf O) in
    let wn := qt_winding t p 0%Z in
    let d := osqrt O d2 in
    if Z.eqb wn 0 then d else - d.

  (* MeshSDF2Slow.Evaluate *)
  Definition slow_loop (l : list LineInfo) (p : V2) : T * Z :=
    fold_left (fun (s : T * Z) li => (omin O (fst s) (min_distance2 li p), (snd s + winding li p)%Z))
              l (omaxf O, 0%Z).
  Definition eval_slow (l : list LineInfo) (p : V2) : T :=
    let '(d2, wn) := slow_loop l p in
    let d := osqrt O d2 in
    if Z.eqb wn 0 then d else - d.

  (* ------------------------------------------------------------ Mesh2D, VertexToLine *)
  Definition line_bb (l : Seg) : Box2 := box2_include (mkBox2 (fst l) (fst l)) (snd l).
  Definition mesh_bb (ls : list Seg) : Box2 :=
    match ls with
    | [] => mkBox2 v2zero v2zero
    | l0 :: _ => fold_left (fun bb e => box2_include (box2_include bb (fst e)) (snd e)) ls (line_bb l0)
    end.
  Definition qt_root_box (ls : list Seg) : Box2 :=
    box2_scale_about_center (box2_square (mesh_bb ls)) (cst 101 100).
  Definition mesh2d (nextafter : T -> T -> T) (maxlevel : nat) (ls : list Seg) : qt Seg :=
    qt_build nextafter maxlevel (qt_root_box ls) ls.
  (* Mesh2D before the repair of lineIntersect *)
  Definition mesh2d_snap (maxlevel : nat) (ls : list Seg) : qt Seg := qt_build_snap maxlevel (qt_root_box ls) ls.

  Definition v2equals (a b : V2) (tol : T) : bool :=
    (oabs O (vx a - vx b) <=? tol) && (oabs O (vy a - vy b) <=? tol).
  Fixpoint pairs (vs : list V2) : list Seg :=
    match vs with
    | a :: ((b :: _) as r) => (a, b) :: pairs r
    | _ => []
    end.
  (* VertexToLine(vertex, true): `if vertex[0] != vertex[n-1]` - the closing edge is added unless the
     last vertex IS the first one (Go's == on the two coordinates).  Before the repair (sdfx bf5538d)
     the test was vertex[0].Equals(vertex[n-1], tolerance): a last vertex within 1e-9 of the first
     left the outline open, with wrong signs level with the gap at any distance. *)
  Definition v2eqb (a b : V2) : bool := (vx a =? vx b) && (vy a =? vy b).
  Definition vertex_to_line (vs : list V2) : list Seg :=
    match vs with
    | [] | [_] => []
    | v0 :: _ => pairs (if v2eqb v0 (last vs v0) then vs else vs ++ [v0])
    end.

  (* ------------------------------------------------------------ specification (sqrt-free) *)
  (* crossing number increment of one edge, written with the cross product *)
  Definition cross_spec (l : Seg) (p : V2) : Z :=
    let c := v2cross (v2sub (snd l) (fst l)) (v2sub p (fst l)) in
    if vy (fst l) <=? vy p then
      (if (vy (snd l) >? vy p) && (c >? o0 O) then 1%Z else 0%Z)
    else
      (if (vy (snd l) <=? vy p) && (c <? o0 O) then (-1)%Z else 0%Z).
  Definition wn_spec (ls : list Seg) (p : V2) : Z :=
    fold_left (fun w l => (w + cross_spec l p)%Z) ls 0%Z.

  (* squared distance from p to the segment: projection parameter clamped to [0,1] *)
  Definition segdist2_spec (l : Seg) (p : V2) : T :=
    let v := v2sub (snd l) (fst l) in
    let w := v2sub p (fst l) in
    let c := v2dot w v in
    let vv := v2dot v v in
    if c <? o0 O then v2len2 w
    else if c >? vv then v2len2 (v2sub p (snd l))
    else let k := v2cross v w in (k * k) / vv.
  Definition dist2_spec (ls : list Seg) (p : V2) : T :=
    fold_left (fun d l => omin O d (segdist2_spec l p)) ls (omaxf O).

  (* ------------------------------------------------------------ certificate *)
  (* v2eqb: defined above (VertexToLine) *)
  Definition seg_eqb (a b : Seg) : bool := v2eqb (fst a) (fst b) && v2eqb (snd a) (snd b).

  (* c lies on the line through a and b, up to `tol` (distance, relative to nothing: absolute);
     tol = 0: exactly *)
  Definition on_line_b (tol : T) (a b c : V2) : bool :=
    let v := v2sub b a in
    let k := v2cross v (v2sub c a) in
    (k * k) <=? (tol * tol) * v2dot v v.

  Definition v2close (tol : T) (a b : V2) : bool :=
    (oabs O (vx a - vx b) <=? tol) && (oabs O (vy a - vy b) <=? tol).

  (* `cur :: rest` continues the chain of pieces of the segment (a,b); the start of `cur` has been
     checked, t0 = (start - a).(b - a).  Joints and the two original vertices are compared exactly
     (lineClip keeps end points as they are and both neighbours compute the same cut point); `tol`
     is the slack for "the joint lies on the segment". *)
  Fixpoint chain_rest (tol : T) (a b : V2) (cur : Seg) (t0 : T) (rest : list Seg) : bool :=
    match rest with
    | [] => v2eqb (snd cur) b
    | nxt :: rest' =>
        let v := v2sub b a in
        let c := snd cur in
        let t1 := v2dot (v2sub c a) v in
        (t0 <? t1) && (t1 <? v2dot v v) && on_line_b tol a b c && v2eqb (fst nxt) c &&
        chain_rest tol a b nxt t1 rest'
    end.
  Definition chain_check (tol : T) (l : Seg) (pcs : list Seg) : bool :=
    match pcs with
    | [] => false
    | pc :: rest => v2eqb (fst pc) (fst l) && chain_rest tol (fst l) (snd l) pc (o0 O) rest
    end.

  Fixpoint forall2b {A B : Type} (f : A -> B -> bool) (l : list A) (m : list B) : bool :=
    match l, m with
    | [], [] => true
    | a :: l', b :: m' => f a b && forall2b f l' m'
    | _, _ => false
    end.

  (* multiset equality by removing one occurrence at a time *)
  Fixpoint remove_one (x : Seg) (l : list Seg) : option (list Seg) :=
    match l with
    | [] => None
    | y :: r => if seg_eqb x y then Some r
                else match remove_one x r with Some r' => Some (y :: r') | None => None end
    end.
  Fixpoint perm_check (l m : list Seg) : bool :=
    match l with
    | [] => match m with [] => true | _ => false end
    | x :: r => match remove_one x m with Some m' => perm_check r m' | None => false end
    end.

  Definition seg_in (f : V2 -> bool) (l : Seg) : bool := f (fst l) && f (snd l).

  (* the pieces of each child lie on its side of the node centre: what qtNode.winding relies on *)
  Fixpoint ray_check (t : qt Seg) : bool :=
    match t with
    | QNode _ c _ c0 c1 c2 c3 =>
        forallb (seg_in (fun q => (vx q <=? vx c) && (vy q <=? vy c))) (pieces c0) &&
        forallb (seg_in (fun q => (vx c <=? vx q) && (vy q <=? vy c))) (pieces c1) &&
        forallb (seg_in (fun q => (vx q <=? vx c) && (vy c <=? vy q))) (pieces c2) &&
        forallb (seg_in (fun q => (vx c <=? vx q) && (vy c <=? vy q))) (pieces c3) &&
        ray_check c0 && ray_check c1 && ray_check c2 && ray_check c3
    | _ => true
    end.

  (* the pieces below a node lie in the square (centre, halfSide) that minBoxDist2 measures;
     slack = 0: exactly *)
  Definition in_square_b (slack : T) (c : V2) (hs : T) (q : V2) : bool :=
    (oabs O (vx q - vx c) <=? hs + slack) && (oabs O (vy q - vy c) <=? hs + slack).
  Fixpoint box_check (slack : T) (t : qt Seg) : bool :=
    match t with
    | QNil => true
    | QLeaf _ c hs l => (o0 O <=? hs) && forallb (seg_in (in_square_b slack c hs)) l
    | QNode _ c hs c0 c1 c2 c3 =>
        (o0 O <=? hs) && forallb (seg_in (in_square_b slack c hs)) (pieces t) &&
        box_check slack c0 && box_check slack c1 && box_check slack c2 && box_check slack c3
    end.

  (* each leaf piece lies in its leaf box; no horizontal piece on the top edge and no vertical
     piece on the right edge of its leaf box (those belong to the neighbour above / to the right) *)
  Definition owned_b (box : Box2) (l : Seg) : bool :=
    box2_contains box (fst l) && box2_contains box (snd l) &&
    negb ((vy (fst l) =? vy (snd l)) && (vy (fst l) =? vy (b2max box))) &&
    negb ((vx (fst l) =? vx (snd l)) && (vx (fst l) =? vx (b2max box))).
  Fixpoint owner_check (t : qt Seg) : bool :=
    match t with
    | QNil => true
    | QLeaf box _ _ l => forallb (owned_b box) l
    | QNode _ _ _ c0 c1 c2 c3 => owner_check c0 && owner_check c1 && owner_check c2 && owner_check c3
    end.

  (* the certificate: `chains` (one list of pieces per original segment) is a hint that is checked.
     winding part: all that the crossing-number walk needs; full: plus what the pruning needs. *)
  Definition nondeg_b (l : Seg) : bool :=
    let v := v2sub (snd l) (fst l) in o0 O <? v2dot v v.

  Definition winding_clipped_check (tol : T) (t : qt Seg) (segs : list Seg) (chains : list (list Seg)) : bool :=
    forall2b (chain_check tol) segs chains &&
    perm_check (pieces t) (concat chains) &&
    ray_check t && owner_check t.
  Definition well_clipped_check (tol : T) (t : qt Seg) (segs : list Seg) (chains : list (list Seg)) : bool :=
    winding_clipped_check tol t segs chains && box_check tol t && forallb nondeg_b segs.
End Poly.

Arguments QNil {O A}.
Arguments QLeaf {O A}.
Arguments QNode {O A}.
Arguments Seg : clear implicits.
Arguments LineInfo : clear implicits.
Arguments qt : clear implicits.
