(* sdf/bezier.go: BezierPolynomial (Set, f0), BezierSpline (Sample), the Bezier builder
   (Add / Mid / HandleFwd / HandleRev / Handle / Close; handles, closure, validate,
   Polygon).  The model follows the Go code statement by statement.  The pseudo-random
   perturbation `sdfRand.Float64()` is an oracle: the list of draws, consumed in order. *)
From Coq Require Import ZArith List Bool.
From Sdfx Require Import Num.Ops.
From Sdfx Require Import Geo.Vec.
From Sdfx Require Import Sdf.Build.
Import OpsNotations ListNotations.
Local Open Scope ops_scope.

Section Bezier.
  Context {O : Ops}.
  Notation T := (T O).
  Notation V2 := (V2 O).

  Definition epsilon : T := cst 1 1000000000000.       (* 1e-12 *)
  Definition tolerance : T := cst 1 1000000000.         (* 1e-9 *)
  Definition spline_tol : T := cst 2 100.               (* s.tolerance = 0.02 *)
  Definition k3 : T := ofZ O 3.
  Definition k4 : T := ofZ O 4.
  Definition k6 : T := ofZ O 6.
  Definition k12 : T := ofZ O 12.

  (* ---- BezierPolynomial *)
  Record BPoly := mkBP { bp_n : nat; bp_a : T; bp_b : T; bp_c : T; bp_d : T; bp_e : T }.

  (* f0; orders above 4 panic in Go and are never constructed (Set panics first) *)
  Definition bp_f0 (p : BPoly) (t : T) : T :=
    match bp_n p with
    | 0%nat => bp_a p
    | 1%nat => bp_a p + t * bp_b p
    | 2%nat => bp_a p + t * (bp_b p + t * bp_c p)
    | 3%nat => bp_a p + t * (bp_b p + t * (bp_c p + t * bp_d p))
    | _ => bp_a p + t * (bp_b p + t * (bp_c p + t * (bp_d p + t * bp_e p)))
    end.

  (* the coefficient assignments of Set, before the small coefficients are zeroed *)
  Definition bp_raw (x : list T) : option BPoly :=
    let z := o0 O in
    match x with
    | [x0] => Some (mkBP 0 x0 z z z z)
    | [x0; x1] => Some (mkBP 1 x0 (- x0 + x1) z z z)
    | [x0; x1; x2] => Some (mkBP 2 x0 (- two * x0 + two * x1) (x0 - two * x1 + x2) z z)
    | [x0; x1; x2; x3] =>
        Some (mkBP 3 x0 (- k3 * x0 + k3 * x1) (k3 * x0 - k6 * x1 + k3 * x2) (- x0 + k3 * x1 - k3 * x2 + x3) z)
    | [x0; x1; x2; x3; x4] =>
        Some (mkBP 4 x0 (- k4 * x0 + k4 * x1) (k6 * x0 - k12 * x1 + k6 * x2)
                   (- k4 * x0 + k12 * x1 - k12 * x2 + k4 * x3)
                   (x0 - k4 * x1 + k6 * x2 - k4 * x3 + x4))
    | _ => None                                          (* log.Panicf("bad polynomial order") *)
    end.

  (* sdf.ZeroSmall *)
  Definition zero_small (x y eps : T) : T := if oabs O x / y <? eps then o0 O else x.

  Definition bp_sum (p : BPoly) : T :=
    oabs O (bp_a p) + oabs O (bp_b p) + oabs O (bp_c p) + oabs O (bp_d p) + oabs O (bp_e p).
  Definition bp_zero (p : BPoly) : BPoly :=
    let sum := bp_sum p in
    mkBP (bp_n p) (zero_small (bp_a p) sum epsilon) (zero_small (bp_b p) sum epsilon)
         (zero_small (bp_c p) sum epsilon) (zero_small (bp_d p) sum epsilon) (zero_small (bp_e p) sum epsilon).
  Definition is0 (x : T) : bool := x =? o0 O.
  (* reduce the polynomial to the lowest order *)
  Definition bp_reduce (p : BPoly) : BPoly :=
    let n := bp_n p in
    let n := if Nat.eqb n 4 && is0 (bp_e p) then 3%nat else n in
    let n := if Nat.eqb n 3 && is0 (bp_d p) then 2%nat else n in
    let n := if Nat.eqb n 2 && is0 (bp_c p) then 1%nat else n in
    let n := if Nat.eqb n 1 && is0 (bp_b p) then 0%nat else n in
    mkBP n (bp_a p) (bp_b p) (bp_c p) (bp_d p) (bp_e p).
  Definition bp_set (x : list T) : option BPoly :=
    match bp_raw x with
    | None => None
    | Some p => Some (bp_reduce (bp_zero p))
    end.

  (* ---- BezierSpline *)
  Record Spline := mkSpline { sp_tol : T; sp_x : BPoly; sp_y : BPoly }.
  Definition sp_f0 (s : Spline) (t : T) : V2 := mkV2 (bp_f0 (sp_x s) t) (bp_f0 (sp_y s) t).
  Definition new_spline (p : list V2) : option Spline :=
    match bp_set (map vx p), bp_set (map vy p) with
    | Some px, Some py => Some (mkSpline spline_tol px py)
    | _, _ => None
    end.

  Definition colinear_slow (a b c : V2) (tol : T) : bool :=
    let pa := v2normalize (v2sub a c) in
    let pb := v2normalize (v2sub b c) in
    oabs O (v2cross pa pb) <? tol.

  Definition draw (rs : list T) : T * list T :=
    match rs with [] => (o0 O, []) | r :: rs' => (r, rs') end.

  (* the perturbed parameter: k := 0.45 + 0.1*rand; t2 := t0 + k*(t1-t0) *)
  Definition perturbed (t0 t1 r : T) : T := t0 + (cst 45 100 + cst 1 10 * r) * (t1 - t0).

  (* is the span flat?  (the draw is consumed only when the midpoint test passes) *)
  Definition flat_test (s : Spline) (t0 t1 : T) (p0 p1 : V2) (rs : list T) : bool * list T :=
    let tmid := (t0 + t1) / two in
    if colinear_slow (sp_f0 s tmid) p0 p1 (sp_tol s) then
      let '(r, rs') := draw rs in
      (colinear_slow (sp_f0 s (perturbed t0 t1 r)) p0 p1 (sp_tol s), rs')
    else (false, rs).

  (* Sample(p, t0, t1, p0, p1, n): the vertices appended to p and the remaining draws.
     d = 9 - n is the remaining recursion depth (`n > 8` is d = 0). *)
  Definition emit (t0 : T) (p0 p1 : V2) : list V2 := (if t0 =? o0 O then [p0] else []) ++ [p1].
  Fixpoint sample (d : nat) (s : Spline) (t0 t1 : T) (p0 p1 : V2) (rs : list T) : list V2 * list T :=
    let '(flat, rs1) := flat_test s t0 t1 p0 p1 rs in
    if flat then (emit t0 p0 p1, rs1) else
    match d with
    | 0%nat => (emit t0 p0 p1, rs1)                (* recursion limit *)
    | S d' =>
      let tmid := (t0 + t1) / two in
      let pmid := sp_f0 s tmid in
      let '(l1, rs2) := sample d' s t0 tmid p0 pmid rs1 in
      let '(l2, rs3) := sample d' s tmid t1 pmid p1 rs2 in
      (l1 ++ l2, rs3)
    end.
  Definition max_depth : nat := 9.

  (* ---- the builder *)
  Record BV := mkBV { bv_mid : bool; bv_v : V2; bv_fwd : V2; bv_rev : V2 }.
  Inductive bop := BMid | BHandleFwd (theta r : T) | BHandleRev (theta r : T) | BHandle (theta fwd rev : T).
  (* None = log.Panicf("can't place a handle on a curve midpoint") *)
  Definition handle_fwd (theta r : T) (v : BV) : option BV :=
    if bv_mid v then None else Some (mkBV (bv_mid v) (bv_v v) (mkV2 (oabs O r) theta) (bv_rev v)).
  Definition handle_rev (theta r : T) (v : BV) : option BV :=
    if bv_mid v then None else Some (mkBV (bv_mid v) (bv_v v) (bv_fwd v) (mkV2 (oabs O r) theta)).
  Definition apply_bop (v : option BV) (o : bop) : option BV :=
    match v with
    | None => None
    | Some v =>
      match o with
      | BMid => Some (mkBV true (bv_v v) (bv_fwd v) (bv_rev v))
      | BHandleFwd th r => handle_fwd th r v
      | BHandleRev th r => handle_rev th r v
      | BHandle th f r =>
          match handle_fwd th f v with None => None | Some v' => handle_rev (th + opi O) r v' end
      end
    end.
  Definition add_bvertex (x y : T) (ops : list bop) : option BV :=
    fold_left apply_bop ops (Some (mkBV false (mkV2 x y) v2zero v2zero)).

  (* handles(): control midpoints from the polar handles, leading midpoints moved to the end *)
  Definition control (h v : V2) : BV := mkBV true (v2add (p2_to_v2 (vx h) (vy h)) v) v2zero v2zero.
  Definition expand (v : BV) : list BV :=
    (if ne0 (vx (bv_rev v)) then [control (bv_rev v) (bv_v v)] else [])
    ++ [mkBV (bv_mid v) (bv_v v) v2zero v2zero]
    ++ (if ne0 (vx (bv_fwd v)) then [control (bv_fwd v) (bv_v v)] else []).
  (* `for i = range vlist { if endpoint { break } }`: the last index when there is none *)
  Fixpoint first_endpoint (l : list BV) (i : nat) : nat :=
    match l with
    | [] => (i - 1)%nat
    | v :: r => if bv_mid v then first_endpoint r (S i) else i
    end.
  Definition handles (l : list BV) : list BV :=
    let vl := flat_map expand l in
    let i := first_endpoint vl 0 in
    if Nat.eqb i 0 then vl else skipn i vl ++ firstn i vl.

  Definition v2equals (a b : V2) (tol : T) : bool :=
    (oabs O (vx a - vx b) <=? tol) && (oabs O (vy a - vy b) <=? tol).

  (* closure(): None = error *)
  Definition closure (closed : bool) (l : list BV) : option (list BV) :=
    if negb closed then Some l else
    match l with
    | [] | [_] => None
    | first :: _ =>
      let lst := last l first in
      if bv_mid first then None else
      if negb (bv_mid lst) then
        (if negb (v2equals (bv_v lst) (bv_v first) tolerance) then Some (l ++ [first]) else Some l)
      else Some (l ++ [first])
    end.
  Definition validate (closed : bool) (l : list BV) : bool :=
    match l with
    | [] | [_] => false
    | first :: _ =>
      if bv_mid first then false else
      if negb closed && bv_mid (last l first) then false else true
    end.
  Definition bfixups (closed : bool) (l : list BV) : option (list BV) :=
    match closure closed (handles l) with
    | None => None
    | Some l' => if validate closed l' then Some l' else None
    end.

  (* the endpoint/midpoint state machine of Polygon(): control-point lists of the splines.
     state endpoint: `cur = None`;  state midpoint: `cur = Some vertices (reversed)`.
     Result None = error "bad vertex type". *)
  Fixpoint split (fuel : nat) (l : list BV) (cur : option (list V2)) (acc : list (list V2))
    : option (list (list V2)) :=
    match fuel with
    | 0%nat => Some (rev acc)
    | S f =>
      match l with
      | [] => Some (rev acc)
      | v :: r =>
        match cur with
        | None => if bv_mid v then None else split f r (Some [bv_v v]) acc
        | Some vs =>
          if bv_mid v then split f r (Some (bv_v v :: vs)) acc
          else
            let acc' := rev (bv_v v :: vs) :: acc in
            match r with
            | [] => Some (rev acc')                (* i == n-1: end of the list *)
            | _ => split f l None acc'             (* this endpoint starts the next spline *)
            end
        end
      end
    end.
  Definition split_splines (l : list BV) : option (list (list V2)) := split (2 * length l + 2) l None [].

  (* render: the splines that are a point are filtered out; Sample each remaining one;
     Drop() after all but the last *)
  Definition is_point (s : Spline) : bool := Nat.eqb (bp_n (sp_x s)) 0 && Nat.eqb (bp_n (sp_y s)) 0.
  Definition curves (ss : list Spline) : list Spline := filter (fun s => negb (is_point s)) ss.
  Definition sample01 (s : Spline) (rs : list T) : list V2 * list T :=
    sample max_depth s (o0 O) (o1 O) (sp_f0 s (o0 O)) (sp_f0 s (o1 O)) rs.
  Fixpoint render (ss : list Spline) (p : list V2) (rs : list T) : list V2 * list T :=
    match ss with
    | [] => (p, rs)
    | s :: r =>
      let '(vs, rs') := sample01 s rs in
      let p' := p ++ vs in
      match r with
      | [] => (p', rs')
      | _ => render r (removelast p') rs'
      end
    end.

  Fixpoint all_some {A : Type} (l : list (option A)) : option (list A) :=
    match l with
    | [] => Some []
    | None :: _ => None
    | Some a :: r => match all_some r with None => None | Some r' => Some (a :: r') end
    end.

  (* outcome of Bezier.Polygon() followed by Polygon.Vertices() *)
  Inductive outcome := Panic | Error | Verts (vs : list V2).
  Definition bezier_polygon (closed : bool) (l : list BV) (rs : list T) : outcome :=
    match bfixups closed l with
    | None => Error
    | Some l' =>
      match split_splines l' with
      | None => Error
      | Some cps =>
        match all_some (map new_spline cps) with
        | None => Panic
        | Some ss => Verts (fst (render (curves ss) [] rs))
        end
      end
    end.
End Bezier.

Arguments BPoly : clear implicits.
Arguments mkBP {O}.
Arguments Spline : clear implicits.
Arguments mkSpline {O}.
Arguments BV : clear implicits.
Arguments mkBV {O}.
Arguments bop : clear implicits.
Arguments outcome : clear implicits.
