(* UnionSDF2: the bounding-box pruned Evaluate equals EvaluateSlow (plain minimum),
   for every operand list, under the two facts pruning relies on. *)
From Coq Require Import Reals Lra Lia List Bool ZArith Arith.
From Sdfx Require Import Num.Ops Num.RInst Geo.Vec Geo.Box Geo.MinMaxR Sdf.Union2.
Import ListNotations.
Open Scope R_scope.

Notation IV := (Interval ROps).
Definition d0 : IV := (0, 0).

(* what is known about an operand at the query point p:
   v = [lo, hi] squared distance interval from p to the operand's box, x = its value at p *)
Definition iv_ok (o : IV * R) : Prop := 0 <= fst (fst o) <= snd (fst o).
(* the box encloses the solid and the value is at least the distance to the box (C01 + lower bound) *)
Definition lower_ok (o : IV * R) : Prop :=
  let '((lo, hi), x) := o in (x <= 0 -> lo = 0) /\ (0 <= x -> lo <= x * x).
(* the operand has a point of its solid in its box and is 1-Lipschitz *)
Definition upper_ok (o : IV * R) : Prop :=
  let '((lo, hi), x) := o in x <= 0 \/ x * x <= hi.

(* ---- min_index *)
Lemma min_index_spec (vs pre : list IV) md mi0 :
  (forall v, In v (pre ++ vs) -> 0 <= fst v) ->
  ((pre = [] /\ md < 0) \/
   ((mi0 < length pre)%nat /\ md = fst (nth mi0 pre d0) /\ forall v, In v pre -> md <= fst v)) ->
  pre ++ vs <> [] ->
  let r := @min_index ROps vs (length pre) md mi0 in
  (snd r < length (pre ++ vs))%nat /\ fst r = fst (nth (snd r) (pre ++ vs) d0) /\
  forall v, In v (pre ++ vs) -> fst r <= fst v.
Proof.
  revert pre md mi0. induction vs as [|v r IH]; intros pre md mi0 Hpos Hinv Hne.
  - cbn [min_index fst snd]. rewrite app_nil_r in *. destruct Hinv as [[-> _]|(H1 & H2 & H3)]; [congruence|].
    auto.
  - cbn [min_index]. change (oltb ROps) with Rltb. change (o0 ROps) with 0.
    replace (pre ++ v :: r) with ((pre ++ [v]) ++ r) in * by (rewrite <- app_assoc; reflexivity).
    assert (Hl : S (length pre) = length (pre ++ [v])) by (rewrite app_length; cbn; lia).
    destruct (Rltb md 0 || Rltb (fst v) md) eqn:E.
    + rewrite Hl. apply IH; [exact Hpos | | exact Hne].
      right. split; [rewrite app_length; cbn; lia|]. split.
        { rewrite app_nth2 by lia. rewrite Nat.sub_diag. reflexivity. }
        { intros u Hu. apply in_app_or in Hu. destruct Hu as [Hu|[<-|[]]]; [|lra].
          destruct Hinv as [[-> _]|(H1 & H2 & H3)]; [destruct Hu|].
          apply orb_true_iff in E. destruct E as [E|E]; [apply Rltb_true in E | apply Rltb_true in E].
          - specialize (H3 _ Hu). assert (0 <= fst (nth mi0 pre d0)).
            { apply Hpos. apply in_or_app; left. apply in_or_app; left. apply nth_In; lia. } lra.
          - specialize (H3 _ Hu). lra. }
    + apply orb_false_iff in E. destruct E as [E1 E2]. apply Rltb_false in E1, E2.
      rewrite Hl. apply IH; [exact Hpos | | exact Hne].
      right. destruct Hinv as [[_ ?]|(H1 & H2 & H3)]; [lra|].
        split; [rewrite app_length; cbn; lia|]. split.
        { rewrite app_nth1 by lia. exact H2. }
        { intros u Hu. apply in_app_or in Hu. destruct Hu as [Hu|[<-|[]]]; [auto | lra]. }
Qed.

(* ---- the two loops as minima of lists *)
Definition keepf (vm : IV) (mi i : nat) (v : IV) : bool := Nat.eqb i mi || @iv_overlap ROps vm v.
Fixpoint kept (vm : IV) (mi : nat) (ops : list (IV * R)) (i : nat) : list R :=
  match ops with
  | [] => []
  | (v, x) :: r => if keepf vm mi i v then x :: kept vm mi r (S i) else kept vm mi r (S i)
  end.

Lemma prune_loop_kept minf vm mi ops i first d :
  @prune_loop ROps minf vm mi ops i first d = @slow_loop ROps minf (kept vm mi ops i) first d.
Proof.
  revert i first d. induction ops as [|[v x] r IH]; intros; cbn [prune_loop kept]; [reflexivity|].
  unfold keepf. destruct (Nat.eqb i mi || iv_overlap vm v); cbn [slow_loop]; apply IH.
Qed.

Lemma slow_loop_false l d : @slow_loop ROps Rmin l false d = lmin d l.
Proof. revert d; induction l as [|x l IH]; intros; cbn; [reflexivity | apply IH]. Qed.
Lemma slow_loop_true x l : @slow_loop ROps Rmin (x :: l) true 0 = lmin x l.
Proof. cbn. apply slow_loop_false. Qed.

Lemma lmin_le x l : lmin x l <= x /\ forall y, In y l -> lmin x l <= y.
Proof.
  revert x; induction l as [|z l IH]; intros x; cbn [lmin]; [split; [lra | intros y []]|].
  destruct (IH (Rmin x z)) as [H1 H2]. pose proof (Rmin_l x z). pose proof (Rmin_r x z).
  split; [lra|]. intros y [<-|Hy]; [lra | auto].
Qed.
Lemma lmin_in x l : lmin x l = x \/ In (lmin x l) l.
Proof.
  revert x; induction l as [|z l IH]; intros x; cbn [lmin]; [now left|].
  destruct (IH (Rmin x z)) as [H|H]; [|right; now right].
  rewrite H. unfold Rmin; destruct (Rle_dec x z); [now left | right; now left].
Qed.

(* equality of the minima of two non-empty lists *)
Lemma lmin_eq a l b m (xm : R) :
  (forall y, In y (b :: m) -> In y (a :: l)) ->
  In xm (b :: m) ->
  (forall y, In y (a :: l) -> In y (b :: m) \/ xm <= y) ->
  lmin a l = lmin b m.
Proof.
  intros Hsub Hxm Hdrop.
  destruct (lmin_le a l) as [A1 A2]. destruct (lmin_le b m) as [B1 B2].
  assert (LA : forall y, In y (a :: l) -> lmin a l <= y) by (intros y [<-|Hy]; auto).
  assert (LB : forall y, In y (b :: m) -> lmin b m <= y) by (intros y [<-|Hy]; auto).
  assert (IA : In (lmin a l) (a :: l)) by (destruct (lmin_in a l) as [->|H]; [now left | now right]).
  assert (IB : In (lmin b m) (b :: m)) by (destruct (lmin_in b m) as [->|H]; [now left | now right]).
  apply Rle_antisym.
  - apply LA, Hsub, IB.
  - destruct (Hdrop _ IA) as [H|H]; [now apply LB|]. specialize (LB _ Hxm). lra.
Qed.

(* ---- kept / dropped elements *)
Lemma kept_sub vm mi ops i y : In y (kept vm mi ops i) -> In y (map snd ops).
Proof.
  revert i; induction ops as [|[v x] r IH]; intros i; cbn [kept map snd]; [auto|].
  destruct (keepf vm mi i v); [intros [<-|H]; [now left | right; eauto] | intros H; right; eauto].
Qed.

Lemma kept_or_dropped vm mi ops i v x :
  In (v, x) ops -> In x (kept vm mi ops i) \/ @iv_overlap ROps vm v = false.
Proof.
  revert i; induction ops as [|[v' x'] r IH]; intros i; cbn [kept]; [intros []|].
  intros [[= -> ->]|H].
  - unfold keepf. destruct (iv_overlap vm v) eqn:E; [|now right]. rewrite orb_true_r. left; now left.
  - destruct (IH (S i) H) as [H'|H']; [|now right]. left. destruct (keepf vm mi i v'); [now right | exact H'].
Qed.

Lemma kept_has_mi vm mi (pre ops : list (IV * R)) :
  (mi >= length pre)%nat -> (mi < length pre + length ops)%nat ->
  In (snd (nth (mi - length pre) ops (d0, 0))) (kept vm mi ops (length pre)).
Proof.
  revert pre. induction ops as [|[v x] r IH]; intros pre H1 H2; cbn [length] in *; [lia|].
  cbn [kept]. unfold keepf. destruct (Nat.eqb (length pre) mi) eqn:E.
  - apply Nat.eqb_eq in E. rewrite E, Nat.sub_diag. cbn. now left.
  - apply Nat.eqb_neq in E. cbn [orb].
    assert (Hm : (mi - length pre = S (mi - length (pre ++ [(v, x)])))%nat) by (rewrite app_length; cbn; lia).
    rewrite Hm. cbn [nth].
    assert (Hl : S (length pre) = length (pre ++ [(v, x)])) by (rewrite app_length; cbn; lia).
    rewrite Hl. destruct (iv_overlap vm v); [right|]; apply IH; rewrite app_length; cbn; lia.
Qed.

Lemma evaluate_slow_lmin ops op1 rest : ops = op1 :: rest ->
  @evaluate_slow ROps Rmin ops = lmin (snd op1) (map snd rest).
Proof. intros ->. unfold evaluate_slow. cbn [map]. apply slow_loop_true. Qed.

(* ---- main theorem *)
Theorem union_prune_eq (ops : list (IV * R)) :
  ops <> [] ->
  Forall iv_ok ops -> Forall lower_ok ops -> Forall upper_ok ops ->
  @evaluate ROps false Rmin ops = @evaluate_slow ROps Rmin ops.
Proof.
  intros Hne Hiv Hlo Hup. unfold evaluate.
  destruct ops as [|op1 rest] eqn:Eops; [congruence|]. rewrite <- Eops in *.
  pose proof (min_index_spec (map fst ops) [] (-1) 0%nat) as S.
  cbn [app length] in S.
  change (@min_index ROps (map fst ops) 0 (oneg ROps (o1 ROps)) 0%nat) with (@min_index ROps (map fst ops) 0 (-1) 0%nat).
  destruct (@min_index ROps (map fst ops) 0 (-1) 0%nat) as [md mi] eqn:Emi. cbn [fst snd] in S.
  destruct S as (Hlt & Hmd & Hmin).
  { intros v Hv. apply in_map_iff in Hv. destruct Hv as ([v' x] & <- & Hin). cbn.
    rewrite Forall_forall in Hiv. specialize (Hiv _ Hin). unfold iv_ok in Hiv; cbn in Hiv. lra. }
  { left; split; [reflexivity | lra]. }
  { rewrite Eops; discriminate. }
  rewrite map_length in Hlt.
  rewrite prune_loop_kept.
  set (vm := nth mi (map fst ops) (o0 ROps, o0 ROps)).
  assert (Hvm : vm = fst (nth mi ops (d0, 0))).
  { unfold vm. change (o0 ROps, o0 ROps) with (fst (d0, 0)). apply map_nth. }
  set (om := nth mi ops (d0, 0)) in *.
  assert (Hom : In om ops) by (apply nth_In; exact Hlt).
  pose proof (kept_has_mi vm mi [] ops) as Hk. cbn [length] in Hk. rewrite Nat.sub_0_r in Hk.
  specialize (Hk ltac:(lia) ltac:(lia)). fold om in Hk.
  change (kept (nth mi (map fst ops) (o0 ROps, o0 ROps)) mi ops 0) with (kept vm mi ops 0).
  destruct (kept vm mi ops 0) as [|k ks] eqn:Ek; [destruct Hk|].
  assert (Hms : map snd ops = snd op1 :: map snd rest) by (rewrite Eops; reflexivity).
  rewrite (evaluate_slow_lmin ops op1 rest Eops). change (o0 ROps) with 0. rewrite slow_loop_true.
  symmetry. apply lmin_eq with (xm := snd om).
  - intros y Hy. rewrite <- Ek in Hy. apply kept_sub in Hy. rewrite Eops in Hy. exact Hy.
  - exact Hk.
  - intros y Hy0. assert (Hy : In y (map snd ops)) by (rewrite Eops; exact Hy0).
    apply in_map_iff in Hy. destruct Hy as ([v x] & <- & Hin). cbn [snd].
    destruct (kept_or_dropped vm mi ops 0 v x Hin) as [H|H]; [left; rewrite <- Ek; exact H|].
    right.
    (* dropped: v does not overlap vm, so lo_v > hi_m *)
    rewrite Forall_forall in Hiv, Hlo, Hup.
    pose proof (Hiv _ Hin) as I1. pose proof (Hiv _ Hom) as I2.
    pose proof (Hlo _ Hin) as L1. pose proof (Hup _ Hom) as U2.
    assert (Hle : fst vm <= fst v).
    { rewrite Hvm. unfold vm in *. rewrite Hmd in Hmin.
      replace (fst (fst om)) with (fst (nth mi (map fst ops) d0)).
      - apply Hmin. apply in_map_iff. exists (v, x). auto.
      - change d0 with (fst (d0, 0)). rewrite map_nth. reflexivity. }
    destruct om as [[lom him] xm'] eqn:Eom. destruct v as [lo hi].
    rewrite Hvm in H, Hle. cbn [fst snd] in *. unfold iv_ok, lower_ok, upper_ok in *; cbn [fst snd] in *.
    unfold iv_overlap in H; cbn [fst snd] in H. change (oleb ROps) with Rleb in H.
    apply andb_false_iff in H. destruct H as [H|H]; apply Rleb_false in H; [|lra].
    destruct L1 as [L1a L1b].
    destruct (Rle_dec x 0) as [Hx|Hx]; [specialize (L1a Hx); lra|].
    assert (Hx' : 0 <= x) by lra. specialize (L1b Hx').
    destruct U2 as [U2|U2]; [lra|]. nra.
Qed.

(* ---- blends: the repaired Evaluate does not prune *)
Theorem union_blend_eq minf (ops : list (IV * R)) :
  @evaluate ROps true minf ops = @evaluate_slow ROps minf ops.
Proof. reflexivity. Qed.
