(* UnionSDF2: the bounding-box pruned Evaluate equals EvaluateSlow (plain minimum),
   for every operand list, under the two facts pruning relies on. *)
From Coq Require Import Reals Lra Lia List Bool ZArith Arith.
From Sdfx Require Import Num.Ops Num.RInst Geo.Vec Geo.Box Geo.MinMaxR Sdf.Union2.
Import ListNotations.
Open Scope R_scope.

Notation IV := (Interval ROps).
Definition d0 : IV := (0, 0).

(* what is known about an operand at the query point p:
   v = [lo, hi] squared distance interval from p to the operand's box, x = its value at p *)
Definition iv_ok (o : IV * R) : Prop := 0 <= fst (fst o) <= snd (fst o).
(* the box encloses the solid and the value is at least the distance to the box (C01 + lower bound) *)
Definition lower_ok (o : IV * R) : Prop :=
  let '((lo, hi), x) := o in (x <= 0 -> lo = 0) /\ (0 <= x -> lo <= x * x).
(* the operand has a point of its solid in its box and is 1-Lipschitz *)
Definition upper_ok (o : IV * R) : Prop :=
  let '((lo, hi), x) := o in x <= 0 \/ x * x <= hi.

(* ---- min_index *)
Lemma min_index_spec (vs pre : list IV) md mi0 :
  (forall v, In v (pre ++ vs) -> 0 <= fst v) ->
  ((pre = [] /\ md < 0) \/
   ((mi0 < length pre)%nat /\ md = fst (nth mi0 pre d0) /\ forall v, In v pre -> md <= fst v)) ->
  pre ++ vs <> [] ->
  let r := @min_index ROps vs (length pre) md mi0 in
  (snd r < length (pre ++ vs))%nat /\ fst r = fst (nth (snd r) (pre ++ vs) d0) /\
  forall v, In v (pre ++ vs) -> fst r <= fst v.
Proof.
  revert pre md mi0. induction vs as [|v r IH]; intros pre md mi0 Hpos Hinv Hne.
  - cbn [min_index fst snd]. rewrite app_nil_r in *. destruct Hinv as [[-> _]|(H1 & H2 & H3)]; [congruence|].
    auto.
  - cbn [min_index]. change (oltb ROps) with Rltb. change (o0 ROps) with 0.
    replace (pre ++ v :: r) with ((pre ++ [v]) ++ r) in * by (rewrite <- app_assoc; reflexivity).
    assert (Hl : S (length pre) = length (pre ++ [v])) by (rewrite app_length; cbn; lia).
    destruct (Rltb md 0 || Rltb (fst v) md) eqn:E.
    + rewrite Hl. apply IH; [exact Hpos | | exact Hne].
      right. split; [rewrite app_length; cbn; lia|]. split.
        { rewrite app_nth2 by lia. rewrite Nat.sub_diag. reflexivity. }
        { intros u Hu. apply in_app_or in Hu. destruct Hu as [Hu|[<-|[]]]; [|lra].
          destruct Hinv as [[-> _]|(H1 & H2 & H3)]; [destruct Hu|].
          apply orb_true_iff in E. destruct E as [E|E]; [apply Rltb_true in E | apply Rltb_true in E].
          - specialize (H3 _ Hu). assert (0 <= fst (nth mi0 pre d0)).
            { apply Hpos. apply in_or_app; left. apply in_or_app; left. apply nth_In; lia. } lra.
          - specialize (H3 _ Hu). lra. }
    + apply orb_false_iff in E. destruct E as [E1 E2]. apply Rltb_false in E1, E2.
      rewrite Hl. apply IH; [exact Hpos | | exact Hne].
      right. destruct Hinv as [[_ ?]|(H1 & H2 & H3)]; [lra|].
        split; [rewrite app_length; cbn; lia|]. split.
        { rewrite app_nth1 by lia. exact H2. }
        { intros u Hu. apply in_app_or in Hu. destruct Hu as [Hu|[<-|[]]]; [auto | lra]. }
Qed.

(* ---- the two loops as minima of lists *)
Definition keepf (b : R) (mi i : nat) (v : IV) : bool := negb (Nat.eqb i mi) && Rleb (fst v) b.
Fixpoint kept (b : R) (mi : nat) (ops : list (IV * R)) (i : nat) : list R :=
  match ops with
  | [] => []
  | (v, x) :: r => if keepf b mi i v then x :: kept b mi r (S i) else kept b mi r (S i)
  end.

Lemma prune_loop_kept b mi ops i d :
  @prune_loop ROps Rmin b mi ops i d = lmin d (kept b mi ops i).
Proof.
  revert i d. induction ops as [|[v x] r IH]; intros; cbn [prune_loop kept lmin]; [reflexivity|].
  unfold keepf. change (oleb ROps (fst v) b) with (Rleb (fst v) b).
  destruct (negb (Nat.eqb i mi) && Rleb (fst v) b); cbn [lmin]; apply IH.
Qed.

Lemma slow_loop_false l d : @slow_loop ROps Rmin l false d = lmin d l.
Proof. revert d; induction l as [|x l IH]; intros; cbn; [reflexivity | apply IH]. Qed.
Lemma slow_loop_true x l : @slow_loop ROps Rmin (x :: l) true 0 = lmin x l.
Proof. cbn. apply slow_loop_false. Qed.

Lemma lmin_le x l : lmin x l <= x /\ forall y, In y l -> lmin x l <= y.
Proof.
  revert x; induction l as [|z l IH]; intros x; cbn [lmin]; [split; [lra | intros y []]|].
  destruct (IH (Rmin x z)) as [H1 H2]. pose proof (Rmin_l x z). pose proof (Rmin_r x z).
  split; [lra|]. intros y [<-|Hy]; [lra | auto].
Qed.
Lemma lmin_in x l : lmin x l = x \/ In (lmin x l) l.
Proof.
  revert x; induction l as [|z l IH]; intros x; cbn [lmin]; [now left|].
  destruct (IH (Rmin x z)) as [H|H]; [|right; now right].
  rewrite H. unfold Rmin; destruct (Rle_dec x z); [now left | right; now left].
Qed.

(* equality of the minima of two non-empty lists *)
Lemma lmin_eq a l b m (xm : R) :
  (forall y, In y (b :: m) -> In y (a :: l)) ->
  In xm (b :: m) ->
  (forall y, In y (a :: l) -> In y (b :: m) \/ xm <= y) ->
  lmin a l = lmin b m.
Proof.
  intros Hsub Hxm Hdrop.
  destruct (lmin_le a l) as [A1 A2]. destruct (lmin_le b m) as [B1 B2].
  assert (LA : forall y, In y (a :: l) -> lmin a l <= y) by (intros y [<-|Hy]; auto).
  assert (LB : forall y, In y (b :: m) -> lmin b m <= y) by (intros y [<-|Hy]; auto).
  assert (IA : In (lmin a l) (a :: l)) by (destruct (lmin_in a l) as [->|H]; [now left | now right]).
  assert (IB : In (lmin b m) (b :: m)) by (destruct (lmin_in b m) as [->|H]; [now left | now right]).
  apply Rle_antisym.
  - apply LA, Hsub, IB.
  - destruct (Hdrop _ IA) as [H|H]; [now apply LB|]. specialize (LB _ Hxm). lra.
Qed.

(* ---- kept / dropped elements *)
Lemma kept_sub b mi ops i y : In y (kept b mi ops i) -> In y (map snd ops).
Proof.
  revert i; induction ops as [|[v x] r IH]; intros i; cbn [kept map snd]; [auto|].
  destruct (keepf b mi i v); [intros [<-|H]; [now left | right; eauto] | intros H; right; eauto].
Qed.

(* the operand at position j is the minimum-index operand, or it is folded in, or its box is beyond the bound *)
Lemma kept_nth b mi (ops : list (IV * R)) i j : (j < length ops)%nat ->
  (i + j = mi)%nat \/ In (snd (nth j ops (d0, 0))) (kept b mi ops i) \/
  Rleb (fst (fst (nth j ops (d0, 0)))) b = false.
Proof.
  revert i j; induction ops as [|[v x] r IH]; intros i j Hj; cbn [length] in Hj; [lia|].
  destruct j as [|j']; cbn [nth kept snd fst].
  - unfold keepf. destruct (Nat.eqb i mi) eqn:E; cbn [negb andb].
    + left. apply Nat.eqb_eq in E. lia.
    + destruct (Rleb (fst v) b) eqn:E2; [right; left; now left | right; now right].
  - destruct (IH (S i) j' ltac:(lia)) as [H|[H|H]].
    + left; lia.
    + right; left. destruct (keepf b mi i v); [now right | exact H].
    + right; now right.
Qed.

Lemma evaluate_slow_lmin ops op1 rest : ops = op1 :: rest ->
  @evaluate_slow ROps Rmin ops = lmin (snd op1) (map snd rest).
Proof. intros ->. unfold evaluate_slow. cbn [map]. apply slow_loop_true. Qed.

(* ---- main theorem: only the lower bound (C01: value >= distance to the own box) is needed *)
Theorem union_prune_eq_strong (ops : list (IV * R)) :
  ops <> [] -> Forall iv_ok ops -> Forall lower_ok ops ->
  @evaluate ROps false Rmin ops = @evaluate_slow ROps Rmin ops.
Proof.
  intros Hne Hiv Hlo. unfold evaluate.
  destruct ops as [|op1 rest] eqn:Eops; [congruence|]. rewrite <- Eops in *.
  pose proof (min_index_spec (map fst ops) [] (-1) 0%nat) as S.
  cbn [app length] in S.
  change (@min_index ROps (map fst ops) 0 (oneg ROps (o1 ROps)) 0%nat) with (@min_index ROps (map fst ops) 0 (-1) 0%nat).
  destruct (@min_index ROps (map fst ops) 0 (-1) 0%nat) as [md mi] eqn:Emi. cbn [fst snd] in S.
  destruct S as (Hlt & Hmd & Hmin).
  { intros v Hv. apply in_map_iff in Hv. destruct Hv as ([v' x] & <- & Hin). cbn.
    rewrite Forall_forall in Hiv. specialize (Hiv _ Hin). unfold iv_ok in Hiv; cbn in Hiv. lra. }
  { left; split; [reflexivity | lra]. }
  { rewrite Eops; discriminate. }
  rewrite map_length in Hlt.
  change (o0 ROps) with 0. change (omul ROps) with Rmult.
  match goal with |- context [nth mi ops ?dflt] => set (om := nth mi ops dflt) in * end. set (dm := snd om).
  rewrite prune_loop_kept.
  rewrite (evaluate_slow_lmin ops op1 rest Eops).
  assert (Hom : In om ops) by (apply nth_In; exact Hlt).
  assert (Eom : om = nth mi ops (d0, 0)) by reflexivity.
  symmetry. apply lmin_eq with (xm := dm).
  - intros y [<-|Hy].
    + assert (X : In dm (map snd ops)) by (apply in_map; exact Hom). rewrite Eops in X. exact X.
    + apply kept_sub in Hy. rewrite Eops in Hy. exact Hy.
  - now left.
  - intros y Hy0. assert (Hy : In y (map snd ops)) by (rewrite Eops; exact Hy0).
    apply in_map_iff in Hy. destruct Hy as (o & <- & Hin).
    destruct (In_nth _ _ (d0, 0) Hin) as (j & Hj & Ej).
    destruct (kept_nth (dm * dm) mi ops 0 j Hj) as [H|[H|H]].
    + left; left. cbn in H. subst j. rewrite <- Ej. reflexivity.
    + left; right. rewrite Ej in H. exact H.
    + right. rewrite Ej in H. apply Rleb_false in H.
      rewrite Forall_forall in Hlo. pose proof (Hlo _ Hin) as L.
      destruct o as [[lo hi] x]. cbn [fst snd] in *. unfold lower_ok in L. destruct L as [La Lb].
      destruct (Rle_dec x 0) as [Hx|Hx].
      * specialize (La Hx). pose proof (Rle_0_sqr dm) as Q. unfold Rsqr in Q. lra.
      * assert (Hx' : 0 <= x) by lra. specialize (Lb Hx').
        destruct (Rle_dec dm x) as [|N]; [assumption|]. exfalso.
        assert (x < dm) by lra. assert (x * x < dm * dm) by nra. lra.
Qed.

(* the statement with the hypotheses of the pinned algorithm (kept for the users of this file) *)
Theorem union_prune_eq (ops : list (IV * R)) :
  ops <> [] ->
  Forall iv_ok ops -> Forall lower_ok ops -> Forall upper_ok ops ->
  @evaluate ROps false Rmin ops = @evaluate_slow ROps Rmin ops.
Proof. intros Hne Hiv Hlo _. now apply union_prune_eq_strong. Qed.

(* the index found by the first loop is a valid index *)
Lemma min_index_range (vs : list IV) i md mi0 : (mi0 < i)%nat ->
  (snd (@min_index ROps vs i md mi0) < i + length vs)%nat.
Proof.
  revert i md mi0; induction vs as [|v r IH]; intros i md mi0 Hlt; cbn [min_index length snd]; [lia|].
  destruct (_ || _); (eapply Nat.lt_le_trans; [apply IH; lia | lia]).
Qed.
Lemma min_index_valid (ops : list (IV * R)) : ops <> [] ->
  (snd (@min_index ROps (map fst ops) 0 (oneg ROps (o1 ROps)) 0%nat) < length ops)%nat.
Proof.
  intros Hne. destruct ops as [|[v x] r]; [congruence|]. cbn [map fst min_index].
  change (oltb ROps (oneg ROps (o1 ROps)) (o0 ROps)) with (Rltb (-1) 0).
  assert (Rltb (-1) 0 = true) as E by (apply Rltb_true; lra). rewrite E. cbn [orb].
  pose proof (min_index_range (map fst r) 1 (fst v) 0 ltac:(lia)) as G. rewrite map_length in G. cbn [length]. lia.
Qed.

(* the pruned value is the value of one of the operands *)
Lemma evaluate_in (ops : list (IV * R)) : ops <> [] -> In (@evaluate ROps false Rmin ops) (map snd ops).
Proof.
  intros Hne. unfold evaluate. pose proof (min_index_valid ops Hne) as Hlt.
  match goal with |- context [@min_index ?a ?b ?c ?d ?e] =>
    change (@min_index ROps (map fst ops) 0 (oneg ROps (o1 ROps)) 0%nat) with (@min_index a b c d e) in Hlt;
    destruct (@min_index a b c d e) as [md mi] eqn:Emi end.
  cbn [snd] in Hlt.
  cbv beta iota zeta. change (o0 ROps) with 0. change (omul ROps) with Rmult.
  rewrite prune_loop_kept.
  match goal with |- In (lmin ?d ?l) _ => destruct (lmin_in d l) as [->|Hin]; [|eapply kept_sub; exact Hin] end.
  apply in_map. apply nth_In. exact Hlt.
Qed.

(* ---- blends: the repaired Evaluate does not prune *)
Theorem union_blend_eq minf (ops : list (IV * R)) :
  @evaluate ROps true minf ops = @evaluate_slow ROps minf ops.
Proof. reflexivity. Qed.

(* ---- the pinned algorithm (pruning by interval overlap) needed more than the lower bound:
   an operand without a solid point in its box breaks it *)
Definition pinned_witness : list (IV * R) := [((0, 1), 5); ((4, 9), 5 / 2)].
Lemma pinned_witness_hyps : Forall iv_ok pinned_witness /\ Forall lower_ok pinned_witness.
Proof. unfold pinned_witness, iv_ok, lower_ok. split; repeat constructor; cbn; intros; lra. Qed.
Theorem union_prune_pinned_refuted :
  @evaluate_pinned ROps Rmin pinned_witness = 5 /\ @evaluate_slow ROps Rmin pinned_witness = 5 / 2.
Proof.
  assert (B1 : Rltb (- (1)) 0 = true) by (apply Rltb_true; lra).
  assert (B2 : Rltb 0 0 = false) by (apply Rltb_false; lra).
  assert (B3 : Rltb 4 0 = false) by (apply Rltb_false; lra).
  assert (B4 : Rleb 4 1 = false) by (apply Rleb_false; lra).
  split.
  - unfold evaluate_pinned, pinned_witness. cbn. rewrite B1, B2, B3. cbn.
    unfold iv_overlap. cbn. rewrite B4. cbn. reflexivity.
  - unfold evaluate_slow, pinned_witness. cbn. unfold Rmin. destruct (Rle_dec 5 (5 / 2)); lra.
Qed.
