(* sdf/cams.go, sdf/flange.go, sdf/spiral.go, sdf/rack.go: the 2D primitives that are not built from
   the constructors of Sdf/Shape.v.  Same conventions as Shape.v: each `k_xxx` follows the Go
   constructor + Evaluate + BoundingBox statement by statement (same association of sums, same
   branch order, same < vs <=) over an arbitrary `O : Ops`; `None` = the constructor returned an
   error.  Tie to the source: FlatFlankCam2D, MakeFlatFlankCam, NewFlange1, ThreeArcCam2D, their
   Evaluate methods, GearRackSDF2.Evaluate and polarDist2 are re-translated from the Go AST on every
   run (harness/sdfgen) and proved equal to these definitions in Sdf/GenEqX.v; ArcSpiral2D and
   ArcSpiralSDF2.Evaluate (unbounded `for` loops, a slice of candidate angles, math.Round) are tied
   by differential execution at primitive floats (harness/cmd/c01). *)
From Coq Require Import ZArith List Bool.
From Sdfx Require Import Num.Ops Geo.Vec Geo.Box Sdf.Shape.
Import OpsNotations ListNotations.
Local Open Scope ops_scope.

Section Prim2X.
  Context {O : Ops}.
  Notation T := (T O).
  Notation V2 := (V2 O).
  Notation Box2 := (Box2 O).
  Notation Obj2 := (Obj2 O).

  (* ---------------------------------------------------------------- sdf/cams.go: flat flank cam *)
  Definition flatflank_ev (distance baseRadius noseRadius : T) (a u : V2) (l : T) (p : V2) : T :=
    let p := mkV2 (oabs O (vx p)) (vy p) in
    let v := v2sub p a in
    let t := v2dot v u in
    if t <? o0 O then v2len p - baseRadius
    else if t <=? l then v2dot v (mkV2 (vy u) (- vx u))
    else v2len (v2sub p (mkV2 (o0 O) distance)) - noseRadius.

  Definition k_flatflankcam (distance baseRadius noseRadius : T) : option Obj2 :=
    let sin := (baseRadius - noseRadius) / distance in
    let cos := osqrt O (o1 O - sin * sin) in
    let a := v2muls (mkV2 cos sin) baseRadius in
    let b := v2add (v2muls (mkV2 cos sin) noseRadius) (mkV2 (o0 O) distance) in
    let u := v2sub b a in
    (* repaired box (fix c241c7a): the nose circle is the wider one when noseRadius > baseRadius *)
    let xmax := omax O baseRadius noseRadius in
    Some (mkObj2 (flatflank_ev distance baseRadius noseRadius a (v2normalize u) (v2len u))
                 (mkBox2 (mkV2 (- xmax) (- baseRadius)) (mkV2 xmax (distance + noseRadius)))).

  (* MakeFlatFlankCam: design parameters -> FlatFlankCam2D *)
  Definition k_makeflatflankcam (lift duration maxDiameter : T) : option Obj2 :=
    if maxDiameter <=? o0 O then None
    else if lift <=? o0 O then None
    else if (duration <=? o0 O) || (duration >=? opi O) then None
    else
      let baseRadius := (maxDiameter / two) - lift in
      if baseRadius <=? o0 O then None
      else
        let delta := duration / two in
        let c := ocos O delta in
        let noseRadius := baseRadius - (lift * c) / (o1 O - c) in
        if noseRadius <=? o0 O then None
        else
          let distance := baseRadius + lift - noseRadius in
          k_flatflankcam distance baseRadius noseRadius.

  (* ---------------------------------------------------------------- sdf/flange.go *)
  Definition flange1_ev (distance centerRadius sideRadius : T) (a u : V2) (l : T) (p : V2) : T :=
    let p := v2abs p in
    let v := v2sub p a in
    let t := v2dot v u in
    if t <? o0 O then v2len p - centerRadius
    else if t <=? l then v2dot v (mkV2 (- vy u) (vx u))
    else v2len (v2sub p (mkV2 distance (o0 O))) - sideRadius.

  Definition k_flange1 (distance centerRadius sideRadius : T) : option Obj2 :=
    let sin := (centerRadius - sideRadius) / distance in
    let cos := osqrt O (o1 O - sin * sin) in
    let a := v2muls (mkV2 sin cos) centerRadius in
    let b := v2add (v2muls (mkV2 sin cos) sideRadius) (mkV2 distance (o0 O)) in
    let u := v2sub b a in
    let w := distance + sideRadius in
    (* repaired box (fix 9483321): the side circles are the taller ones when sideRadius > centerRadius *)
    let h := omax O centerRadius sideRadius in
    Some (mkObj2 (flange1_ev distance centerRadius sideRadius a (v2normalize u) (v2len u))
                 (mkBox2 (mkV2 (- w) (- h)) (mkV2 w h))).

  (* ---------------------------------------------------------------- sdf/cams.go: three arc cam *)
  Definition threearc_ev (distance baseRadius noseRadius flankRadius : T) (flankCenter : V2)
             (thetaBase thetaNose : T) (p : V2) : T :=
    let p0 := mkV2 (oabs O (vx p)) (vy p) in
    let v := v2sub p0 flankCenter in
    let t := oatan2 O (vy v) (vx v) in
    if t <? thetaBase then v2len p0 - baseRadius
    else if t >? thetaNose then v2len (v2sub p0 (mkV2 (o0 O) distance)) - noseRadius
    else v2len v - flankRadius.

  (* the centre of the +x flank arc: on the circles of radius r0 about the base centre and r1 about
     the nose centre, on the -x side *)
  Definition threearc_center (distance baseRadius noseRadius flankRadius : T) : V2 :=
    let r0 := flankRadius - baseRadius in
    let r1 := flankRadius - noseRadius in
    let y := ((r0 * r0) - (r1 * r1) + (distance * distance)) / (two * distance) in
    let x := - osqrt O ((r0 * r0) - (y * y)) in
    mkV2 x y.

  Definition k_threearccam (distance baseRadius noseRadius flankRadius : T) : option Obj2 :=
    if flankRadius <? (baseRadius + distance + noseRadius) / two then None
    else
      let fc := threearc_center distance baseRadius noseRadius flankRadius in
      let p := v2sub (mkV2 (o0 O) (o0 O)) fc in
      let thetaBase := oatan2 O (vy p) (vx p) in
      let p := v2sub (mkV2 (o0 O) distance) fc in
      let thetaNose := oatan2 O (vy p) (vx p) in
      let xmax := omax O baseRadius noseRadius in
      let xmax := if (thetaBase <? o0 O) && (thetaNose >? o0 O)
                  then omax O xmax (vx fc + flankRadius) else xmax in
      Some (mkObj2 (threearc_ev distance baseRadius noseRadius flankRadius fc thetaBase thetaNose)
                   (mkBox2 (mkV2 (- xmax) (- baseRadius)) (mkV2 xmax (distance + noseRadius)))).

  (* ---------------------------------------------------------------- sdf/spiral.go *)
  (* polarDist2: squared distance between two polar points (r, theta) *)
  Definition polar_dist2 (p0 p1 : T * T) : T :=
    (fst p0 * fst p0) + (fst p1 * fst p1) - two * fst p0 * fst p1 * ocos O (snd p0 - snd p1).

  (* arcSpiral.radius with n = 1.0 (the only value ArcSpiral2D installs; the math.Pow branch is dead) *)
  Definition sp_radius (a k theta : T) : T := if a =? o0 O then k else a * theta + k.

  (* arcSpiral.theta with n = 1.0: None = the error "inf", otherwise the list of solutions *)
  Definition sp_theta (a k radius : T) : option (list T) :=
    if a =? o0 O then (if k =? radius then None else Some [])
    else Some [(radius - k) / a].

  (* math.Round: Trunc(x), plus Copysign(1, x) when |x - Trunc(x)| >= 0.5 *)
  Definition go_round (x : T) : T :=
    let t := if x <? o0 O then oceil O x else ofloor O x in
    if oabs O (x - t) >=? half then (if x <? o0 O then t - o1 O else t + o1 O) else t.

  (* `for theta < lim { theta += Tau }` and `for theta > lim { theta -= Tau }` with a bound on the number of
     iterations: trunc(gap / Tau) + 2 always suffices over the reals (Sdf/Prim2XR.v: up_loop_reaches) *)
  Fixpoint up_loop (n : nat) (theta lim : T) : T :=
    match n with
    | 0%nat => theta
    | S n' => if theta <? lim then up_loop n' (theta + tau) lim else theta
    end.
  Fixpoint down_loop (n : nat) (theta lim : T) : T :=
    match n with
    | 0%nat => theta
    | S n' => if theta >? lim then down_loop n' (theta - tau) lim else theta
    end.
  Definition loop_fuel (gap : T) : nat := let z := otoZ O (gap / tau) in (Z.to_nat z + 2)%nat.

  (* the body of `for _, theta := range thetas` *)
  Definition spiral_step (a k : T) (pp s_start s_end : T * T) (d2 theta : T) : T :=
    let n := go_round ((snd pp - theta) / tau) in
    let theta := snd pp - (tau * n) in
    if (theta >=? snd s_start) && (theta <=? snd s_end)
    then omin O d2 (polar_dist2 pp (sp_radius a k theta, theta))
    else
      let '(theta, d2) :=
        if theta <? snd s_start then
          let theta := up_loop (loop_fuel (snd s_start - theta)) theta (snd s_start) in
          (theta, if theta <? snd s_end then omin O d2 (polar_dist2 pp (sp_radius a k theta, theta)) else d2)
        else (theta, d2) in
      if theta >? snd s_end then
        let theta := down_loop (loop_fuel (theta - snd s_end)) theta (snd s_end) in
        if theta >? snd s_start then omin O d2 (polar_dist2 pp (sp_radius a k theta, theta)) else d2
      else d2.

  Definition spiral_ev (a k d : T) (s_start s_end : T * T) (p : V2) : T :=
    let pp := (v2len p, oatan2 O (vy p) (vx p)) in
    let d2 := omin O (polar_dist2 pp s_start) (polar_dist2 pp s_end) in
    let d2 := match sp_theta a k (fst pp) with
              | Some thetas => fold_left (spiral_step a k pp s_start s_end) thetas d2
              | None => d2
              end in
    osqrt O d2 - d.

  Definition k_arcspiral (a k start end_ d : T) : option Obj2 :=
    if start =? end_ then None
    else if a =? o0 O then None
    else
      let '(start, end_) := if start >? end_ then (end_, start) else (start, end_) in
      let s_start := (sp_radius a k start, start) in
      let s_end := (sp_radius a k end_, end_) in
      let rmax := omax O (oabs O (sp_radius a k start)) (oabs O (sp_radius a k end_)) + d in
      Some (mkObj2 (spiral_ev a k d s_start s_end)
                   (mkBox2 (mkV2 (- rmax) (- rmax)) (mkV2 rmax rmax))).

  (* ---------------------------------------------------------------- sdf/rack.go *)
  (* GearRackSDF2.Evaluate over the tooth polygon GearRack2D built, with the stored box *)
  Definition gearrack_ev (tooth : V2 -> T) (pitch length : T) (p : V2) : T :=
    let p0 := mkV2 (oabs O (sawtooth (vx p) pitch)) (vy p) in
    let d0 := tooth p0 in
    let d1 := oabs O (vx p) - length in
    omax O d0 d1.

  (* what a reified GearRackSDF2 is: the tooth operand, the stored pitch, half length and box *)
  Definition k_rack2 (tooth : Obj2) (pitch length : T) (bb : Box2) : option Obj2 :=
    Some (mkObj2 (gearrack_ev (ev2 tooth) pitch length) bb).

  (* the numbers GearRack2D computes from its parameters: the six vertices of the half tooth, the pitch,
     half the rack length and the tooth height *)
  Definition gearrack_pitch (module : T) : T := module * opi O.
  Definition gearrack_height (module baseHeight : T) : T :=
    baseHeight + module * o1 O + module * cst 125 100.
  Definition gearrack_tooth (module pressureAngle backlash baseHeight : T) : list V2 :=
    let addendum := module * o1 O in
    let dedendum := module * cst 125 100 in
    let toothHeight := baseHeight + addendum + dedendum in
    let pitch := module * opi O in
    let dx := (addendum + dedendum) * otan O pressureAngle in
    let dxt := ((pitch / two) - dx) / two in
    let bl := backlash / two in
    [mkV2 pitch (o0 O); mkV2 pitch baseHeight; mkV2 (dx + dxt - bl) baseHeight;
     mkV2 (dxt - bl) toothHeight; mkV2 (- pitch) toothHeight; mkV2 (- pitch) (o0 O)].

  Definition k_gearrack (tooth : Obj2) (numberTeeth : Z) (module pressureAngle backlash baseHeight : T) : option Obj2 :=
    if (numberTeeth <=? 0)%Z then None
    else if module <=? o0 O then None
    else if pressureAngle <=? o0 O then None
    else if backlash <? o0 O then None
    else if baseHeight <? o0 O then None
    else
      let pitch := gearrack_pitch module in
      let length := pitch * ofZ O numberTeeth * half in
      k_rack2 tooth pitch length (mkBox2 (mkV2 (- length) (o0 O)) (mkV2 length (gearrack_height module baseHeight))).

  (* ---------------------------------------------------------------- the parameter-only primitives
     as one type (the leaves the reification of Sdf/Reify.v adds) *)
  Inductive Prim2 :=
  | PFlatFlankCam (distance baseRadius noseRadius : T)
  | PThreeArcCam (distance baseRadius noseRadius flankRadius : T)
  | PFlange1 (distance centerRadius sideRadius : T)
  | PArcSpiral (a k start end_ d : T).

  Definition k_prim2 (p : Prim2) : option Obj2 :=
    match p with
    | PFlatFlankCam d b n => k_flatflankcam d b n
    | PThreeArcCam d b n f => k_threearccam d b n f
    | PFlange1 d c s => k_flange1 d c s
    | PArcSpiral a k s e d => k_arcspiral a k s e d
    end.
End Prim2X.

Arguments Prim2 : clear implicits.

Section MapPrim.
  Context {A B : Ops} (f : T A -> T B).
  Definition map_prim2 (p : Prim2 A) : Prim2 B :=
    match p with
    | PFlatFlankCam d b n => PFlatFlankCam (f d) (f b) (f n)
    | PThreeArcCam d b n fr => PThreeArcCam (f d) (f b) (f n) (f fr)
    | PFlange1 d c s => PFlange1 (f d) (f c) (f s)
    | PArcSpiral a k s e d => PArcSpiral (f a) (f k) (f s) (f e) (f d)
    end.
End MapPrim.
