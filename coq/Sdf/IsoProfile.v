(* ISOThread (sdf/screw.go): the external profile of radius r lies inside the internal profile
   (the hole cut into the nut) of radius r + tol, for every pitch p > 0 and tolerance tol >= 0,
   on the strip |x| <= p/2 the helical mapping reaches.

   The outlines are the closed forms of the vertex lists ISOThread builds (Smooth(radius, 5)
   replaces a corner by 6 points on the tangent arc: angles 30 + 24 j degrees):
   flanks of both profiles lie on one line (shifted by tol), the root fillet of the external
   thread stays below the bore of the internal one (it starts exactly at that height), the crest
   fillet of the internal thread stays above the crest flat of the external one (it starts
   exactly at the flat's corners).  Sdf/IsoClosed.v ties the closed forms to the model. *)
From Coq Require Import Reals Lra Lia List.
From Interval Require Import Tactic.
Import ListNotations.
Open Scope R_scope.

(* ------------------------------------------------------------------ region under a chain *)

Definition pt := (R * R)%type.

(* (x, y) lies on or below the segment a-b (a left of b) *)
Definition under_seg (a b : pt) (x y : R) : Prop :=
  fst a < fst b /\ fst a <= x <= fst b /\
  (y - snd a) * (fst b - fst a) <= (snd b - snd a) * (x - fst a).

(* (x, y) lies on or below the polyline through the points of c *)
Fixpoint under (c : list pt) (x y : R) : Prop :=
  match c with
  | a :: ((b :: _) as tl) => under_seg a b x y \/ under tl x y
  | _ => False
  end.

Lemma under_seg_below_line a b x y k m :
  under_seg a b x y -> snd a <= k * fst a + m -> snd b <= k * fst b + m -> y <= k * x + m.
Proof.
  destruct a as [x1 y1], b as [x2 y2]. unfold under_seg; cbn. intros [Hlt [[Hx1 Hx2] H]] Ha Hb.
  assert (D : 0 < x2 - x1) by lra.
  assert (E : (y - (k * x + m)) * (x2 - x1) <= 0).
  { assert (A1 : (y1 - (k * x1 + m)) * (x2 - x) <= 0) by nra.
    assert (A2 : (y2 - (k * x2 + m)) * (x - x1) <= 0) by nra.
    nra. }
  nra.
Qed.

Lemma under_seg_above_line a b x y k m :
  fst a < fst b -> fst a <= x <= fst b ->
  k * fst a + m <= snd a -> k * fst b + m <= snd b -> y <= k * x + m -> under_seg a b x y.
Proof.
  destruct a as [x1 y1], b as [x2 y2]. unfold under_seg; cbn. intros Hlt [Hx1 Hx2] Ha Hb Hy.
  split; [exact Hlt|]. split; [lra|].
  assert (A1 : 0 <= (y1 - (k * x1 + m)) * (x2 - x)) by (apply Rmult_le_pos; lra).
  assert (A2 : 0 <= (y2 - (k * x2 + m)) * (x - x1)) by (apply Rmult_le_pos; lra).
  assert (A3 : (y - (k * x + m)) * (x2 - x1) <= 0) by nra.
  nra.
Qed.

(* a left-to-right chain a :: c, and the abscissa of its last point *)
Fixpoint sorted_from (a : pt) (c : list pt) : Prop :=
  match c with [] => True | b :: r => fst a < fst b /\ sorted_from b r end.
Fixpoint last_x (a : pt) (c : list pt) : R :=
  match c with [] => fst a | b :: r => last_x b r end.

(* a point below a line lies under any left-to-right chain whose vertices are on or above the line *)
Lemma under_chain_above_line k m : forall (c : list pt) a x y,
  (forall q, In q (a :: c) -> k * fst q + m <= snd q) ->
  sorted_from a c -> c <> [] -> fst a <= x <= last_x a c -> y <= k * x + m -> under (a :: c) x y.
Proof.
  induction c as [| b c IH]; intros a x y Hv Hs Hne Hx Hy; [contradiction|].
  destruct Hs as [Hab Hs]. cbn [under]. cbn [last_x] in Hx.
  destruct (Rle_dec x (fst b)) as [Hxb | Hxb].
  - left. apply (under_seg_above_line a b x y k m); try assumption.
    + split; [apply Hx | exact Hxb].
    + apply Hv; left; reflexivity.
    + apply Hv; right; left; reflexivity.
  - right. destruct c as [| d c'].
    + cbn in Hx. lra.
    + apply IH; try assumption.
      * intros q Hq. apply Hv. right. exact Hq.
      * discriminate.
      * split; [lra|]. destruct Hx as [_ Hx]. exact Hx.
Qed.

Lemma under_app_l c1 c2 x y : under c1 x y -> under (c1 ++ c2) x y.
Proof.
  revert c2. induction c1 as [| a c1 IH]; intros c2 H; [contradiction|].
  destruct c1 as [| b c1']; [contradiction|].
  cbn [app under] in *. destruct H as [H | H]; [left; exact H | right; exact (IH c2 H)].
Qed.

Lemma under_app_r c1 c2 x y : under c2 x y -> under (c1 ++ c2) x y.
Proof.
  induction c1 as [| a c1 IH]; intros H; [exact H|].
  specialize (IH H). destruct (c1 ++ c2) as [| b r] eqn:E.
  - destruct c1; [cbn in E; subst c2; contradiction | discriminate].
  - cbn [app]. rewrite E. right. exact IH.
Qed.

(* ------------------------------------------------------------------ the constants of the profile *)

(* h / pitch: height of the fundamental triangle, pitch / (2 tan 30) *)
Definition H : R := sqrt 3 / 2.
(* the arc angles 30 + 24 j degrees, j = 1..4 (j = 0 and 5 are the tangent points) *)
Definition a1 : R := 3 * PI / 10.
Definition a2 : R := 13 * PI / 30.
Definition a3 : R := 17 * PI / 30.
Definition a4 : R := 7 * PI / 10.
(* root fillet of the external thread: radius (pitch/8)/cos 30 = sqrt 3 / 12 * pitch *)
Definition kx (a : R) : R := sqrt 3 / 12 * cos a.
Definition ky (a : R) : R := sqrt 3 / 12 * sin a.

(* external outline, left to right: (x, y) for major radius r and pitch p *)
Definition iso_ext_chain (r p : R) : list pt :=
  let rm := r + p * (- (5 / 8) * H) in          (* height of the fillet tangent points *)
  let cy := r + p * (- (13 / 24) * H) in        (* fillet centre height *)
  [ (- p, r + p * (H / 8));
    (p * (- (5 / 8)), rm);
    (p * (- (1 / 2) + kx a4), cy - p * ky a4);
    (p * (- (1 / 2) + kx a3), cy - p * ky a3);
    (p * (- (1 / 2) + kx a2), cy - p * ky a2);
    (p * (- (1 / 2) + kx a1), cy - p * ky a1);
    (p * (- (3 / 8)), rm);
    (p * (- (1 / 16)), r);
    (p * (1 / 16), r);
    (p * (3 / 8), rm);
    (p * (1 / 2 + kx a4), cy - p * ky a4);
    (p * (1 / 2 + kx a3), cy - p * ky a3);
    (p * (1 / 2 + kx a2), cy - p * ky a2);
    (p * (1 / 2 + kx a1), cy - p * ky a1);
    (p * (5 / 8), rm);
    (p, r + p * (H / 8)) ].

(* internal outline (the hole), left to right; crest fillet radius (pitch/16)/cos 30 *)
Definition iso_int_chain (r p : R) : list pt :=
  let rm := r + p * (- (5 / 8) * H) in          (* minor radius (bore) *)
  let cy := r + p * (- (1 / 24) * H) in         (* crest fillet centre height *)
  [ (- p, rm);
    (p * (- (3 / 8)), rm);
    (p * (- (1 / 16)), r);
    (p * (kx a4 / 2), cy + p * (ky a4 / 2));
    (p * (kx a3 / 2), cy + p * (ky a3 / 2));
    (p * (kx a2 / 2), cy + p * (ky a2 / 2));
    (p * (kx a1 / 2), cy + p * (ky a1 / 2));
    (p * (1 / 16), r);
    (p * (3 / 8), rm);
    (p, rm) ].

(* numeric facts about the constants (coq-interval) *)
Lemma H_bounds : 0.866 < H < 0.8661.
Proof. unfold H. split; interval. Qed.
Lemma kx_bounds :
  (-0.0849 < kx a4 < -0.0848) /\ (-0.0301 < kx a3 < -0.03) /\ (0.03 < kx a2 < 0.0301) /\ (0.0848 < kx a1 < 0.0849).
Proof. unfold kx, a1, a2, a3, a4. repeat split; interval. Qed.
Lemma ky_bounds :
  (0.1167 < ky a4 < 0.1168) /\ (0.1411 < ky a3 < 0.1412) /\ (0.1411 < ky a2 < 0.1412) /\ (0.1167 < ky a1 < 0.1168).
Proof. unfold ky, a1, a2, a3, a4. repeat split; interval. Qed.

(* p * K for a bounded constant K *)
Lemma scale_bounds p K lo hi : 0 < p -> lo < K < hi -> p * lo < p * K < p * hi.
Proof. intros Hp [H1 H2]. split; apply Rmult_lt_compat_l; assumption. Qed.

(* ------------------------------------------------------------------ nesting *)

Ltac scale_facts p Hp :=
  pose proof (scale_bounds p H _ _ Hp H_bounds) as SH;
  destruct kx_bounds as [KX4 [KX3 [KX2 KX1]]];
  destruct ky_bounds as [KY4 [KY3 [KY2 KY1]]];
  pose proof (scale_bounds p _ _ _ Hp KX4) as SX4; pose proof (scale_bounds p _ _ _ Hp KX3) as SX3;
  pose proof (scale_bounds p _ _ _ Hp KX2) as SX2; pose proof (scale_bounds p _ _ _ Hp KX1) as SX1;
  pose proof (scale_bounds p _ _ _ Hp KY4) as SY4; pose proof (scale_bounds p _ _ _ Hp KY3) as SY3;
  pose proof (scale_bounds p _ _ _ Hp KY2) as SY2; pose proof (scale_bounds p _ _ _ Hp KY1) as SY1.

Section Nest.
  Variables r p tol : R.
  Hypothesis Hp : 0 < p.
  Hypothesis Htol : 0 <= tol.

  Let R' := r + tol.
  Let Rm := R' + p * (- (5 / 8) * H).

  (* the five parts of the internal outline *)
  Let cA : list pt := [ (- p, Rm); (p * (- (3 / 8)), Rm) ].
  Let cB : list pt := [ (p * (- (3 / 8)), Rm); (p * (- (1 / 16)), R') ].
  Let cC : list pt :=
    let cy := R' + p * (- (1 / 24) * H) in
    [ (p * (- (1 / 16)), R');
      (p * (kx a4 / 2), cy + p * (ky a4 / 2));
      (p * (kx a3 / 2), cy + p * (ky a3 / 2));
      (p * (kx a2 / 2), cy + p * (ky a2 / 2));
      (p * (kx a1 / 2), cy + p * (ky a1 / 2));
      (p * (1 / 16), R') ].
  Let cD : list pt := [ (p * (1 / 16), R'); (p * (3 / 8), Rm) ].
  Let cE : list pt := [ (p * (3 / 8), Rm); (p, Rm) ].

  Lemma int_A x y : under cA x y -> under (iso_int_chain R' p) x y.
  Proof. intros Hu. apply (under_app_l cA (skipn 2 (iso_int_chain R' p))). exact Hu. Qed.
  Lemma int_B x y : under cB x y -> under (iso_int_chain R' p) x y.
  Proof.
    intros Hu. apply (under_app_r [(- p, Rm)] (skipn 1 (iso_int_chain R' p))).
    apply (under_app_l cB (skipn 3 (iso_int_chain R' p))). exact Hu.
  Qed.
  Lemma int_C x y : under cC x y -> under (iso_int_chain R' p) x y.
  Proof.
    intros Hu. apply (under_app_r (firstn 2 (iso_int_chain R' p)) (skipn 2 (iso_int_chain R' p))).
    apply (under_app_l cC (skipn 8 (iso_int_chain R' p))). exact Hu.
  Qed.
  Lemma int_D x y : under cD x y -> under (iso_int_chain R' p) x y.
  Proof.
    intros Hu. apply (under_app_r (firstn 7 (iso_int_chain R' p)) (skipn 7 (iso_int_chain R' p))).
    apply (under_app_l cD (skipn 9 (iso_int_chain R' p))). exact Hu.
  Qed.
  Lemma int_E x y : under cE x y -> under (iso_int_chain R' p) x y.
  Proof.
    intros Hu. apply (under_app_r (firstn 8 (iso_int_chain R' p)) cE). exact Hu.
  Qed.

  (* below the bore, left and right of the groove *)
  Lemma bore_left x y : - p <= x <= p * (- (3 / 8)) -> y <= Rm -> under (iso_int_chain R' p) x y.
  Proof.
    intros Hx Hy. apply int_A. unfold cA. cbn [under]. left.
    apply (under_seg_above_line _ _ x y 0 Rm); cbn [fst snd]; lra.
  Qed.
  Lemma bore_right x y : p * (3 / 8) <= x <= p -> y <= Rm -> under (iso_int_chain R' p) x y.
  Proof.
    intros Hx Hy. apply int_E. unfold cE. cbn [under]. left.
    apply (under_seg_above_line _ _ x y 0 Rm); cbn [fst snd]; lra.
  Qed.
  (* below the flank lines y = R' + p H/8 -+ 2 H x *)
  Lemma flank_left x y : p * (- (3 / 8)) <= x <= p * (- (1 / 16)) -> y <= (2 * H) * x + (R' + p * (H / 8)) ->
    under (iso_int_chain R' p) x y.
  Proof.
    intros Hx Hy. apply int_B. unfold cB. cbn [under]. left.
    apply (under_seg_above_line _ _ x y (2 * H) (R' + p * (H / 8))); cbn [fst snd]; try lra.
    unfold Rm. lra.
  Qed.
  Lemma flank_right x y : p * (1 / 16) <= x <= p * (3 / 8) -> y <= (- (2 * H)) * x + (R' + p * (H / 8)) ->
    under (iso_int_chain R' p) x y.
  Proof.
    intros Hx Hy. apply int_D. unfold cD. cbn [under]. left.
    apply (under_seg_above_line _ _ x y (- (2 * H)) (R' + p * (H / 8))); cbn [fst snd]; try lra.
    unfold Rm. lra.
  Qed.
  (* below the crest flat level: under the crest fillet of the internal thread *)
  Lemma crest x y : p * (- (1 / 16)) <= x <= p * (1 / 16) -> y <= R' -> under (iso_int_chain R' p) x y.
  Proof.
    intros Hx Hy. apply int_C. scale_facts p Hp.
    unfold cC. apply (under_chain_above_line 0 R').
    - intros q Hq. cbn [In] in Hq.
      repeat (destruct Hq as [<- | Hq]; [cbn [fst snd]; lra|]). contradiction.
    - cbn [sorted_from fst]. repeat split; lra.
    - discriminate.
    - cbn [last_x fst]. lra.
    - lra.
  Qed.

  Theorem iso_profiles_nest_xy : forall x y, - p / 2 <= x <= p / 2 ->
    under (iso_ext_chain r p) x y -> under (iso_int_chain (r + tol) p) x y.
  Proof.
    intros x y Hx Hu. fold R'. scale_facts p Hp.
    unfold iso_ext_chain in Hu. cbn [under] in Hu.
    (* level of the fillet tangent points of the external thread: not above the bore *)
    assert (Hrm : r + p * (- (5 / 8) * H) <= Rm) by (unfold Rm, R'; lra).
    repeat (destruct Hu as [Hu | Hu]); try contradiction.
    - (* outer flank, left: x <= -5p/8 *)
      destruct Hu as [_ [Hxx _]]; cbn [fst snd] in Hxx. lra.
    - (* left root fillet *)
      pose proof Hu as [_ [Hxx _]]; cbn [fst snd] in Hxx.
      apply bore_left; [lra|]. unfold Rm, R'.
      apply Rle_trans with (r + p * (- (5 / 8) * H)); [| lra].
      replace (r + p * (- (5 / 8) * H)) with (0 * x + (r + p * (- (5 / 8) * H))) by ring.
      eapply under_seg_below_line; [exact Hu | cbn [fst snd]; lra | cbn [fst snd]; lra].
    - pose proof Hu as [_ [Hxx _]]; cbn [fst snd] in Hxx.
      apply bore_left; [lra|]. unfold Rm, R'.
      apply Rle_trans with (r + p * (- (5 / 8) * H)); [| lra].
      replace (r + p * (- (5 / 8) * H)) with (0 * x + (r + p * (- (5 / 8) * H))) by ring.
      eapply under_seg_below_line; [exact Hu | cbn [fst snd]; lra | cbn [fst snd]; lra].
    - pose proof Hu as [_ [Hxx _]]; cbn [fst snd] in Hxx.
      apply bore_left; [lra|]. unfold Rm, R'.
      apply Rle_trans with (r + p * (- (5 / 8) * H)); [| lra].
      replace (r + p * (- (5 / 8) * H)) with (0 * x + (r + p * (- (5 / 8) * H))) by ring.
      eapply under_seg_below_line; [exact Hu | cbn [fst snd]; lra | cbn [fst snd]; lra].
    - pose proof Hu as [_ [Hxx _]]; cbn [fst snd] in Hxx.
      apply bore_left; [lra|]. unfold Rm, R'.
      apply Rle_trans with (r + p * (- (5 / 8) * H)); [| lra].
      replace (r + p * (- (5 / 8) * H)) with (0 * x + (r + p * (- (5 / 8) * H))) by ring.
      eapply under_seg_below_line; [exact Hu | cbn [fst snd]; lra | cbn [fst snd]; lra].
    - pose proof Hu as [_ [Hxx _]]; cbn [fst snd] in Hxx.
      apply bore_left; [lra|]. unfold Rm, R'.
      apply Rle_trans with (r + p * (- (5 / 8) * H)); [| lra].
      replace (r + p * (- (5 / 8) * H)) with (0 * x + (r + p * (- (5 / 8) * H))) by ring.
      eapply under_seg_below_line; [exact Hu | cbn [fst snd]; lra | cbn [fst snd]; lra].
    - (* left flank *)
      pose proof Hu as [_ [Hxx _]]; cbn [fst snd] in Hxx.
      apply flank_left; [lra|].
      apply Rle_trans with ((2 * H) * x + (r + p * (H / 8))); [| unfold R'; lra].
      eapply under_seg_below_line; [exact Hu | cbn [fst snd]; lra | cbn [fst snd]; lra].
    - (* crest flat *)
      pose proof Hu as [_ [Hxx _]]; cbn [fst snd] in Hxx.
      apply crest; [lra|].
      apply Rle_trans with r; [| unfold R'; lra].
      replace r with (0 * x + r) by ring.
      eapply under_seg_below_line; [exact Hu | cbn [fst snd]; lra | cbn [fst snd]; lra].
    - (* right flank *)
      pose proof Hu as [_ [Hxx _]]; cbn [fst snd] in Hxx.
      apply flank_right; [lra|].
      apply Rle_trans with ((- (2 * H)) * x + (r + p * (H / 8))); [| unfold R'; lra].
      eapply under_seg_below_line; [exact Hu | cbn [fst snd]; lra | cbn [fst snd]; lra].
    - (* right root fillet *)
      pose proof Hu as [_ [Hxx _]]; cbn [fst snd] in Hxx.
      apply bore_right; [lra|]. unfold Rm, R'.
      apply Rle_trans with (r + p * (- (5 / 8) * H)); [| lra].
      replace (r + p * (- (5 / 8) * H)) with (0 * x + (r + p * (- (5 / 8) * H))) by ring.
      eapply under_seg_below_line; [exact Hu | cbn [fst snd]; lra | cbn [fst snd]; lra].
    - pose proof Hu as [_ [Hxx _]]; cbn [fst snd] in Hxx.
      apply bore_right; [lra|]. unfold Rm, R'.
      apply Rle_trans with (r + p * (- (5 / 8) * H)); [| lra].
      replace (r + p * (- (5 / 8) * H)) with (0 * x + (r + p * (- (5 / 8) * H))) by ring.
      eapply under_seg_below_line; [exact Hu | cbn [fst snd]; lra | cbn [fst snd]; lra].
    - pose proof Hu as [_ [Hxx _]]; cbn [fst snd] in Hxx.
      apply bore_right; [lra|]. unfold Rm, R'.
      apply Rle_trans with (r + p * (- (5 / 8) * H)); [| lra].
      replace (r + p * (- (5 / 8) * H)) with (0 * x + (r + p * (- (5 / 8) * H))) by ring.
      eapply under_seg_below_line; [exact Hu | cbn [fst snd]; lra | cbn [fst snd]; lra].
    - pose proof Hu as [_ [Hxx _]]; cbn [fst snd] in Hxx.
      apply bore_right; [lra|]. unfold Rm, R'.
      apply Rle_trans with (r + p * (- (5 / 8) * H)); [| lra].
      replace (r + p * (- (5 / 8) * H)) with (0 * x + (r + p * (- (5 / 8) * H))) by ring.
      eapply under_seg_below_line; [exact Hu | cbn [fst snd]; lra | cbn [fst snd]; lra].
    - pose proof Hu as [_ [Hxx _]]; cbn [fst snd] in Hxx.
      apply bore_right; [lra|]. unfold Rm, R'.
      apply Rle_trans with (r + p * (- (5 / 8) * H)); [| lra].
      replace (r + p * (- (5 / 8) * H)) with (0 * x + (r + p * (- (5 / 8) * H))) by ring.
      eapply under_seg_below_line; [exact Hu | cbn [fst snd]; lra | cbn [fst snd]; lra].
    - (* outer flank, right: x >= 5p/8 *)
      destruct Hu as [_ [Hxx _]]; cbn [fst snd] in Hxx. lra.
  Qed.
End Nest.

Theorem iso_profiles_nest : forall r p tol, 0 < p -> 0 <= tol ->
  forall x y, - p / 2 <= x <= p / 2 ->
  under (iso_ext_chain r p) x y -> under (iso_int_chain (r + tol) p) x y.
Proof. intros r p tol Hp Htol. apply iso_profiles_nest_xy; assumption. Qed.


(* ------------------------------------------------------------------ the outlines of Sdf/Screw.v at ROps *)
From Sdfx Require Import Num.Ops.
From Sdfx Require Import Num.RInst.
From Sdfx Require Import Geo.Vec.
From Sdfx Require Import Sdf.Screw.

Lemma ext_outline_R r p : @iso_ext_outline ROps r p = iso_ext_chain r p.
Proof.
  unfold iso_ext_outline, iso_ext_chain, iso_H, iso_kx, iso_ky, iso_ang, cst, two, H, kx, ky, a1, a2, a3, a4.
  cbn [T ROps ofZ oadd osub omul odiv oneg osqrt ocos osin opi o1].
  repeat (f_equal; try lra).
Qed.

Lemma int_outline_R r p : @iso_int_outline ROps r p = iso_int_chain r p.
Proof.
  unfold iso_int_outline, iso_int_chain, iso_H, iso_kx, iso_ky, iso_ang, cst, two, H, kx, ky, a1, a2, a3, a4.
  cbn [T ROps ofZ oadd osub omul odiv oneg osqrt ocos osin opi o1].
  repeat (f_equal; try lra).
Qed.

Theorem iso_outlines_nest : forall r p tol, 0 < p -> 0 <= tol ->
  forall x y, - p / 2 <= x <= p / 2 ->
  under (@iso_ext_outline ROps r p) x y -> under (@iso_int_outline ROps (r + tol) p) x y.
Proof.
  intros r p tol Hp Htol x y Hx. change (@oadd ROps r tol) with (r + tol).
  rewrite ext_outline_R, int_outline_R. apply iso_profiles_nest; assumption.
Qed.

(* ------------------------------------------------------------------ mating of ISO threads *)
From Sdfx Require Import Sdf.ScrewR.

(* A bolt thread Screw3D(ISOThread(r - te, p, external)) and the material of a nut body after
   cutting Screw3D(ISOThread(r + ti, p, internal)) with the same pitch, lead, taper, axis and
   phase have no common interior point, for all te, ti >= 0.  The two 2D profile functions enter
   only through the sign facts C04 is about: negative only inside the polygon (under the outline,
   above the axis), and non-positive everywhere inside it. *)
Theorem iso_mating : forall (ext int : V2 ROps -> R) (body : V3 ROps -> R) r p te ti lead taper len_e len_i,
  0 < p -> 0 <= te -> 0 <= ti ->
  (forall q, - p / 2 <= vx q <= p / 2 -> ext q < 0 ->
             0 <= vy q /\ under (@iso_ext_outline ROps (r - te) p) (vx q) (vy q)) ->
  (forall q, - p / 2 <= vx q <= p / 2 -> 0 <= vy q ->
             under (@iso_int_outline ROps (r + ti) p) (vx q) (vy q) -> int q <= 0) ->
  (forall q, body q < 0 -> Rabs (wz q) <= len_i) ->
  forall q,
    ~ (screw_eval ext (mkScrew p lead len_e taper) q < 0 /\
       @difference ROps (body q) (screw_eval int (mkScrew p lead len_i taper) q) < 0).
Proof.
  intros ext int body r p te ti lead taper len_e len_i Hp Hte Hti Hext Hint Hbody.
  apply mating_reduces_to_profiles; [exact Hp | | exact Hbody].
  intros q Hq Hneg.
  assert (Hq' : - p / 2 <= vx q <= p / 2) by lra.
  destruct (Hext q Hq' Hneg) as [Hy Hu].
  apply (Hint q Hq' Hy).
  replace (r + ti) with ((r - te) + (te + ti)) by ring.
  apply iso_outlines_nest; try assumption. lra.
Qed.

(* non-vacuity: a point just under the crest flat of an M6x1 bolt *)
Lemma nest_example :
  0 < 1 /\ 0 <= 0 /\ - 1 / 2 <= 0 <= 1 / 2 /\ under (@iso_ext_outline ROps 3 1) 0 (3 - 1 / 100).
Proof.
  split; [lra|]. split; [lra|]. split; [lra|].
  rewrite ext_outline_R. unfold iso_ext_chain. cbn [under]. do 7 right. left.
  unfold under_seg; cbn [fst snd]. lra.
Qed.
