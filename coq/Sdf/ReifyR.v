(* C01 for reified objects, over the reals: the enclosure of a polygon mesh leaf, the
   well-formedness predicate of dumped trees (the side conditions of Sdf/EncloseAll.v plus the leaf
   conditions) and the main induction over RShape2/RShape3, relative to the hypothesis that
   every opaque leaf is negative only inside its box. *)
From Coq Require Import Reals Lra Lia List Bool ZArith NArith Permutation Psatz.
From Sdfx Require Import Num.Ops Num.RInst Geo.Vec Geo.Box Geo.BoxR Geo.MinMaxR Geo.NormR Geo.Mat
  Sdf.Union2 Sdf.Shape Sdf.ShapeR Sdf.EncloseR Sdf.EncloseComb Sdf.EncloseXform Sdf.EncloseExtr
  Sdf.EncloseRev Sdf.EncloseRot Sdf.EncloseSlice Sdf.EncloseCone Sdf.EncloseRigid Sdf.EncloseBox
  Sdf.EncloseAll Sdf.Poly Sdf.PolyR Sdf.PolyTreeR Sdf.Reify Sdf.Prim2X Sdf.Prim2XR.
From Sdfx Require Sdf.Screw Sdf.ScrewR.
Import ListNotations.
Open Scope R_scope.

Notation RR2 := (RShape2 ROps).
Notation RR3 := (RShape3 ROps).
Notation REnv := (Env ROps).

(* ------------------------------------------------------------ polygon meshes *)
(* every start point is an end point, with multiplicity: the segments form closed chains *)
Definition balanced (segs : list SegR) : Prop := Permutation (map fst segs) (map snd segs).
Definition mesh_ok (segs : list SegR) (bb : RBox2) : Prop :=
  ordered2 bb /\ Forall (seg_all (in_box2 bb)) segs /\ balanced segs.

(* a segment strictly to the right of p is crossed by the +x ray from p exactly when its end
   points are on different sides of the level of p (half-open rule) *)
Lemma cross_spec_right (l : SegR) (p : V) : vx p < vx (fst l) -> vx p < vx (snd l) ->
  cross_spec l p = updown (vy p) l.
Proof.
  intros H1 H2. rewrite cross_spec_cs. unfold cs, crossR, updown, below.
  destruct l as [[ax ay] [bx by_]], p as [px py]; cbn [fst snd vx vy] in *.
  destruct (Rleb ay py) eqn:C1; [apply Rleb_true in C1 | apply Rleb_false in C1].
  - destruct (Rleb by_ py) eqn:C4; [apply Rleb_true in C4 | apply Rleb_false in C4].
    + assert (E : Rltb py by_ = false) by (apply Rltb_false; lra). rewrite E. reflexivity.
    + assert (E : Rltb py by_ = true) by (apply Rltb_true; lra). rewrite E. cbn [andb].
      assert (K : 0 < (bx - ax) * (py - ay) - (by_ - ay) * (px - ax)).
      { assert (0 <= (py - ay) * (bx - px)) by (apply Rmult_le_pos; lra).
        assert (0 < (by_ - py) * (ax - px)) by (apply Rmult_lt_0_compat; lra). nra. }
      apply Rltb_true in K. rewrite K. reflexivity.
  - destruct (Rleb by_ py) eqn:C4; [apply Rleb_true in C4 | apply Rleb_false in C4]; [|reflexivity].
    cbn [andb].
    assert (K : (bx - ax) * (py - ay) - (by_ - ay) * (px - ax) < 0).
    { assert (0 <= (py - by_) * (ax - px)) by (apply Rmult_le_pos; lra).
      assert (0 < (ay - py) * (bx - px)) by (apply Rmult_lt_0_compat; lra). nra. }
    apply Rltb_true in K. rewrite K. reflexivity.
Qed.

Lemma updown_sum (segs : list SegR) y :
  sumZ (map (updown y) segs) = (sumZ (map (below y) (map fst segs)) - sumZ (map (below y) (map snd segs)))%Z.
Proof.
  induction segs as [|s segs IH]; [reflexivity|]. cbn [map]. unfold sumZ in *. cbn [fold_right]. rewrite IH. unfold updown. lia.
Qed.
Lemma balanced_level (segs : list SegR) y : balanced segs -> sumZ (map (updown y) segs) = 0%Z.
Proof.
  intros B. rewrite updown_sum. rewrite (sumZ_perm _ _ (Permutation_map (below y) B)). lia.
Qed.

Lemma sumZ_ext {A} (f g : A -> Z) (l : list A) : (forall x, In x l -> f x = g x) -> sumZ (map f l) = sumZ (map g l).
Proof.
  induction l as [|a l IH]; intros H; [reflexivity|]. cbn [map]. unfold sumZ in *. cbn [fold_right].
  rewrite (H a (or_introl eq_refl)), IH; [reflexivity|]. intros x Hx. apply H. now right.
Qed.
Lemma sumZ_zero {A} (f : A -> Z) (l : list A) : (forall x, In x l -> f x = 0%Z) -> sumZ (map f l) = 0%Z.
Proof.
  induction l as [|a l IH]; intros H; [reflexivity|]. cbn [map]. unfold sumZ in *. cbn [fold_right].
  rewrite (H a (or_introl eq_refl)), IH; [reflexivity|]. intros x Hx. apply H. now right.
Qed.

(* outside the box of a balanced segment set the crossing number is 0 *)
Lemma mesh_outside_wn0 (segs : list SegR) (bb : RBox2) (p : V) :
  Forall (seg_all (in_box2 bb)) segs -> balanced segs -> ~ in_box2 bb p ->
  sumZ (map (fun l => cross_spec l p) segs) = 0%Z.
Proof.
  intros F B Hout. rewrite Forall_forall in F.
  assert (I : forall l, In l segs ->
            vx (b2min bb) <= vx (fst l) <= vx (b2max bb) /\ vy (b2min bb) <= vy (fst l) <= vy (b2max bb) /\
            vx (b2min bb) <= vx (snd l) <= vx (b2max bb) /\ vy (b2min bb) <= vy (snd l) <= vy (b2max bb)).
  { intros l Hl. destruct (F l Hl) as [Ha Hb]. unfold in_box2 in Ha, Hb. lra. }
  unfold in_box2 in Hout.
  destruct (Rlt_dec (vy p) (vy (b2min bb))) as [Hy1|Hy1].
  { apply sumZ_zero. intros l Hl. specialize (I l Hl). apply cross_spec_above; lra. }
  destruct (Rlt_dec (vy (b2max bb)) (vy p)) as [Hy2|Hy2].
  { apply sumZ_zero. intros l Hl. specialize (I l Hl). apply cross_spec_below; lra. }
  destruct (Rlt_dec (vx (b2max bb)) (vx p)) as [Hx2|Hx2].
  { apply sumZ_zero. intros l Hl. specialize (I l Hl). apply cross_spec_left; lra. }
  destruct (Rlt_dec (vx p) (vx (b2min bb))) as [Hx1|Hx1]; [|exfalso; apply Hout; lra].
  rewrite (sumZ_ext _ (updown (vy p))).
  - apply balanced_level, B.
  - intros l Hl. specialize (I l Hl). apply cross_spec_right; lra.
Qed.

Theorem mesh2_enc (segs : list SegR) (bb : RBox2) o : mesh_ok segs bb -> @k_mesh2 ROps segs bb = Some o -> enc2 o.
Proof.
  intros (Ho & F & B) H. unfold k_mesh2 in H. destruct segs as [|s0 segs0]; [discriminate|].
  apply some_inj in H. subst o. split; [exact Ho|]. cbn [bb2 ev2]. intros p Hneg.
  destruct (classic_in_box2 bb p) as [Hin|Hout]; [exact Hin | exfalso].
  unfold Poly.eval_slow in Hneg.
  pose proof (halfopen_crossing_spec (s0 :: segs0) p) as W.
  destruct (Poly.slow_loop (convert_lines (s0 :: segs0)) p) as [d2 wn]. cbn [snd] in W.
  unfold wn_spec in W. rewrite fold_sum in W. rewrite (mesh_outside_wn0 _ bb p F B Hout) in W.
  subst wn. cbn [Z.add Z.eqb] in Hneg.
  change (osqrt ROps d2) with (sqrt d2) in Hneg. pose proof (sqrt_pos d2). lra.
Qed.

(* Offset2D directly over a polygon mesh (obj.Hex2D and everything built on it).  A mesh is in
   neither operand class: its squared distance loop starts from the sentinel MaxFloat64, so very far
   away (beyond sqrt MaxFloat64 ~ 1.3e154) the real-number model returns sqrt MaxFloat64 instead of
   the distance.  For an offset below that bound the enlarged box still encloses the result:
   outside it every non-degenerate segment (it lies in the mesh box) is farther than the offset. *)
Definition mesh_leaf (s : RShape2 ROps) : Prop :=
  match s with RMesh2 segs _ => Forall nondeg segs | _ => False end.

Lemma mesh_far_dist (segs : list SegR) (bb : RBox2) (p : V) off :
  Forall (seg_all (in_box2 bb)) segs -> Forall nondeg segs -> 0 <= off -> off * off < Rmaxfloat ->
  (vx p < vx (b2min bb) - off \/ vx (b2max bb) + off < vx p \/ vy p < vy (b2min bb) - off \/ vy (b2max bb) + off < vy p) ->
  off * off < minl (map (d2f p) segs) Rmaxfloat.
Proof.
  intros F N Hoff HM Hout. destruct (is_min_minl (map (d2f p) segs) Rmaxfloat) as (_ & _ & [->|Hin]); [exact HM|].
  apply in_map_iff in Hin. destruct Hin as (s & Es & Hs). rewrite <- Es. clear Es.
  rewrite Forall_forall in F, N. destruct (F s Hs) as [Ha Hb]. pose proof (N s Hs) as Hn.
  destruct (segdist2_exact s p Hn) as [(t & Ht & Et) _]. unfold d2f. rewrite <- Et. clear Et.
  unfold in_box2 in Ha, Hb. destruct s as [[ax ay] [bx by_]], p as [px py]. unfold dist2_2, pt; cbn [fst snd vx vy] in *.
  set (cx := ax + t * (bx - ax)). set (cy := ay + t * (by_ - ay)).
  assert (Cx : vx (b2min bb) <= cx <= vx (b2max bb)).
  { unfold cx. split.
    - assert (0 <= (1 - t) * (ax - vx (b2min bb))) by (apply Rmult_le_pos; lra).
      assert (0 <= t * (bx - vx (b2min bb))) by (apply Rmult_le_pos; lra). nra.
    - assert (0 <= (1 - t) * (vx (b2max bb) - ax)) by (apply Rmult_le_pos; lra).
      assert (0 <= t * (vx (b2max bb) - bx)) by (apply Rmult_le_pos; lra). nra. }
  assert (Cy : vy (b2min bb) <= cy <= vy (b2max bb)).
  { unfold cy. split.
    - assert (0 <= (1 - t) * (ay - vy (b2min bb))) by (apply Rmult_le_pos; lra).
      assert (0 <= t * (by_ - vy (b2min bb))) by (apply Rmult_le_pos; lra). nra.
    - assert (0 <= (1 - t) * (vy (b2max bb) - ay)) by (apply Rmult_le_pos; lra).
      assert (0 <= t * (vy (b2max bb) - by_)) by (apply Rmult_le_pos; lra). nra. }
  clearbody cx cy. pose proof (sq_nn (px - cx)). pose proof (sq_nn (py - cy)).
  destruct Hout as [Ho|[Ho|[Ho|Ho]]].
  - assert (off * off < (cx - px) * (cx - px)) by nra. nra.
  - assert (off * off < (px - cx) * (px - cx)) by nra. nra.
  - assert (off * off < (cy - py) * (cy - py)) by nra. nra.
  - assert (off * off < (py - cy) * (py - cy)) by nra. nra.
Qed.

Theorem mesh_offset2_enc (segs : list SegR) (bb : RBox2) off o1 o :
  mesh_ok segs bb -> Forall nondeg segs -> 0 <= off -> off * off < Rmaxfloat ->
  @k_mesh2 ROps segs bb = Some o1 -> @k_offset2 ROps o1 off = Some o -> enc2 o.
Proof.
  intros (Ho & F & B) N Hoff HM H1 H. unfold k_mesh2 in H1. destruct segs as [|s0 segs0]; [discriminate|].
  apply some_inj in H1. subst o1. unfold k_offset2 in H. apply some_inj in H. subst o.
  destruct Ho as [Hx Hy]. split; cbn [bb2 ev2]; [unfold ordered2; cbn; lra|].
  intros p Hneg.
  match goal with |- in_box2 ?b p => destruct (classic_in_box2 b p) as [Hin|Hout]; [exact Hin | exfalso] end.
  assert (Hout' : ~ in_box2 bb p) by (intros Hin; apply Hout; revert Hin; unfold in_box2; cbn; lra).
  assert (D : vx p < vx (b2min bb) - off \/ vx (b2max bb) + off < vx p \/ vy p < vy (b2min bb) - off \/ vy (b2max bb) + off < vy p).
  { destruct (Rlt_dec (vx p) (vx (b2min bb) - off)); [tauto|]. destruct (Rlt_dec (vx (b2max bb) + off) (vx p)); [tauto|].
    destruct (Rlt_dec (vy p) (vy (b2min bb) - off)); [tauto|]. destruct (Rlt_dec (vy (b2max bb) + off) (vy p)); [tauto|].
    exfalso. apply Hout. unfold in_box2; cbn. lra. }
  pose proof (mesh_far_dist _ bb p off F N Hoff HM D) as Far.
  unfold Poly.eval_slow in Hneg. rewrite slow_loop_eq in Hneg.
  assert (W0 : Wl p (s0 :: segs0) = 0%Z).
  { unfold Wl. rewrite (sumZ_ext _ (fun l => cross_spec l p)); [|intros l _; apply winding_eq_spec].
    apply (mesh_outside_wn0 _ bb p F B Hout'). }
  rewrite W0 in Hneg. cbn [Z.eqb] in Hneg. change (omaxf ROps) with Rmaxfloat in Hneg.
  change (osqrt ROps) with sqrt in Hneg. change (osub ROps) with Rminus in Hneg.
  assert (S : off < sqrt (minl (map (d2f p) (s0 :: segs0)) Rmaxfloat)).
  { rewrite <- (sqrt_square off Hoff) at 1. apply sqrt_lt_1_alt. split; [apply sq_nn | exact Far]. }
  lra.
Qed.

(* ------------------------------------------------------------ Screw3D
   A point with a negative value lies within the half length along z, and its thread-profile image
   (pitch phase, |rho + z tan(taper)|) lies in the profile box, so rho <= profile top + (length/2)
   tan(taper).  The profile top must be >= 0 for the box to be ordered (not checked by Screw3D). *)
Theorem screw_enc (th : RObj2) length taper pitch starts o :
  enc2 th -> 0 <= vy (b2max (bb2 th)) -> @k_screw ROps th length taper pitch starts = Some o -> enc3 o.
Proof.
  intros [_ Hth] Htop H. unfold k_screw in H.
  destruct (@Screw.screw3d ROps length taper pitch starts) as [s|] eqn:S; [|discriminate].
  apply ScrewR.screw3d_some in S. destruct S as (HL & HT & HP & ->). apply some_inj in H. subst o.
  cbn [Screw.s_length Screw.s_taper].
  change (otan ROps taper) with (tan taper). change (oadd ROps) with Rplus. change (omul ROps) with Rmult. change (oneg ROps) with Ropp.
  assert (Tt : 0 <= tan taper).
  { destruct (Req_dec taper 0) as [->|N]; [rewrite tan_0; lra|]. left. apply tan_gt_0; lra. }
  set (l := length / 2) in *. assert (Hl : 0 < l) by (unfold l; lra).
  set (r := vy (b2max (bb2 th)) + l * tan taper).
  assert (Hr : 0 <= r) by (unfold r; nra).
  split; cbn [bb3 ev3].
  - unfold ordered3; cbn [b3min b3max wx wy wz]. lra.
  - intros [x y z] Hneg. unfold Screw.screw_eval in Hneg. cbn [Screw.s_length wz] in Hneg.
    change (omax ROps) with Rmax in Hneg. change (osub ROps) with Rminus in Hneg. change (oabs ROps) with Rabs in Hneg.
    assert (D0 : ev2 th (Screw.screw_map (Screw.mkScrew pitch (- pitch * IZR starts) l taper) (mkV3 x y z)) < 0)
      by (eapply Rle_lt_trans; [apply Rmax_l | exact Hneg]).
    assert (D1 : Rabs z - l < 0) by (eapply Rle_lt_trans; [apply Rmax_r | exact Hneg]).
    apply Hth in D0. destruct D0 as [_ [_ Hy]]. clear Hneg.
    unfold Screw.screw_map in Hy. cbn [vy wx wy wz Screw.s_taper] in Hy.
    change (osqrt ROps) with sqrt in Hy. change (oadd ROps) with Rplus in Hy. change (omul ROps) with Rmult in Hy.
    change (otan ROps taper) with (tan taper) in Hy. change (oabs ROps) with Rabs in Hy.
    change (oeqb ROps) with Reqb in Hy. change (o0 ROps) with 0 in Hy.
    set (rho := sqrt (x * x + y * y)) in *.
    assert (Hrho : 0 <= rho) by apply sqrt_pos.
    assert (Hsq : rho * rho = x * x + y * y) by (apply sqrt_sqrt; nra).
    pose proof (Rabs_lt_inv z l ltac:(lra)) as Hz.
    assert (Hrr : rho <= r).
    { destruct (Reqb taper 0) eqn:Et; cbn [negb] in Hy.
      - unfold r. nra.
      - pose proof (Rabs_ge_l (rho + z * tan taper)). unfold r. nra. }
    unfold in_box3; cbn [b3min b3max wx wy wz].
    assert (- rho <= x <= rho) by (split; nra). assert (- rho <= y <= rho) by (split; nra). lra.
Qed.

Definition mesh_top_nonneg (s : RShape2 ROps) : Prop :=
  match s with RMesh2 _ bb => 0 <= vy (b2max bb) | _ => False end.

(* GearRackSDF2: the tooth is a polygon mesh whose box y range lies in the y range of the rack box; the rack
   box is ordered and spans [-length, length] in x *)
Definition rack_ok (s : RShape2 ROps) (length : R) (bb : RBox2) : Prop :=
  match s with RMesh2 _ tb => rack_box_ok tb length bb | _ => False end.

(* ------------------------------------------------------------ the two operand classes, syntactically *)
Fixpoint rcl2_2 (s : RR2) : Prop :=
  match s with
  | RCircle _ => True
  | RBox2D _ round => 0 <= round
  | RCache2 s => rcl2_2 s
  | RIntersect2 _ s0 _ | RDifference2 _ s0 _ => rcl2_2 s0
  | RCut2 s _ _ | RScaleUniform2 s _ | RElongate2 s _ => rcl2_2 s
  | RTransform2 s m => rcl2_2 s /\ rigid33 m
  | RUnion2 _ l => allp rcl2_2 l
  | _ => False
  end.
Fixpoint rcl2_3 (s : RR3) : Prop :=
  match s with
  | RSphere _ | RBox3D _ _ | RCylinder _ _ _ => True
  | RIntersect3 _ s0 _ | RDifference3 _ s0 _ => rcl2_3 s0
  | RCut3 s _ _ | RScaleUniform3 s _ | RElongate3 s _ => rcl2_3 s
  | RTransform3 s m => rcl2_3 s /\ rigid44 m
  | RUnion3 _ l => allp rcl2_3 l
  | _ => False
  end.
Fixpoint rcinf2 (s : RR2) : Prop :=
  match s with
  | RCircle _ | RBox2D _ _ | RLine2D _ _ => True
  | RCache2 s => rcinf2 s
  | ROffset2 s off => (rcinf2 s \/ rcl2_2 s) /\ 0 <= off
  | RIntersect2 _ s0 _ | RDifference2 _ s0 _ => rcinf2 s0
  | RCut2 s _ _ | RScaleUniform2 s _ | RElongate2 s _ => rcinf2 s
  | RTransform2 s m => (rcinf2 s /\ is_translate2 m) \/ (rcl2_2 s /\ rigid33 m)
  | RUnion2 _ l => allp rcinf2 l
  | _ => False
  end.
Fixpoint rcinf3 (s : RR3) : Prop :=
  match s with
  | RSphere _ | RBox3D _ _ | RCylinder _ _ _ | RCone _ _ _ _ => True
  | RRevolve s theta => (rcinf2 s \/ rcl2_2 s) /\ Rfmod (Rabs theta) (@tau ROps) = 0
  | RExtrude s _ | RExtrudeRounded s _ _ => rcinf2 s \/ rcl2_2 s
  | RLoft s0 s1 _ _ => (rcinf2 s0 \/ rcl2_2 s0) /\ (rcinf2 s1 \/ rcl2_2 s1)
  | RIntersect3 _ s0 _ | RDifference3 _ s0 _ => rcinf3 s0
  | RCut3 s _ _ | RScaleUniform3 s _ | RElongate3 s _ => rcinf3 s
  | RTransform3 s m => (rcinf3 s /\ is_translate3 m) \/ (rcl2_3 s /\ rigid44 m)
  | RUnion3 _ l => allp rcinf3 l
  | ROffset3 s off => (rcinf3 s \/ rcl2_3 s) /\ 0 <= off
  | RShell3 s _ => rcinf3 s \/ rcl2_3 s
  | _ => False
  end.

(* ------------------------------------------------------------ well-formed dumped trees: the side
   conditions of wf2/wf3 (Sdf/EncloseAll.v), mesh_ok for the mesh leaves, nothing for opaque leaves *)
Fixpoint rwf2 (s : RR2) : Prop :=
  match s with
  | ROpaque2 _ _ => True
  | RMesh2 segs bb => mesh_ok segs bb
  | RCache2 s => rwf2 s
  | RCircle _ => True
  | RBox2D size _ => 0 <= vx size /\ 0 <= vy size
  | RLine2D l round => 0 <= l /\ 0 <= round
  | ROffset2 s off => rwf2 s /\ 0 <= off /\ (rcinf2 s \/ rcl2_2 s \/ (mesh_leaf s /\ off * off < Rmaxfloat))
  | RIntersect2 m s0 _ | RDifference2 m s0 _ => max_ok m /\ rwf2 s0
  | RCut2 s _ _ | RElongate2 s _ | RRotateCopy2 s _ => rwf2 s
  | RTransform2 s m => rwf2 s /\ affine33 m /\ @m33_determinant ROps m <> 0
  | RScaleUniform2 s k => rwf2 s /\ 0 < k
  | RArray2 mk s _ _ _ => mk = MinDef /\ rwf2 s
  | RRotateUnion2 mk s _ step => mk = MinDef /\ rwf2 s /\ affine33 step /\ @m33_determinant ROps step <> 0
  | RUnion2 mk l => mk = MinDef /\ allp rwf2 l
  | RSlice2 s _ n => rwf3 s /\ 0 < dot3 n n
  | RPrim2 p => prim2_wf p
  | RRack2 tooth _ length bb => rwf2 tooth /\ rack_ok tooth length bb
  end
with rwf3 (s : RR3) : Prop :=
  match s with
  | ROpaque3 _ _ => True
  | RSphere _ | RBox3D _ _ | RCylinder _ _ _ => True
  | RCone _ r0 r1 _ => 0 <= r0 /\ 0 <= r1
  | RRevolve s _ => rwf2 s
  | RExtrude s h | RTwistExtrude s h _ => rwf2 s /\ 0 <= h
  | RScaleExtrude s h sc | RScaleTwistExtrude s h _ sc => rwf2 s /\ 0 < h /\ 0 < vx sc /\ 0 < vy sc
  | RExtrudeRounded s h round => rwf2 s /\ 0 <= h /\ (round = 0 \/ rcinf2 s \/ rcl2_2 s)
  | RLoft s0 s1 _ round => rwf2 s0 /\ rwf2 s1 /\ (round = 0 \/ ((rcinf2 s0 \/ rcl2_2 s0) /\ (rcinf2 s1 \/ rcl2_2 s1)))
  | RTransform3 s m => rwf3 s /\ affine44 m /\ @m44_determinant ROps m <> 0
  | RScaleUniform3 s k => rwf3 s /\ 0 < k
  | RUnion3 mk l => mk = MinDef /\ allp rwf3 l
  | RDifference3 m s0 _ | RIntersect3 m s0 _ => max_ok m /\ rwf3 s0
  | RCut3 s _ _ | RElongate3 s _ | RRotateCopy3 s _ => rwf3 s
  | RArray3 mk s _ _ _ _ => mk = MinDef /\ rwf3 s
  | RRotateUnion3 mk s _ step => mk = MinDef /\ rwf3 s /\ affine44 step /\ @m44_determinant ROps step <> 0
  | ROffset3 s off => rwf3 s /\ 0 <= off /\ (rcinf3 s \/ rcl2_3 s)
  | RShell3 s _ => rwf3 s /\ (rcinf3 s \/ rcl2_3 s)
  | RScrew s _ _ _ _ => rwf2 s /\ mesh_top_nonneg s
  end.

(* the leaf hypothesis: every opaque leaf that carries material of the result (first operands of
   intersections and differences, every operand elsewhere) is negative only inside its box *)
Section Leaves.
  Variable E : REnv.
  Fixpoint leaves2 (s : RR2) : Prop :=
    match s with
    | ROpaque2 id bb => enc2 (mkObj2 (env2 E id) bb)
    | RMesh2 _ _ | RCircle _ | RBox2D _ _ | RLine2D _ _ | RPrim2 _ => True
    | RCache2 s | ROffset2 s _ | RCut2 s _ _ | RTransform2 s _ | RScaleUniform2 s _ | RArray2 _ s _ _ _
    | RRotateUnion2 _ s _ _ | RRotateCopy2 s _ | RElongate2 s _ | RRack2 s _ _ _ => leaves2 s
    | RIntersect2 _ s0 _ | RDifference2 _ s0 _ => leaves2 s0
    | RUnion2 _ l => allp leaves2 l
    | RSlice2 s _ _ => leaves3 s
    end
  with leaves3 (s : RR3) : Prop :=
    match s with
    | ROpaque3 id bb => enc3 (mkObj3 (env3 E id) bb)
    | RSphere _ | RBox3D _ _ | RCylinder _ _ _ | RCone _ _ _ _ => True
    | RRevolve s _ | RExtrude s _ | RTwistExtrude s _ _ | RScaleExtrude s _ _ | RScaleTwistExtrude s _ _ _
    | RExtrudeRounded s _ _ | RScrew s _ _ _ _ => leaves2 s
    | RLoft s0 s1 _ _ => leaves2 s0 /\ leaves2 s1
    | RTransform3 s _ | RScaleUniform3 s _ | RCut3 s _ _ | RElongate3 s _ | RArray3 _ s _ _ _ _
    | RRotateUnion3 _ s _ _ | RRotateCopy3 s _ | ROffset3 s _ | RShell3 s _ => leaves3 s
    | RUnion3 _ l => allp leaves3 l
    | RDifference3 _ s0 _ | RIntersect3 _ s0 _ => leaves3 s0
    end.

  (* ---------------------------------------------------------- the main induction *)
  Definition Q2 (s : RR2) : Prop :=
    forall o, rwf2 s -> leaves2 s -> interp2 E s = Some o -> inv2 (rcinf2 s) (rcl2_2 s) o.
  Definition Q3 (s : RR3) : Prop :=
    forall o, rwf3 s -> leaves3 s -> interp3 E s = Some o -> inv3 (rcinf3 s) (rcl2_3 s) o.

  Lemma runion2_step l mk os o : Forall Q2 l -> mk = MinDef -> allp rwf2 l -> allp leaves2 l ->
    omap_all (map (interp2 E) l) = Some os -> @k_union2 ROps mk os = Some o ->
    inv2 (allp rcinf2 l) (allp rcl2_2 l) o.
  Proof.
    intros F -> W L Hos Hk. rewrite Forall_forall in F.
    assert (X : forall x, In x os -> exists s, In s l /\ inv2 (rcinf2 s) (rcl2_2 s) x).
    { intros x Hx. destruct (omap_all_some _ _ _ Hos x Hx) as (s & Hs & Ex). exists s. split; [exact Hs|].
      apply (F s Hs x); [apply (allp_in _ _ W), Hs | apply (allp_in _ _ L), Hs | exact Ex]. }
    split; [|split].
    - apply union2_enc with os; [|exact Hk]. intros x Hx. destruct (X x Hx) as (s & _ & I). apply I.
    - intros c. apply union2_lbinf with os; [|exact Hk]. intros x Hx. destruct (X x Hx) as (s & Hs & (_ & I & _)).
      apply I, (allp_in _ _ c), Hs.
    - intros c. apply union2_lb2 with os; [|exact Hk]. intros x Hx. destruct (X x Hx) as (s & Hs & (_ & _ & L2)).
      apply L2, (allp_in _ _ c), Hs.
  Qed.
  Lemma runion3_step l mk os o : Forall Q3 l -> mk = MinDef -> allp rwf3 l -> allp leaves3 l ->
    omap_all (map (interp3 E) l) = Some os -> @k_union3 ROps mk os = Some o ->
    inv3 (allp rcinf3 l) (allp rcl2_3 l) o.
  Proof.
    intros F -> W L Hos Hk. rewrite Forall_forall in F.
    assert (X : forall x, In x os -> exists s, In s l /\ inv3 (rcinf3 s) (rcl2_3 s) x).
    { intros x Hx. destruct (omap_all_some _ _ _ Hos x Hx) as (s & Hs & Ex). exists s. split; [exact Hs|].
      apply (F s Hs x); [apply (allp_in _ _ W), Hs | apply (allp_in _ _ L), Hs | exact Ex]. }
    split; [|split].
    - apply union3_enc with os; [|exact Hk]. intros x Hx. destruct (X x Hx) as (s & _ & I). apply I.
    - intros c. apply union3_lbinf with os; [|exact Hk]. intros x Hx. destruct (X x Hx) as (s & Hs & (_ & I & _)).
      apply I, (allp_in _ _ c), Hs.
    - intros c. apply union3_lb2 with os; [|exact Hk]. intros x Hx. destruct (X x Hx) as (s & Hs & (_ & _ & L2)).
      apply L2, (allp_in _ _ c), Hs.
  Qed.

  Lemma rtransform2_step (ci cl : Prop) (m : RM) o1 o : affine33 m -> @m33_determinant ROps m <> 0 ->
    @k_transform2 ROps o1 m = Some o -> inv2 ci cl o1 ->
    inv2 ((ci /\ is_translate2 m) \/ (cl /\ rigid33 m)) (cl /\ rigid33 m) o.
  Proof.
    intros Ha Hd Hk (En & I & L). split; [|split].
    - eapply transform2_enc; eassumption.
    - intros [[c [v ->]]|[c Hr]].
      + apply (transform2_translate_cls boxdistinf2 v o1 o Dinf_trans2 Hk), I, c.
      + apply lb2_lbinf2. eapply transform2_rigid_lb2; [exact Hr | exact Hk | apply L, c].
    - intros [c Hr]. eapply transform2_rigid_lb2; [exact Hr | exact Hk | apply L, c].
  Qed.
  Lemma rtransform3_step (ci cl : Prop) (m : RM) o1 o : affine44 m -> @m44_determinant ROps m <> 0 ->
    @k_transform3 ROps o1 m = Some o -> inv3 ci cl o1 ->
    inv3 ((ci /\ is_translate3 m) \/ (cl /\ rigid44 m)) (cl /\ rigid44 m) o.
  Proof.
    intros Ha Hd Hk (En & I & L). split; [|split].
    - eapply transform3_enc; eassumption.
    - intros [[c [v ->]]|[c Hr]].
      + apply (transform3_translate_cls boxdistinf3 v o1 o Dinf_trans3 Hk), I, c.
      + apply lb2_lbinf3. eapply transform3_rigid_lb2; [exact Hr | exact Hk | apply L, c].
    - intros [c Hr]. eapply transform3_rigid_lb2; [exact Hr | exact Hk | apply L, c].
  Qed.

  Lemma rmain2 (s : RR2) : Q2 s
  with rmain3 (s : RR3) : Q3 s.
  Proof.
    - destruct s as [id bb|segs bb|s|r|size round|l round|s off|m s0 s1|m s0 s1|s a v|s m|s k|mk s nx ny step|mk s num step|s n|s h|mk l|s a n|pr|s pitch len bb];
        intros o W LV H; cbn [rwf2 leaves2 interp2 rcinf2 rcl2_2] in *.
      + clear rmain2 rmain3. apply some_inj in H. subst o. apply enc_only2. exact LV.
      + clear rmain2 rmain3. apply enc_only2. eapply mesh2_enc; eassumption.
      + exact (rmain2 s o W LV H).
      + clear rmain2 rmain3. split; [eapply circle_enc, H | split; intros _; [apply lb2_lbinf2|]; eapply circle_lb2, H].
      + clear rmain2 rmain3. destruct W as [Hx Hy].
        split; [exact (box2_enc _ _ _ Hx Hy H) | split; [intros _; exact (box2_lbinf _ _ _ Hx Hy H) | intros Hr; exact (box2_lb2 _ _ _ Hx Hy Hr H)]].
      + clear rmain2 rmain3. destruct W as [Hl Hr]. apply inf_only2. exact (line2_lbinf _ _ _ Hl Hr H).
      + destruct W as (W & Hoff & Hc). ob H. pose proof (rmain2 s o1 W LV Hb) as I. clear rmain2 rmain3.
        assert (Old : rcinf2 s \/ rcl2_2 s -> inv2 ((rcinf2 s \/ rcl2_2 s) /\ 0 <= off) False o).
        { intros Hc'. apply inf_only2. eapply offset2_lbinf; [exact Hoff | exact H | eapply inv2_lbinf; eassumption]. }
        destruct Hc as [Hc|[Hc|[Hm HM]]]; [apply Old; now left | apply Old; now right|].
        destruct s; cbn [mesh_leaf] in Hm; try contradiction. cbn [rwf2 interp2] in W, Hb.
        split; [eapply mesh_offset2_enc; eassumption | split; [intros [[[]|[]] _] | intros []]].
      + destruct W as (Hm & W). ob H. ob H. pose proof (rmain2 s0 o1 W LV Hb) as I. clear rmain2 rmain3.
        refine (tri2 o1 o _ _ _ _ _ (fun c => c) (fun c => c) I); intros D _; eapply intersect2_cls; eassumption.
      + destruct W as (Hm & W). ob H. ob H. pose proof (rmain2 s0 o1 W LV Hb) as I. clear rmain2 rmain3.
        refine (tri2 o1 o _ _ _ _ _ (fun c => c) (fun c => c) I); intros D _; eapply difference2_cls; eassumption.
      + ob H. pose proof (rmain2 s o1 W LV Hb) as I. clear rmain2 rmain3.
        refine (tri2 o1 o _ _ _ _ _ (fun c => c) (fun c => c) I); intros D _; eapply cut2_cls; eassumption.
      + destruct W as (W & Ha & Hd). ob H. pose proof (rmain2 s o1 W LV Hb) as I. clear rmain2 rmain3.
        eapply rtransform2_step; eassumption.
      + destruct W as (W & Hk). ob H. pose proof (rmain2 s o1 W LV Hb) as I. clear rmain2 rmain3.
        refine (tri2 o1 o _ _ _ _ _ (fun c => c) (fun c => c) I); intros D (_ & _ & DS); eapply scaleuniform2_cls; eassumption.
      + destruct W as (-> & W). ob H. pose proof (rmain2 s o1 W LV Hb) as I. clear rmain2 rmain3.
        apply enc_only2. eapply array2_enc; [exact H | apply I].
      + destruct W as (-> & W & Ha & Hd). ob H. pose proof (rmain2 s o1 W LV Hb) as I. clear rmain2 rmain3.
        apply enc_only2. eapply rotateunion2_enc; [exact Ha | exact Hd | exact H | apply I].
      + ob H. pose proof (rmain2 s o1 W LV Hb) as I. clear rmain2 rmain3.
        apply enc_only2. eapply rotatecopy2_enc; [exact H | apply I].
      + ob H. pose proof (rmain2 s o1 W LV Hb) as I. clear rmain2 rmain3.
        refine (tri2 o1 o _ _ _ _ _ (fun c => c) (fun c => c) I); intros D (DM & DT & _); eapply elongate2_cls; eassumption.
      + destruct W as (Hmk & W). ob H.
        assert (F : Forall Q2 l) by (clear -rmain2; induction l as [|x l IHl]; constructor; [apply rmain2 | exact IHl]).
        clear rmain2 rmain3. eapply runion2_step; eassumption.
      + destruct W as (W & Hn). ob H. pose proof (rmain3 s o1 W LV Hb) as I. clear rmain2 rmain3.
        apply enc_only2. eapply slice2_enc; [exact Hn | exact H | apply I].
      + clear rmain2 rmain3. apply enc_only2. eapply prim2_enc; eassumption.
      + destruct W as (W & Hr). ob H. pose proof (rmain2 s o1 W LV Hb) as I. clear rmain2 rmain3.
        apply enc_only2. eapply rack2_enc; [apply I | | exact H].
        destruct s; cbn [rack_ok] in Hr; try contradiction. cbn [interp2] in Hb. unfold k_mesh2 in Hb.
        destruct segs; [discriminate|]. apply some_inj in Hb. subst o1. exact Hr.
    - destruct s as [id bb|r|size round|h r round|h r0 r1 round|s theta|s h|s h tw|s h sc|s h tw sc|s h round|s0 s1 h round
                     |s m|s k|mk l|m s0 s1|m s0 s1|s a n|s h|mk s nx ny nz step|mk s num step|s n|s off|s th|s len tp pi st];
        intros o W LV H; cbn [rwf3 leaves3 interp3 rcinf3 rcl2_3] in *.
      + clear rmain2 rmain3. apply some_inj in H. subst o. apply enc_only3. exact LV.
      + clear rmain2 rmain3. split; [eapply sphere_enc, H | split; intros _; [apply lb2_lbinf3|]; eapply sphere_lb2, H].
      + clear rmain2 rmain3. split; [eapply box3_enc, H | split; intros _; [eapply box3_lbinf, H | eapply box3_lb2, H]].
      + clear rmain2 rmain3. split; [eapply cylinder_enc, H | split; intros _; [eapply cylinder_lbinf, H | eapply cylinder_lb2, H]].
      + clear rmain2 rmain3. destruct W as [H0 H1]. apply inf_only3. exact (cone_lbinf _ _ _ _ _ H0 H1 H).
      + ob H. pose proof (rmain2 s o1 W LV Hb) as I. clear rmain2 rmain3.
        split; [eapply revolve_enc; [exact H | apply I] | split; [|intros []]].
        intros [c Hth]. eapply revolve_full_lbinf; [exact Hth | exact H | eapply inv2_lbinf; eassumption].
      + destruct W as (W & Hh). ob H. pose proof (rmain2 s o1 W LV Hb) as I. clear rmain2 rmain3.
        split; [eapply extrude_enc; [exact Hh | exact H | apply I] | split; [|intros []]].
        intros c. eapply extrude_lbinf; [exact Hh | exact H | eapply inv2_lbinf; eassumption].
      + destruct W as (W & Hh). ob H. pose proof (rmain2 s o1 W LV Hb) as I. clear rmain2 rmain3.
        apply enc_only3. eapply twistextrude_enc; [exact Hh | exact H | apply I].
      + destruct W as (W & Hh & Hx & Hy). ob H. pose proof (rmain2 s o1 W LV Hb) as I. clear rmain2 rmain3.
        apply enc_only3. eapply scaleextrude_enc; [exact Hh | exact Hx | exact Hy | exact H | apply I].
      + destruct W as (W & Hh & Hx & Hy). ob H. pose proof (rmain2 s o1 W LV Hb) as I. clear rmain2 rmain3.
        apply enc_only3. eapply scaletwistextrude_enc; [exact Hh | exact Hx | exact Hy | exact H | apply I].
      + destruct W as (W & Hh & Hc). ob H. pose proof (rmain2 s o1 W LV Hb) as I. clear rmain2 rmain3.
        split; [|split; [|intros []]].
        * destruct Hc as [->|Hc]; [eapply extruderounded0_enc; [exact Hh | exact H | apply I]|].
          apply lbinf3_enc. eapply extruderounded_lbinf; [exact Hh | exact H | eapply inv2_lbinf; eassumption].
        * intros c. eapply extruderounded_lbinf; [exact Hh | exact H | eapply inv2_lbinf; eassumption].
      + destruct W as (W0 & W1 & Hc). destruct LV as [LV0 LV1]. ob H. ob H.
        pose proof (rmain2 s0 o1 W0 LV0 Hb) as I0. pose proof (rmain2 s1 o0 W1 LV1 Hb0) as I1.
        clear rmain2 rmain3. split; [|split; [|intros []]].
        * destruct Hc as [->|[c0 c1]]; [eapply loft0_enc; [exact H | apply I0 | apply I1]|].
          apply lbinf3_enc. eapply loft_lbinf; [exact H | eapply inv2_lbinf; eassumption | eapply inv2_lbinf; eassumption].
        * intros [c0 c1]. eapply loft_lbinf; [exact H | eapply inv2_lbinf; eassumption | eapply inv2_lbinf; eassumption].
      + destruct W as (W & Ha & Hd). ob H. pose proof (rmain3 s o1 W LV Hb) as I. clear rmain2 rmain3.
        eapply rtransform3_step; eassumption.
      + destruct W as (W & Hk). ob H. pose proof (rmain3 s o1 W LV Hb) as I. clear rmain2 rmain3.
        refine (tri3 o1 o _ _ _ _ _ (fun c => c) (fun c => c) I); intros D (_ & _ & DS); eapply scaleuniform3_cls; eassumption.
      + destruct W as (Hmk & W). ob H.
        assert (F : Forall Q3 l) by (clear -rmain3; induction l as [|x l IHl]; constructor; [apply rmain3 | exact IHl]).
        clear rmain2 rmain3. eapply runion3_step; eassumption.
      + destruct W as (Hm & W). ob H. ob H. pose proof (rmain3 s0 o1 W LV Hb) as I. clear rmain2 rmain3.
        refine (tri3 o1 o _ _ _ _ _ (fun c => c) (fun c => c) I); intros D _; eapply difference3_cls; eassumption.
      + destruct W as (Hm & W). ob H. ob H. pose proof (rmain3 s0 o1 W LV Hb) as I. clear rmain2 rmain3.
        refine (tri3 o1 o _ _ _ _ _ (fun c => c) (fun c => c) I); intros D _; eapply intersect3_cls; eassumption.
      + ob H. pose proof (rmain3 s o1 W LV Hb) as I. clear rmain2 rmain3.
        refine (tri3 o1 o _ _ _ _ _ (fun c => c) (fun c => c) I); intros D _; eapply cut3_cls; eassumption.
      + ob H. pose proof (rmain3 s o1 W LV Hb) as I. clear rmain2 rmain3.
        refine (tri3 o1 o _ _ _ _ _ (fun c => c) (fun c => c) I); intros D (DM & DT & _); eapply elongate3_cls; eassumption.
      + destruct W as (-> & W). ob H. pose proof (rmain3 s o1 W LV Hb) as I. clear rmain2 rmain3.
        apply enc_only3. eapply array3_enc; [exact H | apply I].
      + destruct W as (-> & W & Ha & Hd). ob H. pose proof (rmain3 s o1 W LV Hb) as I. clear rmain2 rmain3.
        apply enc_only3. eapply rotateunion3_enc; [exact Ha | exact Hd | exact H | apply I].
      + ob H. pose proof (rmain3 s o1 W LV Hb) as I. clear rmain2 rmain3.
        apply enc_only3. eapply rotatecopy3_enc; [exact H | apply I].
      + destruct W as (W & Hoff & Hc). ob H. pose proof (rmain3 s o1 W LV Hb) as I. clear rmain2 rmain3.
        apply inf_only3. eapply offset3_lbinf; [exact Hoff | exact H | eapply inv3_lbinf; eassumption].
      + destruct W as (W & Hc). ob H. pose proof (rmain3 s o1 W LV Hb) as I. clear rmain2 rmain3.
        apply inf_only3. eapply shell3_lbinf; [exact H | eapply inv3_lbinf; eassumption].
      + destruct W as (W & Htop). ob H. pose proof (rmain2 s o1 W LV Hb) as I. clear rmain2 rmain3.
        apply enc_only3. eapply screw_enc; [apply I | | exact H].
        destruct s; cbn [mesh_top_nonneg] in Htop; try contradiction. cbn [interp2] in Hb. unfold k_mesh2 in Hb.
        destruct segs; [discriminate|]. apply some_inj in Hb. subst o1. exact Htop.
  Qed.

  Theorem reified_compositions3 : forall s o, rwf3 s -> leaves3 s -> interp3 E s = Some o -> enc3 o.
  Proof. intros s o W L H. apply (rmain3 s o W L H). Qed.
  Theorem reified_compositions2 : forall s o, rwf2 s -> leaves2 s -> interp2 E s = Some o -> enc2 o.
  Proof. intros s o W L H. apply (rmain2 s o W L H). Qed.
End Leaves.

(* a tree without opaque leaves needs no leaf hypothesis *)
Lemma opaque_free_leaves2 E (s : RR2) : opaque_free2 s = true -> leaves2 E s
with opaque_free_leaves3 E (s : RR3) : opaque_free3 s = true -> leaves3 E s.
Proof.
  - destruct s; cbn [opaque_free2 leaves2]; intros H; try exact I; try discriminate;
      try (apply opaque_free_leaves2; exact H);
      try (apply andb_true_iff in H; destruct H as [H0 H1]; apply opaque_free_leaves2; exact H0).
    + induction l as [|x l IHl]; cbn [forallb allp] in *; [exact I|].
      apply andb_true_iff in H. destruct H as [Hx Hl]. split; [apply opaque_free_leaves2, Hx | apply IHl, Hl].
    + apply opaque_free_leaves3; exact H.
  - destruct s; cbn [opaque_free3 leaves3]; intros H; try exact I; try discriminate;
      try (apply opaque_free_leaves2; exact H); try (apply opaque_free_leaves3; exact H);
      try (apply andb_true_iff in H; destruct H as [H0 H1]; apply opaque_free_leaves3; exact H0).
    + apply andb_true_iff in H; destruct H as [H0 H1]. split; apply opaque_free_leaves2; assumption.
    + induction l as [|x l IHl]; cbn [forallb allp] in *; [exact I|].
      apply andb_true_iff in H. destruct H as [Hx Hl]. split; [apply opaque_free_leaves3, Hx | apply IHl, Hl].
Qed.
