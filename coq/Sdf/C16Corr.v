(* Correspondence for C16: the FOps instance of Geo/Box.v and Sdf/Union2.v against
   the observed results of Box2/Box3.MinMaxDist2, Interval.Overlap, UnionSDF2.Evaluate(Slow);
   and the exact QOps specification against the same results. *)
From Coq Require Import List ZArith NArith QArith Floats Bool.
From Sdfx Require Import Num.Ops Num.FInst Num.QInst Geo.Vec Geo.Box Sdf.Union2.
Import ListNotations.

Definition fv2 (x y : float) : V2 FOps := mkV2 x y.
Definition fv3 (x y z : float) : V3 FOps := mkV3 x y z.
Definition qv2 (x y : float) : V2 QOps := mkV2 (F2Q x) (F2Q y).
Definition qv3 (x y z : float) : V3 QOps := mkV3 (F2Q x) (F2Q y) (F2Q z).

(* relative agreement of an implementation float with an exact rational *)
Definition qclose (exact : bool) (g : float) (s : Q) : bool :=
  let gq := F2Q g in
  if exact then Qeq_bool gq s
  else Qle_bool (Qabs.Qabs (gq - s)) ((1 # 1000000000000) * (Qabs.Qabs s) + (1 # 10 ^ 300)).

(* box2 case: id, exact-regime flag, lx ly hx hy px py, go lo, go hi *)
Definition case2 := (N * bool * (float * float * float * float) * (float * float) * (float * float))%type.
Definition ok2 (c : case2) : bool * bool :=
  let '(id, ex, (lx, ly, hx, hy), (px, py), (glo, ghi)) := c in
  let '(mlo, mhi) := @box2_minmax FOps (mkBox2 (fv2 lx ly) (fv2 hx hy)) (fv2 px py) in
  let '(slo, shi) := @spec2_minmax QOps (mkBox2 (qv2 lx ly) (qv2 hx hy)) (qv2 px py) in
  (fclose mlo glo && fclose mhi ghi && qclose ex glo slo && qclose ex ghi shi,
   fsame mlo glo && fsame mhi ghi).
Definition id2 (c : case2) : N := let '(id, _, _, _, _) := c in id.
Definition mismatches2 (cs : list case2) : list N := map id2 (filter (fun c => negb (fst (ok2 c))) cs).
Definition inexact2 (cs : list case2) : list N := map id2 (filter (fun c => negb (snd (ok2 c))) cs).

Definition case3 := (N * bool * (float * float * float * float * float * float) * (float * float * float) * (float * float))%type.
Definition ok3 (c : case3) : bool * bool :=
  let '(id, ex, (lx, ly, lz, hx, hy, hz), (px, py, pz), (glo, ghi)) := c in
  let '(mlo, mhi) := @box3_minmax FOps (mkBox3 (fv3 lx ly lz) (fv3 hx hy hz)) (fv3 px py pz) in
  let '(slo, shi) := @spec3_minmax QOps (mkBox3 (qv3 lx ly lz) (qv3 hx hy hz)) (qv3 px py pz) in
  (fclose mlo glo && fclose mhi ghi && qclose ex glo slo && qclose ex ghi shi,
   fsame mlo glo && fsame mhi ghi).
Definition id3 (c : case3) : N := let '(id, _, _, _, _) := c in id.
Definition mismatches3 (cs : list case3) : list N := map id3 (filter (fun c => negb (fst (ok3 c))) cs).
Definition inexact3 (cs : list case3) : list N := map id3 (filter (fun c => negb (snd (ok3 c))) cs).

(* overlap case *)
Definition caseo := (N * (float * float) * (float * float) * bool)%type.
Definition mismatcheso (cs : list caseo) : list N :=
  map (fun c : caseo => let '(id, _, _, _) := c in id)
      (filter (fun c : caseo => let '(id, a, b, g) := c in negb (Bool.eqb (@iv_overlap FOps a b) g)) cs).

(* union case: id, blend (None = plain minimum, Some k = PolyMin k), point,
   operands (box, value at p), go Evaluate, go EvaluateSlow *)
Definition caseu := (N * option float * (float * float) *
                     list ((float * float * float * float) * float) * float * float)%type.
Definition oku (c : caseu) : bool :=
  let '(id, bl, (px, py), ops, ge, gs) := c in
  let p := fv2 px py in
  let iops := map (fun o : (float * float * float * float) * float =>
                     let '((lx, ly, hx, hy), x) := o in
                     (@box2_minmax FOps (mkBox2 (fv2 lx ly) (fv2 hx hy)) p, x)) ops in
  let '(blend, minf) := match bl with
                        | None => (false, omin FOps)
                        | Some k => (true, fun a b => @poly FOps a b k)
                        end in
  fclose (@evaluate FOps blend minf iops) ge && fclose (@evaluate_slow FOps minf iops) gs.
Definition mismatchesu (cs : list caseu) : list N :=
  map (fun c : caseu => let '(id, _, _, _, _, _) := c in id) (filter (fun c => negb (oku c)) cs).

(* overlap cases judged three ways (added for the scale / ulp-neighbourhood strata of
   harness/cmd/c16/scales.go): the float instance of the model, the rational instance of the model
   on the exact values of the end points, and the exact rational specification "the intervals share
   a value" in the form max of the lower ends <= min of the upper ends (C16_overlap_iff). *)
Definition qmax2 (x y : Q) : Q := if Qle_bool x y then y else x.
Definition qmin2 (x y : Q) : Q := if Qle_bool x y then x else y.
Definition share_q (a b : float * float) : bool :=
  Qle_bool (qmax2 (F2Q (fst a)) (F2Q (fst b))) (qmin2 (F2Q (snd a)) (F2Q (snd b))).
Definition oko (c : caseo) : bool :=
  let '(id, a, b, g) := c in
  Bool.eqb (@iv_overlap FOps a b) g &&
  Bool.eqb (@iv_overlap QOps (F2Q (fst a), F2Q (snd a)) (F2Q (fst b), F2Q (snd b))) g &&
  Bool.eqb (share_q a b) g.
Definition mismatchesoq (cs : list caseo) : list N :=
  map (fun c : caseo => let '(id, _, _, _) := c in id) (filter (fun c => negb (oko c)) cs).
