(* C02 over the reals: every combinator of Sdf/Shape.v (the statement-by-statement model of
   sdf2.go / sdf3.go) evaluates to the set / geometric operation it names.
   Part 1: point maps (transform, scale, elongate), min/max compositions and their folds
   (union, array, rotate-union), difference, intersection, cut, offset, shell. *)
From Coq Require Import Reals Lra Lia List Bool ZArith.
From Sdfx Require Import Num.Ops Num.RInst Geo.Vec Geo.Box Geo.BoxR Geo.NormR Geo.MinMaxR Geo.Mat Geo.MatR
  Sdf.Union2 Sdf.Union2R Sdf.Shape Sdf.ShapeR Sdf.BlendR.
Import ListNotations.
Open Scope R_scope.

(* ------------------------------------------------------------------ Transform / ScaleUniform *)
Theorem transform3_sem (s o : RObj3) (m : RM) : k_transform3 s m = Some o ->
  det44 m <> 0 -> affine44 m -> forall q, ev3 o (mp44 m q) = ev3 s q.
Proof.
  intros [= <-] D A q. cbn [ev3]. change (m44_mulposition (m44_inverse m) (mp44 m q)) with (mp44 (inv44 m) (mp44 m q)).
  rewrite inverse_position_44 by assumption. reflexivity.
Qed.
Theorem transform2_sem (s o : RObj2) (m : RM) : k_transform2 s m = Some o ->
  det33 m <> 0 -> affine33 m -> forall q, ev2 o (mp33 m q) = ev2 s q.
Proof.
  intros [= <-] D A q. cbn [ev2]. change (m33_mulposition (m33_inverse m) (mp33 m q)) with (mp33 (inv33 m) (mp33 m q)).
  rewrite inverse_position_33 by assumption. reflexivity.
Qed.
(* ... equivalently: the value at p is the operand's value at the pre-image of p *)
Theorem transform3_preimage (s o : RObj3) (m : RM) : k_transform3 s m = Some o ->
  det44 m <> 0 -> affine44 m -> forall p, exists q, mp44 m q = p /\ ev3 o p = ev3 s q.
Proof.
  intros H D A p. exists (mp44 (inv44 m) p). split; [apply position_inverse_44; assumption|].
  injection H as <-. reflexivity.
Qed.

Theorem scale3_sem (s o : RObj3) (k : R) : k_scaleuniform3 s k = Some o -> k <> 0 ->
  forall q, ev3 o (@v3muls ROps q k) = k * ev3 s q.
Proof.
  intros [= <-] K q. cbn [ev3]. destruct q as [x y z]. unfold v3muls; cbn [wx wy wz].
  change (omul ROps) with Rmult. change (odiv ROps) with Rdiv. change (o1 ROps) with 1.
  replace (x * k * (1 / k)) with x by (rfield; exact K).
  replace (y * k * (1 / k)) with y by (rfield; exact K).
  replace (z * k * (1 / k)) with z by (rfield; exact K). rring.
Qed.
Theorem scale2_sem (s o : RObj2) (k : R) : k_scaleuniform2 s k = Some o -> k <> 0 ->
  forall q, ev2 o (@v2muls ROps q k) = k * ev2 s q.
Proof.
  intros [= <-] K q. cbn [ev2]. destruct q as [x y]. unfold v2muls; cbn [vx vy].
  change (omul ROps) with Rmult. change (odiv ROps) with Rdiv. change (o1 ROps) with 1.
  replace (x * k * (1 / k)) with x by (rfield; exact K).
  replace (y * k * (1 / k)) with y by (rfield; exact K). rring.
Qed.

(* ------------------------------------------------------------------ list minima *)
Lemma lmin_app x l1 l2 : lmin x (l1 ++ l2) = lmin (lmin x l1) l2.
Proof. revert x; induction l1 as [|y l IH]; intros; cbn; [reflexivity | apply IH]. Qed.
Lemma lmin_neg_iff x l : lmin x l < 0 <-> x < 0 \/ exists y, In y l /\ y < 0.
Proof.
  split.
  - intros H. destruct (lmin_in x l) as [E|I]; [left; lra | right; eauto].
  - destruct (lmin_le x l) as [A B]. intros [H|(y & I & H)]; [lra | specialize (B y I); lra].
Qed.
Lemma lmin_mono x x' l : x <= x' -> lmin x l <= lmin x' l.
Proof.
  revert x x'; induction l as [|y l IH]; intros x x' H; cbn; [exact H|].
  apply IH. unfold Rmin. destruct (Rle_dec x y), (Rle_dec x' y); lra.
Qed.
(* the MaxFloat64 sentinel of the array / rotate-union folds disappears as soon as one value is below it *)
Lemma lmin_sentinel m x l : x <= m -> lmin m (x :: l) = lmin x l.
Proof. intros H. cbn. rewrite Rmin_right by exact H. reflexivity. Qed.

(* a fold with the default minimum is the list minimum; with a blend it lies below it *)
Lemma fold_min_lmin {A} (f : A -> R) (l : list A) d :
  fold_left (fun d x => @min_apply ROps MinDef d (f x)) l d = lmin d (map f l).
Proof. revert d; induction l as [|x l IH]; intros; cbn; [reflexivity | apply IH]. Qed.
Definition blend_ok (m : MinK ROps) : Prop := match m with MinPoly k => 0 < k | _ => True end.
Lemma fold_blend_le_lmin {A} (m : MinK ROps) (f : A -> R) (l : list A) d d' : blend_ok m -> d <= d' ->
  fold_left (fun d x => @min_apply ROps m d (f x)) l d <= lmin d' (map f l).
Proof.
  intros M. revert d d'; induction l as [|x l IH]; intros d d' H; cbn [fold_left map lmin]; [exact H|].
  apply IH. pose proof (min_blend_never_removes m d (f x) M).
  unfold Rmin in *. destruct (Rle_dec d (f x)), (Rle_dec d' (f x)); lra.
Qed.

(* ------------------------------------------------------------------ Union3D *)
Theorem union3_sem (s0 : RObj3) (r : list RObj3) (o : RObj3) : k_union3 MinDef (s0 :: r) = Some o ->
  forall p, ev3 o p = lmin (ev3 s0 p) (map (fun x => ev3 x p) r).
Proof.
  intros H p. destruct r as [|s1 r]; unfold k_union3, k_union2 in H; injection H as <-; [reflexivity|].
  cbn [ev3]. exact (fold_min_lmin (fun x => ev3 x p) (s1 :: r) (ev3 s0 p)).
Qed.
(* inside the union iff inside some operand *)
Corollary union3_inside (l : list RObj3) (o : RObj3) : k_union3 MinDef l = Some o ->
  forall p, ev3 o p < 0 <-> exists x, In x l /\ ev3 x p < 0.
Proof.
  destruct l as [|s0 r]; [discriminate|]. intros H p. rewrite (union3_sem s0 r o H). rewrite lmin_neg_iff. split.
  - intros [A|(y & I & Y)]; [exists s0; split; [now left | exact A]|].
    apply in_map_iff in I. destruct I as (x & <- & I). exists x. split; [now right | exact Y].
  - intros (x & [<-|I] & X); [now left|]. right. exists (ev3 x p). split; [|exact X].
    apply in_map_iff. eauto.
Qed.
(* with a blend installed the union only grows *)
Theorem union3_blend_never_removes (m : MinK ROps) (s0 : RObj3) (r : list RObj3) (o : RObj3) :
  blend_ok m -> k_union3 m (s0 :: r) = Some o ->
  forall p, ev3 o p <= lmin (ev3 s0 p) (map (fun x => ev3 x p) r).
Proof.
  intros M H p. destruct r as [|s1 r]; unfold k_union3, k_union2 in H; injection H as <-; [apply Rle_refl|].
  cbn [ev3]. exact (fold_blend_le_lmin m (fun x => ev3 x p) (s1 :: r) (ev3 s0 p) (ev3 s0 p) M (Rle_refl _)).
Qed.

(* ------------------------------------------------------------------ Union2D (box-pruned evaluation) *)
Definition opdata (p : RV2) (x : RObj2) : IV * R := (box2_minmax (bb2 x) p, ev2 x p).
Theorem union2_sem (s0 : RObj2) (r : list RObj2) (o : RObj2) : k_union2 MinDef (s0 :: r) = Some o ->
  forall p, let ops := map (opdata p) (s0 :: r) in
  Forall iv_ok ops -> Forall lower_ok ops -> Forall upper_ok ops ->
  ev2 o p = lmin (ev2 s0 p) (map (fun x => ev2 x p) r).
Proof.
  intros H p ops I L U. destruct r as [|s1 r]; unfold k_union3, k_union2 in H; injection H as <-; [reflexivity|].
  change (@evaluate ROps false Rmin ops = lmin (ev2 s0 p) (map (fun x => ev2 x p) (s1 :: r))).
  rewrite union_prune_eq; try assumption; [|discriminate].
  rewrite (evaluate_slow_lmin ops (opdata p s0) (map (opdata p) (s1 :: r))) by reflexivity.
  cbn [snd opdata]. rewrite map_map. reflexivity.
Qed.
(* with a blend the repaired Evaluate does not prune: the fold, below the list minimum *)
Theorem union2_blend_never_removes (m : MinK ROps) (s0 : RObj2) (r : list RObj2) (o : RObj2) :
  blend_ok m -> min_is_blend m = true -> k_union2 m (s0 :: r) = Some o ->
  forall p, ev2 o p <= lmin (ev2 s0 p) (map (fun x => ev2 x p) r).
Proof.
  intros M B H p. destruct r as [|s1 r]; unfold k_union3, k_union2 in H; injection H as <-; [apply Rle_refl|].
  cbn [ev2]. rewrite B.
  assert (G : forall l d d', d <= d' -> @slow_loop ROps (min_apply m) (map snd (map (opdata p) l)) false d
                          <= lmin d' (map (fun x => ev2 x p) l)).
  { induction l as [|x l IH]; intros d0 d' Hd; cbn [map snd slow_loop lmin opdata]; [exact Hd|].
    apply IH. pose proof (min_blend_never_removes m d0 (ev2 x p) M).
    unfold Rmin in *. destruct (Rle_dec d0 (ev2 x p)), (Rle_dec d' (ev2 x p)); lra. }
  change (@slow_loop ROps (min_apply m) (map snd (map (opdata p) (s1 :: r))) false (ev2 s0 p)
          <= lmin (ev2 s0 p) (map (fun x => ev2 x p) (s1 :: r))).
  apply G. apply Rle_refl.
Qed.

(* ------------------------------------------------------------------ Array *)
(* i, i+1, ..., i+n-1 *)
Fixpoint zfrom (i : Z) (n : nat) : list Z := match n with O => [] | S n' => i :: zfrom (i + 1) n' end.
Lemma count_loop_lmin (L : Z -> list R) (f : Z -> R -> R) n i d :
  (forall j d, f j d = lmin d (L j)) -> @count_loop R n i f d = lmin d (flat_map L (zfrom i n)).
Proof.
  intros F. revert i d; induction n as [|n IH]; intros; cbn [count_loop zfrom flat_map]; [reflexivity|].
  rewrite IH, F, lmin_app. reflexivity.
Qed.

Lemma count_loop_lmin1 (g : Z -> R) (f : Z -> R -> R) n i d :
  (forall j d, f j d = Rmin d (g j)) -> @count_loop R n i f d = lmin d (map g (zfrom i n)).
Proof.
  intros F. revert i d; induction n as [|n IH]; intros; cbn [count_loop zfrom map lmin]; [reflexivity|].
  rewrite IH, F. reflexivity.
Qed.

Definition array3_points (nx ny nz : Z) (step p : RV3) : list RV3 :=
  flat_map (fun j => flat_map (fun k => map (fun l =>
     (mkV3 (wx p - IZR j * wx step) (wy p - IZR k * wy step) (wz p - IZR l * wz step) : RV3))
     (zfrom 0 (Z.to_nat nz))) (zfrom 0 (Z.to_nat ny))) (zfrom 0 (Z.to_nat nx)).
Definition array2_points (nx ny : Z) (step p : RV2) : list RV2 :=
  flat_map (fun j => map (fun k => (mkV2 (vx p - IZR j * vx step) (vy p - IZR k * vy step) : RV2))
     (zfrom 0 (Z.to_nat ny))) (zfrom 0 (Z.to_nat nx)).

Lemma flat_map_map {A B C} (g : B -> C) (f : A -> list B) l : map g (flat_map f l) = flat_map (fun a => map g (f a)) l.
Proof. induction l as [|a l IH]; cbn; [reflexivity|]. rewrite map_app, IH. reflexivity. Qed.

Theorem array3_sem (s o : RObj3) nx ny nz step : k_array3 MinDef s nx ny nz step = Some o ->
  forall p, ev3 o p = lmin Rmaxfloat (map (ev3 s) (array3_points nx ny nz step p)).
Proof.
  unfold k_array3. destruct ((nx <=? 0)%Z || (ny <=? 0)%Z || (nz <=? 0)%Z); [discriminate|].
  intros [= <-] p. cbn [ev3]. unfold array3_points. change (omaxf ROps) with Rmaxfloat.
  rewrite !flat_map_map.
  apply count_loop_lmin. intros j d. rewrite flat_map_map. apply count_loop_lmin. intros k d'.
  rewrite map_map. apply count_loop_lmin1. intros l d''. reflexivity.
Qed.
Theorem array2_sem (s o : RObj2) nx ny step : k_array2 MinDef s nx ny step = Some o ->
  forall p, ev2 o p = lmin Rmaxfloat (map (ev2 s) (array2_points nx ny step p)).
Proof.
  unfold k_array2. destruct ((nx <=? 0)%Z || (ny <=? 0)%Z); [discriminate|].
  intros [= <-] p. cbn [ev2]. unfold array2_points. change (omaxf ROps) with Rmaxfloat.
  rewrite !flat_map_map.
  apply count_loop_lmin. intros j d. rewrite map_map. apply count_loop_lmin1. intros k d'. reflexivity.
Qed.
(* the first copy is the operand itself, so the sentinel is gone whenever that value is <= MaxFloat64:
   the array is exactly the minimum over the grid of translates *)
Lemma zfrom_pos n i : (0 < n)%nat -> exists r, zfrom i n = i :: r.
Proof. destruct n; [lia|]. intros _. eexists; reflexivity. Qed.
Corollary array3_is_grid_min (s o : RObj3) nx ny nz step : k_array3 MinDef s nx ny nz step = Some o ->
  forall p, ev3 s p <= Rmaxfloat ->
  exists rest, array3_points nx ny nz step p = p :: rest /\ ev3 o p = lmin (ev3 s p) (map (ev3 s) rest).
Proof.
  intros H p B. rewrite (array3_sem s o nx ny nz step H p).
  unfold k_array3 in H. destruct ((nx <=? 0)%Z || (ny <=? 0)%Z || (nz <=? 0)%Z) eqn:E; [discriminate|].
  apply orb_false_iff in E. destruct E as [E E3]. apply orb_false_iff in E. destruct E as [E1 E2].
  apply Z.leb_gt in E1, E2, E3.
  destruct (zfrom_pos (Z.to_nat nx) 0 ltac:(lia)) as (rx & Ex).
  destruct (zfrom_pos (Z.to_nat ny) 0 ltac:(lia)) as (ry & Ey).
  destruct (zfrom_pos (Z.to_nat nz) 0 ltac:(lia)) as (rz & Ez).
  unfold array3_points. rewrite Ex, Ey, Ez. cbn [flat_map map app].
  assert (P0 : (mkV3 (wx p - 0 * wx step) (wy p - 0 * wy step) (wz p - 0 * wz step) : RV3) = p).
  { destruct p as [x y z]; cbn [wx wy wz]. f_equal; rring. }
  rewrite P0. eexists. split; [reflexivity|]. apply lmin_sentinel, B.
Qed.

(* ------------------------------------------------------------------ RotateUnion *)
Fixpoint rots44 (n : nat) (s rot : RM) : list RM :=
  match n with O => [] | S n' => rot :: rots44 n' s (mul44 rot s) end.
Fixpoint rots33 (n : nat) (s rot : RM) : list RM :=
  match n with O => [] | S n' => rot :: rots33 n' s (mul33 rot s) end.
Lemma rots44_pow s n i : rots44 n s (rpow44 s i) = map (rpow44 s) (seq i n).
Proof. revert i; induction n as [|n IH]; intros; cbn [rots44 seq map]; [reflexivity|]. f_equal. apply (IH (S i)). Qed.
Lemma rots33_pow s n i : rots33 n s (rpow33 s i) = map (rpow33 s) (seq i n).
Proof. revert i; induction n as [|n IH]; intros; cbn [rots33 seq map]; [reflexivity|]. f_equal. apply (IH (S i)). Qed.

Lemma rotunion_loop3_lmin (f : RV3 -> R) n s rot p d :
  @rotunion_loop3 ROps MinDef f n s rot p d = lmin d (map (fun r => f (mp44 r p)) (rots44 n s rot)).
Proof. revert rot d; induction n as [|n IH]; intros; cbn [rotunion_loop3 rots44 map lmin]; [reflexivity | apply IH]. Qed.
Lemma rotunion_loop2_lmin (f : RV2 -> R) n s rot p d :
  @rotunion_loop2 ROps MinDef f n s rot p d = lmin d (map (fun r => f (mp33 r p)) (rots33 n s rot)).
Proof. revert rot d; induction n as [|n IH]; intros; cbn [rotunion_loop2 rots33 map lmin]; [reflexivity | apply IH]. Qed.

Theorem rotateunion3_sem (s o : RObj3) num step : k_rotateunion3 MinDef s num step = Some o ->
  forall p, ev3 o p = lmin Rmaxfloat (map (fun i => ev3 s (mp44 (rpow44 (inv44 step) i) p)) (seq 0 (Z.to_nat num))).
Proof.
  unfold k_rotateunion3. destruct (num <=? 0)%Z; [discriminate|].
  destruct (rotunion_box3 _ _ _ _ _) as [bmin bmax]. intros [= <-] p. cbn [ev3].
  rewrite rotunion_loop3_lmin. change (omaxf ROps) with Rmaxfloat.
  change (@mk_identity3d ROps) with (rpow44 (inv44 step) 0). change (m44_inverse step) with (inv44 step).
  rewrite rots44_pow, map_map. reflexivity.
Qed.
Theorem rotateunion2_sem (s o : RObj2) num step : k_rotateunion2 MinDef s num step = Some o ->
  forall p, ev2 o p = lmin Rmaxfloat (map (fun i => ev2 s (mp33 (rpow33 (inv33 step) i) p)) (seq 0 (Z.to_nat num))).
Proof.
  unfold k_rotateunion2. destruct (num <=? 0)%Z; [discriminate|].
  destruct (rotunion_box2 _ _ _ _ _) as [bmin bmax]. intros [= <-] p. cbn [ev2].
  rewrite rotunion_loop2_lmin. change (omaxf ROps) with Rmaxfloat.
  change (@mk_identity2d ROps) with (rpow33 (inv33 step) 0). change (m33_inverse step) with (inv33 step).
  rewrite rots33_pow, map_map. reflexivity.
Qed.
(* copy i is the operand moved by step^i: at the image of q under step^i the i-th term is the operand's value at q *)
Theorem rotateunion3_copy (s : RObj3) step i q : det44 step <> 0 -> affine44 step ->
  ev3 s (mp44 (rpow44 (inv44 step) i) (mp44 (rpow44 step i) q)) = ev3 s q.
Proof. intros D A. rewrite rpow44_inverse by assumption. reflexivity. Qed.
Theorem rotateunion2_copy (s : RObj2) step i q : det33 step <> 0 -> affine33 step ->
  ev2 s (mp33 (rpow33 (inv33 step) i) (mp33 (rpow33 step i) q)) = ev2 s q.
Proof. intros D A. rewrite rpow33_inverse by assumption. reflexivity. Qed.
(* copy 0 is the operand itself *)
Corollary rotateunion3_is_orbit_min (s o : RObj3) num step : k_rotateunion3 MinDef s num step = Some o ->
  forall p, ev3 s p <= Rmaxfloat ->
  ev3 o p = lmin (ev3 s p) (map (fun i => ev3 s (mp44 (rpow44 (inv44 step) i) p)) (seq 1 (Z.to_nat num - 1))).
Proof.
  intros H p B. rewrite (rotateunion3_sem s o num step H p).
  unfold k_rotateunion3 in H. destruct (num <=? 0)%Z eqn:E; [discriminate|]. apply Z.leb_gt in E.
  destruct (Z.to_nat num) as [|n] eqn:En; [lia|]. cbn [seq map]. replace (S n - 1)%nat with n by lia.
  cbn [rpow44]. rewrite mp44_id. apply lmin_sentinel, B.
Qed.

(* ------------------------------------------------------------------ Difference / Intersection *)
Theorem difference3_sem (s0 s1 o : RObj3) : k_difference3 MaxDef s0 s1 = Some o ->
  forall p, ev3 o p = Rmax (ev3 s0 p) (- ev3 s1 p).
Proof. intros [= <-] p. reflexivity. Qed.
Theorem difference2_sem (s0 s1 o : RObj2) : k_difference2 MaxDef s0 s1 = Some o ->
  forall p, ev2 o p = Rmax (ev2 s0 p) (- ev2 s1 p).
Proof. intros [= <-] p. reflexivity. Qed.
(* keeps a, removes b: inside iff inside a and strictly outside b *)
Corollary difference3_keeps_a_removes_b (s0 s1 o : RObj3) : k_difference3 MaxDef s0 s1 = Some o ->
  forall p, ev3 o p < 0 <-> ev3 s0 p < 0 /\ 0 < ev3 s1 p.
Proof.
  intros H p. rewrite (difference3_sem _ _ _ H). unfold Rmax. destruct (Rle_dec _ _); split; intros; lra.
Qed.
Corollary difference2_keeps_a_removes_b (s0 s1 o : RObj2) : k_difference2 MaxDef s0 s1 = Some o ->
  forall p, ev2 o p < 0 <-> ev2 s0 p < 0 /\ 0 < ev2 s1 p.
Proof.
  intros H p. rewrite (difference2_sem _ _ _ H). unfold Rmax. destruct (Rle_dec _ _); split; intros; lra.
Qed.
Theorem intersect3_sem (s0 s1 o : RObj3) : k_intersect3 MaxDef s0 s1 = Some o ->
  forall p, ev3 o p = Rmax (ev3 s0 p) (ev3 s1 p) /\ (ev3 o p < 0 <-> ev3 s0 p < 0 /\ ev3 s1 p < 0).
Proof.
  intros [= <-] p. cbn [ev3 max_apply]. change (omax ROps) with Rmax. split; [reflexivity|].
  unfold Rmax. destruct (Rle_dec _ _); split; intros; lra.
Qed.
Theorem intersect2_sem (s0 s1 o : RObj2) : k_intersect2 MaxDef s0 s1 = Some o ->
  forall p, ev2 o p = Rmax (ev2 s0 p) (ev2 s1 p) /\ (ev2 o p < 0 <-> ev2 s0 p < 0 /\ ev2 s1 p < 0).
Proof.
  intros [= <-] p. cbn [ev2 max_apply]. change (omax ROps) with Rmax. split; [reflexivity|].
  unfold Rmax. destruct (Rle_dec _ _); split; intros; lra.
Qed.
(* blended difference / intersection never add material *)
Theorem difference3_blend_never_adds (m : MaxK ROps) (s0 s1 o : RObj3) :
  (match m with MaxPoly k => 0 < k | _ => True end) -> k_difference3 m s0 s1 = Some o ->
  forall p, Rmax (ev3 s0 p) (- ev3 s1 p) <= ev3 o p.
Proof. intros M [= <-] p. cbn [ev3]. apply max_blend_never_removes, M. Qed.
Theorem intersect3_blend_never_adds (m : MaxK ROps) (s0 s1 o : RObj3) :
  (match m with MaxPoly k => 0 < k | _ => True end) -> k_intersect3 m s0 s1 = Some o ->
  forall p, Rmax (ev3 s0 p) (ev3 s1 p) <= ev3 o p.
Proof. intros M [= <-] p. cbn [ev3]. apply max_blend_never_removes, M. Qed.

(* ------------------------------------------------------------------ Cut *)
Definition dot3 (a b : RV3) : R := wx a * wx b + wy a * wy b + wz a * wz b.
(* 3D: the half-space on the side the normal points to stays *)
Theorem cut3_sem (s o : RObj3) (a n : RV3) : k_cut3 s a n = Some o -> len3 n <> 0 ->
  forall p, ev3 o p = Rmax (- (dot3 (sub3 p a) n / len3 n)) (ev3 s p) /\
            (ev3 o p < 0 <-> ev3 s p < 0 /\ 0 < dot3 (sub3 p a) n).
Proof.
  intros H L p. unfold k_cut3 in H. cbv zeta in H. injection H as Ho.
  assert (EV : ev3 o p = Rmax (@v3dot ROps (v3sub p a) (v3neg (v3normalize n))) (ev3 s p)) by (rewrite <- Ho; reflexivity).
  assert (E : @v3dot ROps (v3sub p a) (v3neg (v3normalize n)) = - (dot3 (sub3 p a) n / len3 n)).
  { unfold v3dot, v3neg, v3normalize, v3muls, v3sub, dot3, sub3. cbn [wx wy wz]. rewrite v3len_eq.
    change (omul ROps) with Rmult. change (oadd ROps) with Rplus. change (osub ROps) with Rminus.
    change (oneg ROps) with Ropp. change (odiv ROps) with Rdiv. change (o1 ROps) with 1. rfield. exact L. }
  rewrite EV, E. split; [reflexivity|].
  assert (LP : 0 < len3 n) by (pose proof (len3_nonneg n); lra).
  assert (Q : 0 < dot3 (sub3 p a) n <-> - (dot3 (sub3 p a) n / len3 n) < 0).
  { split; intros H.
    - assert (0 < dot3 (sub3 p a) n / len3 n) by (apply Rdiv_lt_0_compat; assumption). lra.
    - assert (0 < dot3 (sub3 p a) n / len3 n) by lra.
      replace (dot3 (sub3 p a) n) with (dot3 (sub3 p a) n / len3 n * len3 n) by (rfield; exact L). nra. }
  unfold Rmax. destruct (Rle_dec _ _); (split; [intros H0; split; [lra | apply Q; lra] | intros [H1 H2]; apply Q in H2; lra]).
Qed.
(* 2D: the side to the right of the directed line a + t v stays (cross (v, p - a) < 0) *)
Theorem cut2_sem (s o : RObj2) (a v : RV2) : k_cut2 s a v = Some o -> len2 v <> 0 ->
  forall p, let c := vx v * (vy p - vy a) - vy v * (vx p - vx a) in
            ev2 o p = Rmax (c / len2 v) (ev2 s p) /\ (ev2 o p < 0 <-> ev2 s p < 0 /\ c < 0).
Proof.
  intros H L p c. unfold k_cut2 in H. cbv zeta in H. injection H as Ho.
  assert (EV : ev2 o p = Rmax (@v2dot ROps (v2sub p a) (mkV2 (- vy (v2normalize v)) (vx (v2normalize v)))) (ev2 s p)) by (rewrite <- Ho; reflexivity).
  assert (E : @v2dot ROps (v2sub p a) (mkV2 (- vy (v2normalize v)) (vx (v2normalize v))) = c / len2 v).
  { unfold c, v2dot, v2normalize, v2muls, v2sub. cbn [vx vy]. rewrite v2len_eq.
    change (omul ROps) with Rmult. change (oadd ROps) with Rplus. change (osub ROps) with Rminus.
    change (oneg ROps) with Ropp. change (odiv ROps) with Rdiv. change (o1 ROps) with 1. rfield. exact L. }
  rewrite EV, E. split; [reflexivity|].
  assert (LP : 0 < len2 v) by (pose proof (len2_nonneg v); lra).
  assert (Q : c < 0 <-> c / len2 v < 0).
  { split; intros H.
    - assert (0 < - c / len2 v) by (apply Rdiv_lt_0_compat; lra).
      replace (c / len2 v) with (- (- c / len2 v)) by (rfield; exact L). lra.
    - replace c with (c / len2 v * len2 v) by (rfield; exact L). nra. }
  unfold Rmax. destruct (Rle_dec _ _); (split; [intros H0; split; [lra | apply Q; lra] | intros [H1 H2]; apply Q in H2; lra]).
Qed.

(* ------------------------------------------------------------------ Offset / Shell *)
Theorem offset3_sem (s o : RObj3) d : k_offset3 s d = Some o -> forall p, ev3 o p = ev3 s p - d.
Proof. intros [= <-] p. reflexivity. Qed.
Theorem offset2_sem (s o : RObj2) d : k_offset2 s d = Some o -> forall p, ev2 o p = ev2 s p - d.
Proof. intros [= <-] p. reflexivity. Qed.
(* the shell is the band |f| < t/2 around the surface *)
Theorem shell3_sem (s o : RObj3) t : k_shell3 s t = Some o ->
  0 < t /\ forall p, ev3 o p = Rabs (ev3 s p) - t / 2 /\ (ev3 o p < 0 <-> - (t / 2) < ev3 s p < t / 2).
Proof.
  unfold k_shell3. change (oleb ROps t (o0 ROps)) with (Rleb t 0). destruct (Rleb t 0) eqn:E; [discriminate|].
  apply Rleb_false in E. intros H. injection H as Ho. split; [exact E|]. intros p.
  assert (EV : ev3 o p = Rabs (ev3 s p) - @k05 ROps * t) by (rewrite <- Ho; reflexivity).
  assert (K : @k05 ROps * t = t / 2) by (unfold k05, half, two; cbn; rfield).
  rewrite EV.
  rewrite K. split; [reflexivity|]. unfold Rabs. destruct (Rcase_abs _); split; intros; lra.
Qed.

(* ------------------------------------------------------------------ Elongate *)
(* one coordinate: the slab |x| <= h/2 collapses to 0, the rest moves towards the origin by h/2 *)
Definition elong1 (h x : R) : R := if Rlt_dec x (- (h / 2)) then x + h / 2 else if Rlt_dec (h / 2) x then x - h / 2 else 0.
Lemma elong1_clamp h x : x - @clamp ROps x (Rabs h * - @k05 ROps) (Rabs h * @k05 ROps) = elong1 (Rabs h) x.
Proof.
  assert (K : @k05 ROps = 1 / 2) by (unfold k05, half, two; cbn; rfield). rewrite K.
  unfold clamp, elong1. change (oltb ROps) with Rltb. pose proof (Rabs_pos h).
  rcmp; destruct (Rlt_dec _ _); try lra; destruct (Rlt_dec _ _); lra.
Qed.
Theorem elongate3_sem (s o : RObj3) (h : RV3) : k_elongate3 s h = Some o ->
  forall p, ev3 o p = ev3 s (mkV3 (elong1 (Rabs (wx h)) (wx p)) (elong1 (Rabs (wy h)) (wy p)) (elong1 (Rabs (wz h)) (wz p))).
Proof.
  intros [= <-] p. cbn [ev3]. f_equal. unfold v3sub, v3clamp, v3muls, v3abs. cbn [wx wy wz].
  change (osub ROps) with Rminus. change (omul ROps) with Rmult. change (oabs ROps) with Rabs. change (oneg ROps) with Ropp.
  rewrite !elong1_clamp. reflexivity.
Qed.
Theorem elongate2_sem (s o : RObj2) (h : RV2) : k_elongate2 s h = Some o ->
  forall p, ev2 o p = ev2 s (mkV2 (elong1 (Rabs (vx h)) (vx p)) (elong1 (Rabs (vy h)) (vy p))).
Proof.
  intros [= <-] p. cbn [ev2]. f_equal. unfold v2sub, v2clamp, v2muls, v2abs. cbn [vx vy].
  change (osub ROps) with Rminus. change (omul ROps) with Rmult. change (oabs ROps) with Rabs. change (oneg ROps) with Ropp.
  rewrite !elong1_clamp. reflexivity.
Qed.
