(* Consequences at the real-number instance of Sdf/GenEqPoly.v: C04's per-segment theorems restated
   about the definitions translated from the Go source (Generated/SdfExpr.v). *)
From Coq Require Import Reals List ZArith.
From Sdfx Require Import Num.Ops Num.RInst Geo.Vec Geo.Box Geo.BoxR Sdf.Poly Sdf.PolyR Generated.SdfExpr Sdf.GenEqPoly.

(* winding, computed by the translated code from what the translated newLineInfo stores, is the
   crossing-number increment of the specification *)
Lemma go_winding_is_spec : forall (l : Seg ROps) (p : V2 ROps),
  let a := li_of (@sdf_newLineInfo ROps l) in
  @sdf_lineInfo_winding ROps (li_a a, li_b a) (li_u a) p = cross_spec l p.
Proof.
  intros l p a. unfold a. rewrite (@newLineInfo_eq ROps l), (@lineInfo_winding_eq ROps).
  apply winding_eq_spec.
Qed.

Lemma go_minDistance2_is_model : forall (l : Seg ROps) (p : V2 ROps),
  let a := li_of (@sdf_newLineInfo ROps l) in
  @sdf_lineInfo_minDistance2 ROps (li_a a, li_b a) (li_u a) (li_len a) p = min_distance2 (new_line_info l) p.
Proof.
  intros l p a. unfold a. rewrite (@newLineInfo_eq ROps l). apply (@lineInfo_minDistance2_eq ROps).
Qed.
