(* A concrete dumped tree of the kind the hook produces (a hexagon-like polygon mesh, offset,
   extruded, translated, with an unmodelled shape subtracted): the checker accepts it, it builds, and
   the certificate theorem applies.  Shows that the hypotheses of the reified theorems are
   satisfiable by a tree that uses the mesh leaf, the Offset-over-mesh rule, a transform and an
   opaque leaf in a material-removing position (which needs no leaf hypothesis). *)
From Coq Require Import Reals List ZArith NArith QArith Bool.
From Sdfx Require Import Num.Ops Num.RInst Num.QInst Geo.Vec Geo.Box Geo.Mat Sdf.Shape Sdf.ShapeR Sdf.Poly
  Sdf.Reify Sdf.ReifyR Sdf.ReifyCheck.
Import ListNotations.
Open Scope Q_scope.

Definition ex_v (x y : Q) : V2 QOps := mkV2 x y.
Definition ex_tri : list (Seg QOps) :=
  [(ex_v 0 0, ex_v 4 0); (ex_v 4 0, ex_v 0 3); (ex_v 0 3, ex_v 0 0)].
Definition ex_profile : QS2 := ROffset2 (RMesh2 ex_tri (mkBox2 (ex_v 0 0) (ex_v 4 3))) (1 # 4).
Definition ex_move : list Q := [1; 0; 0; 5 # 2;  0; 1; 0; -(3);  0; 0; 1; 1 # 8;  0; 0; 0; 1].
Definition ex_hole : QS3 := ROpaque3 1%N (mkBox3 (mkV3 0 0 0) (mkV3 1 1 1)).
Definition ex_part : QS3 :=
  RDifference3 (@MaxDef QOps) (RTransform3 (RExtrude ex_profile 2) ex_move) ex_hole.

Lemma ex_part_wf : wfb3 ex_part = true.
Proof. vm_compute. reflexivity. Qed.
Lemma ex_part_builds (E : REnv) : exists o, interp3 E (inj3 ex_part) = Some o.
Proof. eexists. cbn. reflexivity. Qed.
Lemma ex_part_enclosed (E : REnv) o : interp3 E (inj3 ex_part) = Some o -> enc3 o.
Proof. intros H. apply (reified_certificate3 ex_part ex_part_wf E o); [|exact H]. cbn. exact I. Qed.
