(* Proofs over the reals about the quadtree part of Sdf/Poly.v: the ray-directed crossing walk,
   the pruned nearest-piece search, the clipping certificate and fast = slow. *)
From Coq Require Import Reals Lra Lia List Bool ZArith Permutation Psatz.
From Sdfx Require Import Num.Ops Num.RInst Geo.Vec Geo.Box Geo.MinMaxR Geo.BoxR Sdf.Poly Sdf.PolyR.
Import ListNotations.
Open Scope R_scope.

(* ------------------------------------------------------------ (5) the ray-directed walk *)
Lemma cross_spec_above (l : SegR) (p : V) : vy p < vy (fst l) -> vy p < vy (snd l) -> cross_spec l p = 0%Z.
Proof. intros H1 H2. rewrite cross_spec_cs. unfold cs. rcmp; cbn; try reflexivity; lra. Qed.
Lemma cross_spec_below (l : SegR) (p : V) : vy (fst l) <= vy p -> vy (snd l) <= vy p -> cross_spec l p = 0%Z.
Proof. intros H1 H2. rewrite cross_spec_cs. unfold cs. rcmp; cbn; try reflexivity; lra. Qed.
(* a segment with both end points at or left of p cannot be crossed by the +x ray from p *)
Lemma cross_spec_left (l : SegR) (p : V) : vx (fst l) <= vx p -> vx (snd l) <= vx p -> cross_spec l p = 0%Z.
Proof.
  intros H1 H2. rewrite cross_spec_cs. unfold cs, crossR.
  destruct l as [[ax ay] [bx by_]], p as [px py]; cbn [fst snd vx vy] in *.
  destruct (Rleb ay py) eqn:C1; [apply Rleb_true in C1 | apply Rleb_false in C1].
  - destruct (Rltb py by_) eqn:C2; [apply Rltb_true in C2 | reflexivity].
    destruct (Rltb 0 _) eqn:C3; [apply Rltb_true in C3 | reflexivity]. exfalso.
    destruct (Rle_dec ax bx).
    + assert (0 <= (bx - ax) * (by_ - py)) by (apply Rmult_le_pos; lra).
      assert (0 <= (by_ - ay) * (px - bx)) by (apply Rmult_le_pos; lra). nra.
    + assert (0 <= (ax - bx) * (py - ay)) by (apply Rmult_le_pos; lra).
      assert (0 <= (by_ - ay) * (px - ax)) by (apply Rmult_le_pos; lra). nra.
  - destruct (Rleb by_ py) eqn:C2; [apply Rleb_true in C2 | reflexivity].
    destruct (Rltb _ 0) eqn:C3; [apply Rltb_true in C3 | reflexivity]. exfalso.
    destruct (Rle_dec ax bx).
    + assert (0 <= (bx - ax) * (ay - py)) by (apply Rmult_le_pos; lra).
      assert (0 <= (ay - by_) * (px - ax)) by (apply Rmult_le_pos; lra). nra.
    + assert (0 <= (ax - bx) * (py - by_)) by (apply Rmult_le_pos; lra).
      assert (0 <= (ay - by_) * (px - bx)) by (apply Rmult_le_pos; lra). nra.
Qed.

Definition Wl (p : V) (l : list SegR) : Z := sumZ (map (fun s => winding (new_line_info s) p) l).
Lemma sumZ_app a b : sumZ (a ++ b) = (sumZ a + sumZ b)%Z.
Proof. unfold sumZ. induction a as [|x a IH]; cbn; [reflexivity|]. rewrite IH. lia. Qed.
Lemma Wl_app p a b : Wl p (a ++ b) = (Wl p a + Wl p b)%Z.
Proof. unfold Wl. rewrite map_app. apply sumZ_app. Qed.
Lemma Wl_zero p (P : SegR -> Prop) l : (forall s, P s -> cross_spec s p = 0%Z) -> Forall P l -> Wl p l = 0%Z.
Proof.
  intros HP HF. unfold Wl. induction HF as [|s l Hs HF IH]; [reflexivity|].
  cbn [map sumZ fold_right]. fold (sumZ (map (fun s0 => winding (new_line_info s0) p) l)).
  rewrite IH. rewrite winding_eq_spec. rewrite (HP s Hs). reflexivity.
Qed.

Definition seg_all (P : V -> Prop) (s : SegR) : Prop := P (fst s) /\ P (snd s).

(* the pieces of each child lie on its side of the node centre *)
Fixpoint ray_ok (t : qt ROps SegR) : Prop :=
  match t with
  | QNode _ c _ c0 c1 c2 c3 =>
      Forall (seg_all (fun q => vx q <= vx c /\ vy q <= vy c)) (pieces c0) /\
      Forall (seg_all (fun q => vx c <= vx q /\ vy q <= vy c)) (pieces c1) /\
      Forall (seg_all (fun q => vx q <= vx c /\ vy c <= vy q)) (pieces c2) /\
      Forall (seg_all (fun q => vx c <= vx q /\ vy c <= vy q)) (pieces c3) /\
      ray_ok c0 /\ ray_ok c1 /\ ray_ok c2 /\ ray_ok c3
  | _ => True
  end.

Lemma pieces_map {A B} (f : A -> B) (t : qt ROps A) : pieces (qt_map f t) = map f (pieces t).
Proof.
  induction t as [| | b c h c0 IH0 c1 IH1 c2 IH2 c3 IH3]; cbn; try reflexivity.
  rewrite IH0, IH1, IH2, IH3. rewrite !map_app. reflexivity.
Qed.

Lemma leaf_winding_sum (l : list SegR) p wn :
  leaf_winding (map new_line_info l) p wn = (wn + Wl p l)%Z.
Proof. unfold leaf_winding, Wl. rewrite fold_sum. rewrite map_map. reflexivity. Qed.

Lemma Wl_zero_above p cy (P : V -> Prop) l : (forall q, P q -> cy <= vy q) -> vy p < cy ->
  Forall (seg_all P) l -> Wl p l = 0%Z.
Proof.
  intros HP Hp. apply Wl_zero. intros s [H1 H2]. apply HP in H1, H2. apply cross_spec_above; lra.
Qed.
Lemma Wl_zero_below p cy (P : V -> Prop) l : (forall q, P q -> vy q <= cy) -> cy <= vy p ->
  Forall (seg_all P) l -> Wl p l = 0%Z.
Proof.
  intros HP Hp. apply Wl_zero. intros s [H1 H2]. apply HP in H1, H2. apply cross_spec_below; lra.
Qed.
Lemma Wl_zero_left p cx (P : V -> Prop) l : (forall q, P q -> vx q <= cx) -> cx <= vx p ->
  Forall (seg_all P) l -> Wl p l = 0%Z.
Proof.
  intros HP Hp. apply Wl_zero. intros s [H1 H2]. apply HP in H1, H2. apply cross_spec_left; lra.
Qed.

Ltac wz lem c F := eapply (lem _ c); [ | | exact F]; cbn; [intros q H; tauto | lra].


(* (5) the children skipped by qtNode.winding hold only pieces the +x ray from p cannot cross:
   the walk returns the sum over ALL pieces of the tree *)
Theorem ray_children_sound (t : qt ROps SegR) (p : V) : ray_ok t ->
  forall wn, qt_winding (qt_map new_line_info t) p wn = (wn + Wl p (pieces t))%Z.
Proof.
  induction t as [| b c h l | b c h c0 IH0 c1 IH1 c2 IH2 c3 IH3]; intros Hok wn.
  - cbn. unfold Wl; cbn. lia.
  - cbn [qt_map qt_winding pieces]. apply leaf_winding_sum.
  - cbn [ray_ok] in Hok. destruct Hok as (F0 & F1 & F2 & F3 & R0 & R1 & R2 & R3).
    cbn [qt_map qt_winding pieces]. rewrite !Wl_app.
    destruct c as [cx cy], p as [px py]. unfold v2sub; cbn [vx vy] in *. unops.
    destruct (Rltb (px - cx) 0) eqn:CX; [apply Rltb_true in CX | apply Rltb_false in CX];
    (destruct (Rltb (py - cy) 0) eqn:CY; [apply Rltb_true in CY | apply Rltb_false in CY]).
    + (* left, below: children 0 and 1; 2 and 3 lie above *)
      rewrite IH1, IH0 by assumption.
      assert (Zc2 : Wl (mkV2 px py) (pieces c2) = 0%Z) by (wz Wl_zero_above cy F2); rewrite Zc2.
      assert (Zc3 : Wl (mkV2 px py) (pieces c3) = 0%Z) by (wz Wl_zero_above cy F3); rewrite Zc3. lia.
    + (* left, at or above: children 2 and 3; 0 and 1 lie at or below *)
      rewrite IH3, IH2 by assumption.
      assert (Zc0 : Wl (mkV2 px py) (pieces c0) = 0%Z) by (wz Wl_zero_below cy F0); rewrite Zc0.
      assert (Zc1 : Wl (mkV2 px py) (pieces c1) = 0%Z) by (wz Wl_zero_below cy F1); rewrite Zc1. lia.
    + (* right, below: child 1 only; 0 is at or left of p, 2 and 3 above *)
      rewrite IH1 by assumption.
      assert (Zc0 : Wl (mkV2 px py) (pieces c0) = 0%Z) by (wz Wl_zero_left cx F0); rewrite Zc0.
      assert (Zc2 : Wl (mkV2 px py) (pieces c2) = 0%Z) by (wz Wl_zero_above cy F2); rewrite Zc2.
      assert (Zc3 : Wl (mkV2 px py) (pieces c3) = 0%Z) by (wz Wl_zero_above cy F3); rewrite Zc3. lia.
    + (* right, at or above: child 3 only *)
      rewrite IH3 by assumption.
      assert (Zc0 : Wl (mkV2 px py) (pieces c0) = 0%Z) by (wz Wl_zero_below cy F0); rewrite Zc0.
      assert (Zc1 : Wl (mkV2 px py) (pieces c1) = 0%Z) by (wz Wl_zero_below cy F1); rewrite Zc1.
      assert (Zc2 : Wl (mkV2 px py) (pieces c2) = 0%Z) by (wz Wl_zero_left cx F2); rewrite Zc2. lia.
Qed.

(* ------------------------------------------------------------ (4) pruning by the node box *)
Definition sq_box (c : V) (hs : R) : Box2 ROps :=
  mkBox2 (mkV2 (vx c - hs) (vy c - hs)) (mkV2 (vx c + hs) (vy c + hs)).

Lemma axis_term cx hs px : 0 <= hs ->
  (if Rltb (Rabs (px - cx) - hs) 0 then 0 else (Rabs (px - cx) - hs) * (Rabs (px - cx) - hs))
  = @axis_min2 ROps (cx - hs) (cx + hs) px.
Proof.
  intros Hh. unfold axis_min2, clamp; cbn. unops. unfold Rabs. destruct (Rcase_abs (px - cx)); rcmp; try lra; try nra.
Qed.

(* minBoxDist2 (centre / half side form) is the squared distance to the node square: the `min`
   component of the clamp specification proved exact for Box2.MinMaxDist2 in Geo/BoxR.v *)
Theorem min_box_dist2_spec (c : V) (hs : R) (p : V) : 0 <= hs ->
  min_box_dist2 c hs p = fst (spec2_minmax (sq_box c hs) p).
Proof.
  intros Hh. destruct c as [cx cy], p as [px py].
  unfold spec2_minmax, sq_box; cbn [fst b2min b2max vx vy]. unops.
  rewrite <- (axis_term cx hs px Hh), <- (axis_term cy hs py Hh).
  unfold min_box_dist2, v2abs, v2sub; cbn [vx vy]. unops.
  destruct (Rltb (Rabs (px - cx) - hs) 0), (Rltb (Rabs (py - cy) - hs) 0); cbn; ring.
Qed.

Definition in_sq (c : V) (hs : R) (q : V) : Prop := Rabs (vx q - vx c) <= hs /\ Rabs (vy q - vy c) <= hs.

Lemma Rabs_le_inv (a b : R) : Rabs a <= b -> - b <= a <= b.
Proof. unfold Rabs; destruct (Rcase_abs a); lra. Qed.

Lemma in_sq_box c hs q : in_sq c hs q -> in_box2 (sq_box c hs) q.
Proof.
  unfold in_sq, in_box2, sq_box; cbn [b2min b2max vx vy]. intros [H1 H2].
  apply Rabs_le_inv in H1, H2. lra.
Qed.

(* pieces lie in their node square, so a node whose square is at least dd away holds no piece
   nearer than dd *)
Lemma piece_not_nearer (c : V) (hs : R) (s : SegR) (p : V) : 0 <= hs -> nondeg s ->
  seg_all (in_sq c hs) s -> min_box_dist2 c hs p <= d2f p s.
Proof.
  intros Hh Hn [H1 H2]. destruct (segdist2_exact s p Hn) as [(t & Ht & E) _]. unfold d2f. rewrite <- E.
  rewrite (min_box_dist2_spec c hs p Hh).
  assert (Hord : ordered2 (sq_box c hs)) by (unfold ordered2, sq_box; cbn; lra).
  destruct (spec2_is_distance_interval (sq_box c hs) p Hord) as (Hb & _ & _).
  apply Hb. apply in_sq_box in H1, H2. destruct s as [[ax ay] [bx by_]]; cbn [fst snd] in *.
  unfold in_box2, sq_box, pt in *; cbn [b2min b2max vx vy] in *.
  set (lx := vx c - hs) in *. set (hx := vx c + hs) in *. set (ly := vy c - hs) in *. set (hy := vy c + hs) in *.
  clearbody lx hx ly hy. repeat split; nra.
Qed.

(* r is the least of dd and the members of L *)
Definition is_min (r dd : R) (L : list R) : Prop :=
  r <= dd /\ (forall x, In x L -> r <= x) /\ (r = dd \/ In r L).

Lemma is_min_minl L dd : is_min (minl L dd) dd L.
Proof.
  unfold minl. revert dd; induction L as [|x L IH]; intros dd; cbn [fold_left].
  - split; [lra|]. split; [intros ? []|]. left; reflexivity.
  - destruct (IH (Rmin dd x)) as (H1 & H2 & H3). pose proof (Rmin_l dd x). pose proof (Rmin_r dd x). split; [lra|]. split.
    + intros y [<-|Hy]; [lra | auto].
    + destruct H3 as [H3|H3]; [|right; right; exact H3]. rewrite H3. unfold Rmin; destruct (Rle_dec dd x); [left | right; left]; reflexivity.
Qed.
Lemma is_min_unique r r' dd L : is_min r dd L -> is_min r' dd L -> r = r'.
Proof.
  intros (A1 & A2 & A3) (B1 & B2 & B3).
  assert (r <= r') by (destruct B3 as [->|B3]; [exact A1 | exact (A2 _ B3)]).
  assert (r' <= r) by (destruct A3 as [->|A3]; [exact B1 | exact (B2 _ A3)]). lra.
Qed.
Lemma is_min_compose r1 r2 dd L1 L2 : is_min r1 dd L1 -> is_min r2 r1 L2 -> is_min r2 dd (L1 ++ L2).
Proof.
  intros (A1 & A2 & A3) (B1 & B2 & B3). split; [lra|]. split.
  - intros x Hx. apply in_app_or in Hx. destruct Hx as [Hx|Hx]; [specialize (A2 _ Hx); lra | auto].
  - destruct B3 as [B3|B3]; [|right; apply in_or_app; right; exact B3].
    subst r2. destruct A3 as [A3|A3]; [left; exact A3 | right; apply in_or_app; left; exact A3].
Qed.
Lemma is_min_ext r dd L L' : (forall x, In x L <-> In x L') -> is_min r dd L -> is_min r dd L'.
Proof.
  intros HE (A1 & A2 & A3). split; [exact A1|]. split.
  - intros x Hx. apply A2. apply HE. exact Hx.
  - destruct A3 as [A3|A3]; [left; exact A3 | right; apply HE; exact A3].
Qed.

Fixpoint box_ok (t : qt ROps SegR) : Prop :=
  match t with
  | QNil => True
  | QLeaf _ c hs l => 0 <= hs /\ Forall (seg_all (in_sq c hs)) l
  | QNode _ c hs c0 c1 c2 c3 =>
      0 <= hs /\ Forall (seg_all (in_sq c hs)) (pieces t) /\
      box_ok c0 /\ box_ok c1 /\ box_ok c2 /\ box_ok c3
  end.

Definition D2 (p : V) (t : qt ROps SegR) : list R := map (d2f p) (pieces t).

Lemma pruned_is_min c hs p dd (l : list SegR) : 0 <= hs -> Forall nondeg l -> Forall (seg_all (in_sq c hs)) l ->
  dd <= min_box_dist2 c hs p -> is_min dd dd (map (d2f p) l).
Proof.
  intros Hh Hn Hs Hd. split; [lra|]. split; [|left; reflexivity].
  intros x Hx. apply in_map_iff in Hx. destruct Hx as (s & <- & Hs').
  rewrite Forall_forall in Hn, Hs. pose proof (piece_not_nearer c hs s p Hh (Hn _ Hs') (Hs _ Hs')). lra.
Qed.

Lemma search_order_cases (c p : V) :
  In (search_order c p) [ord 3 2 1 0; ord 3 1 2 0; ord 1 0 3 2; ord 1 3 0 2; ord 2 3 0 1; ord 2 0 3 1; ord 0 1 2 3; ord 0 2 1 3].
Proof. unfold search_order. cbn. unops. rcmp; cbn; tauto. Qed.

(* searchOrder only permutes the four children *)
Lemma search_order_perm (c p : V) :
  let '(i0, i1, i2, i3) := search_order c p in Permutation [i0; i1; i2; i3] [0; 1; 2; 3]%nat.
Proof.
  pose proof (search_order_cases c p) as Hso. destruct (search_order c p) as [[[i0 i1] i2] i3].
  cbn [In] in Hso. unfold ord in Hso.
  destruct Hso as [E|[E|[E|[E|[E|[E|[E|[E|[]]]]]]]]]; injection E as <- <- <- <-;
  (apply NoDup_Permutation;
   [ repeat (constructor; [cbn; intuition discriminate|]); constructor
   | repeat (constructor; [cbn; intuition discriminate|]); constructor
   | intros x; cbn; tauto ]).
Qed.

Lemma leaf_dist2_minl (l : list SegR) (p : V) :
  leaf_dist2 (map new_line_info l) p = minl (map (d2f p) l) (omaxf ROps).
Proof.
  unfold leaf_dist2, minl. generalize (omaxf ROps). induction l as [|s l IH]; intros m; cbn [map fold_left]; [reflexivity|].
  rewrite IH. reflexivity.
Qed.

Lemma compose4 (M : R) (fa fb fc fd : R -> R) (Pa Pb Pc Pd : list R) :
  (forall dd, dd <= M -> is_min (fa dd) dd Pa) -> (forall dd, dd <= M -> is_min (fb dd) dd Pb) ->
  (forall dd, dd <= M -> is_min (fc dd) dd Pc) -> (forall dd, dd <= M -> is_min (fd dd) dd Pd) ->
  forall dd, dd <= M -> is_min (fd (fc (fb (fa dd)))) dd (Pa ++ Pb ++ Pc ++ Pd).
Proof.
  intros Ha Hb Hc Hd dd Hdd.
  pose proof (Ha dd Hdd) as A. assert (fa dd <= M) by (destruct A; lra).
  pose proof (Hb _ H) as B. assert (fb (fa dd) <= M) by (destruct B; lra).
  pose proof (Hc _ H0) as C. assert (fc (fb (fa dd)) <= M) by (destruct C; lra).
  pose proof (Hd _ H1) as D.
  apply (is_min_compose _ _ _ _ _ A). apply (is_min_compose _ _ _ _ _ B). apply (is_min_compose _ _ _ _ _ C). exact D.
Qed.

Definition child_md (c0 c1 c2 c3 : qt ROps LI) (p : V) (i : nat) (dd : R) : R :=
  match i with
  | 0%nat => qt_mindist2 c0 p dd
  | 1%nat => qt_mindist2 c1 p dd
  | 2%nat => qt_mindist2 c2 p dd
  | _ => qt_mindist2 c3 p dd
  end.
Lemma qt_mindist2_node b c h (c0 c1 c2 c3 : qt ROps LI) (p : V) (dd : R) :
  qt_mindist2 (QNode b c h c0 c1 c2 c3) p dd =
  if Rleb dd (min_box_dist2 c h p) then dd
  else let '(i0, i1, i2, i3) := search_order c p in
       child_md c0 c1 c2 c3 p i3 (child_md c0 c1 c2 c3 p i2 (child_md c0 c1 c2 c3 p i1 (child_md c0 c1 c2 c3 p i0 dd))).
Proof. cbn [qt_mindist2]. unops. destruct (Rleb dd (min_box_dist2 c h p)); [reflexivity|]. destruct (search_order c p) as [[[i0 i1] i2] i3]. reflexivity. Qed.

(* (4) pruning is sound and the search order only permutes the children: the pruned search
   returns the least of dd and the squared distances of ALL pieces of the tree *)
Theorem prune_sound (t : qt ROps SegR) (p : V) : box_ok t -> Forall nondeg (pieces t) ->
  forall dd, dd <= omaxf ROps -> is_min (qt_mindist2 (qt_map new_line_info t) p dd) dd (D2 p t).
Proof.
  unfold D2.
  induction t as [| b c h l | b c h c0 IH0 c1 IH1 c2 IH2 c3 IH3]; intros Hok Hn dd Hdd.
  - cbn. split; [lra|]. split; [intros ? []|left; reflexivity].
  - cbn [box_ok] in Hok. destruct Hok as (Hh & Hs). cbn [qt_map qt_mindist2 pieces] in *. unops.
    destruct (Rleb dd (min_box_dist2 c h p)) eqn:C; [apply Rleb_true in C | apply Rleb_false in C].
    + apply (pruned_is_min c h p dd l Hh Hn Hs C).
    + rewrite leaf_dist2_minl. destruct (is_min_minl (map (d2f p) l) (omaxf ROps)) as (A1 & A2 & A3).
      set (m := minl (map (d2f p) l) (omaxf ROps)) in *.
      pose proof (Rmin_l dd m). pose proof (Rmin_r dd m). split; [lra|]. split.
      * intros x Hx. specialize (A2 _ Hx). lra.
      * unfold Rmin. destruct (Rle_dec dd m); [left; reflexivity|].
        destruct A3 as [A3|A3]; [left; lra | right; exact A3].
  - pose proof Hok as Hok'. cbn [box_ok] in Hok. destruct Hok as (Hh & Hs & B0 & B1 & B2 & B3).
    pose proof Hn as Hn'. cbn [pieces] in Hn. rewrite !Forall_app in Hn. destruct Hn as (N0 & N1 & N2 & N3).
    specialize (IH0 B0 N0). specialize (IH1 B1 N1). specialize (IH2 B2 N2). specialize (IH3 B3 N3).
    cbn [qt_map]. rewrite qt_mindist2_node.
    destruct (Rleb dd (min_box_dist2 c h p)) eqn:C; [apply Rleb_true in C | apply Rleb_false in C].
    + apply (pruned_is_min c h p dd _ Hh Hn' Hs C).
    + cbn [pieces]. rewrite !map_app.
      pose proof (search_order_cases c p) as Hso. destruct (search_order c p) as [[[i0 i1] i2] i3].
      cbn [In] in Hso. unfold ord in Hso.
      destruct Hso as [E|[E|[E|[E|[E|[E|[E|[E|[]]]]]]]]]; injection E as <- <- <- <-; cbn [child_md].
      * apply (is_min_ext _ _ (map (d2f p) (pieces c3) ++ map (d2f p) (pieces c2) ++ map (d2f p) (pieces c1) ++ map (d2f p) (pieces c0)));
          [intros x; rewrite !in_app_iff; tauto | exact (compose4 _ _ _ _ _ _ _ _ _ IH3 IH2 IH1 IH0 dd Hdd)].
      * apply (is_min_ext _ _ (map (d2f p) (pieces c3) ++ map (d2f p) (pieces c1) ++ map (d2f p) (pieces c2) ++ map (d2f p) (pieces c0)));
          [intros x; rewrite !in_app_iff; tauto | exact (compose4 _ _ _ _ _ _ _ _ _ IH3 IH1 IH2 IH0 dd Hdd)].
      * apply (is_min_ext _ _ (map (d2f p) (pieces c1) ++ map (d2f p) (pieces c0) ++ map (d2f p) (pieces c3) ++ map (d2f p) (pieces c2)));
          [intros x; rewrite !in_app_iff; tauto | exact (compose4 _ _ _ _ _ _ _ _ _ IH1 IH0 IH3 IH2 dd Hdd)].
      * apply (is_min_ext _ _ (map (d2f p) (pieces c1) ++ map (d2f p) (pieces c3) ++ map (d2f p) (pieces c0) ++ map (d2f p) (pieces c2)));
          [intros x; rewrite !in_app_iff; tauto | exact (compose4 _ _ _ _ _ _ _ _ _ IH1 IH3 IH0 IH2 dd Hdd)].
      * apply (is_min_ext _ _ (map (d2f p) (pieces c2) ++ map (d2f p) (pieces c3) ++ map (d2f p) (pieces c0) ++ map (d2f p) (pieces c1)));
          [intros x; rewrite !in_app_iff; tauto | exact (compose4 _ _ _ _ _ _ _ _ _ IH2 IH3 IH0 IH1 dd Hdd)].
      * apply (is_min_ext _ _ (map (d2f p) (pieces c2) ++ map (d2f p) (pieces c0) ++ map (d2f p) (pieces c3) ++ map (d2f p) (pieces c1)));
          [intros x; rewrite !in_app_iff; tauto | exact (compose4 _ _ _ _ _ _ _ _ _ IH2 IH0 IH3 IH1 dd Hdd)].
      * apply (is_min_ext _ _ (map (d2f p) (pieces c0) ++ map (d2f p) (pieces c1) ++ map (d2f p) (pieces c2) ++ map (d2f p) (pieces c3)));
          [intros x; rewrite !in_app_iff; tauto | exact (compose4 _ _ _ _ _ _ _ _ _ IH0 IH1 IH2 IH3 dd Hdd)].
      * apply (is_min_ext _ _ (map (d2f p) (pieces c0) ++ map (d2f p) (pieces c2) ++ map (d2f p) (pieces c1) ++ map (d2f p) (pieces c3)));
          [intros x; rewrite !in_app_iff; tauto | exact (compose4 _ _ _ _ _ _ _ _ _ IH0 IH2 IH1 IH3 dd Hdd)].
Qed.

(* ------------------------------------------------------------ sums and minima over permuted lists *)
Lemma sumZ_perm l l' : Permutation l l' -> sumZ l = sumZ l'.
Proof. unfold sumZ. induction 1; cbn; lia. Qed.
Lemma Wl_perm p l l' : Permutation l l' -> Wl p l = Wl p l'.
Proof. intros H. unfold Wl. apply sumZ_perm. apply Permutation_map. exact H. Qed.
Lemma minl_perm l l' dd : Permutation l l' -> minl l dd = minl l' dd.
Proof.
  intros H. apply (is_min_unique _ _ dd l'); [|apply is_min_minl].
  apply (is_min_ext _ _ l); [|apply is_min_minl].
  intros x; split; [apply Permutation_in; exact H | apply Permutation_in; apply Permutation_sym; exact H].
Qed.
Lemma minl_app a b dd : minl (a ++ b) dd = minl b (minl a dd).
Proof. unfold minl. apply fold_left_app. Qed.

(* the brute-force loop: least squared distance and summed winding over all segments *)
Lemma slow_loop_eq (segs : list SegR) (p : V) :
  slow_loop (convert_lines segs) p = (minl (map (d2f p) segs) (omaxf ROps), Wl p segs).
Proof.
  unfold slow_loop, convert_lines.
  assert (G : forall (l : list SegR) d w,
             fold_left (fun (s : R * Z) li => (Rmin (fst s) (min_distance2 li p), (snd s + winding li p)%Z))
                       (map new_line_info l) (d, w)
             = (minl (map (d2f p) l) d, (w + Wl p l)%Z)).
  { induction l as [|x l IH]; intros d w; cbn [map fold_left fst snd].
    - unfold minl, Wl; cbn. f_equal; lia.
    - rewrite IH. unfold minl, Wl. cbn [map fold_left sumZ fold_right]. f_equal.
      fold (sumZ (map (fun s => winding (new_line_info s) p) l)). lia. }
  unops. rewrite G. f_equal.
Qed.

(* ------------------------------------------------------------ all segments and their chains *)
Lemma chains_winding p (segs : list SegR) chains : Forall2 is_chain segs chains ->
  Wl p (concat chains) = Wl p segs.
Proof.
  induction 1 as [|s c segs chains Hc HF IH]; [reflexivity|].
  cbn [concat]. rewrite Wl_app, IH. destruct (chain_preserves s c p Hc) as [E _].
  unfold Wl at 1. rewrite E. unfold Wl. cbn [map sumZ fold_right]. reflexivity.
Qed.
Lemma chains_dist p (segs : list SegR) chains : Forall2 is_chain segs chains -> Forall nondeg segs ->
  forall dd, minl (map (d2f p) (concat chains)) dd = minl (map (d2f p) segs) dd.
Proof.
  induction 1 as [|s c segs chains Hc HF IH]; intros Hn dd; [reflexivity|].
  inversion Hn as [|? ? Hs Hn']; subst.
  cbn [concat]. rewrite map_app, minl_app. destruct (chain_preserves s c p Hc) as [_ E].
  rewrite (E Hs). rewrite (IH Hn'). reflexivity.
Qed.
Lemma chain_from_nondeg A B t0 pcs : nondeg (A, B) -> chain_from A B t0 pcs -> Forall nondeg pcs.
Proof.
  intros Hn Hc. induction Hc as [S t0 ES Ht | S C t0 t1 rest ES EC Ht Hc IH].
  - constructor; [|constructor]. subst S. rewrite <- (pt_1 A B) at 2. apply nondeg_pt; [exact Hn | lra].
  - constructor; [|exact IH]. subst S C. apply nondeg_pt; [exact Hn | lra].
Qed.
Lemma chains_nondeg (segs : list SegR) chains : Forall2 is_chain segs chains -> Forall nondeg segs ->
  Forall nondeg (concat chains).
Proof.
  induction 1 as [|s c segs chains Hc HF IH]; intros Hn; [constructor|].
  inversion Hn as [|? ? Hs Hn']; subst. cbn [concat]. apply Forall_app. split; [|exact (IH Hn')].
  destruct s as [A B]. exact (chain_from_nondeg A B 0 c Hs Hc).
Qed.

(* ------------------------------------------------------------ (6) fast = slow *)
(* the certificate, as a proposition: every original segment is the chain of its pieces, the
   pieces held by the tree are exactly the pieces of the chains (none lost, none twice: this is
   where the ownership of shared edges enters), each piece lies on its child's side of every
   ancestor centre [and in every ancestor's square, and no segment is a point] *)
Definition winding_clipped (tree : qt ROps SegR) (segs : list SegR) : Prop :=
  exists chains, Forall2 is_chain segs chains /\ Permutation (pieces tree) (concat chains) /\ ray_ok tree.
Definition well_clipped (tree : qt ROps SegR) (segs : list SegR) : Prop :=
  exists chains, Forall2 is_chain segs chains /\ Permutation (pieces tree) (concat chains) /\
                 ray_ok tree /\ box_ok tree /\ Forall nondeg segs.

Theorem fast_winding_eq_slow tree segs : winding_clipped tree segs -> forall p,
  qt_winding (qt_map new_line_info tree) p 0%Z = snd (slow_loop (convert_lines segs) p).
Proof.
  intros (chains & Hc & Hp & Hr) p. rewrite slow_loop_eq; cbn [snd].
  rewrite (ray_children_sound tree p Hr). rewrite (Wl_perm p _ _ Hp). rewrite (chains_winding p segs chains Hc). lia.
Qed.

Theorem fast_dist_eq_slow tree segs : well_clipped tree segs -> forall p,
  qt_mindist2 (qt_map new_line_info tree) p (omaxf ROps) = fst (slow_loop (convert_lines segs) p).
Proof.
  intros (chains & Hc & Hp & Hr & Hb & Hn) p. rewrite slow_loop_eq; cbn [fst].
  assert (Hnd : Forall nondeg (pieces tree)).
  { apply (Permutation_Forall (Permutation_sym Hp)). exact (chains_nondeg segs chains Hc Hn). }
  pose proof (prune_sound tree p Hb Hnd (omaxf ROps) (Rle_refl _)) as Hm.
  rewrite (is_min_unique _ _ _ _ Hm (is_min_minl (D2 p tree) (omaxf ROps))). unfold D2.
  rewrite (minl_perm _ _ _ (Permutation_map (d2f p) Hp)). apply chains_dist; assumption.
Qed.

Theorem fast_eq_slow tree segs : well_clipped tree segs -> forall p,
  eval_fast (qt_map new_line_info tree) p = eval_slow (convert_lines segs) p.
Proof.
  intros H p. unfold eval_fast, eval_slow.
  rewrite (fast_dist_eq_slow tree segs H p).
  assert (Hw : winding_clipped tree segs) by (destruct H as (ch & ? & ? & ? & _); exists ch; auto).
  rewrite (fast_winding_eq_slow tree segs Hw p).
  destruct (slow_loop (convert_lines segs) p) as [d2 wn]; cbn [fst snd]. reflexivity.
Qed.

(* ------------------------------------------------------------ the boolean checker is sound *)
Lemma v2eqb_true (a b : V) : v2eqb a b = true -> a = b.
Proof.
  destruct a as [ax ay], b as [bx by_]. unfold v2eqb; cbn [vx vy]. unops. intros H.
  apply andb_true_iff in H. destruct H as [H1 H2]. apply Reqb_true in H1, H2. subst. reflexivity.
Qed.
Lemma seg_eqb_true (a b : SegR) : seg_eqb a b = true -> a = b.
Proof.
  destruct a as [a0 a1], b as [b0 b1]. unfold seg_eqb; cbn [fst snd]. intros H.
  apply andb_true_iff in H. destruct H as [H1 H2]. apply v2eqb_true in H1, H2. subst. reflexivity.
Qed.
Lemma remove_one_perm (x : SegR) l r : remove_one x l = Some r -> Permutation l (x :: r).
Proof.
  revert r; induction l as [|y l IH]; intros r H; cbn [remove_one] in H; [discriminate|].
  destruct (seg_eqb x y) eqn:E.
  - apply seg_eqb_true in E. inversion H; subst. apply Permutation_refl.
  - destruct (remove_one x l) as [r'|]; [|discriminate]. inversion H; subst.
    apply perm_trans with (y :: x :: r'); [apply perm_skip; apply IH; reflexivity | apply perm_swap].
Qed.
Lemma perm_check_sound (l m : list SegR) : perm_check l m = true -> Permutation l m.
Proof.
  revert m; induction l as [|x l IH]; intros m H; cbn [perm_check] in H.
  - destruct m; [constructor | discriminate].
  - destruct (remove_one x m) as [m'|] eqn:E; [|discriminate].
    apply Permutation_sym. apply perm_trans with (x :: m'); [apply remove_one_perm; exact E|].
    apply perm_skip. apply Permutation_sym. apply IH. exact H.
Qed.
Lemma forall2b_sound {A B} (f : A -> B -> bool) (P : A -> B -> Prop) :
  (forall a b, f a b = true -> P a b) -> forall l m, forall2b f l m = true -> Forall2 P l m.
Proof.
  intros HP. induction l as [|a l IH]; intros [|b m] H; cbn [forall2b] in H; try discriminate; [constructor|].
  apply andb_true_iff in H. destruct H as [H1 H2]. constructor; [apply HP; exact H1 | apply IH; exact H2].
Qed.
Lemma forallb_sound {A} (f : A -> bool) (P : A -> Prop) :
  (forall a, f a = true -> P a) -> forall l, forallb f l = true -> Forall P l.
Proof.
  intros HP l H. apply Forall_forall. intros a Ha. apply HP. rewrite forallb_forall in H. apply H. exact Ha.
Qed.

Lemma v2close0_true (a b : V) : v2close 0 a b = true -> a = b.
Proof.
  destruct a as [ax ay], b as [bx by_]. unfold v2close; cbn [vx vy]. unops. intros H.
  apply andb_true_iff in H. destruct H as [H1 H2]. apply Rleb_true in H1, H2.
  apply Rabs_le_inv in H1, H2. f_equal; lra.
Qed.

Definition vvR (A B : V) : R := (vx B - vx A) * (vx B - vx A) + (vy B - vy A) * (vy B - vy A).

Lemma chain_rest_sound (A B : V) (rest : list SegR) : forall (cur : SegR) (t0 tau0 : R),
  0 <= tau0 < 1 -> fst cur = pt A B tau0 -> t0 = tau0 * vvR A B ->
  chain_rest 0 A B cur t0 rest = true -> chain_from A B tau0 (cur :: rest).
Proof.
  induction rest as [|nxt rest IH]; intros [S C] t0 tau0 Ht HS Et H; cbn [fst snd] in *.
  - cbn [chain_rest] in H. cbn [snd] in H. apply v2eqb_true in H. subst C. apply chain_last; [exact HS | lra].
  - cbn [chain_rest] in H. cbn [snd] in H.
    apply andb_true_iff in H; destruct H as [H Hrest].
    apply andb_true_iff in H; destruct H as [H Hnxt]. apply v2eqb_true in Hnxt.
    apply andb_true_iff in H; destruct H as [H Hline].
    apply andb_true_iff in H; destruct H as [Hlt1 Hlt2]. unops.
    apply Rltb_true in Hlt1, Hlt2.
    destruct A as [ax ay], B as [bx by_], C as [cx cy].
    unfold on_line_b, v2dot, v2cross, v2sub in *; cbn [vx vy] in *. unops. apply Rleb_true in Hline.
    unfold vvR in *; cbn [vx vy] in *.
    remember ((bx - ax) * (bx - ax) + (by_ - ay) * (by_ - ay)) as vv eqn:Evv.
    remember ((cx - ax) * (bx - ax) + (cy - ay) * (by_ - ay)) as t1 eqn:Et1.
    remember ((bx - ax) * (cy - ay) - (by_ - ay) * (cx - ax)) as k eqn:Ek.
    assert (Hvv : 0 < vv) by (assert (0 <= tau0 * vv) by (apply Rmult_le_pos; [lra | subst vv; pose proof (sq_nn (bx - ax)); pose proof (sq_nn (by_ - ay)); lra]); lra).
    assert (Hk : k = 0) by (pose proof (sq_nn k); assert (k * k <= 0) by lra; nra).
    set (tau1 := t1 / vv).
    assert (Htau : t1 = tau1 * vv) by (unfold tau1; field; lra).
    assert (Hx : (cx - ax) * vv = (bx - ax) * t1 - (by_ - ay) * k) by (subst vv t1 k; ring).
    assert (Hy : (cy - ay) * vv = (by_ - ay) * t1 + (bx - ax) * k) by (subst vv t1 k; ring).
    assert (EC : (mkV2 cx cy : V) = pt (mkV2 ax ay) (mkV2 bx by_) tau1).
    { unfold pt; cbn [vx vy]. unfold tau1. f_equal.
      - apply Rmult_eq_reg_r with vv; [|lra]. replace ((ax + t1 / vv * (bx - ax)) * vv) with (ax * vv + (bx - ax) * t1) by (field; lra). rewrite Hk in Hx. lra.
      - apply Rmult_eq_reg_r with vv; [|lra]. replace ((ay + t1 / vv * (by_ - ay)) * vv) with (ay * vv + (by_ - ay) * t1) by (field; lra). rewrite Hk in Hy. lra. }
    assert (Hord : tau0 < tau1 < 1).
    { split.
      - apply Rmult_lt_reg_r with vv; [lra|]. rewrite <- Htau, <- Et. exact Hlt1.
      - apply Rmult_lt_reg_r with vv; [lra|]. rewrite <- Htau. lra. }
    apply (chain_cons _ _ S (mkV2 cx cy) tau0 tau1); [exact HS | exact EC | exact Hord|].
    destruct nxt as [S' C']. cbn [fst] in Hnxt. subst S'.
    apply (IH (mkV2 cx cy, C') t1 tau1); [lra | exact EC | exact Htau | exact Hrest].
Qed.

Lemma chain_check0_sound (l : SegR) (pcs : list SegR) : chain_check 0 l pcs = true -> is_chain l pcs.
Proof.
  destruct l as [A B]. unfold chain_check, is_chain; cbn [fst snd]. destruct pcs as [|pc rest]; [discriminate|].
  intros H. apply andb_true_iff in H. destruct H as [H1 H2]. apply v2eqb_true in H1.
  apply (chain_rest_sound A B rest pc 0 0); [lra | rewrite H1; symmetry; apply pt_0 | lra | exact H2].
Qed.

Lemma seg_in_sound (f : V -> bool) (P : V -> Prop) : (forall q, f q = true -> P q) ->
  forall s, seg_in f s = true -> seg_all P s.
Proof.
  intros HP s H. unfold seg_in in H. apply andb_true_iff in H. destruct H as [H1 H2]. split; apply HP; assumption.
Qed.

Lemma quad_sound (f : V -> bool) (P : V -> Prop) l : (forall q, f q = true -> P q) ->
  forallb (seg_in f) l = true -> Forall (seg_all P) l.
Proof. intros H. exact (forallb_sound _ _ (seg_in_sound f P H) l). Qed.
Ltac two_leb := let q := fresh "q" in let Hq := fresh "Hq" in
  intros q Hq; cbn in Hq; unops; apply andb_true_iff in Hq; destruct Hq as [Hq1 Hq2];
  apply Rleb_true in Hq1, Hq2; split; assumption.

Lemma ray_check_sound (t : qt ROps SegR) : ray_check t = true -> ray_ok t.
Proof.
  induction t as [| b c h l | b c h c0 IH0 c1 IH1 c2 IH2 c3 IH3]; intros H; cbn [ray_check ray_ok] in *; try exact I.
  apply andb_true_iff in H; destruct H as [H R3]. apply andb_true_iff in H; destruct H as [H R2].
  apply andb_true_iff in H; destruct H as [H R1]. apply andb_true_iff in H; destruct H as [H R0].
  apply andb_true_iff in H; destruct H as [H F3]. apply andb_true_iff in H; destruct H as [H F2].
  apply andb_true_iff in H; destruct H as [F0 F1].
  split; [refine (quad_sound _ _ _ _ F0); two_leb|].
  split; [refine (quad_sound _ _ _ _ F1); two_leb|].
  split; [refine (quad_sound _ _ _ _ F2); two_leb|].
  split; [refine (quad_sound _ _ _ _ F3); two_leb|].
  auto.
Qed.

Lemma in_square0_sound c hs q : in_square_b 0 c hs q = true -> in_sq c hs q.
Proof.
  unfold in_square_b, in_sq. unops. intros H. apply andb_true_iff in H. destruct H as [H1 H2].
  apply Rleb_true in H1, H2. split; lra.
Qed.
Lemma box_check_sound (t : qt ROps SegR) : box_check 0 t = true -> box_ok t.
Proof.
  induction t as [| b c h l | b c h c0 IH0 c1 IH1 c2 IH2 c3 IH3]; intros H; cbn [box_check box_ok] in *; try exact I.
  - apply andb_true_iff in H. destruct H as [H1 H2]. unops. apply Rleb_true in H1. split; [exact H1|].
    exact (forallb_sound _ _ (seg_in_sound _ _ (in_square0_sound c h)) _ H2).
  - repeat (apply andb_true_iff in H; destruct H as [H ?]). unops. apply Rleb_true in H.
    repeat split; auto.
    match goal with Hx : forallb _ _ = true |- _ => exact (forallb_sound _ _ (seg_in_sound _ _ (in_square0_sound c h)) _ Hx) end.
Qed.
Lemma nondeg_b_sound (l : SegR) : nondeg_b l = true -> nondeg l.
Proof.
  destruct l as [[ax ay] [bx by_]]. unfold nondeg_b, nondeg, v2dot, v2sub; cbn [fst snd vx vy]. unops.
  intros H. apply Rltb_true in H. exact H.
Qed.

Theorem winding_clipped_check_sound tree segs chains :
  winding_clipped_check 0 tree segs chains = true -> winding_clipped tree segs.
Proof.
  unfold winding_clipped_check. intros H. repeat (apply andb_true_iff in H; destruct H as [H ?]).
  exists chains. split; [|split].
  - exact (forall2b_sound _ _ chain_check0_sound _ _ H).
  - apply perm_check_sound; assumption.
  - apply ray_check_sound; assumption.
Qed.

Theorem well_clipped_check_sound tree segs chains :
  well_clipped_check 0 tree segs chains = true -> well_clipped tree segs.
Proof.
  unfold well_clipped_check. intros H.
  apply andb_true_iff in H; destruct H as [H Hn]. apply andb_true_iff in H; destruct H as [Hw Hb].
  destruct (winding_clipped_check_sound _ _ _ Hw) as (ch & H1 & H2 & H3).
  exists ch. repeat split; try assumption.
  - apply box_check_sound; assumption.
  - exact (forallb_sound _ _ nondeg_b_sound _ Hn).
Qed.
