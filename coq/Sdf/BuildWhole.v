(* Whole-program facts about the fixed-point loops of sdf/poly.go (createArcs, smoothVertices)
   for ANY number system (the Ops record is a section variable: the statements hold for the
   real, the rational and the float64 instance of the model alike):

     - the loops terminate: the fuel of until_done is never exhausted, the result is the output
       of a pass that reported no change (Go: the `for done == false` loop exits through
       `done == true`), and more fuel does not change the result;
     - createArcs is a function of the input list that can be written down without any loop
       (arcs_spec): every vertex once, in order, every arc vertex preceded by the facets-1 arc
       points computed from the ORIGINAL previous vertex (the last one for vertex 0 of a closed
       polygon) and itself turned into a normal vertex;
     - smoothVertices returns a fixed point of smoothVertex, and each input vertex is either
       kept or replaced by the fillet points computed from the neighbours it had at that time
       (the sharper statement with the original neighbours needs real arithmetic:
       Sdf/BuildWholeR.v). *)
From Coq Require Import ZArith List Bool Lia Arith.
From Sdfx Require Import Num.Ops.
From Sdfx Require Import Geo.Vec.
From Sdfx Require Import Sdf.Build.
Import ListNotations.

(* ------------------------------------------------------------------ list helpers *)
Section ListFacts.
  Context {A : Type}.

  Lemma nth_error_split (l : list A) i v : nth_error l i = Some v ->
    l = firstn i l ++ v :: skipn (S i) l /\ length (firstn i l) = i.
  Proof.
    revert l; induction i; intros [|x l] H; cbn in H; try discriminate.
    - injection H as ->. split; reflexivity.
    - destruct (IHi l H) as [E L]. cbn [firstn skipn app length]. split; [f_equal; exact E | f_equal; exact L].
  Qed.

  Lemma nth_error_prefix (l x : list A) i j : j < i -> i <= length l ->
    nth_error (firstn i l ++ x) j = nth_error l j.
  Proof.
    revert l j; induction i; intros l j Hj Hi; [lia|].
    destruct l as [|a l]; cbn in Hi; [lia|]. destruct j; cbn; [reflexivity|].
    apply IHi; lia.
  Qed.

  Lemma last_cons_default (l : list A) a b : last (b :: l) a = last l b.
  Proof.
    revert a b; induction l as [|c l IH]; intros a b; [reflexivity|].
    change (last (b :: c :: l) a) with (last (c :: l) a). rewrite (IH a c), (IH b c). reflexivity.
  Qed.

  Lemma nth_error_last_cons (a : A) (l : list A) :
    nth_error (a :: l) (length l) = Some (last l a).
  Proof.
    revert a; induction l as [|b l IH]; intros a; [reflexivity|].
    cbn [length nth_error]. rewrite IH. rewrite last_cons_default. reflexivity.
  Qed.

  Lemma nth_error_app_len (x y : list A) j : nth_error (x ++ y) (length x + j) = nth_error y j.
  Proof. induction x; cbn; [reflexivity | exact IHx]. Qed.

  Lemma firstn_app_len (x y : list A) j : firstn (length x + j) (x ++ y) = x ++ firstn j y.
  Proof. induction x; cbn; [reflexivity | f_equal; exact IHx]. Qed.

  Lemma skipn_app_len (x y : list A) j : skipn (length x + j) (x ++ y) = skipn j y.
  Proof. induction x; cbn; [reflexivity | exact IHx]. Qed.
End ListFacts.

(* ------------------------------------------------------------------ the loop skeleton *)
Lemma pass_true_sticky {O : Ops} (step : list (PV O) -> nat -> list (PV O) * bool) :
  forall cnt i l, snd (pass step cnt i l true) = true.
Proof.
  induction cnt; intros i l; cbn [pass]; [reflexivity|].
  destruct (step l i) as [l' ch]. cbn [orb]. apply IHcnt.
Qed.

Section Loops.
  Context {O : Ops}.
  Notation PV := (PV O).
  Variable step : list PV -> nat -> list PV * bool.
  Variable Inv : list PV -> Prop.
  Variable mu : list PV -> nat.
  Hypothesis step_inv : forall l i, Inv l -> Inv (fst (step l i)).
  Hypothesis step_mu : forall l i, Inv l ->
    if snd (step l i) then mu (fst (step l i)) < mu l else mu (fst (step l i)) <= mu l.

  (* one pass: the invariant is kept, the measure does not grow, and it strictly decreases when
     the pass reports a change *)
  Lemma pass_inv : forall cnt i l c, Inv l ->
    Inv (fst (pass step cnt i l c)) /\ mu (fst (pass step cnt i l c)) <= mu l /\
    (snd (pass step cnt i l c) = true -> c = true \/ mu (fst (pass step cnt i l c)) < mu l) /\
    (c = true -> snd (pass step cnt i l c) = true).
  Proof.
    induction cnt; intros i l c HI; cbn [pass].
    - cbn. repeat split; auto.
    - pose proof (step_inv l i HI) as H1. pose proof (step_mu l i HI) as H2.
      destruct (step l i) as [l' ch] eqn:E. cbn in H1, H2.
      destruct (IHcnt (S i) l' (c || ch) H1) as (A & B & C & D).
      split; [exact A|]. split; [destruct ch; lia|]. split.
      + intros Hs. destruct (C Hs) as [Hc|Hc].
        * apply orb_true_iff in Hc. destruct Hc as [Hc|Hc]; [left; exact Hc|]. subst ch. right. lia.
        * right. destruct ch; lia.
      + intros Hc. apply D. rewrite Hc. reflexivity.
  Qed.

  (* until_done never runs out of fuel when the fuel exceeds the measure: the result is the
     output of a pass that reported no change *)
  Lemma until_done_inv : forall fuel l, Inv l -> mu l < fuel ->
    exists lk, Inv lk /\ snd (pass step (length lk) 0 lk false) = false /\
               until_done fuel step l = fst (pass step (length lk) 0 lk false).
  Proof.
    induction fuel; intros l HI Hm; [lia|]. cbn [until_done].
    destruct (pass_inv (length l) 0 l false HI) as (A & B & C & _).
    destruct (pass step (length l) 0 l false) as [l' ch] eqn:E. cbn [fst snd] in *.
    destruct ch.
    - destruct (C eq_refl) as [X|X]; [discriminate|]. apply IHfuel; [exact A | lia].
    - exists l. rewrite E. cbn. auto.
  Qed.

  Lemma until_done_more_fuel : forall fuel k l, Inv l -> mu l < fuel ->
    until_done (fuel + k) step l = until_done fuel step l.
  Proof.
    induction fuel; intros k l HI Hm; [lia|]. cbn [until_done Nat.add].
    destruct (pass_inv (length l) 0 l false HI) as (A & B & C & _).
    destruct (pass step (length l) 0 l false) as [l' ch] eqn:E. cbn [fst snd] in *.
    destruct ch; [|reflexivity].
    destruct (C eq_refl) as [X|X]; [discriminate|]. apply IHfuel; [exact A | lia].
  Qed.
End Loops.

(* a pass whose steps leave the list alone whenever they report no change *)
Section QuietPass.
  Context {O : Ops}.
  Notation PV := (PV O).
  Variable step : list PV -> nat -> list PV * bool.
  Hypothesis step_false_same : forall l i, snd (step l i) = false -> fst (step l i) = l.

  Lemma quiet_pass : forall cnt i l, snd (pass step cnt i l false) = false ->
    fst (pass step cnt i l false) = l /\ forall k, i <= k < i + cnt -> step l k = (l, false).
  Proof.
    induction cnt; intros i l H; cbn [pass] in *.
    - split; [reflexivity | intros; lia].
    - destruct (step l i) as [l' ch] eqn:E. destruct ch.
      + exfalso. cbn [orb] in H. rewrite pass_true_sticky in H. discriminate.
      + pose proof (step_false_same l i) as S. rewrite E in S. cbn in S. specialize (S eq_refl). subst l'.
        cbn [orb] in H. destruct (IHcnt (S i) l H) as [F K]. split; [exact F|].
        intros k Hk. destruct (Nat.eq_dec k i) as [->|N]; [exact E | apply K; lia].
  Qed.
End QuietPass.

(* ------------------------------------------------------------------ createArcs *)
Section Arcs.
  Context {O : Ops}.
  Notation PV := (PV O).
  Notation V2 := (V2 O).

  (* `v.vtype = pvNormal` *)
  Definition norm (v : PV) : PV := mkPV (pv_rel v) PvNormal (pv_v v) (pv_facets v) (pv_radius v).
  Definition is_arc (v : PV) : bool := pvtype_eqb (pv_type v) PvArc.

  (* what an arc vertex v becomes, p the position of the vertex before it (None: vertex 0 of an
     open polygon has no chord, it only loses its mark) *)
  Definition arc_block (p : option V2) (v : PV) : list PV :=
    match p with
    | None => []
    | Some a => map plain (arc_geom a (pv_v v) (pv_radius v) (pv_facets v))
    end ++ [norm v].

  (* createArcs without a loop *)
  Fixpoint arcs_spec (p : option V2) (l : list PV) : list PV :=
    match l with
    | [] => []
    | v :: r => (if is_arc v then arc_block p v else [v]) ++ arcs_spec (Some (pv_v v)) r
    end.

  Definition last_pos (l : list PV) : option V2 := option_map (@pv_v O) (nth_error l (length l - 1)).
  (* the vertex before vertex 0 *)
  Definition wrap_prev (closed : bool) (l : list PV) : option V2 := if closed then last_pos l else None.
  Definition prev_pos (p : option V2) (l : list PV) (i : nat) : option V2 :=
    match i with 0 => p | S j => option_map (@pv_v O) (nth_error l j) end.

  Definition narcs (l : list PV) : nat := length (filter is_arc l).

  Lemma set_nth_split (l : list PV) i v w : nth_error l i = Some v ->
    firstn i (set_nth l i w) = firstn i l /\ skipn i (set_nth l i w) = w :: skipn (S i) l /\
    length (set_nth l i w) = length l.
  Proof.
    unfold set_nth. revert l; induction i; intros [|x l] H; cbn in H; try discriminate.
    - cbn. auto.
    - destruct (IHi l H) as (E1 & E2 & E3).
      rewrite (firstn_cons i x l), (skipn_cons (S i) x l), <- app_comm_cons.
      rewrite firstn_cons, skipn_cons. cbn [length].
      rewrite E1, E3. split; [reflexivity|]. split; [exact E2 | reflexivity].
  Qed.

  Lemma last_pos_cons (a : PV) (l : list PV) : last_pos (a :: l) = Some (pv_v (last l a)).
  Proof.
    unfold last_pos. replace (length (a :: l) - 1) with (length l) by (cbn [length]; lia).
    rewrite nth_error_last_cons. reflexivity.
  Qed.

  (* arcVertex on an arc vertex, in closed form *)
  Lemma arc_vertex_eq closed (l : list PV) i v : nth_error l i = Some v -> is_arc v = true ->
    arc_vertex closed l i =
      (firstn i l ++ arc_block (prev_pos (wrap_prev closed l) l i) v ++ skipn (S i) l,
       match prev_pos (wrap_prev closed l) l i with Some _ => true | None => false end).
  Proof.
    intros Hv Ha. unfold arc_vertex. rewrite Hv. unfold is_arc in Ha. rewrite Ha. cbn [negb].
    fold (norm v).
    destruct (set_nth_split l i v (norm v) Hv) as (E1 & E2 & E3).
    assert (EP : option_map (@pv_v O) (prev_vertex closed (set_nth l i (norm v)) i)
                 = prev_pos (wrap_prev closed l) l i).
    { destruct i as [|j]; cbn [prev_vertex prev_pos].
      - unfold wrap_prev. destruct closed; [|reflexivity].
        destruct l as [|x r]; [discriminate|]. cbn in Hv. injection Hv as ->.
        unfold set_nth. cbn [firstn skipn app]. fold (last_pos (norm v :: r)).
        rewrite !last_pos_cons. destruct r as [|y r]; [reflexivity|].
        rewrite !(last_cons_default r _ y). reflexivity.
      - unfold set_nth. rewrite nth_error_prefix; [reflexivity | lia |].
        apply Nat.lt_le_incl. apply nth_error_Some. rewrite Hv. discriminate. }
    destruct (prev_vertex closed (set_nth l i (norm v)) i) as [pv|] eqn:EPV; cbn [option_map] in EP; rewrite <- EP.
    - rewrite E1, E2. unfold arc_block. cbn [norm pv_v pv_radius pv_facets].
      rewrite <- !app_assoc. reflexivity.
    - unfold arc_block, set_nth. reflexivity.
  Qed.

  Lemma arc_vertex_other closed (l : list PV) i :
    (forall v, nth_error l i = Some v -> is_arc v = false) -> arc_vertex closed l i = (l, false).
  Proof.
    intros H. unfold arc_vertex. destruct (nth_error l i) as [v|]; [|reflexivity].
    specialize (H v eq_refl). unfold is_arc in H. rewrite H. reflexivity.
  Qed.

  Lemma narcs_app (a b : list PV) : narcs (a ++ b) = narcs a + narcs b.
  Proof. unfold narcs. rewrite filter_app, app_length. reflexivity. Qed.

  Lemma narcs_block p v : narcs (arc_block p v) = 0.
  Proof.
    unfold arc_block. rewrite narcs_app. unfold narcs at 2. cbn. rewrite Nat.add_0_r.
    destruct p; [|reflexivity]. unfold narcs. induction (arc_geom _ _ _ _); [reflexivity | exact IHl].
  Qed.

  Lemma narcs_le (l : list PV) : narcs l <= length l.
  Proof. unfold narcs. induction l as [|x l IH]; cbn; [lia|]. destruct (is_arc x); cbn; lia. Qed.

  (* ---- the invariant: the current list is the original one with some arc vertices expanded *)
  Inductive arcrel : option V2 -> list PV -> list PV -> Prop :=
  | ar_nil p : arcrel p [] []
  | ar_keep p v l0 l : arcrel (Some (pv_v v)) l0 l -> arcrel p (v :: l0) (v :: l)
  | ar_done p v l0 l : is_arc v = true -> arcrel (Some (pv_v v)) l0 l -> arcrel p (v :: l0) (arc_block p v ++ l).

  Lemma arcrel_refl p l : arcrel p l l.
  Proof. revert p; induction l; intros; constructor; auto. Qed.

  Lemma block_last p v : exists b, arc_block p v = b ++ [norm v] /\ Forall (fun x => is_arc x = false) b.
  Proof.
    unfold arc_block. eexists; split; [reflexivity|]. destruct p; [|constructor].
    induction (arc_geom _ _ _ _); cbn; constructor; auto.
  Qed.

  Lemma arcrel_nil p l0 l : arcrel p l0 l -> (l0 = [] <-> l = []).
  Proof.
    intros H; destruct H; split; intros E; try reflexivity; try discriminate.
    destruct (block_last p v) as (b & Eb & _). rewrite Eb in E. destruct b; discriminate.
  Qed.

  Lemma last_pos_app (a b : list PV) : b <> [] -> last_pos (a ++ b) = last_pos b.
  Proof.
    intros Hb. destruct b as [|y b]; [congruence|]. clear Hb.
    induction a as [|x a IH]; [reflexivity|].
    cbn [app]. rewrite last_pos_cons. rewrite <- IH.
    destruct (a ++ y :: b) eqn:E; [destruct a; discriminate|].
    rewrite last_pos_cons, last_cons_default. reflexivity.
  Qed.

  (* the position of the last vertex never changes *)
  Lemma arcrel_last p l0 l : arcrel p l0 l -> last_pos l = last_pos l0.
  Proof.
    induction 1 as [p | p v l0 l H IH | p v l0 l Ha H IH]; [reflexivity | |].
    - destruct l0 as [|y l0].
      + apply arcrel_nil in H. destruct H as [H _]. rewrite (H eq_refl). reflexivity.
      + assert (N : l <> []) by (intros E; apply arcrel_nil in H; destruct H as [_ H]; specialize (H E); discriminate).
        change (v :: l) with ([v] ++ l). change (v :: y :: l0) with ([v] ++ y :: l0).
        rewrite !last_pos_app by (assumption || discriminate). exact IH.
    - destruct l0 as [|y l0].
      + apply arcrel_nil in H. destruct H as [H _]. rewrite (H eq_refl), app_nil_r.
        destruct (block_last p v) as (b & Eb & _). rewrite Eb, last_pos_app by discriminate. reflexivity.
      + assert (N : l <> []) by (intros E; apply arcrel_nil in H; destruct H as [_ H]; specialize (H E); discriminate).
        change (v :: y :: l0) with ([v] ++ y :: l0).
        rewrite !last_pos_app by (assumption || discriminate). exact IH.
  Qed.

  Lemma prev_pos_cons p (x : PV) l j : prev_pos p (x :: l) (S j) = prev_pos (Some (pv_v x)) l j.
  Proof. destruct j; reflexivity. Qed.

  (* an arc vertex found behind a prefix without arc vertices *)
  Lemma skip_prefix (b : list PV) : Forall (fun x => is_arc x = false) b ->
    forall (x : PV) l i v, is_arc x = false -> nth_error (b ++ x :: l) i = Some v -> is_arc v = true ->
    exists j, i = length (b ++ [x]) + j /\ nth_error l j = Some v.
  Proof.
    induction 1 as [|y b Hy Hb IH]; intros x l i v Hx Hn Ha.
    - destruct i; cbn in Hn; [injection Hn as ->; congruence|]. exists i. split; [reflexivity | exact Hn].
    - destruct i; cbn in Hn; [injection Hn as ->; congruence|].
      destruct (IH x l i v Hx Hn Ha) as (j & -> & Hj). exists j. split; [reflexivity | exact Hj].
  Qed.

  Lemma prev_pos_skip p (b : list PV) (x : PV) l j :
    prev_pos p ((b ++ [x]) ++ l) (length (b ++ [x]) + j) = prev_pos (Some (pv_v x)) l j.
  Proof.
    revert p; induction b as [|y b IH]; intros p.
    - cbn [app length Nat.add]. apply prev_pos_cons.
    - cbn [app length Nat.add]. rewrite prev_pos_cons. apply IH.
  Qed.

  (* one step keeps the invariant *)
  Lemma arcrel_step : forall p l0 l, arcrel p l0 l -> forall i v,
    nth_error l i = Some v -> is_arc v = true ->
    arcrel p l0 (firstn i l ++ arc_block (prev_pos p l i) v ++ skipn (S i) l).
  Proof.
    induction 1 as [p | p w l0 l H IH | p w l0 l Hw H IH]; intros i v Hn Ha.
    - destruct i; discriminate.
    - destruct i as [|j].
      + cbn in Hn. injection Hn as ->. cbn [firstn skipn app prev_pos]. apply ar_done; assumption.
      + cbn in Hn. cbn [firstn skipn]. rewrite prev_pos_cons. cbn [app]. apply ar_keep. apply IH; assumption.
    - destruct (block_last p w) as (b & Eb & Fb). rewrite Eb in *. rewrite <- app_assoc in Hn. cbn [app] in Hn.
      destruct (skip_prefix b Fb (norm w) l i v eq_refl Hn Ha) as (j & -> & Hj).
      rewrite prev_pos_skip. rewrite firstn_app_len.
      replace (S (length (b ++ [norm w]) + j)) with (length (b ++ [norm w]) + S j) by lia.
      rewrite skipn_app_len. rewrite <- app_assoc. rewrite <- Eb. apply ar_done; [exact Hw|].
      cbn [norm pv_v]. apply IH; assumption.
  Qed.

  (* when no arc vertex is left the current list is arcs_spec of the original one *)
  Lemma arcrel_final p l0 l : arcrel p l0 l -> narcs l = 0 -> l = arcs_spec p l0.
  Proof.
    induction 1 as [p | p w l0 l H IH | p w l0 l Hw H IH]; intros Hz; [reflexivity | |].
    - change (w :: l) with ([w] ++ l) in Hz. rewrite narcs_app in Hz. cbn [arcs_spec].
      destruct (is_arc w) eqn:Ew.
      + unfold narcs in Hz at 1. cbn in Hz. rewrite Ew in Hz. cbn in Hz. lia.
      + cbn [app]. f_equal. apply IH. lia.
    - rewrite narcs_app in Hz. cbn [arcs_spec]. rewrite Hw. f_equal. apply IH. lia.
  Qed.

  Definition arc_inv (closed : bool) (l0 l : list PV) : Prop := arcrel (wrap_prev closed l0) l0 l.

  Lemma arc_inv_wrap closed l0 l : arc_inv closed l0 l -> wrap_prev closed l = wrap_prev closed l0.
  Proof. intros H. unfold wrap_prev. destruct closed; [|reflexivity]. eapply arcrel_last, H. Qed.

  Lemma arc_step_cases closed (l : list PV) i :
    (arc_vertex closed l i = (l, false) /\ forall v, nth_error l i = Some v -> is_arc v = false) \/
    (exists v, nth_error l i = Some v /\ is_arc v = true /\
       arc_vertex closed l i =
         (firstn i l ++ arc_block (prev_pos (wrap_prev closed l) l i) v ++ skipn (S i) l,
          match prev_pos (wrap_prev closed l) l i with Some _ => true | None => false end)).
  Proof.
    destruct (nth_error l i) as [v|] eqn:Hv.
    - destruct (is_arc v) eqn:Ha.
      + right. exists v. split; [reflexivity|]. split; [exact Ha|]. apply arc_vertex_eq; assumption.
      + left. split; [|intros w E; injection E as <-; exact Ha].
        apply arc_vertex_other. intros w E. rewrite Hv in E. injection E as <-. exact Ha.
    - left. split; [|discriminate]. apply arc_vertex_other. intros w E. rewrite Hv in E. discriminate.
  Qed.

  Lemma arc_step_inv closed l0 l i : arc_inv closed l0 l -> arc_inv closed l0 (fst (arc_vertex closed l i)).
  Proof.
    intros HI. destruct (arc_step_cases closed l i) as [(E & _)|(v & Hv & Ha & E)]; rewrite E; cbn [fst]; [exact HI|].
    rewrite (arc_inv_wrap closed l0 l HI). apply arcrel_step; assumption.
  Qed.

  Lemma arc_step_mu closed (l : list PV) i :
    if snd (arc_vertex closed l i) then narcs (fst (arc_vertex closed l i)) < narcs l
    else narcs (fst (arc_vertex closed l i)) <= narcs l.
  Proof.
    destruct (arc_step_cases closed l i) as [(E & _)|(v & Hv & Ha & E)]; rewrite E; cbn [fst snd]; [lia|].
    destruct (nth_error_split l i v Hv) as [El _].
    assert (narcs (firstn i l ++ arc_block (prev_pos (wrap_prev closed l) l i) v ++ skipn (S i) l) < narcs l).
    { pose proof (f_equal narcs El) as EN.
      change (v :: skipn (S i) l) with ([v] ++ skipn (S i) l) in EN. rewrite !narcs_app in EN.
      assert (N1 : narcs [v] = 1) by (unfold narcs; cbn; rewrite Ha; reflexivity).
      rewrite !narcs_app, narcs_block. lia. }
    destruct (prev_pos _ _ _); lia.
  Qed.

  (* a pass that reports no change leaves no arc vertex behind *)
  Lemma arc_quiet_pass closed : forall cnt i (l : list PV),
    snd (pass (arc_vertex closed) cnt i l false) = false -> i + cnt = length l ->
    narcs (firstn i l) = 0 -> narcs (fst (pass (arc_vertex closed) cnt i l false)) = 0.
  Proof.
    induction cnt; intros i l H Hlen Hpre; cbn [pass] in *.
    - cbn. rewrite Nat.add_0_r in Hlen. subst i. rewrite firstn_all in Hpre. exact Hpre.
    - destruct (arc_step_cases closed l i) as [(E & Hno)|(v & Hv & Ha & E)]; rewrite E in *.
      + cbn [orb] in H. apply IHcnt; [exact H | lia |].
        destruct (nth_error l i) as [v|] eqn:Hv.
        * destruct (nth_error_split l i v Hv) as [El Li].
          replace (firstn (S i) l) with (firstn i l ++ [v]).
          { rewrite narcs_app, Hpre. unfold narcs. cbn. rewrite (Hno v eq_refl). reflexivity. }
          rewrite El at 2. replace (S i) with (length (firstn i l) + 1) by lia.
          rewrite firstn_app_len. reflexivity.
        * apply nth_error_None in Hv. lia.
      + destruct (prev_pos (wrap_prev closed l) l i) eqn:EP.
        * exfalso. cbn [orb] in H. rewrite pass_true_sticky in H. discriminate.
        * cbn [orb] in H. destruct (nth_error_split l i v Hv) as [El Li].
          unfold arc_block in *. cbn [app] in *.
          apply IHcnt; [exact H | rewrite !app_length; cbn [length]; rewrite El in Hlen; rewrite app_length in Hlen; cbn [length] in Hlen; lia |].
          replace (S i) with (length (firstn i l) + 1) by lia. rewrite firstn_app_len.
          rewrite narcs_app, Hpre. reflexivity.
  Qed.

  (* ---- the theorem: createArcs terminates with arcs_spec of its input, for every input *)
  Theorem create_arcs_spec closed (l : list PV) : create_arcs closed l = arcs_spec (wrap_prev closed l) l.
  Proof.
    unfold create_arcs.
    destruct (until_done_inv (arc_vertex closed) (arc_inv closed l) narcs
                (fun l' i H => arc_step_inv closed l l' i H) (fun l' i _ => arc_step_mu closed l' i)
                (S (length l)) l) as (lk & HI & Hq & E).
    - apply arcrel_refl.
    - pose proof (narcs_le l). lia.
    - rewrite E. apply arcrel_final.
      + destruct (pass_inv (arc_vertex closed) (arc_inv closed l) narcs
                   (fun l' i H => arc_step_inv closed l l' i H) (fun l' i _ => arc_step_mu closed l' i)
                   (length lk) 0 lk false HI) as (A & _). exact A.
      + apply arc_quiet_pass; [exact Hq | reflexivity | reflexivity].
  Qed.

  (* the loop `for done == false` exits through done == true: the result is the output of a pass
     that reported no change, and any larger fuel gives the same list *)
  Theorem create_arcs_terminates closed (l : list PV) :
    (exists lk, snd (pass (arc_vertex closed) (length lk) 0 lk false) = false /\
                create_arcs closed l = fst (pass (arc_vertex closed) (length lk) 0 lk false)) /\
    forall k, until_done (S (length l) + k) (arc_vertex closed) l = create_arcs closed l.
  Proof.
    split.
    - destruct (until_done_inv (arc_vertex closed) (fun _ => True) narcs
                  (fun _ _ _ => I) (fun l' i _ => arc_step_mu closed l' i) (S (length l)) l I) as (lk & _ & Hq & E).
      + pose proof (narcs_le l). lia.
      + exists lk. split; assumption.
    - intros k. apply (until_done_more_fuel (arc_vertex closed) (fun _ => True) narcs
                         (fun _ _ _ => I) (fun l' i _ => arc_step_mu closed l' i)); [exact I|].
      pose proof (narcs_le l). lia.
  Qed.

  (* consequences read off arcs_spec *)
  Lemma arcs_spec_no_arcs p (l : list PV) : narcs (arcs_spec p l) = 0.
  Proof.
    revert p; induction l as [|v l IH]; intros p; [reflexivity|]. cbn [arcs_spec].
    rewrite narcs_app, IH. destruct (is_arc v) eqn:E; [rewrite narcs_block; reflexivity|].
    unfold narcs. cbn. rewrite E. reflexivity.
  Qed.

  Lemma arcs_spec_plain p (l : list PV) : narcs l = 0 -> arcs_spec p l = l.
  Proof.
    revert p; induction l as [|v l IH]; intros p H; [reflexivity|]. cbn [arcs_spec].
    change (v :: l) with ([v] ++ l) in H. rewrite narcs_app in H.
    destruct (is_arc v) eqn:E.
    - unfold narcs in H at 1. cbn in H. rewrite E in H. cbn in H. lia.
    - cbn [app]. f_equal. apply IH. lia.
  Qed.
End Arcs.

(* ------------------------------------------------------------------ smoothVertices *)
Section Smooth.
  Context {O : Ops}.
  Notation PV := (PV O).
  Notation V2 := (V2 O).

  Definition is_smooth (v : PV) : bool := pvtype_eqb (pv_type v) PvSmooth.
  Definition nsmooth (l : list PV) : nat := length (filter is_smooth l).

  Lemma nsmooth_app (a b : list PV) : nsmooth (a ++ b) = nsmooth a + nsmooth b.
  Proof. unfold nsmooth. rewrite filter_app, app_length. reflexivity. Qed.
  Lemma nsmooth_plain (pts : list V2) : nsmooth (map plain pts) = 0.
  Proof. unfold nsmooth. induction pts; [reflexivity | exact IHpts]. Qed.
  Lemma nsmooth_le (l : list PV) : nsmooth l <= length l.
  Proof. unfold nsmooth. induction l as [|x l IH]; cbn; [lia|]. destruct (is_smooth x); cbn; lia. Qed.

  (* smoothVertex: either nothing happens, or a smooth vertex with both neighbours whose fillet
     fits is replaced, in place, by its fillet points *)
  Lemma smooth_step_cases closed (l : list PV) i :
    smooth_vertex closed l i = (l, false) \/
    exists v vp vn, nth_error l i = Some v /\ is_smooth v = true /\
      prev_vertex closed l i = Some vp /\ next_vertex closed l i = Some vn /\
      smooth_fits (pv_v vp) (pv_v v) (pv_v vn) (pv_radius v) = true /\
      smooth_vertex closed l i =
        (firstn i l ++ map plain (smooth_points (pv_v vp) (pv_v v) (pv_v vn) (pv_radius v) (pv_facets v))
                    ++ skipn (S i) l, true).
  Proof.
    unfold smooth_vertex. destruct (nth_error l i) as [v|] eqn:Hv; [|left; reflexivity].
    destruct (pvtype_eqb (pv_type v) PvSmooth) eqn:Ht; cbn [negb]; [|left; reflexivity].
    destruct (next_vertex closed l i) as [vn|] eqn:Hn; [|left; reflexivity].
    destruct (prev_vertex closed l i) as [vp|] eqn:Hp; [|left; reflexivity].
    unfold smooth_geom. destruct (smooth_fits _ _ _ _) eqn:Hf; [|left; reflexivity].
    right. exists v, vp, vn. repeat split; auto.
  Qed.

  Lemma smooth_step_mu closed (l : list PV) i :
    if snd (smooth_vertex closed l i) then nsmooth (fst (smooth_vertex closed l i)) < nsmooth l
    else nsmooth (fst (smooth_vertex closed l i)) <= nsmooth l.
  Proof.
    destruct (smooth_step_cases closed l i) as [E|(v & vp & vn & Hv & Hs & _ & _ & _ & E)]; rewrite E; cbn [fst snd]; [lia|].
    destruct (nth_error_split l i v Hv) as [El _].
    pose proof (f_equal nsmooth El) as EN.
    change (v :: skipn (S i) l) with ([v] ++ skipn (S i) l) in EN. rewrite !nsmooth_app in EN.
    assert (N1 : nsmooth [v] = 1) by (unfold nsmooth; cbn; rewrite Hs; reflexivity).
    rewrite !nsmooth_app, nsmooth_plain. lia.
  Qed.

  Lemma smooth_false_same closed (l : list PV) i :
    snd (smooth_vertex closed l i) = false -> fst (smooth_vertex closed l i) = l.
  Proof.
    destruct (smooth_step_cases closed l i) as [E|(v & vp & vn & _ & _ & _ & _ & _ & E)]; rewrite E; cbn; [reflexivity | discriminate].
  Qed.

  (* termination: the loop exits through done == true with a fixed point of smoothVertex *)
  Theorem smooth_vertices_fixed_point closed (l : list PV) :
    (forall i, smooth_vertex closed (smooth_vertices closed l) i = (smooth_vertices closed l, false)) /\
    forall k, until_done (S (length l) + k) (smooth_vertex closed) l = smooth_vertices closed l.
  Proof.
    split.
    - unfold smooth_vertices.
      destruct (until_done_inv (smooth_vertex closed) (fun _ => True) nsmooth
                  (fun _ _ _ => I) (fun l' i _ => smooth_step_mu closed l' i) (S (length l)) l I) as (lk & _ & Hq & E).
      + pose proof (nsmooth_le l). lia.
      + destruct (quiet_pass (smooth_vertex closed) (smooth_false_same closed) (length lk) 0 lk Hq) as [F K].
        rewrite E, F. intros i. destruct (Nat.lt_ge_cases i (length lk)) as [Hi|Hi]; [apply K; lia|].
        unfold smooth_vertex. apply nth_error_None in Hi. rewrite Hi. reflexivity.
    - intros k. apply (until_done_more_fuel (smooth_vertex closed) (fun _ => True) nsmooth
                         (fun _ _ _ => I) (fun l' i _ => smooth_step_mu closed l' i)); [exact I|].
      pose proof (nsmooth_le l). lia.
  Qed.

  (* structure: every input vertex, in order, kept or replaced by the fillet points computed from
     some pair of neighbour positions for which the fillet fits *)
  Inductive smrel : list PV -> list PV -> Prop :=
  | sm_nil : smrel [] []
  | sm_keep v l0 l : smrel l0 l -> smrel (v :: l0) (v :: l)
  | sm_done v l0 l vp vn : is_smooth v = true -> smooth_fits vp (pv_v v) vn (pv_radius v) = true ->
      smrel l0 l ->
      smrel (v :: l0) (map plain (smooth_points vp (pv_v v) vn (pv_radius v) (pv_facets v)) ++ l).

  Lemma smrel_refl l : smrel l l.
  Proof. induction l; constructor; auto. Qed.

  Lemma skip_plain (pts : list V2) (l : list PV) i v :
    nth_error (map plain pts ++ l) i = Some v -> is_smooth v = true ->
    exists j, i = length (map plain pts) + j /\ nth_error l j = Some v.
  Proof.
    revert i; induction pts as [|q pts IH]; intros i Hn Hs.
    - exists i. split; [reflexivity | exact Hn].
    - destruct i; cbn in Hn; [injection Hn as <-; discriminate|].
      destruct (IH i Hn Hs) as (j & -> & Hj). exists j. split; [reflexivity | exact Hj].
  Qed.

  Lemma smrel_step : forall l0 l, smrel l0 l -> forall i v vp vn,
    nth_error l i = Some v -> is_smooth v = true -> smooth_fits vp (pv_v v) vn (pv_radius v) = true ->
    smrel l0 (firstn i l ++ map plain (smooth_points vp (pv_v v) vn (pv_radius v) (pv_facets v)) ++ skipn (S i) l).
  Proof.
    induction 1 as [| w l0 l H IH | w l0 l wp wn Hw Hf H IH]; intros i v vp vn Hn Hs Hfit.
    - destruct i; discriminate.
    - destruct i as [|j].
      + cbn in Hn. injection Hn as ->. cbn [firstn skipn app]. apply sm_done; assumption.
      + cbn in Hn. rewrite firstn_cons, skipn_cons. cbn [app]. apply sm_keep. apply IH; assumption.
    - destruct (skip_plain _ l i v Hn Hs) as (j & -> & Hj).
      rewrite firstn_app_len.
      replace (S (length (map plain (smooth_points wp (pv_v w) wn (pv_radius w) (pv_facets w))) + j))
        with (length (map plain (smooth_points wp (pv_v w) wn (pv_radius w) (pv_facets w))) + S j) by lia.
      rewrite skipn_app_len, <- app_assoc. apply sm_done; [exact Hw | exact Hf |]. apply IH; assumption.
  Qed.

  Theorem smooth_vertices_structure closed (l : list PV) : smrel l (smooth_vertices closed l).
  Proof.
    unfold smooth_vertices.
    assert (SI : forall l' i, smrel l l' -> smrel l (fst (smooth_vertex closed l' i))).
    { intros l' i HI. destruct (smooth_step_cases closed l' i) as [E|(v & vp & vn & Hv & Hs & _ & _ & Hf & E)]; rewrite E; cbn [fst]; [exact HI|].
      apply smrel_step; assumption. }
    destruct (until_done_inv (smooth_vertex closed) (smrel l) nsmooth SI
                (fun l' i _ => smooth_step_mu closed l' i) (S (length l)) l (smrel_refl l)) as (lk & HI & Hq & E).
    - pose proof (nsmooth_le l). lia.
    - destruct (quiet_pass (smooth_vertex closed) (smooth_false_same closed) (length lk) 0 lk Hq) as [F _].
      rewrite E, F. exact HI.
  Qed.
End Smooth.
